import Operon.Model.Wiring
/-! Helper lemmas for the typed-wiring theorems (C16). -/
namespace Operon.Wiring

/-! ### vocabulary of the theorems -/

/-- the value may sit on an input port of this type: same data type, at least the required integrity -/
def TV.fits (v : TV) (pt : PortType) : Prop := v.dt = pt.dt ∧ pt.il ≤ v.il

/-- the value carries exactly the declared label of an output port -/
def TV.exact (v : TV) (pt : PortType) : Prop := v.dt = pt.dt ∧ v.il = pt.il

/-- module names are unique (what `add_module` maintains; `modules` is a dict) -/
def Diagram.WF (d : Diagram) : Prop := (d.modules.map (·.name)).Nodup

/-- every wire joins an existing output port to an existing input port and obeys the flow rule
    (what `connect` maintains) -/
def Diagram.Accepted (d : Diagram) : Prop :=
  ∀ w ∈ d.wires, ∃ s t, d.outPort w.srcM w.srcP = some s ∧ d.inPort w.dstM w.dstP = some t ∧
    s.dt = t.dt ∧ t.il ≤ s.il

/-- the weaker shape condition: every wire joins existing ports (no KeyError possible) -/
def Diagram.WiresExist (d : Diagram) : Prop :=
  ∀ w ∈ d.wires, (d.findMod w.srcM).isSome ∧ (d.inPort w.dstM w.dstP).isSome

theorem Diagram.Accepted.wiresExist {d : Diagram} (h : d.Accepted) : d.WiresExist := by
  intro w hw
  obtain ⟨s, t, hs, ht, -, -⟩ := h w hw
  refine ⟨?_, by simp [ht]⟩
  unfold Diagram.outPort at hs
  cases hf : d.findMod w.srcM with
  | none => simp [hf] at hs
  | some m => simp

/-! ### association lists -/

theorem hasKey_iff {β : Type} (k : Nat) (l : List (Nat × β)) : hasKey k l = true ↔ ∃ v, (k, v) ∈ l := by
  unfold hasKey
  simp only [List.any_eq_true, beq_iff_eq]
  constructor
  · rintro ⟨⟨k', v⟩, hm, rfl⟩; exact ⟨v, hm⟩
  · rintro ⟨v, hm⟩; exact ⟨(k, v), hm, rfl⟩

theorem hasKey_append {β : Type} (k : Nat) (a b : List (Nat × β)) :
    hasKey k (a ++ b) = (hasKey k a || hasKey k b) := by
  unfold hasKey; simp

theorem lookup_mem {β : Type} {k : Nat} {v : β} : ∀ {l : List (Nat × β)}, l.lookup k = some v → (k, v) ∈ l
  | [], h => by simp at h
  | (k', v') :: r, h => by
    simp only [List.lookup_cons] at h
    split at h
    · rename_i hk
      simp only [beq_iff_eq] at hk
      simp only [Option.some.injEq] at h
      subst hk h; simp
    · exact List.mem_cons_of_mem _ (lookup_mem h)

theorem mem_setKey {β : Type} {k : Nat} {v : β} {pv : Nat × β} :
    ∀ {l : List (Nat × β)}, pv ∈ setKey k v l → pv = (k, v) ∨ pv ∈ l
  | [], h => by simp [setKey] at h; exact Or.inl h
  | (k', v') :: r, h => by
    simp only [setKey] at h
    split at h
    · simp only [List.mem_cons] at h
      rcases h with h | h
      · exact Or.inl h
      · exact Or.inr (List.mem_cons_of_mem _ h)
    · simp only [List.mem_cons] at h
      rcases h with h | h
      · exact Or.inr (by simp [h])
      · rcases mem_setKey h with h | h
        · exact Or.inl h
        · exact Or.inr (List.mem_cons_of_mem _ h)

theorem findMod_some {d : Diagram} {n : Nat} {m : ModuleSpec} (h : d.findMod n = some m) :
    m ∈ d.modules ∧ m.name = n := by
  unfold Diagram.findMod at h
  exact ⟨List.mem_of_find?_eq_some h, by simpa using List.find?_some h⟩

theorem findMod_of_mem {d : Diagram} (hwf : d.WF) {m : ModuleSpec} (hm : m ∈ d.modules) :
    d.findMod m.name = some m := by
  unfold Diagram.findMod Diagram.WF at *
  generalize d.modules = l at *
  induction l with
  | nil => simp at hm
  | cons a l ih =>
    simp only [List.map_cons, List.nodup_cons, List.mem_map, not_exists, not_and] at hwf
    simp only [List.mem_cons] at hm
    rcases hm with rfl | hm
    · simp
    · have hne : a.name ≠ m.name := fun h => hwf.1 m hm h.symm
      rw [List.find?_cons_of_neg (by simpa using hne)]
      exact ih hwf.2 hm

theorem inPort_some {d : Diagram} {n p : Nat} {pt : PortType} (h : d.inPort n p = some pt) :
    ∃ m, d.findMod n = some m ∧ m.inputs.lookup p = some pt := by
  unfold Diagram.inPort at h
  cases hf : d.findMod n with
  | none => simp [hf] at h
  | some m => exact ⟨m, rfl, by simpa [hf] using h⟩

theorem outPort_some {d : Diagram} {n p : Nat} {pt : PortType} (h : d.outPort n p = some pt) :
    ∃ m, d.findMod n = some m ∧ m.outputs.lookup p = some pt := by
  unfold Diagram.outPort at h
  cases hf : d.findMod n with
  | none => simp [hf] at h
  | some m => exact ⟨m, rfl, by simpa [hf] using h⟩

/-! ### the flow rule and the coercions -/

theorem requireFlowTo_none_iff (s t : PortType) : s.requireFlowTo t = none ↔ s.dt = t.dt ∧ t.il ≤ s.il := by
  unfold PortType.requireFlowTo
  by_cases h1 : s.dt = t.dt <;> by_cases h2 : s.il < t.il <;> simp [h1, h2] <;> omega

theorem canFlowTo_iff (s t : PortType) : s.canFlowTo t = true ↔ s.dt = t.dt ∧ t.il ≤ s.il := by
  unfold PortType.canFlowTo; simp

theorem requireFlowTo_isWiringError {s t : PortType} {e : Err} (h : s.requireFlowTo t = some e) :
    e.isWiringError = true := by
  unfold PortType.requireFlowTo at h
  split at h
  · cases h; rfl
  · split at h
    · cases h; rfl
    · cases h

theorem coerceInput_ok {v : Val} {pt : PortType} {tv : TV} (h : coerceInput v pt = .ok tv) : tv.fits pt := by
  unfold coerceInput at h
  split at h
  · rename_i t
    split at h
    · cases h
    · split at h
      · cases h
      · cases h
        rename_i h1 h2
        simp only [bne_iff_ne, ne_eq, Classical.not_not] at h1
        exact ⟨h1, by omega⟩
  · cases h; exact ⟨rfl, Nat.le_refl _⟩

theorem coerceInput_err {v : Val} {pt : PortType} {e : Err} (h : coerceInput v pt = .error e) :
    e.isWiringError = true := by
  unfold coerceInput at h
  split at h
  · split at h
    · cases h; rfl
    · split at h
      · cases h; rfl
      · cases h
  · cases h

theorem coerceOutput_ok {v : Val} {pt : PortType} {tv : TV} (h : coerceOutput v pt = .ok tv) :
    tv.exact pt ∧ (∀ t, v = .typed t → t = tv) := by
  unfold coerceOutput at h
  split at h
  · rename_i t
    split at h
    · cases h
    · split at h
      · cases h
      · cases h
        rename_i h1 h2
        simp only [bne_iff_ne, ne_eq, Classical.not_not] at h1 h2
        exact ⟨⟨h1, h2⟩, by intro t' ht'; cases ht'; rfl⟩
  · cases h; exact ⟨⟨rfl, rfl⟩, by intro t ht; cases ht⟩

theorem coerceOutput_err {v : Val} {pt : PortType} {e : Err} (h : coerceOutput v pt = .error e) :
    e.isWiringError = true := by
  unfold coerceOutput at h
  split at h
  · split at h
    · cases h; rfl
    · split at h
      · cases h; rfl
      · cases h
  · cases h

/-- a labelled value that contradicts the declared label is refused -/
theorem coerceOutput_mislabelled {t : TV} {pt : PortType} (h : ¬ t.exact pt) :
    ∃ e, coerceOutput (.typed t) pt = .error e ∧ e.isWiringError = true := by
  unfold coerceOutput
  by_cases h1 : t.dt = pt.dt
  · by_cases h2 : t.il = pt.il
    · exact absurd ⟨h1, h2⟩ h
    · exact ⟨.outputIntegrity, by simp [h1, h2], rfl⟩
  · exact ⟨.outputType, by simp [h1], rfl⟩

/-- what a successful `coerceOutputs` says about its result and about the raw dict -/
theorem coerceOutputs_ok {raw : List (Nat × Val)} :
    ∀ {ports : List (Nat × PortType)} {outs : List (Nat × TV)}, coerceOutputs raw ports = .ok outs →
      keys outs = keys ports ∧
      (∀ p v, outs.lookup p = some v → ∃ pt, ports.lookup p = some pt ∧ v.exact pt) ∧
      (∀ pp ∈ ports, ∀ t, raw.lookup pp.1 = some (.typed t) → t.exact pp.2)
  | [], outs, h => by
    simp only [coerceOutputs] at h; cases h
    exact ⟨rfl, by intro p v h; simp at h, by intro pp h; simp at h⟩
  | (p, pt) :: r, outs, h => by
    simp only [coerceOutputs] at h
    split at h
    · cases h
    · rename_i v hv
      split at h
      · cases h
      · rename_i tv htv
        split at h
        · cases h
        · rename_i l hl
          cases h
          obtain ⟨ih1, ih2, ih3⟩ := coerceOutputs_ok hl
          have hco := coerceOutput_ok htv
          refine ⟨by simp [keys] at ih1 ⊢; exact ih1, ?_, ?_⟩
          · intro p' v' hlk
            simp only [List.lookup_cons] at hlk ⊢
            split at hlk
            · cases hlk; exact ⟨pt, rfl, hco.1⟩
            · exact ih2 p' v' hlk
          · intro pp hpp t ht
            simp only [List.mem_cons] at hpp
            rcases hpp with rfl | hpp
            · simp only at ht
              rw [hv] at ht; cases ht
              have := hco.2 t rfl
              subst this; exact hco.1
            · exact ih3 pp hpp t ht

theorem coerceOutputs_err {raw : List (Nat × Val)} :
    ∀ {ports : List (Nat × PortType)} {e : Err}, coerceOutputs raw ports = .error e → e.isWiringError = true
  | [], e, h => by simp [coerceOutputs] at h
  | (p, pt) :: r, e, h => by
    simp only [coerceOutputs] at h
    split at h
    · cases h; rfl
    · split at h
      · rename_i e' he'; cases h; exact coerceOutput_err he'
      · split at h
        · rename_i e' he'; cases h; exact coerceOutputs_err he'
        · cases h

/-- a mislabelled entry for a declared port makes `coerceOutputs` fail -/
theorem coerceOutputs_mislabelled {raw : List (Nat × Val)} :
    ∀ {ports : List (Nat × PortType)} {pp : Nat × PortType} {t : TV}, pp ∈ ports →
      raw.lookup pp.1 = some (.typed t) → ¬ t.exact pp.2 → ∃ e, coerceOutputs raw ports = .error e := by
  intro ports pp t hpp hraw hbad
  cases h : coerceOutputs raw ports with
  | error e => exact ⟨e, rfl⟩
  | ok outs => exact absurd ((coerceOutputs_ok h).2.2 pp hpp t hraw) hbad

/-! ### external inputs -/

/-- every value sitting on an input port of a declared module is on a declared port and (under `G`) fits it -/
def PortsFit (d : Diagram) (G : Prop) (mi : MInputs) : Prop :=
  ∀ n m, d.findMod n = some m → ∀ pv ∈ mi n, ∃ pt, m.inputs.lookup pv.1 = some pt ∧ (G → pv.2.fits pt)

theorem extPorts_ok {m : ModuleSpec} {G : Prop} :
    ∀ {ins : List (Nat × Val)} {acc res : List (Nat × TV)}, extPorts m ins acc = .ok res →
      (∀ pv ∈ acc, ∃ pt, m.inputs.lookup pv.1 = some pt ∧ (G → pv.2.fits pt)) →
      (∀ pv ∈ res, ∃ pt, m.inputs.lookup pv.1 = some pt ∧ (G → pv.2.fits pt))
  | [], acc, res, h, hacc => by simp only [extPorts] at h; cases h; exact hacc
  | (p, v) :: r, acc, res, h, hacc => by
    simp only [extPorts] at h
    split at h
    · cases h
    · rename_i pt hpt
      split at h
      · cases h
      · rename_i tv htv
        refine extPorts_ok h ?_
        intro pv hpv
        rcases mem_setKey hpv with rfl | hpv
        · exact ⟨pt, hpt, fun _ => coerceInput_ok htv⟩
        · exact hacc pv hpv

theorem extPorts_err {m : ModuleSpec} :
    ∀ {ins : List (Nat × Val)} {acc : List (Nat × TV)} {e : Err}, extPorts m ins acc = .error e →
      e.isWiringError = true
  | [], acc, e, h => by simp [extPorts] at h
  | (p, v) :: r, acc, e, h => by
    simp only [extPorts] at h
    split at h
    · cases h; rfl
    · split at h
      · rename_i e' he'; cases h; exact coerceInput_err he'
      · exact extPorts_err h

theorem extPhase_ok {d : Diagram} {G : Prop} :
    ∀ {ext : List (Nat × List (Nat × Val))} {mi mi' : MInputs}, extPhase d ext mi = .ok mi' →
      PortsFit d G mi → PortsFit d G mi'
  | [], mi, mi', h, hmi => by simp only [extPhase] at h; cases h; exact hmi
  | (n, ins) :: r, mi, mi', h, hmi => by
    simp only [extPhase] at h
    split at h
    · cases h
    · rename_i m hm
      split at h
      · cases h
      · rename_i l hl
        refine extPhase_ok h ?_
        intro n' m' hm' pv hpv
        by_cases hn : n' = n
        · subst hn
          simp only [if_true] at hpv
          rw [hm] at hm'; cases hm'
          exact extPorts_ok hl (hmi n' m hm) pv hpv
        · simp only [hn, if_false] at hpv
          exact hmi n' m' hm' pv hpv

theorem extPhase_err {d : Diagram} :
    ∀ {ext : List (Nat × List (Nat × Val))} {mi : MInputs} {e : Err}, extPhase d ext mi = .error e →
      e.isWiringError = true
  | [], mi, e, h => by simp [extPhase] at h
  | (n, ins) :: r, mi, e, h => by
    simp only [extPhase] at h
    split at h
    · cases h; rfl
    · split at h
      · rename_i e' he'; cases h; exact extPorts_err he'
      · exact extPhase_err h

/-! ### one module: handler invocation -/

/-- the recorded outputs of module `m` are what its handler returned on the recorded inputs, coerced
    port by port (or nothing, for a module without handler) -/
def RecGood (H : Nat → Option Handler) (m : ModuleSpec) (r : Rec) : Prop :=
  match H r.name with
  | none => r.outputs = []
  | some h => ∃ raw, h r.inputs = .ret raw ∧ sameKeys (keys raw) (keys m.outputs) = true ∧
      coerceOutputs raw m.outputs = .ok r.outputs

/-- the handler invocation `c` returned, for a declared output port, an explicitly labelled value whose
    label contradicts the declaration -/
def Mislabelled (d : Diagram) (H : Nat → Option Handler) (c : Call) : Prop :=
  ∃ m h raw pp t, d.findMod c.name = some m ∧ H c.name = some h ∧ h c.inputs = .ret raw ∧
    pp ∈ m.outputs ∧ raw.lookup pp.1 = some (.typed t) ∧ ¬ t.exact pp.2

def newCall (H : Nat → Option Handler) (st : St) (m : ModuleSpec) : List Call :=
  if (H m.name).isSome then [⟨m.name, st.minputs m.name⟩] else []

theorem produce_ok {H : Nat → Option Handler} {st : St} {m : ModuleSpec} {calls : List Call}
    {outs : List (Nat × TV)} (h : produce H st m = .ok (calls, outs)) :
    RecGood H m ⟨m.name, st.minputs m.name, outs⟩ ∧ calls = st.calls ++ newCall H st m := by
  unfold produce at h
  unfold RecGood newCall
  split at h
  · rename_i hH
    cases h
    simp [hH]
  · rename_i hd hH
    split at h
    · cases h
    · cases h
    · rename_i raw hraw
      split at h
      · cases h
      · rename_i hk
        split at h
        · cases h
        · rename_i outs' ho
          cases h
          simp only [hH, Option.isSome_some, if_true, and_true]
          exact ⟨raw, hraw, by simpa using hk, ho⟩

theorem produce_err {H : Nat → Option Handler} {st : St} {m : ModuleSpec} {calls : List Call} {e : Err}
    (h : produce H st m = .error (calls, e)) :
    calls = st.calls ++ [⟨m.name, st.minputs m.name⟩] ∧
    ∃ hd, H m.name = some hd ∧
      ((e = .handlerRaised ∧ hd (st.minputs m.name) = .raise) ∨
       (e = .attributeError ∧ hd (st.minputs m.name) = .nondict) ∨
       (e.isWiringError = true ∧ ∃ raw, hd (st.minputs m.name) = .ret raw)) := by
  unfold produce at h
  split at h
  · cases h
  · rename_i hd hH
    split at h
    · rename_i hr
      cases h
      exact ⟨rfl, hd, hH, Or.inl ⟨rfl, hr⟩⟩
    · rename_i hr
      cases h
      exact ⟨rfl, hd, hH, Or.inr (Or.inl ⟨rfl, hr⟩)⟩
    · rename_i raw hraw
      split at h
      · cases h
        exact ⟨rfl, hd, hH, Or.inr (Or.inr ⟨rfl, raw, hraw⟩)⟩
      · split at h
        · rename_i e' he'
          cases h
          exact ⟨rfl, hd, hH, Or.inr (Or.inr ⟨coerceOutputs_err he', raw, hraw⟩)⟩
        · cases h

/-- a mislabelled return value makes `produce` fail (with a WiringError, by `produce_err`) -/
theorem produce_mislabelled {d : Diagram} {H : Nat → Option Handler} {st : St} {m : ModuleSpec}
    (hm : d.findMod m.name = some m) (hbad : Mislabelled d H ⟨m.name, st.minputs m.name⟩) :
    ∃ calls e, produce H st m = .error (calls, e) ∧ e.isWiringError = true := by
  obtain ⟨m', h, raw, pp, t, hm', hH, hret, hpp, hraw, hne⟩ := hbad
  simp only at hm' hH hret
  rw [hm] at hm'; cases hm'
  cases hp : produce H st m with
  | error f =>
    obtain ⟨calls, e⟩ := f
    refine ⟨calls, e, rfl, ?_⟩
    obtain ⟨-, hd, hH', hcase⟩ := produce_err hp
    rw [hH] at hH'; cases hH'
    rcases hcase with ⟨-, hr⟩ | ⟨-, hr⟩ | ⟨hw, -⟩
    · rw [hret] at hr; cases hr
    · rw [hret] at hr; cases hr
    · exact hw
  | ok res =>
    obtain ⟨calls, outs⟩ := res
    have hg := (produce_ok hp).1
    unfold RecGood at hg
    simp only [hH] at hg
    obtain ⟨raw', hret', -, hco⟩ := hg
    rw [hret] at hret'; cases hret'
    exact absurd ((coerceOutputs_ok hco).2.2 pp hpp t hraw) hne

/-! ### one module: delivery along the outgoing wires -/

theorem deliver_ok {d : Diagram} {enforce : Bool} {outs : List (Nat × TV)} :
    ∀ {ws : List Wire} {st st' : St}, deliver d enforce outs ws st = .ok st' →
      st'.records = st.records ∧ st'.calls = st.calls ∧
      (∀ n, ∃ extra, st'.minputs n = st.minputs n ++ extra ∧
        ∀ pv ∈ extra, ∃ w ∈ ws, w.dstM = n ∧ w.dstP = pv.1 ∧ outs.lookup w.srcP = some pv.2 ∧
          ∃ pt, d.inPort n pv.1 = some pt ∧ (enforce = true → pv.2.fits pt)) ∧
      (∀ w ∈ ws, hasKey w.dstP (st.minputs w.dstM) = false ∧ (d.inPort w.dstM w.dstP).isSome ∧
        ∃ v, outs.lookup w.srcP = some v ∧ (w.dstP, v) ∈ st'.minputs w.dstM)
  | [], st, st', h => by
    simp only [deliver] at h; cases h
    exact ⟨rfl, rfl, fun n => ⟨[], by simp, by simp⟩, by simp⟩
  | w :: ws, st, st', h => by
    simp only [deliver] at h
    split at h
    · cases h
    · rename_i v hv
      split at h
      · cases h
      · rename_i pt hpt
        split at h
        · cases h
        · rename_i hty
          split at h
          · cases h
          · rename_i hil
            split at h
            · cases h
            · rename_i hk
              obtain ⟨ih1, ih2, ih3, ih4⟩ := deliver_ok h
              have hfit : enforce = true → v.fits pt := by
                intro he
                simp only [he, Bool.true_and, bne_iff_ne, ne_eq, Classical.not_not, decide_eq_true_eq,
                  Nat.not_lt] at hty hil
                exact ⟨hty, hil⟩
              refine ⟨ih1, ih2, ?_, ?_⟩
              · intro n
                obtain ⟨extra, he1, he2⟩ := ih3 n
                by_cases hn : n = w.dstM
                · subst hn
                  refine ⟨(w.dstP, v) :: extra, by simp [he1, MInputs.add], ?_⟩
                  intro pv hpv
                  simp only [List.mem_cons] at hpv
                  rcases hpv with rfl | hpv
                  · exact ⟨w, by simp, rfl, rfl, hv, pt, hpt, hfit⟩
                  · obtain ⟨w', hw', rest⟩ := he2 pv hpv
                    exact ⟨w', List.mem_cons_of_mem _ hw', rest⟩
                · refine ⟨extra, by simp [he1, MInputs.add, hn], ?_⟩
                  intro pv hpv
                  obtain ⟨w', hw', rest⟩ := he2 pv hpv
                  exact ⟨w', List.mem_cons_of_mem _ hw', rest⟩
              · intro w' hw'
                simp only [List.mem_cons] at hw'
                rcases hw' with rfl | hw'
                · refine ⟨by simpa using hk, by simp [hpt], v, hv, ?_⟩
                  obtain ⟨extra, he1, -⟩ := ih3 w'.dstM
                  rw [he1]; simp [MInputs.add]
                · obtain ⟨a, b, c⟩ := ih4 w' hw'
                  refine ⟨?_, b, c⟩
                  simp only [MInputs.add] at a
                  split at a
                  · rw [hasKey_append] at a
                    simp only [Bool.or_eq_false_iff] at a
                    exact a.1
                  · exact a

theorem deliver_err {d : Diagram} {enforce : Bool} {outs : List (Nat × TV)} :
    ∀ {ws : List Wire} {st : St} {calls : List Call} {e : Err},
      deliver d enforce outs ws st = .error (calls, e) →
      calls = st.calls ∧ (e.isWiringError = true ∨ (e = .keyError ∧ ∃ w ∈ ws, d.inPort w.dstM w.dstP = none))
  | [], st, calls, e, h => by simp [deliver] at h
  | w :: ws, st, calls, e, h => by
    simp only [deliver] at h
    split at h
    · cases h; exact ⟨rfl, Or.inl rfl⟩
    · split at h
      · rename_i hpt; cases h; exact ⟨rfl, Or.inr ⟨rfl, w, by simp, hpt⟩⟩
      · split at h
        · cases h; exact ⟨rfl, Or.inl rfl⟩
        · split at h
          · cases h; exact ⟨rfl, Or.inl rfl⟩
          · split at h
            · cases h; exact ⟨rfl, Or.inl rfl⟩
            · obtain ⟨a, b⟩ := deliver_err h
              refine ⟨a, ?_⟩
              rcases b with b | ⟨b, w', hw', hn⟩
              · exact Or.inl b
              · exact Or.inr ⟨b, w', List.mem_cons_of_mem _ hw', hn⟩

/-! ### the invariant of the scheduling loop -/

/-- What holds of every state the scheduling loop reaches without raising.  `G` is the guard under which
    labels are promised (`enforce_static_checks` on, or every wire accepted by the flow rule). -/
structure Inv (d : Diagram) (H : Nat → Option Handler) (G : Prop) (st : St) : Prop where
  nodup : st.order.Nodup
  recMod : ∀ r ∈ st.records, ∃ m, d.findMod r.name = some m ∧ r.inputs = st.minputs r.name ∧
    (∀ pp ∈ m.inputs, hasKey pp.1 r.inputs = true) ∧ RecGood H m r
  fit : PortsFit d G st.minputs
  ordered : ∀ w ∈ d.wires, w.srcM ∈ st.order → w.dstM ∈ st.order →
    st.order.idxOf w.srcM < st.order.idxOf w.dstM
  flowed : ∀ w ∈ d.wires, w.srcM ∈ st.order → ∃ r ∈ st.records, r.name = w.srcM ∧
    (d.inPort w.dstM w.dstP).isSome = true ∧
    ∃ v, r.outputs.lookup w.srcP = some v ∧ (w.dstP, v) ∈ st.minputs w.dstM
  callsEq : st.calls = (st.records.filter (fun r => (H r.name).isSome)).map (fun r => ⟨r.name, r.inputs⟩)

theorem mem_order {st : St} {n : Nat} : n ∈ st.order ↔ ∃ r ∈ st.records, r.name = n := by
  simp [St.order]

theorem ready_iff {st : St} {m : ModuleSpec} :
    ready st m = true ↔ ∀ pp ∈ m.inputs, hasKey pp.1 (st.minputs m.name) = true := by
  simp [ready]

/-- a module all of whose declared input ports are filled receives nothing more -/
theorem deliver_frozen {d : Diagram} {enforce : Bool} {outs : List (Nat × TV)} {ws : List Wire} {st st' : St}
    (h : deliver d enforce outs ws st = .ok st') {n : Nat} {m : ModuleSpec} (hm : d.findMod n = some m)
    (hall : ∀ pp ∈ m.inputs, hasKey pp.1 (st.minputs n) = true) : st'.minputs n = st.minputs n := by
  obtain ⟨-, -, d3, d4⟩ := deliver_ok h
  obtain ⟨extra, he, hx⟩ := d3 n
  have : extra = [] := by
    rw [List.eq_nil_iff_forall_not_mem]
    intro pv hpv
    obtain ⟨w, hw, hwn, hwp, -, pt, hpt, -⟩ := hx pv hpv
    obtain ⟨m', hm', hlk⟩ := inPort_some hpt
    rw [hm] at hm'; cases hm'
    have h1 := hall (pv.1, pt) (lookup_mem hlk)
    have h2 := (d4 w hw).1
    rw [hwn, hwp] at h2
    simp only at h1
    rw [h1] at h2; cases h2
  rw [he, this]; simp

theorem runModule_inv {d : Diagram} {H : Nat → Option Handler} {enforce : Bool} {G : Prop} {st st' : St}
    {m : ModuleSpec} (hwf : d.WF) (hG : G → enforce = true ∨ d.Accepted) (hinv : Inv d H G st)
    (hm : m ∈ d.modules) (hnot : m.name ∉ st.order) (hready : ready st m = true)
    (h : runModule d H enforce st m = .ok st') : Inv d H G st' ∧ st'.order = st.order ++ [m.name] := by
  unfold runModule at h
  split at h
  · cases h
  · rename_i calls outs hp
    obtain ⟨hgood, hcalls⟩ := produce_ok hp
    obtain ⟨d1, d2, d3, d4⟩ := deliver_ok h
    simp only at d1 d2 d3 d4
    have hfm : d.findMod m.name = some m := findMod_of_mem hwf hm
    have hall_m := ready_iff.mp hready
    have hord : st'.order = st.order ++ [m.name] := by simp [St.order, d1]
    have frozen : ∀ n m0, d.findMod n = some m0 → (∀ pp ∈ m0.inputs, hasKey pp.1 (st.minputs n) = true) →
        st'.minputs n = st.minputs n := fun n m0 h1 h2 => deliver_frozen h h1 h2
    have hws : ∀ w ∈ d.outgoing m.name, w ∈ d.wires ∧ w.srcM = m.name := by
      intro w hw
      simpa [Diagram.outgoing] using hw
    have hmono : ∀ n pv, pv ∈ st.minputs n → pv ∈ st'.minputs n := by
      intro n pv hpv
      obtain ⟨extra, he, -⟩ := d3 n
      rw [he]; exact List.mem_append_left _ hpv
    -- a wire out of `m` cannot end in a module that has already run, nor in `m` itself
    have hnoback : ∀ w ∈ d.outgoing m.name, w.dstM ∉ st.order ++ [m.name] := by
      intro w hw hdst
      obtain ⟨hk, hin, -⟩ := d4 w hw
      cases hpt : d.inPort w.dstM w.dstP with
      | none => simp [hpt] at hin
      | some pt =>
        obtain ⟨m1, hm1, hlk⟩ := inPort_some hpt
        have hpp := lookup_mem hlk
        rw [List.mem_append] at hdst
        rcases hdst with hdst | hdst
        · obtain ⟨r, hr, hrn⟩ := mem_order.mp hdst
          obtain ⟨m0, hf, hin0, hall, -⟩ := hinv.recMod r hr
          rw [hrn] at hf hin0
          rw [hm1] at hf; cases hf
          have := hall (w.dstP, pt) hpp
          rw [hin0] at this
          simp only at this
          rw [this] at hk; cases hk
        · simp only [List.mem_singleton] at hdst
          rw [hdst] at hm1 hk
          rw [hfm] at hm1; cases hm1
          have := hall_m (w.dstP, pt) hpp
          simp only at this
          rw [this] at hk; cases hk
    refine ⟨⟨?_, ?_, ?_, ?_, ?_, ?_⟩, hord⟩
    · -- nodup
      rw [hord, List.nodup_append]
      refine ⟨hinv.nodup, by simp, ?_⟩
      intro a ha b hb
      simp only [List.mem_singleton] at hb
      subst hb
      intro hab; subst hab; exact hnot ha
    · -- recMod
      intro r hr
      rw [d1, List.mem_append] at hr
      rcases hr with hr | hr
      · obtain ⟨m0, hf, hin, hall, hg⟩ := hinv.recMod r hr
        refine ⟨m0, hf, ?_, hall, hg⟩
        rw [frozen r.name m0 hf (by rw [← hin]; exact hall)]; exact hin
      · simp only [List.mem_singleton] at hr
        subst hr
        exact ⟨m, hfm, (frozen m.name m hfm hall_m).symm, hall_m, hgood⟩
    · -- fit
      intro n m0 hf pv hpv
      obtain ⟨extra, he, hx⟩ := d3 n
      rw [he, List.mem_append] at hpv
      rcases hpv with hpv | hpv
      · exact hinv.fit n m0 hf pv hpv
      · obtain ⟨w, hw, hwn, hwp, hlk, pt, hpt, hfitE⟩ := hx pv hpv
        obtain ⟨m1, hm1, hlk1⟩ := inPort_some hpt
        rw [hf] at hm1; cases hm1
        refine ⟨pt, hlk1, fun g => ?_⟩
        rcases hG g with he | hacc
        · exact hfitE he
        · obtain ⟨hwd, hsrc⟩ := hws w hw
          obtain ⟨s, t, hs, ht, e1, e2⟩ := hacc w hwd
          rw [hwn, hwp, hpt] at ht; cases ht
          obtain ⟨m2, hm2, hlk2⟩ := outPort_some hs
          rw [hsrc, hfm] at hm2; cases hm2
          unfold RecGood at hgood
          simp only at hgood
          split at hgood
          · subst hgood; simp at hlk
          · obtain ⟨raw, -, -, hco⟩ := hgood
            obtain ⟨pt', hlk', hex⟩ := (coerceOutputs_ok hco).2.1 w.srcP pv.2 hlk
            rw [hlk2] at hlk'; cases hlk'
            exact ⟨hex.1.trans e1, by rw [hex.2]; exact e2⟩
    · -- ordered
      intro w hw hs hd'
      rw [hord] at hs hd' ⊢
      by_cases hsx : w.srcM = m.name
      · have hwo : w ∈ d.outgoing m.name := by simp [Diagram.outgoing, hw, hsx]
        exact absurd hd' (hnoback w hwo)
      · have hs' : w.srcM ∈ st.order := by
          rw [List.mem_append] at hs
          rcases hs with hs | hs
          · exact hs
          · simp only [List.mem_singleton] at hs; exact absurd hs hsx
        by_cases hdx : w.dstM ∈ st.order
        · rw [List.idxOf_append, List.idxOf_append]
          simp only [hs', hdx, if_true]
          exact hinv.ordered w hw hs' hdx
        · rw [List.idxOf_append, List.idxOf_append]
          simp only [hs', hdx, if_true, if_false]
          have := List.idxOf_lt_length_of_mem hs'
          omega
    · -- flowed
      intro w hw hs
      rw [hord, List.mem_append] at hs
      rcases hs with hs | hs
      · obtain ⟨r, hr, hrn, hin, v, hlk, hmem⟩ := hinv.flowed w hw hs
        exact ⟨r, by rw [d1]; exact List.mem_append_left _ hr, hrn, hin, v, hlk, hmono _ _ hmem⟩
      · simp only [List.mem_singleton] at hs
        have hwo : w ∈ d.outgoing m.name := by simp [Diagram.outgoing, hw, hs]
        obtain ⟨-, hin, v, hlk, hmem⟩ := d4 w hwo
        exact ⟨⟨m.name, st.minputs m.name, outs⟩, by rw [d1]; simp, hs.symm, hin, v, hlk, hmem⟩
    · -- callsEq
      rw [d2, d1, hcalls, hinv.callsEq, List.filter_append, List.map_append]
      congr 1
      unfold newCall
      cases hH : (H m.name).isSome <;> simp [hH]

/-! ### handler invocations, also of failing runs -/

/-- handler invocations: at most one per module, only modules of the diagram that have a handler, every
    declared input port filled (no partially wired module runs), values on declared ports and (under `G`) fitting -/
def CallsOK (d : Diagram) (H : Nat → Option Handler) (G : Prop) (calls : List Call) : Prop :=
  (calls.map (·.name)).Nodup ∧
  ∀ c ∈ calls, ∃ m, d.findMod c.name = some m ∧ (H c.name).isSome = true ∧
    (∀ pp ∈ m.inputs, hasKey pp.1 c.inputs = true) ∧
    (∀ pv ∈ c.inputs, ∃ pt, m.inputs.lookup pv.1 = some pt ∧ (G → pv.2.fits pt))

/-- what holds of a raised exception -/
def FailOK (d : Diagram) (H : Nat → Option Handler) (G : Prop) (f : Fail) : Prop :=
  CallsOK d H G f.1 ∧ (∀ c ∈ f.1, Mislabelled d H c → f.2.isWiringError = true)

theorem mem_calls {d : Diagram} {H : Nat → Option Handler} {G : Prop} {st : St} (hinv : Inv d H G st)
    {c : Call} : c ∈ st.calls ↔ ∃ r ∈ st.records, (H r.name).isSome = true ∧ c = ⟨r.name, r.inputs⟩ := by
  rw [hinv.callsEq]
  simp only [List.mem_map, List.mem_filter]
  constructor
  · rintro ⟨r, ⟨hr, hh⟩, rfl⟩; exact ⟨r, hr, hh, rfl⟩
  · rintro ⟨r, hr, hh, rfl⟩; exact ⟨r, ⟨hr, hh⟩, rfl⟩

theorem calls_names_sublist {d : Diagram} {H : Nat → Option Handler} {G : Prop} {st : St}
    (hinv : Inv d H G st) : (st.calls.map (·.name)).Sublist st.order := by
  rw [hinv.callsEq, List.map_map]
  unfold St.order
  have : ((fun c : Call => c.name) ∘ fun r : Rec => (⟨r.name, r.inputs⟩ : Call)) = fun r => r.name := rfl
  rw [this]
  exact (List.filter_sublist).map _

theorem inv_calls {d : Diagram} {H : Nat → Option Handler} {G : Prop} {st : St} (hinv : Inv d H G st) :
    CallsOK d H G st.calls ∧ ∀ c ∈ st.calls, ¬ Mislabelled d H c := by
  refine ⟨⟨(calls_names_sublist hinv).nodup hinv.nodup, ?_⟩, ?_⟩
  · intro c hc
    obtain ⟨r, hr, hh, rfl⟩ := (mem_calls hinv).mp hc
    obtain ⟨m, hf, hin, hall, -⟩ := hinv.recMod r hr
    refine ⟨m, hf, hh, hall, ?_⟩
    intro pv hpv
    simp only at hpv
    rw [hin] at hpv
    exact hinv.fit r.name m hf pv hpv
  · intro c hc hbad
    obtain ⟨r, hr, hh, rfl⟩ := (mem_calls hinv).mp hc
    obtain ⟨m, hf, -, -, hg⟩ := hinv.recMod r hr
    obtain ⟨m', h, raw, pp, t, hm', hH, hret, hpp, hraw, hne⟩ := hbad
    simp only at hm' hH hret
    rw [hf] at hm'; cases hm'
    unfold RecGood at hg
    simp only [hH] at hg
    obtain ⟨raw', hret', -, hco⟩ := hg
    rw [hret] at hret'; cases hret'
    exact hne ((coerceOutputs_ok hco).2.2 pp hpp t hraw)

theorem callsOK_snoc {d : Diagram} {H : Nat → Option Handler} {G : Prop} {st : St} {m : ModuleSpec}
    (hwf : d.WF) (hinv : Inv d H G st) (hm : m ∈ d.modules) (hnot : m.name ∉ st.order)
    (hready : ready st m = true) (hH : (H m.name).isSome = true) :
    CallsOK d H G (st.calls ++ [⟨m.name, st.minputs m.name⟩]) := by
  obtain ⟨⟨hnd, hall⟩, -⟩ := inv_calls hinv
  have hfm : d.findMod m.name = some m := findMod_of_mem hwf hm
  refine ⟨?_, ?_⟩
  · rw [List.map_append, List.nodup_append]
    refine ⟨hnd, by simp, ?_⟩
    intro a ha b hb
    simp only [List.map_cons, List.map_nil, List.mem_singleton] at hb
    subst hb
    intro hab; subst hab
    exact hnot ((calls_names_sublist hinv).subset ha)
  · intro c hc
    rw [List.mem_append] at hc
    rcases hc with hc | hc
    · exact hall c hc
    · simp only [List.mem_singleton] at hc
      subst hc
      exact ⟨m, hfm, hH, ready_iff.mp hready, fun pv hpv => hinv.fit m.name m hfm pv hpv⟩

theorem runModule_fail {d : Diagram} {H : Nat → Option Handler} {enforce : Bool} {G : Prop} {st : St}
    {m : ModuleSpec} {f : Fail} (hwf : d.WF) (hinv : Inv d H G st)
    (hm : m ∈ d.modules) (hnot : m.name ∉ st.order) (hready : ready st m = true)
    (h : runModule d H enforce st m = .error f) : FailOK d H G f := by
  have hfm : d.findMod m.name = some m := findMod_of_mem hwf hm
  obtain ⟨hok, hnobad⟩ := inv_calls hinv
  unfold runModule at h
  split at h
  · rename_i f' hp
    cases h
    obtain ⟨calls, e⟩ := f
    obtain ⟨hc, hd, hH, hcase⟩ := produce_err hp
    subst hc
    refine ⟨callsOK_snoc hwf hinv hm hnot hready (by simp [hH]), ?_⟩
    intro c hc hbad
    simp only [List.mem_append, List.mem_singleton] at hc
    rcases hc with hc | hc
    · exact absurd hbad (hnobad c hc)
    · subst hc
      rcases hcase with ⟨-, hr⟩ | ⟨-, hr⟩ | ⟨hw, -⟩
      · obtain ⟨m', h', raw, pp, t, -, hH', hret, -⟩ := hbad
        simp only at hH' hret
        rw [hH] at hH'; cases hH'
        rw [hr] at hret; cases hret
      · obtain ⟨m', h', raw, pp, t, -, hH', hret, -⟩ := hbad
        simp only at hH' hret
        rw [hH] at hH'; cases hH'
        rw [hr] at hret; cases hret
      · exact hw
  · rename_i calls outs hp
    obtain ⟨calls', e⟩ := f
    obtain ⟨hc, -⟩ := deliver_err h
    simp only at hc
    subst hc
    obtain ⟨-, hcalls⟩ := produce_ok hp
    have hnew : ¬ Mislabelled d H ⟨m.name, st.minputs m.name⟩ := by
      intro hbad
      obtain ⟨c', e', hp', -⟩ := produce_mislabelled hfm hbad
      rw [hp] at hp'; cases hp'
    subst hcalls
    unfold newCall
    cases hH : (H m.name).isSome
    · simp only [Bool.false_eq_true, if_false, List.append_nil]
      exact ⟨hok, fun c hc hbad => absurd hbad (hnobad c hc)⟩
    · simp only [if_true]
      refine ⟨callsOK_snoc hwf hinv hm hnot hready hH, ?_⟩
      intro c hc hbad
      simp only [List.mem_append, List.mem_singleton] at hc
      rcases hc with hc | hc
      · exact absurd hbad (hnobad c hc)
      · subst hc; exact absurd hbad hnew

/-! ### scans and the loop -/

theorem pass_ok {d : Diagram} {H : Nat → Option Handler} {enforce : Bool} {G : Prop} (hwf : d.WF)
    (hG : G → enforce = true ∨ d.Accepted) :
    ∀ {ms : List ModuleSpec} {st st' : St}, (∀ m ∈ ms, m ∈ d.modules) → Inv d H G st →
      pass d H enforce ms st = .ok st' → Inv d H G st' ∧ st.order.length ≤ st'.order.length
  | [], st, st', _, hinv, h => by simp only [pass] at h; cases h; exact ⟨hinv, Nat.le_refl _⟩
  | m :: ms, st, st', hms, hinv, h => by
    have hms' : ∀ m' ∈ ms, m' ∈ d.modules := fun m' hm' => hms m' (List.mem_cons_of_mem _ hm')
    simp only [pass] at h
    split at h
    · exact pass_ok hwf hG hms' hinv h
    · rename_i hnot
      split at h
      · exact pass_ok hwf hG hms' hinv h
      · rename_i hready
        replace hready : ready st m = true := by simpa using hready
        split at h
        · cases h
        · rename_i st1 hrun
          obtain ⟨hinv1, hord1⟩ := runModule_inv hwf hG hinv (hms m (by simp)) hnot hready hrun
          obtain ⟨hinv', hlen⟩ := pass_ok hwf hG hms' hinv1 h
          refine ⟨hinv', ?_⟩
          rw [hord1] at hlen
          simp only [List.length_append, List.length_cons, List.length_nil] at hlen
          omega

theorem pass_fail {d : Diagram} {H : Nat → Option Handler} {enforce : Bool} {G : Prop} (hwf : d.WF)
    (hG : G → enforce = true ∨ d.Accepted) :
    ∀ {ms : List ModuleSpec} {st : St} {f : Fail}, (∀ m ∈ ms, m ∈ d.modules) → Inv d H G st →
      pass d H enforce ms st = .error f → FailOK d H G f
  | [], st, f, _, _, h => by simp [pass] at h
  | m :: ms, st, f, hms, hinv, h => by
    have hms' : ∀ m' ∈ ms, m' ∈ d.modules := fun m' hm' => hms m' (List.mem_cons_of_mem _ hm')
    simp only [pass] at h
    split at h
    · exact pass_fail hwf hG hms' hinv h
    · rename_i hnot
      split at h
      · exact pass_fail hwf hG hms' hinv h
      · rename_i hready
        replace hready : ready st m = true := by simpa using hready
        split at h
        · rename_i f' hrun
          cases h
          exact runModule_fail hwf hinv (hms m (by simp)) hnot hready hrun
        · rename_i st1 hrun
          obtain ⟨hinv1, -⟩ := runModule_inv hwf hG hinv (hms m (by simp)) hnot hready hrun
          exact pass_fail hwf hG hms' hinv1 h

theorem loop_ok {d : Diagram} {H : Nat → Option Handler} {enforce : Bool} {G : Prop} (hwf : d.WF)
    (hG : G → enforce = true ∨ d.Accepted) :
    ∀ {fuel : Nat} {st st' : St}, Inv d H G st → loop d H enforce fuel st = .ok st' →
      Inv d H G st' ∧ d.modules.length ≤ st'.order.length
  | 0, st, st', hinv, h => by
    simp only [loop] at h
    split at h
    · cases h
    · cases h; exact ⟨hinv, by omega⟩
  | fuel + 1, st, st', hinv, h => by
    simp only [loop] at h
    split at h
    · split at h
      · cases h
      · rename_i st1 hp
        split at h
        · cases h
        · exact loop_ok hwf hG (pass_ok hwf hG (fun _ hm => hm) hinv hp).1 h
    · cases h; exact ⟨hinv, by omega⟩

theorem inv_failOK {d : Diagram} {H : Nat → Option Handler} {G : Prop} {st : St} (hinv : Inv d H G st)
    (e : Err) : FailOK d H G (st.calls, e) :=
  ⟨(inv_calls hinv).1, fun c hc hbad => absurd hbad ((inv_calls hinv).2 c hc)⟩

theorem loop_fail {d : Diagram} {H : Nat → Option Handler} {enforce : Bool} {G : Prop} (hwf : d.WF)
    (hG : G → enforce = true ∨ d.Accepted) :
    ∀ {fuel : Nat} {st : St} {f : Fail}, Inv d H G st → loop d H enforce fuel st = .error f → FailOK d H G f
  | 0, st, f, hinv, h => by
    simp only [loop] at h
    split at h
    · cases h; exact inv_failOK hinv _
    · cases h
  | fuel + 1, st, f, hinv, h => by
    simp only [loop] at h
    split at h
    · split at h
      · rename_i f' hp
        cases h
        exact pass_fail hwf hG (fun _ hm => hm) hinv hp
      · rename_i st1 hp
        have hinv1 := (pass_ok hwf hG (fun _ hm => hm) hinv hp).1
        split at h
        · cases h; exact inv_failOK hinv1 _
        · exact loop_fail hwf hG hinv1 h
    · cases h

/-! ### which exceptions can escape; the fuel is enough -/

/-- the only things `execute` can raise: a WiringError; the exception of a handler that raised; a KeyError,
    and that one only when some wire (appended behind `connect`'s back) names a module or port that does not
    exist.  In particular never the model's `outOfFuel`. -/
def ErrClass (d : Diagram) (H : Nat → Option Handler) (e : Err) : Prop :=
  e.isWiringError = true ∨
  (e = .handlerRaised ∧ ∃ n hd ins, H n = some hd ∧ hd ins = .raise) ∨
  (e = .keyError ∧ ¬ d.WiresExist) ∨
  (e = .attributeError ∧ ∃ n hd ins, H n = some hd ∧ hd ins = .nondict)

theorem runModule_records {d : Diagram} {H : Nat → Option Handler} {enforce : Bool} {st st' : St}
    {m : ModuleSpec} (h : runModule d H enforce st m = .ok st') : st'.order = st.order ++ [m.name] := by
  unfold runModule at h
  split at h
  · cases h
  · obtain ⟨d1, -⟩ := deliver_ok h
    simp only at d1
    simp [St.order, d1]

theorem runModule_errClass {d : Diagram} {H : Nat → Option Handler} {enforce : Bool} {st : St}
    {m : ModuleSpec} {c : List Call} {e : Err} (h : runModule d H enforce st m = .error (c, e)) :
    ErrClass d H e := by
  unfold runModule at h
  split at h
  · rename_i f hp
    cases h
    obtain ⟨-, hd, hH, hcase⟩ := produce_err hp
    rcases hcase with ⟨he, hr⟩ | ⟨he, hr⟩ | ⟨hw, -⟩
    · exact Or.inr (Or.inl ⟨he, m.name, hd, _, hH, hr⟩)
    · exact Or.inr (Or.inr (Or.inr ⟨he, m.name, hd, _, hH, hr⟩))
    · exact Or.inl hw
  · obtain ⟨-, hk⟩ := deliver_err h
    rcases hk with hk | ⟨he, w, hw, hn⟩
    · exact Or.inl hk
    · refine Or.inr (Or.inr (Or.inl ⟨he, fun hex => ?_⟩))
      have hw' : w ∈ d.wires := by
        simp only [Diagram.outgoing, List.mem_filter] at hw; exact hw.1
      have := (hex w hw').2
      rw [hn] at this; cases this

theorem pass_mono {d : Diagram} {H : Nat → Option Handler} {enforce : Bool} :
    ∀ {ms : List ModuleSpec} {st st' : St}, pass d H enforce ms st = .ok st' →
      st.order.length ≤ st'.order.length
  | [], st, st', h => by simp only [pass] at h; cases h; exact Nat.le_refl _
  | m :: ms, st, st', h => by
    simp only [pass] at h
    split at h
    · exact pass_mono h
    · split at h
      · exact pass_mono h
      · split at h
        · cases h
        · rename_i st1 hrun
          have h1 := runModule_records hrun
          have h2 := pass_mono h
          rw [h1] at h2
          simp only [List.length_append, List.length_cons, List.length_nil] at h2
          omega

theorem pass_errClass {d : Diagram} {H : Nat → Option Handler} {enforce : Bool} :
    ∀ {ms : List ModuleSpec} {st : St} {c : List Call} {e : Err},
      pass d H enforce ms st = .error (c, e) → ErrClass d H e
  | [], st, c, e, h => by simp [pass] at h
  | m :: ms, st, c, e, h => by
    simp only [pass] at h
    split at h
    · exact pass_errClass h
    · split at h
      · exact pass_errClass h
      · split at h
        · rename_i f hrun
          cases h
          exact runModule_errClass hrun
        · exact pass_errClass h

/-- with fuel = number of modules the loop never reports `outOfFuel`: every scan that does not raise and is
    not the last one executes at least one more module -/
theorem loop_errClass {d : Diagram} {H : Nat → Option Handler} {enforce : Bool} :
    ∀ {fuel : Nat} {st : St} {c : List Call} {e : Err}, d.modules.length ≤ st.order.length + fuel →
      loop d H enforce fuel st = .error (c, e) → ErrClass d H e
  | 0, st, c, e, hf, h => by
    simp only [loop] at h
    split at h
    · omega
    · cases h
  | fuel + 1, st, c, e, hf, h => by
    simp only [loop] at h
    split at h
    · split at h
      · rename_i f hp
        cases h
        exact pass_errClass hp
      · rename_i st1 hp
        have hmono := pass_mono hp
        split at h
        · cases h; exact Or.inl rfl
        · rename_i hne
          exact loop_errClass (by omega) h
    · cases h

/-! ### `execute` as a whole -/

theorem portsFit_empty (d : Diagram) (G : Prop) : PortsFit d G (fun _ => []) := by
  intro n m _ pv hpv; simp at hpv

theorem inv_init {d : Diagram} {H : Nat → Option Handler} {G : Prop} {mi : MInputs} (h : PortsFit d G mi) :
    Inv d H G ⟨mi, [], []⟩ :=
  ⟨by simp [St.order], by simp, h, by simp [St.order], by simp [St.order], by simp⟩

theorem preflight_none {d : Diagram} {H : Nat → Option Handler} {mi : MInputs} (h : preflight d H mi = none) :
    (∀ w ∈ d.wires, (d.findMod w.srcM).isSome = true) ∧
    (∀ w ∈ d.wires, (d.incoming w.dstM w.dstP).length ≤ 1) ∧
    (∀ m ∈ d.modules, preflightModule d H mi m = none) ∧
    (∀ w ∈ d.wires, hasKey w.dstP (mi w.dstM) = false) := by
  unfold preflight at h
  split at h
  · cases h
  · rename_i h1
    split at h
    · cases h
    · rename_i h2
      split at h
      · cases h
      · rename_i h4
        simp only [List.any_eq_true, not_exists, not_and, Bool.not_eq_true, Option.isNone_eq_false_iff] at h1
        simp only [List.any_eq_true, decide_eq_true_eq, not_exists, not_and, Nat.not_lt] at h2
        simp only [List.any_eq_true, not_exists, not_and, Bool.not_eq_true] at h4
        refine ⟨fun w hw => by simpa using h1 w hw, h2, ?_, h4⟩
        intro m hm
        rw [List.findSome?_eq_none_iff] at h
        exact h m hm

theorem preflightModule_none {d : Diagram} {H : Nat → Option Handler} {mi : MInputs} {m : ModuleSpec}
    (h : preflightModule d H mi m = none) :
    (m.outputs ≠ [] → (H m.name).isSome = true) ∧
    (∀ pp ∈ m.inputs, d.incoming m.name pp.1 ≠ [] ∨ hasKey pp.1 (mi m.name) = true) := by
  unfold preflightModule at h
  split at h
  · cases h
  · rename_i h1
    split at h
    · cases h
    · rename_i h2
      constructor
      · intro hne
        cases hH : (H m.name).isSome with
        | true => rfl
        | false =>
          exfalso; apply h1
          have : m.outputs.isEmpty = false := by
            cases hm : m.outputs with
            | nil => exact absurd hm hne
            | cons a l => rfl
          have hn : (H m.name).isNone = true := by
            cases hh : H m.name with
            | none => rfl
            | some x => simp [hh] at hH
          simp [this, hn]
      · intro pp hpp
        simp only [List.any_eq_true, not_exists, not_and] at h2
        have := h2 pp hpp
        by_cases he : d.incoming m.name pp.1 = []
        · right
          simp only [he, List.isEmpty_nil, Bool.true_and, Bool.not_eq_true', Bool.not_eq_false] at this
          simpa using this
        · exact Or.inl he

theorem preflight_some {d : Diagram} {H : Nat → Option Handler} {mi : MInputs} {e : Err}
    (h : preflight d H mi = some e) : e.isWiringError = true ∨ (e = .keyError ∧ ¬ d.WiresExist) := by
  unfold preflight at h
  split at h
  · rename_i h1
    cases h
    right
    refine ⟨rfl, fun hex => ?_⟩
    simp only [List.any_eq_true] at h1
    obtain ⟨w, hw, hn⟩ := h1
    have := (hex w hw).1
    cases hf : d.findMod w.srcM with
    | none => simp [hf] at this
    | some m => simp [hf] at hn
  · split at h
    · cases h; exact Or.inl rfl
    · split at h
      · cases h; exact Or.inl rfl
      · obtain ⟨m, -, hm⟩ := List.exists_of_findSome?_eq_some h
        unfold preflightModule at hm
        split at hm
        · cases hm; exact Or.inl rfl
        · split at hm
          · cases hm; exact Or.inl rfl
          · cases hm

/-- a successful run ends in a state of the loop that satisfies the invariant and has executed as many
    modules as the diagram has -/
theorem execute_ok {d : Diagram} {H : Nat → Option Handler} {ext : List (Nat × List (Nat × Val))}
    {enforce : Bool} {G : Prop} {recs : List Rec} (hwf : d.WF) (hG : G → enforce = true ∨ d.Accepted)
    (h : (execute d H ext enforce).out = .ok recs) :
    ∃ st mi, Inv d H G st ∧ st.records = recs ∧ st.calls = (execute d H ext enforce).calls ∧
      d.modules.length ≤ st.order.length ∧ extPhase d ext (fun _ => []) = .ok mi ∧ preflight d H mi = none := by
  unfold execute at h ⊢
  split at h
  · cases h
  · rename_i mi hext
    split at h
    · cases h
    · rename_i hpre
      split at h
      · cases h
      · rename_i st hl
        simp only [Except.ok.injEq] at h
        have hi : Inv d H G ⟨mi, [], []⟩ := inv_init (extPhase_ok hext (portsFit_empty d G))
        obtain ⟨hinv, hlen⟩ := loop_ok hwf hG hi hl
        refine ⟨st, mi, hinv, h, ?_, hlen, ?_, hpre⟩
        · simp
        · exact hext

theorem execute_fail {d : Diagram} {H : Nat → Option Handler} {ext : List (Nat × List (Nat × Val))}
    {enforce : Bool} {G : Prop} {e : Err} (hwf : d.WF) (hG : G → enforce = true ∨ d.Accepted)
    (h : (execute d H ext enforce).out = .error e) :
    FailOK d H G ((execute d H ext enforce).calls, e) := by
  have hnil : ∀ e', FailOK d H G ([], e') := fun e' => ⟨⟨by simp, by simp⟩, by simp⟩
  unfold execute at h ⊢
  split at h
  · exact hnil _
  · rename_i mi hext
    split at h
    · exact hnil _
    · split at h
      · rename_i calls e' hl
        simp only [Except.error.injEq] at h
        subst h
        have hi : Inv d H G ⟨mi, [], []⟩ := inv_init (extPhase_ok hext (portsFit_empty d G))
        exact loop_fail hwf hG hi hl
      · cases h

theorem execute_errClass {d : Diagram} {H : Nat → Option Handler} {ext : List (Nat × List (Nat × Val))}
    {enforce : Bool} {e : Err} (h : (execute d H ext enforce).out = .error e) : ErrClass d H e := by
  unfold execute at h
  split at h
  · rename_i e' he'
    simp only [Except.error.injEq] at h; subst h
    exact Or.inl (extPhase_err he')
  · split at h
    · rename_i e' he'
      simp only [Except.error.injEq] at h; subst h
      rcases preflight_some he' with hw | hk
      · exact Or.inl hw
      · exact Or.inr (Or.inr (Or.inl hk))
    · split at h
      · rename_i calls e' hl
        simp only [Except.error.injEq] at h; subst h
        exact loop_errClass (by simp [St.order]) hl
      · cases h

/-- if the pre-flight checks cannot pass, `execute` raises before any handler is invoked -/
theorem execute_preflight {d : Diagram} {H : Nat → Option Handler} {ext : List (Nat × List (Nat × Val))}
    {enforce : Bool} (h : ∀ mi, extPhase d ext (fun _ => []) = .ok mi → preflight d H mi ≠ none) :
    ∃ e, (execute d H ext enforce).out = .error e ∧ (execute d H ext enforce).calls = [] ∧
      (e.isWiringError = true ∨ (e = .keyError ∧ ¬ d.WiresExist)) := by
  unfold execute
  split
  · rename_i e he
    exact ⟨e, rfl, rfl, Or.inl (extPhase_err he)⟩
  · rename_i mi hext
    split
    · rename_i e he
      exact ⟨e, rfl, rfl, preflight_some he⟩
    · rename_i hpre
      exact absurd hpre (h mi hext)

/-! ### where external values can come from -/

theorem extPorts_keys {m : ModuleSpec} :
    ∀ {ins : List (Nat × Val)} {acc res : List (Nat × TV)}, extPorts m ins acc = .ok res →
      ∀ p, hasKey p res = true → hasKey p acc = true ∨ p ∈ keys ins
  | [], acc, res, h, p, hp => by simp only [extPorts] at h; cases h; exact Or.inl hp
  | (q, v) :: r, acc, res, h, p, hp => by
    simp only [extPorts] at h
    split at h
    · cases h
    · split at h
      · cases h
      · rename_i tv _
        rcases extPorts_keys h p hp with h1 | h1
        · obtain ⟨x, hx⟩ := (hasKey_iff _ _).mp h1
          rcases mem_setKey hx with hx | hx
          · cases hx; right; simp [keys]
          · exact Or.inl ((hasKey_iff _ _).mpr ⟨x, hx⟩)
        · right; simp only [keys, List.map_cons, List.mem_cons]; exact Or.inr h1

theorem extPhase_keys {d : Diagram} :
    ∀ {ext : List (Nat × List (Nat × Val))} {mi mi' : MInputs}, extPhase d ext mi = .ok mi' →
      ∀ n p, hasKey p (mi' n) = true → hasKey p (mi n) = true ∨ ∃ ins, (n, ins) ∈ ext ∧ p ∈ keys ins
  | [], mi, mi', h, n, p, hp => by simp only [extPhase] at h; cases h; exact Or.inl hp
  | (k, ins) :: r, mi, mi', h, n, p, hp => by
    simp only [extPhase] at h
    split at h
    · cases h
    · split at h
      · cases h
      · rename_i l hl
        rcases extPhase_keys h n p hp with h1 | ⟨ins', hmem, hk⟩
        · by_cases hn : n = k
          · subst hn
            simp only [if_true] at h1
            rcases extPorts_keys hl p h1 with h2 | h2
            · exact Or.inl h2
            · exact Or.inr ⟨ins, by simp, h2⟩
          · simp only [hn, if_false] at h1
            exact Or.inl h1
        · exact Or.inr ⟨ins', List.mem_cons_of_mem _ hmem, hk⟩

/-! ### counting -/

theorem subset_of_nodup_length_le {l₁ l₂ : List Nat} (h₁ : l₁.Nodup) (hsub : l₁ ⊆ l₂)
    (hlen : l₂.length ≤ l₁.length) : l₂ ⊆ l₁ := by
  intro a ha
  apply Classical.byContradiction
  intro hna
  have hsub' : l₁ ⊆ l₂.erase a := by
    intro x hx
    have hxa : x ≠ a := fun h => hna (h ▸ hx)
    exact (List.mem_erase_of_ne hxa).2 (hsub hx)
  have h1 := h₁.length_le_of_subset hsub'
  have h2 : (l₂.erase a).length = l₂.length - 1 := by rw [List.length_erase]; simp [ha]
  have h3 : 0 < l₂.length := List.length_pos_of_mem ha
  omega

theorem order_perm {d : Diagram} {H : Nat → Option Handler} {G : Prop} {st : St} (hwf : d.WF)
    (hinv : Inv d H G st) (hlen : d.modules.length ≤ st.order.length) :
    st.order.Perm (d.modules.map (·.name)) := by
  have hsub : st.order ⊆ d.modules.map (·.name) := by
    intro n hn
    obtain ⟨r, hr, hrn⟩ := mem_order.mp hn
    obtain ⟨m, hf, -⟩ := hinv.recMod r hr
    obtain ⟨hm, hmn⟩ := findMod_some hf
    exact List.mem_map.mpr ⟨m, hm, hmn.trans hrn⟩
  rw [List.perm_ext_iff_of_nodup hinv.nodup hwf]
  intro a
  exact ⟨fun h => hsub h, fun h => subset_of_nodup_length_le hinv.nodup hsub (by simpa using hlen) h⟩

/-! ### building diagrams through the API -/

theorem findMod_append_of_some {d : Diagram} {m x : ModuleSpec} {n : Nat} (h : d.findMod n = some x) :
    Diagram.findMod { modules := d.modules ++ [m], wires := d.wires } n = some x := by
  unfold Diagram.findMod at *
  simp [List.find?_append, h]

theorem addModule_ok {d d' : Diagram} {m : ModuleSpec} (h : d.addModule m = .ok d') :
    d.findMod m.name = none ∧ d' = { modules := d.modules ++ [m], wires := d.wires } := by
  unfold Diagram.addModule at h
  split at h
  · cases h
  · rename_i hn
    cases h
    exact ⟨by simpa using hn, rfl⟩

theorem addModule_preserves {d d' : Diagram} {m : ModuleSpec} (h : d.addModule m = .ok d')
    (hwf : d.WF) (hacc : d.Accepted) : d'.WF ∧ d'.Accepted := by
  obtain ⟨hnone, rfl⟩ := addModule_ok h
  constructor
  · unfold Diagram.WF at *
    simp only [List.map_append, List.map_cons, List.map_nil]
    rw [List.nodup_append]
    refine ⟨hwf, by simp, ?_⟩
    intro a ha b hb
    simp only [List.mem_singleton] at hb
    subst hb
    intro hab; subst hab
    obtain ⟨x, hx, hxn⟩ := List.mem_map.mp ha
    unfold Diagram.findMod at hnone
    rw [List.find?_eq_none] at hnone
    exact hnone x hx (by simpa using hxn)
  · intro w hw
    obtain ⟨s, t, hs, ht, e1, e2⟩ := hacc w hw
    refine ⟨s, t, ?_, ?_, e1, e2⟩
    · obtain ⟨x, hx, hl⟩ := outPort_some hs
      unfold Diagram.outPort
      rw [findMod_append_of_some hx]; simpa using hl
    · obtain ⟨x, hx, hl⟩ := inPort_some ht
      unfold Diagram.inPort
      rw [findMod_append_of_some hx]; simpa using hl

theorem connect_ok_iff {d d' : Diagram} {a p b q : Nat} :
    d.connect a p b q = .ok d' ↔
      ∃ s t, d.outPort a p = some s ∧ d.inPort b q = some t ∧ s.dt = t.dt ∧ t.il ≤ s.il ∧
        d' = { modules := d.modules, wires := d.wires ++ [⟨a, p, b, q⟩] } := by
  unfold Diagram.connect
  constructor
  · intro h
    split at h
    · cases h
    · rename_i s hs
      split at h
      · cases h
      · rename_i t ht
        split at h
        · cases h
        · rename_i hr
          cases h
          obtain ⟨e1, e2⟩ := (requireFlowTo_none_iff s t).mp hr
          exact ⟨s, t, hs, ht, e1, e2, rfl⟩
  · rintro ⟨s, t, hs, ht, e1, e2, rfl⟩
    have := (requireFlowTo_none_iff s t).mpr ⟨e1, e2⟩
    simp [hs, ht, this]

theorem connect_err {d : Diagram} {a p b q : Nat} {e : Err} (h : d.connect a p b q = .error e) :
    e.isWiringError = true := by
  unfold Diagram.connect at h
  split at h
  · cases h; rfl
  · split at h
    · cases h; rfl
    · split at h
      · rename_i e' he'; cases h; exact requireFlowTo_isWiringError he'
      · cases h

theorem connect_preserves {d d' : Diagram} {a p b q : Nat} (h : d.connect a p b q = .ok d')
    (hwf : d.WF) (hacc : d.Accepted) : d'.WF ∧ d'.Accepted := by
  obtain ⟨s, t, hs, ht, e1, e2, rfl⟩ := connect_ok_iff.mp h
  refine ⟨hwf, ?_⟩
  intro w hw
  simp only [List.mem_append, List.mem_singleton] at hw
  rcases hw with hw | rfl
  · exact hacc w hw
  · exact ⟨s, t, hs, ht, e1, e2⟩

/-! ### capabilities -/

def addCaps (acc cs : List Nat) : List Nat := cs.foldl (fun acc c => if c ∈ acc then acc else acc ++ [c]) acc

theorem mem_addCaps {x : Nat} : ∀ {cs acc : List Nat}, x ∈ addCaps acc cs ↔ x ∈ acc ∨ x ∈ cs
  | [], acc => by simp [addCaps]
  | c :: cs, acc => by
    unfold addCaps
    simp only [List.foldl_cons]
    have ih := @mem_addCaps x cs (if c ∈ acc then acc else acc ++ [c])
    unfold addCaps at ih
    rw [ih]
    by_cases hc : c ∈ acc
    · simp only [hc, if_true, List.mem_cons]
      constructor
      · rintro (h | h)
        · exact Or.inl h
        · exact Or.inr (Or.inr h)
      · rintro (h | h | h)
        · exact Or.inl h
        · subst h; exact Or.inl hc
        · exact Or.inr h
    · simp only [hc, if_false, List.mem_append, List.mem_cons, List.not_mem_nil, or_false]
      constructor
      · rintro ((h | h) | h)
        · exact Or.inl h
        · exact Or.inr (Or.inl h)
        · exact Or.inr (Or.inr h)
      · rintro (h | h | h)
        · exact Or.inl (Or.inl h)
        · exact Or.inl (Or.inr h)
        · exact Or.inr h

theorem nodup_addCaps : ∀ {cs acc : List Nat}, acc.Nodup → (addCaps acc cs).Nodup
  | [], acc, h => by simpa [addCaps] using h
  | c :: cs, acc, h => by
    unfold addCaps
    simp only [List.foldl_cons]
    have ih := @nodup_addCaps cs (if c ∈ acc then acc else acc ++ [c])
    unfold addCaps at ih
    apply ih
    by_cases hc : c ∈ acc
    · simpa [hc] using h
    · simp only [hc, if_false]
      rw [List.nodup_append]
      refine ⟨h, by simp, ?_⟩
      intro a ha b hb
      simp only [List.mem_singleton] at hb
      subst hb
      intro hab; subst hab; exact hc ha

theorem mem_foldl_caps {x : Nat} : ∀ {ms : List ModuleSpec} {acc : List Nat},
    x ∈ ms.foldl (fun acc m => addCaps acc m.caps) acc ↔ x ∈ acc ∨ ∃ m ∈ ms, x ∈ m.caps
  | [], acc => by simp
  | m :: ms, acc => by
    simp only [List.foldl_cons]
    rw [mem_foldl_caps, mem_addCaps]
    simp only [List.mem_cons, exists_eq_or_imp]
    constructor
    · rintro ((h | h) | h)
      · exact Or.inl h
      · exact Or.inr (Or.inl h)
      · exact Or.inr (Or.inr h)
    · rintro (h | h | h)
      · exact Or.inl (Or.inl h)
      · exact Or.inl (Or.inr h)
      · exact Or.inr h

theorem nodup_foldl_caps : ∀ {ms : List ModuleSpec} {acc : List Nat}, acc.Nodup →
    (ms.foldl (fun acc m => addCaps acc m.caps) acc).Nodup
  | [], acc, h => by simpa using h
  | m :: ms, acc, h => by
    simp only [List.foldl_cons]
    exact nodup_foldl_caps (nodup_addCaps h)

theorem requiredCaps_eq (d : Diagram) :
    d.requiredCaps = d.modules.foldl (fun acc m => addCaps acc m.caps) [] := rfl

/-! ### diagrams built through the public API -/

inductive BuildOp where
  | addModule (m : ModuleSpec)
  | connect (a p b q : Nat)
  /-- `diagram.wires.remove(w)`: the public list edited directly (re-wiring = remove, then `connect`) -/
  | removeWire (w : Wire)
  /-- `diagram.wires.reverse()` -/
  | reverseWires

/-- one API call; a call that raises leaves the diagram as it was (the methods raise before they mutate;
    `list.remove` of an absent wire raises a ValueError) -/
def Diagram.apply (d : Diagram) : BuildOp → Diagram
  | .addModule m => match d.addModule m with | .ok d' => d' | .error _ => d
  | .connect a p b q => match d.connect a p b q with | .ok d' => d' | .error _ => d
  | .removeWire w => d.removeWire w
  | .reverseWires => d.reverseWires

def Diagram.build (ops : List BuildOp) : Diagram := ops.foldl Diagram.apply {}

/-- taking wires away, or re-ordering them, keeps a diagram accepted -/
theorem accepted_of_wires_subset {d d' : Diagram} (hm : d'.modules = d.modules)
    (hsub : ∀ w ∈ d'.wires, w ∈ d.wires) (hacc : d.Accepted) : d'.Accepted := by
  intro w hw
  obtain ⟨s, t, hs, ht, h1, h2⟩ := hacc w (hsub w hw)
  refine ⟨s, t, ?_, ?_, h1, h2⟩
  · simpa [Diagram.outPort, Diagram.findMod, hm] using hs
  · simpa [Diagram.inPort, Diagram.findMod, hm] using ht

theorem removeWire_preserves {d : Diagram} (w : Wire) (hwf : d.WF) (hacc : d.Accepted) :
    (d.removeWire w).WF ∧ (d.removeWire w).Accepted :=
  ⟨hwf, accepted_of_wires_subset (d := d) (d' := d.removeWire w) rfl
    (fun _ h => List.mem_of_mem_erase (by simpa [Diagram.removeWire] using h)) hacc⟩

theorem reverseWires_preserves {d : Diagram} (hwf : d.WF) (hacc : d.Accepted) :
    d.reverseWires.WF ∧ d.reverseWires.Accepted :=
  ⟨hwf, accepted_of_wires_subset (d := d) (d' := d.reverseWires) rfl
    (fun _ h => by simpa [Diagram.reverseWires] using h) hacc⟩

/-- the flow rule for one wire, on the declarations of `d` -/
def Diagram.WireOK (d : Diagram) (w : Wire) : Prop :=
  ∃ s t, d.outPort w.srcM w.srcP = some s ∧ d.inPort w.dstM w.dstP = some t ∧ s.dt = t.dt ∧ t.il ≤ s.il

theorem setWire_preserves {d : Diagram} (i : Nat) (w : Wire) (hw : d.WireOK w) (hwf : d.WF) (hacc : d.Accepted) :
    (d.setWire i w).WF ∧ (d.setWire i w).Accepted := by
  refine ⟨hwf, ?_⟩
  intro x hx
  have hx' : x ∈ d.wires.set i w := hx
  rcases List.mem_or_eq_of_mem_set hx' with h | rfl
  · exact hacc x h
  · exact hw

theorem find_filter_ne {n k : Nat} (hk : k ≠ n) : ∀ l : List ModuleSpec,
    (l.filter (fun m => m.name != n)).find? (·.name == k) = l.find? (·.name == k)
  | [] => rfl
  | m :: r => by
    have ih := find_filter_ne hk r
    by_cases hm : m.name = n
    · have hne : (m.name == k) = false := by
        simp only [beq_eq_false_iff_ne, ne_eq]; exact fun h => hk (h ▸ hm)
      have hf : (m.name != n) = false := by simp [hm]
      rw [List.filter_cons, hf, List.find?_cons, hne]
      exact ih
    · have hf : (m.name != n) = true := by simp [hm]
      rw [List.filter_cons, hf]
      simp only [if_true, List.find?_cons]
      rw [ih]

theorem delModule_preserves {d : Diagram} (n : Nat) (hfree : ∀ w ∈ d.wires, w.srcM ≠ n ∧ w.dstM ≠ n)
    (hwf : d.WF) (hacc : d.Accepted) : (d.delModule n).WF ∧ (d.delModule n).Accepted := by
  constructor
  · exact List.Nodup.sublist (List.Sublist.map _ List.filter_sublist) hwf
  · intro w hw
    obtain ⟨s, t, hs, ht, h1, h2⟩ := hacc w hw
    obtain ⟨ha, hb⟩ := hfree w hw
    refine ⟨s, t, ?_, ?_, h1, h2⟩
    · simpa [Diagram.outPort, Diagram.findMod, Diagram.delModule, find_filter_ne ha] using hs
    · simpa [Diagram.inPort, Diagram.findMod, Diagram.delModule, find_filter_ne hb] using ht

theorem apply_preserves {d : Diagram} (op : BuildOp) (hwf : d.WF) (hacc : d.Accepted) :
    (d.apply op).WF ∧ (d.apply op).Accepted := by
  cases op with
  | addModule m =>
    simp only [Diagram.apply]
    split
    · rename_i d' h; exact addModule_preserves h hwf hacc
    · exact ⟨hwf, hacc⟩
  | connect a p b q =>
    simp only [Diagram.apply]
    split
    · rename_i d' h; exact connect_preserves h hwf hacc
    · exact ⟨hwf, hacc⟩
  | removeWire w => exact removeWire_preserves w hwf hacc
  | reverseWires => exact reverseWires_preserves hwf hacc

theorem foldl_apply_preserves : ∀ (ops : List BuildOp) (d : Diagram), d.WF → d.Accepted →
    (ops.foldl Diagram.apply d).WF ∧ (ops.foldl Diagram.apply d).Accepted
  | [], d, hwf, hacc => ⟨hwf, hacc⟩
  | op :: ops, d, hwf, hacc => by
    simp only [List.foldl_cons]
    obtain ⟨h1, h2⟩ := apply_preserves op hwf hacc
    exact foldl_apply_preserves ops _ h1 h2

/-! ### cycles -/

/-- a non-empty walk along wires from module `a` to module `b` -/
inductive Diagram.Reaches (d : Diagram) : Nat → Nat → Prop where
  | wire (w : Wire) : w ∈ d.wires → Diagram.Reaches d w.srcM w.dstM
  | step (w : Wire) {c : Nat} : w ∈ d.wires → Diagram.Reaches d w.dstM c → Diagram.Reaches d w.srcM c

theorem reaches_idx {d : Diagram} {order : List Nat}
    (h : ∀ w ∈ d.wires, order.idxOf w.srcM < order.idxOf w.dstM) {a b : Nat} (hr : d.Reaches a b) :
    order.idxOf a < order.idxOf b := by
  induction hr with
  | wire w hw => exact h w hw
  | step w hw _ ih => exact Nat.lt_trans (h w hw) ih

/-! ### every run -/

theorem execute_callsOK {d : Diagram} {H : Nat → Option Handler} {ext : List (Nat × List (Nat × Val))}
    {enforce : Bool} {G : Prop} (hwf : d.WF) (hG : G → enforce = true ∨ d.Accepted) :
    CallsOK d H G (execute d H ext enforce).calls := by
  cases h : (execute d H ext enforce).out with
  | error e => exact (execute_fail hwf hG h).1
  | ok recs =>
    obtain ⟨st, mi, hinv, -, hc, -⟩ := execute_ok (G := G) hwf hG h
    rw [← hc]; exact (inv_calls hinv).1

/-- everything a successful run guarantees, in one place -/
theorem execute_ok_facts {d : Diagram} {H : Nat → Option Handler} {ext : List (Nat × List (Nat × Val))}
    {enforce : Bool} {recs : List Rec} (hwf : d.WF) (h : (execute d H ext enforce).out = .ok recs) :
    (recs.map (·.name)).Perm (d.modules.map (·.name)) ∧
    (∀ w ∈ d.wires, w.srcM ∈ recs.map (·.name) ∧ w.dstM ∈ recs.map (·.name) ∧
      (recs.map (·.name)).idxOf w.srcM < (recs.map (·.name)).idxOf w.dstM) := by
  obtain ⟨st, mi, hinv, hr, -, hlen, hext, hpre⟩ := execute_ok (G := False) hwf (fun f => f.elim) h
  have hperm := order_perm hwf hinv hlen
  have hord : st.order = recs.map (·.name) := by simp [St.order, hr]
  rw [hord] at hperm
  refine ⟨hperm, ?_⟩
  intro w hw
  have hsrc : w.srcM ∈ st.order := by
    have := (preflight_none hpre).1 w hw
    cases hf : d.findMod w.srcM with
    | none => simp [hf] at this
    | some m =>
      obtain ⟨hm, hmn⟩ := findMod_some hf
      rw [hord]
      exact hperm.mem_iff.mpr (List.mem_map.mpr ⟨m, hm, hmn⟩)
  obtain ⟨r, -, -, hin, -⟩ := hinv.flowed w hw hsrc
  have hdst : w.dstM ∈ st.order := by
    cases hp : d.inPort w.dstM w.dstP with
    | none => simp [hp] at hin
    | some pt =>
      obtain ⟨m, hf, -⟩ := inPort_some hp
      obtain ⟨hm, hmn⟩ := findMod_some hf
      rw [hord]
      exact hperm.mem_iff.mpr (List.mem_map.mpr ⟨m, hm, hmn⟩)
  have := hinv.ordered w hw hsrc hdst
  rw [hord] at hsrc hdst this
  exact ⟨hsrc, hdst, this⟩

/-! ### liveness: a diagram that can be scheduled does run -/

/-- every handler of the table, on whatever inputs, returns a dict with exactly the declared output ports
    whose labelled entries carry the declared labels (so `coerceOutputs` succeeds) -/
def Honest (d : Diagram) (H : Nat → Option Handler) : Prop :=
  ∀ m ∈ d.modules, ∀ hd, H m.name = some hd → ∀ ins, ∃ raw outs, hd ins = .ret raw ∧
    sameKeys (keys raw) (keys m.outputs) = true ∧ coerceOutputs raw m.outputs = .ok outs

theorem lookup_of_mem_keys {β : Type} {k : Nat} : ∀ {l : List (Nat × β)}, k ∈ keys l → ∃ v, l.lookup k = some v
  | [], h => by simp [keys] at h
  | (k', v') :: r, h => by
    simp only [List.lookup_cons]
    by_cases hk : k = k'
    · subst hk; exact ⟨v', by simp⟩
    · have hk' : (k == k') = false := by simpa using hk
      simp only [hk']
      apply lookup_of_mem_keys
      simp only [keys, List.map_cons, List.mem_cons] at h
      rcases h with h | h
      · exact absurd h hk
      · exact h

theorem mem_keys_of_lookup {β : Type} {k : Nat} {v : β} {l : List (Nat × β)} (h : l.lookup k = some v) :
    k ∈ keys l := by
  have := lookup_mem h
  exact List.mem_map.mpr ⟨(k, v), this, rfl⟩

def sameDst (a b : Wire) : Bool := a.dstM == b.dstM && a.dstP == b.dstP

theorem pairwise_of_count {l : List Wire}
    (h : ∀ w ∈ l, (l.filter (fun w' => w'.dstM == w.dstM && w'.dstP == w.dstP)).length ≤ 1) :
    l.Pairwise (fun a b => sameDst a b = false) := by
  induction l with
  | nil => exact List.Pairwise.nil
  | cons a t ih =>
    refine List.Pairwise.cons ?_ (ih ?_)
    · intro b hb
      cases hs : sameDst a b with
      | false => rfl
      | true =>
        exfalso
        have h1 := h a (by simp)
        simp only [List.filter_cons, beq_self_eq_true, Bool.and_self, if_true, List.length_cons] at h1
        have hb' : b ∈ t.filter (fun w' => w'.dstM == a.dstM && w'.dstP == a.dstP) := by
          simp only [List.mem_filter]
          refine ⟨hb, ?_⟩
          simp only [sameDst, Bool.and_eq_true, beq_iff_eq] at hs
          simp [hs.1, hs.2]
        have := List.length_pos_of_mem hb'
        omega
    · intro w hw
      have h1 := h w (List.mem_cons_of_mem _ hw)
      simp only [List.filter_cons] at h1
      split at h1
      · simp only [List.length_cons] at h1; omega
      · exact h1

theorem deliver_noerr {d : Diagram} {enforce : Bool} {outs : List (Nat × TV)} :
    ∀ {ws : List Wire} {st : St}, ws.Pairwise (fun a b => sameDst a b = false) →
      (∀ w ∈ ws, ∃ v, outs.lookup w.srcP = some v ∧ ∃ pt, d.inPort w.dstM w.dstP = some pt ∧ v.fits pt) →
      (∀ w ∈ ws, hasKey w.dstP (st.minputs w.dstM) = false) →
      ∃ st', deliver d enforce outs ws st = .ok st'
  | [], st, _, _, _ => ⟨st, rfl⟩
  | w :: ws, st, hpw, hout, hfree => by
    obtain ⟨v, hv, pt, hpt, hfit⟩ := hout w (by simp)
    have hk := hfree w (by simp)
    simp only [deliver, hv, hpt]
    have h1 : (enforce && v.dt != pt.dt) = false := by simp [hfit.1]
    have h2 : (enforce && decide (v.il < pt.il)) = false := by
      have := hfit.2
      have : decide (v.il < pt.il) = false := by simp; omega
      simp [this]
    simp only [h1, h2, hk, Bool.false_eq_true, if_false]
    rw [List.pairwise_cons] at hpw
    apply deliver_noerr hpw.2 (fun w' hw' => hout w' (List.mem_cons_of_mem _ hw'))
    intro w' hw'
    have hold := hfree w' (List.mem_cons_of_mem _ hw')
    have hne := hpw.1 w' hw'
    simp only [MInputs.add]
    split
    · rename_i heq
      rw [hasKey_append, hold]
      simp only [Bool.false_or]
      simp only [sameDst, Bool.and_eq_false_iff, beq_eq_false_iff_ne] at hne
      rcases hne with hne | hne
      · exact absurd heq.symm hne
      · simp only [hasKey, List.any_cons, List.any_nil, Bool.or_false, beq_eq_false_iff_ne]
        exact hne
    · exact hold

/-- the invariant extended by where values come from -/
structure Inv2 (d : Diagram) (H : Nat → Option Handler) (mi : MInputs) (st : St) : Prop where
  inv : Inv d H True st
  base : ∀ n pv, pv ∈ mi n → pv ∈ st.minputs n
  prov : ∀ n p, hasKey p (st.minputs n) = true → hasKey p (mi n) = true ∨
    ∃ w ∈ d.wires, w.dstM = n ∧ w.dstP = p ∧ w.srcM ∈ st.order

theorem length_le_one_eq {α : Type} {l : List α} (h : l.length ≤ 1) {a b : α} (ha : a ∈ l) (hb : b ∈ l) :
    a = b := by
  match l, h with
  | [], _ => simp at ha
  | [x], _ => simp at ha hb; rw [ha, hb]
  | _ :: _ :: _, h => simp at h

theorem runModule_live {d : Diagram} {H : Nat → Option Handler} {enforce : Bool} {mi : MInputs} {st : St}
    {m : ModuleSpec} (hwf : d.WF) (hacc : d.Accepted) (hhon : Honest d H)
    (hhandler : ∀ m ∈ d.modules, m.outputs ≠ [] → (H m.name).isSome = true)
    (huniq : ∀ w ∈ d.wires, (d.incoming w.dstM w.dstP).length ≤ 1)
    (hexcl : ∀ w ∈ d.wires, hasKey w.dstP (mi w.dstM) = false)
    (hinv : Inv2 d H mi st) (hm : m ∈ d.modules) (hnot : m.name ∉ st.order) (hready : ready st m = true) :
    ∃ st', runModule d H enforce st m = .ok st' ∧ Inv2 d H mi st' ∧ st'.order = st.order ++ [m.name] := by
  have hfm : d.findMod m.name = some m := findMod_of_mem hwf hm
  -- the handler part cannot fail
  have hprod : ∃ calls outs, produce H st m = .ok (calls, outs) := by
    unfold produce
    cases hH : H m.name with
    | none => exact ⟨_, _, rfl⟩
    | some hd =>
      obtain ⟨raw, outs, hret, hk, hco⟩ := hhon m hm hd hH (st.minputs m.name)
      simp only [hret, hk, hco]
      exact ⟨_, _, rfl⟩
  obtain ⟨calls, outs, hp⟩ := hprod
  obtain ⟨hgood, -⟩ := produce_ok hp
  have hws : ∀ w ∈ d.outgoing m.name, w ∈ d.wires ∧ w.srcM = m.name := by
    intro w hw; simpa [Diagram.outgoing] using hw
  -- the delivery part cannot fail
  have hdel : ∃ st', deliver d enforce outs (d.outgoing m.name)
      ⟨st.minputs, st.records ++ [⟨m.name, st.minputs m.name, outs⟩], calls⟩ = .ok st' := by
    apply deliver_noerr
    · exact (pairwise_of_count (by
        intro w hw; exact huniq w hw)).sublist List.filter_sublist
    · intro w hw
      obtain ⟨hwd, hsrc⟩ := hws w hw
      obtain ⟨s, t, hs, ht, e1, e2⟩ := hacc w hwd
      obtain ⟨m2, hm2, hlk2⟩ := outPort_some hs
      rw [hsrc, hfm] at hm2; cases hm2
      unfold RecGood at hgood
      simp only at hgood
      split at hgood
      · -- no handler, yet a wire leaves a declared output port: excluded by the pre-flight
        rename_i hH
        exfalso
        have hk := mem_keys_of_lookup hlk2
        have hne : m.outputs ≠ [] := by intro h0; rw [h0] at hk; simp [keys] at hk
        have := hhandler m hm hne
        rw [hH] at this; cases this
      · obtain ⟨raw, -, -, hco⟩ := hgood
        obtain ⟨hkeys, hexact, -⟩ := coerceOutputs_ok hco
        obtain ⟨v, hv⟩ := lookup_of_mem_keys (l := outs) (by rw [hkeys]; exact mem_keys_of_lookup hlk2)
        obtain ⟨pt', hlk', hex⟩ := hexact w.srcP v hv
        rw [hlk2] at hlk'; cases hlk'
        exact ⟨v, hv, t, ht, hex.1.trans e1, by rw [hex.2]; exact e2⟩
    · intro w hw
      obtain ⟨hwd, hsrc⟩ := hws w hw
      cases hk : hasKey w.dstP (st.minputs w.dstM) with
      | false => rfl
      | true =>
        exfalso
        rcases hinv.prov w.dstM w.dstP hk with h | ⟨w', hw', h1, h2, h3⟩
        · rw [hexcl w hwd] at h; cases h
        · have hin : ∀ x ∈ d.wires, x.dstM = w.dstM → x.dstP = w.dstP → x ∈ d.incoming w.dstM w.dstP := by
            intro x hx a b; simp [Diagram.incoming, hx, a, b]
          have := length_le_one_eq (huniq w hwd) (hin w' hw' h1 h2) (hin w hwd rfl rfl)
          rw [this, hsrc] at h3
          exact hnot h3
  obtain ⟨st', hd'⟩ := hdel
  have hrun : runModule d H enforce st m = .ok st' := by
    unfold runModule; simp only [hp]; exact hd'
  obtain ⟨hinv', hord⟩ := runModule_inv (G := True) hwf (fun _ => Or.inr hacc) hinv.inv hm hnot hready hrun
  obtain ⟨-, -, d3, -⟩ := deliver_ok hd'
  simp only at d3
  refine ⟨st', hrun, ⟨hinv', ?_, ?_⟩, hord⟩
  · intro n pv hpv
    obtain ⟨extra, he, -⟩ := d3 n
    rw [he]; exact List.mem_append_left _ (hinv.base n pv hpv)
  · intro n p hk
    obtain ⟨extra, he, hx⟩ := d3 n
    rw [he, hasKey_append, Bool.or_eq_true] at hk
    rcases hk with hk | hk
    · rcases hinv.prov n p hk with h | ⟨w, hw, h1, h2, h3⟩
      · exact Or.inl h
      · exact Or.inr ⟨w, hw, h1, h2, by rw [hord]; exact List.mem_append_left _ h3⟩
    · obtain ⟨v, hv⟩ := (hasKey_iff _ _).mp hk
      obtain ⟨w, hw, h1, h2, -⟩ := hx (p, v) hv
      obtain ⟨hwd, hsrc⟩ := hws w hw
      exact Or.inr ⟨w, hwd, h1, h2, by rw [hord, hsrc]; simp⟩

/-- the hypotheses under which nothing can go wrong, bundled -/
structure Schedulable (d : Diagram) (H : Nat → Option Handler) (mi : MInputs) : Prop where
  wf : d.WF
  acc : d.Accepted
  honest : Honest d H
  pre : preflight d H mi = none
  acyclic : ∀ a, ¬ d.Reaches a a

theorem pass_live {d : Diagram} {H : Nat → Option Handler} {enforce : Bool} {mi : MInputs}
    (hs : Schedulable d H mi) :
    ∀ {ms : List ModuleSpec} {st : St}, (∀ m ∈ ms, m ∈ d.modules) → Inv2 d H mi st →
      ∃ st', pass d H enforce ms st = .ok st' ∧ Inv2 d H mi st'
  | [], st, _, hinv => ⟨st, rfl, hinv⟩
  | m :: ms, st, hms, hinv => by
    have hms' : ∀ m' ∈ ms, m' ∈ d.modules := fun m' hm' => hms m' (List.mem_cons_of_mem _ hm')
    simp only [pass]
    split
    · exact pass_live hs hms' hinv
    · rename_i hnot
      split
      · exact pass_live hs hms' hinv
      · rename_i hready
        replace hready : ready st m = true := by simpa using hready
        obtain ⟨-, h2, h3, h4⟩ := preflight_none hs.pre
        obtain ⟨st1, hrun, hinv1, -⟩ := runModule_live (enforce := enforce) hs.wf hs.acc hs.honest
          (fun m hm hne => (preflightModule_none (h3 m hm)).1 hne) h2 h4 hinv (hms m (by simp)) hnot hready
        simp only [hrun]
        exact pass_live hs hms' hinv1

theorem pass_stuck {d : Diagram} {H : Nat → Option Handler} {enforce : Bool} :
    ∀ {ms : List ModuleSpec} {st st' : St}, pass d H enforce ms st = .ok st' →
      st'.order.length = st.order.length → ∀ m ∈ ms, m.name ∈ st.order ∨ ready st m = false
  | [], st, st', _, _ => by simp
  | m :: ms, st, st', h, hlen => by
    simp only [pass] at h
    split at h
    · rename_i hin
      intro m' hm'
      simp only [List.mem_cons] at hm'
      rcases hm' with rfl | hm'
      · exact Or.inl hin
      · exact pass_stuck h hlen m' hm'
    · split at h
      · rename_i hnr
        intro m' hm'
        simp only [List.mem_cons] at hm'
        rcases hm' with rfl | hm'
        · exact Or.inr (by simpa using hnr)
        · exact pass_stuck h hlen m' hm'
      · split at h
        · cases h
        · rename_i st1 hrun
          exfalso
          have h1 := runModule_records hrun
          have h2 := pass_mono h
          rw [h1] at h2
          simp only [List.length_append, List.length_cons, List.length_nil] at h2
          omega

theorem reaches_trans {d : Diagram} {a b c : Nat} (h1 : d.Reaches a b) (h2 : d.Reaches b c) : d.Reaches a c := by
  induction h1 with
  | wire w hw => exact .step w hw h2
  | step w hw _ ih => exact .step w hw (ih h2)

/-- a non-empty finite set has an element without predecessor in the set, for any transitive irreflexive relation -/
theorem exists_minimal (T : Nat → Nat → Prop) (htrans : ∀ a b c, T a b → T b c → T a c)
    (hirr : ∀ a, ¬ T a a) : ∀ (L : List Nat), L ≠ [] → ∃ x ∈ L, ∀ y ∈ L, ¬ T y x
  | [], h => absurd rfl h
  | [a], _ => ⟨a, by simp, by intro y hy; simp at hy; subst hy; exact hirr y⟩
  | a :: b :: L, _ => by
    obtain ⟨z, hz, hmin⟩ := exists_minimal T htrans hirr (b :: L) (by simp)
    by_cases haz : T a z
    · refine ⟨a, by simp, ?_⟩
      intro y hy
      rw [List.mem_cons] at hy
      rcases hy with rfl | hy
      · exact hirr _
      · intro hya
        exact hmin y hy (htrans _ _ _ hya haz)
    · refine ⟨z, List.mem_cons_of_mem _ hz, ?_⟩
      intro y hy
      rw [List.mem_cons] at hy
      rcases hy with rfl | hy
      · exact haz
      · exact hmin y hy

/-- while modules are pending, one of them is ready -/
theorem exists_ready {d : Diagram} {H : Nat → Option Handler} {mi : MInputs} {st : St}
    (hs : Schedulable d H mi) (hinv : Inv2 d H mi st) (hlt : st.order.length < d.modules.length) :
    ∃ m ∈ d.modules, m.name ∉ st.order ∧ ready st m = true := by
  obtain ⟨h1, -, h3, -⟩ := preflight_none hs.pre
  let L := (d.modules.map (·.name)).filter (fun n => decide (n ∉ st.order))
  have hL : L ≠ [] := by
    intro hnil
    have hsub : d.modules.map (·.name) ⊆ st.order := by
      intro n hn
      apply Classical.byContradiction
      intro hno
      have : n ∈ L := by simp only [L, List.mem_filter]; exact ⟨hn, by simpa using hno⟩
      rw [hnil] at this; simp at this
    have := hs.wf.length_le_of_subset hsub
    simp only [List.length_map] at this
    omega
  obtain ⟨x, hx, hmin⟩ := exists_minimal d.Reaches (fun _ _ _ => reaches_trans) hs.acyclic L hL
  simp only [L, List.mem_filter, List.mem_map, decide_eq_true_eq] at hx
  obtain ⟨⟨m, hm, hmx⟩, hxo⟩ := hx
  subst hmx
  refine ⟨m, hm, hxo, ready_iff.mpr ?_⟩
  intro pp hpp
  rcases (preflightModule_none (h3 m hm)).2 pp hpp with hinc | hk
  · obtain ⟨w, hw⟩ := List.exists_mem_of_ne_nil _ hinc
    simp only [Diagram.incoming, List.mem_filter, Bool.and_eq_true, beq_iff_eq] at hw
    obtain ⟨hwd, hdm, hdp⟩ := hw
    by_cases hsrc : w.srcM ∈ st.order
    · obtain ⟨r, -, -, -, v, -, hmem⟩ := hinv.inv.flowed w hwd hsrc
      rw [hdm, hdp] at hmem
      exact (hasKey_iff _ _).mpr ⟨v, hmem⟩
    · exfalso
      have hsome := h1 w hwd
      cases hf : d.findMod w.srcM with
      | none => simp [hf] at hsome
      | some m' =>
        obtain ⟨hm', hmn'⟩ := findMod_some hf
        have hinL : w.srcM ∈ L := by
          simp only [L, List.mem_filter, List.mem_map, decide_eq_true_eq]
          exact ⟨⟨m', hm', hmn'⟩, hsrc⟩
        have hr : d.Reaches w.srcM m.name := by
          have := Diagram.Reaches.wire (d := d) w hwd
          rw [hdm] at this; exact this
        exact hmin _ hinL hr
  · obtain ⟨v, hv⟩ := (hasKey_iff _ _).mp hk
    exact (hasKey_iff _ _).mpr ⟨v, hinv.base _ _ hv⟩

theorem loop_live {d : Diagram} {H : Nat → Option Handler} {enforce : Bool} {mi : MInputs}
    (hs : Schedulable d H mi) :
    ∀ {fuel : Nat} {st : St}, d.modules.length ≤ st.order.length + fuel → Inv2 d H mi st →
      ∃ st', loop d H enforce fuel st = .ok st'
  | 0, st, hf, _ => by
    simp only [loop]
    split
    · omega
    · exact ⟨st, rfl⟩
  | fuel + 1, st, hf, hinv => by
    simp only [loop]
    split
    · rename_i hlt
      obtain ⟨st1, hp, hinv1⟩ := pass_live (enforce := enforce) hs (fun _ hm => hm) hinv
      simp only [hp]
      have hmono := pass_mono hp
      split
      · rename_i heq
        exfalso
        obtain ⟨m, hm, hno, hr⟩ := exists_ready hs hinv hlt
        rcases pass_stuck hp heq m hm with h | h
        · exact hno h
        · rw [hr] at h; cases h
      · exact loop_live hs (by omega) hinv1
    · exact ⟨st, rfl⟩

theorem execute_live {d : Diagram} {H : Nat → Option Handler} {ext : List (Nat × List (Nat × Val))}
    {enforce : Bool} {mi : MInputs} (hext : extPhase d ext (fun _ => []) = .ok mi) (hs : Schedulable d H mi) :
    ∃ recs, (execute d H ext enforce).out = .ok recs := by
  have hinv : Inv2 d H mi ⟨mi, [], []⟩ :=
    ⟨inv_init (extPhase_ok hext (portsFit_empty d True)), fun _ _ h => h, fun _ _ h => Or.inl h⟩
  obtain ⟨st', hl⟩ := loop_live (enforce := enforce) (fuel := d.modules.length) hs (st := ⟨mi, [], []⟩)
    (by simp [St.order]) hinv
  unfold execute
  simp only [hext, hs.pre, hl]
  exact ⟨_, rfl⟩

/-! ### external values do arrive -/

theorem hasKey_setKey_iff {β : Type} (k p : Nat) (v : β) :
    ∀ l : List (Nat × β), hasKey p (setKey k v l) = true ↔ (p = k ∨ hasKey p l = true)
  | [] => by
    simp only [setKey, hasKey, List.any_cons, List.any_nil, Bool.or_false, beq_iff_eq, Bool.false_eq_true, or_false]
    exact eq_comm
  | (k', v') :: r => by
    simp only [setKey]
    split
    · rename_i hk
      have hk' : k' = k := by simpa using hk
      subst hk'
      simp only [hasKey, List.any_cons, Bool.or_eq_true, beq_iff_eq]
      constructor
      · rintro (h | h)
        · exact Or.inl h.symm
        · exact Or.inr (Or.inr h)
      · rintro (h | h | h)
        · exact Or.inl h.symm
        · exact Or.inl h
        · exact Or.inr h
    · have ih := hasKey_setKey_iff k p v r
      simp only [hasKey, List.any_cons, Bool.or_eq_true, beq_iff_eq] at ih ⊢
      rw [ih]
      constructor
      · rintro (h | h | h)
        · exact Or.inr (Or.inl h)
        · exact Or.inl h
        · exact Or.inr (Or.inr h)
      · rintro (h | h | h)
        · exact Or.inr (Or.inl h)
        · exact Or.inl h
        · exact Or.inr (Or.inr h)

theorem extPorts_has {m : ModuleSpec} :
    ∀ {ins : List (Nat × Val)} {acc res : List (Nat × TV)}, extPorts m ins acc = .ok res →
      (∀ p, hasKey p acc = true → hasKey p res = true) ∧ (∀ p ∈ keys ins, hasKey p res = true)
  | [], acc, res, h => by
    simp only [extPorts] at h; cases h
    exact ⟨fun _ hp => hp, by simp [keys]⟩
  | (q, v) :: r, acc, res, h => by
    simp only [extPorts] at h
    split at h
    · cases h
    · split at h
      · cases h
      · rename_i tv _
        obtain ⟨h1, h2⟩ := extPorts_has h
        refine ⟨fun p hp => h1 p ((hasKey_setKey_iff q p tv acc).mpr (Or.inr hp)), ?_⟩
        intro p hp
        simp only [keys, List.map_cons, List.mem_cons] at hp
        rcases hp with hp | hp
        · exact h1 p ((hasKey_setKey_iff q p tv acc).mpr (Or.inl hp))
        · exact h2 p hp

theorem extPhase_has {d : Diagram} :
    ∀ {ext : List (Nat × List (Nat × Val))} {mi mi' : MInputs}, extPhase d ext mi = .ok mi' →
      (∀ n p, hasKey p (mi n) = true → hasKey p (mi' n) = true) ∧
      (∀ n ins, (n, ins) ∈ ext → ∀ p ∈ keys ins, hasKey p (mi' n) = true)
  | [], mi, mi', h => by
    simp only [extPhase] at h; cases h
    exact ⟨fun _ _ hp => hp, by simp⟩
  | (k, ins) :: r, mi, mi', h => by
    simp only [extPhase] at h
    split at h
    · cases h
    · split at h
      · cases h
      · rename_i l hl
        obtain ⟨h1, h2⟩ := extPhase_has h
        obtain ⟨g1, g2⟩ := extPorts_has hl
        refine ⟨?_, ?_⟩
        · intro n p hp
          apply h1 n p
          by_cases hn : n = k
          · subst hn; simp only [if_true]; exact g1 p hp
          · simp only [hn, if_false]; exact hp
        · intro n ins' hmem p hp
          simp only [List.mem_cons, Prod.mk.injEq] at hmem
          rcases hmem with ⟨rfl, rfl⟩ | hmem
          · apply h1 n p
            simp only [if_true]; exact g2 p hp
          · exact h2 n ins' hmem p hp

/-! ### every handler invocation comes after the invocations of the modules wired into it -/

/-- a wired port holds a value only when the wire's source module has run -/
def Fed (d : Diagram) (st : St) : Prop :=
  ∀ w ∈ d.wires, hasKey w.dstP (st.minputs w.dstM) = true → w.srcM ∈ st.order

/-- one wire per input port -/
def Diagram.Uniq (d : Diagram) : Prop := ∀ w ∈ d.wires, (d.incoming w.dstM w.dstP).length ≤ 1

/-- the invocation `c` saw, on the destination port of wire `w`, the value that the earlier invocation `s` of the
    wire's source module returned for the wire's source port (coerced to the declared label) -/
def FedBy (d : Diagram) (H : Nat → Option Handler) (w : Wire) (s c : Call) : Prop :=
  s.name = w.srcM ∧ ∃ ms hd raw outs v, d.findMod s.name = some ms ∧ H s.name = some hd ∧
    hd s.inputs = .ret raw ∧ coerceOutputs raw ms.outputs = .ok outs ∧ outs.lookup w.srcP = some v ∧
    (w.dstP, v) ∈ c.inputs

/-- every handler invocation is preceded by an invocation of the source module of every wire into its module,
    and saw that invocation's output on the wire's port -/
def CallsAfter (d : Diagram) (H : Nat → Option Handler) (calls : List Call) : Prop :=
  ∀ pre c post, calls = pre ++ c :: post → ∀ w ∈ d.wires, w.dstM = c.name → ∃ s ∈ pre, FedBy d H w s c

theorem callsAfter_nil (d : Diagram) (H : Nat → Option Handler) : CallsAfter d H [] := by
  intro pre c post h; simp at h

theorem callsAfter_snoc {d : Diagram} {H : Nat → Option Handler} {calls : List Call} {c : Call}
    (h : CallsAfter d H calls) (hc : ∀ w ∈ d.wires, w.dstM = c.name → ∃ s ∈ calls, FedBy d H w s c) :
    CallsAfter d H (calls ++ [c]) := by
  intro pre c' post heq w hw hd
  rcases List.eq_nil_or_concat post with rfl | ⟨post', x, rfl⟩
  · have : pre ++ [c'] = calls ++ [c] := heq.symm
    obtain ⟨h1, h2⟩ := List.append_inj' this rfl
    simp only [List.cons.injEq, and_true] at h2
    subst h1; subst h2
    exact hc w hw hd
  · rw [List.concat_eq_append, ← List.cons_append, ← List.append_assoc] at heq
    obtain ⟨h1, -⟩ := List.append_inj' heq rfl
    exact h pre c' post' h1 w hw hd

theorem fed_init {d : Diagram} {mi : MInputs} (h : ∀ w ∈ d.wires, hasKey w.dstP (mi w.dstM) = false) :
    Fed d ⟨mi, [], []⟩ := by
  intro w hw hk
  rw [h w hw] at hk; cases hk

theorem runModule_fed {d : Diagram} {H : Nat → Option Handler} {enforce : Bool} {st st' : St} {m : ModuleSpec}
    (hu : d.Uniq) (hfed : Fed d st) (h : runModule d H enforce st m = .ok st') : Fed d st' := by
  have hord := runModule_records h
  unfold runModule at h
  split at h
  · cases h
  · obtain ⟨-, -, d3, -⟩ := deliver_ok h
    simp only at d3
    intro w hw hk
    obtain ⟨extra, he, hx⟩ := d3 w.dstM
    rw [he, hasKey_append, Bool.or_eq_true] at hk
    rw [hord]
    rcases hk with hk | hk
    · exact List.mem_append_left _ (hfed w hw hk)
    · obtain ⟨v, hv⟩ := (hasKey_iff _ _).mp hk
      obtain ⟨w', hw', h1, h2, -⟩ := hx (w.dstP, v) hv
      have hw'' : w' ∈ d.wires ∧ w'.srcM = m.name := by simpa [Diagram.outgoing] using hw'
      have hin : ∀ x ∈ d.wires, x.dstM = w.dstM → x.dstP = w.dstP → x ∈ d.incoming w.dstM w.dstP := by
        intro x hx a b; simp [Diagram.incoming, hx, a, b]
      have := length_le_one_eq (hu w hw) (hin w' hw''.1 h1 h2) (hin w hw rfl rfl)
      rw [← this, hw''.2]; simp

/-- the invocation that is about to be made (module `m` ready, not yet run) comes after its feeders -/
theorem new_call_after {d : Diagram} {H : Nat → Option Handler} {G : Prop} {st : St} {m : ModuleSpec}
    (hwf : d.WF) (hex : d.WiresExist) (hinv : Inv d H G st) (hfed : Fed d st)
    (hm : m ∈ d.modules) (hready : ready st m = true) :
    ∀ w ∈ d.wires, w.dstM = m.name → ∃ s ∈ st.calls, FedBy d H w s ⟨m.name, st.minputs m.name⟩ := by
  intro w hw hdm
  have hfm : d.findMod m.name = some m := findMod_of_mem hwf hm
  obtain ⟨-, hin⟩ := hex w hw
  cases hpt : d.inPort w.dstM w.dstP with
  | none => simp [hpt] at hin
  | some pt =>
    obtain ⟨m1, hm1, hlk⟩ := inPort_some hpt
    rw [hdm, hfm] at hm1; cases hm1
    have hk := ready_iff.mp hready (w.dstP, pt) (lookup_mem hlk)
    simp only at hk
    rw [← hdm] at hk
    have hsrc := hfed w hw hk
    obtain ⟨r, hr, hrn, -, v, hlkv, hmem⟩ := hinv.flowed w hw hsrc
    obtain ⟨ms, hfs, hrin, -, hg⟩ := hinv.recMod r hr
    unfold RecGood at hg
    cases hH : H r.name with
    | none => simp only [hH] at hg; rw [hg] at hlkv; simp at hlkv
    | some hd =>
      simp only [hH] at hg
      obtain ⟨raw, hret, -, hco⟩ := hg
      refine ⟨⟨r.name, r.inputs⟩, (mem_calls hinv).mpr ⟨r, hr, by simp [hH], rfl⟩, hrn, ms, hd, raw, r.outputs, v,
        hfs, hH, hret, hco, hlkv, ?_⟩
      rw [← hdm]; exact hmem

theorem runModule_after {d : Diagram} {H : Nat → Option Handler} {enforce : Bool} {G : Prop} {st st' : St}
    {m : ModuleSpec} (hwf : d.WF) (hex : d.WiresExist) (hinv : Inv d H G st) (hfed : Fed d st)
    (hca : CallsAfter d H st.calls) (hm : m ∈ d.modules) (hready : ready st m = true)
    (h : runModule d H enforce st m = .ok st') : CallsAfter d H st'.calls := by
  have hnew := new_call_after hwf hex hinv hfed hm hready
  unfold runModule at h
  split at h
  · cases h
  · rename_i calls outs hp
    obtain ⟨-, d2, -, -⟩ := deliver_ok h
    simp only at d2
    obtain ⟨-, hcalls⟩ := produce_ok hp
    rw [d2, hcalls]
    unfold newCall
    split
    · exact callsAfter_snoc hca hnew
    · simpa using hca

theorem runModule_fail_after {d : Diagram} {H : Nat → Option Handler} {enforce : Bool} {G : Prop} {st : St}
    {m : ModuleSpec} {f : Fail} (hwf : d.WF) (hex : d.WiresExist) (hinv : Inv d H G st) (hfed : Fed d st)
    (hca : CallsAfter d H st.calls) (hm : m ∈ d.modules) (hready : ready st m = true)
    (h : runModule d H enforce st m = .error f) : CallsAfter d H f.1 := by
  have hnew := new_call_after hwf hex hinv hfed hm hready
  unfold runModule at h
  split at h
  · rename_i f' hp
    cases h
    obtain ⟨calls, e⟩ := f
    obtain ⟨hc, -⟩ := produce_err hp
    subst hc
    exact callsAfter_snoc hca hnew
  · rename_i calls outs hp
    obtain ⟨calls', e⟩ := f
    obtain ⟨hc, -⟩ := deliver_err h
    simp only at hc
    subst hc
    obtain ⟨-, hcalls⟩ := produce_ok hp
    subst hcalls
    unfold newCall
    split
    · exact callsAfter_snoc hca hnew
    · simpa using hca

theorem pass_after {d : Diagram} {H : Nat → Option Handler} {enforce : Bool} {G : Prop} (hwf : d.WF)
    (hG : G → enforce = true ∨ d.Accepted) (hex : d.WiresExist) (hu : d.Uniq) :
    ∀ {ms : List ModuleSpec} {st : St}, (∀ m ∈ ms, m ∈ d.modules) → Inv d H G st → Fed d st →
      CallsAfter d H st.calls →
      (∀ st', pass d H enforce ms st = .ok st' → Fed d st' ∧ CallsAfter d H st'.calls) ∧
      (∀ f, pass d H enforce ms st = .error f → CallsAfter d H f.1)
  | [], st, _, _, hfed, hca => by
    simp only [pass]
    exact ⟨fun st' h => (by cases h; exact ⟨hfed, hca⟩), fun f h => (by cases h)⟩
  | m :: ms, st, hms, hinv, hfed, hca => by
    have hms' : ∀ m' ∈ ms, m' ∈ d.modules := fun m' hm' => hms m' (List.mem_cons_of_mem _ hm')
    simp only [pass]
    split
    · exact pass_after hwf hG hex hu hms' hinv hfed hca
    · rename_i hnot
      split
      · exact pass_after hwf hG hex hu hms' hinv hfed hca
      · rename_i hready
        replace hready : ready st m = true := by simpa using hready
        split
        · rename_i f' hrun
          refine ⟨fun st' h => (by cases h), fun f h => ?_⟩
          cases h
          exact runModule_fail_after hwf hex hinv hfed hca (hms m (by simp)) hready hrun
        · rename_i st1 hrun
          obtain ⟨hinv1, -⟩ := runModule_inv hwf hG hinv (hms m (by simp)) hnot hready hrun
          exact pass_after hwf hG hex hu hms' hinv1 (runModule_fed hu hfed hrun)
            (runModule_after hwf hex hinv hfed hca (hms m (by simp)) hready hrun)

theorem loop_after {d : Diagram} {H : Nat → Option Handler} {enforce : Bool} {G : Prop} (hwf : d.WF)
    (hG : G → enforce = true ∨ d.Accepted) (hex : d.WiresExist) (hu : d.Uniq) :
    ∀ {fuel : Nat} {st : St}, Inv d H G st → Fed d st → CallsAfter d H st.calls →
      (∀ st', loop d H enforce fuel st = .ok st' → CallsAfter d H st'.calls) ∧
      (∀ f, loop d H enforce fuel st = .error f → CallsAfter d H f.1)
  | 0, st, _, _, hca => by
    simp only [loop]
    split
    · exact ⟨fun st' h => (by cases h), fun f h => (by cases h; exact hca)⟩
    · exact ⟨fun st' h => (by cases h; exact hca), fun f h => (by cases h)⟩
  | fuel + 1, st, hinv, hfed, hca => by
    simp only [loop]
    split
    · obtain ⟨p1, p2⟩ := pass_after (enforce := enforce) hwf hG hex hu (fun _ hm => hm) hinv hfed hca
      split
      · rename_i f' hp
        exact ⟨fun st' h => (by cases h), fun f h => (by cases h; exact p2 _ hp)⟩
      · rename_i st1 hp
        obtain ⟨hfed1, hca1⟩ := p1 st1 hp
        have hinv1 := (pass_ok hwf hG (fun _ hm => hm) hinv hp).1
        split
        · exact ⟨fun st' h => (by cases h), fun f h => (by cases h; exact hca1)⟩
        · exact loop_after hwf hG hex hu hinv1 hfed1 hca1
    · exact ⟨fun st' h => (by cases h; exact hca), fun f h => (by cases h)⟩

/-- in every run of a diagram whose wires join existing ports, every handler invocation comes after an
    invocation of the source module of every wire into its module and saw that invocation's output -/
theorem execute_callsAfter {d : Diagram} {H : Nat → Option Handler} {ext : List (Nat × List (Nat × Val))}
    {enforce : Bool} (hwf : d.WF) (hex : d.WiresExist) : CallsAfter d H (execute d H ext enforce).calls := by
  unfold execute
  split
  · exact callsAfter_nil d H
  · rename_i mi hext
    split
    · exact callsAfter_nil d H
    · rename_i hpre
      obtain ⟨-, hu, -, hexcl⟩ := preflight_none hpre
      have hi : Inv d H False ⟨mi, [], []⟩ := inv_init (extPhase_ok hext (portsFit_empty d False))
      obtain ⟨l1, l2⟩ := loop_after (enforce := enforce) (fuel := d.modules.length) hwf (fun f => f.elim) hex hu hi
        (fed_init hexcl) (callsAfter_nil d H)
      split
      · rename_i calls e hl
        exact l2 _ hl
      · rename_i st hl
        exact l1 _ hl

theorem coerceInput_ne_mv {v : Val} {pt : PortType} : coerceInput v pt ≠ .error .multipleValues := by
  cases v with
  | raw x => simp [coerceInput]
  | typed t =>
    simp only [coerceInput]
    split
    · simp
    · split <;> simp

theorem extPorts_ne_mv {m : ModuleSpec} :
    ∀ {ins : List (Nat × Val)} {acc : List (Nat × TV)}, extPorts m ins acc ≠ .error .multipleValues
  | [], acc => by simp [extPorts]
  | (p, v) :: r, acc => by
    simp only [extPorts]
    split
    · simp
    · split
      · rename_i e he
        intro h
        simp only [Except.error.injEq] at h
        subst h
        exact coerceInput_ne_mv he
      · exact extPorts_ne_mv

theorem extPhase_ne_mv {d : Diagram} :
    ∀ {ext : List (Nat × List (Nat × Val))} {mi : MInputs}, extPhase d ext mi ≠ .error .multipleValues
  | [], mi => by simp [extPhase]
  | (n, ins) :: r, mi => by
    simp only [extPhase]
    split
    · simp
    · split
      · rename_i e he
        intro h
        simp only [Except.error.injEq] at h
        subst h
        exact extPorts_ne_mv he
      · exact extPhase_ne_mv

theorem preflight_ne_mv {d : Diagram} {H : Nat → Option Handler} {mi : MInputs} :
    preflight d H mi ≠ some .multipleValues := by
  unfold preflight
  split
  · simp
  · split
    · simp
    · split
      · simp
      · intro h
        obtain ⟨m, -, hm⟩ := List.exists_of_findSome?_eq_some h
        unfold preflightModule at hm
        split at hm
        · cases hm
        · split at hm <;> cases hm

/-! ### the per-delivery "Multiple values" guard cannot fire any more -/

theorem coerceOutputs_ne_mv {raw : List (Nat × Val)} :
    ∀ {ps : List (Nat × PortType)}, coerceOutputs raw ps ≠ .error .multipleValues
  | [] => by simp [coerceOutputs]
  | (p, pt) :: r => by
    simp only [coerceOutputs]
    split
    · simp
    · rename_i v _
      split
      · rename_i e he
        cases v with
        | raw x => simp [coerceOutput] at he
        | typed t =>
          simp only [coerceOutput] at he
          split at he
          · cases he; simp
          · split at he
            · cases he; simp
            · cases he
      · split
        · rename_i e he
          intro h
          simp only [Except.error.injEq] at h
          subst h
          exact coerceOutputs_ne_mv he
        · simp

theorem produce_ne_mv {H : Nat → Option Handler} {st : St} {m : ModuleSpec} {c : List Call} :
    produce H st m ≠ .error (c, .multipleValues) := by
  unfold produce
  split
  · simp
  · split
    · simp
    · simp
    · split
      · simp
      · split
        · rename_i e he
          intro h
          simp only [Except.error.injEq, Prod.mk.injEq] at h
          obtain ⟨-, rfl⟩ := h
          exact coerceOutputs_ne_mv he
        · simp

theorem deliver_ne_mv {d : Diagram} {enforce : Bool} {outs : List (Nat × TV)} :
    ∀ {ws : List Wire} {st : St} {c : List Call}, ws.Pairwise (fun a b => sameDst a b = false) →
      (∀ w ∈ ws, hasKey w.dstP (st.minputs w.dstM) = false) →
      deliver d enforce outs ws st ≠ .error (c, .multipleValues)
  | [], st, c, _, _ => by simp [deliver]
  | w :: ws, st, c, hpw, hfree => by
    have hk := hfree w (by simp)
    simp only [deliver]
    split
    · simp
    · split
      · simp
      · split
        · simp
        · split
          · simp
          · simp only [hk, Bool.false_eq_true, if_false]
            rw [List.pairwise_cons] at hpw
            apply deliver_ne_mv hpw.2
            intro w' hw'
            have hold := hfree w' (List.mem_cons_of_mem _ hw')
            have hne := hpw.1 w' hw'
            simp only [MInputs.add]
            split
            · rename_i heq
              rw [hasKey_append, hold]
              simp only [Bool.false_or]
              simp only [sameDst, Bool.and_eq_false_iff, beq_eq_false_iff_ne] at hne
              rcases hne with hne | hne
              · exact absurd heq.symm hne
              · simp only [hasKey, List.any_cons, List.any_nil, Bool.or_false, beq_eq_false_iff_ne]
                exact hne
            · exact hold

theorem runModule_ne_mv {d : Diagram} {H : Nat → Option Handler} {enforce : Bool} {st : St} {m : ModuleSpec}
    {c : List Call} (hu : d.Uniq) (hfed : Fed d st) (hnot : m.name ∉ st.order) :
    runModule d H enforce st m ≠ .error (c, .multipleValues) := by
  unfold runModule
  split
  · rename_i f hp
    intro h
    simp only [Except.error.injEq] at h
    subst h
    exact produce_ne_mv hp
  · apply deliver_ne_mv
    · exact (pairwise_of_count (by intro w hw; exact hu w hw)).sublist List.filter_sublist
    · intro w hw
      have hw' : w ∈ d.wires ∧ w.srcM = m.name := by simpa [Diagram.outgoing] using hw
      cases hk : hasKey w.dstP (st.minputs w.dstM) with
      | false => rfl
      | true =>
        have := hfed w hw'.1 hk
        rw [hw'.2] at this
        exact absurd this hnot

theorem pass_ne_mv {d : Diagram} {H : Nat → Option Handler} {enforce : Bool} (hu : d.Uniq) :
    ∀ {ms : List ModuleSpec} {st : St}, Fed d st →
      (∀ c, pass d H enforce ms st ≠ .error (c, .multipleValues)) ∧
      (∀ st', pass d H enforce ms st = .ok st' → Fed d st')
  | [], st, hfed => by
    simp only [pass]
    exact ⟨fun c => by simp, fun st' h => by cases h; exact hfed⟩
  | m :: ms, st, hfed => by
    simp only [pass]
    split
    · exact pass_ne_mv hu hfed
    · rename_i hnot
      split
      · exact pass_ne_mv hu hfed
      · split
        · rename_i f hrun
          refine ⟨fun c h => ?_, fun st' h => (by cases h)⟩
          simp only [Except.error.injEq] at h
          subst h
          exact runModule_ne_mv hu hfed hnot hrun
        · rename_i st1 hrun
          exact pass_ne_mv hu (runModule_fed hu hfed hrun)

theorem loop_ne_mv {d : Diagram} {H : Nat → Option Handler} {enforce : Bool} (hu : d.Uniq) :
    ∀ {fuel : Nat} {st : St} {c : List Call}, Fed d st → loop d H enforce fuel st ≠ .error (c, .multipleValues)
  | 0, st, c, _ => by
    simp only [loop]
    split <;> simp
  | fuel + 1, st, c, hfed => by
    simp only [loop]
    split
    · obtain ⟨p1, p2⟩ := pass_ne_mv (H := H) (enforce := enforce) hu (ms := d.modules) hfed
      split
      · rename_i f hp
        intro h
        simp only [Except.error.injEq] at h
        subst h
        exact p1 _ hp
      · rename_i st1 hp
        split
        · simp
        · exact loop_ne_mv hu (p2 st1 hp)
    · simp

/-- no run ends in the per-delivery "Multiple values" error: two wires into one port, and a wire plus an
    external value, are both stopped by the pre-flight checks -/
theorem execute_ne_mv {d : Diagram} {H : Nat → Option Handler} {ext : List (Nat × List (Nat × Val))}
    {enforce : Bool} : (execute d H ext enforce).out ≠ .error .multipleValues := by
  unfold execute
  split
  · rename_i e he
    intro h
    simp only [Except.error.injEq] at h
    subst h
    exact extPhase_ne_mv he
  · rename_i mi hext
    split
    · rename_i e he
      intro h
      simp only [Except.error.injEq] at h
      subst h
      exact preflight_ne_mv he
    · rename_i hpre
      obtain ⟨-, hu, -, hexcl⟩ := preflight_none hpre
      split
      · rename_i calls e hl
        intro h
        simp only [Except.error.injEq] at h
        subst h
        exact loop_ne_mv hu (fed_init hexcl) hl
      · simp

/-! ### in-place edits of a registered spec keep the names -/

theorem edit_name (m : ModuleSpec) (e : SpecEdit) : (m.edit e).name = m.name := by cases e <;> rfl

theorem editModule_wf {d : Diagram} (n : Nat) (e : SpecEdit) (h : d.WF) : (d.editModule n e).WF := by
  unfold Diagram.WF Diagram.editModule at *
  simp only [List.map_map]
  have : ((fun m : ModuleSpec => m.name) ∘ fun m => if (m.name == n) = true then m.edit e else m) = fun m => m.name := by
    funext m
    simp only [Function.comp]
    split
    · exact edit_name m e
    · rfl
  rw [this]; exact h

def Diagram.editAll (d : Diagram) (es : List (Nat × SpecEdit)) : Diagram :=
  es.foldl (fun d ne => d.editModule ne.1 ne.2) d

theorem editAll_wf {d : Diagram} (h : d.WF) : ∀ es : List (Nat × SpecEdit), (d.editAll es).WF := by
  intro es
  induction es generalizing d with
  | nil => exact h
  | cons x xs ih => exact ih (editModule_wf x.1 x.2 h)

theorem editAll_wires (d : Diagram) : ∀ es : List (Nat × SpecEdit), (d.editAll es).wires = d.wires := by
  intro es
  induction es generalizing d with
  | nil => rfl
  | cons x xs ih => exact (ih (d.editModule x.1 x.2)).trans rfl

/-! ### the order of the invocation log; modules on a cycle are never invoked -/

theorem callsAfter_idx {d : Diagram} {H : Nat → Option Handler} {calls : List Call}
    (hca : CallsAfter d H calls) (hnd : (calls.map (·.name)).Nodup) :
    ∀ w ∈ d.wires, w.dstM ∈ calls.map (·.name) →
      w.srcM ∈ calls.map (·.name) ∧ (calls.map (·.name)).idxOf w.srcM < (calls.map (·.name)).idxOf w.dstM := by
  intro w hw hdst
  obtain ⟨c, hc, hcn⟩ := List.mem_map.mp hdst
  obtain ⟨pre, post, hsplit⟩ := List.append_of_mem hc
  obtain ⟨s, hs, hsn, -⟩ := hca pre c post hsplit w hw hcn.symm
  have hsrc : w.srcM ∈ pre.map (·.name) := List.mem_map.mpr ⟨s, hs, hsn⟩
  have hnames : calls.map (·.name) = pre.map (·.name) ++ c.name :: post.map (·.name) := by
    rw [hsplit]; simp
  have hnot : w.dstM ∉ pre.map (·.name) := by
    intro hin
    rw [hnames, List.nodup_append] at hnd
    exact hnd.2.2 _ hin _ (by simp [hcn]) rfl
  refine ⟨by rw [hnames]; exact List.mem_append_left _ hsrc, ?_⟩
  rw [hnames, List.idxOf_append, List.idxOf_append]
  simp only [hsrc, hnot, if_true, if_false]
  have := List.idxOf_lt_length_of_mem hsrc
  omega

theorem reaches_calls {d : Diagram} {names : List Nat}
    (h : ∀ w ∈ d.wires, w.dstM ∈ names → w.srcM ∈ names ∧ names.idxOf w.srcM < names.idxOf w.dstM)
    {a b : Nat} (hr : d.Reaches a b) : b ∈ names → a ∈ names ∧ names.idxOf a < names.idxOf b := by
  induction hr with
  | wire w hw => exact h w hw
  | step w hw _ ih =>
    intro hb
    obtain ⟨h1, h2⟩ := ih hb
    obtain ⟨h3, h4⟩ := h w hw h1
    exact ⟨h3, Nat.lt_trans h4 h2⟩

/-- a module that lies on a cycle of wires is never invoked, in no run -/
theorem cycle_never_called {d : Diagram} {H : Nat → Option Handler} {ext : List (Nat × List (Nat × Val))}
    {enforce : Bool} (hwf : d.WF) (hex : d.WiresExist) {a : Nat} (ha : d.Reaches a a) :
    a ∉ (execute d H ext enforce).calls.map (·.name) := by
  intro hin
  have hnd := (execute_callsOK (d := d) (H := H) (ext := ext) (enforce := enforce) (G := False) hwf
    (fun f => f.elim)).1
  have := (reaches_calls (callsAfter_idx (execute_callsAfter hwf hex) hnd) ha hin).2
  omega

/-! ### the pre-flight checks in the words of the property -/

/-- what the pre-flight checks ask of a diagram, its handler table and the external values -/
structure PreflightOK (d : Diagram) (H : Nat → Option Handler) (mi : MInputs) : Prop where
  srcExists : ∀ w ∈ d.wires, (d.findMod w.srcM).isSome = true
  uniq : d.Uniq
  notBoth : ∀ w ∈ d.wires, hasKey w.dstP (mi w.dstM) = false
  handlers : ∀ m ∈ d.modules, m.outputs ≠ [] → (H m.name).isSome = true
  sources : ∀ m ∈ d.modules, ∀ pp ∈ m.inputs, d.incoming m.name pp.1 ≠ [] ∨ hasKey pp.1 (mi m.name) = true

theorem preflight_iff {d : Diagram} {H : Nat → Option Handler} {mi : MInputs} :
    preflight d H mi = none ↔ PreflightOK d H mi := by
  constructor
  · intro h
    obtain ⟨h1, h2, h3, h4⟩ := preflight_none h
    exact ⟨h1, h2, h4, fun m hm => (preflightModule_none (h3 m hm)).1,
      fun m hm => (preflightModule_none (h3 m hm)).2⟩
  · intro h
    unfold preflight
    have c1 : d.wires.any (fun w => (d.findMod w.srcM).isNone) = false := by
      rw [List.any_eq_false]
      intro w hw
      have := h.srcExists w hw
      cases hf : d.findMod w.srcM with
      | none => simp [hf] at this
      | some m => simp
    have c2 : d.wires.any (fun w => decide ((d.incoming w.dstM w.dstP).length > 1)) = false := by
      rw [List.any_eq_false]
      intro w hw
      have := h.uniq w hw
      simp only [decide_eq_true_eq]; omega
    have c3 : d.wires.any (fun w => hasKey w.dstP (mi w.dstM)) = false := by
      rw [List.any_eq_false]
      intro w hw
      simp [h.notBoth w hw]
    simp only [c1, c2, c3, Bool.false_eq_true, if_false]
    rw [List.findSome?_eq_none_iff]
    intro m hm
    unfold preflightModule
    have hh := h.handlers m hm
    have hs := h.sources m hm
    split
    · rename_i hc
      exfalso
      simp only [Bool.and_eq_true, Bool.not_eq_true', List.isEmpty_eq_false_iff] at hc
      have := hh hc.1
      cases hH : H m.name with
      | none => simp [hH] at this
      | some x => simp [hH] at hc
    · split
      · rename_i hc
        exfalso
        simp only [List.any_eq_true, Bool.and_eq_true, Bool.not_eq_true', List.isEmpty_iff] at hc
        obtain ⟨pp, hpp, he, hk⟩ := hc
        rcases hs pp hpp with h1 | h1
        · exact h1 he
        · rw [h1] at hk; cases hk
      · rfl

/-! ### payloads are opaque: `execute` commutes with any renaming of payloads -/

def TV.mapP (f : Nat → Nat) (v : TV) : TV := ⟨v.dt, v.il, f v.payload⟩

def Val.mapP (f : Nat → Nat) : Val → Val
  | .raw x => .raw (f x)
  | .typed t => .typed (t.mapP f)

def mapIns (f : Nat → Nat) (l : List (Nat × TV)) : List (Nat × TV) := l.map fun pv => (pv.1, pv.2.mapP f)

def mapOuts (f : Nat → Nat) (l : List (Nat × Val)) : List (Nat × Val) := l.map fun pv => (pv.1, pv.2.mapP f)

def HOut.mapP (f : Nat → Nat) : HOut → HOut
  | .ret o => .ret (mapOuts f o)
  | .raise => .raise
  | .nondict => .nondict

def Call.mapP (f : Nat → Nat) (c : Call) : Call := ⟨c.name, mapIns f c.inputs⟩
def Rec.mapP (f : Nat → Nat) (r : Rec) : Rec := ⟨r.name, mapIns f r.inputs, mapIns f r.outputs⟩

def St.mapP (f : Nat → Nat) (st : St) : St :=
  ⟨fun n => mapIns f (st.minputs n), st.records.map (Rec.mapP f), st.calls.map (Call.mapP f)⟩

def Result.mapP (f : Nat → Nat) (r : Result) : Result :=
  ⟨r.calls.map (Call.mapP f), match r.out with | .ok recs => .ok (recs.map (Rec.mapP f)) | .error e => .error e⟩

/-- `H'` does to renamed inputs what `H` does to the original ones, renamed -/
def Commutes (f : Nat → Nat) (H H' : Nat → Option Handler) : Prop :=
  ∀ n, (H n = none ∧ H' n = none) ∨ ∃ h h', H n = some h ∧ H' n = some h' ∧ ∀ ins, h' (mapIns f ins) = (h ins).mapP f

@[simp] theorem emap_ok {α β ε : Type} (g : α → β) (a : α) : Except.map g (Except.ok a : Except ε α) = .ok (g a) := rfl
@[simp] theorem emap_error {α β ε : Type} (g : α → β) (e : ε) : Except.map g (Except.error e : Except ε α) = .error e := rfl

theorem coerceOutput_mapP (f : Nat → Nat) (v : Val) (p : PortType) :
    coerceOutput (v.mapP f) p = (coerceOutput v p).map (TV.mapP f) := by
  cases v with
  | raw x => simp [Val.mapP, coerceOutput, TV.mapP]
  | typed t =>
    simp only [Val.mapP, coerceOutput, TV.mapP]
    by_cases h1 : (t.dt != p.dt) = true
    · simp [h1]
    · by_cases h2 : (t.il != p.il) = true
      · simp [h1, h2]
      · simp [h1, h2, TV.mapP]

theorem coerceInput_mapP (f : Nat → Nat) (v : Val) (p : PortType) :
    coerceInput (v.mapP f) p = (coerceInput v p).map (TV.mapP f) := by
  cases v with
  | raw x => simp [Val.mapP, coerceInput, TV.mapP]
  | typed t =>
    simp only [Val.mapP, coerceInput, TV.mapP]
    by_cases h1 : (t.dt != p.dt) = true
    · simp [h1]
    · by_cases h2 : t.il < p.il
      · simp [h1, h2]
      · simp [h1, h2, TV.mapP]

theorem hasKey_mapIns (f : Nat → Nat) (k : Nat) (l : List (Nat × TV)) : hasKey k (mapIns f l) = hasKey k l := by
  simp [hasKey, mapIns, List.any_map, Function.comp_def]

theorem keys_mapOuts (f : Nat → Nat) (l : List (Nat × Val)) : keys (mapOuts f l) = keys l := by
  simp [keys, mapOuts, List.map_map, Function.comp_def]

theorem lookup_mapOuts (f : Nat → Nat) (p : Nat) : ∀ l : List (Nat × Val),
    (mapOuts f l).lookup p = (l.lookup p).map (Val.mapP f)
  | [] => rfl
  | (k, v) :: r => by
    simp only [mapOuts, List.map_cons, List.lookup_cons]
    split
    · rfl
    · exact lookup_mapOuts f p r

theorem lookup_mapIns (f : Nat → Nat) (p : Nat) : ∀ l : List (Nat × TV),
    (mapIns f l).lookup p = (l.lookup p).map (TV.mapP f)
  | [] => rfl
  | (k, v) :: r => by
    simp only [mapIns, List.map_cons, List.lookup_cons]
    split
    · rfl
    · exact lookup_mapIns f p r

theorem setKey_mapIns (f : Nat → Nat) (p : Nat) (tv : TV) : ∀ l : List (Nat × TV),
    setKey p (tv.mapP f) (mapIns f l) = mapIns f (setKey p tv l)
  | [] => rfl
  | (k, v) :: r => by
    simp only [mapIns, List.map_cons, setKey]
    split
    · rfl
    · simp only [List.map_cons]
      congr 1
      exact setKey_mapIns f p tv r


theorem extPorts_mapP (f : Nat → Nat) (m : ModuleSpec) : ∀ (ins : List (Nat × Val)) (acc : List (Nat × TV)),
    extPorts m (mapOuts f ins) (mapIns f acc) = (extPorts m ins acc).map (mapIns f)
  | [], acc => rfl
  | (p, v) :: r, acc => by
    simp only [mapOuts, List.map_cons, extPorts]
    cases hl : m.inputs.lookup p with
    | none => rfl
    | some pt =>
      simp only [coerceInput_mapP]
      cases hc : coerceInput v pt with
      | error e => rfl
      | ok tv =>
        simp only [emap_ok, setKey_mapIns]
        exact extPorts_mapP f m r _

def mapExt (f : Nat → Nat) (ext : List (Nat × List (Nat × Val))) : List (Nat × List (Nat × Val)) :=
  ext.map fun e => (e.1, mapOuts f e.2)

def mapMI (f : Nat → Nat) (mi : MInputs) : MInputs := fun n => mapIns f (mi n)

theorem extPhase_mapP (f : Nat → Nat) (d : Diagram) : ∀ (ext : List (Nat × List (Nat × Val))) (mi : MInputs),
    extPhase d (mapExt f ext) (mapMI f mi) = (extPhase d ext mi).map (mapMI f)
  | [], mi => rfl
  | (n, ins) :: r, mi => by
    simp only [mapExt, List.map_cons, extPhase]
    cases hf : d.findMod n with
    | none => rfl
    | some m =>
      simp only
      have h := extPorts_mapP f m ins (mi n)
      simp only [mapMI] at *
      rw [h]
      cases hp : extPorts m ins (mi n) with
      | error e => rfl
      | ok l =>
        simp only [emap_ok]
        have : (fun k => if k = n then mapIns f l else mapIns f (mi k)) =
            mapMI f (fun k => if k = n then l else mi k) := by
          funext k; simp only [mapMI]; split <;> rfl
        rw [this]
        exact extPhase_mapP f d r _

theorem commutes_isNone {f : Nat → Nat} {H H' : Nat → Option Handler} (hc : Commutes f H H') (n : Nat) :
    (H' n).isNone = (H n).isNone := by
  rcases hc n with ⟨h1, h2⟩ | ⟨h, h', h1, h2, -⟩ <;> simp [h1, h2]

theorem preflight_mapP {f : Nat → Nat} {H H' : Nat → Option Handler} (hc : Commutes f H H') (d : Diagram)
    (mi : MInputs) : preflight d H' (mapMI f mi) = preflight d H mi := by
  have hm : ∀ m, preflightModule d H' (mapMI f mi) m = preflightModule d H mi m := by
    intro m
    simp only [preflightModule, commutes_isNone hc, mapMI, hasKey_mapIns]
  simp only [preflight, mapMI, hasKey_mapIns]
  have : preflightModule d H' (mapMI f mi) = preflightModule d H mi := funext hm
  rw [this]

theorem coerceOutputs_mapP (f : Nat → Nat) (raw : List (Nat × Val)) : ∀ outs : List (Nat × PortType),
    coerceOutputs (mapOuts f raw) outs = (coerceOutputs raw outs).map (mapIns f)
  | [] => rfl
  | (p, pt) :: r => by
    simp only [coerceOutputs, lookup_mapOuts]
    cases hl : raw.lookup p with
    | none => rfl
    | some v =>
      simp only [Option.map_some, coerceOutput_mapP]
      cases hc : coerceOutput v pt with
      | error e => rfl
      | ok tv =>
        simp only [emap_ok, coerceOutputs_mapP f raw r]
        cases hr : coerceOutputs raw r with
        | error e => rfl
        | ok l => rfl

def mapFail (f : Nat → Nat) (x : Fail) : Fail := (x.1.map (Call.mapP f), x.2)

def emapF {α β : Type} (f : Nat → Nat) (g : α → β) : Except Fail α → Except Fail β
  | .ok a => .ok (g a)
  | .error x => .error (mapFail f x)

theorem produce_mapP {f : Nat → Nat} {H H' : Nat → Option Handler} (hc : Commutes f H H') (st : St) (m : ModuleSpec) :
    produce H' (st.mapP f) m =
      emapF f (fun r => (r.1.map (Call.mapP f), mapIns f r.2)) (produce H st m) := by
  unfold produce
  rcases hc m.name with ⟨h1, h2⟩ | ⟨h, h', h1, h2, hh⟩
  · simp only [h1, h2]; rfl
  · simp only [h1, h2]
    have : (st.mapP f).minputs m.name = mapIns f (st.minputs m.name) := rfl
    rw [this, hh]
    cases hr : h (st.minputs m.name) with
    | raise => simp [HOut.mapP, emapF, mapFail, St.mapP, Call.mapP]
    | nondict => simp [HOut.mapP, emapF, mapFail, St.mapP, Call.mapP]
    | ret raw =>
      simp only [HOut.mapP, keys_mapOuts, coerceOutputs_mapP]
      by_cases hk : sameKeys (keys raw) (keys m.outputs) = true
      · simp only [hk, Bool.not_true, Bool.false_eq_true, if_false]
        cases hco : coerceOutputs raw m.outputs with
        | error e => simp [emapF, mapFail, St.mapP, Call.mapP]
        | ok outs => simp [emapF, St.mapP, Call.mapP]
      · simp [hk, emapF, mapFail, St.mapP, Call.mapP]

theorem St.mapP_add (f : Nat → Nat) (st : St) (m p : Nat) (v : TV) :
    (⟨(st.mapP f).minputs.add m p (v.mapP f), (st.mapP f).records, (st.mapP f).calls⟩ : St) =
      St.mapP f ⟨st.minputs.add m p v, st.records, st.calls⟩ := by
  simp only [St.mapP]
  congr 1
  funext n
  unfold MInputs.add
  by_cases h : n = m
  · simp [h, mapIns]
  · simp [h]

theorem deliver_mapP (f : Nat → Nat) (d : Diagram) (enforce : Bool) (outs : List (Nat × TV)) :
    ∀ (ws : List Wire) (st : St),
      deliver d enforce (mapIns f outs) ws (st.mapP f) = emapF f (St.mapP f) (deliver d enforce outs ws st)
  | [], st => rfl
  | w :: ws, st => by
    simp only [deliver, lookup_mapIns]
    cases hl : outs.lookup w.srcP with
    | none => simp [emapF, mapFail, St.mapP]
    | some v =>
      simp only [Option.map_some]
      cases hp : d.inPort w.dstM w.dstP with
      | none => simp [emapF, mapFail, St.mapP]
      | some pt =>
        have hk : hasKey w.dstP ((st.mapP f).minputs w.dstM) = hasKey w.dstP (st.minputs w.dstM) := by
          simp [St.mapP, hasKey_mapIns]
        simp only [hk]
        have e1 : (v.mapP f).dt = v.dt := rfl
        have e2 : (v.mapP f).il = v.il := rfl
        simp only [e1, e2]
        split
        · simp [emapF, mapFail, St.mapP]
        · split
          · simp [emapF, mapFail, St.mapP]
          · split
            · simp [emapF, mapFail, St.mapP]
            · rw [St.mapP_add]
              exact deliver_mapP f d enforce outs ws _

theorem runModule_mapP {f : Nat → Nat} {H H' : Nat → Option Handler} (hc : Commutes f H H') (d : Diagram)
    (enforce : Bool) (st : St) (m : ModuleSpec) :
    runModule d H' enforce (st.mapP f) m = emapF f (St.mapP f) (runModule d H enforce st m) := by
  unfold runModule
  rw [produce_mapP hc]
  cases hp : produce H st m with
  | error x => rfl
  | ok r =>
    obtain ⟨calls, outs⟩ := r
    simp only [emapF]
    have : (⟨(st.mapP f).minputs, (st.mapP f).records ++ [⟨m.name, (st.mapP f).minputs m.name, mapIns f outs⟩],
        calls.map (Call.mapP f)⟩ : St) = St.mapP f ⟨st.minputs, st.records ++ [⟨m.name, st.minputs m.name, outs⟩], calls⟩ := by
      simp [St.mapP, Rec.mapP]
    rw [this]
    exact deliver_mapP f d enforce outs _ _

theorem order_mapP (f : Nat → Nat) (st : St) : (st.mapP f).order = st.order := by
  simp [St.order, St.mapP, Rec.mapP, List.map_map, Function.comp_def]

theorem ready_mapP (f : Nat → Nat) (st : St) (m : ModuleSpec) : ready (st.mapP f) m = ready st m := by
  simp [ready, St.mapP, hasKey_mapIns]

theorem pass_mapP {f : Nat → Nat} {H H' : Nat → Option Handler} (hc : Commutes f H H') (d : Diagram) (enforce : Bool) :
    ∀ (ms : List ModuleSpec) (st : St),
      pass d H' enforce ms (st.mapP f) = emapF f (St.mapP f) (pass d H enforce ms st)
  | [], st => rfl
  | m :: ms, st => by
    simp only [pass, order_mapP, ready_mapP]
    split
    · exact pass_mapP hc d enforce ms st
    · split
      · exact pass_mapP hc d enforce ms st
      · rw [runModule_mapP hc]
        cases hr : runModule d H enforce st m with
        | error x => rfl
        | ok st' => exact pass_mapP hc d enforce ms st'

theorem loop_mapP {f : Nat → Nat} {H H' : Nat → Option Handler} (hc : Commutes f H H') (d : Diagram) (enforce : Bool) :
    ∀ (fuel : Nat) (st : St),
      loop d H' enforce fuel (st.mapP f) = emapF f (St.mapP f) (loop d H enforce fuel st)
  | 0, st => by
    simp only [loop, order_mapP]
    split <;> simp [emapF, mapFail, St.mapP]
  | fuel + 1, st => by
    simp only [loop, order_mapP]
    split
    · rw [pass_mapP hc]
      cases hp : pass d H enforce d.modules st with
      | error x => rfl
      | ok st' =>
        simp only [emapF, order_mapP]
        split
        · simp [mapFail, St.mapP]
        · exact loop_mapP hc d enforce fuel st'
    · rfl

/-- `execute` never looks into a payload: renaming the payloads of the external inputs and of everything the
    handlers return renames the payloads in the report and in the invocation log, and changes nothing else -/
theorem execute_mapP {f : Nat → Nat} {H H' : Nat → Option Handler} (hc : Commutes f H H') (d : Diagram)
    (ext : List (Nat × List (Nat × Val))) (enforce : Bool) :
    execute d H' (mapExt f ext) enforce = (execute d H ext enforce).mapP f := by
  unfold execute
  have hx : extPhase d (mapExt f ext) (fun _ => []) = (extPhase d ext (fun _ => [])).map (mapMI f) :=
    extPhase_mapP f d ext (fun _ => [])
  rw [hx]
  cases he : extPhase d ext (fun _ => []) with
  | error e => rfl
  | ok mi =>
    simp only [emap_ok, preflight_mapP hc]
    cases hp : preflight d H mi with
    | some e => rfl
    | none =>
      have h1 : (⟨mapMI f mi, [], []⟩ : St) = St.mapP f ⟨mi, [], []⟩ := rfl
      simp only [h1, loop_mapP hc]
      cases hl : loop d H enforce d.modules.length ⟨mi, [], []⟩ with
      | error x => rfl
      | ok st => rfl

end Operon.Wiring
