import Operon.Lemmas.C10
/-! Lemmas for antibody transfer between membranes (C10): the learned patterns form a dict (distinct keys) along
    every history, so `import_antibodies(donor.export_antibodies())` makes every donor antibody itself active. -/
namespace Operon.Gates

/-- the keys (pattern texts) of a learned-pattern dict are pairwise distinct -/
def KeysDistinct (d : List Sig) : Prop := (d.map (·.pat)).Nodup

theorem keysDistinct_unique : ∀ (d : List Sig), KeysDistinct d → ∀ x ∈ d, ∀ y ∈ d, x.pat = y.pat → x = y := by
  intro d
  induction d with
  | nil => intro _ x hx; simp at hx
  | cons a rest ih =>
    intro hd x hx y hy hp
    simp only [KeysDistinct, List.map_cons, List.nodup_cons] at hd
    rcases List.mem_cons.mp hx with rfl | hxr
    · rcases List.mem_cons.mp hy with rfl | hyr
      · rfl
      · exact absurd (List.mem_map.mpr ⟨y, hyr, hp.symm⟩) hd.1
    · rcases List.mem_cons.mp hy with rfl | hyr
      · exact absurd (List.mem_map.mpr ⟨x, hxr, hp⟩) hd.1
      · exact ih hd.2 x hxr y hyr hp

theorem dictSet_keys (d : List Sig) (s : Sig) :
    (dictSet d s).map (·.pat) =
      if d.any (fun x => x.pat = s.pat) then d.map (·.pat) else d.map (·.pat) ++ [s.pat] := by
  unfold dictSet
  split
  · rw [List.map_map]
    apply List.map_congr_left
    intro x _
    by_cases h : x.pat = s.pat <;> simp [h]
  · simp

theorem keysDistinct_dictSet (d : List Sig) (s : Sig) (h : KeysDistinct d) : KeysDistinct (dictSet d s) := by
  unfold KeysDistinct at *
  rw [dictSet_keys]
  split
  · exact h
  · rename_i hn
    rw [List.nodup_append]
    refine ⟨h, by simp, ?_⟩
    intro a ha b hb
    simp only [List.mem_singleton] at hb
    subst hb
    obtain ⟨x, hx, rfl⟩ := List.mem_map.mp ha
    intro heq
    apply hn
    simp only [List.any_eq_true, decide_eq_true_eq]
    exact ⟨x, hx, heq⟩

theorem keysDistinct_dictPop (d : List Sig) (p : Str) (h : KeysDistinct d) : KeysDistinct (dictPop d p) := by
  unfold KeysDistinct dictPop at *
  exact List.Nodup.sublist (List.Sublist.map _ List.filter_sublist) h

theorem keysDistinct_foldl (abs : List Sig) : ∀ d, KeysDistinct d → KeysDistinct (abs.foldl dictSet d) := by
  induction abs with
  | nil => intro d h; exact h
  | cons a rest ih => intro d h; exact ih _ (keysDistinct_dictSet d a h)

theorem mstep_keysDistinct (env : Env) (st : MSt) (op : MOp) (h : KeysDistinct st.m.learned) :
    KeysDistinct (mstep env st op).1.m.learned := by
  cases op with
  | filter c =>
    obtain ⟨r, -, -, -, -, hl, -⟩ := filter_spec env st.m st.now c
    simp only [mstep]; rw [hl]; exact h
  | learn x =>
    simp only [mstep, Membrane.learn]
    split
    · split
      · exact h
      · exact keysDistinct_dictSet _ _ h
    · exact h
  | forget p => exact keysDistinct_dictPop _ _ h
  | importAb abs => exact keysDistinct_foldl abs _ h
  | addSig x => exact h
  | setThr t => exact h
  | clearAudit => exact h
  | adv d => exact h
  | setRate r => exact h
  | setAdaptive b => exact h
  | setHook hk => exact h
  | setSigs l => exact h

theorem mrun_keysDistinct (env : Env) (ops : List MOp) : ∀ (st : MSt), KeysDistinct st.m.learned →
    KeysDistinct (mrun env st ops).1.m.learned := by
  induction ops with
  | nil => intro st h; exact h
  | cons op ops ih => intro st h; simp only [mrun]; exact ih _ (mstep_keysDistinct env st op h)

/-- importing a dict's values makes every one of them an entry of the recipient's dict -/
theorem foldl_dictSet_mem_of_distinct (abs : List Sig) (habs : KeysDistinct abs) (d : List Sig) (ab : Sig)
    (hab : ab ∈ abs) : ab ∈ abs.foldl dictSet d := by
  obtain ⟨y, hy, hyp, hym⟩ := foldl_dictSet_imported abs d ab hab
  have := keysDistinct_unique abs habs y hym ab hab hyp
  rw [← this]; exact hy

end Operon.Gates

namespace Operon.Gates

/-! ### innate immunity: the inflammation level is monotone in what matched (audit F2) -/

theorem newLevel_mono (k : InflCuts) (t t' mx mx' n n' : Nat) (cool : Bool) (ht : t ≤ t') (hm : mx ≤ mx')
    (hn : n ≤ n') : newLevel k t mx n cool ≤ newLevel k t' mx' n' cool := by
  unfold newLevel lvlAcute lvlHigh lvlMedium lvlLow lvlNone
  by_cases h1 : t ≥ k.acuteTotal ∨ mx ≥ k.acuteMax
  · have h1' : t' ≥ k.acuteTotal ∨ mx' ≥ k.acuteMax := by omega
    simp [h1, h1']
  · by_cases h1' : t' ≥ k.acuteTotal ∨ mx' ≥ k.acuteMax
    · simp only [h1, h1', if_true, if_false]; repeat' split
      all_goals omega
    · by_cases h2 : t ≥ k.highTotal ∨ mx ≥ k.highMax
      · have h2' : t' ≥ k.highTotal ∨ mx' ≥ k.highMax := by omega
        simp [h1, h1', h2, h2']
      · by_cases h2' : t' ≥ k.highTotal ∨ mx' ≥ k.highMax
        · simp only [h1, h1', h2, h2', if_true, if_false]; repeat' split
          all_goals omega
        · by_cases h3 : t ≥ k.medTotal ∨ n ≥ k.medCount
          · have h3' : t' ≥ k.medTotal ∨ n' ≥ k.medCount := by omega
            simp [h1, h1', h2, h2', h3, h3']
          · by_cases h3' : t' ≥ k.medTotal ∨ n' ≥ k.medCount
            · simp only [h1, h1', h2, h2', h3, h3', if_true, if_false]; repeat' split
              all_goals omega
            · by_cases h4 : n ≥ k.lowCount
              · have h4' : n' ≥ k.lowCount := by omega
                simp [h1, h1', h2, h2', h3, h3', h4, h4']
              · by_cases h4' : n' ≥ k.lowCount
                · simp only [h1, h1', h2, h2', h3, h3', h4, h4', if_true, if_false]; repeat' split
                  all_goals omega
                · simp [h1, h1', h2, h2', h3, h3', h4, h4']

theorem sumLevels_filter_mono (p q : Sig → Bool) (l : List Sig) (h : ∀ x ∈ l, p x = true → q x = true) :
    sumLevels (l.filter p) ≤ sumLevels (l.filter q) := by
  induction l with
  | nil => simp [sumLevels]
  | cons x l ih =>
    have ih' := ih (fun y hy => h y (List.mem_cons_of_mem _ hy))
    simp only [List.filter_cons]
    cases hp : p x with
    | true =>
      have hq := h x (by simp) hp
      simp only [hq, if_true, sumLevels]; omega
    | false =>
      cases hq : q x with
      | true => simp only [if_true, sumLevels, Bool.false_eq_true, if_false]; omega
      | false => simpa using ih'

/-- everything `c` sets off, `c'` sets off too: the matched patterns of `c'` dominate those of `c` in total
    severity, maximum severity and number -/
theorem matched_dominates (env : Env) (sigs : List Sig) (c c' : Str) (hk : KeepsHits env sigs c c') :
    sumLevels (matched env sigs c) ≤ sumLevels (matched env sigs c') ∧
    maxLevel (matched env sigs c) ≤ maxLevel (matched env sigs c') ∧
    (matched env sigs c).length ≤ (matched env sigs c').length := by
  refine ⟨sumLevels_filter_mono _ _ sigs hk, ?_, filter_length_le_of_imp _ _ sigs hk⟩
  apply maxLevel_mono
  intro s hs
  rw [mem_matched] at hs ⊢
  exact ⟨hs.1, hk s hs.1 hs.2⟩

end Operon.Gates
