import Operon.Lemmas.C10
/-! Lemmas for antibody transfer between membranes (C10): the learned patterns form a dict (distinct keys) along
    every history, so `import_antibodies(donor.export_antibodies())` makes every donor antibody itself active. -/
namespace Operon.Gates

/-- the keys (pattern texts) of a learned-pattern dict are pairwise distinct -/
def KeysDistinct (d : List Sig) : Prop := (d.map (·.pat)).Nodup

theorem keysDistinct_unique : ∀ (d : List Sig), KeysDistinct d → ∀ x ∈ d, ∀ y ∈ d, x.pat = y.pat → x = y := by
  intro d
  induction d with
  | nil => intro _ x hx; simp at hx
  | cons a rest ih =>
    intro hd x hx y hy hp
    simp only [KeysDistinct, List.map_cons, List.nodup_cons] at hd
    rcases List.mem_cons.mp hx with rfl | hxr
    · rcases List.mem_cons.mp hy with rfl | hyr
      · rfl
      · exact absurd (List.mem_map.mpr ⟨y, hyr, hp.symm⟩) hd.1
    · rcases List.mem_cons.mp hy with rfl | hyr
      · exact absurd (List.mem_map.mpr ⟨x, hxr, hp⟩) hd.1
      · exact ih hd.2 x hxr y hyr hp

theorem dictSet_keys (d : List Sig) (s : Sig) :
    (dictSet d s).map (·.pat) =
      if d.any (fun x => x.pat = s.pat) then d.map (·.pat) else d.map (·.pat) ++ [s.pat] := by
  unfold dictSet
  split
  · rw [List.map_map]
    apply List.map_congr_left
    intro x _
    by_cases h : x.pat = s.pat <;> simp [h]
  · simp

theorem keysDistinct_dictSet (d : List Sig) (s : Sig) (h : KeysDistinct d) : KeysDistinct (dictSet d s) := by
  unfold KeysDistinct at *
  rw [dictSet_keys]
  split
  · exact h
  · rename_i hn
    rw [List.nodup_append]
    refine ⟨h, by simp, ?_⟩
    intro a ha b hb
    simp only [List.mem_singleton] at hb
    subst hb
    obtain ⟨x, hx, rfl⟩ := List.mem_map.mp ha
    intro heq
    apply hn
    simp only [List.any_eq_true, decide_eq_true_eq]
    exact ⟨x, hx, heq⟩

theorem keysDistinct_dictPop (d : List Sig) (p : Str) (h : KeysDistinct d) : KeysDistinct (dictPop d p) := by
  unfold KeysDistinct dictPop at *
  exact List.Nodup.sublist (List.Sublist.map _ List.filter_sublist) h

theorem keysDistinct_foldl (abs : List Sig) : ∀ d, KeysDistinct d → KeysDistinct (abs.foldl dictSet d) := by
  induction abs with
  | nil => intro d h; exact h
  | cons a rest ih => intro d h; exact ih _ (keysDistinct_dictSet d a h)

theorem mstep_keysDistinct (env : Env) (st : MSt) (op : MOp) (h : KeysDistinct st.m.learned) :
    KeysDistinct (mstep env st op).1.m.learned := by
  cases op with
  | filter c =>
    obtain ⟨r, -, -, -, -, hl, -⟩ := filter_spec env st.m st.now c
    simp only [mstep]; rw [hl]; exact h
  | learn x =>
    simp only [mstep, Membrane.learn]
    split
    · split
      · exact h
      · exact keysDistinct_dictSet _ _ h
    · exact h
  | forget p => exact keysDistinct_dictPop _ _ h
  | importAb abs => exact keysDistinct_foldl abs _ h
  | addSig x => exact h
  | setThr t => exact h
  | clearAudit => exact h
  | adv d => exact h
  | setRate r => exact h
  | setAdaptive b => exact h
  | setHook hk => exact h

theorem mrun_keysDistinct (env : Env) (ops : List MOp) : ∀ (st : MSt), KeysDistinct st.m.learned →
    KeysDistinct (mrun env st ops).1.m.learned := by
  induction ops with
  | nil => intro st h; exact h
  | cons op ops ih => intro st h; simp only [mrun]; exact ih _ (mstep_keysDistinct env st op h)

/-- importing a dict's values makes every one of them an entry of the recipient's dict -/
theorem foldl_dictSet_mem_of_distinct (abs : List Sig) (habs : KeysDistinct abs) (d : List Sig) (ab : Sig)
    (hab : ab ∈ abs) : ab ∈ abs.foldl dictSet d := by
  obtain ⟨y, hy, hyp, hym⟩ := foldl_dictSet_imported abs d ab hab
  have := keysDistinct_unique abs habs y hym ab hab hyp
  rw [← this]; exact hy

end Operon.Gates
