import Operon.Lemmas.C05
/-! From critical regions back to API calls (C05): a call run as one atomic step, and the programs whose calls are
    single regions. -/
namespace Operon.AtpConc
open Operon.Lock Operon.Atp

/-- an API call run as ONE atomic step: all its critical regions one after the other, nothing in between -/
def applyCall (cls : Classifier) (obs : Nat → Obs) (w : World) (t : Nat) (c : Call) : World :=
  c.acts.foldl (fun w a => applyAct cls obs w t a) w

/-- sequential reference at the level of CALLS: the calls of `order` (thread, call) executed one after the other -/
def runCalls (cls : Classifier) (obs : Nat → Obs) (w : World) : List (Nat × Call) → World
  | [] => w
  | (t, c) :: rest => runCalls cls obs (applyCall cls obs w t c) rest

/-- the call a region belongs to (for the regions that are a whole call; the halves of a transfer map to a transfer) -/
def Act.toCall : Act → Call
  | .consume i c cur d p => .consume i c cur d p
  | .regenerate i n cur => .regenerate i n cur
  | .convert i n => .convert i n
  | .withdraw i n cur => .transfer i i n cur
  | .deposit j n cur => .transfer j j n cur

/-- the region is a whole call -/
def Act.single : Act → Bool
  | .withdraw .. => false
  | .deposit .. => false
  | _ => true

theorem single_toCall (a : Act) (h : a.single = true) : a.toCall.acts = [a] := by
  cases a <;> simp_all [Act.single, Act.toCall, Call.acts]

theorem runCalls_map (cls : Classifier) (obs : Nat → Obs) (tr : List (Nat × Act)) :
    ∀ (w : World), (∀ e ∈ tr, e.2.single = true) →
      runCalls cls obs w (tr.map fun e => (e.1, e.2.toCall)) = runTrace cls obs w tr := by
  induction tr with
  | nil => intro w _; rfl
  | cons e tr ih =>
    intro w h
    obtain ⟨t, a⟩ := e
    have ha : a.single = true := h (t, a) (by simp)
    simp only [List.map_cons, runCalls, runTrace, applyCall, single_toCall a ha, List.foldl_cons, List.foldl_nil]
    exact ih _ (fun e he => h e (by simp [he]))

theorem acts_single (cs : List Call) (h : ∀ c ∈ cs, c.isTransfer = false) : ∀ a ∈ cs.flatMap Call.acts, a.single = true := by
  intro a ha
  simp only [List.mem_flatMap] at ha
  obtain ⟨c, hc, hac⟩ := ha
  have := h c hc
  cases c <;> simp_all [Call.acts, Call.isTransfer, Act.single]

theorem flatMap_toCall (cs : List Call) (h : ∀ c ∈ cs, c.isTransfer = false) :
    (cs.flatMap Call.acts).map Act.toCall = cs := by
  induction cs with
  | nil => rfl
  | cons c cs ih =>
    have hc := h c (by simp)
    have := ih (fun c' hc' => h c' (by simp [hc']))
    cases c <;> simp_all [Call.acts, Call.isTransfer, Act.toCall]

theorem proj_map_toCall (t : Nat) (tr : List (Nat × Act)) :
    ((tr.map fun e => (e.1, e.2.toCall)).filter (fun e => e.1 == t)).map (·.2) = (proj t tr).map Act.toCall := by
  induction tr with
  | nil => rfl
  | cons e tr ih =>
    obtain ⟨u, a⟩ := e
    by_cases h : u == t
    · simp only [List.map_cons, List.filter_cons, h, if_true, proj] at ih ⊢
      simp only [List.map_cons, List.cons.injEq, true_and]
      exact ih
    · simp only [List.map_cons, List.filter_cons, h, proj] at ih ⊢
      exact ih

theorem mem_proj {t : Nat} {a : Act} {tr : List (Nat × Act)} (h : (t, a) ∈ tr) : a ∈ proj t tr := by
  simp only [proj, List.mem_map, List.mem_filter]
  exact ⟨(t, a), ⟨h, by simp⟩, rfl⟩

theorem todoAt_ofCalls (st : Nat → Store) (progs : List (List Call)) (t : Nat) :
    todoAt (ACfg.ofCalls st progs) t = (progs.getD t []).flatMap Call.acts := by
  simp only [todoAt, ACfg.ofCalls, List.getElem?_map, List.getD_eq_getElem?_getD]
  cases progs[t]? <;> simp

theorem locAt_ofCalls (st : Nat → Store) (progs : List (List Call)) :
    locAt (ACfg.ofCalls st progs) = fun _ => {} := by
  funext t
  simp only [locAt, ACfg.ofCalls, List.getElem?_map]
  cases progs[t]? <;> simp

theorem getD_noTransfer (progs : List (List Call)) (h : ∀ p ∈ progs, ∀ c ∈ p, c.isTransfer = false) (t : Nat) :
    ∀ c ∈ progs.getD t [], c.isTransfer = false := by
  intro c hc
  rw [List.getD_eq_getElem?_getD] at hc
  cases hp : progs[t]? with
  | none => simp [hp] at hc
  | some p =>
    simp only [hp, Option.getD_some] at hc
    exact h p (List.mem_of_getElem? hp) c hc

end Operon.AtpConc
