import Operon.Model.MitoBox
/-! Lemmas about the container layer (`Model/MitoBox.lean`). -/
namespace Operon.Mito

/-- the model vouches for a delivered value only when the pathway produced exactly that value, the containers keep
    values and their construction cannot fail -/
theorem deliver_success (box : Box) (o : Outcome) (v : Val) (r : Bool) (p : Option Pathway)
    (h : deliver box o = .result true (some v) r p) :
    o = .result true (some v) r p ∧ box.valueKept = true ∧ box.builds = true := by
  cases o with
  | raised => simp [deliver] at h
  | result s w r' p' =>
    cases hb : box.builds <;> cases hk : box.valueKept <;> cases s <;> cases w <;>
      simp [deliver, hb, hk] at h ⊢ <;> exact h

/-- containers that keep values and always build are invisible -/
theorem deliver_kept (box : Box) (hv : box.valueKept = true) (hb : box.builds = true) (o : Outcome) :
    deliver box o = o := by
  cases o with
  | raised => rfl
  | result s w r p => cases s <;> cases w <;> simp [deliver, hv, hb]

/-- a raise is delivered as a raise; anything else is delivered as a raise exactly when a result cannot be built -/
theorem deliver_raised (box : Box) (o : Outcome) :
    deliver box o = .raised ↔ (o = .raised ∨ box.builds = false) := by
  cases o with
  | raised => simp [deliver]
  | result s w r p =>
    cases hb : box.builds <;> cases s <;> cases w <;> simp [deliver, hb]

/-- the pathway recorded in a success result is the one that ran -/
theorem metabolize_success_path (T : Tables) (env : Env) (cfg : Cfg) (latched : Bool) (d : Pathway) (inp : Inp)
    (forced : Option Pathway) (tr : List Act) (v : Val) (r : Bool) (po : Option Pathway)
    (h : metabolize T env cfg latched d inp forced = (tr, .result true (some v) r po)) :
    po = some (forced.getD d) := by
  unfold metabolize at h
  split at h
  · simp at h
  · split at h
    · simp at h
    · simp only at h
      split at h
      · simp at h
      · split at h
        · simp at h
        · rcases hb : pathwayBody T env cfg inp (forced.getD d) with ⟨t, res⟩
          rw [hb] at h
          cases res with
          | error er => simp only at h; split at h <;> simp at h
          | ok w =>
            simp only at h
            split at h
            · split at h <;> simp at h
            · simp only [Prod.mk.injEq, Outcome.result.injEq] at h
              exact h.2.2.2.2.symm

end Operon.Mito
