import Operon.Lemmas.C02
import Operon.Model.MitoSpec
/-! C02: the tool pathway against Python — the argument expressions of a tool call are evaluated as Python evaluates
    them (the specification `pyToolRun` is itself compared with CPython's `eval` over tracer objects: protocol op `pyevt`), and the registered tool receives exactly those values. -/
set_option linter.unusedSectionVars false
namespace Operon.Mito
open R

variable (T : Tables) (env : Env) (hT : TablesSound T) (hc : CmpReturnsBool env)

include hT hc in
theorem toolPath_sim (tools : List ToolReg) (allowed : Option (List String)) (e : Expr) :
    Sim (toolPath T env tools allowed e) (pyToolCall T.names env tools e) := by
  unfold toolPath
  split
  · rename_i tn args kn kv
    split
    · exact Sim.of_failed (failed_fail _)
    · rename_i t ht
      split
      · unfold pyToolCall
        simp only [ht]
        exact Sim.bind (walkList_sim T env hT hc args) fun as =>
          Sim.bind (walkKws_sim T env hT hc kn kv) fun ks => Sim.refl _
      · exact Sim.of_failed (failed_fail _)
  · exact Sim.of_failed (failed_fail _)
  · exact Sim.of_failed (failed_fail _)

include hT hc in
theorem toolPathway_sim (tools : List ToolReg) (allowed : Option (List String)) (e : Expr) :
    Sim (toolPathway T env tools allowed e) (pyToolRun T.names env tools e) := by
  unfold toolPathway pyToolRun
  split
  · exact Sim.refl _
  · exact toolPath_sim T env hT hc tools allowed e

/-- a successful tool-pathway evaluation is a call of a registered, permitted tool by its plain name -/
theorem toolPath_success_shape (tools : List ToolReg) (allowed : Option (List String)) (e : Expr) (v : Val)
    (h : (toolPath T env tools allowed e).2 = .ok v) :
    ∃ tn args kn kv t, e = .call (.name tn) args kn kv ∧ findTool tools tn = some t ∧ capsOk allowed t = true := by
  unfold toolPath at h
  split at h
  · rename_i tn args kn kv
    split at h
    · simp [R.fail] at h
    · rename_i t ht
      split at h
      · rename_i hcaps
        exact ⟨tn, args, kn, kv, t, rfl, ht, hcaps⟩
      · simp [R.fail] at h
  · simp [R.fail] at h
  · simp [R.fail] at h

/-! #### keyword arguments reach the tool as written -/

/-- one step of `dictOf` -/
def dictStep (acc : List (String × Val)) (kv : String × Val) : List (String × Val) :=
  if acc.any (fun p => p.1 = kv.1) then acc.map (fun p => if p.1 = kv.1 then (p.1, kv.2) else p) else acc ++ [kv]

theorem dictOf_eq_foldl (ks : List (String × Val)) : dictOf ks = ks.foldl dictStep [] := rfl

theorem foldl_dictStep_fresh : ∀ (ks acc : List (String × Val)),
    (∀ k ∈ ks.map (·.1), k ∉ acc.map (·.1)) → (ks.map (·.1)).Nodup → ks.foldl dictStep acc = acc ++ ks
  | [], acc, _, _ => by simp
  | kv :: ks, acc, hfresh, hnd => by
    have h1 : kv.1 ∉ acc.map (·.1) := hfresh kv.1 (by simp)
    have hany : acc.any (fun p => p.1 = kv.1) = false := by
      rw [Bool.eq_false_iff]
      intro h
      simp only [List.any_eq_true, decide_eq_true_eq] at h
      obtain ⟨p, hp, he⟩ := h
      exact h1 (by rw [← he]; exact List.mem_map_of_mem hp)
    simp only [List.foldl_cons, dictStep, hany, Bool.false_eq_true, if_false]
    simp only [List.map_cons, List.nodup_cons] at hnd
    rw [foldl_dictStep_fresh ks (acc ++ [kv]) ?_ hnd.2]
    · simp
    · intro k hk
      simp only [List.map_append, List.map_cons, List.map_nil, List.mem_append, List.mem_singleton, not_or]
      refine ⟨hfresh k (by simp [hk]), ?_⟩
      intro he; subst he
      exact hnd.1 hk

/-- keyword names that are pairwise distinct reach the tool exactly as written, in order -/
theorem dictOf_nodup (ks : List (String × Val)) (h : (ks.map (·.1)).Nodup) : dictOf ks = ks := by
  rw [dictOf_eq_foldl, foldl_dictStep_fresh ks [] (by simp) h]; simp

section kws
variable (T : Tables) (env : Env)

/-- the keys of successfully evaluated keyword arguments are keyword names of the call -/
theorem walkKws_keys : ∀ (kv : List Expr) (kn : List (Option String)) (t : List Act) (ks : List (String × Val)),
    walkKws T env kn kv = (t, .ok ks) → ∀ k ∈ ks.map (·.1), some k ∈ kn
  | [], kn, t, ks, h => by
    unfold walkKws at h
    simp only [R.pure, Prod.mk.injEq, Except.ok.injEq] at h
    obtain ⟨_, rfl⟩ := h
    simp
  | e :: es, kn, t, ks, h => by
    unfold walkKws at h
    split at h
    · simp only [R.pure, Prod.mk.injEq, Except.ok.injEq] at h
      obtain ⟨_, rfl⟩ := h
      simp
    · simp [R.fail] at h
    · rename_i n ns
      rcases h1 : walk T env e with ⟨t1, r1⟩
      cases r1 with
      | error er => simp [R.bind, h1] at h
      | ok v =>
        rcases h2 : walkKws T env ns es with ⟨t2, r2⟩
        cases r2 with
        | error er => simp [R.bind, h1, h2] at h
        | ok r =>
          simp only [R.bind, R.pure, h1, h2, Prod.mk.injEq, Except.ok.injEq] at h
          obtain ⟨_, rfl⟩ := h
          intro k hk
          simp only [List.map_cons, List.mem_cons] at hk
          rcases hk with rfl | hk
          · simp
          · exact List.mem_cons_of_mem _ (walkKws_keys es ns t2 r h2 k hk)

/-- … and are pairwise distinct when no keyword name is repeated in the call -/
theorem walkKws_nodup : ∀ (kv : List Expr) (kn : List (Option String)) (t : List Act) (ks : List (String × Val)),
    walkKws T env kn kv = (t, .ok ks) → hasDupKw kn = false → (ks.map (·.1)).Nodup
  | [], kn, t, ks, h, _ => by
    unfold walkKws at h
    simp only [R.pure, Prod.mk.injEq, Except.ok.injEq] at h
    obtain ⟨_, rfl⟩ := h
    simp
  | e :: es, kn, t, ks, h, hd => by
    unfold walkKws at h
    split at h
    · simp only [R.pure, Prod.mk.injEq, Except.ok.injEq] at h
      obtain ⟨_, rfl⟩ := h
      simp
    · simp [R.fail] at h
    · rename_i n ns
      rcases h1 : walk T env e with ⟨t1, r1⟩
      cases r1 with
      | error er => simp [R.bind, h1] at h
      | ok v =>
        rcases h2 : walkKws T env ns es with ⟨t2, r2⟩
        cases r2 with
        | error er => simp [R.bind, h1, h2] at h
        | ok r =>
          simp only [R.bind, R.pure, h1, h2, Prod.mk.injEq, Except.ok.injEq] at h
          obtain ⟨_, rfl⟩ := h
          simp only [hasDupKw, Bool.or_eq_false_iff] at hd
          simp only [List.map_cons, List.nodup_cons]
          refine ⟨fun hmem => ?_, walkKws_nodup es ns t2 r h2 hd.2⟩
          have := walkKws_keys T env es ns t2 r h2 n hmem
          have hc : ns.contains (some n) = true := by simpa using this
          rw [hd.1] at hc; cases hc
end kws

end Operon.Mito
