import Operon.Lemmas.C02
import Operon.Model.MitoSpec
/-! C02: the tool pathway against Python — the argument expressions of a tool call are evaluated as Python evaluates
    them (the specification `pyToolRun` is itself compared with CPython's `eval` over tracer objects: protocol op `pyevt`), and the registered tool receives exactly those values. -/
set_option linter.unusedSectionVars false
namespace Operon.Mito
open R

variable (T : Tables) (env : Env) (hT : TablesSound T) (hc : CmpReturnsBool env)

include hT hc in
theorem toolPath_sim (tools : List ToolReg) (allowed : Option (List String)) (e : Expr) :
    Sim (toolPath T env tools allowed e) (pyToolCall T.names env tools e) := by
  unfold toolPath
  split
  · rename_i tn args kn kv
    split
    · exact Sim.of_failed (failed_fail _)
    · rename_i t ht
      split
      · unfold pyToolCall
        simp only [ht]
        exact Sim.bind (walkList_sim T env hT hc args) fun as =>
          Sim.bind (walkKws_sim T env hT hc kn kv) fun ks => Sim.refl _
      · exact Sim.of_failed (failed_fail _)
  · exact Sim.of_failed (failed_fail _)
  · exact Sim.of_failed (failed_fail _)

include hT hc in
theorem toolPathway_sim (tools : List ToolReg) (allowed : Option (List String)) (e : Expr) :
    Sim (toolPathway T env tools allowed e) (pyToolRun T.names env tools e) := by
  unfold toolPathway pyToolRun
  split
  · exact Sim.refl _
  · exact toolPath_sim T env hT hc tools allowed e

/-- a successful tool-pathway evaluation is a call of a registered, permitted tool by its plain name -/
theorem toolPath_success_shape (tools : List ToolReg) (allowed : Option (List String)) (e : Expr) (v : Val)
    (h : (toolPath T env tools allowed e).2 = .ok v) :
    ∃ tn args kn kv t, e = .call (.name tn) args kn kv ∧ findTool tools tn = some t ∧ capsOk allowed t = true := by
  unfold toolPath at h
  split at h
  · rename_i tn args kn kv
    split at h
    · simp [R.fail] at h
    · rename_i t ht
      split at h
      · rename_i hcaps
        exact ⟨tn, args, kn, kv, t, rfl, ht, hcaps⟩
      · simp [R.fail] at h
  · simp [R.fail] at h
  · simp [R.fail] at h

end Operon.Mito
