import Operon.Model.Atp
/-!
# Lemmas for C04 (energy ledger)

Specification-level definitions used by the property theorems (`WF`, `room`, sums over a colony, what a
history spent, accrued interest) and one `_spec` lemma per store operation that states everything the
inductions over histories need.
-/
namespace Operon.Atp

/-! ### specification vocabulary -/

/-- all balances (the three currencies) together -/
def Store.total (s : Store) : Int := s.atp + s.gtp + s.nadh

/-- every balance and the debt are non-negative, and so are the capacities (true of every constructed store) -/
structure Store.WF (s : Store) : Prop where
  atp : 0 ≤ s.atp
  gtp : 0 ≤ s.gtp
  nadh : 0 ≤ s.nadh
  debt : 0 ≤ s.debt
  maxAtp : 0 ≤ s.maxAtp
  maxGtp : 0 ≤ s.maxGtp
  maxNadh : 0 ≤ s.maxNadh

/-- what the store can still pay out: its balances plus the unused part of its debt limit -/
def Store.room (s : Store) : Int := s.total + max 0 (s.maxDebt - s.debt)

/-- same configuration (capacities, debt limit, interest rate) -/
def Store.SameCfg (s s' : Store) : Prop :=
  s'.maxAtp = s.maxAtp ∧ s'.maxGtp = s.maxGtp ∧ s'.maxNadh = s.maxNadh ∧ s'.maxDebt = s.maxDebt ∧
  s'.rateNum = s.rateNum ∧ s'.rateDen = s.rateDen

theorem Store.SameCfg.refl (s : Store) : s.SameCfg s := ⟨rfl, rfl, rfl, rfl, rfl, rfl⟩

/-! ### `_update_state` never raises and writes only the state tag -/

theorem updateState_spec (cls : Classifier) (s : Store) :
    ∃ st, updateState cls s = ({ s with state := st }, .ok ()) := by
  unfold updateState pyDiv
  by_cases hcap : s.maxAtp + s.maxGtp = 0
  · simp [hcap]
  · by_cases hd : s.debt > 0 ∧ s.maxAtp + s.maxGtp > 0
    · simp [hcap, hd, Except.map]
    · simp [hcap, hd, Except.map]


/-! ### `consume` -/

/-- Everything later proofs need about one `consume`. -/
structure ConsumeSpec (s : Store) (cost : Nat) (r : Store × Branch) : Prop where
  cfg : s.SameCfg r.1
  worth : r.1.worth = s.worth - (if r.2.success then (cost : Int) else 0)
  room : r.1.room = s.room - (if r.2.success then (cost : Int) else 0)
  consumed : r.1.consumed = s.consumed + (if r.2.success then (cost : Int) else 0)
  free : r.2.success = false → r.1.debt = s.debt ∧ r.1.total = s.total ∧ r.1.gtp = s.gtp
  debtMono : s.debt ≤ r.1.debt
  debtLim : r.1.debt = s.debt ∨ r.1.debt ≤ s.maxDebt
  wf : s.WF → r.1.WF

macro "consume_cases" : tactic =>
  `(tactic| (unfold consumeCore debtPath; dsimp only; cases ‹Cur› <;> (repeat' split)))

macro "leaf" : tactic =>
  `(tactic| (try simp only [Store.bal, Store.setBal, charge, refuse, record, Store.worth, Store.room, Store.total,
      Branch.success, Store.SameCfg, reduceIte, Bool.false_eq_true, reduceCtorEq, and_self, true_and, and_true,
      false_implies, implies_true, forall_const, true_or, or_true, false_and, and_false] at *))

theorem consumeCore_spec (s : Store) (cost : Nat) (cur : Cur) (d : Bool) (p : Nat) :
    ConsumeSpec s cost (consumeCore s cost cur d p) := by
  consume_cases <;> constructor <;> leaf <;> (first | omega | trivial | (intro h; cases h; constructor <;> omega) | (intro h; obtain ⟨h1, h2, h3, h4, h5, h6, h7⟩ := h; constructor <;> dsimp only <;> omega))

theorem ConsumeSpec.setState {s : Store} {cost : Nat} {a : Store} {b : Branch} (h : ConsumeSpec s cost (a, b))
    (st : MState) : ConsumeSpec s cost ({ a with state := st }, b) := by
  obtain ⟨h1, h2, h3, h4, h5, h6, h7, h8⟩ := h
  exact ⟨h1, h2, h3, h4, h5, h6, h7, fun w => by have := h8 w; exact ⟨this.1, this.2, this.3, this.4, this.5, this.6, this.7⟩⟩

/-- `consume` = `consumeCore`, then (on success only) `_update_state`, which never raises. -/
theorem consume_eq (cls : Classifier) (s : Store) (cost : Nat) (cur : Cur) (d : Bool) (p : Nat) :
    ∃ st, consume cls s cost cur d p =
      ({ (consumeCore s cost cur d p).1 with state := st }, .ok (consumeCore s cost cur d p).2.success,
        (consumeCore s cost cur d p).2) := by
  unfold consume
  by_cases h : (consumeCore s cost cur d p).2.success = true
  · obtain ⟨st, hst⟩ := updateState_spec cls (consumeCore s cost cur d p).1
    exact ⟨st, by simp [h, hst, Except.map]⟩
  · exact ⟨(consumeCore s cost cur d p).1.state, by simp [h]⟩

theorem consume_spec (cls : Classifier) (s : Store) (cost : Nat) (cur : Cur) (d : Bool) (p : Nat) :
    ConsumeSpec s cost ((consume cls s cost cur d p).1, (consume cls s cost cur d p).2.2) ∧
    (consume cls s cost cur d p).2.1 = .ok (consume cls s cost cur d p).2.2.success := by
  obtain ⟨st, h⟩ := consume_eq cls s cost cur d p
  rw [h]
  exact ⟨(consumeCore_spec s cost cur d p).setState st, rfl⟩

/-! ### `regenerate` / `deposit` -/

structure RegenSpec (s : Store) (n : Nat) (s' : Store) : Prop where
  cfg : s.SameCfg s'
  capped : ∀ c, s'.bal c ≤ max (s.cap c) (s.bal c)
  worth : s'.worth ≤ s.worth + n
  room : s'.room ≤ s.room + n
  debtLe : s'.debt ≤ s.debt
  consumed : s'.consumed = s.consumed
  wf : s.WF → s'.WF

macro "leaf2" : tactic =>
  `(tactic| (try simp only [Store.bal, Store.cap, Store.setBal, Store.worth, Store.room, Store.total,
      Store.SameCfg, reduceIte, Bool.false_eq_true, reduceCtorEq, and_self, true_and, and_true,
      false_implies, implies_true, forall_const, true_or, or_true, false_and, and_false] at *))

theorem regenCore_spec (s : Store) (n : Nat) (cur : Cur) : RegenSpec s n (regenCore s n cur) := by
  unfold regenCore; dsimp only; cases cur <;> (repeat' split) <;> constructor <;> leaf2 <;>
    (first | omega | trivial | (intro c; cases c <;> dsimp only <;> omega)
           | (intro h; obtain ⟨h1, h2, h3, h4, h5, h6, h7⟩ := h; constructor <;> dsimp only <;> omega))

theorem RegenSpec.setState {s : Store} {n : Nat} {a : Store} (h : RegenSpec s n a) (st : MState) :
    RegenSpec s n { a with state := st } := by
  obtain ⟨h1, h2, h3, h4, h5, h6, h7⟩ := h
  exact ⟨h1, fun c => by cases c <;> exact h2 _, h3, h4, h5, h6,
    fun w => by have := h7 w; exact ⟨this.1, this.2, this.3, this.4, this.5, this.6, this.7⟩⟩

theorem regenerate_eq (cls : Classifier) (s : Store) (n : Nat) (cur : Cur) :
    ∃ st, regenerate cls s n cur = ({ regenCore s n cur with state := st }, .ok ()) :=
  updateState_spec cls _

theorem regenerate_spec (cls : Classifier) (s : Store) (n : Nat) (cur : Cur) :
    RegenSpec s n (regenerate cls s n cur).1 ∧ (regenerate cls s n cur).2 = .ok () := by
  obtain ⟨st, h⟩ := regenerate_eq cls s n cur
  rw [h]; exact ⟨(regenCore_spec s n cur).setState st, rfl⟩

/-! ### `withdraw` (first half of `transfer_to`) -/

structure WithdrawSpec (s : Store) (n : Nat) (cur : Cur) (r : Store × Bool) : Prop where
  cfg : s.SameCfg r.1
  debt : r.1.debt = s.debt
  consumed : r.1.consumed = s.consumed
  ok : r.2 = true → (n : Int) ≤ s.bal cur ∧ r.1.worth = s.worth - n ∧ r.1.room = s.room - n
  fail : r.2 = false → r.1 = s
  wf : s.WF → r.1.WF

theorem withdraw_spec (s : Store) (n : Nat) (cur : Cur) : WithdrawSpec s n cur (withdraw s n cur) := by
  unfold withdraw; cases cur <;> (repeat' split) <;> constructor <;> leaf2 <;>
    (first | omega | trivial | (intro h; cases h; done)
           | (intro h; obtain ⟨h1, h2, h3, h4, h5, h6, h7⟩ := h; constructor <;> (try dsimp only) <;> omega))

/-! ### `convert_nadh_to_atp` -/

structure ConvertSpec (s : Store) (s' : Store) : Prop where
  cfg : s.SameCfg s'
  debt : s'.debt = s.debt
  total : s'.total = s.total
  gtp : s'.gtp = s.gtp
  consumed : s'.consumed = s.consumed
  wf : s.WF → s'.WF

theorem convert_spec (s : Store) (n : Nat) : ConvertSpec s (convert s n).1 := by
  unfold convert; dsimp only; (repeat' split) <;> constructor <;> leaf2 <;>
    (first | omega | trivial
           | (intro h; obtain ⟨h1, h2, h3, h4, h5, h6, h7⟩ := h; constructor <;> (try dsimp only) <;> omega))

/-! ### `apply_debt_interest` -/

theorem interestAmount_nonneg (s : Store) (h : 0 ≤ s.debt) : 0 ≤ interestAmount s := by
  unfold interestAmount
  split
  · exact Int.ediv_nonneg (Int.mul_nonneg h (Int.natCast_nonneg _)) (Int.natCast_nonneg _)
  · exact Int.le_refl 0

structure InterestSpec (s : Store) (s' : Store) : Prop where
  cfg : s.SameCfg s'
  debt : s'.debt = s.debt + interestAmount s
  atp : s'.atp = s.atp
  gtp : s'.gtp = s.gtp
  nadh : s'.nadh = s.nadh
  consumed : s'.consumed = s.consumed
  wf : s.WF → s'.WF

theorem applyInterest_spec (s : Store) : InterestSpec s (applyInterest s) := by
  refine ⟨Store.SameCfg.refl _, rfl, rfl, rfl, rfl, rfl, ?_⟩
  intro h
  have := interestAmount_nonneg s h.debt
  exact ⟨h.1, h.2, h.3, by simp only [applyInterest]; have := h.debt; omega, h.5, h.6, h.7⟩

/-! ### `reset`, dormancy -/

theorem reset_eq (cls : Classifier) (s : Store) :
    ∃ st, reset cls s = ({ resetCore s with state := st }, .ok ()) := updateState_spec cls _

theorem exitDormancy_eq (cls : Classifier) (s : Store) :
    ∃ st, exitDormancy cls s = ({ s with state := st }, .ok ()) := updateState_spec cls _

end Operon.Atp
