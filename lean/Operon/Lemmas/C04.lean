import Operon.Model.Atp
/-!
# Lemmas for C04 (energy ledger)

Specification-level definitions used by the property theorems (`WF`, `room`, sums over a colony, what a
history spent, accrued interest) and one `_spec` lemma per store operation that states everything the
inductions over histories need.
-/
namespace Operon.Atp

/-! ### specification vocabulary -/

/-- all balances (the three currencies) together -/
def Store.total (s : Store) : Int := s.atp + s.gtp + s.nadh

/-- every balance and the debt are non-negative, and so are the capacities (true of every constructed store) -/
structure Store.WF (s : Store) : Prop where
  atp : 0 ≤ s.atp
  gtp : 0 ≤ s.gtp
  nadh : 0 ≤ s.nadh
  debt : 0 ≤ s.debt
  maxAtp : 0 ≤ s.maxAtp
  maxGtp : 0 ≤ s.maxGtp
  maxNadh : 0 ≤ s.maxNadh

/-- what the store can still pay out: its balances plus the unused part of its debt limit -/
def Store.room (s : Store) : Int := s.total + max 0 (s.maxDebt - s.debt)

/-- same configuration (capacities, debt limit, interest rate) -/
def Store.SameCfg (s s' : Store) : Prop :=
  s'.maxAtp = s.maxAtp ∧ s'.maxGtp = s.maxGtp ∧ s'.maxNadh = s.maxNadh ∧ s'.maxDebt = s.maxDebt ∧
  s'.rateNum = s.rateNum ∧ s'.rateDen = s.rateDen

theorem Store.SameCfg.refl (s : Store) : s.SameCfg s := ⟨rfl, rfl, rfl, rfl, rfl, rfl⟩

/-! ### `_update_state` writes only the state tag and raises only what the observer raised -/

/-- A region that ends in `_update_state` returns normally with `v`, or the observer raised. -/
def ObsRaise {α : Type} (obs : Obs) (r : Except Exc α) (v : α) : Prop :=
  r = .ok v ∨ ∃ k st, r = .error (.observer k) ∧ obs st = some k

theorem ObsRaise.silent {α : Type} {r : Except Exc α} {v : α} (h : ObsRaise Obs.silent r v) : r = .ok v := by
  rcases h with h | ⟨k, st, -, h⟩
  · exact h
  · simp [Obs.silent] at h

theorem updateStateO_spec (cls : Classifier) (obs : Obs) (s : Store) :
    ∃ st, (updateStateO cls obs s).1 = { s with state := st } ∧ ObsRaise obs (updateStateO cls obs s).2 () := by
  unfold updateStateO pyDiv ObsRaise
  by_cases hcap : s.maxAtp + s.maxGtp = 0
  · simp only [hcap, reduceIte, Int.lt_irrefl, and_false]
    split
    · exact ⟨_, rfl, Or.inl rfl⟩
    · split
      · exact ⟨_, rfl, Or.inl rfl⟩
      · rename_i k hk; exact ⟨_, rfl, Or.inr ⟨k, _, rfl, hk⟩⟩
  · by_cases hd : s.debt > 0 ∧ s.maxAtp + s.maxGtp > 0
    · simp only [hcap, hd, reduceIte, Except.map, and_self]
      split
      · exact ⟨_, rfl, Or.inl rfl⟩
      · split
        · exact ⟨_, rfl, Or.inl rfl⟩
        · rename_i k hk; exact ⟨_, rfl, Or.inr ⟨k, _, rfl, hk⟩⟩
    · simp only [hcap, hd, reduceIte, Except.map]
      split
      · exact ⟨_, rfl, Or.inl rfl⟩
      · split
        · exact ⟨_, rfl, Or.inl rfl⟩
        · rename_i k hk; exact ⟨_, rfl, Or.inr ⟨k, _, rfl, hk⟩⟩

theorem updateState_spec (cls : Classifier) (s : Store) :
    ∃ st, updateState cls s = ({ s with state := st }, .ok ()) := by
  obtain ⟨st, h1, h2⟩ := updateStateO_spec cls Obs.silent s
  exact ⟨st, Prod.ext h1 h2.silent⟩

/-! ### `consume` -/

/-- Everything later proofs need about one `consume`. -/
structure ConsumeSpec (s : Store) (cost : Nat) (r : Store × Branch) : Prop where
  cfg : s.SameCfg r.1
  worth : r.1.worth = s.worth - (if r.2.success then (cost : Int) else 0)
  room : r.1.room = s.room - (if r.2.success then (cost : Int) else 0)
  consumed : r.1.consumed = s.consumed + (if r.2.success then (cost : Int) else 0)
  free : r.2.success = false → r.1.debt = s.debt ∧ r.1.total = s.total ∧ r.1.gtp = s.gtp
  debtMono : s.debt ≤ r.1.debt
  debtLim : r.1.debt = s.debt ∨ r.1.debt ≤ s.maxDebt
  wf : s.WF → r.1.WF

macro "consume_cases" : tactic =>
  `(tactic| (unfold consumeCore debtPath; dsimp only; cases ‹Cur› <;> (repeat' split)))

macro "leaf" : tactic =>
  `(tactic| (try simp only [Store.bal, Store.setBal, charge, refuse, record, Store.worth, Store.room, Store.total,
      Branch.success, Store.SameCfg, reduceIte, Bool.false_eq_true, reduceCtorEq, and_self, true_and, and_true,
      false_implies, implies_true, forall_const, true_or, or_true, false_and, and_false] at *))

theorem consumeCore_spec (s : Store) (cost : Nat) (cur : Cur) (d : Bool) (p : Nat) :
    ConsumeSpec s cost (consumeCore s cost cur d p) := by
  consume_cases <;> constructor <;> leaf <;> (first | omega | trivial | (intro h; cases h; constructor <;> omega) | (intro h; obtain ⟨h1, h2, h3, h4, h5, h6, h7⟩ := h; constructor <;> dsimp only <;> omega))

theorem ConsumeSpec.setState {s : Store} {cost : Nat} {a : Store} {b : Branch} (h : ConsumeSpec s cost (a, b))
    (st : MState) : ConsumeSpec s cost ({ a with state := st }, b) := by
  obtain ⟨h1, h2, h3, h4, h5, h6, h7, h8⟩ := h
  exact ⟨h1, h2, h3, h4, h5, h6, h7, fun w => by have := h8 w; exact ⟨this.1, this.2, this.3, this.4, this.5, this.6, this.7⟩⟩

/-- `consume` = `consumeCore`, then (on success only) `_update_state`, which raises only what the observer raised. -/
theorem consumeO_eq (cls : Classifier) (obs : Obs) (s : Store) (cost : Nat) (cur : Cur) (d : Bool) (p : Nat) :
    ∃ st, (consumeO cls obs s cost cur d p).1 = { (consumeCore s cost cur d p).1 with state := st } ∧
      (consumeO cls obs s cost cur d p).2.2 = (consumeCore s cost cur d p).2 ∧
      (if (consumeCore s cost cur d p).2.success then ObsRaise obs (consumeO cls obs s cost cur d p).2.1 true
       else (consumeO cls obs s cost cur d p).2.1 = .ok false) := by
  unfold consumeO
  by_cases h : (consumeCore s cost cur d p).2.success = true
  · obtain ⟨st, h1, h2⟩ := updateStateO_spec cls obs (consumeCore s cost cur d p).1
    refine ⟨st, by simp [h, h1], by simp [h], ?_⟩
    simp only [h, reduceIte]
    rcases h2 with h2 | ⟨k, st', h2, hk⟩
    · left; simp [h2, Except.map]
    · right; exact ⟨k, st', by simp [h2, Except.map], hk⟩
  · exact ⟨(consumeCore s cost cur d p).1.state, by simp [h], by simp [h], by simp [h]⟩

/-- the ledger part of `consume` does not depend on the observer at all -/
theorem consumeO_spec (cls : Classifier) (obs : Obs) (s : Store) (cost : Nat) (cur : Cur) (d : Bool) (p : Nat) :
    ConsumeSpec s cost ((consumeO cls obs s cost cur d p).1, (consumeO cls obs s cost cur d p).2.2) ∧
    (if (consumeO cls obs s cost cur d p).2.2.success then ObsRaise obs (consumeO cls obs s cost cur d p).2.1 true
     else (consumeO cls obs s cost cur d p).2.1 = .ok false) := by
  obtain ⟨st, h1, h2, h3⟩ := consumeO_eq cls obs s cost cur d p
  rw [h1, h2]
  exact ⟨(consumeCore_spec s cost cur d p).setState st, h3⟩

theorem consume_spec (cls : Classifier) (s : Store) (cost : Nat) (cur : Cur) (d : Bool) (p : Nat) :
    ConsumeSpec s cost ((consume cls s cost cur d p).1, (consume cls s cost cur d p).2.2) ∧
    (consume cls s cost cur d p).2.1 = .ok (consume cls s cost cur d p).2.2.success := by
  obtain ⟨h1, h2⟩ := consumeO_spec cls Obs.silent s cost cur d p
  refine ⟨h1, ?_⟩
  unfold consume
  cases hb : (consumeO cls Obs.silent s cost cur d p).2.2.success
  · simpa [hb] using h2
  · simp only [hb, reduceIte] at h2; exact h2.silent

theorem consumeO_success_of_ok_true (cls : Classifier) (obs : Obs) {s : Store} {cost : Nat} {cur : Cur} {d : Bool} {p : Nat}
    (h : (consumeO cls obs s cost cur d p).2.1 = .ok true) :
    (consumeO cls obs s cost cur d p).2.2.success = true := by
  have hr := (consumeO_spec cls obs s cost cur d p).2
  cases hb : (consumeO cls obs s cost cur d p).2.2.success
  · simp only [hb, Bool.false_eq_true, reduceIte] at hr; rw [hr] at h; cases h
  · rfl

/-! ### `regenerate` / `deposit` -/

structure RegenSpec (s : Store) (n : Nat) (s' : Store) : Prop where
  cfg : s.SameCfg s'
  capped : ∀ c, s'.bal c ≤ max (s.cap c) (s.bal c)
  worth : s'.worth ≤ s.worth + n
  room : s'.room ≤ s.room + n
  debtLe : s'.debt ≤ s.debt
  consumed : s'.consumed = s.consumed
  wf : s.WF → s'.WF

macro "leaf2" : tactic =>
  `(tactic| (try simp only [Store.bal, Store.cap, Store.setBal, Store.worth, Store.room, Store.total,
      Store.SameCfg, reduceIte, Bool.false_eq_true, reduceCtorEq, and_self, true_and, and_true,
      false_implies, implies_true, forall_const, true_or, or_true, false_and, and_false] at *))

theorem regenCore_spec (s : Store) (n : Nat) (cur : Cur) : RegenSpec s n (regenCore s n cur) := by
  unfold regenCore; dsimp only; cases cur <;> (repeat' split) <;> constructor <;> leaf2 <;>
    (first | omega | trivial | (intro c; cases c <;> dsimp only <;> omega)
           | (intro h; obtain ⟨h1, h2, h3, h4, h5, h6, h7⟩ := h; constructor <;> dsimp only <;> omega))

theorem RegenSpec.setState {s : Store} {n : Nat} {a : Store} (h : RegenSpec s n a) (st : MState) :
    RegenSpec s n { a with state := st } := by
  obtain ⟨h1, h2, h3, h4, h5, h6, h7⟩ := h
  exact ⟨h1, fun c => by cases c <;> exact h2 _, h3, h4, h5, h6,
    fun w => by have := h7 w; exact ⟨this.1, this.2, this.3, this.4, this.5, this.6, this.7⟩⟩

theorem regenerateO_eq (cls : Classifier) (obs : Obs) (s : Store) (n : Nat) (cur : Cur) :
    ∃ st, (regenerateO cls obs s n cur).1 = { regenCore s n cur with state := st } ∧
      ObsRaise obs (regenerateO cls obs s n cur).2 () :=
  updateStateO_spec cls obs _

theorem regenerateO_spec (cls : Classifier) (obs : Obs) (s : Store) (n : Nat) (cur : Cur) :
    RegenSpec s n (regenerateO cls obs s n cur).1 ∧ ObsRaise obs (regenerateO cls obs s n cur).2 () := by
  obtain ⟨st, h1, h2⟩ := regenerateO_eq cls obs s n cur
  rw [h1]; exact ⟨(regenCore_spec s n cur).setState st, h2⟩

theorem regenerate_spec (cls : Classifier) (s : Store) (n : Nat) (cur : Cur) :
    RegenSpec s n (regenerate cls s n cur).1 ∧ (regenerate cls s n cur).2 = .ok () := by
  obtain ⟨h1, h2⟩ := regenerateO_spec cls Obs.silent s n cur
  exact ⟨h1, h2.silent⟩

/-! ### `withdraw` (first half of `transfer_to`) -/

structure WithdrawSpec (s : Store) (n : Nat) (cur : Cur) (r : Store × Bool) : Prop where
  cfg : s.SameCfg r.1
  debt : r.1.debt = s.debt
  consumed : r.1.consumed = s.consumed
  ok : r.2 = true → (n : Int) ≤ s.bal cur ∧ r.1.worth = s.worth - n ∧ r.1.room = s.room - n
  fail : r.2 = false → r.1 = s
  wf : s.WF → r.1.WF

theorem withdraw_spec (s : Store) (n : Nat) (cur : Cur) : WithdrawSpec s n cur (withdraw s n cur) := by
  unfold withdraw; cases cur <;> (repeat' split) <;> constructor <;> leaf2 <;>
    (first | omega | trivial | (intro h; cases h; done)
           | (intro h; obtain ⟨h1, h2, h3, h4, h5, h6, h7⟩ := h; constructor <;> (try dsimp only) <;> omega))

/-! ### `convert_nadh_to_atp` -/

structure ConvertSpec (s : Store) (s' : Store) : Prop where
  cfg : s.SameCfg s'
  debt : s'.debt = s.debt
  total : s'.total = s.total
  gtp : s'.gtp = s.gtp
  consumed : s'.consumed = s.consumed
  wf : s.WF → s'.WF

theorem convert_spec (s : Store) (n : Nat) : ConvertSpec s (convert s n).1 := by
  unfold convert; dsimp only; (repeat' split) <;> constructor <;> leaf2 <;>
    (first | omega | trivial
           | (intro h; obtain ⟨h1, h2, h3, h4, h5, h6, h7⟩ := h; constructor <;> (try dsimp only) <;> omega))

/-! ### `apply_debt_interest` -/

theorem interestAmount_nonneg (s : Store) (h : 0 ≤ s.debt) : 0 ≤ interestAmount s := by
  unfold interestAmount
  split
  · exact Int.ediv_nonneg (Int.mul_nonneg h (Int.natCast_nonneg _)) (Int.natCast_nonneg _)
  · exact Int.le_refl 0

structure InterestSpec (s : Store) (s' : Store) : Prop where
  cfg : s.SameCfg s'
  debt : s'.debt = s.debt + interestAmount s
  atp : s'.atp = s.atp
  gtp : s'.gtp = s.gtp
  nadh : s'.nadh = s.nadh
  consumed : s'.consumed = s.consumed
  wf : s.WF → s'.WF

theorem applyInterest_spec (s : Store) : InterestSpec s (applyInterest s) := by
  refine ⟨Store.SameCfg.refl _, rfl, rfl, rfl, rfl, rfl, ?_⟩
  intro h
  have := interestAmount_nonneg s h.debt
  exact ⟨h.1, h.2, h.3, by simp only [applyInterest]; have := h.debt; omega, h.5, h.6, h.7⟩

/-! ### `reset`, dormancy -/

theorem resetO_eq (cls : Classifier) (obs : Obs) (s : Store) :
    ∃ st, (resetO cls obs s).1 = { resetCore s with state := st } ∧ ObsRaise obs (resetO cls obs s).2 () :=
  updateStateO_spec cls obs _

theorem exitDormancyO_eq (cls : Classifier) (obs : Obs) (s : Store) :
    ∃ st, (exitDormancyO cls obs s).1 = { s with state := st } ∧ ObsRaise obs (exitDormancyO cls obs s).2 () :=
  updateStateO_spec cls obs _

theorem reset_eq (cls : Classifier) (s : Store) :
    ∃ st, reset cls s = ({ resetCore s with state := st }, .ok ()) := updateState_spec cls _

theorem exitDormancy_eq (cls : Classifier) (s : Store) :
    ∃ st, exitDormancy cls s = ({ s with state := st }, .ok ()) := updateState_spec cls _

/-! ### colonies -/

def sumOf (f : Store → Int) (sys : Sys) : Int := (sys.map f).sum

theorem sumOf_set (f : Store → Int) : ∀ (sys : Sys) (i : Nat) (s x : Store), sys[i]? = some s →
    sumOf f (sys.set i x) = sumOf f sys - f s + f x
  | [], i, s, x, h => by simp at h
  | a :: l, 0, s, x, h => by
      simp at h; subst h; simp [sumOf]; omega
  | a :: l, i + 1, s, x, h => by
      have := sumOf_set f l i s x (by simpa using h)
      simp [sumOf] at *; omega

/-- every store of the colony is well formed -/
def Sys.WF (sys : Sys) : Prop := ∀ (i : Nat) (s : Store), sys[i]? = some s → s.WF

theorem lt_of_get {sys : Sys} {j : Nat} {t : Store} (h : sys[j]? = some t) : j < sys.length := by
  obtain ⟨h', _⟩ := List.getElem?_eq_some_iff.mp h; exact h'

theorem onStore_get (sys : Sys) (j : Nat) (f : Store → Store × Ret) (i : Nat) :
    (onStore sys j f).1[i]? = if j = i then (sys[i]?).map (fun t => (f t).1) else sys[i]? := by
  unfold onStore
  cases h : sys[j]? with
  | none =>
    by_cases e : j = i
    · subst e; simp [h]
    · simp [e]
  | some t =>
    by_cases e : j = i
    · subst e
      rw [List.getElem?_set_self (lt_of_get h)]; simp [h]
    · simp [e]

theorem onStore_length (sys : Sys) (j : Nat) (f : Store → Store × Ret) : (onStore sys j f).1.length = sys.length := by
  unfold onStore; cases sys[j]? <;> simp

theorem onStore_sum (g : Store → Int) (sys : Sys) (j : Nat) (f : Store → Store × Ret) :
    sumOf g (onStore sys j f).1 = sumOf g sys + (match sys[j]? with | some t => g (f t).1 - g t | none => 0) := by
  unfold onStore
  cases h : sys[j]? with
  | none => simp
  | some t => simp only []; rw [sumOf_set g sys j t _ h]; omega

theorem onStore_ret (sys : Sys) (j : Nat) (f : Store → Store × Ret) :
    (onStore sys j f).2 = (match sys[j]? with | some t => (f t).2 | none => .noSuchStore) := by
  unfold onStore; cases sys[j]? <;> rfl


/-! ### one call on a colony -/

/-- operations that bring energy in from outside the colony -/
def Op.inflow : Op → Bool
  | .regenerate _ _ _ => true
  | .reset _ => true
  | _ => false

/-- what a call cost its caller: the cost of a `consume` that reported success, nothing otherwise -/
def paid : Op → Ret → Int
  | .consume _ cost _ _ _, .bool true => cost
  | _, _ => 0

/-- A quantity that behaves like money under every operation (both `worth` and `room` do). -/
structure Pot (g : Store → Int) : Prop where
  consume : ∀ cls obs s cost cur d p, g (consumeO cls obs s cost cur d p).1 =
    g s - (if (consumeO cls obs s cost cur d p).2.2.success then (cost : Int) else 0)
  withdraw : ∀ s n cur, (withdraw s n cur).2 = true → g (withdraw s n cur).1 = g s - n
  deposit : ∀ cls obs s n cur, g (regenerateO cls obs s n cur).1 ≤ g s + n
  convert : ∀ s n, g (convert s n).1 = g s
  interest : ∀ s, s.WF → g (applyInterest s) ≤ g s
  state : ∀ s st, g { s with state := st } = g s

theorem pot_worth : Pot Store.worth where
  consume cls obs s cost cur d p := (consumeO_spec cls obs s cost cur d p).1.worth
  withdraw s n cur h := ((withdraw_spec s n cur).ok h).2.1
  deposit cls obs s n cur := (regenerateO_spec cls obs s n cur).1.worth
  convert s n := by
    have h := convert_spec s n
    have := h.total; have := h.debt
    simp only [Store.worth, Store.total] at *; omega
  interest s h := by
    have := interestAmount_nonneg s h.debt
    simp only [Store.worth, applyInterest]; omega
  state s st := rfl

theorem pot_room : Pot Store.room where
  consume cls obs s cost cur d p := (consumeO_spec cls obs s cost cur d p).1.room
  withdraw s n cur h := ((withdraw_spec s n cur).ok h).2.2
  deposit cls obs s n cur := (regenerateO_spec cls obs s n cur).1.room
  convert s n := by
    have h := convert_spec s n
    have := h.total; have := h.debt; have := h.cfg.2.2.2.1
    simp only [Store.room] at *; omega
  interest s h := by
    have := interestAmount_nonneg s h.debt
    simp only [Store.room, Store.total, applyInterest]; omega
  state s st := rfl

theorem step_length (cls : Classifier) (obs : Nat → Obs) (sys : Sys) (op : Op) : (step cls obs sys op).1.length = sys.length := by
  cases op <;> simp only [step, onStore_length]
  case transfer i j n cur =>
    cases sys[i]? <;> cases sys[j]? <;> simp only []
    split <;> simp [onStore_length]

/-- Without inflow, a call never increases the colony's total of a money-like quantity, and a successful
    `consume` decreases it by exactly its cost. -/
theorem step_pot {g : Store → Int} (hg : Pot g) (cls : Classifier) (obs : Nat → Obs) (sys : Sys) (op : Op)
    (wf : ∀ j, op = .interest j → Sys.WF sys) (h : op.inflow = false) :
    sumOf g (step cls obs sys op).1 + paid op (step cls obs sys op).2 ≤ sumOf g sys := by
  cases op with
  | regenerate i n cur => simp [Op.inflow] at h
  | reset i => simp [Op.inflow] at h
  | consume j cost cur d p =>
    simp only [step]
    rw [onStore_sum, onStore_ret]
    cases hj : sys[j]? with
    | none => simp [paid]
    | some t =>
      obtain ⟨-, hr⟩ := consumeO_spec cls (obs j) t cost cur d p
      have hc := hg.consume cls (obs j) t cost cur d p
      cases hb : (consumeO cls (obs j) t cost cur d p).2.2.success
      · simp only [hb, Bool.false_eq_true, reduceIte] at hr hc
        simp only [hr, retBool, paid]; omega
      · simp only [hb, reduceIte] at hr hc
        rcases hr with hr | ⟨k, st, hr, -⟩
        · simp only [hr, retBool, paid]; omega
        · simp only [hr, retBool, paid]; omega
  | transfer i j n cur =>
    simp only [step]
    cases hi : sys[i]? with
    | none => simp [paid]
    | some a =>
      cases hj : sys[j]? with
      | none => simp [paid]
      | some b0 =>
        simp only []
        have hw := withdraw_spec a n cur
        cases hok : (withdraw a n cur).2 with
        | false =>
          have := hw.fail hok
          simp only [Bool.false_eq_true, reduceIte, paid]
          rw [sumOf_set g sys i a _ hi, this]; omega
        | true =>
          simp only [reduceIte, paid]
          rw [onStore_sum, sumOf_set g sys i a _ hi]
          have h1 := hg.withdraw a n cur hok
          cases hb : (sys.set i (withdraw a n cur).1)[j]? with
          | none => simp only []; omega
          | some b =>
            have h2 := hg.deposit cls (obs j) b n cur
            simp only [depositO]; omega
  | convert j n =>
    simp only [step]; rw [onStore_sum]
    cases hj : sys[j]? with
    | none => simp [paid]
    | some t => have := hg.convert t n; simp [paid]; omega
  | dorm j =>
    simp only [step]; rw [onStore_sum]
    cases hj : sys[j]? with
    | none => simp [paid]
    | some t => have := hg.state t .dormant; simp [paid, enterDormancy] at *; omega
  | wake j =>
    simp only [step]; rw [onStore_sum]
    cases hj : sys[j]? with
    | none => simp [paid]
    | some t =>
      obtain ⟨st, hst, -⟩ := exitDormancyO_eq cls (obs j) t
      have := hg.state t st; simp [paid, hst] at *; omega
  | interest j =>
    simp only [step]; rw [onStore_sum]
    cases hj : sys[j]? with
    | none => simp [paid]
    | some t => have := hg.interest t (wf j rfl j t hj); simp [paid] at *; omega


/-! ### what a call does to each single store -/

theorem Store.SameCfg.trans {a b c : Store} (h1 : a.SameCfg b) (h2 : b.SameCfg c) : a.SameCfg c := by
  obtain ⟨a1, a2, a3, a4, a5, a6⟩ := h1
  obtain ⟨b1, b2, b3, b4, b5, b6⟩ := h2
  exact ⟨b1.trans a1, b2.trans a2, b3.trans a3, b4.trans a4, b5.trans a5, b6.trans a6⟩

/-- A store before and after any call other than `apply_debt_interest`: same configuration, still well
    formed, and the debt does not move above `maxDebt + K` if it was not above it before. -/
structure Quiet (s s' : Store) : Prop where
  cfg : s.SameCfg s'
  wf : s.WF → s'.WF
  debt : s.WF → ∀ K : Int, 0 ≤ K → s.debt ≤ s.maxDebt + K → s'.debt ≤ s.maxDebt + K

theorem Quiet.refl (s : Store) : Quiet s s := ⟨Store.SameCfg.refl s, id, fun _ _ _ h => h⟩

theorem Quiet.trans {a b c : Store} (h1 : Quiet a b) (h2 : Quiet b c) : Quiet a c :=
  ⟨h1.cfg.trans h2.cfg, fun w => h2.wf (h1.wf w), fun w K hK hd => by
    have e : b.maxDebt = a.maxDebt := h1.cfg.2.2.2.1
    have := h2.debt (h1.wf w) K hK (by rw [e]; exact h1.debt w K hK hd)
    rw [e] at this; exact this⟩

theorem Quiet.setState {a b : Store} (h : Quiet a b) (st : MState) : Quiet a { b with state := st } :=
  ⟨h.cfg, fun w => by have := h.wf w; exact ⟨this.1, this.2, this.3, this.4, this.5, this.6, this.7⟩, h.debt⟩

theorem quiet_consumeO (cls : Classifier) (obs : Obs) (s : Store) (cost : Nat) (cur : Cur) (d : Bool) (p : Nat) :
    Quiet s (consumeO cls obs s cost cur d p).1 := by
  have h := (consumeO_spec cls obs s cost cur d p).1
  refine ⟨h.cfg, h.wf, fun w K hK hd => ?_⟩
  have := h.debtLim; simp only [] at this; omega

theorem quiet_consume (cls : Classifier) (s : Store) (cost : Nat) (cur : Cur) (d : Bool) (p : Nat) :
    Quiet s (consume cls s cost cur d p).1 := quiet_consumeO cls Obs.silent s cost cur d p

theorem quiet_regenerateO (cls : Classifier) (obs : Obs) (s : Store) (n : Nat) (cur : Cur) :
    Quiet s (regenerateO cls obs s n cur).1 := by
  have h := (regenerateO_spec cls obs s n cur).1
  exact ⟨h.cfg, h.wf, fun w K hK hd => by have := h.debtLe; omega⟩

theorem quiet_regenerate (cls : Classifier) (s : Store) (n : Nat) (cur : Cur) :
    Quiet s (regenerate cls s n cur).1 := quiet_regenerateO cls Obs.silent s n cur

theorem quiet_withdraw (s : Store) (n : Nat) (cur : Cur) : Quiet s (withdraw s n cur).1 := by
  have h := withdraw_spec s n cur
  exact ⟨h.cfg, h.wf, fun w K hK hd => by have := h.debt; omega⟩

theorem quiet_convert (s : Store) (n : Nat) : Quiet s (convert s n).1 := by
  have h := convert_spec s n
  exact ⟨h.cfg, h.wf, fun w K hK hd => by have := h.debt; omega⟩

theorem quiet_dorm (s : Store) : Quiet s (enterDormancy s) := (Quiet.refl s).setState _

theorem quiet_wakeO (cls : Classifier) (obs : Obs) (s : Store) : Quiet s (exitDormancyO cls obs s).1 := by
  obtain ⟨st, h, -⟩ := exitDormancyO_eq cls obs s
  rw [h]; exact (Quiet.refl s).setState st

theorem quiet_wake (cls : Classifier) (s : Store) : Quiet s (exitDormancy cls s).1 := quiet_wakeO cls Obs.silent s

theorem quiet_resetCore (s : Store) : Quiet s (resetCore s) :=
  ⟨Store.SameCfg.refl _, fun w => ⟨w.maxAtp, w.maxGtp, w.maxNadh, Int.le_refl 0, w.maxAtp, w.maxGtp, w.maxNadh⟩,
   fun w K hK hd => by have := w.debt; simp only [resetCore]; omega⟩

theorem quiet_resetO (cls : Classifier) (obs : Obs) (s : Store) : Quiet s (resetO cls obs s).1 := by
  obtain ⟨st, h, -⟩ := resetO_eq cls obs s
  rw [h]; exact (quiet_resetCore s).setState st

theorem quiet_reset (cls : Classifier) (s : Store) : Quiet s (reset cls s).1 := quiet_resetO cls Obs.silent s

/-- interest charged to store `i` by this call (zero unless the call is `apply_debt_interest` on `i`) -/
def interestAt (i : Nat) (sys : Sys) : Op → Int
  | .interest j => if j = i then (match sys[i]? with | some s => interestAmount s | none => 0) else 0
  | _ => 0

/-- Every call other than `apply_debt_interest` is `Quiet` on every store of the colony. -/
theorem step_quiet (cls : Classifier) (obs : Nat → Obs) (sys : Sys) (op : Op) (hop : ∀ j, op ≠ .interest j) (i : Nat) (s : Store)
    (h : sys[i]? = some s) : ∃ s', (step cls obs sys op).1[i]? = some s' ∧ Quiet s s' := by
  cases op with
  | interest j => exact absurd rfl (hop j)
  | consume j cost cur d p =>
    simp only [step, onStore_get, h, Option.map]
    by_cases e : j = i
    · simp only [e, reduceIte]; exact ⟨_, rfl, quiet_consumeO cls (obs i) s cost cur d p⟩
    · simp only [e, reduceIte]; exact ⟨_, rfl, Quiet.refl s⟩
  | regenerate j n cur =>
    simp only [step, onStore_get, h, Option.map]
    by_cases e : j = i
    · simp only [e, reduceIte]; exact ⟨_, rfl, quiet_regenerateO cls (obs i) s n cur⟩
    · simp only [e, reduceIte]; exact ⟨_, rfl, Quiet.refl s⟩
  | convert j n =>
    simp only [step, onStore_get, h, Option.map]
    by_cases e : j = i
    · simp only [e, reduceIte]; exact ⟨_, rfl, quiet_convert s n⟩
    · simp only [e, reduceIte]; exact ⟨_, rfl, Quiet.refl s⟩
  | dorm j =>
    simp only [step, onStore_get, h, Option.map]
    by_cases e : j = i
    · simp only [e, reduceIte]; exact ⟨_, rfl, quiet_dorm s⟩
    · simp only [e, reduceIte]; exact ⟨_, rfl, Quiet.refl s⟩
  | wake j =>
    simp only [step, onStore_get, h, Option.map]
    by_cases e : j = i
    · simp only [e, reduceIte]; exact ⟨_, rfl, quiet_wakeO cls (obs i) s⟩
    · simp only [e, reduceIte]; exact ⟨_, rfl, Quiet.refl s⟩
  | reset j =>
    simp only [step, onStore_get, h, Option.map]
    by_cases e : j = i
    · simp only [e, reduceIte]; exact ⟨_, rfl, quiet_resetO cls (obs i) s⟩
    · simp only [e, reduceIte]; exact ⟨_, rfl, Quiet.refl s⟩
  | transfer a b n cur =>
    simp only [step]
    cases ha : sys[a]? with
    | none => exact ⟨s, h, Quiet.refl s⟩
    | some sa =>
      cases hb : sys[b]? with
      | none => exact ⟨s, h, Quiet.refl s⟩
      | some sb =>
        simp only []
        -- the store at index i after the withdrawal was written back
        have h1 : ∃ s1, (sys.set a (withdraw sa n cur).1)[i]? = some s1 ∧ Quiet s s1 := by
          by_cases e : a = i
          · subst e
            rw [List.getElem?_set_self (lt_of_get ha)]
            have : sa = s := by rw [ha] at h; exact Option.some.inj h
            subst this; exact ⟨_, rfl, quiet_withdraw sa n cur⟩
          · rw [List.getElem?_set_ne e]; exact ⟨s, h, Quiet.refl s⟩
        obtain ⟨s1, hs1, q1⟩ := h1
        split
        · simp only [onStore_get, hs1, Option.map]
          by_cases e : b = i
          · simp only [e, reduceIte]; exact ⟨_, rfl, q1.trans (quiet_regenerateO cls (obs i) s1 n cur)⟩
          · simp only [e, reduceIte]; exact ⟨_, rfl, q1⟩
        · exact ⟨s1, hs1, q1⟩

theorem interestAt_nonneg (i : Nat) (sys : Sys) (op : Op) (wf : Sys.WF sys) : 0 ≤ interestAt i sys op := by
  cases op <;> simp only [interestAt, Int.le_refl]
  split
  · cases h : sys[i]? with
    | none => exact Int.le_refl 0
    | some s => exact interestAmount_nonneg s (wf i s h).debt
  · exact Int.le_refl 0

/-- `apply_debt_interest` on store `j`: store `i` is untouched unless `i = j`, where the debt grows by the interest. -/
theorem step_interest (cls : Classifier) (obs : Nat → Obs) (sys : Sys) (j i : Nat) (s : Store) (h : sys[i]? = some s) :
    ∃ s', (step cls obs sys (.interest j)).1[i]? = some s' ∧ s.SameCfg s' ∧ (s.WF → s'.WF) ∧
      s'.debt = s.debt + interestAt i sys (.interest j) := by
  simp only [step, onStore_get, h, Option.map, interestAt]
  by_cases e : j = i
  · simp only [e, reduceIte]
    have := applyInterest_spec s
    exact ⟨_, rfl, this.cfg, this.wf, this.debt⟩
  · simp only [e, reduceIte]; exact ⟨s, rfl, Store.SameCfg.refl s, id, by omega⟩

theorem step_wf (cls : Classifier) (obs : Nat → Obs) (sys : Sys) (op : Op) (wf : Sys.WF sys) : Sys.WF (step cls obs sys op).1 := by
  intro i s' hs'
  have hlt : i < sys.length := by rw [← step_length cls obs sys op]; exact lt_of_get hs'
  obtain ⟨s, hs⟩ : ∃ s, sys[i]? = some s := ⟨sys[i], by simp [hlt]⟩
  by_cases hop : ∀ j, op ≠ .interest j
  · obtain ⟨s'', h1, q⟩ := step_quiet cls obs sys op hop i s hs
    rw [h1] at hs'; cases hs'; exact q.wf (wf i s hs)
  · obtain ⟨j, hj⟩ := Classical.not_forall.mp hop
    have hj : op = .interest j := Classical.not_not.mp hj
    subst hj
    obtain ⟨s'', h1, -, w, -⟩ := step_interest cls obs sys j i s hs
    rw [h1] at hs'; cases hs'; exact w (wf i s hs)

/-! ### a call raises only what an observer raised -/

theorem retUnit_raised {obs : Obs} {r : Except Exc Unit} {e : Exc} (h : ObsRaise obs r ())
    (hr : retUnit r = .raised e) : ∃ k st, e = .observer k ∧ obs st = some k := by
  rcases h with h | ⟨k, st, h, hk⟩
  · rw [h] at hr; simp [retUnit] at hr
  · rw [h] at hr; simp only [retUnit, Ret.raised.injEq] at hr; exact ⟨k, st, hr.symm, hk⟩

theorem retBool_raised {obs : Obs} {r : Except Exc Bool} {e : Exc} {b : Bool} (h : ObsRaise obs r b)
    (hr : retBool r = .raised e) : ∃ k st, e = .observer k ∧ obs st = some k := by
  rcases h with h | ⟨k, st, h, hk⟩
  · rw [h] at hr; simp [retBool] at hr
  · rw [h] at hr; simp only [retBool, Ret.raised.injEq] at hr; exact ⟨k, st, hr.symm, hk⟩

/-- If a call raises, the exception is one that the observer of some store raised during that call
    (`_update_state`'s own divisions never raise). -/
theorem step_raise_only_observer (cls : Classifier) (obs : Nat → Obs) (sys : Sys) (op : Op) (e : Exc)
    (h : (step cls obs sys op).2 = .raised e) : ∃ j k st, e = .observer k ∧ obs j st = some k := by
  cases op with
  | consume j cost cur d p =>
    simp only [step, onStore_ret] at h
    cases hj : sys[j]? with
    | none => rw [hj] at h; simp at h
    | some t =>
      rw [hj] at h
      have hs := (consumeO_spec cls (obs j) t cost cur d p).2
      cases hb : (consumeO cls (obs j) t cost cur d p).2.2.success
      · simp only [hb, Bool.false_eq_true, reduceIte] at hs; simp [hs, retBool] at h
      · simp only [hb, reduceIte] at hs
        obtain ⟨k, st, h1, h2⟩ := retBool_raised hs h
        exact ⟨j, k, st, h1, h2⟩
  | regenerate j n cur =>
    simp only [step, onStore_ret] at h
    cases hj : sys[j]? with
    | none => rw [hj] at h; simp at h
    | some t =>
      rw [hj] at h
      obtain ⟨k, st, h1, h2⟩ := retUnit_raised (regenerateO_spec cls (obs j) t n cur).2 h
      exact ⟨j, k, st, h1, h2⟩
  | transfer a b n cur =>
    simp only [step] at h
    cases ha : sys[a]? with
    | none => rw [ha] at h; simp at h
    | some sa =>
      cases hb : sys[b]? with
      | none => rw [ha, hb] at h; simp at h
      | some sb =>
        rw [ha, hb] at h
        simp only [] at h
        split at h
        · rw [onStore_ret] at h
          cases ht : (sys.set a (withdraw sa n cur).1)[b]? with
          | none => rw [ht] at h; simp at h
          | some t =>
            rw [ht] at h
            rcases (regenerateO_spec cls (obs b) t n cur).2 with h2 | ⟨k, st, h2, hk⟩
            · simp [depositO, h2] at h
            · simp only [depositO, h2, Ret.raised.injEq] at h; exact ⟨b, k, st, h.symm, hk⟩
        · simp at h
  | convert j n => simp only [step, onStore_ret] at h; cases hj : sys[j]? <;> rw [hj] at h <;> simp at h
  | dorm j => simp only [step, onStore_ret] at h; cases hj : sys[j]? <;> rw [hj] at h <;> simp at h
  | wake j =>
    simp only [step, onStore_ret] at h
    cases hj : sys[j]? with
    | none => rw [hj] at h; simp at h
    | some t =>
      rw [hj] at h
      obtain ⟨st', -, h2⟩ := exitDormancyO_eq cls (obs j) t
      obtain ⟨k, st, h1, h2⟩ := retUnit_raised h2 h
      exact ⟨j, k, st, h1, h2⟩
  | interest j => simp only [step, onStore_ret] at h; cases hj : sys[j]? <;> rw [hj] at h <;> simp at h
  | reset j =>
    simp only [step, onStore_ret] at h
    cases hj : sys[j]? with
    | none => rw [hj] at h; simp at h
    | some t =>
      rw [hj] at h
      obtain ⟨st', -, h2⟩ := resetO_eq cls (obs j) t
      obtain ⟨k, st, h1, h2⟩ := retUnit_raised h2 h
      exact ⟨j, k, st, h1, h2⟩

/-- With observers that never raise (in particular with none installed) no call raises. -/
theorem step_no_raise (cls : Classifier) (obs : Nat → Obs) (sys : Sys) (op : Op)
    (hobs : ∀ j st, obs j st = none) (e : Exc) : (step cls obs sys op).2 ≠ .raised e := by
  intro h
  obtain ⟨j, k, st, -, hk⟩ := step_raise_only_observer cls obs sys op e h
  rw [hobs j st] at hk; cases hk

/-! ### histories -/

/-- total cost of the `consume` calls of a history that reported success -/
def spentOf : List Op → List Ret → Int
  | op :: ops, r :: rs => paid op r + spentOf ops rs
  | _, _ => 0

/-- number of `consume` calls of a history that reported success -/
def successes : List Op → List Ret → Nat
  | .consume _ _ _ _ _ :: ops, .bool true :: rs => successes ops rs + 1
  | _ :: ops, _ :: rs => successes ops rs
  | _, _ => 0

/-- interest charged to store `i` along a history (`adv`, `k`: the observers and the step counter of `run`) -/
def accrued (cls : Classifier) (adv : Nat → Nat → Obs) (i : Nat) : Nat → Sys → List Op → Int
  | _, _, [] => 0
  | k, sys, op :: ops => interestAt i sys op + accrued cls adv i (k + 1) (step cls (adv k) sys op).1 ops

theorem run_length (cls : Classifier) (adv : Nat → Nat → Obs) :
    ∀ (ops : List Op) (k : Nat) (sys : Sys), (run cls adv k sys ops).2.length = ops.length
  | [], _, _ => rfl
  | op :: ops, k, sys => by simp [run, run_length cls adv ops]

theorem run_wf (cls : Classifier) (adv : Nat → Nat → Obs) :
    ∀ (ops : List Op) (k : Nat) (sys : Sys), Sys.WF sys → Sys.WF (run cls adv k sys ops).1
  | [], _, _, h => h
  | op :: ops, k, sys, h => run_wf cls adv ops (k + 1) _ (step_wf cls (adv k) sys op h)

theorem run_pot {g : Store → Int} (hg : Pot g) (cls : Classifier) (adv : Nat → Nat → Obs) :
    ∀ (ops : List Op) (k : Nat) (sys : Sys), Sys.WF sys → (∀ op ∈ ops, op.inflow = false) →
      sumOf g (run cls adv k sys ops).1 + spentOf ops (run cls adv k sys ops).2 ≤ sumOf g sys
  | [], _, _, _, _ => by simp [run, spentOf]
  | op :: ops, k, sys, wf, h => by
    have h1 := step_pot hg cls (adv k) sys op (fun _ _ => wf) (h op (by simp))
    have h2 := run_pot hg cls adv ops (k + 1) _ (step_wf cls (adv k) sys op wf) (fun o ho => h o (by simp [ho]))
    simp only [run, spentOf]; omega

theorem room_nonneg (s : Store) (h : s.WF) : 0 ≤ s.room := by
  have := h.atp; have := h.gtp; have := h.nadh
  simp only [Store.room, Store.total]; omega

theorem sumOf_nonneg (g : Store → Int) (hg : ∀ s, s.WF → 0 ≤ g s) : ∀ sys : Sys, Sys.WF sys → 0 ≤ sumOf g sys
  | [], _ => by simp [sumOf]
  | a :: l, h => by
    have h0 := hg a (h 0 a rfl)
    have h1 := sumOf_nonneg g hg l (fun i s hs => h (i + 1) s (by simpa using hs))
    simp [sumOf] at *; omega

theorem run_debt (cls : Classifier) (adv : Nat → Nat → Obs) (i : Nat) :
    ∀ (ops : List Op) (k : Nat) (sys : Sys) (s : Store) (K : Int), Sys.WF sys → sys[i]? = some s → 0 ≤ K →
      s.debt ≤ s.maxDebt + K →
      ∃ s', (run cls adv k sys ops).1[i]? = some s' ∧ s'.maxDebt = s.maxDebt ∧
        s'.debt ≤ s.maxDebt + K + accrued cls adv i k sys ops ∧ 0 ≤ accrued cls adv i k sys ops
  | [], _, sys, s, K, _, h, _, hd => ⟨s, h, rfl, by simp [accrued]; omega, by simp [accrued]⟩
  | op :: ops, k, sys, s, K, wf, h, hK, hd => by
    have hint := interestAt_nonneg i sys op wf
    have wf' := step_wf cls (adv k) sys op wf
    -- one step
    have h1 : ∃ s1, (step cls (adv k) sys op).1[i]? = some s1 ∧ s1.maxDebt = s.maxDebt ∧
        s1.debt ≤ s.maxDebt + (K + interestAt i sys op) := by
      by_cases hop : ∀ j, op ≠ .interest j
      · obtain ⟨s1, e1, q⟩ := step_quiet cls (adv k) sys op hop i s h
        refine ⟨s1, e1, q.cfg.2.2.2.1, ?_⟩
        have := q.debt (wf i s h) K hK hd; omega
      · obtain ⟨j, hj⟩ := Classical.not_forall.mp hop
        have hj : op = .interest j := Classical.not_not.mp hj
        subst hj
        obtain ⟨s1, e1, c, -, d⟩ := step_interest cls (adv k) sys j i s h
        exact ⟨s1, e1, c.2.2.2.1, by omega⟩
    obtain ⟨s1, e1, m1, d1⟩ := h1
    obtain ⟨s', e', m', d', a'⟩ := run_debt cls adv i ops (k + 1) _ s1 (K + interestAt i sys op) wf' e1 (by omega)
      (by rw [m1]; exact d1)
    refine ⟨s', e', m'.trans m1, ?_, ?_⟩
    · simp only [accrued]; rw [m1] at d'; omega
    · simp only [accrued]; omega

theorem successes_le_spent : ∀ (ops : List Op) (rs : List Ret),
    (∀ op ∈ ops, ∀ i cost cur d p, op = .consume i cost cur d p → 1 ≤ cost) →
    (successes ops rs : Int) ≤ spentOf ops rs
  | [], _, _ => by simp [successes, spentOf]
  | _ :: _, [], _ => by simp [successes, spentOf]
  | op :: ops, r :: rs, h => by
    have ih := successes_le_spent ops rs (fun o ho => h o (by simp [ho]))
    cases op with
    | consume i cost cur d p =>
      have hc := h (.consume i cost cur d p) (by simp) i cost cur d p rfl
      cases r with
      | bool b => cases b <;> simp [successes, spentOf, paid] at * <;> omega
      | _ => simp [successes, spentOf, paid] at * <;> omega
    | _ => cases r <;> simp [successes, spentOf, paid] at * <;> omega


theorem accrued_eq_zero (cls : Classifier) (adv : Nat → Nat → Obs) (i : Nat) :
    ∀ (ops : List Op) (k : Nat) (sys : Sys), (∀ op ∈ ops, ∀ j, op ≠ .interest j) → accrued cls adv i k sys ops = 0
  | [], _, _, _ => rfl
  | op :: ops, k, sys, h => by
    have h0 : interestAt i sys op = 0 := by
      cases op with
      | interest j => exact absurd rfl (h _ (by simp) j)
      | _ => rfl
    simp only [accrued, h0, accrued_eq_zero cls adv i ops (k + 1) _ (fun o ho => h o (by simp [ho]))]; rfl

/-- number of `consume` calls in a history -/
def consumeCalls : List Op → Nat
  | .consume _ _ _ _ _ :: ops => consumeCalls ops + 1
  | _ :: ops => consumeCalls ops
  | [] => 0

/-- every `consume` call of the history reported success (executable form) -/
def allConsumesSucceed : List Op → List Ret → Bool
  | .consume _ _ _ _ _ :: ops, r :: rs => r == .bool true && allConsumesSucceed ops rs
  | _ :: ops, _ :: rs => allConsumesSucceed ops rs
  | [], _ => true
  | _ :: _, [] => false

/-- every `consume` call of the history reported success -/
def AllConsumesSucceed (ops : List Op) (rs : List Ret) : Prop := allConsumesSucceed ops rs = true

instance (ops : List Op) (rs : List Ret) : Decidable (AllConsumesSucceed ops rs) :=
  inferInstanceAs (Decidable (_ = true))

theorem successes_eq_calls : ∀ (ops : List Op) (rs : List Ret), AllConsumesSucceed ops rs →
    successes ops rs = consumeCalls ops
  | [], _, _ => by simp [successes, consumeCalls]
  | _ :: _, [], h => by simp [AllConsumesSucceed, allConsumesSucceed] at h
  | op :: ops, r :: rs, h => by
    cases op with
    | consume i cost cur d p =>
      simp only [AllConsumesSucceed, allConsumesSucceed, Bool.and_eq_true, beq_iff_eq] at h
      obtain ⟨hr, h⟩ := h
      subst hr
      simp [successes, consumeCalls, successes_eq_calls ops rs h]
    | _ =>
      simp only [AllConsumesSucceed, allConsumesSucceed] at h
      cases r <;> simp [successes, consumeCalls, successes_eq_calls ops rs h]

theorem fresh_wf (b g n md rn rd : Nat) : (Store.fresh b g n md rn rd).WF := by
  constructor <;> simp [Store.fresh]

theorem room_fresh (b g n md rn rd : Nat) : (Store.fresh b g n md rn rd).room = b + g + n + md := by
  simp only [Store.room, Store.total, Store.fresh]; omega

theorem paid_nonneg (op : Op) (r : Ret) : 0 ≤ paid op r := by
  unfold paid; split <;> omega

theorem spentOf_nonneg : ∀ (ops : List Op) (rs : List Ret), 0 ≤ spentOf ops rs
  | [], _ => by simp [spentOf]
  | _ :: _, [] => by simp [spentOf]
  | op :: ops, r :: rs => by
    have := paid_nonneg op r; have := spentOf_nonneg ops rs
    simp only [spentOf]; omega

/-- The loop `while store[i].consume(cost, cur, allow_debt, prio): <body>` where `<body>` is any fixed list of
    calls on the colony, run for at most `fuel` iterations starting at step number `k` of the adversary `adv`.
    Returns how many iterations completed and whether the loop was left because the spend did not report success
    (refused — or interrupted by a raising observer; `false` = the fuel ran out first). -/
def payLoop (cls : Classifier) (adv : Nat → Nat → Obs) (i cost : Nat) (cur : Cur) (d : Bool) (p : Nat)
    (body : List Op) : Nat → Nat → Sys → Nat × Bool
  | 0, _, _ => (0, false)
  | fuel + 1, k, sys =>
    let r := step cls (adv k) sys (.consume i cost cur d p)
    if r.2 = .bool true then
      let rest := payLoop cls adv i cost cur d p body fuel (k + 1 + body.length) (run cls adv (k + 1) r.1 body).1
      (rest.1 + 1, rest.2)
    else (0, true)

theorem payLoop_spec (cls : Classifier) (adv : Nat → Nat → Obs) (i cost : Nat) (cur : Cur) (d : Bool) (p : Nat)
    (body : List Op) (hc : 1 ≤ cost) (hb : ∀ op ∈ body, op.inflow = false) :
    ∀ (fuel k : Nat) (sys : Sys), Sys.WF sys →
      ((payLoop cls adv i cost cur d p body fuel k sys).1 : Int) ≤ sumOf Store.room sys ∧
      (sumOf Store.room sys < fuel → (payLoop cls adv i cost cur d p body fuel k sys).2 = true)
  | 0, k, sys, wf => by
    have := sumOf_nonneg Store.room room_nonneg sys wf
    simp only [payLoop]; omega
  | fuel + 1, k, sys, wf => by
    have h0 := sumOf_nonneg Store.room room_nonneg sys wf
    simp only [payLoop]
    split
    · rename_i hr
      have h1 := step_pot pot_room cls (adv k) sys (.consume i cost cur d p) (fun _ _ => wf) rfl
      rw [hr] at h1; simp only [paid] at h1
      have wf1 := step_wf cls (adv k) sys (.consume i cost cur d p) wf
      have h2 := run_pot pot_room cls adv body (k + 1) _ wf1 hb
      have h3 := spentOf_nonneg body (run cls adv (k + 1) (step cls (adv k) sys (.consume i cost cur d p)).1 body).2
      have ih := payLoop_spec cls adv i cost cur d p body hc hb fuel (k + 1 + body.length) _
        (run_wf cls adv body (k + 1) _ wf1)
      constructor
      · have := ih.1; simp only []; omega
      · intro hf; exact ih.2 (by omega)
    · exact ⟨by simpa using h0, fun _ => rfl⟩

/-- a refused transfer changes nothing -/
theorem step_transfer_refused (cls : Classifier) (obs : Nat → Obs) (sys : Sys) (i j n : Nat) (cur : Cur)
    (h : (step cls obs sys (.transfer i j n cur)).2 = .bool false) : (step cls obs sys (.transfer i j n cur)).1 = sys := by
  simp only [step] at h ⊢
  cases hi : sys[i]? with
  | none => simp
  | some a =>
    cases hj : sys[j]? with
    | none => simp
    | some b0 =>
      simp only [hi, hj] at h ⊢
      cases hok : (withdraw a n cur).2 with
      | false =>
        have e := (withdraw_spec a n cur).fail hok
        simp only [Bool.false_eq_true, reduceIte, e]
        have hlt := lt_of_get hi
        have : sys[i] = a := by
          have := List.getElem?_eq_some_iff.mp hi; obtain ⟨_, h2⟩ := this; exact h2
        rw [← this]; exact List.set_getElem_self hlt
      | true =>
        simp only [hok, reduceIte] at h
        rw [onStore_ret] at h
        cases hb : (sys.set i (withdraw a n cur).1)[j]? with
        | none => rw [hb] at h; simp at h
        | some b =>
          rw [hb] at h
          rcases (regenerateO_spec cls (obs j) b n cur).2 with h2 | ⟨k, st, h2, -⟩
          · simp [depositO, h2] at h
          · simp [depositO, h2] at h

/-! ### GTP and NADH never exceed their capacities -/

/-- GTP and NADH are within their capacities (ATP need not be: a refused spend keeps its NADH top-up). -/
structure Store.Within (s : Store) : Prop where
  wf : s.WF
  gtp : s.gtp ≤ s.maxGtp
  nadh : s.nadh ≤ s.maxNadh

theorem consumeCore_gn (s : Store) (cost : Nat) (cur : Cur) (d : Bool) (p : Nat) (h : s.WF) :
    (consumeCore s cost cur d p).1.gtp ≤ s.gtp ∧ (consumeCore s cost cur d p).1.nadh ≤ s.nadh := by
  obtain ⟨h1, h2, h3, h4, h5, h6, h7⟩ := h
  consume_cases <;> leaf <;> omega

theorem withdraw_le (s : Store) (n : Nat) (cur : Cur) :
    (withdraw s n cur).1.gtp ≤ s.gtp ∧ (withdraw s n cur).1.nadh ≤ s.nadh := by
  unfold withdraw; cases cur <;> (repeat' split) <;> leaf2 <;> omega

theorem convert_le (s : Store) (n : Nat) : (convert s n).1.gtp ≤ s.gtp ∧ (convert s n).1.nadh ≤ s.nadh := by
  unfold convert; dsimp only; (repeat' split) <;> leaf2 <;> omega

theorem within_consume (cls : Classifier) (obs : Obs) (s : Store) (cost : Nat) (cur : Cur) (d : Bool) (p : Nat)
    (h : s.Within) : (consumeO cls obs s cost cur d p).1.Within := by
  obtain ⟨st, e, -, -⟩ := consumeO_eq cls obs s cost cur d p
  have hs := consumeCore_spec s cost cur d p
  have hg := consumeCore_gn s cost cur d p h.wf
  have w := hs.wf h.wf
  obtain ⟨c1, c2, c3, -⟩ := hs.cfg
  rw [e]
  exact ⟨⟨w.1, w.2, w.3, w.4, w.5, w.6, w.7⟩, by have := h.gtp; simp only []; omega, by have := h.nadh; simp only []; omega⟩

theorem within_regenerate (cls : Classifier) (obs : Obs) (s : Store) (n : Nat) (cur : Cur) (h : s.Within) :
    (regenerateO cls obs s n cur).1.Within := by
  have hs := (regenerateO_spec cls obs s n cur).1
  obtain ⟨c1, c2, c3, -⟩ := hs.cfg
  have g := hs.capped .gtp; have m := hs.capped .nadh
  simp only [Store.bal, Store.cap] at g m
  exact ⟨hs.wf h.wf, by have := h.gtp; omega, by have := h.nadh; omega⟩

theorem within_withdraw (s : Store) (n : Nat) (cur : Cur) (h : s.Within) : (withdraw s n cur).1.Within := by
  have hs := withdraw_spec s n cur
  obtain ⟨c1, c2, c3, -⟩ := hs.cfg
  have := withdraw_le s n cur
  exact ⟨hs.wf h.wf, by have := h.gtp; omega, by have := h.nadh; omega⟩

theorem within_convert (s : Store) (n : Nat) (h : s.Within) : (convert s n).1.Within := by
  have hs := convert_spec s n
  obtain ⟨c1, c2, c3, -⟩ := hs.cfg
  have := convert_le s n
  exact ⟨hs.wf h.wf, by have := h.gtp; omega, by have := h.nadh; omega⟩

theorem Store.Within.setState {s : Store} (h : s.Within) (st : MState) : Store.Within { s with state := st } :=
  ⟨⟨h.wf.1, h.wf.2, h.wf.3, h.wf.4, h.wf.5, h.wf.6, h.wf.7⟩, h.gtp, h.nadh⟩

theorem within_reset (cls : Classifier) (obs : Obs) (s : Store) (h : s.Within) : (resetO cls obs s).1.Within := by
  obtain ⟨st, e, -⟩ := resetO_eq cls obs s
  rw [e]
  have w := (quiet_resetCore s).wf h.wf
  exact Store.Within.setState ⟨w, Int.le_refl _, Int.le_refl _⟩ st

theorem within_wake (cls : Classifier) (obs : Obs) (s : Store) (h : s.Within) : (exitDormancyO cls obs s).1.Within := by
  obtain ⟨st, e, -⟩ := exitDormancyO_eq cls obs s
  rw [e]; exact h.setState st

theorem within_interest (s : Store) (h : s.Within) : (applyInterest s).Within :=
  ⟨(applyInterest_spec s).wf h.wf, h.gtp, h.nadh⟩

/-- `Within` holds for every store of the colony -/
def Sys.Within (sys : Sys) : Prop := ∀ (i : Nat) (s : Store), sys[i]? = some s → s.Within

theorem onStore_all {P : Store → Prop} (sys : Sys) (j : Nat) (f : Store → Store × Ret)
    (h : ∀ (i : Nat) (s : Store), sys[i]? = some s → P s) (hf : ∀ s, P s → P (f s).1) :
    ∀ (i : Nat) (s : Store), (onStore sys j f).1[i]? = some s → P s := by
  intro i s hs
  rw [onStore_get] at hs
  by_cases e : j = i
  · simp only [e, reduceIte] at hs
    cases hi : sys[i]? with
    | none => rw [hi] at hs; simp at hs
    | some t => rw [hi] at hs; simp at hs; subst hs; exact hf t (h i t hi)
  · simp only [e, reduceIte] at hs; exact h i s hs

theorem set_all {P : Store → Prop} (sys : Sys) (j : Nat) (x : Store)
    (h : ∀ (i : Nat) (s : Store), sys[i]? = some s → P s) (hx : P x) :
    ∀ (i : Nat) (s : Store), (sys.set j x)[i]? = some s → P s := by
  intro i s hs
  rw [List.getElem?_set] at hs
  by_cases e : j = i
  · simp only [e, reduceIte] at hs
    split at hs
    · cases hs; exact hx
    · cases hs
  · simp only [e, reduceIte] at hs; exact h i s hs

theorem step_within (cls : Classifier) (obs : Nat → Obs) (sys : Sys) (op : Op) (h : Sys.Within sys) : Sys.Within (step cls obs sys op).1 := by
  cases op with
  | consume j cost cur d p => exact onStore_all sys j _ h (fun s hs => within_consume cls (obs j) s cost cur d p hs)
  | regenerate j n cur => exact onStore_all sys j _ h (fun s hs => within_regenerate cls (obs j) s n cur hs)
  | convert j n => exact onStore_all sys j _ h (fun s hs => within_convert s n hs)
  | dorm j => exact onStore_all sys j _ h (fun s hs => hs.setState _)
  | wake j => exact onStore_all sys j _ h (fun s hs => within_wake cls (obs j) s hs)
  | interest j => exact onStore_all sys j _ h (fun s hs => within_interest s hs)
  | reset j => exact onStore_all sys j _ h (fun s hs => within_reset cls (obs j) s hs)
  | transfer a b n cur =>
    simp only [step]
    cases ha : sys[a]? with
    | none => exact h
    | some sa =>
      cases hb : sys[b]? with
      | none => exact h
      | some sb =>
        simp only []
        have h1 := set_all sys a _ h (within_withdraw sa n cur (h a sa ha))
        split
        · exact onStore_all _ b _ h1 (fun s hs => within_regenerate cls (obs b) s n cur hs)
        · exact h1

theorem run_within (cls : Classifier) (adv : Nat → Nat → Obs) :
    ∀ (ops : List Op) (k : Nat) (sys : Sys), Sys.Within sys → Sys.Within (run cls adv k sys ops).1
  | [], _, _, h => h
  | op :: ops, k, sys, h => run_within cls adv ops (k + 1) _ (step_within cls (adv k) sys op h)

theorem fresh_within (b g n md rn rd : Nat) : (Store.fresh b g n md rn rd).Within :=
  ⟨fresh_wf b g n md rn rd, by simp [Store.fresh], by simp [Store.fresh]⟩

/-! ### the caller's view of `consume` in terms of `consumeCore` (used by the translation-agreement theorems) -/

/-- the end of `consume` after `consumeCore`: `_update_state(); return True` on success, `return False` otherwise -/
def consumeFin (cls : Classifier) (obs : Obs) (r : Store × Branch) : Store × Except Exc Bool :=
  if r.2.success then thenReturn (updateStateO cls obs r.1) true else (r.1, .ok false)

theorem consumeO_proj (cls : Classifier) (obs : Obs) (s : Store) (cost : Nat) (cur : Cur) (d : Bool) (p : Nat) :
    ((consumeO cls obs s cost cur d p).1, (consumeO cls obs s cost cur d p).2.1) =
      consumeFin cls obs (consumeCore s cost cur d p) := by
  unfold consumeO consumeFin thenReturn
  cases h : (consumeCore s cost cur d p).2.success <;> simp [h]

end Operon.Atp
