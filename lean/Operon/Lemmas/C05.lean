import Operon.Lemmas.Lock
import Operon.Lemmas.C04
import Operon.Model.AtpConc
/-! Helper lemmas for C05: from region steps to action steps; per-action facts transported from C04. -/
namespace Operon.AtpConc
open Operon.Lock Operon.Atp

/-- a cut of every operation into lines that composes to the operation's body -/
def Cut.Faithful (cls : Classifier) (obs : Nat → Obs) (cut : Cut) : Prop := ∀ a, composeLines (cut a) = body cls obs a

theorem rstep_actstep (cls : Classifier) (obs : Nat → Obs) (cut : Cut) (hc : cut.Faithful cls obs) (ac : ACfg) (rc' : RCfg Loc Store)
    (h : RStep (ac.toRCfg cut) rc') : ∃ ac', rc' = ac'.toRCfg cut ∧ ActStep cls obs ac ac' := by
  obtain ⟨st, ts⟩ := ac
  generalize hcfg : (ACfg.toRCfg cut ⟨st, ts⟩) = rc at h
  cases h with
  | @run st' pre post r rs l =>
    simp only [ACfg.toRCfg, RCfg.mk.injEq] at hcfg
    obtain ⟨rfl, hts⟩ := hcfg
    rw [List.map_eq_append_iff] at hts
    obtain ⟨pre', b, rfl, hpre, hb⟩ := hts
    rw [List.map_eq_cons_iff] at hb
    obtain ⟨mid, post', rfl, hmid, hpost⟩ := hb
    obtain ⟨todo, loc⟩ := mid
    simp only [AThread.toR, RThread.mk.injEq] at hmid
    obtain ⟨htodo, rfl⟩ := hmid
    rw [List.map_eq_cons_iff] at htodo
    obtain ⟨a, as, rfl, hr, has⟩ := htodo
    subst hr
    refine ⟨⟨upd1 st a.lock (body cls obs a loc (st a.lock)).2,
      pre' ++ ⟨as, (body cls obs a loc (st a.lock)).1⟩ :: post'⟩, ?_, ActStep.run⟩
    have he : (⟨a.lock, cut a⟩ : Region Loc Store).eff = body cls obs a := hc a
    simp only [ACfg.toRCfg, List.map_append, List.map_cons, hpre, hpost, AThread.toR, has, regionBy, he]

theorem rstar_actstar (cls : Classifier) (obs : Nat → Obs) (cut : Cut) (hc : cut.Faithful cls obs) (ac0 : ACfg) (rc : RCfg Loc Store)
    (h : Star RStep (ac0.toRCfg cut) rc) : ∃ ac, rc = ac.toRCfg cut ∧ Star (ActStep cls obs) ac0 ac := by
  induction h with
  | refl => exact ⟨ac0, rfl, Star.refl _⟩
  | tail _ hstep ih =>
    obtain ⟨ac, rfl, hs⟩ := ih
    obtain ⟨ac', rfl, hr⟩ := rstep_actstep cls obs cut hc ac _ hstep
    exact ⟨ac', rfl, Star.tail hs hr⟩

theorem actstar_induct {cls : Classifier} {obs : Nat → Obs} {P : ACfg → Prop} {a b : ACfg} (h0 : P a)
    (hstep : ∀ x y, P x → ActStep cls obs x y → P y) (hs : Star (ActStep cls obs) a b) : P b := by
  induction hs with
  | refl => exact h0
  | tail _ hr ih => exact hstep _ _ ih hr

/-! ### per-action facts (from the C04 specifications of the region bodies) -/

theorem body_quiet (cls : Classifier) (obs : Nat → Obs) (a : Act) (l : Loc) (s : Store) : Quiet s (body cls obs a l s).2 := by
  cases a with
  | consume i cost cur d p => exact quiet_consumeO cls (obs i) s cost cur d p
  | regenerate i n cur => exact quiet_regenerateO cls (obs i) s n cur
  | convert i n => exact quiet_convert s n
  | withdraw i n cur => exact quiet_withdraw s n cur
  | deposit j n cur =>
    simp only [body]
    split
    · exact quiet_regenerateO cls (obs j) s n cur
    · exact Quiet.refl s

/-- what a store can still pay out plus what it has already charged -/
def pot (s : Store) : Int := s.room + s.consumed

theorem room_of_convert (s s' : Store) (h : ConvertSpec s s') : s'.room = s.room := by
  have hc := h.cfg
  unfold Store.SameCfg at hc
  unfold Store.room
  rw [h.total, h.debt, hc.2.2.2.1]

theorem body_pot (cls : Classifier) (obs : Nat → Obs) (a : Act) (l : Loc) (s : Store) (j : Nat) (hj : a.lock = j) :
    pot (body cls obs a l s).2 ≤ pot s + a.inflow j := by
  cases a with
  | consume i cost cur d p =>
    have h := (consumeO_spec cls (obs i) s cost cur d p).1
    have hr := h.room
    have hcn := h.consumed
    simp only [] at hr hcn
    simp only [body, pot, Act.inflow]
    omega
  | regenerate i n cur =>
    have hij : i = j := hj
    subst hij
    have h := (regenerateO_spec cls (obs i) s n cur).1
    simp only [body, pot, Act.inflow, if_true, h.consumed]
    have := h.room; omega
  | convert i n =>
    have h := convert_spec s n
    simp only [body, pot, Act.inflow, h.consumed, room_of_convert s _ h]
    omega
  | withdraw i n cur =>
    have h := withdraw_spec s n cur
    simp only [body, pot, Act.inflow, h.consumed]
    cases hw : (withdraw s n cur).2 with
    | true => have := (h.ok hw).2.2; omega
    | false => rw [h.fail hw]; omega
  | deposit i n cur =>
    have hij : i = j := hj
    subst hij
    simp only [body, Act.inflow, if_true]
    split
    · have h := (regenerateO_spec cls (obs i) s n cur).1
      simp only [pot, depositO, h.consumed]
      have := h.room; omega
    · simp only [pot]; omega

theorem pendingInflow_split (j : Nat) (pre post : List AThread) (t : AThread) :
    pendingInflow j (pre ++ t :: post) =
      pendingInflow j pre + (t.todo.map (Act.inflow j)).sum + pendingInflow j post := by
  simp [pendingInflow, List.sum_append, Int.add_assoc]

theorem inflow_nonneg (j : Nat) (a : Act) : 0 ≤ a.inflow j := by
  cases a <;> simp only [Act.inflow] <;> (try split) <;> omega

theorem int_sum_nonneg : ∀ (l : List Int), (∀ x ∈ l, 0 ≤ x) → 0 ≤ l.sum
  | [], _ => by simp
  | x :: xs, h => by
    have h1 := h x (by simp)
    have h2 := int_sum_nonneg xs (fun y hy => h y (by simp [hy]))
    simp only [List.sum_cons]; omega

theorem pendingInflow_nonneg (j : Nat) (ts : List AThread) : 0 ≤ pendingInflow j ts := by
  unfold pendingInflow
  apply int_sum_nonneg
  intro x hx
  simp only [List.mem_map] at hx
  obtain ⟨t, _, rfl⟩ := hx
  apply int_sum_nonneg
  intro y hy
  simp only [List.mem_map] at hy
  obtain ⟨a, _, rfl⟩ := hy
  exact inflow_nonneg j a

end Operon.AtpConc

namespace Operon.AtpConc
open Operon.Lock Operon.Atp

/-! ### explicit traces: which thread ran which action, in which order -/

/-- `ActRun cls obs c tr c'`: from `c`, running the actions of `tr` atomically in that order (each entry names the
    thread whose next action it is) reaches `c'`. -/
inductive ActRun (cls : Classifier) (obs : Nat → Obs) : ACfg → List (Nat × Act) → ACfg → Prop
  | nil (c) : ActRun cls obs c [] c
  | snoc {c st pre post a as l tr} :
      ActRun cls obs c tr ⟨st, pre ++ ⟨a :: as, l⟩ :: post⟩ →
      ActRun cls obs c (tr ++ [(pre.length, a)])
        ⟨upd1 st a.lock (body cls obs a l (st a.lock)).2, pre ++ ⟨as, (body cls obs a l (st a.lock)).1⟩ :: post⟩

theorem actstar_run (cls : Classifier) (obs : Nat → Obs) (c c' : ACfg) (h : Star (ActStep cls obs) c c') : ∃ tr, ActRun cls obs c tr c' := by
  induction h with
  | refl => exact ⟨[], ActRun.nil c⟩
  | tail _ hstep ih =>
    obtain ⟨tr, htr⟩ := ih
    cases hstep with
    | @run st pre post a as l => exact ⟨tr ++ [(pre.length, a)], ActRun.snoc htr⟩

/-- the actions thread `t` ran, in order -/
def proj (t : Nat) (tr : List (Nat × Act)) : List Act := (tr.filter (fun e => e.1 == t)).map (·.2)

theorem proj_append (t : Nat) (a b : List (Nat × Act)) : proj t (a ++ b) = proj t a ++ proj t b := by
  simp [proj, List.filter_append]

def todoAt (c : ACfg) (t : Nat) : List Act := match c.threads[t]? with | some x => x.todo | none => []
def locAt (c : ACfg) (t : Nat) : Loc := match c.threads[t]? with | some x => x.loc | none => {}

theorem getElem?_mid {α : Type} (pre post : List α) (x : α) (t : Nat) :
    (pre ++ x :: post)[t]? = if t = pre.length then some x else
      (if t < pre.length then pre[t]? else post[t - pre.length - 1]?) := by
  by_cases h1 : t < pre.length
  · have : t ≠ pre.length := by omega
    simp [this, h1, List.getElem?_append_left h1]
  · by_cases h2 : t = pre.length
    · subst h2; simp
    · have h3 : pre.length ≤ t := by omega
      rw [List.getElem?_append_right h3]
      have : t - pre.length = (t - pre.length - 1) + 1 := by omega
      rw [this, List.getElem?_cons_succ]
      simp [h2, h1]

/-- **Every run is an interleaving that loses nothing.**  For every thread, the actions it ran (in order) followed by
    the actions it still has to run are exactly the actions it started with; the number of threads never changes. -/
theorem actrun_proj (cls : Classifier) (obs : Nat → Obs) (c c' : ACfg) (tr : List (Nat × Act)) (h : ActRun cls obs c tr c') :
    c'.threads.length = c.threads.length ∧ ∀ t, proj t tr ++ todoAt c' t = todoAt c t := by
  induction h with
  | nil => exact ⟨rfl, fun t => by simp [proj]⟩
  | @snoc st pre post a as l tr _ ih =>
    obtain ⟨hlen, hproj⟩ := ih
    refine ⟨by simpa using hlen, ?_⟩
    intro t
    have h0 := hproj t
    rw [proj_append]
    by_cases ht : t = pre.length
    · subst ht
      simp only [todoAt, getElem?_mid, if_true] at h0 ⊢
      simp only [proj, List.filter_cons, beq_self_eq_true, if_true, List.filter_nil, List.map_cons, List.map_nil]
      rw [← h0]; simp [proj]
    · have hne : ((pre.length, a).1 == t) = false := by simp; exact fun h => ht h.symm
      simp only [todoAt, getElem?_mid, ht, if_false] at h0 ⊢
      simp only [proj, List.filter_cons, hne, List.filter_nil, List.map_nil, List.append_nil] at *
      simpa [proj] using h0

/-- the shared stores and every thread's local state after a run are those of the sequential reference `runTrace` -/
theorem actrun_runTrace (cls : Classifier) (obs : Nat → Obs) (c c' : ACfg) (tr : List (Nat × Act)) (h : ActRun cls obs c tr c') :
    let w := runTrace cls obs ⟨c.st, locAt c⟩ tr
    c'.st = w.st ∧ ∀ t, t < c'.threads.length → locAt c' t = w.locs t := by
  induction h with
  | nil => exact ⟨rfl, fun t _ => rfl⟩
  | @snoc st pre post a as l tr hrun ih =>
    obtain ⟨hst, hloc⟩ := ih
    have hrt : ∀ (w : World) (xs : List (Nat × Act)) (e : Nat × Act),
        runTrace cls obs w (xs ++ [e]) = applyAct cls obs (runTrace cls obs w xs) e.1 e.2 := by
      intro w xs
      induction xs generalizing w with
      | nil => intro e; rfl
      | cons x xs ihx => intro e; obtain ⟨t0, a0⟩ := x; simp only [List.cons_append, runTrace]; exact ihx _ e
    simp only [hrt]
    simp only at hst hloc
    have hl : locAt ⟨st, pre ++ ⟨a :: as, l⟩ :: post⟩ pre.length = l := by
      simp [locAt]
    have hmid := hloc pre.length (by simp)
    rw [hl] at hmid
    constructor
    · simp only [applyAct, ← hst, ← hmid]
    · intro t ht
      simp only [applyAct, ← hst, ← hmid]
      by_cases htt : t = pre.length
      · subst htt; simp [locAt]
      · have := hloc t (by simpa using ht)
        simp only [htt, if_false]
        rw [← this]
        simp only [locAt, getElem?_mid, htt, if_false]

end Operon.AtpConc
