import Operon.Model.LysosomePy
import Operon.Lemmas.C13
/-!
  Support for the agreement theorems between the translated source (`Operon/Gen/LysosomeTranslated.lean`) and the
  hand-written lysosome model.  Nothing here mentions generated code: this file builds whatever the source looks like.

  * canonical loop bodies (`emIter`, `digIter`, `logIter`) with their closed forms (the filters / flat-maps the
    hand-written model uses) — a generated loop is matched against a canonical body pointwise (`foldl_em`, …);
  * the methods as functions on the concrete state `PyS` (`pyEmergency`, `pyDigestCore`, `pyIngest`, `pyAutophagy`) and
    their agreement with the model on `conc s` (`*_conc`);
  * Python slice / truthiness / raising-filter lemmas.
-/
namespace Operon.Lysosome

/-! ### the environment's digester call -/

theorem pyCall_fst (cfg : Cfg) (it : Item) :
    (pyCallDigester cfg it).1 =
      match (digestOne cfg it).1 with
      | .ret ks => some (.dict (ks.map fun k => (k, it)))
      | .raise => none
      | .bad ks => some (.unmergeable (ks.map fun k => (k, it))) := rfl

/-- the three things a digester can do -/
theorem out_cases (cfg : Cfg) (it : Item) : (∃ ks, (digestOne cfg it).1 = .ret ks) ∨ (digestOne cfg it).1 = .raise ∨
    ∃ ks, (digestOne cfg it).1 = .bad ks := by
  cases (digestOne cfg it).1 <;> simp

theorem pyCall_snd (cfg : Cfg) (it : Item) :
    (pyCallDigester cfg it).2 = if callsToxic cfg it then [it] else [] := rfl

/-! ### canonical loop bodies and their closed forms -/

/-- one iteration of the emergency digest's loop -/
def emIter (cfg : Cfg) (s : PyS) (it : Item) : PyS :=
  if succeedsEm cfg it then
    { s with toxicLog := s.toxicLog ++ (if callsToxic cfg it then [it] else []), digested := s.digested + 1 }
  else
    { s with toxicLog := s.toxicLog ++ (if callsToxic cfg it then [it] else []), emLogged := s.emLogged + 1 }

def emClosed (cfg : Cfg) (l : List Item) (s : PyS) : PyS :=
  { s with digested := s.digested + (l.filter (succeedsEm cfg)).length
           toxicLog := s.toxicLog ++ l.filter (callsToxic cfg)
           emLogged := s.emLogged + (l.filter fun it => !succeedsEm cfg it).length }

@[simp] theorem emClosed_queue (cfg : Cfg) (l : List Item) (s : PyS) : (emClosed cfg l s).queue = s.queue := rfl
@[simp] theorem emClosed_clock (cfg : Cfg) (l : List Item) (s : PyS) : (emClosed cfg l s).clock = s.clock := rfl
@[simp] theorem emClosed_ingested (cfg : Cfg) (l : List Item) (s : PyS) : (emClosed cfg l s).ingested = s.ingested := rfl
@[simp] theorem emClosed_recycled (cfg : Cfg) (l : List Item) (s : PyS) : (emClosed cfg l s).recycled = s.recycled := rfl
@[simp] theorem emClosed_bin (cfg : Cfg) (l : List Item) (s : PyS) : (emClosed cfg l s).bin = s.bin := rfl
@[simp] theorem emClosed_autoLogged (cfg : Cfg) (l : List Item) (s : PyS) :
    (emClosed cfg l s).autoLogged = s.autoLogged := rfl

theorem foldl_emIter (cfg : Cfg) : ∀ (l : List Item) (s : PyS), l.foldl (emIter cfg) s = emClosed cfg l s := by
  intro l
  induction l with
  | nil => intro s; simp [emClosed]
  | cons it l ih =>
    intro s
    rw [List.foldl_cons, ih]
    unfold emIter emClosed
    by_cases h1 : succeedsEm cfg it <;> by_cases h2 : callsToxic cfg it <;>
      simp [h1, h2, List.filter_cons, Nat.add_assoc, Nat.add_comm 1]

/-- a loop whose body is pointwise the canonical one -/
theorem foldl_em (cfg : Cfg) (f : PyS → Item → PyS) (hf : ∀ s it, f s it = emIter cfg s it) (l : List Item) (s : PyS) :
    l.foldl f s = emClosed cfg l s := by
  have : f = emIter cfg := by funext s it; exact hf s it
  rw [this, foldl_emIter]

abbrev DigAcc := PyS × List (Nat × Item) × List Unit × Nat

/-- one iteration of `digest`'s loop on (object, `recycled`, `errors`, `disposed`); an item that is not counted (its
    digester raised, or handed back something `recycled.update` cannot merge) is an error, and whatever the failed
    merge had already put into `recycled` stays there (`keysOf` is `[]` for a digester that raised) -/
def digIter (cfg : Cfg) (acc : DigAcc) (it : Item) : DigAcc :=
  if succeeds cfg it then
    ({ acc.1 with toxicLog := acc.1.toxicLog ++ (if callsToxic cfg it then [it] else [])
                  recycled := acc.1.recycled + (if (keysOf cfg it).isEmpty then 0 else 1)
                  digested := acc.1.digested + 1 },
     dictUpdate acc.2.1 ((keysOf cfg it).map fun k => (k, it)), acc.2.2.1, acc.2.2.2 + 1)
  else
    ({ acc.1 with toxicLog := acc.1.toxicLog ++ (if callsToxic cfg it then [it] else []) },
     dictUpdate acc.2.1 ((keysOf cfg it).map fun k => (k, it)), acc.2.2.1 ++ [()], acc.2.2.2)

def digClosed (cfg : Cfg) (l : List Item) (acc : DigAcc) : DigAcc :=
  let oks := l.filter (succeeds cfg)
  ({ acc.1 with toxicLog := acc.1.toxicLog ++ l.filter (callsToxic cfg)
                recycled := acc.1.recycled + (oks.filter fun it => !(keysOf cfg it).isEmpty).length
                digested := acc.1.digested + oks.length },
   dictUpdate acc.2.1 (l.flatMap fun it => (keysOf cfg it).map fun k => (k, it)),
   acc.2.2.1 ++ List.replicate (l.filter fun it => !succeeds cfg it).length (),
   acc.2.2.2 + oks.length)

theorem dictUpdate_append {α : Type} (d : List (Nat × α)) (a b : List (Nat × α)) :
    dictUpdate d (a ++ b) = dictUpdate (dictUpdate d a) b := by
  simp [dictUpdate, List.foldl_append]

theorem foldl_digIter (cfg : Cfg) : ∀ (l : List Item) (acc : DigAcc), l.foldl (digIter cfg) acc = digClosed cfg l acc := by
  intro l
  induction l with
  | nil => intro acc; simp [digClosed, dictUpdate]
  | cons it l ih =>
    intro acc
    obtain ⟨s, r, e, d⟩ := acc
    rw [List.foldl_cons, ih]
    unfold digIter digClosed
    by_cases h1 : succeeds cfg it <;> by_cases h2 : callsToxic cfg it <;> by_cases h3 : (keysOf cfg it).isEmpty <;>
      simp [h1, h2, h3, List.filter_cons, dictUpdate_append, Nat.add_assoc, Nat.add_comm 1, List.replicate_succ]
    all_goals (try simp [List.isEmpty_iff] at h3; try simp [h3, dictUpdate])

theorem foldl_dig (cfg : Cfg) (f : DigAcc → Item → DigAcc) (hf : ∀ acc it, f acc it = digIter cfg acc it) (l : List Item)
    (acc : DigAcc) : l.foldl f acc = digClosed cfg l acc := by
  have : f = digIter cfg := by funext a it; exact hf a it
  rw [this, foldl_digIter]

/-- `_auto_digest`'s loop over the error strings: one WARNING record each -/
theorem foldl_log {ε : Type} (f : PyS → ε → PyS) (hf : ∀ s e, f s e = { s with autoLogged := s.autoLogged + 1 }) :
    ∀ (l : List ε) (s : PyS), l.foldl f s = { s with autoLogged := s.autoLogged + l.length } := by
  intro l
  induction l with
  | nil => intro s; simp
  | cons e l ih => intro s; rw [List.foldl_cons, ih, hf]; simp [Nat.add_assoc, Nat.add_comm 1]

/-! ### the methods on the concrete state -/

def pyEmergency (cfg : Cfg) (p : PyS) : PyS :=
  if p.queue.length / 2 = 0 then p
  else { emClosed cfg (p.queue.take (p.queue.length / 2)) p with queue := p.queue.drop (p.queue.length / 2) }

theorem pyEmergency_conc (cfg : Cfg) (s : State) : pyEmergency cfg (conc s) = conc (emergency cfg s) := by
  unfold pyEmergency emergency
  by_cases h : s.queue.length / 2 = 0
  · simp [conc, h]
  · simp [conc, h, emClosed]

/-- `digest` on the first `n` queued items; `viaAuto`: the caller is `_auto_digest`, which logs the errors -/
def pyDigestCore (cfg : Cfg) (p : PyS) (n : Nat) (viaAuto : Bool) : PyS × PyDigestResult :=
  let r := digClosed cfg (p.queue.take n) ({ p with queue := p.queue.drop n }, [], [], 0)
  ({ r.1 with bin := dictUpdate r.1.bin r.2.1
              autoLogged := if viaAuto then r.1.autoLogged + r.2.2.1.length else r.1.autoLogged },
   ⟨r.2.2.1.isEmpty, r.2.1, r.2.2.2, r.2.2.1⟩)

theorem pyDigestCore_conc (cfg : Cfg) (s : State) (n : Nat) (via : Bool) :
    pyDigestCore cfg (conc s) n via =
      (conc (digestCore cfg s n via).1, PyDigestResult.ofModel (digestCore cfg s n via).2) := by
  unfold pyDigestCore digestCore digClosed PyDigestResult.ofModel
  cases via <;> simp [conc]

theorem pyDigestCore_auto (cfg : Cfg) (p : PyS) (n : Nat) :
    { (pyDigestCore cfg p n false).1 with
        autoLogged := (pyDigestCore cfg p n false).1.autoLogged + (pyDigestCore cfg p n false).2.errors.length } =
      (pyDigestCore cfg p n true).1 := by
  simp [pyDigestCore]

def pyEnqueue (cfg : Cfg) (p : PyS) (it : Item) : PyS :=
  let p1 := if p.queue.length ≥ cfg.maxQ then pyEmergency cfg p else p
  { p1 with queue := p1.queue ++ [it], ingested := p1.ingested + 1 }

theorem pyEnqueue_conc (cfg : Cfg) (s : State) (id : Nat) (ty : WType) (c : Nat) (st : Stamp) :
    pyEnqueue cfg (conc s) (mkItem s id ty c st) = conc (enqueue cfg s id ty c st) := by
  unfold pyEnqueue enqueue mkItem
  have hq : (conc s).queue = s.queue := rfl
  by_cases h : s.queue.length ≥ cfg.maxQ
  · simp only [hq, h, if_true, pyEmergency_conc]
    simp [conc, emergency_items, emergency_clock]
    cases st <;> rfl
  · simp only [hq, h, if_false]
    simp [conc]
    cases st <;> rfl

def pyIngest (cfg : Cfg) (p : PyS) (it : Item) : PyS :=
  if (pyEnqueue cfg p it).queue.length ≥ cfg.autoThr then
    (pyDigestCore cfg (pyEnqueue cfg p it) (sliceCount (pyEnqueue cfg p it).queue.length
      (some (((pyEnqueue cfg p it).queue.length / 2 : Nat) : Int))) true).1
  else pyEnqueue cfg p it

theorem pyIngest_conc (cfg : Cfg) (hre : cfg.reent = true) (s : State) (id : Nat) (ty : WType) (c : Nat) (st : Stamp) :
    pyIngest cfg (conc s) (mkItem s id ty c st) = conc (ingest cfg s id ty c st).1 := by
  unfold pyIngest ingest
  rw [pyEnqueue_conc]
  have hq2 : (conc (enqueue cfg s id ty c st)).queue = (enqueue cfg s id ty c st).queue := rfl
  simp only [hq2, hre, if_true]
  split
  · rw [pyDigestCore_conc]
  · rfl

def pyAutophagy (cfg : Cfg) (p : PyS) : PyS × Option Int :=
  if p.queue.any (·.tz) then (p, none)
  else ({ p with queue := p.queue.filter (keeps cfg p.clock) },
        some (((p.queue.filter fun it => !keeps cfg p.clock it).length : Nat) : Int))

theorem pyAutophagy_conc (cfg : Cfg) (s : State) :
    pyAutophagy cfg (conc s) = (conc (autophagy cfg s).1,
      match (autophagy cfg s).2 with
      | .removed n => some (n : Int)
      | _ => none) := by
  unfold pyAutophagy autophagy
  by_cases h : s.queue.any (·.tz) <;> simp [conc, h]

/-! ### Python slices, truthiness, the raising filter -/

/-- normal forms for the ways of writing "no errors" (`len(errors) == 0`, `not errors`, `errors == []`) -/
theorem decide_nil_unit (l : List Unit) : decide (l = []) = l.isEmpty := by cases l <;> rfl
theorem decide_len0_unit (l : List Unit) : decide (l.length = 0) = l.isEmpty := by cases l <;> rfl

/-- … and for a negated comparison (`not (a >= b)` for `a < b`) -/
theorem not_decide_le (a b : Int) : (!decide (a ≤ b)) = decide (b < a) := by
  by_cases h : a ≤ b
  · have : ¬ b < a := by omega
    simp [h, this]
  · have : b < a := by omega
    simp [h, this]
theorem not_decide_lt (a b : Int) : (!decide (a < b)) = decide (b ≤ a) := by
  by_cases h : a < b
  · have : ¬ b ≤ a := by omega
    simp [h, this]
  · have : b ≤ a := by omega
    simp [h, this]

theorem pySliceTo_truthy {α : Type} (q : List α) (k : Option Int) (h : pyTruthyOInt k = true) :
    pySliceTo q (k.getD 0) = q.take (sliceCount q.length k) := by
  cases k with
  | none => simp [pyTruthyOInt] at h
  | some k =>
    simp only [pyTruthyOInt, bne_iff_ne, ne_eq] at h
    simp only [Option.getD_some, pySliceTo, sliceCount, h, if_false]
    by_cases hk : 0 ≤ k
    · have : 0 < k := by omega
      simp only [hk, this, if_true]
      rw [List.take_eq_take_iff]
      omega
    · have : ¬ 0 < k := by omega
      simp [hk, this]

theorem sliceCount_falsy (len : Nat) (k : Option Int) (h : pyTruthyOInt k = false) : sliceCount len k = len := by
  cases k with
  | none => rfl
  | some k => simp [pyTruthyOInt] at h; simp [sliceCount, h]

theorem drop_length_take {α : Type} (q : List α) (n : Nat) : q.drop (q.take n).length = q.drop n := by
  rw [List.length_take]
  by_cases h : n ≤ q.length
  · rw [Nat.min_eq_left h]
  · have h' : q.length ≤ n := by omega
    rw [Nat.min_eq_right h', List.drop_length, List.drop_eq_nil_of_le h']

theorem take_all {α : Type} (q : List α) : q.take q.length = q := List.take_length

/-- `digest(len // 2)` as `_auto_digest` calls it: the slice is the first `sliceCount` items -/
theorem pySliceTo_some {α : Type} (q : List α) (k : Int) (h : k ≠ 0) :
    pySliceTo q k = q.take (sliceCount q.length (some k)) := by
  have := pySliceTo_truthy q (some k) (by simp [pyTruthyOInt, h])
  simpa using this

/-- `[w for w in q if g (now - w.created_at)]` -/
theorem pyFilterM_timeSub (now : Nat) (g : Int → Bool) : ∀ (q : List Item),
    pyFilterM (fun w => (pyTimeSub now w).map g) q =
      if q.any (·.tz) then none else some (q.filter fun w => g ((now : Int) - w.created)) := by
  intro q
  induction q with
  | nil => simp [pyFilterM]
  | cons w q ih =>
    rw [pyFilterM, ih]
    by_cases hw : w.tz
    · simp [pyTimeSub, hw]
    · by_cases hq : q.any (·.tz)
      · simp [pyTimeSub, hw, hq]
      · simp only [pyTimeSub, hw, hq, Bool.false_eq_true, if_false, Option.map_some, List.any_cons, Bool.false_or,
          List.filter_cons]

theorem length_sub_filter (q : List Item) (p : Item → Bool) :
    ((q.length : Nat) : Int) - (((q.filter p).length : Nat) : Int) = (((q.filter fun it => !p it).length : Nat) : Int) := by
  have := length_filter_split p q
  omega

/-! ### the toxic callback for ANY configuration (custom toxic digester, no callback, …) -/

/-- for ANY configuration: an item's `on_toxic` count is the number of times it was processed if processing it calls
    the callback (`callsToxic`), zero otherwise -/
def ToxInvG (cfg : Cfg) (s : State) : Prop :=
  ∀ it, s.toxicLog.count it =
    if callsToxic cfg it then s.gDigested.count it + s.gErrored.count it + s.gEmDropped.count it else 0

theorem digestCore_toxG (cfg : Cfg) (s : State) (n : Nat) (via : Bool) (h : ToxInvG cfg s) :
    ToxInvG cfg (digestCore cfg s n via).1 := by
  intro it
  have h0 := h it
  have h2 := count_filter_split (succeeds cfg) (s.queue.take n) it
  have h3 := count_filter_ite (callsToxic cfg) (s.queue.take n) it
  simp only [digestCore, List.count_append]
  cases ht : callsToxic cfg it
  · simp [ht] at h0 h3 ⊢
    omega
  · simp [ht] at h0 h3 ⊢
    omega

theorem emergency_toxG (cfg : Cfg) (s : State) (h : ToxInvG cfg s) : ToxInvG cfg (emergency cfg s) := by
  unfold emergency
  simp only
  split
  · exact h
  · intro it
    have h0 := h it
    have h2 := count_filter_split (succeedsEm cfg) (s.queue.take (s.queue.length / 2)) it
    have h3 := count_filter_ite (callsToxic cfg) (s.queue.take (s.queue.length / 2)) it
    simp only [List.count_append]
    cases ht : callsToxic cfg it
    · simp [ht] at h0 h3 ⊢
      omega
    · simp [ht] at h0 h3 ⊢
      omega

theorem step_toxG (cfg : Cfg) (s : State) (op : Op) (h : ToxInvG cfg s) : ToxInvG cfg (step cfg s op).1 := by
  unfold step
  split
  · exact h
  · cases op with
    | ingest id ty c st =>
      have he : ToxInvG cfg (enqueue cfg s id ty c st) := by
        unfold enqueue
        simp only
        split
        · exact emergency_toxG cfg s h
        · exact h
      unfold ingest
      simp only
      split
      · split
        · exact digestCore_toxG cfg _ _ _ he
        · exact he
      · exact he
    | digest k => exact digestCore_toxG cfg _ _ _ h
    | autophagy => simp only [autophagy]; split <;> exact h
    | advance us => exact h
    | clearBin => exact h

theorem run_toxG (cfg : Cfg) : ∀ (ops : List Op) (s : State), ToxInvG cfg s → ToxInvG cfg (run cfg s ops) := by
  intro ops
  induction ops with
  | nil => intro s h; exact h
  | cons op ops ih => intro s h; exact ih _ (step_toxG cfg s op h)

theorem callsToxic_true {cfg : Cfg} {it : Item} (h : callsToxic cfg it = true) :
    it.ty = .toxic ∧ cfg.toxDig = none ∧ cfg.onToxic.isSome = true := by
  unfold callsToxic digestOne at h
  by_cases ht : it.ty = .toxic
  · simp only [ht, if_true] at h
    cases htd : cfg.toxDig with
    | some d => simp [htd] at h
    | none =>
      cases hot : cfg.onToxic with
      | none => simp [htd, hot] at h
      | some f => exact ⟨ht, rfl, rfl⟩
  · simp [ht] at h

/-! ### histories in which the public settings are re-assigned between calls -/

/-- a history whose every call runs under its own configuration (`max_queue_size`, `auto_digest_threshold`,
    `retention_period`, `on_toxic` are public attributes and the digester table is a plain dict) -/
def runC : State → List (Cfg × Op) → State
  | s, [] => s
  | s, (cfg, op) :: r => runC (step cfg s op).1 r

theorem runC_acct : ∀ (h : List (Cfg × Op)) (s : State), Acct s → Acct (runC s h) := by
  intro h
  induction h with
  | nil => intro s hs; exact hs
  | cons co r ih => intro s hs; exact ih _ (step_acct co.1 s co.2 hs)

theorem runC_pending : ∀ (h : List (Cfg × Op)) (s : State), (runC s h).gPending = s.gPending := by
  intro h
  induction h with
  | nil => intro s; rfl
  | cons co r ih => intro s; exact (ih _).trans (step_pending co.1 s co.2)

theorem runC_queue_bound (m : Nat) (h2 : 2 ≤ m) : ∀ (h : List (Cfg × Op)) (s : State), (∀ co ∈ h, co.1.maxQ = m) →
    s.queue.length ≤ m → (runC s h).queue.length ≤ m := by
  intro h
  induction h with
  | nil => intro s _ hq; exact hq
  | cons co r ih =>
    intro s hm hq
    have hco : co.1.maxQ = m := hm co (by simp)
    refine ih _ (fun c hc => hm c (by simp [hc])) ?_
    have := step_queue_bound co.1 (by omega) s co.2 (by omega)
    omega

/-! ### return values, and a history through concrete steps -/

/-- what `digest` hands back, as the Python `DigestResult` -/
def Obs.toDigest : Obs → PyDigestResult
  | .digest r => .ofModel r
  | _ => default

/-- what `autophagy` hands back (`none` = it raised) -/
def Obs.toRemoved : Obs → Option Int
  | .removed n => some (n : Int)
  | _ => none

/-- the `Waste` object of an `ingest` line, numbered from the concrete object alone -/
def mkItemPy (p : PyS) (id : Nat) (ty : WType) (content : Nat) (st : Stamp) : Item :=
  ⟨id, ty, (match st with | .at us => us | _ => (p.clock : Int)), st = .aware, content, p.ingested⟩

theorem mkItemPy_conc (s : State) (id : Nat) (ty : WType) (c : Nat) (st : Stamp) :
    mkItemPy (conc s) id ty c st = mkItem s id ty c st := by
  unfold mkItemPy mkItem conc
  cases st <;> rfl

/-- the object, the sum of `len(DigestResult.errors)` over all `digest` calls, the sum of `autophagy()` results -/
structure PyRun where
  obj : PyS
  reported : Nat
  expired : Int

theorem pyAutophagy_conc_fst (cfg : Cfg) (s : State) : (pyAutophagy cfg (conc s)).1 = conc (autophagy cfg s).1 := by
  rw [pyAutophagy_conc]

theorem autophagy_expired (cfg : Cfg) (s : State) :
    ((autophagy cfg s).1.expiredRet : Int) = (s.expiredRet : Int) + ((pyAutophagy cfg (conc s)).2.getD 0) := by
  rw [pyAutophagy_conc]
  unfold autophagy
  by_cases h : s.queue.any (·.tz) <;> simp [h]

theorem autophagy_reported (cfg : Cfg) (s : State) : (autophagy cfg s).1.reported = s.reported := by
  unfold autophagy
  by_cases h : s.queue.any (·.tz) <;> simp [h]

theorem ingest_reported (cfg : Cfg) (hre : cfg.reent = true) (s : State) (id : Nat) (ty : WType) (c : Nat) (st : Stamp) :
    (ingest cfg s id ty c st).1.reported = s.reported ∧ (ingest cfg s id ty c st).1.expiredRet = s.expiredRet := by
  have h1 : (emergency cfg s).reported = s.reported ∧ (emergency cfg s).expiredRet = s.expiredRet := by
    unfold emergency; simp only; split <;> exact ⟨rfl, rfl⟩
  have h2 : (enqueue cfg s id ty c st).reported = s.reported ∧ (enqueue cfg s id ty c st).expiredRet = s.expiredRet := by
    unfold enqueue; simp only; split
    · exact h1
    · exact ⟨rfl, rfl⟩
  unfold ingest
  simp only [hre, if_true]
  split
  · exact ⟨by simp [digestCore, h2.1], by simp [digestCore, h2.2]⟩
  · exact h2

end Operon.Lysosome
