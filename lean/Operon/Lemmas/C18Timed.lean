import Operon.Model.LoopsTimed

/-! C18: the swarm loops never look at `step_timeout` or a clock - one induction per loop. -/

namespace Operon.Loops

variable {σ W ω η ι τ : Type}

theorem runWorker_timed (code : SwarmCode ω) (adv : SwarmAdv σ W ω η ι τ) (tick : Timed σ → Option Int × Int)
    (w : W) (task : τ) : ∀ (n : Nat) (recent : List ω) (t : Timed σ),
    (runWorker code (adv.timed tick) w task n recent t).st.env = (runWorker code adv w task n recent t.env).st ∧
    (runWorker code (adv.timed tick) w task n recent t).res = (runWorker code adv w task n recent t.env).res ∧
    (runWorker code (adv.timed tick) w task n recent t).steps = (runWorker code adv w task n recent t.env).steps := by
  intro n
  induction n with
  | zero => intro recent t; simp [runWorker]
  | succ n ih =>
    intro recent t
    rcases h : adv.step t.env w task with ⟨s1, o⟩
    cases o with
    | raise =>
      have hs : (adv.timed tick).step t w task = (⟨s1, (tick t).1, (tick t).2⟩, .raise) := by
        simp [SwarmAdv.timed, h]
      simp [runWorker, hs, h]
    | ok o =>
      have hs : (adv.timed tick).step t w task = (⟨s1, (tick t).1, (tick t).2⟩, .ok o) := by
        simp [SwarmAdv.timed, h]
      simp only [runWorker, hs, h]
      split
      · simp
      · split
        · simp
        · have := ih (window recent o) ⟨s1, (tick t).1, (tick t).2⟩
          simp only at this
          simp [this]

theorem superviseLoop_timed (code : SwarmCode ω) (cfg : SwarmCfg) (adv : SwarmAdv σ W ω η ι τ)
    (tick : Timed σ → Option Int × Int) (task : τ) : ∀ (fuel k : Nat) (hints : η) (sw : SwarmSt ι η) (t : Timed σ),
    (superviseLoop code cfg (adv.timed tick) task fuel k hints sw t).st.env
        = (superviseLoop code cfg adv task fuel k hints sw t.env).st ∧
    (superviseLoop code cfg (adv.timed tick) task fuel k hints sw t).sw
        = (superviseLoop code cfg adv task fuel k hints sw t.env).sw ∧
    (superviseLoop code cfg (adv.timed tick) task fuel k hints sw t).res
        = (superviseLoop code cfg adv task fuel k hints sw t.env).res ∧
    (superviseLoop code cfg (adv.timed tick) task fuel k hints sw t).spawns
        = (superviseLoop code cfg adv task fuel k hints sw t.env).spawns := by
  intro fuel
  induction fuel with
  | zero => intro k hints sw t; simp [superviseLoop]
  | succ fuel ih =>
    intro k hints sw t
    by_cases hk : (k : Int) ≤ cfg.maxRegen
    · rcases hf : adv.factory t.env (sw.counter + 1) hints with ⟨s1, ow⟩
      cases ow with
      | raise =>
        have hs : (adv.timed tick).factory t (sw.counter + 1) hints = (⟨s1, (tick t).1, (tick t).2⟩, .raise) := by
          simp [SwarmAdv.timed, hf]
        simp [superviseLoop, hk, hs, hf]
      | ok w =>
        have hs : (adv.timed tick).factory t (sw.counter + 1) hints = (⟨s1, (tick t).1, (tick t).2⟩, .ok w) := by
          simp [SwarmAdv.timed, hf]
        have hw := runWorker_timed code adv tick w task cfg.maxSteps.toNat [] ⟨s1, (tick t).1, (tick t).2⟩
        simp only at hw
        rcases hr : runWorker code adv w task cfg.maxSteps.toNat [] s1 with ⟨s2, res, steps⟩
        rcases hr' : runWorker code (adv.timed tick) w task cfg.maxSteps.toNat [] ⟨s1, (tick t).1, (tick t).2⟩
          with ⟨t2, res', steps'⟩
        rw [hr, hr'] at hw
        simp only at hw
        obtain ⟨h1, h2, h3⟩ := hw
        subst h2 h3
        cases res' with
        | raise => simp [superviseLoop, hk, hs, hf, hr, hr', h1]
        | ok oo =>
          cases oo with
          | some o => simp [superviseLoop, hk, hs, hf, hr, hr', h1]; rfl
          | none =>
            rcases hm : adv.summarize s2 w with ⟨s3, oh⟩
            have hm' : (adv.timed tick).summarize t2 w = (⟨s3, (tick t2).1, (tick t2).2⟩, oh) := by
              simp [SwarmAdv.timed, h1, hm]
            have hwid : ∀ x, (adv.timed tick).wid x = adv.wid x := fun _ => rfl
            cases oh with
            | raise => simp [superviseLoop, hk, hs, hf, hr, hr', hm, hm']
            | ok h =>
              have := ih (k + 1) h ⟨sw.counter + 1, sw.apop ++ [(adv.wid w, h)],
                if ((k + 1 : Nat) : Int) ≤ cfg.maxRegen then sw.regen ++ [(adv.wid w, sw.counter + 2, h)]
                else sw.regen⟩ ⟨s3, (tick t2).1, (tick t2).2⟩
              simp only at this
              simp only [superviseLoop, hk, hs, hf, hr, hr', hm, hm', hwid, if_true]
              simpa using this
    · simp [superviseLoop, hk]

end Operon.Loops
