import Operon.Lemmas.C13
import Operon.Model.LysosomeClients
/-! Helper lemmas for the C13 statements about callers that never hand the lysosome a timezone-aware `created_at`
    (the library's own client, the context-pruning daemon, among them): no call ever ends in an exception. -/
namespace Operon.Lysosome

/-- the call came back with a RESULT (not with an exception, not hanging, not on an abandoned object) -/
def Obs.normal : Obs → Bool
  | .ok => true
  | .digest _ => true
  | .removed _ => true
  | .raised => false
  | .hang => false
  | .dead => false

theorem Obs.returned_of_normal {o : Obs} (h : o.normal = true) : o.returned = true := by
  cases o <;> simp_all [Obs.normal, Obs.returned]

/-- nothing in the queue carries a timezone-aware `created_at` -/
def NoTz (s : State) : Prop := ∀ it ∈ s.queue, it.tz = false

theorem init_noTz : NoTz init := by simp [NoTz, init]

theorem emergency_queue_sub (cfg : Cfg) (s : State) : ∀ it ∈ (emergency cfg s).queue, it ∈ s.queue := by
  intro it h
  unfold emergency at h
  simp only at h
  split at h
  · exact h
  · exact List.mem_of_mem_drop h

theorem enqueue_noTz (cfg : Cfg) (s : State) (id : Nat) (ty : WType) (c : Nat) (st : Stamp) (hst : st ≠ .aware)
    (hz : NoTz s) : NoTz (enqueue cfg s id ty c st) := by
  intro it h
  unfold enqueue at h
  simp only [List.mem_append, List.mem_singleton] at h
  rcases h with h | h
  · split at h
    · exact hz it (emergency_queue_sub cfg s it h)
    · exact hz it h
  · subst h
    simp [hst]

theorem step_normal (cfg : Cfg) (hre : cfg.reent = true) (s : State) (op : Op) (hd : s.dead = false)
    (hp : op.plain = true) (hz : NoTz s) :
    (step cfg s op).2.normal = true ∧ NoTz (step cfg s op).1 := by
  unfold step
  rw [if_neg (by simp [hd])]
  cases op with
  | ingest id ty c st =>
    have hst : st ≠ .aware := by
      intro h; subst h; simp [Op.plain] at hp
    have he := enqueue_noTz cfg s id ty c st hst hz
    unfold ingest
    simp only [hre, if_true]
    split
    · refine ⟨rfl, ?_⟩
      intro it h
      simp only [digestCore] at h
      exact he it (List.mem_of_mem_drop h)
    · exact ⟨rfl, he⟩
  | digest k =>
    refine ⟨rfl, ?_⟩
    intro it h
    simp only [digest, digestCore] at h
    exact hz it (List.mem_of_mem_drop h)
  | autophagy =>
    have hno : s.queue.any (·.tz) = false := by
      rw [List.any_eq_false]
      intro it hit
      simp [hz it hit]
    simp only [autophagy, hno]
    refine ⟨rfl, ?_⟩
    intro it h
    exact hz it (List.mem_filter.mp h).1
  | advance us => exact ⟨rfl, hz⟩
  | clearBin => exact ⟨rfl, hz⟩

theorem run_normal (cfg : Cfg) (hre : cfg.reent = true) : ∀ (ops : List Op) (s : State), s.dead = false → NoTz s →
    (∀ op ∈ ops, op.plain = true) → ∀ o ∈ runObs cfg s ops, o.normal = true := by
  intro ops
  induction ops with
  | nil => intro s _ _ _ o ho; simp [runObs] at ho
  | cons op ops ih =>
    intro s hd hz hp o ho
    obtain ⟨h1, h2⟩ := step_normal cfg hre s op hd (hp op (by simp)) hz
    have hd' := (step_returns cfg hre s op hd).2
    simp only [runObs, List.mem_cons] at ho
    rcases ho with rfl | ho
    · exact h1
    · exact ih _ hd' h2 (fun op' h => hp op' (by simp [h])) o ho

/-! ### the client vocabulary -/

theorem clientOps_plain (id : Nat) (c : ClientCall) (h : c.plain = true) : ∀ op ∈ c.ops id, op.plain = true := by
  intro op hop
  cases c with
  | ingest ty st =>
    cases st <;> simp_all [ClientCall.ops, ClientCall.plain, Op.plain]
  | ingestError => simp_all [ClientCall.ops, Op.plain]
  | ingestSensitive => simp_all [ClientCall.ops, Op.plain]
  | digest k => simp_all [ClientCall.ops, Op.plain]
  | autophagy => simp_all [ClientCall.ops, Op.plain]
  | clearBin => simp_all [ClientCall.ops, Op.plain]
  | other w => simp_all [ClientCall.ops]

theorem probeRun_ok_plain (r : ProbeRun) (h : r.ok = true) : ∀ c ∈ r.calls, c.plain = true := by
  intro c hc
  simp only [ProbeRun.ok, Bool.and_eq_true, decide_eq_true_eq] at h
  rw [h.2] at hc
  split at hc
  · simp only [List.mem_singleton] at hc
    subst hc
    rfl
  · simp at hc

theorem callOps_plain (tbl : List ProbeRun) (htbl : ∀ r ∈ tbl, r.ok = true) (call : Call)
    (happ : ∀ op, call = .app op → op.plain = true) : ∀ op ∈ call.ops tbl, op.plain = true := by
  intro op hop
  cases call with
  | app o =>
    simp only [Call.ops, List.mem_singleton] at hop
    subst hop
    exact happ _ rfl
  | client id k =>
    simp only [Call.ops] at hop
    split at hop
    · rename_i r hr
      obtain ⟨c, hc, hop⟩ := List.mem_flatMap.mp hop
      exact clientOps_plain id c (probeRun_ok_plain r (htbl r (List.mem_of_getElem? hr)) c hc) op hop
    · simp at hop

/-! ### the same for any interleaving of atomic actions (any number of threads) -/

theorem act_noTz (cfg : Cfg) (hre : cfg.reent = true) (s : State) (a : Act) (hd : s.dead = false)
    (hp : ∀ o, a = .op o → o.plain = true) (hz : NoTz s) :
    NoTz (act cfg s a) ∧ (act cfg s a).dead = false := by
  cases a with
  | op o =>
    exact ⟨(step_normal cfg hre s o hd (hp o rfl) hz).2, (step_returns cfg hre s o hd).2⟩
  | pop tid k =>
    refine ⟨?_, hd⟩
    intro it h
    simp only [act] at h
    exact hz it (List.mem_of_mem_drop h)
  | iter tid =>
    simp only [act]
    split
    · exact ⟨hz, hd⟩
    · rename_i it rest _
      unfold iterItem
      split <;> exact ⟨hz, hd⟩

theorem runActs_noTz (cfg : Cfg) (hre : cfg.reent = true) : ∀ (as : List Act) (s : State), s.dead = false → NoTz s →
    (∀ o, Act.op o ∈ as → o.plain = true) → NoTz (runActs cfg s as) ∧ (runActs cfg s as).dead = false := by
  intro as
  induction as with
  | nil => intro s hd hz _; exact ⟨hz, hd⟩
  | cons a as ih =>
    intro s hd hz hp
    obtain ⟨h1, h2⟩ := act_noTz cfg hre s a hd (fun o ho => hp o (by simp [ho])) hz
    exact ih _ h2 h1 (fun o ho => hp o (by simp [ho]))

theorem autophagy_normal_of_noTz (cfg : Cfg) (s : State) (hz : NoTz s) : (autophagy cfg s).2.normal = true := by
  have hno : s.queue.any (·.tz) = false := by
    rw [List.any_eq_false]
    intro it hit
    simp [hz it hit]
  simp [autophagy, hno, Obs.normal]

end Operon.Lysosome
