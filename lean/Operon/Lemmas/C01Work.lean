import Operon.Lemmas.C01
import Operon.Model.MitoWork
/-! C01 helper lemmas: the walker enters every node of the text at most once (`visits ≤ nodes`), at every level up to
    the entry point. -/
namespace Operon.Mito

section work
variable (T : Tables) (env : Env)

mutual
theorem visits_le : ∀ e, visits T env e ≤ e.nodes
  | .const _ => by simp [visits, Expr.nodes]
  | .name _ => by simp [visits, Expr.nodes]
  | .binop k l r => by
    have hl := visits_le l; have hr := visits_le r
    unfold visits; simp only [Expr.nodes]
    split <;> omega
  | .unop k e => by
    have he := visits_le e
    unfold visits; simp only [Expr.nodes]; omega
  | .call f args kn kv => by
    have ha := visitsList_le args; have hk := visitsKws_le kn kv; have := nodes_pos f
    unfold visits; simp only [Expr.nodes]
    split
    · split
      · split
        · omega
        · split <;> omega
      · omega
    · omega
  | .list es => by
    have h := visitsList_le es
    unfold visits; simp only [Expr.nodes]; omega
  | .tuple es => by
    have h := visitsList_le es
    unfold visits; simp only [Expr.nodes]; omega
  | .compare l ops cs => by
    have hl := visits_le l
    unfold visits; simp only [Expr.nodes]
    split
    · rename_i a _
      have hc := visitsCmp_le a ops cs
      omega
    · omega
  | .boolop k es => by
    have h := visitsBool_le k es
    unfold visits; simp only [Expr.nodes]
    split <;> omega
  | .ifexp c t e => by
    have hc := visits_le c; have ht := visits_le t; have he := visits_le e
    unfold visits; simp only [Expr.nodes]
    split
    · split
      · split <;> omega
      · omega
    · omega
  | .other _ cs => by simp [visits, Expr.nodes]

theorem visitsList_le : ∀ es, visitsList T env es ≤ nodesList es
  | [] => by simp [visitsList, nodesList]
  | e :: es => by
    have he := visits_le e; have hs := visitsList_le es
    unfold visitsList; simp only [nodesList]
    split <;> omega

theorem visitsKws_le (kn : List (Option String)) : ∀ es, visitsKws T env kn es ≤ nodesList es
  | [] => by simp [visitsKws, nodesList]
  | e :: es => by
    have he := visits_le e
    unfold visitsKws; simp only [nodesList]
    split
    · rename_i n ns
      have hs := visitsKws_le ns es
      split <;> omega
    · omega

theorem visitsCmp_le (a : Val) (ops : List CmpK) : ∀ cs, visitsCmp T env a ops cs ≤ nodesList cs
  | [] => by simp [visitsCmp, nodesList]
  | c :: cs => by
    have hc := visits_le c
    unfold visitsCmp; simp only [nodesList]
    split
    · omega
    · rename_i op ops'
      split
      · rename_i right _
        have hs := visitsCmp_le right ops' cs
        split
        · omega
        · split
          · split
            · split <;> omega
            · omega
          · omega
      · omega

theorem visitsBool_le (k : BoolK) : ∀ es, visitsBool T env k es ≤ nodesList es
  | [] => by simp [visitsBool, nodesList]
  | e :: es => by
    have he := visits_le e; have hs := visitsBool_le k es
    unfold visitsBool; simp only [nodesList]
    split
    · simp only [nodesList]; omega
    · split
      · split
        · split <;> omega
        · omega
      · omega
end

/-- every evaluation enters the walker at least once -/
theorem visits_pos : ∀ e, 1 ≤ visits T env e := by
  intro e
  cases e <;> unfold visits <;> (try split) <;> (try split) <;> (try split) <;> omega

end work

mutual
/-- `_LowercaseBooleans` replaces nodes one for one: the size of the tree is unchanged -/
theorem nodes_normalise : ∀ e, (normalise e).nodes = e.nodes
  | .const _ => by simp [normalise]
  | .name id => by
    unfold normalise
    split
    · simp [Expr.nodes]
    · split <;> simp [Expr.nodes]
  | .binop k l r => by simp [normalise, Expr.nodes, nodes_normalise l, nodes_normalise r]
  | .unop k e => by simp [normalise, Expr.nodes, nodes_normalise e]
  | .call f args kn kv => by
    simp [normalise, Expr.nodes, nodes_normalise f, nodesList_normalise args, nodesList_normalise kv]
  | .list es => by simp [normalise, Expr.nodes, nodesList_normalise es]
  | .tuple es => by simp [normalise, Expr.nodes, nodesList_normalise es]
  | .compare l ops cs => by simp [normalise, Expr.nodes, nodes_normalise l, nodesList_normalise cs]
  | .boolop k es => by simp [normalise, Expr.nodes, nodesList_normalise es]
  | .ifexp c t e => by simp [normalise, Expr.nodes, nodes_normalise c, nodes_normalise t, nodes_normalise e]
  | .other k cs => by simp [normalise, Expr.nodes, nodesList_normalise cs]
theorem nodesList_normalise : ∀ es, nodesList (normaliseList es) = nodesList es
  | [] => by simp [normaliseList]
  | e :: es => by simp [normaliseList, nodesList, nodes_normalise e, nodesList_normalise es]
end

theorem toolVisits_le (T : Tables) (env : Env) (tools : List ToolReg) (allowed : Option (List String)) (e : Expr) :
    toolVisits T env tools allowed e + 1 ≤ e.nodes := by
  unfold toolVisits
  split
  · rename_i tn args kn kv
    have ha := visitsList_le T env args; have hk := visitsKws_le T env kn kv
    simp only [Expr.nodes]
    split
    · omega
    · split
      · split <;> omega
      · omega
  · have := nodes_pos e; omega

end Operon.Mito
