import Operon.Model.Genome
/-! Helper lemmas for C20 (core Lean only). -/
namespace Operon.Genome

variable {ν : Type}

/-! ### the two dicts -/

theorem findGene_nil (n : Nat) : findGene ([] : List (Gene ν)) n = none := rfl

theorem findGene_cons (h : Gene ν) (t : List (Gene ν)) (n : Nat) :
    findGene (h :: t) n = if h.name = n then some h else findGene t n := by
  unfold findGene
  by_cases hn : h.name = n <;> simp [hn]

theorem findGene_some_name {gs : List (Gene ν)} {n : Nat} {x : Gene ν} (h : findGene gs n = some x) :
    x.name = n := by
  induction gs with
  | nil => simp [findGene_nil] at h
  | cons a t ih =>
    rw [findGene_cons] at h
    split at h
    · cases h; assumption
    · exact ih h

theorem findGene_some_mem {gs : List (Gene ν)} {n : Nat} {x : Gene ν} (h : findGene gs n = some x) : x ∈ gs := by
  induction gs with
  | nil => simp [findGene_nil] at h
  | cons a t ih =>
    rw [findGene_cons] at h
    split at h
    · cases h; simp
    · exact List.mem_cons_of_mem _ (ih h)

theorem findGene_none_iff {gs : List (Gene ν)} {n : Nat} : findGene gs n = none ↔ n ∉ gs.map (·.name) := by
  induction gs with
  | nil => simp [findGene_nil]
  | cons a t ih =>
    rw [findGene_cons]
    by_cases hn : a.name = n
    · simp [hn]
    · simp only [hn, if_false, ih, List.map_cons, List.mem_cons]
      constructor
      · intro h1 h2
        rcases h2 with h2 | h2
        · exact hn h2.symm
        · exact h1 h2
      · intro h1 h2; exact h1 (Or.inr h2)

theorem findGene_isSome_iff {gs : List (Gene ν)} {n : Nat} : (findGene gs n).isSome ↔ n ∈ gs.map (·.name) := by
  cases h : findGene gs n with
  | none => simpa using findGene_none_iff.mp h
  | some x =>
    simp only [Option.isSome_some, true_iff]
    exact List.mem_map.mpr ⟨x, findGene_some_mem h, findGene_some_name h⟩

theorem findGene_of_mem_nodup {gs : List (Gene ν)} (hnd : (gs.map (·.name)).Nodup) {x : Gene ν} (hx : x ∈ gs) :
    findGene gs x.name = some x := by
  induction gs with
  | nil => cases hx
  | cons a t ih =>
    rw [findGene_cons]
    simp only [List.map_cons, List.nodup_cons] at hnd
    rcases List.mem_cons.mp hx with rfl | hx
    · simp
    · have : a.name ≠ x.name := by
        intro h; apply hnd.1; rw [h]; exact List.mem_map.mpr ⟨x, hx, rfl⟩
      simp [this, ih hnd.2 hx]

theorem findGene_putGene_same (gs : List (Gene ν)) (x : Gene ν) : findGene (putGene gs x) x.name = some x := by
  induction gs with
  | nil => simp [putGene, findGene_cons]
  | cons a t ih =>
    unfold putGene
    split
    · simp [findGene_cons]
    · rename_i hne
      rw [findGene_cons]; simp [hne, ih]

theorem findGene_putGene_other (gs : List (Gene ν)) (x : Gene ν) {n : Nat} (hn : n ≠ x.name) :
    findGene (putGene gs x) n = findGene gs n := by
  induction gs with
  | nil => simp [putGene, findGene_cons, findGene_nil, Ne.symm hn]
  | cons a t ih =>
    unfold putGene
    split
    · rename_i he
      rw [findGene_cons, findGene_cons]
      have h1 : ¬ x.name = n := fun h => hn h.symm
      have h2 : ¬ a.name = n := fun h => hn (by rw [← h, he])
      simp [h1, h2]
    · rw [findGene_cons, findGene_cons, ih]

theorem names_putGene_of_mem (gs : List (Gene ν)) (x : Gene ν) (h : x.name ∈ gs.map (·.name)) :
    (putGene gs x).map (·.name) = gs.map (·.name) := by
  induction gs with
  | nil => cases h
  | cons a t ih =>
    unfold putGene
    split
    · rename_i he; simp [he]
    · rename_i hne
      simp only [List.map_cons, List.mem_cons] at h
      rcases h with h | h
      · exact absurd h.symm hne
      · simp [ih h]

theorem putGene_of_not_mem (gs : List (Gene ν)) (x : Gene ν) (h : x.name ∉ gs.map (·.name)) :
    putGene gs x = gs ++ [x] := by
  induction gs with
  | nil => rfl
  | cons a t ih =>
    simp only [List.map_cons, List.mem_cons, not_or] at h
    unfold putGene
    rw [if_neg (fun he => h.1 he.symm), ih h.2]; rfl

theorem nodup_names_putGene (gs : List (Gene ν)) (x : Gene ν) (h : (gs.map (·.name)).Nodup) :
    ((putGene gs x).map (·.name)).Nodup := by
  by_cases hm : x.name ∈ gs.map (·.name)
  · rw [names_putGene_of_mem gs x hm]; exact h
  · rw [putGene_of_not_mem gs x hm]
    simp only [List.map_append, List.map_cons, List.map_nil]
    exact List.nodup_append.mpr ⟨h, by simp, by
      intro a ha b hb; simp at hb; subst hb; intro he; exact hm (he ▸ ha)⟩

/-- re-assigning a key with a gene that is already stored there changes nothing -/
theorem putGene_self (gs : List (Gene ν)) (x : Gene ν) (h : findGene gs x.name = some x) : putGene gs x = gs := by
  induction gs with
  | nil => simp [findGene_nil] at h
  | cons a t ih =>
    rw [findGene_cons] at h
    unfold putGene
    split at h
    · cases h; simp
    · rename_i hne; rw [if_neg hne, ih h]

theorem table_putGene_value (gs : List (Gene ν)) (og : Gene ν) (h : findGene gs og.name = some og) :
    putGene gs { og with value := og.value } = gs := putGene_self gs og h

theorem findLevel_putLevel_same (es : List (Nat × Level)) (n : Nat) (l : Level) :
    findLevel (putLevel es n l) n = some l := by
  induction es with
  | nil => simp [putLevel, findLevel]
  | cons a t ih =>
    unfold putLevel
    split
    · simp [findLevel]
    · rename_i hne
      unfold findLevel at ih ⊢
      simp [hne, ih]

theorem findLevel_putLevel_other (es : List (Nat × Level)) (n : Nat) (l : Level) {n' : Nat} (hn : n' ≠ n) :
    findLevel (putLevel es n l) n' = findLevel es n' := by
  induction es with
  | nil => simp [putLevel, findLevel, Ne.symm hn]
  | cons a t ih =>
    unfold putLevel
    split
    · rename_i he
      have h1 : ¬ n = n' := fun h => hn h.symm
      have h2 : ¬ a.1 = n' := fun h => hn (by rw [← h, he])
      simp [findLevel, h1, h2]
    · unfold findLevel at ih ⊢
      by_cases ha : a.1 = n' <;> simp [ha, ih]

/-! ### the mutation log -/

/-- "approved mutation of gene `n`" -/
def Mut.hits (n : Nat) (m : Mut ν) : Bool := m.gene == n && m.approved

theorem lastApproved_nil (n : Nat) : lastApproved ([] : List (Mut ν)) n = none := rfl

theorem lastApproved_append (l₁ l₂ : List (Mut ν)) (n : Nat) :
    lastApproved (l₁ ++ l₂) n = (lastApproved l₂ n).or (lastApproved l₁ n) := by
  unfold lastApproved
  rw [List.reverse_append, List.find?_append]

theorem lastApproved_singleton (m : Mut ν) (n : Nat) :
    lastApproved [m] n = if m.gene = n ∧ m.approved = true then some m else none := by
  unfold lastApproved
  by_cases h : m.gene = n ∧ m.approved = true
  · simp [h]
  · rw [if_neg h]
    simp only [List.reverse_cons, List.reverse_nil, List.nil_append, List.find?_cons, List.find?_nil]
    have : (m.gene == n && m.approved) = false := by
      cases hb : (m.gene == n && m.approved)
      · rfl
      · exfalso; apply h; simpa using hb
    simp [this]

/-- independent reading of `lastApproved`: the log splits around an approved entry for `n` after which no
    approved entry for `n` follows -/
theorem lastApproved_some_iff {log : List (Mut ν)} {n : Nat} {m : Mut ν} :
    lastApproved log n = some m ↔
      m.gene = n ∧ m.approved = true ∧ ∃ pre post, log = pre ++ m :: post ∧
        ∀ m' ∈ post, ¬ (m'.gene = n ∧ m'.approved = true) := by
  unfold lastApproved
  rw [List.find?_eq_some_iff_append]
  constructor
  · rintro ⟨hp, as, bs, hlog, hno⟩
    have hp' : m.gene = n ∧ m.approved = true := by simpa using hp
    refine ⟨hp'.1, hp'.2, bs.reverse, as.reverse, ?_, ?_⟩
    · have := congrArg List.reverse hlog
      simpa using this
    · intro m' hm' hc
      have := hno m' (List.mem_reverse.mp hm')
      simp [hc.1, hc.2] at this
  · rintro ⟨hg, ha, pre, post, hlog, hno⟩
    refine ⟨by simp [hg, ha], post.reverse, pre.reverse, by simp [hlog], ?_⟩
    intro m' hm'
    have := hno m' (List.mem_reverse.mp hm')
    cases hb : (m'.gene == n && m'.approved)
    · rfl
    · exfalso; apply this; simpa using hb

theorem lastApproved_none_iff {log : List (Mut ν)} {n : Nat} :
    lastApproved log n = none ↔ ∀ m ∈ log, ¬ (m.gene = n ∧ m.approved = true) := by
  unfold lastApproved
  rw [List.find?_eq_none]
  constructor
  · intro h m hm hc
    have := h m (List.mem_reverse.mpr hm)
    simp [hc.1, hc.2] at this
  · intro h m hm
    have := h m (List.mem_reverse.mp hm)
    simpa using this

theorem lastApproved_some_mem {log : List (Mut ν)} {n : Nat} {m : Mut ν} (h : lastApproved log n = some m) :
    m ∈ log ∧ m.gene = n ∧ m.approved = true := by
  obtain ⟨hg, ha, pre, post, hlog, -⟩ := lastApproved_some_iff.mp h
  exact ⟨by simp [hlog], hg, ha⟩

/-- the value the last approved mutation of `n` in `s` wrote -/
def lastNew (s : List (Mut ν)) (n : Nat) : Option ν := (lastApproved s n).map (·.new)

theorem lastNew_nil (n : Nat) : lastNew ([] : List (Mut ν)) n = none := rfl

theorem lastNew_append (s₁ s₂ : List (Mut ν)) (n : Nat) :
    lastNew (s₁ ++ s₂) n = (lastNew s₂ n).or (lastNew s₁ n) := by
  unfold lastNew
  rw [lastApproved_append]
  cases lastApproved s₂ n <;> simp

/-! ### authorised evolution of one genome -/

/-- the gate let this change through: mutations are enabled, or the genome's approval callback answered
    `approve` to exactly this change at some call -/
def AuthBy (env : Env ν) (allow : Bool) (cb : Option Nat) (m : Mut ν) : Prop :=
  allow = true ∨ ∃ c k, cb = some c ∧ env.adv c k m.gene m.orig m.new m.reason = .approve

/-- … by the gate settings genome `g` has -/
def Authorised (env : Env ν) (g : Genome ν) (m : Mut ν) : Prop := AuthBy env g.allow g.cb m

/-- `g'` results from `g` by operations of the API: the gate settings are fixed, the log only grows, every
    approved entry was let through by the gate, and — when mutations are disabled — every gene that was
    present is still there with the same record except that its value is the one written by the last approved
    entry added for it (if any). -/
structure Evolves (env : Env ν) (adds : Bool) (g g' : Genome ν) : Prop where
  allow : g'.allow = g.allow
  cb : g'.cb = g.cb
  rate : g'.rate = g.rate
  generation : g'.generation = g.generation
  parentHash : g'.parentHash = g.parentHash
  main : ∃ s, g'.log = g.log ++ s ∧ (∀ m ∈ s, m.approved = true → Authorised env g m) ∧
    ((adds = false ∨ g.allow = false) → ∀ n x, findGene g.genes n = some x →
      findGene g'.genes n = some { x with value := (lastNew s n).getD x.value })

theorem Evolves.refl (env : Env ν) {adds : Bool} (g : Genome ν) : Evolves env adds g g :=
  ⟨rfl, rfl, rfl, rfl, rfl, [], by simp, by simp, by intro _ n x h; simpa [lastNew_nil] using h⟩

theorem Evolves.weaken {env : Env ν} {g g' : Genome ν} (h : Evolves env false g g') : Evolves env true g g' := by
  obtain ⟨s, hl, ha, hg⟩ := h.main
  exact ⟨h.allow, h.cb, h.rate, h.generation, h.parentHash, s, hl, ha, fun _ => hg (Or.inl rfl)⟩

theorem Evolves.trans {env : Env ν} {adds : Bool} {g₁ g₂ g₃ : Genome ν} (h₁ : Evolves env adds g₁ g₂)
    (h₂ : Evolves env adds g₂ g₃) : Evolves env adds g₁ g₃ := by
  obtain ⟨s₁, hl₁, ha₁, hg₁⟩ := h₁.main
  obtain ⟨s₂, hl₂, ha₂, hg₂⟩ := h₂.main
  refine ⟨h₂.allow.trans h₁.allow, h₂.cb.trans h₁.cb, h₂.rate.trans h₁.rate,
    h₂.generation.trans h₁.generation, h₂.parentHash.trans h₁.parentHash, s₁ ++ s₂, ?_, ?_, ?_⟩
  · rw [hl₂, hl₁, List.append_assoc]
  · intro m hm hap
    rcases List.mem_append.mp hm with hm | hm
    · exact ha₁ m hm hap
    · have := ha₂ m hm hap
      unfold Authorised AuthBy at this ⊢
      rw [h₁.allow, h₁.cb] at this
      exact this
  · intro hal n x hx
    have e₁ := hg₁ hal n x hx
    have e₂ := hg₂ (hal.imp id (fun h => h₁.allow.trans h)) n _ e₁
    rw [e₂, lastNew_append]
    cases lastNew s₂ n <;> simp

/-! ### evolution when the public gate attributes may be re-assigned in between

`G allow cb` is a set of gate settings: "the settings that were in force at the moments the genome's
`add_gene` / `mutate` / `rollback_mutation` were called".  The log only grows, every approved entry was let through by
one of THOSE settings, and — if all of them have mutations disabled, or no `add_gene` was involved — every gene that
was present is still there with the same record except that its value is the one written by the last approved entry
added for it. -/
structure EvolvesG (env : Env ν) (adds : Bool) (G : Bool → Option Nat → Prop) (g g' : Genome ν) : Prop where
  generation : g'.generation = g.generation
  parentHash : g'.parentHash = g.parentHash
  main : ∃ s, g'.log = g.log ++ s ∧ (∀ m ∈ s, m.approved = true → ∃ a c, G a c ∧ AuthBy env a c m) ∧
    ((adds = false ∨ ∀ a c, G a c → a = false) → ∀ n x, findGene g.genes n = some x →
      findGene g'.genes n = some { x with value := (lastNew s n).getD x.value })

/-- same gene table, log, generation, parent hash (only gate attributes / expression differ) -/
theorem EvolvesG.of_same (env : Env ν) {adds : Bool} {G : Bool → Option Nat → Prop} {g g' : Genome ν}
    (hg : g'.genes = g.genes) (hl : g'.log = g.log) (h1 : g'.generation = g.generation)
    (h2 : g'.parentHash = g.parentHash) : EvolvesG env adds G g g' :=
  ⟨h1, h2, [], by simp [hl], by simp, by intro _ n x h; rw [hg]; simpa [lastNew_nil] using h⟩

theorem EvolvesG.refl (env : Env ν) {adds : Bool} {G : Bool → Option Nat → Prop} (g : Genome ν) :
    EvolvesG env adds G g g := EvolvesG.of_same env rfl rfl rfl rfl

theorem Evolves.toG {env : Env ν} {adds : Bool} {G : Bool → Option Nat → Prop} {g g' : Genome ν}
    (h : Evolves env adds g g') (hG : G g.allow g.cb) : EvolvesG env adds G g g' := by
  obtain ⟨s, hl, ha, hg⟩ := h.main
  refine ⟨h.generation, h.parentHash, s, hl, fun m hm hap => ⟨g.allow, g.cb, hG, ha m hm hap⟩, ?_⟩
  intro hc
  exact hg (hc.imp id (fun h' => h' _ _ hG))

theorem EvolvesG.mono {env : Env ν} {adds : Bool} {G G' : Bool → Option Nat → Prop} {g g' : Genome ν}
    (h : EvolvesG env adds G g g') (hsub : ∀ a c, G a c → G' a c) : EvolvesG env adds G' g g' := by
  obtain ⟨s, hl, ha, hg⟩ := h.main
  refine ⟨h.generation, h.parentHash, s, hl, ?_, ?_⟩
  · intro m hm hap
    obtain ⟨a, c, hG, hau⟩ := ha m hm hap
    exact ⟨a, c, hsub a c hG, hau⟩
  · intro hc
    exact hg (hc.imp id (fun h' a c hG => h' a c (hsub a c hG)))

theorem EvolvesG.weaken {env : Env ν} {G : Bool → Option Nat → Prop} {g g' : Genome ν}
    (h : EvolvesG env false G g g') : EvolvesG env true G g g' := by
  obtain ⟨s, hl, ha, hg⟩ := h.main
  exact ⟨h.generation, h.parentHash, s, hl, ha, fun _ => hg (Or.inl rfl)⟩

theorem EvolvesG.trans {env : Env ν} {adds : Bool} {G : Bool → Option Nat → Prop} {g₁ g₂ g₃ : Genome ν}
    (h₁ : EvolvesG env adds G g₁ g₂) (h₂ : EvolvesG env adds G g₂ g₃) : EvolvesG env adds G g₁ g₃ := by
  obtain ⟨s₁, hl₁, ha₁, hg₁⟩ := h₁.main
  obtain ⟨s₂, hl₂, ha₂, hg₂⟩ := h₂.main
  refine ⟨h₂.generation.trans h₁.generation, h₂.parentHash.trans h₁.parentHash, s₁ ++ s₂, ?_, ?_, ?_⟩
  · rw [hl₂, hl₁, List.append_assoc]
  · intro m hm hap
    rcases List.mem_append.mp hm with hm | hm
    · exact ha₁ m hm hap
    · exact ha₂ m hm hap
  · intro hal n x hx
    have e₁ := hg₁ hal n x hx
    have e₂ := hg₂ hal n _ e₁
    rw [e₂, lastNew_append]
    cases lastNew s₂ n <;> simp

/-! ### single operations evolve their genome -/


theorem addGene_evolves (env : Env ν) (g : Genome ν) (x : Gene ν) : Evolves env true g (addGene g x).1 := by
  unfold addGene
  split
  · rename_i og hf
    split
    · rename_i hal
      refine ⟨rfl, rfl, rfl, rfl, rfl, [], by simp, by simp, ?_⟩
      intro hc n y hy
      rcases hc with h | h
      · cases h
      · rw [hal] at h; cases h
    · -- refused: one unapproved entry, nothing else
      refine ⟨rfl, rfl, rfl, rfl, rfl, [⟨x.name, og.value, x.value, .readd, false⟩], rfl, ?_, ?_⟩
      · intro m hm hap; simp only [List.mem_singleton] at hm; subst hm; cases hap
      · intro _ n y hy
        have hl : lastNew [(⟨x.name, og.value, x.value, .readd, false⟩ : Mut ν)] n = none := by
          simp [lastNew, lastApproved]
        rw [hl]; exact hy
  · rename_i hf
    refine ⟨rfl, rfl, rfl, rfl, rfl, [], by simp, by simp, ?_⟩
    intro hal n y hy
    have hne : n ≠ x.name := by
      intro h; subst h; rw [hf] at hy; cases hy
    simp only [lastNew_nil, Option.getD_none]
    rw [findGene_putGene_other _ _ hne]; exact hy

theorem addGene_refused {g : Genome ν} {x : Gene ν} {og : Gene ν} (hal : g.allow = false)
    (hx : findGene g.genes x.name = some og) :
    addGene g x = (refuseMut g og x.name x.value .readd, false) := by
  unfold addGene; simp [hal, hx]

/-- a refused re-add changes nothing but the log -/
theorem addGene_refused_genes {g : Genome ν} {x : Gene ν} (hal : g.allow = false)
    (hx : (findGene g.genes x.name).isSome) : (addGene g x).1.genes = g.genes ∧ (addGene g x).2 = false := by
  obtain ⟨og, hf⟩ := Option.isSome_iff_exists.mp hx
  rw [addGene_refused hal hf]; exact ⟨rfl, rfl⟩

/-- what `add_gene` does to the two dicts: nothing (refused: the name exists), or the assignment -/
theorem addGene_cases (g : Genome ν) (x : Gene ν) :
    ((addGene g x).1.genes = g.genes ∧ (addGene g x).1.expr = g.expr ∧ (findGene g.genes x.name).isSome = true) ∨
    ((addGene g x).1.genes = putGene g.genes x ∧ (addGene g x).1.expr = putLevel g.expr x.name x.defExpr) := by
  unfold addGene
  cases hf : findGene g.genes x.name with
  | none => right; exact ⟨rfl, rfl⟩
  | some og =>
    by_cases hal : g.allow = true
    · right; simp [hal]
    · left; simp [hal, refuseMut]

theorem addGene_gate (g : Genome ν) (x : Gene ν) :
    (addGene g x).1.allow = g.allow ∧ (addGene g x).1.cb = g.cb ∧ (addGene g x).1.rate = g.rate := by
  unfold addGene
  cases hf : findGene g.genes x.name with
  | none => exact ⟨rfl, rfl, rfl⟩
  | some og =>
    by_cases hal : g.allow = true
    · simp [hal]
    · simp [hal, refuseMut]

/-- `add_gene` logs nothing unless it refuses -/
theorem addGene_log (g : Genome ν) (x : Gene ν) (h : (addGene g x).2 = true) : (addGene g x).1.log = g.log := by
  unfold addGene at h ⊢
  cases hf : findGene g.genes x.name with
  | none => simp
  | some og =>
    simp only [hf] at h ⊢
    by_cases hal : g.allow = true
    · simp [hal]
    · simp [hal] at h

theorem setExpr_evolves (env : Env ν) {adds : Bool} (g : Genome ν) (n : Nat) (l : Level) :
    Evolves env adds g (setExpr g n l).1 := by
  unfold setExpr
  split
  · exact Evolves.refl env g
  · exact ⟨rfl, rfl, rfl, rfl, rfl, [], by simp, by simp, by intro _ n x h; simpa [lastNew_nil] using h⟩

theorem setExpr_genes (g : Genome ν) (n : Nat) (l : Level) :
    (setExpr g n l).1.genes = g.genes ∧ (setExpr g n l).1.log = g.log := by
  unfold setExpr; split <;> exact ⟨rfl, rfl⟩

/-- Everything `mutate` can do, in one statement. -/
theorem mutate_cases (env : Env ν) (k : Nat) (g : Genome ν) (n : Nat) (v : ν) (r : Reason) :
    (findGene g.genes n = none ∧ mutate env k g n v r = .done g false k) ∨
    (∃ og, findGene g.genes n = some og ∧
      ((g.allow = true ∧ mutate env k g n v r = .done (applyMut g og n v r) true k) ∨
       (g.allow = false ∧ g.cb = none ∧ mutate env k g n v r = .done (refuseMut g og n v r) false k) ∨
       (∃ c, g.allow = false ∧ g.cb = some c ∧
         ((env.adv c k n og.value v r = .approve ∧ mutate env k g n v r = .done (applyMut g og n v r) true (k + 1)) ∨
          (env.adv c k n og.value v r = .refuse ∧ mutate env k g n v r = .done (refuseMut g og n v r) false (k + 1)) ∨
          (env.adv c k n og.value v r = .raise ∧ mutate env k g n v r = .raised (k + 1)))))) := by
  unfold mutate
  cases hf : findGene g.genes n with
  | none => left; simp
  | some og =>
    right
    refine ⟨og, rfl, ?_⟩
    cases hal : g.allow with
    | true => left; simp
    | false =>
      right
      cases hcb : g.cb with
      | none => left; simp
      | some c =>
        right
        refine ⟨c, rfl, rfl, ?_⟩
        cases ha : env.adv c k n og.value v r <;> simp [ha]

theorem applyMut_evolves (env : Env ν) {adds : Bool} (g : Genome ν) (og : Gene ν) (n : Nat) (v : ν) (r : Reason)
    (hf : findGene g.genes n = some og) (hauth : Authorised env g ⟨n, og.value, v, r, true⟩) :
    Evolves env adds g (applyMut g og n v r) := by
  refine ⟨rfl, rfl, rfl, rfl, rfl, [⟨n, og.value, v, r, true⟩], rfl, ?_, ?_⟩
  · intro m hm _; simp at hm; subst hm; exact hauth
  · intro _ n' x hx
    have hname := findGene_some_name hf
    by_cases hn : n' = n
    · subst hn
      rw [hf] at hx; cases hx
      have : lastNew [(⟨n', og.value, v, r, true⟩ : Mut ν)] n' = some v := by
        simp [lastNew, lastApproved_singleton]
      rw [this]
      simp only [applyMut, Option.getD_some]
      have := findGene_putGene_same g.genes { og with value := v }
      simpa [hname] using this
    · have : lastNew [(⟨n, og.value, v, r, true⟩ : Mut ν)] n' = none := by
        simp [lastNew, lastApproved_singleton, Ne.symm hn]
      rw [this]
      simp only [applyMut, Option.getD_none]
      rw [findGene_putGene_other]
      · exact hx
      · simpa [hname] using hn

theorem refuseMut_evolves (env : Env ν) {adds : Bool} (g : Genome ν) (og : Gene ν) (n : Nat) (v : ν) (r : Reason) :
    Evolves env adds g (refuseMut g og n v r) := by
  refine ⟨rfl, rfl, rfl, rfl, rfl, [⟨n, og.value, v, r, false⟩], rfl, ?_, ?_⟩
  · intro m hm hap; simp at hm; subst hm; cases hap
  · intro _ n' x hx
    have : lastNew [(⟨n, og.value, v, r, false⟩ : Mut ν)] n' = none := by
      simp [lastNew, lastApproved_singleton]
    rw [this]
    simpa [refuseMut] using hx

theorem mutate_evolves {env : Env ν} {adds : Bool} {k : Nat} {g : Genome ν} {n : Nat} {v : ν} {r : Reason}
    {g' : Genome ν} {b : Bool} {k' : Nat} (h : mutate env k g n v r = .done g' b k') : Evolves env adds g g' := by
  rcases mutate_cases env k g n v r with ⟨-, e⟩ | ⟨og, hf, ⟨hal, e⟩ | ⟨-, -, e⟩ | ⟨c, hal, hcb, ⟨ha, e⟩ | ⟨-, e⟩ | ⟨-, e⟩⟩⟩
  · rw [e] at h; cases h; exact Evolves.refl env g
  · rw [e] at h; cases h; exact applyMut_evolves env g og n v r hf (Or.inl hal)
  · rw [e] at h; cases h; exact refuseMut_evolves env g og n v r
  · rw [e] at h; cases h; exact applyMut_evolves env g og n v r hf (Or.inr ⟨c, k, hcb, ha⟩)
  · rw [e] at h; cases h; exact refuseMut_evolves env g og n v r
  · rw [e] at h; cases h

theorem rollback_evolves {env : Env ν} {adds : Bool} {k : Nat} {g : Genome ν} {n : Nat}
    {g' : Genome ν} {b : Bool} {k' : Nat} (h : rollback env k g n = .done g' b k') : Evolves env adds g g' := by
  unfold rollback at h
  split at h
  · cases h; exact Evolves.refl env g
  · exact mutate_evolves h

theorem mutateList_evolves {env : Env ν} {adds : Bool} {d : Nat} (muts : List (Nat × ν)) :
    ∀ {k : Nat} {g g' : Genome ν} {k' d' : Nat}, mutateList env d k g muts = .ok g' k' d' → Evolves env adds g g' := by
  induction muts with
  | nil => intro k g g' k' d' h; simp [mutateList] at h; rw [← h.1]; exact Evolves.refl env g
  | cons p rest ih =>
    intro k g g' k' d' h
    unfold mutateList at h
    split at h
    · rename_i g₁ b k₁ hm
      exact (mutate_evolves hm).trans (ih h)
    · cases h

theorem randomPass_evolves {env : Env ν} {adds : Bool} (names : List Nat) :
    ∀ {k d : Nat} {g g' : Genome ν} {k' d' : Nat}, randomPass env k d g names = .ok g' k' d' → Evolves env adds g g' := by
  induction names with
  | nil => intro k d g g' k' d' h; simp [randomPass] at h; rw [← h.1]; exact Evolves.refl env g
  | cons n rest ih =>
    intro k d g g' k' d' h
    unfold randomPass at h
    split at h
    · exact ih h
    · split at h
      · exact ih h
      · split at h
        · rename_i hm
          exact (mutate_evolves hm).trans (ih h)
        · cases h

/-! ### the store -/

theorem getElem?_set_of_some {α : Type} {l : List α} {i j : Nat} {a g : α} (h : l[j]? = some g) :
    (l.set i a)[j]? = some (if i = j then a else g) := by
  have hj : j < l.length := by
    rcases Nat.lt_or_ge j l.length with h' | h'
    · exact h'
    · rw [List.getElem?_eq_none h'] at h; cases h
  by_cases hij : i = j
  · subst hij; simp [hj]
  · simp [List.getElem?_set_ne hij, h, hij]

theorem getElem?_append_of_some {α : Type} {l : List α} {j : Nat} {g : α} (c : List α) (h : l[j]? = some g) :
    (l ++ c)[j]? = some g := by
  have hj : j < l.length := by
    rcases Nat.lt_or_ge j l.length with h' | h'
    · exact h'
    · rw [List.getElem?_eq_none h'] at h; cases h
  rw [List.getElem?_append_left hj]; exact h

/-- the genome an operation may modify (`replicate`, `new`, `express`, `get_value` modify none) -/
def Op.target : Op ν → Option Nat
  | .add i _ => some i
  | .mutate i _ _ => some i
  | .rollback i _ => some i
  | .setExpr i _ _ => some i
  | .assign i _ => some i
  | _ => none

/-- the genome whose stored values an operation may change: `add_gene`, `mutate`, `rollback_mutation` -/
def Op.mutator : Op ν → Option Nat
  | .add i _ => some i
  | .mutate i _ _ => some i
  | .rollback i _ => some i
  | _ => none

/-- the operation is an attribute assignment on genome `j` -/
def Op.assigns (j : Nat) : Op ν → Bool
  | .assign i _ => i == j
  | _ => false

/-! equations of `step`, one per outcome -/
/-- the genome id an operation names -/
def Op.addr : Op ν → Option Nat
  | .new .. => none
  | .add i _ => some i
  | .mutate i _ _ => some i
  | .rollback i _ => some i
  | .setExpr i _ _ => some i
  | .replicate i _ _ => some i
  | .express i _ => some i
  | .getValue i _ => some i
  | .validate i => some i
  | .listGenes i => some i
  | .diff i _ => some i
  | .assign i _ => some i
  | .stats i => some i

theorem step_noid {env : Env ν} {st : Store ν} {op : Op ν} {i : Nat} (hop : op.addr = some i)
    (hi : st.genomes[i]? = none) : step env st op = (st, .bad) := by
  cases op <;> simp only [Op.addr, Option.some.injEq, reduceCtorEq] at hop <;> subst hop <;> simp [step, hi]

theorem step_add {env : Env ν} {st : Store ν} {i : Nat} {x : Gene ν} {g : Genome ν} (hi : st.genomes[i]? = some g) :
    step env st (.add i x) = (⟨st.genomes.set i (addGene g x).1, st.calls, st.draws⟩, .ret (addGene g x).2) := by
  simp [step, hi]

theorem step_setExpr {env : Env ν} {st : Store ν} {i n : Nat} {l : Level} {g : Genome ν}
    (hi : st.genomes[i]? = some g) :
    step env st (.setExpr i n l) = (⟨st.genomes.set i (setExpr g n l).1, st.calls, st.draws⟩, .ret (setExpr g n l).2) := by
  simp [step, hi]

theorem step_mutate_done {env : Env ν} {st : Store ν} {i n : Nat} {v : ν} {g g' : Genome ν} {b : Bool} {k : Nat}
    (hi : st.genomes[i]? = some g) (hm : mutate env st.calls g n v .user = .done g' b k) :
    step env st (.mutate i n v) = (⟨st.genomes.set i g', k, st.draws⟩, .ret b) := by
  simp [step, hi, hm]

theorem step_mutate_raised {env : Env ν} {st : Store ν} {i n : Nat} {v : ν} {g : Genome ν} {k : Nat}
    (hi : st.genomes[i]? = some g) (hm : mutate env st.calls g n v .user = .raised k) :
    step env st (.mutate i n v) = (⟨st.genomes, k, st.draws⟩, .raised) := by
  simp [step, hi, hm]

theorem step_rollback_done {env : Env ν} {st : Store ν} {i n : Nat} {g g' : Genome ν} {b : Bool} {k : Nat}
    (hi : st.genomes[i]? = some g) (hm : rollback env st.calls g n = .done g' b k) :
    step env st (.rollback i n) = (⟨st.genomes.set i g', k, st.draws⟩, .ret b) := by
  simp [step, hi, hm]

theorem step_rollback_raised {env : Env ν} {st : Store ν} {i n : Nat} {g : Genome ν} {k : Nat}
    (hi : st.genomes[i]? = some g) (hm : rollback env st.calls g n = .raised k) :
    step env st (.rollback i n) = (⟨st.genomes, k, st.draws⟩, .raised) := by
  simp [step, hi, hm]

theorem step_replicate_ok {env : Env ν} {st : Store ν} {i : Nat} {muts : List (Nat × ν)} {inh : Bool}
    {p c : Genome ν} {k d : Nat}
    (hi : st.genomes[i]? = some p) (hr : replicate env st.calls st.draws p muts inh = .ok c k d) :
    step env st (.replicate i muts inh) = (⟨st.genomes ++ [c], k, d⟩, .child st.genomes.length) := by
  simp [step, hi, hr]

theorem step_replicate_raised {env : Env ν} {st : Store ν} {i : Nat} {muts : List (Nat × ν)} {inh : Bool}
    {p : Genome ν} {k d : Nat}
    (hi : st.genomes[i]? = some p) (hr : replicate env st.calls st.draws p muts inh = .raised k d) :
    step env st (.replicate i muts inh) = (⟨st.genomes, k, d⟩, .raised) := by
  simp [step, hi, hr]

theorem step_stats {env : Env ν} {st : Store ν} {i : Nat} {g : Genome ν}
    (hi : st.genomes[i]? = some g) : step env st (.stats i) = (st, .statistics (stats g)) := by
  simp [step, hi]

theorem step_stats_store {env : Env ν} {st : Store ν} {i : Nat} : (step env st (.stats i)).1 = st := by
  simp only [step]; split <;> rfl

theorem step_assign {env : Env ν} {st : Store ν} {i : Nat} {a : Assign} {g : Genome ν}
    (hi : st.genomes[i]? = some g) :
    step env st (.assign i a) = (⟨st.genomes.set i (assign g a), st.calls, st.draws⟩, .assigned) := by
  simp [step, hi]

theorem assign_same (g : Genome ν) (a : Assign) :
    (assign g a).genes = g.genes ∧ (assign g a).expr = g.expr ∧ (assign g a).log = g.log ∧
    (assign g a).generation = g.generation ∧ (assign g a).parentHash = g.parentHash := by
  cases a <;> exact ⟨rfl, rfl, rfl, rfl, rfl⟩

theorem step_express {env : Env ν} {st : Store ν} {i : Nat} {ctx : List Nat} {g : Genome ν}
    (hi : st.genomes[i]? = some g) : step env st (.express i ctx) = (st, .config (express g ctx)) := by
  simp [step, hi]

theorem step_getValue {env : Env ν} {st : Store ν} {i n : Nat} {g : Genome ν}
    (hi : st.genomes[i]? = some g) : step env st (.getValue i n) = (st, .value (getValue g n)) := by
  simp [step, hi]

/-- the read-only queries leave the store alone -/
theorem step_query {env : Env ν} {st : Store ν} {op : Op ν}
    (hq : (∃ i, op = .validate i) ∨ (∃ i, op = .listGenes i) ∨ (∃ i j, op = .diff i j)) :
    (step env st op).1 = st := by
  rcases hq with ⟨i, rfl⟩ | ⟨i, rfl⟩ | ⟨i, j, rfl⟩
  · simp only [step]; split <;> rfl
  · simp only [step]; split <;> rfl
  · simp only [step]; split <;> rfl

/-- Frame + evolution: after any operation every genome that existed is still at its place, has evolved by
    the API only, and is literally unchanged unless the operation was invoked on it. -/
theorem step_frame_ev (env : Env ν) (st : Store ν) (op : Op ν) (j : Nat) (g : Genome ν)
    (hj : st.genomes[j]? = some g) :
    ∃ g', (step env st op).1.genomes[j]? = some g' ∧
      (Evolves env true g g' ∨ ∃ a, op = .assign j a ∧ g' = assign g a) ∧ (op.target ≠ some j → g' = g) := by
  cases op with
  | new allow cb rate genes =>
    exact ⟨g, getElem?_append_of_some _ hj, Or.inl (Evolves.refl env g), fun _ => rfl⟩
  | add i x =>
    cases hi : st.genomes[i]? with
    | none => rw [step_noid rfl hi]; exact ⟨g, hj, Or.inl (Evolves.refl env g), fun _ => rfl⟩
    | some gi =>
      rw [step_add hi]
      refine ⟨_, getElem?_set_of_some hj, Or.inl ?_, ?_⟩
      · by_cases hij : i = j
        · subst hij; rw [hi] at hj; cases hj; simpa using addGene_evolves env g x
        · simpa [hij] using Evolves.refl env g
      · intro ht; have : i ≠ j := fun h => ht (by simp [Op.target, h]); simp [this]
  | mutate i n v =>
    cases hi : st.genomes[i]? with
    | none => rw [step_noid rfl hi]; exact ⟨g, hj, Or.inl (Evolves.refl env g), fun _ => rfl⟩
    | some gi =>
      cases hm : mutate env st.calls gi n v .user with
      | raised k => rw [step_mutate_raised hi hm]; exact ⟨g, hj, Or.inl (Evolves.refl env g), fun _ => rfl⟩
      | done g' b k =>
        rw [step_mutate_done hi hm]
        refine ⟨_, getElem?_set_of_some hj, Or.inl ?_, ?_⟩
        · by_cases hij : i = j
          · subst hij; rw [hi] at hj; cases hj; simpa using mutate_evolves hm
          · simpa [hij] using Evolves.refl env g
        · intro ht; have : i ≠ j := fun h => ht (by simp [Op.target, h]); simp [this]
  | rollback i n =>
    cases hi : st.genomes[i]? with
    | none => rw [step_noid rfl hi]; exact ⟨g, hj, Or.inl (Evolves.refl env g), fun _ => rfl⟩
    | some gi =>
      cases hm : rollback env st.calls gi n with
      | raised k => rw [step_rollback_raised hi hm]; exact ⟨g, hj, Or.inl (Evolves.refl env g), fun _ => rfl⟩
      | done g' b k =>
        rw [step_rollback_done hi hm]
        refine ⟨_, getElem?_set_of_some hj, Or.inl ?_, ?_⟩
        · by_cases hij : i = j
          · subst hij; rw [hi] at hj; cases hj; simpa using rollback_evolves hm
          · simpa [hij] using Evolves.refl env g
        · intro ht; have : i ≠ j := fun h => ht (by simp [Op.target, h]); simp [this]
  | setExpr i n l =>
    cases hi : st.genomes[i]? with
    | none =>
      rw [step_noid rfl hi]; exact ⟨g, hj, Or.inl (Evolves.refl env g), fun _ => rfl⟩
    | some gi =>
      rw [step_setExpr hi]
      refine ⟨_, getElem?_set_of_some hj, Or.inl ?_, ?_⟩
      · by_cases hij : i = j
        · subst hij; rw [hi] at hj; cases hj; simpa using setExpr_evolves env g n l
        · simpa [hij] using Evolves.refl env g
      · intro ht; have : i ≠ j := fun h => ht (by simp [Op.target, h]); simp [this]
  | replicate i muts inh =>
    cases hi : st.genomes[i]? with
    | none =>
      rw [step_noid rfl hi]
      exact ⟨g, hj, Or.inl (Evolves.refl env g), fun _ => rfl⟩
    | some gi =>
      cases hr : replicate env st.calls st.draws gi muts inh with
      | raised k d => rw [step_replicate_raised hi hr]; exact ⟨g, hj, Or.inl (Evolves.refl env g), fun _ => rfl⟩
      | ok c k d =>
        rw [step_replicate_ok hi hr]
        exact ⟨g, getElem?_append_of_some _ hj, Or.inl (Evolves.refl env g), fun _ => rfl⟩
  | express i ctx =>
    cases hi : st.genomes[i]? with
    | none =>
      rw [step_noid rfl hi]
      exact ⟨g, hj, Or.inl (Evolves.refl env g), fun _ => rfl⟩
    | some gi => rw [step_express hi]; exact ⟨g, hj, Or.inl (Evolves.refl env g), fun _ => rfl⟩
  | getValue i n =>
    cases hi : st.genomes[i]? with
    | none =>
      rw [step_noid rfl hi]
      exact ⟨g, hj, Or.inl (Evolves.refl env g), fun _ => rfl⟩
    | some gi => rw [step_getValue hi]; exact ⟨g, hj, Or.inl (Evolves.refl env g), fun _ => rfl⟩
  | validate i => rw [step_query (Or.inl ⟨i, rfl⟩)]; exact ⟨g, hj, Or.inl (Evolves.refl env g), fun _ => rfl⟩
  | listGenes i => rw [step_query (Or.inr (Or.inl ⟨i, rfl⟩))]; exact ⟨g, hj, Or.inl (Evolves.refl env g), fun _ => rfl⟩
  | diff i j' => rw [step_query (Or.inr (Or.inr ⟨i, j', rfl⟩))]; exact ⟨g, hj, Or.inl (Evolves.refl env g), fun _ => rfl⟩
  | stats i => rw [step_stats_store]; exact ⟨g, hj, Or.inl (Evolves.refl env g), fun _ => rfl⟩
  | assign i a =>
    cases hi : st.genomes[i]? with
    | none => rw [step_noid rfl hi]; exact ⟨g, hj, Or.inl (Evolves.refl env g), fun _ => rfl⟩
    | some gi =>
      rw [step_assign hi]
      refine ⟨_, getElem?_set_of_some hj, ?_, ?_⟩
      · by_cases hij : i = j
        · subst hij; rw [hi] at hj; cases hj; exact Or.inr ⟨a, rfl, by simp⟩
        · left; simpa [hij] using Evolves.refl env g
      · intro ht; have : i ≠ j := fun h => ht (by simp [Op.target, h]); simp [this]

/-- Frame + evolution in the form used over histories: whatever set `G` of gate settings contains the setting in
    force IF the operation is an `add_gene` / `mutate` / `rollback_mutation` on this genome, the genome evolves
    under `G`; it is literally unchanged unless the operation was invoked on it; and its gate attributes change
    only by an explicit assignment. -/
theorem step_frame (env : Env ν) (st : Store ν) (op : Op ν) (j : Nat) (g : Genome ν)
    (hj : st.genomes[j]? = some g) :
    ∃ g', (step env st op).1.genomes[j]? = some g' ∧
      (∀ G : Bool → Option Nat → Prop, (op.mutator = some j → G g.allow g.cb) → EvolvesG env true G g g') ∧
      (op.target ≠ some j → g' = g) ∧
      (op.assigns j = false → g'.allow = g.allow ∧ g'.cb = g.cb ∧ g'.rate = g.rate) ∧
      (op.mutator ≠ some j → g'.genes = g.genes ∧ g'.log = g.log) := by
  obtain ⟨g', h, hev, hfr⟩ := step_frame_ev env st op j g hj
  have hsame : op.mutator ≠ some j → g'.genes = g.genes ∧ g'.log = g.log ∧ g'.generation = g.generation ∧
      g'.parentHash = g.parentHash := by
    intro hm
    by_cases ht : op.target = some j
    · cases op with
      | setExpr i n l =>
        simp only [Op.target, Option.some.injEq] at ht; subst ht
        rw [step_setExpr hj] at h
        have := getElem?_set_of_some (i := i) (a := (setExpr g n l).1) hj
        rw [if_pos rfl] at this
        simp only at h; rw [this] at h; cases h
        have ev := setExpr_evolves env (adds := true) g n l
        exact ⟨(setExpr_genes g n l).1, (setExpr_genes g n l).2, ev.generation, ev.parentHash⟩
      | assign i a =>
        simp only [Op.target, Option.some.injEq] at ht; subst ht
        rw [step_assign hj] at h
        have := getElem?_set_of_some (i := i) (a := assign g a) hj
        rw [if_pos rfl] at this
        simp only at h; rw [this] at h; cases h
        obtain ⟨h1, -, h3, h4, h5⟩ := assign_same g a
        exact ⟨h1, h3, h4, h5⟩
      | add i x => exact absurd ht hm
      | mutate i n v => exact absurd ht hm
      | rollback i n => exact absurd ht hm
      | new _ _ _ _ => simp [Op.target] at ht
      | replicate _ _ _ => simp [Op.target] at ht
      | express _ _ => simp [Op.target] at ht
      | getValue _ _ => simp [Op.target] at ht
      | validate _ => simp [Op.target] at ht
      | listGenes _ => simp [Op.target] at ht
      | diff _ _ => simp [Op.target] at ht
      | stats _ => simp [Op.target] at ht
    · have := hfr ht; subst this; exact ⟨rfl, rfl, rfl, rfl⟩
  refine ⟨g', h, ?_, hfr, ?_, fun hm => ⟨(hsame hm).1, (hsame hm).2.1⟩⟩
  · intro G hG
    by_cases hm : op.mutator = some j
    · rcases hev with ev | ⟨a, rfl, -⟩
      · exact ev.toG (hG hm)
      · simp [Op.mutator] at hm
    · obtain ⟨h1, h2, h3, h4⟩ := hsame hm
      exact EvolvesG.of_same env h1 h2 h3 h4
  · intro hna
    rcases hev with ev | ⟨a, rfl, -⟩
    · exact ⟨ev.allow, ev.cb, ev.rate⟩
    · simp [Op.assigns] at hna

theorem run_nil (env : Env ν) (st : Store ν) : run env st [] = st := rfl
theorem run_cons (env : Env ν) (st : Store ν) (op : Op ν) (ops : List (Op ν)) :
    run env st (op :: ops) = run env (step env st op).1 ops := rfl

theorem run_append (env : Env ν) (st : Store ν) (a b : List (Op ν)) :
    run env st (a ++ b) = run env (run env st a) b := by
  induction a generalizing st with
  | nil => rfl
  | cons op rest ih => simp [run_cons, ih]

/-- "at every moment the history calls `add_gene` / `mutate` / `rollback_mutation` on genome `i`, the gate settings
    that genome has AT THAT MOMENT are in `G`" (the public attributes may have been re-assigned in between) -/
def CallsUnder (env : Env ν) (G : Bool → Option Nat → Prop) (i : Nat) : Store ν → List (Op ν) → Prop
  | _, [] => True
  | st, op :: rest =>
    (∀ g, op.mutator = some i → st.genomes[i]? = some g → G g.allow g.cb) ∧ CallsUnder env G i (step env st op).1 rest

theorem callsUnder_true (env : Env ν) (i : Nat) (ops : List (Op ν)) :
    ∀ st, CallsUnder env (fun _ _ => True) i st ops := by
  induction ops with
  | nil => intro st; trivial
  | cons op rest ih => intro st; exact ⟨fun _ _ _ => trivial, ih _⟩

theorem CallsUnder.mono {env : Env ν} {G G' : Bool → Option Nat → Prop} (hsub : ∀ a c, G a c → G' a c) {i : Nat}
    (ops : List (Op ν)) : ∀ {st}, CallsUnder env G i st ops → CallsUnder env G' i st ops := by
  induction ops with
  | nil => intro st _; trivial
  | cons op rest ih => intro st h; exact ⟨fun g hm hg => hsub _ _ (h.1 g hm hg), ih h.2⟩

/-- executable form of `CallsUnder` for concrete histories (used by the non-vacuity examples) -/
def callsUnderB (env : Env ν) (P : Bool → Option Nat → Bool) (i : Nat) : Store ν → List (Op ν) → Bool
  | _, [] => true
  | st, op :: rest =>
    (match st.genomes[i]? with
     | some g => op.mutator != some i || P g.allow g.cb
     | none => true) && callsUnderB env P i (step env st op).1 rest

theorem callsUnder_of_B {env : Env ν} {P : Bool → Option Nat → Bool} {G : Bool → Option Nat → Prop}
    (hP : ∀ a c, P a c = true → G a c) {i : Nat} (ops : List (Op ν)) :
    ∀ {st}, callsUnderB env P i st ops = true → CallsUnder env G i st ops := by
  induction ops with
  | nil => intro st _; trivial
  | cons op rest ih =>
    intro st h
    simp only [callsUnderB, Bool.and_eq_true] at h
    refine ⟨fun g hm hg => ?_, ih h.2⟩
    have h1 := h.1
    rw [hg] at h1
    simp only [hm, bne_self_eq_false, Bool.false_or] at h1
    exact hP _ _ h1

/-- no attribute assignment on genome `i` in the history -/
def NoAssign (i : Nat) (ops : List (Op ν)) : Prop := ∀ op ∈ ops, op.assigns i = false

/-- over any history every genome that existed evolves by the API only, under the gate settings in force at the
    moments of the calls -/
theorem run_evolves (env : Env ν) (G : Bool → Option Nat → Prop) (ops : List (Op ν)) :
    ∀ (st : Store ν) (j : Nat) (g : Genome ν), st.genomes[j]? = some g → CallsUnder env G j st ops →
      ∃ g', (run env st ops).genomes[j]? = some g' ∧ EvolvesG env true G g g' := by
  induction ops with
  | nil => intro st j g h _; exact ⟨g, h, EvolvesG.refl env g⟩
  | cons op rest ih =>
    intro st j g h hc
    obtain ⟨g₁, h₁, e₁, -, -, -⟩ := step_frame env st op j g h
    obtain ⟨g₂, h₂, e₂⟩ := ih _ j g₁ h₁ hc.2
    exact ⟨g₂, h₂, (e₁ G (fun hm => hc.1 g hm h)).trans e₂⟩

/-- without assignments the gate attributes are what they were -/
theorem run_gate_fixed (env : Env ν) (ops : List (Op ν)) :
    ∀ (st : Store ν) (j : Nat) (g : Genome ν), st.genomes[j]? = some g → NoAssign j ops →
      ∃ g', (run env st ops).genomes[j]? = some g' ∧ g'.allow = g.allow ∧ g'.cb = g.cb ∧ g'.rate = g.rate := by
  induction ops with
  | nil => intro st j g h _; exact ⟨g, h, rfl, rfl, rfl⟩
  | cons op rest ih =>
    intro st j g h hn
    obtain ⟨g₁, h₁, -, -, hg, -⟩ := step_frame env st op j g h
    obtain ⟨a1, a2, a3⟩ := hg (hn op List.mem_cons_self)
    obtain ⟨g₂, h₂, b1, b2, b3⟩ := ih _ j g₁ h₁ (fun o ho => hn o (List.mem_cons_of_mem _ ho))
    exact ⟨g₂, h₂, b1.trans a1, b2.trans a2, b3.trans a3⟩

/-- … so a history without assignments on `i` makes all its calls under the settings `i` starts with -/
theorem callsUnder_of_noAssign (env : Env ν) (ops : List (Op ν)) :
    ∀ (st : Store ν) (j : Nat) (g : Genome ν), st.genomes[j]? = some g → NoAssign j ops →
      CallsUnder env (fun a c => a = g.allow ∧ c = g.cb) j st ops := by
  induction ops with
  | nil => intro st j g _ _; trivial
  | cons op rest ih =>
    intro st j g h hn
    refine ⟨fun g' _ hg' => by rw [h] at hg'; cases hg'; exact ⟨rfl, rfl⟩, ?_⟩
    obtain ⟨g₁, h₁, -, -, hg, -⟩ := step_frame env st op j g h
    obtain ⟨a1, a2, -⟩ := hg (hn op List.mem_cons_self)
    have := ih _ j g₁ h₁ (fun o ho => hn o (List.mem_cons_of_mem _ ho))
    rw [a1, a2] at this
    exact this

/-! ### finer facts about `mutate` -/

theorem names_putGene_value (gs : List (Gene ν)) (og : Gene ν) (v : ν) {n : Nat} (h : findGene gs n = some og) :
    (putGene gs { og with value := v }).map (·.name) = gs.map (·.name) := by
  apply names_putGene_of_mem
  exact List.mem_map.mpr ⟨og, findGene_some_mem h, rfl⟩

/-- what a returning `mutate` did: names never change; either the gene is absent and nothing happened, or
    exactly one entry was logged, flagged with the return value, and the value was written iff it is `true` -/
theorem mutate_done_spec {env : Env ν} {k : Nat} {g : Genome ν} {n : Nat} {v : ν} {r : Reason}
    {g' : Genome ν} {b : Bool} {k' : Nat} (h : mutate env k g n v r = .done g' b k') :
    g'.genes.map (·.name) = g.genes.map (·.name) ∧ g'.expr = g.expr ∧
    ((findGene g.genes n = none ∧ g' = g ∧ b = false) ∨
     (∃ og, findGene g.genes n = some og ∧ g'.log = g.log ++ [⟨n, og.value, v, r, b⟩] ∧
        g'.genes = if b then putGene g.genes { og with value := v } else g.genes)) := by
  rcases mutate_cases env k g n v r with ⟨hn, e⟩ | ⟨og, hf, ⟨hal, e⟩ | ⟨-, -, e⟩ | ⟨c, hal, hcb, ⟨ha, e⟩ | ⟨-, e⟩ | ⟨-, e⟩⟩⟩
  · rw [e] at h; cases h; exact ⟨rfl, rfl, Or.inl ⟨hn, rfl, rfl⟩⟩
  · rw [e] at h; cases h
    exact ⟨names_putGene_value _ _ _ hf, rfl, Or.inr ⟨og, hf, rfl, rfl⟩⟩
  · rw [e] at h; cases h; exact ⟨rfl, rfl, Or.inr ⟨og, hf, rfl, rfl⟩⟩
  · rw [e] at h; cases h
    exact ⟨names_putGene_value _ _ _ hf, rfl, Or.inr ⟨og, hf, rfl, rfl⟩⟩
  · rw [e] at h; cases h; exact ⟨rfl, rfl, Or.inr ⟨og, hf, rfl, rfl⟩⟩
  · rw [e] at h; cases h

/-- a callback that never says `approve` -/
def NeverApproves (env : Env ν) (g : Genome ν) : Prop :=
  ∀ c, g.cb = some c → ∀ k n o v r, env.adv c k n o v r ≠ .approve

theorem mutate_unauthorised {env : Env ν} {k : Nat} {g : Genome ν} {n : Nat} {v : ν} {r : Reason}
    {g' : Genome ν} {b : Bool} {k' : Nat} (hal : g.allow = false) (hna : NeverApproves env g)
    (h : mutate env k g n v r = .done g' b k') :
    g'.genes = g.genes ∧ g'.allow = g.allow ∧ g'.cb = g.cb ∧ b = false := by
  rcases mutate_cases env k g n v r with ⟨hn, e⟩ | ⟨og, hf, ⟨hal', e⟩ | ⟨-, -, e⟩ | ⟨c, -, hcb, ⟨ha, e⟩ | ⟨-, e⟩ | ⟨-, e⟩⟩⟩
  · rw [e] at h; cases h; exact ⟨rfl, rfl, rfl, rfl⟩
  · rw [hal] at hal'; cases hal'
  · rw [e] at h; cases h; exact ⟨rfl, rfl, rfl, rfl⟩
  · exact absurd ha (hna c hcb _ _ _ _ _)
  · rw [e] at h; cases h; exact ⟨rfl, rfl, rfl, rfl⟩
  · rw [e] at h; cases h

theorem rollback_unauthorised {env : Env ν} {k : Nat} {g : Genome ν} {n : Nat}
    {g' : Genome ν} {b : Bool} {k' : Nat} (hal : g.allow = false) (hna : NeverApproves env g)
    (h : rollback env k g n = .done g' b k') :
    g'.genes = g.genes ∧ g'.allow = g.allow ∧ g'.cb = g.cb ∧ b = false := by
  unfold rollback at h
  split at h
  · cases h; exact ⟨rfl, rfl, rfl, rfl⟩
  · exact mutate_unauthorised hal hna h

/-- "re-adding": every `add_gene` the history performs on genome `i` names a gene that genome has at that
    moment -/
def ReAdds (env : Env ν) (i : Nat) : Store ν → List (Op ν) → Prop
  | _, [] => True
  | st, op :: rest =>
    (∀ x g, op = .add i x → st.genomes[i]? = some g → (findGene g.genes x.name).isSome = true) ∧
    ReAdds env i (step env st op).1 rest

/-- gate settings that authorise nothing: mutations disabled and the callback (if any) never approves anything -/
def Unauth (env : Env ν) (allow : Bool) (cb : Option Nat) : Prop :=
  allow = false ∧ ∀ c, cb = some c → ∀ k n o v r, env.adv c k n o v r ≠ .approve

theorem unauth_iff (env : Env ν) (g : Genome ν) : Unauth env g.allow g.cb ↔ (g.allow = false ∧ NeverApproves env g) :=
  Iff.rfl

theorem step_unauthorised {env : Env ν} {st : Store ν} {op : Op ν} {i : Nat} {g : Genome ν}
    (hi : st.genomes[i]? = some g) (hun : op.mutator = some i → Unauth env g.allow g.cb)
    (hre : ∀ x, op = .add i x → (findGene g.genes x.name).isSome = true) :
    ∃ g', (step env st op).1.genomes[i]? = some g' ∧ g'.genes = g.genes := by
  obtain ⟨g', hg', -, -, -, hsame⟩ := step_frame env st op i g hi
  by_cases ht : op.mutator = some i
  · obtain ⟨hal, hna⟩ := hun ht
    cases op with
    | add i' x =>
      simp only [Op.mutator, Option.some.injEq] at ht; subst ht
      rw [step_add hi]
      exact ⟨_, by simpa using getElem?_set_of_some (i := i') (a := (addGene g x).1) hi,
        (addGene_refused_genes hal (hre x rfl)).1⟩
    | mutate i' n v =>
      simp only [Op.mutator, Option.some.injEq] at ht; subst ht
      cases hm : mutate env st.calls g n v .user with
      | raised k => rw [step_mutate_raised hi hm]; exact ⟨g, hi, rfl⟩
      | done g₁ b k =>
        rw [step_mutate_done hi hm]
        obtain ⟨h1, -, -, -⟩ := mutate_unauthorised hal hna hm
        exact ⟨g₁, by simpa using getElem?_set_of_some (i := i') (a := g₁) hi, h1⟩
    | rollback i' n =>
      simp only [Op.mutator, Option.some.injEq] at ht; subst ht
      cases hm : rollback env st.calls g n with
      | raised k => rw [step_rollback_raised hi hm]; exact ⟨g, hi, rfl⟩
      | done g₁ b k =>
        rw [step_rollback_done hi hm]
        obtain ⟨h1, -, -, -⟩ := rollback_unauthorised hal hna hm
        exact ⟨g₁, by simpa using getElem?_set_of_some (i := i') (a := g₁) hi, h1⟩
    | setExpr _ _ _ => simp [Op.mutator] at ht
    | assign _ _ => simp [Op.mutator] at ht
    | new _ _ _ _ => simp [Op.mutator] at ht
    | replicate _ _ _ => simp [Op.mutator] at ht
    | express _ _ => simp [Op.mutator] at ht
    | getValue _ _ => simp [Op.mutator] at ht
    | validate _ => simp [Op.mutator] at ht
    | listGenes _ => simp [Op.mutator] at ht
    | diff _ _ => simp [Op.mutator] at ht
    | stats _ => simp [Op.mutator] at ht
  · exact ⟨g', hg', (hsame ht).1⟩

/-- Whatever is assigned to the gate attributes in between: if at every moment `add_gene` / `mutate` /
    `rollback_mutation` is called on genome `i` its settings authorise nothing, its gene table never changes. -/
theorem run_unauthorised {env : Env ν} (ops : List (Op ν)) : ∀ {st : Store ν} {i : Nat} {g : Genome ν},
    st.genomes[i]? = some g → CallsUnder env (Unauth env) i st ops → ReAdds env i st ops →
    ∃ g', (run env st ops).genomes[i]? = some g' ∧ g'.genes = g.genes := by
  induction ops with
  | nil => intro st i g hi _ _; exact ⟨g, hi, rfl⟩
  | cons op rest ih =>
    intro st i g hi hcu hre
    obtain ⟨g₁, h₁, hg⟩ := step_unauthorised (op := op) hi (fun hm => hcu.1 g hm hi) (fun x hx => hre.1 x g hx hi)
    obtain ⟨g₂, h₂, hg₂⟩ := ih h₁ hcu.2 hre.2
    exact ⟨g₂, h₂, hg₂.trans hg⟩

/-! ### well-formedness: gene names are distinct (a dict) -/

def WFG (g : Genome ν) : Prop := (g.genes.map (·.name)).Nodup

def WF (st : Store ν) : Prop := ∀ g ∈ st.genomes, WFG g

theorem addGene_wf {g : Genome ν} (x : Gene ν) (h : WFG g) : WFG (addGene g x).1 := by
  unfold addGene
  split
  · split
    · exact nodup_names_putGene _ _ h
    · exact h
  · exact nodup_names_putGene _ _ h

theorem setExpr_wf {g : Genome ν} (n : Nat) (l : Level) (h : WFG g) : WFG (setExpr g n l).1 := by
  unfold WFG; rw [(setExpr_genes g n l).1]; exact h

theorem mutate_wf {env : Env ν} {k : Nat} {g : Genome ν} {n : Nat} {v : ν} {r : Reason}
    {g' : Genome ν} {b : Bool} {k' : Nat} (h : mutate env k g n v r = .done g' b k') (hw : WFG g) : WFG g' := by
  unfold WFG; rw [(mutate_done_spec h).1]; exact hw

theorem rollback_names {env : Env ν} {k : Nat} {g : Genome ν} {n : Nat}
    {g' : Genome ν} {b : Bool} {k' : Nat} (h : rollback env k g n = .done g' b k') :
    g'.genes.map (·.name) = g.genes.map (·.name) := by
  unfold rollback at h
  split at h
  · cases h; rfl
  · exact (mutate_done_spec h).1

theorem mutateList_names {env : Env ν} {d : Nat} (muts : List (Nat × ν)) :
    ∀ {k : Nat} {g g' : Genome ν} {k' d' : Nat}, mutateList env d k g muts = .ok g' k' d' →
      g'.genes.map (·.name) = g.genes.map (·.name) := by
  induction muts with
  | nil => intro k g g' k' d' h; simp [mutateList] at h; rw [← h.1]
  | cons p rest ih =>
    intro k g g' k' d' h
    unfold mutateList at h
    split at h
    · rename_i g₁ b k₁ hm
      rw [ih h, (mutate_done_spec hm).1]
    · cases h

theorem randomPass_names {env : Env ν} (names : List Nat) :
    ∀ {k d : Nat} {g g' : Genome ν} {k' d' : Nat}, randomPass env k d g names = .ok g' k' d' →
      g'.genes.map (·.name) = g.genes.map (·.name) := by
  induction names with
  | nil => intro k d g g' k' d' h; simp [randomPass] at h; rw [← h.1]
  | cons n rest ih =>
    intro k d g g' k' d' h
    unfold randomPass at h
    split at h
    · exact ih h
    · split at h
      · exact ih h
      · split at h
        · rename_i hm
          rw [ih h, (mutate_done_spec hm).1]
        · cases h

/-- adding genes with pairwise distinct, fresh names appends them in order (either `allow` setting) -/
theorem addAll_fresh (xs : List (Gene ν)) : ∀ (g : Genome ν), ((g.genes ++ xs).map (·.name)).Nodup →
    (addAll g xs).genes = g.genes ++ xs ∧ (addAll g xs).log = g.log ∧ (addAll g xs).allow = g.allow ∧
    (addAll g xs).cb = g.cb ∧ (addAll g xs).rate = g.rate ∧ (addAll g xs).generation = g.generation ∧
    (addAll g xs).parentHash = g.parentHash := by
  induction xs with
  | nil => intro g _; simp [addAll]
  | cons x rest ih =>
    intro g hnd
    have hfresh : x.name ∉ g.genes.map (·.name) := by
      simp only [List.map_append, List.map_cons] at hnd
      have := (List.nodup_append.mp hnd).2.2
      intro hm
      exact this _ hm _ (List.mem_cons_self) rfl
    have hadd : (addGene g x).1 = { g with genes := g.genes ++ [x], expr := putLevel g.expr x.name x.defExpr } := by
      unfold addGene
      have : findGene g.genes x.name = none := findGene_none_iff.mpr hfresh
      simp [this, putGene_of_not_mem _ _ hfresh]
    unfold addAll
    rw [hadd]
    have := ih { g with genes := g.genes ++ [x], expr := putLevel g.expr x.name x.defExpr }
      (by simpa [List.append_assoc] using hnd)
    simpa [List.append_assoc] using this

theorem addAll_wf (xs : List (Gene ν)) : ∀ (g : Genome ν), WFG g → WFG (addAll g xs) := by
  induction xs with
  | nil => intro g h; exact h
  | cons x rest ih => intro g h; exact ih _ (addGene_wf x h)

theorem newGenome_wf (allow : Bool) (cb : Option Nat) (rate : Bool) (genes : List (Gene ν)) :
    WFG (newGenome allow cb rate genes) :=
  addAll_wf genes _ (by simp [WFG, emptyGenome])

/-- the child before mutations: the parent's genes (same order, same records), an empty log, the parent's gate -/
theorem childBase_spec {p : Genome ν} (inh : Bool) (hw : WFG p) :
    (childBase p inh).genes = p.genes ∧ (childBase p inh).log = [] ∧ (childBase p inh).allow = p.allow ∧
    (childBase p inh).cb = p.cb ∧ (childBase p inh).rate = p.rate ∧
    (childBase p inh).generation = p.generation + 1 ∧ (childBase p inh).parentHash = some (canon p) := by
  have hnd : (((emptyGenome p.allow p.cb p.rate : Genome ν).genes ++ p.genes).map (·.name)).Nodup := by
    simpa [emptyGenome, WFG] using hw
  obtain ⟨h1, h2, h3, h4, h5, -, -⟩ := addAll_fresh p.genes (emptyGenome p.allow p.cb p.rate) hnd
  refine ⟨?_, ?_, ?_, ?_, ?_, rfl, rfl⟩
  · simpa [childBase, newGenome, emptyGenome] using h1
  · simpa [childBase, newGenome, emptyGenome] using h2
  · simpa [childBase, newGenome, emptyGenome] using h3
  · simpa [childBase, newGenome, emptyGenome] using h4
  · simpa [childBase, newGenome, emptyGenome] using h5

theorem replicate_evolves {env : Env ν} {k d : Nat} {p c : Genome ν} {muts : List (Nat × ν)} {inh : Bool}
    {k' d' : Nat} (h : replicate env k d p muts inh = .ok c k' d') :
    Evolves env false (childBase p inh) c ∧ c.genes.map (·.name) = (childBase p inh).genes.map (·.name) := by
  unfold replicate at h
  split at h
  · cases h
  · rename_i c₁ k₁ d₁ hm
    split at h
    · exact ⟨(mutateList_evolves muts hm).trans (randomPass_evolves _ h),
        (randomPass_names _ h).trans (mutateList_names muts hm)⟩
    · cases h; exact ⟨mutateList_evolves muts hm, mutateList_names muts hm⟩

theorem replicate_wf {env : Env ν} {k d : Nat} {p c : Genome ν} {muts : List (Nat × ν)} {inh : Bool}
    {k' d' : Nat} (h : replicate env k d p muts inh = .ok c k' d') (hw : WFG p) : WFG c := by
  unfold WFG
  rw [(replicate_evolves h).2, (childBase_spec inh hw).1]; exact hw

theorem mem_set_cases {α : Type} {l : List α} {i : Nat} {a x : α} (h : x ∈ l.set i a) : x = a ∨ x ∈ l := by
  rcases List.mem_or_eq_of_mem_set h with h | h
  · exact Or.inr h
  · exact Or.inl h

theorem step_wf (env : Env ν) (st : Store ν) (op : Op ν) (hw : WF st) : WF (step env st op).1 := by
  cases op with
  | new allow cb rate genes =>
    intro g hg
    simp only [step, List.mem_append, List.mem_singleton] at hg
    rcases hg with hg | rfl
    · exact hw g hg
    · exact newGenome_wf _ _ _ _
  | add i x =>
    cases hi : st.genomes[i]? with
    | none => rw [step_noid rfl hi]; exact hw
    | some gi =>
      rw [step_add hi]
      intro g hg
      rcases mem_set_cases hg with rfl | hg
      · exact addGene_wf x (hw gi (List.mem_of_getElem? hi))
      · exact hw g hg
  | mutate i n v =>
    cases hi : st.genomes[i]? with
    | none => rw [step_noid rfl hi]; exact hw
    | some gi =>
      cases hm : mutate env st.calls gi n v .user with
      | raised k => rw [step_mutate_raised hi hm]; exact hw
      | done g' b k =>
        rw [step_mutate_done hi hm]
        intro g hg
        rcases mem_set_cases hg with rfl | hg
        · exact mutate_wf hm (hw gi (List.mem_of_getElem? hi))
        · exact hw g hg
  | rollback i n =>
    cases hi : st.genomes[i]? with
    | none => rw [step_noid rfl hi]; exact hw
    | some gi =>
      cases hm : rollback env st.calls gi n with
      | raised k => rw [step_rollback_raised hi hm]; exact hw
      | done g' b k =>
        rw [step_rollback_done hi hm]
        intro g hg
        rcases mem_set_cases hg with rfl | hg
        · have := hw gi (List.mem_of_getElem? hi)
          unfold WFG at this ⊢; rw [rollback_names hm]; exact this
        · exact hw g hg
  | setExpr i n l =>
    cases hi : st.genomes[i]? with
    | none => rw [step_noid rfl hi]; exact hw
    | some gi =>
      rw [step_setExpr hi]
      intro g hg
      rcases mem_set_cases hg with rfl | hg
      · exact setExpr_wf n l (hw gi (List.mem_of_getElem? hi))
      · exact hw g hg
  | replicate i muts inh =>
    cases hi : st.genomes[i]? with
    | none => rw [step_noid rfl hi]; exact hw
    | some gi =>
      cases hr : replicate env st.calls st.draws gi muts inh with
      | raised k d => rw [step_replicate_raised hi hr]; exact hw
      | ok c k d =>
        rw [step_replicate_ok hi hr]
        intro g hg
        simp only [List.mem_append, List.mem_singleton] at hg
        rcases hg with hg | rfl
        · exact hw g hg
        · exact replicate_wf hr (hw gi (List.mem_of_getElem? hi))
  | express i ctx =>
    cases hi : st.genomes[i]? with
    | none => rw [step_noid rfl hi]; exact hw
    | some gi => rw [step_express hi]; exact hw
  | getValue i n =>
    cases hi : st.genomes[i]? with
    | none => rw [step_noid rfl hi]; exact hw
    | some gi => rw [step_getValue hi]; exact hw
  | validate i => rw [step_query (Or.inl ⟨i, rfl⟩)]; exact hw
  | listGenes i => rw [step_query (Or.inr (Or.inl ⟨i, rfl⟩))]; exact hw
  | diff i j => rw [step_query (Or.inr (Or.inr ⟨i, j, rfl⟩))]; exact hw
  | stats i => rw [step_stats_store]; exact hw
  | assign i a =>
    cases hi : st.genomes[i]? with
    | none => rw [step_noid rfl hi]; exact hw
    | some gi =>
      rw [step_assign hi]
      intro g hg
      rcases mem_set_cases hg with rfl | hg
      · have := hw gi (List.mem_of_getElem? hi)
        unfold WFG at this ⊢; rw [(assign_same gi a).1]; exact this
      · exact hw g hg

theorem run_wf (env : Env ν) (ops : List (Op ν)) : ∀ (st : Store ν), WF st → WF (run env st ops) := by
  induction ops with
  | nil => intro st h; exact h
  | cons op rest ih => intro st h; exact ih _ (step_wf env st op h)

theorem wf_empty : WF (Store.empty : Store ν) := by intro g hg; cases hg

/-! ### what `replicate` logs in the child -/

theorem mutateList_logs {env : Env ν} {d : Nat} (muts : List (Nat × ν)) :
    ∀ {k : Nat} {g g' : Genome ν} {k' d' : Nat}, mutateList env d k g muts = .ok g' k' d' →
      ∃ s, g'.log = g.log ++ s ∧ (∀ m ∈ s, m.reason = .replication ∧ (m.gene, m.new) ∈ muts) ∧
        (∀ p ∈ muts, p.1 ∈ g.genes.map (·.name) → ∃ m ∈ s, m.gene = p.1 ∧ m.new = p.2 ∧ m.reason = .replication) := by
  induction muts with
  | nil => intro k g g' k' d' h; simp [mutateList] at h; rw [← h.1]; exact ⟨[], by simp, by simp, by simp⟩
  | cons p rest ih =>
    intro k g g' k' d' h
    unfold mutateList at h
    split at h
    · rename_i g₁ b k₁ hm
      obtain ⟨s₂, hl₂, hr₂, he₂⟩ := ih h
      obtain ⟨hnames, -, hcase⟩ := mutate_done_spec hm
      rcases hcase with ⟨hnone, rfl, -⟩ | ⟨og, hf, hlog, -⟩
      · refine ⟨s₂, hl₂, ?_, ?_⟩
        · intro m hm'; exact ⟨(hr₂ m hm').1, List.mem_cons_of_mem _ (hr₂ m hm').2⟩
        · intro q hq hqn
          rcases List.mem_cons.mp hq with rfl | hq
          · exact absurd hqn (findGene_none_iff.mp hnone)
          · exact he₂ q hq hqn
      · refine ⟨⟨p.1, og.value, p.2, .replication, b⟩ :: s₂, by rw [hl₂, hlog]; simp, ?_, ?_⟩
        · intro m hm'
          rcases List.mem_cons.mp hm' with rfl | hm'
          · exact ⟨rfl, by simp⟩
          · exact ⟨(hr₂ m hm').1, List.mem_cons_of_mem _ (hr₂ m hm').2⟩
        · intro q hq hqn
          rcases List.mem_cons.mp hq with rfl | hq
          · exact ⟨_, List.mem_cons_self, rfl, rfl, rfl⟩
          · obtain ⟨m, hm', h'⟩ := he₂ q hq (hnames ▸ hqn)
            exact ⟨m, List.mem_cons_of_mem _ hm', h'⟩
    · cases h

theorem randomPass_logs {env : Env ν} (names : List Nat) :
    ∀ {k d : Nat} {g g' : Genome ν} {k' d' : Nat}, randomPass env k d g names = .ok g' k' d' →
      ∃ s, g'.log = g.log ++ s ∧ ∀ m ∈ s, m.reason = .random := by
  induction names with
  | nil => intro k d g g' k' d' h; simp [randomPass] at h; rw [← h.1]; exact ⟨[], by simp, by simp⟩
  | cons n rest ih =>
    intro k d g g' k' d' h
    unfold randomPass at h
    split at h
    · exact ih h
    · split at h
      · exact ih h
      · split at h
        · rename_i g₁ b k₁ hm
          obtain ⟨s₂, hl₂, hr₂⟩ := ih h
          obtain ⟨-, -, hcase⟩ := mutate_done_spec hm
          rcases hcase with ⟨-, rfl, -⟩ | ⟨og, hf, hlog, -⟩
          · exact ⟨s₂, hl₂, hr₂⟩
          · refine ⟨_ :: s₂, by rw [hl₂, hlog, List.append_assoc]; rfl, ?_⟩
            intro m hm'
            rcases List.mem_cons.mp hm' with rfl | hm'
            · rfl
            · exact hr₂ m hm'
        · cases h

/-- the child's log: one entry per requested mutation that names one of its genes (reason
    `replication_mutation`), then the random pass's entries if the rate is on — nothing else -/
theorem replicate_logs {env : Env ν} {k d : Nat} {p c : Genome ν} {muts : List (Nat × ν)} {inh : Bool}
    {k' d' : Nat} (hw : WFG p) (h : replicate env k d p muts inh = .ok c k' d') :
    (∀ m ∈ c.log, (m.reason = .replication ∧ (m.gene, m.new) ∈ muts) ∨ (m.reason = .random ∧ p.rate = true)) ∧
    (∀ q ∈ muts, q.1 ∈ p.genes.map (·.name) →
      ∃ m ∈ c.log, m.gene = q.1 ∧ m.new = q.2 ∧ m.reason = .replication) := by
  obtain ⟨hbg, hbl, -⟩ := childBase_spec inh hw
  unfold replicate at h
  split at h
  · cases h
  · rename_i c₁ k₁ d₁ hm
    obtain ⟨s₁, hl₁, hr₁, he₁⟩ := mutateList_logs muts hm
    rw [hbl, List.nil_append] at hl₁
    rw [hbg] at he₁
    split at h
    · rename_i hrate
      obtain ⟨s₂, hl₂, hr₂⟩ := randomPass_logs _ h
      rw [hl₂, hl₁]
      constructor
      · intro m hm'
        rcases List.mem_append.mp hm' with hm' | hm'
        · exact Or.inl (hr₁ m hm')
        · exact Or.inr ⟨hr₂ m hm', hrate⟩
      · intro q hq hqn
        obtain ⟨m, hm', h'⟩ := he₁ q hq hqn
        exact ⟨m, List.mem_append_left _ hm', h'⟩
    · cases h
      rw [hl₁]
      exact ⟨fun m hm' => Or.inl (hr₁ m hm'), he₁⟩

/-! ### express -/

theorem expressed_iff (g : Genome ν) (ctx : List Nat) (x : Gene ν) :
    expressed g ctx x = true ↔
      findLevel g.expr x.name ≠ some .silenced ∧ x.gtype ≠ .dormant ∧ (x.gtype = .conditional → x.name ∈ ctx) := by
  unfold expressed
  by_cases h1 : findLevel g.expr x.name = some .silenced
  · simp [h1]
  · by_cases h2 : x.gtype = .conditional
    · by_cases h3 : x.name ∈ ctx <;> simp [h1, h2, h3]
    · by_cases h4 : x.gtype = .dormant <;> simp [h1, h2, h4]

theorem mem_express_iff {g : Genome ν} (hw : WFG g) (ctx : List Nat) (n : Nat) (v : ν) :
    (n, v) ∈ express g ctx ↔ ∃ x, findGene g.genes n = some x ∧ x.value = v ∧ expressed g ctx x = true := by
  unfold express
  simp only [List.mem_map, List.mem_filter, Prod.mk.injEq]
  constructor
  · rintro ⟨x, ⟨hx, he⟩, hn, hv⟩
    exact ⟨x, hn ▸ findGene_of_mem_nodup hw hx, hv, he⟩
  · rintro ⟨x, hf, hv, he⟩
    exact ⟨x, ⟨findGene_some_mem hf, he⟩, findGene_some_name hf, hv⟩

theorem express_keys_nodup {g : Genome ν} (hw : WFG g) (ctx : List Nat) : ((express g ctx).map (·.1)).Nodup := by
  unfold express
  rw [List.map_map]
  have : ((g.genes.filter (expressed g ctx)).map (·.name)).Nodup :=
    List.Nodup.sublist (List.Sublist.map _ List.filter_sublist) hw
  exact this

/-! ### replication in an unauthorised lineage -/

theorem mutateList_unauthorised {env : Env ν} {d : Nat} (muts : List (Nat × ν)) :
    ∀ {k : Nat} {g g' : Genome ν} {k' d' : Nat}, g.allow = false → NeverApproves env g →
      mutateList env d k g muts = .ok g' k' d' → g'.genes = g.genes ∧ g'.allow = g.allow ∧ g'.cb = g.cb := by
  induction muts with
  | nil => intro k g g' k' d' _ _ h; simp [mutateList] at h; rw [← h.1]; exact ⟨rfl, rfl, rfl⟩
  | cons p rest ih =>
    intro k g g' k' d' hal hna h
    unfold mutateList at h
    split at h
    · rename_i g₁ b k₁ hm
      obtain ⟨h1, h2, h3, -⟩ := mutate_unauthorised hal hna hm
      have hna₁ : NeverApproves env g₁ := by intro c hc; exact hna c (h3 ▸ hc)
      obtain ⟨e1, e2, e3⟩ := ih (h2.trans hal) hna₁ h
      exact ⟨e1.trans h1, e2.trans h2, e3.trans h3⟩
    · cases h

theorem randomPass_unauthorised {env : Env ν} (names : List Nat) :
    ∀ {k d : Nat} {g g' : Genome ν} {k' d' : Nat}, g.allow = false → NeverApproves env g →
      randomPass env k d g names = .ok g' k' d' → g'.genes = g.genes ∧ g'.allow = g.allow ∧ g'.cb = g.cb := by
  induction names with
  | nil => intro k d g g' k' d' _ _ h; simp [randomPass] at h; rw [← h.1]; exact ⟨rfl, rfl, rfl⟩
  | cons n rest ih =>
    intro k d g g' k' d' hal hna h
    unfold randomPass at h
    split at h
    · exact ih hal hna h
    · split at h
      · exact ih hal hna h
      · split at h
        · rename_i g₁ b k₁ hm
          obtain ⟨h1, h2, h3, -⟩ := mutate_unauthorised hal hna hm
          have hna₁ : NeverApproves env g₁ := by intro c hc; exact hna c (h3 ▸ hc)
          obtain ⟨e1, e2, e3⟩ := ih (h2.trans hal) hna₁ h
          exact ⟨e1.trans h1, e2.trans h2, e3.trans h3⟩
        · cases h

theorem replicate_unauthorised {env : Env ν} {k d : Nat} {p c : Genome ν} {muts : List (Nat × ν)} {inh : Bool}
    {k' d' : Nat} (hw : WFG p) (hal : p.allow = false) (hna : NeverApproves env p)
    (h : replicate env k d p muts inh = .ok c k' d') : c.genes = p.genes ∧ c.allow = false ∧ c.cb = p.cb := by
  obtain ⟨hbg, -, hba, hbc, -⟩ := childBase_spec inh hw
  have hal₀ : (childBase p inh).allow = false := hba.trans hal
  have hna₀ : NeverApproves env (childBase p inh) := by intro c hc; exact hna c (hbc ▸ hc)
  unfold replicate at h
  split at h
  · cases h
  · rename_i c₁ k₁ d₁ hm
    obtain ⟨h1, h2, h3⟩ := mutateList_unauthorised muts hal₀ hna₀ hm
    split at h
    · have hna₁ : NeverApproves env c₁ := by intro c hc; exact hna₀ c (h3 ▸ hc)
      obtain ⟨e1, e2, e3⟩ := randomPass_unauthorised _ (h2.trans hal₀) hna₁ h
      exact ⟨(e1.trans h1).trans hbg, (e2.trans h2).trans hal₀, (e3.trans h3).trans hbc⟩
    · cases h; exact ⟨h1.trans hbg, h2.trans hal₀, h3.trans hbc⟩

/-! ### the canonical list identifies the name → value map -/

theorem insertKV_perm (p : Nat × ν) (l : List (Nat × ν)) : (insertKV p l).Perm (p :: l) := by
  induction l with
  | nil => exact List.Perm.refl _
  | cons q t ih =>
    unfold insertKV
    split
    · exact List.Perm.refl _
    · exact (List.Perm.cons q ih).trans (List.Perm.swap p q t)

theorem sortKV_perm (l : List (Nat × ν)) : (sortKV l).Perm l := by
  induction l with
  | nil => exact List.Perm.refl _
  | cons p t ih => exact (insertKV_perm p (sortKV t)).trans (List.Perm.cons p ih)

theorem insertKV_sorted (p : Nat × ν) (l : List (Nat × ν)) (h : l.Pairwise (fun a b => a.1 ≤ b.1)) :
    (insertKV p l).Pairwise (fun a b => a.1 ≤ b.1) := by
  induction l with
  | nil => simp [insertKV]
  | cons q t ih =>
    unfold insertKV
    rw [List.pairwise_cons] at h
    split
    · rename_i hle
      refine List.pairwise_cons.mpr ⟨?_, List.pairwise_cons.mpr h⟩
      intro b hb
      rcases List.mem_cons.mp hb with rfl | hb
      · exact hle
      · exact Nat.le_trans hle (h.1 b hb)
    · rename_i hnle
      refine List.pairwise_cons.mpr ⟨?_, ih h.2⟩
      intro b hb
      rcases List.mem_cons.mp ((insertKV_perm p t).subset hb) with rfl | hb
      · exact Nat.le_of_lt (Nat.lt_of_not_le hnle)
      · exact h.1 b hb

theorem sortKV_sorted (l : List (Nat × ν)) : (sortKV l).Pairwise (fun a b => a.1 ≤ b.1) := by
  induction l with
  | nil => simp [sortKV]
  | cons p t ih => exact insertKV_sorted p _ ih

theorem table_keys (g : Genome ν) : (table g).map (·.1) = g.genes.map (·.name) := by
  simp [table, List.map_map, Function.comp_def]

theorem mem_table_iff {g : Genome ν} (hw : WFG g) (n : Nat) (v : ν) : (n, v) ∈ table g ↔ valueOf g n = some v := by
  unfold table valueOf
  simp only [List.mem_map, Prod.mk.injEq, Option.map_eq_some_iff]
  constructor
  · rintro ⟨x, hx, hn, hv⟩
    exact ⟨x, hn ▸ findGene_of_mem_nodup hw hx, hv⟩
  · rintro ⟨x, hf, hv⟩
    exact ⟨x, findGene_some_mem hf, findGene_some_name hf, hv⟩

theorem eq_of_key_eq {l : List (Nat × ν)} (hnd : (l.map (·.1)).Nodup) {a b : Nat × ν} (ha : a ∈ l) (hb : b ∈ l)
    (hk : a.1 = b.1) : a = b := by
  induction l with
  | nil => cases ha
  | cons c t ih =>
    simp only [List.map_cons, List.nodup_cons] at hnd
    rcases List.mem_cons.mp ha with ha' | ha' <;> rcases List.mem_cons.mp hb with hb' | hb'
    · rw [ha', hb']
    · exact absurd (show c.1 ∈ t.map (·.1) from List.mem_map.mpr ⟨b, hb', by rw [← hk, ha']⟩) hnd.1
    · exact absurd (show c.1 ∈ t.map (·.1) from List.mem_map.mpr ⟨a, ha', by rw [hk, hb']⟩) hnd.1
    · exact ih hnd.2 ha' hb'

theorem nodup_of_nodup_keys {l : List (Nat × ν)} (hnd : (l.map (·.1)).Nodup) : l.Nodup := by
  induction l with
  | nil => simp
  | cons c t ih =>
    simp only [List.map_cons, List.nodup_cons] at hnd ⊢
    exact ⟨fun h => hnd.1 (List.mem_map.mpr ⟨c, h, rfl⟩), ih hnd.2⟩

/-- Two genomes have the same canonical list iff they store the same value (or none) under every name —
    whatever the insertion order of their gene tables. -/
theorem canon_eq_iff {g₁ g₂ : Genome ν} (hw₁ : WFG g₁) (hw₂ : WFG g₂) :
    canon g₁ = canon g₂ ↔ ∀ n, valueOf g₁ n = valueOf g₂ n := by
  have hk₁ : ((table g₁).map (·.1)).Nodup := by rw [table_keys]; exact hw₁
  have hk₂ : ((table g₂).map (·.1)).Nodup := by rw [table_keys]; exact hw₂
  constructor
  · intro h n
    have hp : (table g₁).Perm (table g₂) := by
      have := (sortKV_perm (table g₁)).symm.trans ((show sortKV (table g₁) = sortKV (table g₂) from h) ▸ sortKV_perm (table g₂))
      exact this
    cases h₁ : valueOf g₁ n with
    | some v => exact ((mem_table_iff hw₂ n v).mp (hp.subset ((mem_table_iff hw₁ n v).mpr h₁))).symm
    | none =>
      cases h₂ : valueOf g₂ n with
      | none => rfl
      | some v =>
        have := (mem_table_iff hw₁ n v).mp (hp.symm.subset ((mem_table_iff hw₂ n v).mpr h₂))
        rw [h₁] at this; cases this
  · intro h
    have hp : (table g₁).Perm (table g₂) := by
      rw [List.perm_ext_iff_of_nodup (nodup_of_nodup_keys hk₁) (nodup_of_nodup_keys hk₂)]
      rintro ⟨n, v⟩
      rw [mem_table_iff hw₁, mem_table_iff hw₂, h n]
    have hpc : (canon g₁).Perm (canon g₂) := (sortKV_perm _).trans (hp.trans (sortKV_perm _).symm)
    have hkc : ((canon g₁).map (·.1)).Nodup := ((sortKV_perm (table g₁)).map _).nodup_iff.mpr hk₁
    refine List.Perm.eq_of_pairwise (le := fun a b => a.1 ≤ b.1) ?_ (sortKV_sorted _) (sortKV_sorted _) hpc
    intro a b ha hb hab hba
    exact eq_of_key_eq hkc ha (hpc.symm.subset hb) (Nat.le_antisymm hab hba)


/-! ### every gene has an expression state (the two dicts have the same keys, in the same order) -/

def KeysEq (g : Genome ν) : Prop := g.expr.map (·.1) = g.genes.map (·.name)

theorem keys_putLevel (es : List (Nat × Level)) (n : Nat) (l : Level) :
    (putLevel es n l).map (·.1) = if n ∈ es.map (·.1) then es.map (·.1) else es.map (·.1) ++ [n] := by
  induction es with
  | nil => simp [putLevel]
  | cons a t ih =>
    unfold putLevel
    by_cases h : a.1 = n
    · simp [h]
    · have h' : ¬ n = a.1 := fun e => h e.symm
      simp only [h, if_false, List.map_cons, ih, List.mem_cons, h', false_or]
      split <;> simp

theorem names_putGene (gs : List (Gene ν)) (x : Gene ν) :
    (putGene gs x).map (·.name) = if x.name ∈ gs.map (·.name) then gs.map (·.name) else gs.map (·.name) ++ [x.name] := by
  by_cases h : x.name ∈ gs.map (·.name)
  · rw [if_pos h, names_putGene_of_mem gs x h]
  · rw [if_neg h, putGene_of_not_mem gs x h]; simp

theorem addGene_keysEq {g : Genome ν} (x : Gene ν) (h : KeysEq g) : KeysEq (addGene g x).1 := by
  rcases addGene_cases g x with ⟨h1, h2, -⟩ | ⟨h1, h2⟩
  · unfold KeysEq at h ⊢; rw [h1, h2]; exact h
  · unfold KeysEq at h ⊢
    rw [h1, h2]
    simp only [keys_putLevel, names_putGene, h]

theorem setExpr_keysEq {g : Genome ν} (n : Nat) (l : Level) (h : KeysEq g) : KeysEq (setExpr g n l).1 := by
  unfold setExpr
  split
  · exact h
  · rename_i x hf
    unfold KeysEq at h ⊢
    have hm : n ∈ g.genes.map (·.name) := findGene_isSome_iff.mp (by rw [hf]; rfl)
    simp only [keys_putLevel, h, hm, if_true]

theorem mutate_keysEq {env : Env ν} {k : Nat} {g : Genome ν} {n : Nat} {v : ν} {r : Reason}
    {g' : Genome ν} {b : Bool} {k' : Nat} (hm : mutate env k g n v r = .done g' b k') (h : KeysEq g) : KeysEq g' := by
  obtain ⟨h1, h2, -⟩ := mutate_done_spec hm
  unfold KeysEq at h ⊢; rw [h1, h2]; exact h

theorem rollback_keysEq {env : Env ν} {k : Nat} {g : Genome ν} {n : Nat}
    {g' : Genome ν} {b : Bool} {k' : Nat} (hm : rollback env k g n = .done g' b k') (h : KeysEq g) : KeysEq g' := by
  unfold rollback at hm
  split at hm
  · cases hm; exact h
  · exact mutate_keysEq hm h

theorem mutateList_keysEq {env : Env ν} {d : Nat} (muts : List (Nat × ν)) :
    ∀ {k : Nat} {g g' : Genome ν} {k' d' : Nat}, mutateList env d k g muts = .ok g' k' d' → KeysEq g → KeysEq g' := by
  induction muts with
  | nil => intro k g g' k' d' h hk; simp [mutateList] at h; rw [← h.1]; exact hk
  | cons p rest ih =>
    intro k g g' k' d' h hk
    unfold mutateList at h
    split at h
    · rename_i g₁ b k₁ hm
      exact ih h (mutate_keysEq hm hk)
    · cases h

theorem randomPass_keysEq {env : Env ν} (names : List Nat) :
    ∀ {k d : Nat} {g g' : Genome ν} {k' d' : Nat}, randomPass env k d g names = .ok g' k' d' → KeysEq g → KeysEq g' := by
  induction names with
  | nil => intro k d g g' k' d' h hk; simp [randomPass] at h; rw [← h.1]; exact hk
  | cons n rest ih =>
    intro k d g g' k' d' h hk
    unfold randomPass at h
    split at h
    · exact ih h hk
    · split at h
      · exact ih h hk
      · split at h
        · rename_i hm
          exact ih h (mutate_keysEq hm hk)
        · cases h

theorem addAll_keysEq (xs : List (Gene ν)) : ∀ (g : Genome ν), KeysEq g → KeysEq (addAll g xs) := by
  induction xs with
  | nil => intro g h; exact h
  | cons x rest ih => intro g h; exact ih _ (addGene_keysEq x h)

theorem keys_putLevels (src : List (Nat × Level)) : ∀ (es : List (Nat × Level)),
    (∀ p ∈ src, p.1 ∈ es.map (·.1)) → (putLevels es src).map (·.1) = es.map (·.1) := by
  induction src with
  | nil => intro es _; rfl
  | cons p rest ih =>
    intro es h
    unfold putLevels
    have hp : p.1 ∈ es.map (·.1) := h p List.mem_cons_self
    have hk : (putLevel es p.1 p.2).map (·.1) = es.map (·.1) := by rw [keys_putLevel, if_pos hp]
    rw [ih _ (by intro q hq; rw [hk]; exact h q (List.mem_cons_of_mem _ hq)), hk]

theorem childBase_keysEq {p : Genome ν} (inh : Bool) (hk : KeysEq p) : KeysEq (childBase p inh) := by
  have h0 : KeysEq (newGenome p.allow p.cb p.rate p.genes) :=
    addAll_keysEq _ _ (by simp [KeysEq, emptyGenome])
  -- the child's gene names are the distinct names of the parent's list; all of the parent's expression keys occur
  unfold KeysEq at h0 hk ⊢
  simp only [childBase]
  cases inh with
  | false => simpa using h0
  | true =>
    simp only [if_true]
    rw [keys_putLevels _ _ ?_]
    · exact h0
    · intro q hq
      rw [h0]
      have : q.1 ∈ p.genes.map (·.name) := hk ▸ List.mem_map.mpr ⟨q, hq, rfl⟩
      -- every name of the list handed to the constructor ends up in the new genome
      have hall : ∀ (xs : List (Gene ν)) (g : Genome ν) n, (n ∈ g.genes.map (·.name) ∨ n ∈ xs.map (·.name)) →
          n ∈ (addAll g xs).genes.map (·.name) := by
        intro xs
        induction xs with
        | nil => intro g n h; simpa [addAll] using h
        | cons x rest ih =>
          intro g n h
          unfold addAll
          apply ih
          rcases h with h | h
          · left
            rcases addGene_cases g x with ⟨h1, -, -⟩ | ⟨h1, -⟩
            · rw [h1]; exact h
            · rw [h1]; simp only [names_putGene]; split
              · exact h
              · exact List.mem_append_left _ h
          · rcases List.mem_cons.mp h with h | h
            · left
              rcases addGene_cases g x with ⟨h1, -, this⟩ | ⟨h1, -⟩
              · rw [h1, h]; exact findGene_isSome_iff.mp this
              · rw [h1]; simp only [names_putGene]; split
                · rename_i hm; rw [h]; exact hm
                · rw [h]; simp
            · right; exact h
      exact hall p.genes _ q.1 (Or.inr this)

theorem replicate_keysEq {env : Env ν} {k d : Nat} {p c : Genome ν} {muts : List (Nat × ν)} {inh : Bool}
    {k' d' : Nat} (h : replicate env k d p muts inh = .ok c k' d') (hk : KeysEq p) : KeysEq c := by
  unfold replicate at h
  split at h
  · cases h
  · rename_i c₁ k₁ d₁ hm
    have h1 := mutateList_keysEq muts hm (childBase_keysEq inh hk)
    split at h
    · exact randomPass_keysEq _ h h1
    · cases h; exact h1

def KeysEqS (st : Store ν) : Prop := ∀ g ∈ st.genomes, KeysEq g

theorem step_keysEq (env : Env ν) (st : Store ν) (op : Op ν) (hw : KeysEqS st) : KeysEqS (step env st op).1 := by
  cases op with
  | new allow cb rate genes =>
    intro g hg
    simp only [step, List.mem_append, List.mem_singleton] at hg
    rcases hg with hg | rfl
    · exact hw g hg
    · exact addAll_keysEq _ _ (by simp [KeysEq, emptyGenome])
  | add i x =>
    cases hi : st.genomes[i]? with
    | none => rw [step_noid rfl hi]; exact hw
    | some gi =>
      rw [step_add hi]
      intro g hg
      rcases mem_set_cases hg with rfl | hg
      · exact addGene_keysEq x (hw gi (List.mem_of_getElem? hi))
      · exact hw g hg
  | mutate i n v =>
    cases hi : st.genomes[i]? with
    | none => rw [step_noid rfl hi]; exact hw
    | some gi =>
      cases hm : mutate env st.calls gi n v .user with
      | raised k => rw [step_mutate_raised hi hm]; exact hw
      | done g' b k =>
        rw [step_mutate_done hi hm]
        intro g hg
        rcases mem_set_cases hg with rfl | hg
        · exact mutate_keysEq hm (hw gi (List.mem_of_getElem? hi))
        · exact hw g hg
  | rollback i n =>
    cases hi : st.genomes[i]? with
    | none => rw [step_noid rfl hi]; exact hw
    | some gi =>
      cases hm : rollback env st.calls gi n with
      | raised k => rw [step_rollback_raised hi hm]; exact hw
      | done g' b k =>
        rw [step_rollback_done hi hm]
        intro g hg
        rcases mem_set_cases hg with rfl | hg
        · exact rollback_keysEq hm (hw gi (List.mem_of_getElem? hi))
        · exact hw g hg
  | setExpr i n l =>
    cases hi : st.genomes[i]? with
    | none => rw [step_noid rfl hi]; exact hw
    | some gi =>
      rw [step_setExpr hi]
      intro g hg
      rcases mem_set_cases hg with rfl | hg
      · exact setExpr_keysEq n l (hw gi (List.mem_of_getElem? hi))
      · exact hw g hg
  | replicate i muts inh =>
    cases hi : st.genomes[i]? with
    | none => rw [step_noid rfl hi]; exact hw
    | some gi =>
      cases hr : replicate env st.calls st.draws gi muts inh with
      | raised k d => rw [step_replicate_raised hi hr]; exact hw
      | ok c k d =>
        rw [step_replicate_ok hi hr]
        intro g hg
        simp only [List.mem_append, List.mem_singleton] at hg
        rcases hg with hg | rfl
        · exact hw g hg
        · exact replicate_keysEq hr (hw gi (List.mem_of_getElem? hi))
  | express i ctx =>
    cases hi : st.genomes[i]? with
    | none => rw [step_noid rfl hi]; exact hw
    | some gi => rw [step_express hi]; exact hw
  | getValue i n =>
    cases hi : st.genomes[i]? with
    | none => rw [step_noid rfl hi]; exact hw
    | some gi => rw [step_getValue hi]; exact hw
  | validate i => rw [step_query (Or.inl ⟨i, rfl⟩)]; exact hw
  | listGenes i => rw [step_query (Or.inr (Or.inl ⟨i, rfl⟩))]; exact hw
  | diff i j => rw [step_query (Or.inr (Or.inr ⟨i, j, rfl⟩))]; exact hw
  | stats i => rw [step_stats_store]; exact hw
  | assign i a =>
    cases hi : st.genomes[i]? with
    | none => rw [step_noid rfl hi]; exact hw
    | some gi =>
      rw [step_assign hi]
      intro g hg
      rcases mem_set_cases hg with rfl | hg
      · have := hw gi (List.mem_of_getElem? hi)
        unfold KeysEq at this ⊢; rw [(assign_same gi a).1, (assign_same gi a).2.1]; exact this
      · exact hw g hg

theorem run_keysEq (env : Env ν) (ops : List (Op ν)) : ∀ (st : Store ν), KeysEqS st → KeysEqS (run env st ops) := by
  induction ops with
  | nil => intro st h; exact h
  | cons op rest ih => intro st h; exact ih _ (step_keysEq env st op h)

theorem findLevel_isSome_iff {es : List (Nat × Level)} {n : Nat} : (findLevel es n).isSome ↔ n ∈ es.map (·.1) := by
  induction es with
  | nil => simp [findLevel]
  | cons a t ih =>
    unfold findLevel at ih ⊢
    by_cases h : a.1 = n
    · simp [h]
    · have h' : ¬ n = a.1 := fun e => h e.symm
      simp [h, h']

/-! ### vocabulary of the source translation -/

theorem putGeneAt_name (gs : List (Gene ν)) (x : Gene ν) : putGeneAt gs x.name x = putGene gs x := by
  induction gs with
  | nil => rfl
  | cons h t ih => simp [putGeneAt, putGene, ih]

theorem addAll_gate (xs : List (Gene ν)) : ∀ g : Genome ν,
    (addAll g xs).allow = g.allow ∧ (addAll g xs).cb = g.cb ∧ (addAll g xs).rate = g.rate := by
  induction xs with
  | nil => intro g; exact ⟨rfl, rfl, rfl⟩
  | cons x rest ih =>
    intro g
    obtain ⟨h1, h2, h3⟩ := ih (addGene g x).1
    have e : (addGene g x).1.allow = g.allow ∧ (addGene g x).1.cb = g.cb ∧ (addGene g x).1.rate = g.rate :=
      addGene_gate g x
    exact ⟨h1.trans e.1, h2.trans e.2.1, h3.trans e.2.2⟩

/-! ### the scenarios behind the evaluated gate table (Operon/Gen/GenomeTables.lean)

The harness runs exactly these scenarios on the real `Genome` class on every run (extract/eval_genome.py) and writes
what it observed into `Gen.gateTable`; `c20_gate_agrees_with_evaluated_source` states that the model computes the
same. -/

/-- a callback that always gives the same answer -/
def gateEnv (ans : Option Ans) : Env Nat :=
  { adv := fun _ _ _ _ _ _ => ans.getD .refuse, rnd := fun _ _ _ => none, veq := fun a b => a == b,
    isNone := fun _ => false }

/-- the call whose gate decision is observed: 0 `mutate(t, 7)`, 1 `rollback_mutation(t)`, 2 `add_gene(Gene(t, 9))` -/
def gateProbe : Nat → Op Nat
  | 0 => .mutate 0 0 7
  | 1 => .rollback 0 0
  | _ => .add 0 ⟨0, 9, .structural, false, .normal⟩

/-- how the genome got its settings: from the constructor, or ASSIGNED to the public attributes of a genome that was
    built open and mutated once (1 → 5) -/
def gateSetup (allow : Bool) (ans : Option Ans) (late : Bool) : List (Op Nat) :=
  if late then
    [.new true none false [⟨0, 1, .structural, false, .normal⟩], .mutate 0 0 5, .assign 0 (.allow allow),
     .assign 0 (.cb (ans.map fun _ => 0))]
  else [.new allow (ans.map fun _ => 0) false [⟨0, 1, .structural, false, .normal⟩]]

/-- (return value, `none` = raised; approved-flags of the log entries the call appended; stored value afterwards) -/
def gateScenario (op : Nat) (allow : Bool) (ans : Option Ans) (late : Bool) : Option Bool × List Bool × Nat :=
  let env := gateEnv ans
  let st := run env Store.empty (gateSetup allow ans late)
  let r := step env st (gateProbe op)
  let ret := match r.2 with
    | .ret b => some b
    | _ => none
  let n0 := (st.genomes[0]?.map (·.log.length)).getD 0
  (ret, (r.1.genomes[0]?.map fun g => (g.log.drop n0).map (·.approved)).getD [],
   (r.1.genomes[0]?.bind fun g => valueOf g 0).getD 0)

/-- how the parent of the evaluated `replicate` table is built: one gene (value 1, default level HIGH); settings from
    the constructor, or the opposite settings from the constructor and the wanted ones ASSIGNED afterwards; optionally
    the gene silenced -/
def replSetup (allow cb rate late silenced : Bool) : List (Op Nat) :=
  let mk (a c r : Bool) : Op Nat := .new a (if c then some 0 else none) r [⟨0, 1, .structural, false, .high⟩]
  (if late then
    [mk (!allow) (!cb) (!rate), .assign 0 (.allow allow), .assign 0 (.cb (if cb then some 0 else none)),
     .assign 0 (.rate rate)]
   else [mk allow cb rate]) ++ (if silenced then [.setExpr 0 0 .silenced] else [])

/-- the child `replicate()` returns in that scenario (callback refusing, random pass = identity mutation):
    (allow, callback is the parent's, rate, level of the gene, generation, parent hash = parent's canonical list,
    approved-flags of its log, parent untouched) -/
def replScenario (allow cb rate inherit late silenced : Bool) : Option ChildView :=
  let env : Env Nat := { gateEnv (some .refuse) with rnd := fun _ _ v => some v }
  let st := run env Store.empty (replSetup allow cb rate late silenced)
  let r := step env st (.replicate 0 [] inherit)
  match st.genomes[0]?, r.1.genomes[1]? with
  | some p, some c =>
    some ⟨c.allow, c.cb == p.cb, c.rate, findLevel c.expr 0, c.generation, c.parentHash == some (canon p),
          c.log.map (·.approved), r.1.genomes[0]? == some p⟩
  | _, _ => none

/-- `Genome(genes=[t=1 (LOW), u=3, t=2 (HIGH)], allow_mutations=allow)`: (value of t, level of t, number of genes, log) -/
def constructScenario (allow : Bool) : Nat × Option Level × Nat × Nat :=
  let g : Genome Nat := newGenome allow none false
    [⟨0, 1, .structural, false, .low⟩, ⟨1, 3, .structural, false, .normal⟩, ⟨0, 2, .structural, false, .high⟩]
  ((valueOf g 0).getD 0, findLevel g.expr 0, g.genes.length, g.log.length)

/-- `get_statistics()` of parent and child after the fixed history of the evaluated stats table (callback absent, or
    answering `ans` to everything): (total_genes, generation, mutations_count, approved_mutations, SILENCED states;
    child's generation, mutations_count, approved_mutations) -/
def statsScenario (allow : Bool) (ans : Option Ans) : List Nat :=
  let env := gateEnv ans
  let st := run env Store.empty
    [.new allow (ans.map fun _ => 0) false [⟨0, 1, .structural, false, .normal⟩, ⟨1, 3, .structural, true, .normal⟩],
     .mutate 0 0 7, .mutate 0 1 9, .rollback 0 0, .add 0 ⟨0, 5, .structural, false, .normal⟩, .rollback 0 0,
     .setExpr 0 1 .silenced, .replicate 0 [(0, 8)] true]
  match st.genomes[0]?, st.genomes[1]? with
  | some g, some c =>
    [(stats g).total, (stats g).generation, (stats g).mutations, (stats g).approved, (stats g).byExpr.headD 0,
     (stats c).generation, (stats c).mutations, (stats c).approved]
  | _, _ => []

end Operon.Genome
