import Operon.Lemmas.C18
/-! Helper lemmas for histories on one live object (C18): `runObj` / `objStep` of `Model/Loops.lean` section 4. -/
namespace Operon.Loops

section Obj
variable {σ π α ρ : Type}

/-- the private and environment state reached after a list of operations -/
def endObj (call : π → σ → α → π × σ × ρ) : π → σ → List (ObjOp σ α) → π × σ
  | p, s, [] => (p, s)
  | p, s, op :: ops => endObj call (objStep call p s op).1 (objStep call p s op).2.1 ops

theorem runObj_length (call : π → σ → α → π × σ × ρ) :
    ∀ ops p s, (runObj call p s ops).length = ops.length := by
  intro ops
  induction ops with
  | nil => intro p s; simp [runObj]
  | cons op ops ih => intro p s; simp [runObj, ih]

/-- Entry `i` of a history started in the state reached by the first `i` operations and holds the result of
    operation `i` run from that state. -/
theorem runObj_get (call : π → σ → α → π × σ × ρ) :
    ∀ ops p s i e, (runObj call p s ops)[i]? = some e →
      ∃ op, ops[i]? = some op ∧
        e = ((endObj call p s (ops.take i)).1, (endObj call p s (ops.take i)).2,
             (objStep call (endObj call p s (ops.take i)).1 (endObj call p s (ops.take i)).2 op).2.2) := by
  intro ops
  induction ops with
  | nil => intro p s i e h; simp [runObj] at h
  | cons op ops ih =>
    intro p s i e h
    cases i with
    | zero =>
      simp only [runObj, List.getElem?_cons_zero, Option.some.injEq] at h
      exact ⟨op, by simp, by simp [endObj, ← h]⟩
    | succ i =>
      simp only [runObj, List.getElem?_cons_succ] at h
      obtain ⟨op', h1, h2⟩ := ih _ _ i e h
      exact ⟨op', by simpa using h1, by simpa [endObj] using h2⟩

/-- A call entry comes from a `call` operation, run in the state reached by the operations before it. -/
theorem runObj_call (call : π → σ → α → π × σ × ρ) (ops : List (ObjOp σ α)) (p0 : π) (s0 : σ) (i : Nat)
    (p : π) (s : σ) (r : ρ) (h : (runObj call p0 s0 ops)[i]? = some (p, s, some r)) :
    ∃ a, ops[i]? = some (.call a) ∧ (p, s) = endObj call p0 s0 (ops.take i) ∧ r = (call p s a).2.2 := by
  obtain ⟨op, h1, h2⟩ := runObj_get call ops p0 s0 i _ h
  simp only [Prod.mk.injEq] at h2
  obtain ⟨hp, hs, hr⟩ := h2
  cases op with
  | assign f => simp [objStep] at hr
  | call a =>
    refine ⟨a, h1, by rw [hp, hs], ?_⟩
    simp only [objStep, Option.some.injEq] at hr
    rw [hr, ← hp, ← hs]

theorem endObj_append (call : π → σ → α → π × σ × ρ) :
    ∀ a b p s, endObj call p s (a ++ b) = endObj call (endObj call p s a).1 (endObj call p s a).2 b := by
  intro a
  induction a with
  | nil => intro b p s; simp [endObj]
  | cons op a ih => intro b p s; simp [endObj, ih]

/-- an invariant of the environment state kept by every operation of a history holds at its end -/
theorem endObj_inv (call : π → σ → α → π × σ × ρ) (P : σ → Prop) :
    ∀ ops p s, (∀ op ∈ ops, ∀ p s, P s → P (objStep call p s op).2.1) → P s → P (endObj call p s ops).2 := by
  intro ops
  induction ops with
  | nil => intro p s _ h; simpa [endObj] using h
  | cons op ops ih =>
    intro p s hall h
    simp only [endObj]
    exact ih _ _ (fun op' ho => hall op' (List.mem_cons_of_mem _ ho)) (hall op (List.mem_cons_self ..) p s h)

end Obj

section Heal
variable {σ κ C : Type}

/-- a predicate of the environment state that the generator and the validator keep is kept by the whole loop -/
theorem healLoop_st_inv (ops : ConfOps C) (adv : HealAdv σ κ C) (p : String) (P : σ → Prop)
    (hg : ∀ s q c, P s → P (adv.gen s q c).1) (hf : ∀ s raw, P s → P (adv.fold s raw).1) :
    ∀ rem k ctx atts s, P s → P (healLoop ops adv p rem k ctx atts s).st := by
  intro rem
  induction rem with
  | zero => intro k ctx atts s h; simpa [healLoop] using h
  | succ rem ih =>
    intro k ctx atts s h
    have h1 := hg s p ctx h
    unfold healLoop
    split
    · rename_i s1 heq
      rw [heq] at h1; exact h1
    · rename_i s1 raw heq
      rw [heq] at h1
      have h2 := hf s1 raw h1
      split
      · rename_i s2 heq2
        rw [heq2] at h2; exact h2
      · rename_i s2 f heq2
        rw [heq2] at h2
        split
        · exact h2
        · exact ih _ _ _ _ h2

end Heal

end Operon.Loops
