import Operon.Model.Loops
/-! Helper lemmas for the loop-budget theorems (C18).  Every lemma is by induction on the number of remaining
    iterations (or the fuel) and case analysis of one loop body. -/
namespace Operon.Loops

/-! ## heal -/
section Heal
variable {σ κ C : Type}

/-- What the loop must show the *next* generator call after call `c`, if a next call is allowed at all:
    only after a returned output that the validator answered as invalid. -/
def nextCtx (c : GenCall κ C) : Option ErrCtx :=
  match c.out, c.fold with
  | .ok raw, some (.ok f) => if f.valid then none else some (mkCtx f.trace raw)
  | _, _ => none

/-- Calls are chained: each call is shown `c0`, and a further call exists only behind a failed validation and
    is shown exactly the context built from that failure. -/
def CtxChain : Option ErrCtx → List (GenCall κ C) → Prop
  | _, [] => True
  | c0, c :: rest => c.ctx = c0 ∧ (rest = [] ∨ ∃ e, nextCtx c = some e ∧ CtxChain (some e) rest)

/-- The four ways one iteration of the loop body can go (the only place `healLoop` is unfolded). -/
theorem healLoop_succ (ops : ConfOps C) (adv : HealAdv σ κ C) (p : String) (rem k : Nat) (ctx : Option ErrCtx)
    (atts : List (Attempt C)) (s : σ) :
    (∃ s1, healLoop ops adv p (rem + 1) k ctx atts s = ⟨s1, .raise, [⟨p, ctx, .raise, none⟩]⟩) ∨
    (∃ s2 raw, healLoop ops adv p (rem + 1) k ctx atts s = ⟨s2, .raise, [⟨p, ctx, .ok raw, some .raise⟩]⟩) ∨
    (∃ s2 raw f, f.valid = true ∧ healLoop ops adv p (rem + 1) k ctx atts s =
        ⟨s2, .ok ⟨if k = 0 then .validFirstTry else .healed, some ⟨f.valid, ops.min f.conf (ops.cur k), f.trace, f.payload⟩,
                 atts ++ [⟨k, raw, none, true, ops.cur k⟩], ops.min f.conf (ops.cur k), false⟩,
         [⟨p, ctx, .ok raw, some (.ok f)⟩]⟩) ∨
    (∃ s2 raw f atts', f.valid = false ∧ atts'.length = atts.length + 1 ∧
        healLoop ops adv p (rem + 1) k ctx atts s =
        ⟨(healLoop ops adv p rem (k + 1) (some (mkCtx f.trace raw)) atts' s2).st,
         (healLoop ops adv p rem (k + 1) (some (mkCtx f.trace raw)) atts' s2).res,
         ⟨p, ctx, .ok raw, some (.ok f)⟩ :: (healLoop ops adv p rem (k + 1) (some (mkCtx f.trace raw)) atts' s2).calls⟩) := by
  generalize hr : healLoop ops adv p (rem + 1) k ctx atts s = run
  unfold healLoop at hr
  split at hr
  · exact Or.inl ⟨_, hr.symm⟩
  · split at hr
    · exact Or.inr (Or.inl ⟨_, _, hr.symm⟩)
    · split at hr
      · rename_i hv
        exact Or.inr (Or.inr (Or.inl ⟨_, _, _, hv, hr.symm⟩))
      · rename_i hv
        refine Or.inr (Or.inr (Or.inr ⟨_, _, _, _, by simpa using hv, ?_, hr.symm⟩))
        simp

theorem healLoop_calls_le (ops : ConfOps C) (adv : HealAdv σ κ C) (p : String) :
    ∀ rem k ctx atts s, (healLoop ops adv p rem k ctx atts s).calls.length ≤ rem := by
  intro rem
  induction rem with
  | zero => intro k ctx atts s; simp [healLoop]
  | succ rem ih =>
    intro k ctx atts s
    rcases healLoop_succ ops adv p rem k ctx atts s with ⟨_, h⟩ | ⟨_, _, h⟩ | ⟨_, _, _, _, h⟩ | ⟨_, _, _, _, _, _, h⟩ <;>
      rw [h] <;> simp
    exact ih ..

theorem healLoop_chain (ops : ConfOps C) (adv : HealAdv σ κ C) (p : String) :
    ∀ rem k ctx atts s, CtxChain ctx (healLoop ops adv p rem k ctx atts s).calls := by
  intro rem
  induction rem with
  | zero => intro k ctx atts s; simp [healLoop, CtxChain]
  | succ rem ih =>
    intro k ctx atts s
    rcases healLoop_succ ops adv p rem k ctx atts s with ⟨_, h⟩ | ⟨_, _, h⟩ | ⟨_, _, _, _, h⟩ | ⟨_, _, _, _, hv, _, h⟩ <;>
      rw [h]
    · simp [CtxChain]
    · simp [CtxChain]
    · simp [CtxChain]
    · simp only [CtxChain, true_and]
      right
      exact ⟨_, by simp [nextCtx, hv], ih ..⟩

theorem healLoop_prompt (ops : ConfOps C) (adv : HealAdv σ κ C) (p : String) :
    ∀ rem k ctx atts s, ∀ c ∈ (healLoop ops adv p rem k ctx atts s).calls, c.prompt = p := by
  intro rem
  induction rem with
  | zero => intro k ctx atts s; simp [healLoop]
  | succ rem ih =>
    intro k ctx atts s
    rcases healLoop_succ ops adv p rem k ctx atts s with ⟨_, h⟩ | ⟨_, _, h⟩ | ⟨_, _, _, _, h⟩ | ⟨_, _, _, _, _, _, h⟩ <;>
      rw [h] <;> simp
    exact fun c hc => ih _ _ _ _ c hc

theorem getLast?_cons_of_getLast? {α : Type} (a b : α) (l : List α) (h : l.getLast? = some b) :
    (a :: l).getLast? = some b := by
  have hne : l ≠ [] := by intro hn; subst hn; simp at h
  rw [List.getLast?_cons_of_ne_nil hne]; exact h

/-- A result reported as valid: the last generator output was answered valid by the validator, the result
    carries exactly that answer (confidence lowered to the decayed one), it is not tagged, and it is the
    first-try outcome exactly when it was attempt 0. -/
theorem healLoop_valid (ops : ConfOps C) (adv : HealAdv σ κ C) (p : String) :
    ∀ rem k ctx atts s r, (healLoop ops adv p rem k ctx atts s).res = .ok r → r.isValid = true →
      ∃ c raw f n, (healLoop ops adv p rem k ctx atts s).calls.getLast? = some c ∧
        (healLoop ops adv p rem k ctx atts s).calls.length = n + 1 ∧
        c.out = .ok raw ∧ c.fold = some (.ok f) ∧ f.valid = true ∧
        r.folded = some ⟨true, ops.min f.conf (ops.cur (k + n)), f.trace, f.payload⟩ ∧
        r.finalConf = ops.min f.conf (ops.cur (k + n)) ∧
        r.tagged = false ∧
        r.outcome = (if k + n = 0 then .validFirstTry else .healed) := by
  intro rem
  induction rem with
  | zero =>
    intro k ctx atts s r h hv
    simp only [healLoop, Out.ok.injEq] at h
    subst h
    simp [HealResult.isValid] at hv
  | succ rem ih =>
    intro k ctx atts s r
    rcases healLoop_succ ops adv p rem k ctx atts s with ⟨_, h⟩ | ⟨_, _, h⟩ | ⟨_, raw, f, hv, h⟩ | ⟨_, _, _, _, _, _, h⟩ <;>
      rw [h]
    · intro h; cases h
    · intro h; cases h
    · intro h _
      simp only [Out.ok.injEq] at h
      subst h
      exact ⟨_, raw, f, 0, rfl, rfl, rfl, rfl, hv, by simp [hv], rfl, rfl, rfl⟩
    · intro h hv
      obtain ⟨c, raw, f, n, h1, h2, h3, h4, h5, h6, h7, h8, h9⟩ := ih _ _ _ _ r h hv
      have e : k + (n + 1) = k + 1 + n := by omega
      refine ⟨c, raw, f, n + 1, getLast?_cons_of_getLast? _ _ _ h1, by simp [h2], h3, h4, h5, ?_, ?_, h8, ?_⟩ <;>
        rw [e] <;> assumption

/-- A result not reported as valid is the degraded one: tagged, confidence zero, no folded protein — and it is
    only produced after the whole budget was spent on outputs the validator rejected. -/
theorem healLoop_degraded (ops : ConfOps C) (adv : HealAdv σ κ C) (p : String) :
    ∀ rem k ctx atts s r, (healLoop ops adv p rem k ctx atts s).res = .ok r → r.isValid = false →
      r.outcome = .degraded ∧ r.tagged = true ∧ r.finalConf = ops.zero ∧ r.folded = none ∧
      (healLoop ops adv p rem k ctx atts s).calls.length = rem ∧
      ∀ c ∈ (healLoop ops adv p rem k ctx atts s).calls, ∃ raw f, c.out = .ok raw ∧ c.fold = some (.ok f) ∧ f.valid = false := by
  intro rem
  induction rem with
  | zero =>
    intro k ctx atts s r h _
    simp only [healLoop, Out.ok.injEq] at h
    subst h
    simp [healLoop]
  | succ rem ih =>
    intro k ctx atts s r
    rcases healLoop_succ ops adv p rem k ctx atts s with ⟨_, h⟩ | ⟨_, _, h⟩ | ⟨_, raw, f, hv, h⟩ | ⟨_, raw, f, _, hv, _, h⟩ <;>
      rw [h]
    · intro h; cases h
    · intro h; cases h
    · intro h hnv
      simp only [Out.ok.injEq] at h
      subst h
      by_cases hk : k = 0 <;> simp [HealResult.isValid, hk] at hnv
    · intro h hnv
      obtain ⟨h1, h2, h3, h4, h5, h6⟩ := ih _ _ _ _ r h hnv
      refine ⟨h1, h2, h3, h4, by simp [h5], ?_⟩
      intro c hc
      simp only [List.mem_cons] at hc
      rcases hc with hc | hc
      · subst hc; exact ⟨raw, f, rfl, rfl, hv⟩
      · exact h6 c hc

/-- The attempts list of a returned result has one entry per generator call (after the ones already there). -/
theorem healLoop_attempts (ops : ConfOps C) (adv : HealAdv σ κ C) (p : String) :
    ∀ rem k ctx atts s r, (healLoop ops adv p rem k ctx atts s).res = .ok r →
      r.attempts.length = atts.length + (healLoop ops adv p rem k ctx atts s).calls.length := by
  intro rem
  induction rem with
  | zero =>
    intro k ctx atts s r h
    simp only [healLoop, Out.ok.injEq] at h
    subst h
    simp [healLoop]
  | succ rem ih =>
    intro k ctx atts s r
    rcases healLoop_succ ops adv p rem k ctx atts s with ⟨_, h⟩ | ⟨_, _, h⟩ | ⟨_, raw, f, hv, h⟩ | ⟨_, raw, f, _, hv, hl, h⟩ <;>
      rw [h]
    · intro h; cases h
    · intro h; cases h
    · intro h
      simp only [Out.ok.injEq] at h
      subst h
      simp
    · intro h
      have := ih _ _ _ _ r h
      simp only [List.length_cons]
      omega

/-- An exception leaves `heal` only when the generator or the validator raised, at the last recorded call. -/
theorem healLoop_raise (ops : ConfOps C) (adv : HealAdv σ κ C) (p : String) :
    ∀ rem k ctx atts s, (healLoop ops adv p rem k ctx atts s).res = .raise →
      ∃ c, (healLoop ops adv p rem k ctx atts s).calls.getLast? = some c ∧ (c.out = .raise ∨ c.fold = some .raise) := by
  intro rem
  induction rem with
  | zero => intro k ctx atts s h; simp [healLoop] at h
  | succ rem ih =>
    intro k ctx atts s
    rcases healLoop_succ ops adv p rem k ctx atts s with ⟨_, h⟩ | ⟨_, _, h⟩ | ⟨_, raw, f, hv, h⟩ | ⟨_, raw, f, _, hv, hl, h⟩ <;>
      rw [h]
    · intro _; exact ⟨_, rfl, Or.inl rfl⟩
    · intro _; exact ⟨_, rfl, Or.inr rfl⟩
    · intro h; cases h
    · intro h
      obtain ⟨c, h1, h2⟩ := ih _ _ _ _ h
      exact ⟨c, getLast?_cons_of_getLast? _ _ _ h1, h2⟩

/-- index form of `CtxChain` -/
theorem chain_index (c0 : Option ErrCtx) (l : List (GenCall κ C)) (h : CtxChain c0 l) :
    (∀ c, l[0]? = some c → c.ctx = c0) ∧
    (∀ i c', l[i + 1]? = some c' → ∃ c e, l[i]? = some c ∧ nextCtx c = some e ∧ c'.ctx = some e) := by
  induction l generalizing c0 with
  | nil => simp
  | cons a rest ih =>
    obtain ⟨h1, h2⟩ := h
    refine ⟨by intro c hc; simp at hc; subst hc; exact h1, ?_⟩
    intro i c' hi
    rcases h2 with h2 | ⟨e, he, hch⟩
    · subst h2; simp at hi
    · have ih' := ih (some e) hch
      cases i with
      | zero =>
        simp only [List.getElem?_cons_succ, Nat.zero_add] at hi
        exact ⟨a, e, by simp, he, ih'.1 c' hi⟩
      | succ i =>
        simp only [List.getElem?_cons_succ] at hi
        obtain ⟨c, e', h3, h4, h5⟩ := ih'.2 i c' hi
        exact ⟨c, e', by simpa using h3, h4, h5⟩

theorem nextCtx_some (c : GenCall κ C) (e : ErrCtx) (h : nextCtx c = some e) :
    ∃ raw f, c.out = .ok raw ∧ c.fold = some (.ok f) ∧ f.valid = false ∧ e = mkCtx f.trace raw := by
  unfold nextCtx at h
  split at h
  · rename_i raw f ho hf
    by_cases hv : f.valid = true
    · simp [hv] at h
    · simp only [hv] at h
      refine ⟨raw, f, ho, hf, by simpa using hv, ?_⟩
      simpa using h.symm
  · cases h

end Heal

/-! ## swarm -/
section Swarm
variable {σ W ω η ι τ : Type}

/-- every recorded step returned an output without completion marker -/
def NoMarker (code : SwarmCode ω) (steps : List (Out ω)) : Prop :=
  ∀ x ∈ steps, ∃ o, x = .ok o ∧ code.marker o = false

theorem noMarker_nil (code : SwarmCode ω) : NoMarker code [] := by intro x hx; cases hx

theorem noMarker_cons (code : SwarmCode ω) (o : ω) (l : List (Out ω)) (ho : code.marker o = false)
    (hl : NoMarker code l) : NoMarker code (.ok o :: l) := by
  intro x hx
  simp only [List.mem_cons] at hx
  rcases hx with hx | hx
  · exact ⟨o, hx, ho⟩
  · exact hl x hx

/-- The ways one iteration of `_run_worker`'s loop body can go. -/
theorem runWorker_succ (code : SwarmCode ω) (adv : SwarmAdv σ W ω η ι τ) (w : W) (task : τ) (n : Nat)
    (recent : List ω) (s : σ) :
    (∃ s1, runWorker code adv w task (n + 1) recent s = ⟨s1, .raise, [.raise]⟩) ∨
    (∃ s1 o, code.marker o = true ∧ runWorker code adv w task (n + 1) recent s = ⟨s1, .ok (some o), [.ok o]⟩) ∨
    (∃ s1 o, code.marker o = false ∧
        ((window recent o).length ≥ 3 ∧ code.low (code.distinct (window recent o)) (window recent o).length = true) ∧
        runWorker code adv w task (n + 1) recent s = ⟨s1, .ok none, [.ok o]⟩) ∨
    (∃ s1 o, code.marker o = false ∧ runWorker code adv w task (n + 1) recent s =
        ⟨(runWorker code adv w task n (window recent o) s1).st, (runWorker code adv w task n (window recent o) s1).res,
         .ok o :: (runWorker code adv w task n (window recent o) s1).steps⟩) := by
  generalize hr : runWorker code adv w task (n + 1) recent s = run
  unfold runWorker at hr
  split at hr
  · exact Or.inl ⟨_, hr.symm⟩
  · split at hr
    · rename_i hm
      exact Or.inr (Or.inl ⟨_, _, hm, hr.symm⟩)
    · rename_i hm
      split at hr
      · rename_i hst
        refine Or.inr (Or.inr (Or.inl ⟨_, _, by simpa using hm, ?_, hr.symm⟩))
        simpa using hst
      · exact Or.inr (Or.inr (Or.inr ⟨_, _, by simpa using hm, hr.symm⟩))

theorem runWorker_steps_le (code : SwarmCode ω) (adv : SwarmAdv σ W ω η ι τ) (w : W) (task : τ) :
    ∀ n recent s, (runWorker code adv w task n recent s).steps.length ≤ n := by
  intro n
  induction n with
  | zero => intro recent s; simp [runWorker]
  | succ n ih =>
    intro recent s
    rcases runWorker_succ code adv w task n recent s with ⟨_, h⟩ | ⟨_, _, _, h⟩ | ⟨_, _, _, _, h⟩ | ⟨_, _, _, h⟩ <;>
      rw [h] <;> simp
    exact ih ..

/-- The shape of a worker run: outputs without marker, ended by nothing (`none`), by the marker output that is
    returned, or by the exception that propagates. -/
theorem runWorker_shape (code : SwarmCode ω) (adv : SwarmAdv σ W ω η ι τ) (w : W) (task : τ) :
    ∀ n recent s,
      match (runWorker code adv w task n recent s).res with
      | .ok none => NoMarker code (runWorker code adv w task n recent s).steps
      | .ok (some o) => ∃ pre, (runWorker code adv w task n recent s).steps = pre ++ [.ok o] ∧ NoMarker code pre ∧
          code.marker o = true
      | .raise => ∃ pre, (runWorker code adv w task n recent s).steps = pre ++ [.raise] ∧ NoMarker code pre := by
  intro n
  induction n with
  | zero => intro recent s; simp [runWorker, noMarker_nil]
  | succ n ih =>
    intro recent s
    rcases runWorker_succ code adv w task n recent s with ⟨_, h⟩ | ⟨_, o, hm, h⟩ | ⟨_, o, hm, _, h⟩ | ⟨s1, o, hm, h⟩ <;>
      rw [h]
    · exact ⟨[], rfl, noMarker_nil code⟩
    · exact ⟨[], rfl, noMarker_nil code, hm⟩
    · exact noMarker_cons code o [] hm (noMarker_nil code)
    · have := ih (window recent o) s1
      simp only
      split <;> rename_i hres <;> rw [hres] at this <;> simp only at this
      · exact noMarker_cons code o _ hm this
      · obtain ⟨pre, h1, h2, h3⟩ := this
        exact ⟨.ok o :: pre, by rw [h1]; rfl, noMarker_cons code o _ hm h2, h3⟩
      · obtain ⟨pre, h1, h2⟩ := this
        exact ⟨.ok o :: pre, by rw [h1]; rfl, noMarker_cons code o _ hm h2⟩

/-- the outputs of the steps that returned -/
def outs (steps : List (Out ω)) : List ω := steps.filterMap Out.toOption

/-- the last three elements (all of them when there are fewer) -/
def lastThree (l : List ω) : List ω := l.drop (l.length - 3)

theorem window_lastThree (l : List ω) (o : ω) : window (lastThree l) o = lastThree (l ++ [o]) := by
  unfold window lastThree
  by_cases h : l.length ≤ 2
  · have e1 : l.length - 3 = 0 := by omega
    have e2 : (l ++ [o]).length - 3 = 0 := by simp; omega
    rw [e1, e2]
    simp only [List.drop_zero]
    have : ¬ (l ++ [o]).length > 3 := by simp; omega
    rw [if_neg this]
  · have hl : (List.drop (l.length - 3) l ++ [o]).length > 3 := by simp; omega
    simp only [hl, if_true]
    have e2 : (l ++ [o]).length - 3 = (l.length - 3) + 1 := by simp; omega
    rw [e2, ← List.drop_drop]
    congr 1
    rw [List.drop_append_of_le_length (by omega)]

/-- A worker run that gives up (returns `None`) *before* the step limit does so because the entropy test
    fired on the window of the last three outputs. -/
theorem runWorker_early (code : SwarmCode ω) (adv : SwarmAdv σ W ω η ι τ) (w : W) (task : τ) :
    ∀ n prev s, (runWorker code adv w task n (lastThree prev) s).res = .ok none →
      (runWorker code adv w task n (lastThree prev) s).steps.length < n →
      (prev ++ outs (runWorker code adv w task n (lastThree prev) s).steps).length ≥ 3 ∧
      code.low (code.distinct (lastThree (prev ++ outs (runWorker code adv w task n (lastThree prev) s).steps)))
        (lastThree (prev ++ outs (runWorker code adv w task n (lastThree prev) s).steps)).length = true := by
  intro n
  induction n with
  | zero => intro prev s _ h; simp [runWorker] at h
  | succ n ih =>
    intro prev s
    rcases runWorker_succ code adv w task n (lastThree prev) s with
      ⟨_, h⟩ | ⟨_, o, hm, h⟩ | ⟨_, o, hm, ⟨hl, hlow⟩, h⟩ | ⟨s1, o, hm, h⟩ <;> rw [h]
    · intro hr; cases hr
    · intro hr; cases hr
    · intro _ _
      rw [window_lastThree] at hl hlow
      have : outs [Out.ok o] = [o] := rfl
      rw [this]
      refine ⟨?_, hlow⟩
      have : (lastThree (prev ++ [o])).length ≤ (prev ++ [o]).length := by unfold lastThree; simp
      omega
    · intro hr hlen
      rw [window_lastThree] at hr hlen ⊢
      simp only [List.length_cons] at hlen
      have := ih (prev ++ [o]) s1 hr (by omega)
      have e : prev ++ outs (Out.ok o :: (runWorker code adv w task n (lastThree (prev ++ [o])) s1).steps) =
          (prev ++ [o]) ++ outs (runWorker code adv w task n (lastThree (prev ++ [o])) s1).steps := by
        simp [outs, Out.toOption]
      rw [e]
      exact this

/-- Facts about one spawn record that hold however the spawn ended. -/
structure SpawnFacts (code : SwarmCode ω) (cfg : SwarmCfg) (sp : Spawn W ω η) : Prop where
  steps_le : sp.steps.length ≤ cfg.maxSteps.toNat
  shape : NoMarker code sp.steps ∨
    (∃ pre o, sp.steps = pre ++ [.ok o] ∧ NoMarker code pre ∧ code.marker o = true) ∨
    (∃ pre, sp.steps = pre ++ [.raise] ∧ NoMarker code pre)
  no_worker : sp.worker = .raise → sp.steps = [] ∧ sp.summ = none
  summ_failed : sp.summ.isSome = true → NoMarker code sp.steps
  early : sp.summ.isSome = true → sp.steps.length < cfg.maxSteps.toNat →
    (outs sp.steps).length ≥ 3 ∧
    code.low (code.distinct (lastThree (outs sp.steps))) (lastThree (outs sp.steps)).length = true

/-- What a terminal spawn (the one after which `supervise` returns or raises) looks like. -/
def TermFacts (code : SwarmCode ω) (adv : SwarmAdv σ W ω η ι τ) (total : Nat) (sp : Spawn W ω η) :
    Out (SwarmResult ω ι) → Prop
  | .raise => sp.worker = .raise ∨ sp.summ = some .raise ∨ ∃ pre, sp.steps = pre ++ [.raise]
  | .ok r => r.success = true ∧ r.total = total ∧ sp.summ = none ∧
      ∃ w o pre, sp.worker = .ok w ∧ sp.steps = pre ++ [.ok o] ∧ NoMarker code pre ∧ code.marker o = true ∧
        r.output = some o ∧ r.finalId = some (adv.wid w)

/-- The ways one iteration of the `while regenerations <= max_regenerations` loop can go. -/
theorem superviseLoop_succ (code : SwarmCode ω) (cfg : SwarmCfg) (adv : SwarmAdv σ W ω η ι τ) (task : τ)
    (fuel k : Nat) (hints : η) (sw : SwarmSt ι η) (s : σ) :
    (¬ ((k : Int) ≤ cfg.maxRegen) ∧ superviseLoop code cfg adv task (fuel + 1) k hints sw s =
        ⟨s, sw, some (.ok ⟨false, none, sw.counter, none⟩), []⟩) ∨
    ((k : Int) ≤ cfg.maxRegen ∧ ∃ s' sp res, superviseLoop code cfg adv task (fuel + 1) k hints sw s =
        ⟨s', ⟨sw.counter + 1, sw.apop, sw.regen⟩, some res, [sp]⟩ ∧
        sp.name = sw.counter + 1 ∧ sp.hints = hints ∧ SpawnFacts code cfg sp ∧ TermFacts code adv (sw.counter + 1) sp res) ∨
    ((k : Int) ≤ cfg.maxRegen ∧ ∃ s' sp w h sw',
        superviseLoop code cfg adv task (fuel + 1) k hints sw s =
          ⟨(superviseLoop code cfg adv task fuel (k + 1) h sw' s').st,
           (superviseLoop code cfg adv task fuel (k + 1) h sw' s').sw,
           (superviseLoop code cfg adv task fuel (k + 1) h sw' s').res,
           sp :: (superviseLoop code cfg adv task fuel (k + 1) h sw' s').spawns⟩ ∧
        sp.name = sw.counter + 1 ∧ sp.hints = hints ∧ SpawnFacts code cfg sp ∧
        sp.worker = .ok w ∧ sp.summ = some (.ok h) ∧ NoMarker code sp.steps ∧
        sw'.counter = sw.counter + 1 ∧ sw'.apop = sw.apop ++ [(adv.wid w, h)] ∧
        sw'.regen = (if ((k + 1 : Nat) : Int) ≤ cfg.maxRegen then sw.regen ++ [(adv.wid w, sw.counter + 2, h)]
                     else sw.regen)) := by
  generalize hr : superviseLoop code cfg adv task (fuel + 1) k hints sw s = run
  unfold superviseLoop at hr
  split at hr
  · rename_i hg
    refine Or.inr ?_
    split at hr
    · -- factory raised
      refine Or.inl ⟨hg, _, _, _, hr.symm, rfl, rfl, ?_, Or.inl rfl⟩
      exact ⟨by simp, Or.inl (noMarker_nil code), fun _ => ⟨rfl, rfl⟩, fun _ => noMarker_nil code, (fun h => by simp at h)⟩
    · rename_i s1 w _
      have hle := runWorker_steps_le code adv w task cfg.maxSteps.toNat [] s1
      have hsh := runWorker_shape code adv w task cfg.maxSteps.toNat [] s1
      split at hr
      · -- a step raised
        rename_i s2 steps hw
        rw [hw] at hle hsh
        simp only at hle hsh
        obtain ⟨pre, h1, h2⟩ := hsh
        refine Or.inl ⟨hg, _, _, _, hr.symm, rfl, rfl, ?_, Or.inr (Or.inr ⟨pre, h1⟩)⟩
        exact ⟨hle, Or.inr (Or.inr ⟨pre, h1, h2⟩), (fun h => by cases h), (fun h => by simp at h), (fun h => by simp at h)⟩
      · -- marker output
        rename_i s2 o steps hw
        rw [hw] at hle hsh
        simp only at hle hsh
        obtain ⟨pre, h1, h2, h3⟩ := hsh
        refine Or.inl ⟨hg, _, _, _, hr.symm, rfl, rfl, ?_, rfl, rfl, rfl, w, o, pre, rfl, h1, h2, h3, rfl, rfl⟩
        exact ⟨hle, Or.inr (Or.inl ⟨pre, o, h1, h2, h3⟩), (fun h => by cases h), (fun h => by simp at h), (fun h => by simp at h)⟩
      · -- worker gave up: apoptosis
        rename_i s2 steps hw
        have hearly := runWorker_early code adv w task cfg.maxSteps.toNat [] s1
        have hl0 : lastThree ([] : List ω) = [] := rfl
        rw [hl0, hw] at hearly
        simp only [List.nil_append] at hearly
        rw [hw] at hle hsh
        simp only at hle hsh
        split at hr
        · refine Or.inl ⟨hg, _, _, _, hr.symm, rfl, rfl, ?_, Or.inr (Or.inl rfl)⟩
          exact ⟨hle, Or.inl hsh, (fun h => by cases h), (fun _ => hsh), (fun _ hlt => hearly trivial hlt)⟩
        · refine Or.inr ⟨hg, _, _, w, _, _, hr.symm, rfl, rfl, ?_, rfl, rfl, hsh, rfl, rfl, rfl⟩
          exact ⟨hle, Or.inl hsh, (fun h => by cases h), (fun _ => hsh), (fun _ hlt => hearly trivial hlt)⟩
  · rename_i hg
    exact Or.inl ⟨hg, hr.symm⟩

theorem superviseLoop_spawns_le (code : SwarmCode ω) (cfg : SwarmCfg) (adv : SwarmAdv σ W ω η ι τ) (task : τ) :
    ∀ fuel k hints sw s,
      (superviseLoop code cfg adv task fuel k hints sw s).spawns.length ≤ (cfg.maxRegen + 1 - k).toNat := by
  intro fuel
  induction fuel with
  | zero => intro k hints sw s; simp [superviseLoop]
  | succ fuel ih =>
    intro k hints sw s
    rcases superviseLoop_succ code cfg adv task fuel k hints sw s with
      ⟨_, h⟩ | ⟨hg, _, _, _, h, _⟩ | ⟨hg, s', _, _, hh, sw', h, _⟩ <;> rw [h]
    · simp
    · simp only [List.length_cons, List.length_nil]; omega
    · have := ih (k + 1) hh sw' s'
      simp only [List.length_cons]
      omega

theorem superviseLoop_spawn_facts (code : SwarmCode ω) (cfg : SwarmCfg) (adv : SwarmAdv σ W ω η ι τ) (task : τ) :
    ∀ fuel k hints sw s, ∀ sp ∈ (superviseLoop code cfg adv task fuel k hints sw s).spawns, SpawnFacts code cfg sp := by
  intro fuel
  induction fuel with
  | zero => intro k hints sw s; simp [superviseLoop]
  | succ fuel ih =>
    intro k hints sw s
    rcases superviseLoop_succ code cfg adv task fuel k hints sw s with
      ⟨_, h⟩ | ⟨_, _, _, _, h, _, _, hf, _⟩ | ⟨_, s', _, _, hh, sw', h, _, _, hf, _⟩ <;> rw [h]
    · simp
    · intro sp hsp
      simp only [List.mem_cons, List.not_mem_nil, or_false] at hsp
      subst hsp; exact hf
    · intro sp hsp
      simp only [List.mem_cons] at hsp
      rcases hsp with hsp | hsp
      · subst hsp; exact hf
      · exact ih _ _ _ _ sp hsp

/-- The instance counter grows by exactly one per spawn, and spawn `i` of the call was named
    `worker_{counter+1+i}`. -/
theorem superviseLoop_counter (code : SwarmCode ω) (cfg : SwarmCfg) (adv : SwarmAdv σ W ω η ι τ) (task : τ) :
    ∀ fuel k hints sw s,
      (superviseLoop code cfg adv task fuel k hints sw s).sw.counter =
        sw.counter + (superviseLoop code cfg adv task fuel k hints sw s).spawns.length ∧
      ∀ i sp, (superviseLoop code cfg adv task fuel k hints sw s).spawns[i]? = some sp → sp.name = sw.counter + 1 + i := by
  intro fuel
  induction fuel with
  | zero => intro k hints sw s; simp [superviseLoop]
  | succ fuel ih =>
    intro k hints sw s
    rcases superviseLoop_succ code cfg adv task fuel k hints sw s with
      ⟨_, h⟩ | ⟨_, _, _, _, h, hn, _⟩ | ⟨_, s', _, _, hh, sw', h, hn, _, _, _, _, _, hc, _⟩ <;> rw [h]
    · simp
    · refine ⟨by simp, ?_⟩
      intro i sp hi
      cases i with
      | zero => simp at hi; subst hi; simpa using hn
      | succ i => simp at hi
    · obtain ⟨ih1, ih2⟩ := ih (k + 1) hh sw' s'
      refine ⟨by simp only [List.length_cons]; omega, ?_⟩
      intro i sp hi
      cases i with
      | zero => simp at hi; subst hi; simpa using hn
      | succ i =>
        simp only [List.getElem?_cons_succ] at hi
        have := ih2 i sp hi
        omega

/-- How a returned (non-raising) `supervise` ended: either with success on the last spawn, whose final step
    output carries the marker and is the reported output; or with failure after the whole regeneration budget
    was spent on workers that never produced a marker. -/
theorem superviseLoop_result (code : SwarmCode ω) (cfg : SwarmCfg) (adv : SwarmAdv σ W ω η ι τ) (task : τ) :
    ∀ fuel k hints sw s r, (superviseLoop code cfg adv task fuel k hints sw s).res = some (.ok r) →
      (∃ sp, (superviseLoop code cfg adv task fuel k hints sw s).spawns.getLast? = some sp ∧
          TermFacts code adv (superviseLoop code cfg adv task fuel k hints sw s).sw.counter sp (.ok r)) ∨
      (r.success = false ∧ r.output = none ∧ r.finalId = none ∧
        r.total = (superviseLoop code cfg adv task fuel k hints sw s).sw.counter ∧
        (superviseLoop code cfg adv task fuel k hints sw s).spawns.length = (cfg.maxRegen + 1 - k).toNat ∧
        ∀ sp ∈ (superviseLoop code cfg adv task fuel k hints sw s).spawns,
          NoMarker code sp.steps ∧ ∃ w h, sp.worker = .ok w ∧ sp.summ = some (.ok h)) := by
  intro fuel
  induction fuel with
  | zero => intro k hints sw s r h; simp [superviseLoop] at h
  | succ fuel ih =>
    intro k hints sw s r
    rcases superviseLoop_succ code cfg adv task fuel k hints sw s with
      ⟨hg, h⟩ | ⟨_, _, sp, res, h, _, _, _, ht⟩ | ⟨hg, s', sp, w, hh, sw', h, _, _, _, hw, hs, hnm, _⟩ <;> rw [h]
    · intro hr
      simp only [Option.some.injEq, Out.ok.injEq] at hr
      subst hr
      refine Or.inr ⟨rfl, rfl, rfl, rfl, ?_, by simp⟩
      simp only [List.length_nil]; omega
    · intro hr
      simp only [Option.some.injEq] at hr
      subst hr
      exact Or.inl ⟨sp, rfl, ht⟩
    · intro hr
      rcases ih (k + 1) hh sw' s' r hr with ⟨sp', h1, h2⟩ | ⟨h1, h2, h3, h4, h5, h6⟩
      · exact Or.inl ⟨sp', getLast?_cons_of_getLast? _ _ _ h1, h2⟩
      · refine Or.inr ⟨h1, h2, h3, h4, by simp only [List.length_cons]; omega, ?_⟩
        intro sp'' hsp
        simp only [List.mem_cons] at hsp
        rcases hsp with hsp | hsp
        · subst hsp; exact ⟨hnm, w, hh, hw, hs⟩
        · exact h6 sp'' hsp

/-- An exception leaves `supervise` only from the last spawn: the factory, a step or the summarizer raised. -/
theorem superviseLoop_raise (code : SwarmCode ω) (cfg : SwarmCfg) (adv : SwarmAdv σ W ω η ι τ) (task : τ) :
    ∀ fuel k hints sw s, (superviseLoop code cfg adv task fuel k hints sw s).res = some .raise →
      ∃ sp, (superviseLoop code cfg adv task fuel k hints sw s).spawns.getLast? = some sp ∧
        (sp.worker = .raise ∨ sp.summ = some .raise ∨ ∃ pre, sp.steps = pre ++ [.raise]) := by
  intro fuel
  induction fuel with
  | zero => intro k hints sw s h; simp [superviseLoop] at h
  | succ fuel ih =>
    intro k hints sw s
    rcases superviseLoop_succ code cfg adv task fuel k hints sw s with
      ⟨hg, h⟩ | ⟨_, _, sp, res, h, _, _, _, ht⟩ | ⟨hg, s', sp, w, hh, sw', h, _⟩ <;> rw [h]
    · intro hr; simp at hr
    · intro hr
      simp only [Option.some.injEq] at hr
      subst hr
      exact ⟨sp, rfl, ht⟩
    · intro hr
      obtain ⟨sp', h1, h2⟩ := ih (k + 1) hh sw' s' hr
      exact ⟨sp', getLast?_cons_of_getLast? _ _ _ h1, h2⟩

/-- The loop never needs more fuel than the remaining regeneration budget plus one. -/
theorem superviseLoop_fuel (code : SwarmCode ω) (cfg : SwarmCfg) (adv : SwarmAdv σ W ω η ι τ) (task : τ) :
    ∀ fuel (k : Nat) hints sw s, (cfg.maxRegen + 1 - k).toNat < fuel →
      (superviseLoop code cfg adv task fuel k hints sw s).res ≠ none := by
  intro fuel
  induction fuel with
  | zero => intro k hints sw s h; omega
  | succ fuel ih =>
    intro k hints sw s hf
    rcases superviseLoop_succ code cfg adv task fuel k hints sw s with
      ⟨hg, h⟩ | ⟨_, _, sp, res, h, _⟩ | ⟨hg, s', sp, w, hh, sw', h, _⟩ <;> rw [h]
    · simp
    · simp
    · exact ih (k + 1) hh sw' s' (by omega)

/-- Regeneration events recorded by one call never exceed the remaining regeneration budget; apoptosis events
    never exceed the spawns. -/
theorem superviseLoop_events (code : SwarmCode ω) (cfg : SwarmCfg) (adv : SwarmAdv σ W ω η ι τ) (task : τ) :
    ∀ fuel k hints sw s,
      (superviseLoop code cfg adv task fuel k hints sw s).sw.regen.length ≤ sw.regen.length + (cfg.maxRegen - k).toNat ∧
      sw.regen.length ≤ (superviseLoop code cfg adv task fuel k hints sw s).sw.regen.length ∧
      (superviseLoop code cfg adv task fuel k hints sw s).sw.apop.length ≤
        sw.apop.length + (superviseLoop code cfg adv task fuel k hints sw s).spawns.length ∧
      sw.apop.length ≤ (superviseLoop code cfg adv task fuel k hints sw s).sw.apop.length := by
  intro fuel
  induction fuel with
  | zero => intro k hints sw s; simp [superviseLoop]
  | succ fuel ih =>
    intro k hints sw s
    rcases superviseLoop_succ code cfg adv task fuel k hints sw s with
      ⟨hg, h⟩ | ⟨_, _, sp, res, h, _⟩ | ⟨hg, s', sp, w, hh, sw', h, _, _, _, _, _, _, _, ha, hr⟩ <;> rw [h]
    · simp
    · simp
    · obtain ⟨i1, i2, i3, i4⟩ := ih (k + 1) hh sw' s'
      rw [ha] at i3 i4
      simp only [List.length_append, List.length_cons, List.length_nil] at i3 i4 ⊢
      by_cases hc : ((k + 1 : Nat) : Int) ≤ cfg.maxRegen
      · rw [if_pos hc] at hr
        rw [hr] at i1 i2
        simp only [List.length_append, List.length_cons, List.length_nil] at i1 i2
        refine ⟨by omega, by omega, by omega, by omega⟩
      · rw [if_neg hc] at hr
        rw [hr] at i1 i2
        refine ⟨by omega, by omega, by omega, by omega⟩

/-- Hints are threaded: the first spawn of a call gets the initial hints, every later one gets what the
    summarizer returned for its predecessor. -/
theorem superviseLoop_hints (code : SwarmCode ω) (cfg : SwarmCfg) (adv : SwarmAdv σ W ω η ι τ) (task : τ) :
    ∀ fuel k hints sw s,
      (∀ sp, (superviseLoop code cfg adv task fuel k hints sw s).spawns[0]? = some sp → sp.hints = hints) ∧
      ∀ i sp', (superviseLoop code cfg adv task fuel k hints sw s).spawns[i + 1]? = some sp' →
        ∃ sp, (superviseLoop code cfg adv task fuel k hints sw s).spawns[i]? = some sp ∧ sp.summ = some (.ok sp'.hints) := by
  intro fuel
  induction fuel with
  | zero => intro k hints sw s; simp [superviseLoop]
  | succ fuel ih =>
    intro k hints sw s
    rcases superviseLoop_succ code cfg adv task fuel k hints sw s with
      ⟨hg, h⟩ | ⟨_, _, sp, res, h, _, hh, _⟩ | ⟨hg, s', sp, w, hh, sw', h, _, hhi, _, _, hs, _⟩ <;> rw [h]
    · simp
    · refine ⟨by intro sp' h0; simp at h0; subst h0; exact hh, by intro i sp' hi; simp at hi⟩
    · obtain ⟨i1, i2⟩ := ih (k + 1) hh sw' s'
      refine ⟨by intro sp' h0; simp at h0; subst h0; exact hhi, ?_⟩
      intro i sp' hi
      simp only [List.getElem?_cons_succ] at hi
      cases i with
      | zero =>
        have := i1 sp' hi
        exact ⟨sp, by simp, by rw [this]; exact hs⟩
      | succ i =>
        obtain ⟨sp0, h1, h2⟩ := i2 i sp' hi
        exact ⟨sp0, by simpa using h1, h2⟩

theorem hasInfix_spec (p : List Char) : ∀ s, hasInfix p s = true → ∃ a b, s = a ++ p ++ b := by
  intro s
  induction s with
  | nil =>
    intro h
    simp only [hasInfix, List.isEmpty_iff] at h
    exact ⟨[], [], by simp [h]⟩
  | cons c cs ih =>
    intro h
    simp only [hasInfix, Bool.or_eq_true] at h
    rcases h with h | h
    · obtain ⟨t, ht⟩ := List.isPrefixOf_iff_prefix.mp h
      exact ⟨[], t, by simp [ht]⟩
    · obtain ⟨a, b, hab⟩ := ih h
      exact ⟨c :: a, b, by simp [hab]⟩

theorem strMarker_spec (o : String) (h : strMarker o = true) :
    ∃ m, m ∈ markers ∧ ∃ a b, o.toUpper.toList = a ++ m.toList ++ b := by
  simp only [strMarker, List.any_eq_true] at h
  obtain ⟨m, hm, hi⟩ := h
  exact ⟨m, hm, hasInfix_spec _ _ hi⟩

end Swarm

/-! ## tool loop -/
section Tools
variable {σ ρ κ θ : Type}

theorem toolRounds_append (a b : List (TEv ρ κ θ)) : toolRounds (a ++ b) = toolRounds a + toolRounds b := by
  simp [toolRounds]

theorem completions_append (a b : List (TEv ρ κ θ)) : completions (a ++ b) = completions a + completions b := by
  simp [completions]

theorem toolRounds_of_exec (evs : List (TEv ρ κ θ)) (h : ∀ e ∈ evs, e.isExec = true) : toolRounds evs = 0 := by
  induction evs with
  | nil => rfl
  | cons e evs ih =>
    have he := h e (by simp)
    have := ih (fun x hx => h x (by simp [hx]))
    cases e <;> simp_all [toolRounds, TEv.isExec, TEv.isTools]

theorem completions_of_exec (evs : List (TEv ρ κ θ)) (h : ∀ e ∈ evs, e.isExec = true) : completions evs = 0 := by
  induction evs with
  | nil => rfl
  | cons e evs ih =>
    have he := h e (by simp)
    have := ih (fun x hx => h x (by simp [hx]))
    cases e <;> simp_all [completions, TEv.isExec, TEv.isComplete]

/-- `execAll` only makes tool executions, at most one per requested call, and returns one result per call. -/
theorem execAll_spec (adv : ToolAdv σ ρ κ θ) :
    ∀ cs s, (∀ e ∈ (execAll adv cs s).2.2, e.isExec = true) ∧ (execAll adv cs s).2.2.length ≤ cs.length ∧
      ∀ rs, (execAll adv cs s).2.1 = .ok rs → rs.length = cs.length := by
  intro cs
  induction cs with
  | nil => intro s; simp [execAll]
  | cons c cs ih =>
    intro s
    unfold execAll
    split
    · simp [TEv.isExec]
    · rename_i s1 r _
      obtain ⟨i1, i2, i3⟩ := ih s1
      split <;> rename_i hx <;> rw [hx] at i1 i2 i3 <;> simp only at i1 i2 i3
      · refine ⟨?_, by simp only [List.length_cons]; omega, by intro rs h; cases h⟩
        intro e he
        simp only [List.mem_cons] at he
        rcases he with he | he
        · subst he; rfl
        · exact i1 e he
      · refine ⟨?_, by simp only [List.length_cons]; omega, ?_⟩
        · intro e he
          simp only [List.mem_cons] at he
          rcases he with he | he
          · subst he; rfl
          · exact i1 e he
        · intro rs h
          simp only [Out.ok.injEq] at h
          subst h
          simp [i3 _ rfl]

theorem transcribe_spec (adv : ToolAdv σ ρ κ θ) (p : PromptView θ) (s : σ) :
    ∃ out, (transcribe adv p s).evs = [.complete p out] ∧ (transcribe adv p s).res = some out ∧
      (transcribe adv p s).logged.length ≤ 1 ∧
      (∀ r, out = .ok r → (transcribe adv p s).logged = [⟨p, r⟩]) ∧
      (out = .raise → (transcribe adv p s).logged = []) := by
  unfold transcribe
  split
  · exact ⟨_, rfl, rfl, (by simp), (by intro r h; cases h), (fun _ => rfl)⟩
  · exact ⟨_, rfl, rfl, (by simp), (by intro r h; cases h; rfl), (by intro h; cases h)⟩

/-- The ways one iteration of the `while iterations < max_iterations` loop can go. -/
theorem toolLoop_succ (cfg : ToolCfg) (adv : ToolAdv σ ρ κ θ) (fuel k : Nat) (cur : PromptView θ) (s : σ) :
    (¬ ((k : Int) < cfg.maxIter) ∧ toolLoop cfg adv (fuel + 1) k cur s = transcribe adv cur s) ∨
    ((k : Int) < cfg.maxIter ∧ ∃ s' out res lg evs,
        toolLoop cfg adv (fuel + 1) k cur s = ⟨s', some res, lg, .tools cur out :: evs⟩ ∧
        (∀ e ∈ evs, e.isExec = true) ∧ lg.length ≤ 1 ∧
        (lg ≠ [] → ∃ resp calls, out = .ok (resp, calls) ∧ adv.truthy resp calls = false ∧ res = .ok resp ∧
          lg = [⟨none, resp⟩]) ∧
        (∀ resp, res = .ok resp → ∃ calls, out = .ok (resp, calls) ∧ evs = [] ∧
          (adv.truthy resp calls = false ∨ cfg.autoExec = false))) ∨
    ((k : Int) < cfg.maxIter ∧ cfg.autoExec = true ∧ ∃ s' resp calls results evs,
        adv.truthy resp calls = true ∧ results.length = calls.length ∧ (∀ e ∈ evs, e.isExec = true) ∧ evs.length = calls.length ∧
        toolLoop cfg adv (fuel + 1) k cur s =
          ⟨(toolLoop cfg adv fuel (k + 1) (some results) s').st, (toolLoop cfg adv fuel (k + 1) (some results) s').res,
           (toolLoop cfg adv fuel (k + 1) (some results) s').logged,
           .tools cur (.ok (resp, calls)) :: (evs ++ (toolLoop cfg adv fuel (k + 1) (some results) s').evs)⟩) := by
  generalize hr : toolLoop cfg adv (fuel + 1) k cur s = run
  unfold toolLoop at hr
  split at hr
  · rename_i hg
    refine Or.inr ?_
    split at hr
    · exact Or.inl ⟨hg, _, _, _, _, _, hr.symm, (by simp), (by simp), (by simp), (by intro r h; cases h)⟩
    · rename_i s1 resp calls _
      split at hr
      · rename_i he
        have he' : adv.truthy resp calls = false := by simpa using he
        refine Or.inl ⟨hg, _, _, _, _, _, hr.symm, (by simp), (by simp), (fun _ => ⟨resp, calls, rfl, he', rfl, rfl⟩), ?_⟩
        intro r h; cases h; exact ⟨calls, rfl, rfl, Or.inl he'⟩
      · rename_i he
        split at hr
        · rename_i ha
          refine Or.inl ⟨hg, _, _, _, _, _, hr.symm, (by simp), (by simp), (by simp), ?_⟩
          intro r h; cases h; exact ⟨calls, rfl, rfl, Or.inr (by simpa using ha)⟩
        · rename_i ha
          obtain ⟨e1, e2, e3⟩ := execAll_spec adv calls s1
          split at hr <;> rename_i hx <;> rw [hx] at e1 e2 e3 <;> simp only at e1 e2 e3
          · exact Or.inl ⟨hg, _, _, _, _, _, hr.symm, e1, (by simp), (by simp), (by intro r h; cases h)⟩
          · rename_i s2 results evs
            have hev : evs.length = calls.length := by
              -- one execution event per call when none raised
              clear hr
              have : ∀ (cs : List κ) (s : σ) s2 rs evs, execAll adv cs s = (s2, .ok rs, evs) → evs.length = cs.length := by
                intro cs
                induction cs with
                | nil => intro s s2 rs evs h; simp [execAll] at h; simp [h.2.2.symm]
                | cons c cs ih =>
                  intro s s2 rs evs h
                  unfold execAll at h
                  split at h
                  · cases h
                  · split at h
                    · cases h
                    · rename_i hy
                      simp only [Prod.mk.injEq, Out.ok.injEq] at h
                      rw [← h.2.2]
                      simp [ih _ _ _ _ hy]
              exact this _ _ _ _ _ hx
            exact Or.inr ⟨hg, by simpa using ha, _, resp, calls, results, evs, by simpa using he, e3 _ rfl, e1, hev, hr.symm⟩
  · rename_i hg
    exact Or.inl ⟨hg, hr.symm⟩

theorem toolRounds_tools_cons (p : PromptView θ) (o : Out (ρ × List κ)) (l : List (TEv ρ κ θ)) :
    toolRounds (.tools p o :: l) = toolRounds l + 1 := by
  unfold toolRounds; rw [List.filter_cons_of_pos (by rfl)]; simp

theorem completions_tools_cons (p : PromptView θ) (o : Out (ρ × List κ)) (l : List (TEv ρ κ θ)) :
    completions (.tools p o :: l) = completions l := by
  unfold completions; rw [List.filter_cons_of_neg (by simp [TEv.isComplete])]

theorem toolRounds_complete_single (p : PromptView θ) (o : Out ρ) :
    toolRounds ([.complete p o] : List (TEv ρ κ θ)) = 0 := by
  unfold toolRounds; rw [List.filter_cons_of_neg (by simp [TEv.isTools])]; rfl

theorem completions_complete_single (p : PromptView θ) (o : Out ρ) :
    completions ([.complete p o] : List (TEv ρ κ θ)) = 1 := by
  unfold completions; rw [List.filter_cons_of_pos (by rfl)]; rfl

/-- Counting theorem for the loop, for every fuel: tool rounds never exceed the remaining iteration budget, at
    most one plain completion is made, at most one transcription is logged; and the plain completion is made
    only after the whole budget of rounds, as the very last call, and its outcome is what is returned. -/
theorem toolLoop_counts (cfg : ToolCfg) (adv : ToolAdv σ ρ κ θ) :
    ∀ fuel k cur s,
      toolRounds (toolLoop cfg adv fuel k cur s).evs ≤ (cfg.maxIter - k).toNat ∧
      completions (toolLoop cfg adv fuel k cur s).evs ≤ 1 ∧
      (toolLoop cfg adv fuel k cur s).logged.length ≤ 1 ∧
      (completions (toolLoop cfg adv fuel k cur s).evs = 1 →
        toolRounds (toolLoop cfg adv fuel k cur s).evs = (cfg.maxIter - k).toNat ∧
        ∃ p out, (toolLoop cfg adv fuel k cur s).evs.getLast? = some (.complete p out) ∧
          (toolLoop cfg adv fuel k cur s).res = some out) := by
  intro fuel
  induction fuel with
  | zero => intro k cur s; simp [toolLoop, toolRounds, completions]
  | succ fuel ih =>
    intro k cur s
    rcases toolLoop_succ cfg adv fuel k cur s with
      ⟨hg, h⟩ | ⟨hg, s', out, res, lg, evs, h, hex, hlg, _⟩ |
      ⟨hg, _, s', resp, calls, results, evs, _, _, hex, _, h⟩ <;> rw [h]
    · obtain ⟨out, h1, h2, h3, _⟩ := transcribe_spec adv cur s
      rw [h1, h2]
      rw [toolRounds_complete_single, completions_complete_single]
      refine ⟨by omega, by omega, h3, ?_⟩
      intro _
      exact ⟨by omega, cur, out, rfl, rfl⟩
    · simp only [toolRounds_tools_cons, completions_tools_cons, toolRounds_of_exec evs hex, completions_of_exec evs hex]
      refine ⟨by omega, by omega, hlg, by intro h0; omega⟩
    · obtain ⟨i1, i2, i3, i4⟩ := ih (k + 1) (some results) s'
      simp only [toolRounds_tools_cons, completions_tools_cons, toolRounds_append, completions_append,
        toolRounds_of_exec evs hex, completions_of_exec evs hex, Nat.zero_add]
      refine ⟨by omega, i2, i3, ?_⟩
      intro hc
      obtain ⟨j1, p, out, j2, j3⟩ := i4 hc
      refine ⟨by omega, p, out, ?_, j3⟩
      apply getLast?_cons_of_getLast?
      rw [List.getLast?_append, j2]
      rfl

theorem toolLoop_fuel (cfg : ToolCfg) (adv : ToolAdv σ ρ κ θ) :
    ∀ fuel (k : Nat) cur s, (cfg.maxIter - k).toNat < fuel → (toolLoop cfg adv fuel k cur s).res ≠ none := by
  intro fuel
  induction fuel with
  | zero => intro k cur s h; omega
  | succ fuel ih =>
    intro k cur s hf
    rcases toolLoop_succ cfg adv fuel k cur s with
      ⟨hg, h⟩ | ⟨hg, s', out, res, lg, evs, h, _⟩ | ⟨hg, _, s', resp, calls, results, evs, _, _, _, _, h⟩ <;> rw [h]
    · obtain ⟨out, _, h2, _⟩ := transcribe_spec adv cur s
      rw [h2]; simp
    · simp
    · exact ih (k + 1) _ _ (by omega)

/-- Prompt threading over the event log.  `cur` is what the next provider call must be shown: the first call
    sees the caller's prompt (`none`); after a `complete_with_tools` call the results of the tool executions
    that follow are collected from scratch (`some []`, then appended in order) and the next provider call —
    another round or the final completion — is shown exactly those; a raising execution or a plain completion
    ends the log. -/
def Thr : PromptView θ → List (TEv ρ κ θ) → Prop
  | _, [] => True
  | cur, .tools p _ :: rest => p = cur ∧ Thr (some []) rest
  | cur, .exec _ (.ok r) :: rest => Thr (cur.map (· ++ [r])) rest
  | _, .exec _ .raise :: rest => rest = []
  | cur, .complete p _ :: rest => p = cur ∧ rest = []

theorem execAll_cons (adv : ToolAdv σ ρ κ θ) (c : κ) (cs : List κ) (s : σ) :
    (∃ s1, execAll adv (c :: cs) s = (s1, .raise, [.exec c .raise])) ∨
    (∃ s1 r, (execAll adv cs s1).2.1 = .raise ∧
      execAll adv (c :: cs) s = ((execAll adv cs s1).1, .raise, .exec c (.ok r) :: (execAll adv cs s1).2.2)) ∨
    (∃ s1 r rs, (execAll adv cs s1).2.1 = .ok rs ∧
      execAll adv (c :: cs) s = ((execAll adv cs s1).1, .ok (r :: rs), .exec c (.ok r) :: (execAll adv cs s1).2.2)) := by
  generalize hr : execAll adv (c :: cs) s = run
  unfold execAll at hr
  split at hr
  · exact Or.inl ⟨_, hr.symm⟩
  · rename_i s1 r _
    split at hr <;> rename_i hx
    · exact Or.inr (Or.inl ⟨s1, r, by rw [hx], by rw [hx]; exact hr.symm⟩)
    · exact Or.inr (Or.inr ⟨s1, r, _, by rw [hx], by rw [hx]; exact hr.symm⟩)

theorem execAll_thr (adv : ToolAdv σ ρ κ θ) :
    ∀ cs s acc (rest : List (TEv ρ κ θ)),
      ((execAll adv cs s).2.1 = .raise → Thr (some acc) (execAll adv cs s).2.2) ∧
      (∀ rs, (execAll adv cs s).2.1 = .ok rs → Thr (some (acc ++ rs)) rest →
        Thr (some acc) ((execAll adv cs s).2.2 ++ rest)) := by
  intro cs
  induction cs with
  | nil => intro s acc rest; simp [execAll]
  | cons c cs ih =>
    intro s acc rest
    rcases execAll_cons adv c cs s with ⟨s1, h⟩ | ⟨s1, r, hx, h⟩ | ⟨s1, r, rs, hx, h⟩ <;> rw [h]
    · simp [Thr]
    · refine ⟨fun _ => ?_, (by intro rs h0; cases h0)⟩
      simp only [Thr, Option.map_some]
      exact (ih s1 (acc ++ [r]) rest).1 hx
    · refine ⟨(by intro h0; cases h0), ?_⟩
      intro rs' h0 hthr
      simp only [Out.ok.injEq] at h0
      subst h0
      simp only [List.cons_append, Thr, Option.map_some]
      exact (ih s1 (acc ++ [r]) rest).2 rs hx (by simpa using hthr)

theorem toolLoop_thr (cfg : ToolCfg) (adv : ToolAdv σ ρ κ θ) :
    ∀ fuel k cur s, Thr cur (toolLoop cfg adv fuel k cur s).evs := by
  intro fuel
  induction fuel with
  | zero => intro k cur s; simp [toolLoop, Thr]
  | succ fuel ih =>
    intro k cur s
    generalize hr : toolLoop cfg adv (fuel + 1) k cur s = run
    unfold toolLoop at hr
    split at hr
    · split at hr
      · rw [← hr]; simp [Thr]
      · rename_i s1 resp calls _
        split at hr
        · rw [← hr]; simp [Thr]
        · split at hr
          · rw [← hr]; simp [Thr]
          · split at hr <;> rename_i he <;> rw [← hr]
            · have hx := (execAll_thr adv calls s1 [] []).1
              rw [he] at hx
              exact ⟨rfl, hx rfl⟩
            · rename_i s2 results evs
              have hx := (execAll_thr adv calls s1 [] (toolLoop cfg adv fuel (k + 1) (some results) s2).evs).2
              rw [he] at hx
              exact ⟨rfl, hx results rfl (by simpa using ih _ _ _)⟩
    · rw [← hr]
      obtain ⟨out, h1, _⟩ := transcribe_spec adv cur s
      rw [h1]; simp [Thr]

/-- A provider that asks for tools on every round, with tools and completion that never raise. -/
structure Insatiable (adv : ToolAdv σ ρ κ θ) : Prop where
  tools : ∀ s p, ∃ s' resp calls, adv.completeTools s p = (s', .ok (resp, calls)) ∧ adv.truthy resp calls = true
  exec : ∀ s c, ∃ s' r, adv.exec s c = (s', .ok r)
  complete : ∀ s p, ∃ s' r, adv.complete s p = (s', .ok r)

/-- Against an insatiable provider (auto-execution on) the loop makes exactly the budgeted number of rounds and
    then exactly one plain completion whose response is returned. -/
theorem toolLoop_insatiable (cfg : ToolCfg) (adv : ToolAdv σ ρ κ θ) (hins : Insatiable adv) (hauto : cfg.autoExec = true) :
    ∀ fuel (k : Nat) cur s, (cfg.maxIter - k).toNat < fuel →
      toolRounds (toolLoop cfg adv fuel k cur s).evs = (cfg.maxIter - k).toNat ∧
      completions (toolLoop cfg adv fuel k cur s).evs = 1 ∧
      ∃ r, (toolLoop cfg adv fuel k cur s).res = some (.ok r) := by
  intro fuel
  induction fuel with
  | zero => intro k cur s h; omega
  | succ fuel ih =>
    intro k cur s hf
    rcases toolLoop_succ cfg adv fuel k cur s with
      ⟨hg, h⟩ | ⟨hg, s', out, res, lg, evs, h, hex, _, _, hres⟩ |
      ⟨hg, _, s', resp, calls, results, evs, _, _, hex, _, h⟩
    · rw [h]
      obtain ⟨out, h1, h2, _⟩ := transcribe_spec adv cur s
      obtain ⟨s', r, hc⟩ := hins.complete s cur
      have : out = .ok r := by
        have := h1
        unfold transcribe at this
        rw [hc] at this
        simp at this
        exact this.symm
      rw [h1, h2, this]
      rw [toolRounds_complete_single, completions_complete_single]
      exact ⟨by omega, rfl, r, rfl⟩
    · -- a terminal round is impossible: the provider returned calls, execution is on and nothing raises
      exfalso
      have hL := h
      unfold toolLoop at hL
      rw [if_pos hg] at hL
      obtain ⟨s1, resp, calls, hct, hne⟩ := hins.tools s cur
      rw [hct] at hL
      simp only at hL
      rw [hne, hauto] at hL
      simp only [Bool.not_true, Bool.false_eq_true, if_false] at hL
      have hx : ∀ (cs : List κ) (s : σ), ∃ s2 rs evs, execAll adv cs s = (s2, .ok rs, evs) := by
        intro cs
        induction cs with
        | nil => intro s; exact ⟨s, [], [], rfl⟩
        | cons c cs ihc =>
          intro s
          obtain ⟨s1, r, he⟩ := hins.exec s c
          obtain ⟨s2, rs, evs, hr⟩ := ihc s1
          exact ⟨s2, r :: rs, _, by unfold execAll; rw [he]; simp only; rw [hr]⟩
      obtain ⟨s2, rs, evs2, hxe⟩ := hx calls s1
      rw [hxe] at hL
      simp only at hL
      -- the continuing shape has the recursive run's result, the terminal shape claims `some res`; compare events
      have := congrArg ToolRun.evs hL
      simp only [List.cons.injEq] at this
      have hout := this.1
      cases res with
      | raise =>
        have h3 := congrArg ToolRun.res hL
        simp only at h3
        obtain ⟨_, _, r, hr⟩ := ih (k + 1) (some rs) s2 (by omega)
        rw [hr] at h3
        cases h3
      | ok rr =>
        obtain ⟨calls', hc1, hc2, hc3⟩ := hres rr rfl
        rw [hc1] at hout
        simp only [TEv.tools.injEq, Out.ok.injEq, Prod.mk.injEq] at hout
        rcases hc3 with hc3 | hc3
        · rw [← hout.2.1, ← hout.2.2, hne] at hc3; cases hc3
        · rw [hauto] at hc3; cases hc3
    · rw [h]
      obtain ⟨i1, i2, r, i3⟩ := ih (k + 1) (some results) s' (by omega)
      simp only [toolRounds_tools_cons, completions_tools_cons, toolRounds_append, completions_append,
        toolRounds_of_exec evs hex, completions_of_exec evs hex, Nat.zero_add]
      exact ⟨by omega, i2, r, i3⟩

end Tools
end Operon.Loops
