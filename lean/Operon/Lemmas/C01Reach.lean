import Operon.Lemmas.C01
/-! C01 helper: the nodes the walker REACHES (dynamically: following the values, not a syntactic list of positions), and
    the fact that a failure at a reached node is never swallowed. -/
namespace Operon.Mito
open R

mutual
/-- the nodes on which `_compute_node` is entered while `e` is evaluated, in order (same control flow as `walk`) -/
def reached (T : Tables) (env : Env) : Expr → List Expr
  | .const v => [.const v]
  | .name id => [.name id]
  | .binop k l r =>
    .binop k l r :: (reached T env l ++ (match (walk T env l).2 with | .ok _ => reached T env r | .error _ => []))
  | .unop k e => .unop k e :: reached T env e
  | .call f args kn kv =>
    .call f args kn kv ::
      (match f with
       | .name fn =>
         if fn ∈ T.names then
           if hasDupKw kn then []
           else reachedList T env args ++
             (match (walkList T env args).2 with | .ok _ => reachedKws T env kn kv | .error _ => [])
         else []
       | _ => [])
  | .list es => .list es :: reachedList T env es
  | .tuple es => .tuple es :: reachedList T env es
  | .compare l ops cs =>
    .compare l ops cs ::
      (reached T env l ++ (match (walk T env l).2 with | .ok a => reachedCmp T env a ops cs | .error _ => []))
  | .boolop k es => .boolop k es :: (if k ∈ T.bool then reachedBool T env k es else [])
  | .ifexp c t e =>
    .ifexp c t e ::
      (reached T env c ++
        (match (walk T env c).2 with
         | .ok cv =>
           (match (truthyR env cv).2 with
            | .ok b => if b then reached T env t else reached T env e
            | .error _ => [])
         | .error _ => []))
  | .other k cs => [.other k cs]

def reachedList (T : Tables) (env : Env) : List Expr → List Expr
  | [] => []
  | e :: es => reached T env e ++ (match (walk T env e).2 with | .ok _ => reachedList T env es | .error _ => [])

def reachedKws (T : Tables) (env : Env) (names : List (Option String)) : List Expr → List Expr
  | [] => []
  | e :: es =>
    match names with
    | some _ :: ns =>
      reached T env e ++ (match (walk T env e).2 with | .ok _ => reachedKws T env ns es | .error _ => [])
    | _ => []

def reachedCmp (T : Tables) (env : Env) (left : Val) (ops : List CmpK) : List Expr → List Expr
  | [] => []
  | c :: cs =>
    match ops with
    | [] => []
    | op :: ops' =>
      reached T env c ++
        (match (walk T env c).2 with
         | .ok right =>
           (match T.cmp.lookup op with
            | none => []
            | some p =>
              (match env.prim p [left, right] with
               | .ok r =>
                 (match (truthyR env r).2 with
                  | .ok b => if b then reachedCmp T env right ops' cs else []
                  | .error _ => [])
               | .error _ => []))
         | .error _ => [])

def reachedBool (T : Tables) (env : Env) (k : BoolK) : List Expr → List Expr
  | [] => []
  | e :: es =>
    match es with
    | [] => reached T env e
    | _ :: _ =>
      reached T env e ++
        (match (walk T env e).2 with
         | .ok v =>
           (match (truthyR env v).2 with
            | .ok b => if b = (k = .or) then [] else reachedBool T env k es
            | .error _ => [])
         | .error _ => [])
end

namespace R
theorem bind_failed_ok {α β} (x : R α) (f : α → R β) (t : List Act) (a : α) (hx : x = (t, .ok a))
    (h : (f a).failed) : (x.bind f).failed := by
  subst hx
  obtain ⟨e, he⟩ := h
  exact ⟨e, by simp [R.bind, he]⟩
end R

section reach
variable (T : Tables) (env : Env)

theorem self_mem_reached (e : Expr) : e ∈ reached T env e := by
  cases e <;> simp [reached]

mutual
theorem reached_fails (n : Expr) (hf : (walk T env n).failed) : ∀ e, n ∈ reached T env e → (walk T env e).failed
  | .const _, h => by simp only [reached, List.mem_singleton] at h; subst h; exact hf
  | .name _, h => by simp only [reached, List.mem_singleton] at h; subst h; exact hf
  | .other _ _, h => by simp only [reached, List.mem_singleton] at h; subst h; exact hf
  | .binop k l r, h => by
    simp only [reached, List.mem_cons, List.mem_append] at h
    rcases h with h | h | h
    · subst h; exact hf
    · unfold walk; exact bind_failed_left _ _ (reached_fails n hf l h)
    · rcases hw : walk T env l with ⟨t, res⟩
      rw [hw] at h
      cases res with
      | error er => simp at h
      | ok a =>
        simp only at h
        unfold walk
        exact bind_failed_ok _ _ t a hw (bind_failed_left _ _ (reached_fails n hf r h))
  | .unop k e, h => by
    simp only [reached, List.mem_cons] at h
    rcases h with h | h
    · subst h; exact hf
    · unfold walk; exact bind_failed_left _ _ (reached_fails n hf e h)
  | .call f args kn kv, h => by
    simp only [reached, List.mem_cons] at h
    rcases h with h | h
    · subst h; exact hf
    · unfold walk
      split
      · rename_i fn
        simp only at h
        split
        · rename_i hm
          rw [if_pos hm] at h
          split
          · exact failed_fail _
          · rename_i hd
            rw [if_neg hd] at h
            refine bind_failed_right _ _ fun fv => ?_
            simp only [List.mem_append] at h
            rcases h with h | h
            · exact bind_failed_left _ _ (reachedList_fails n hf args h)
            · rcases hw : walkList T env args with ⟨t, res⟩
              rw [hw] at h
              cases res with
              | error er => simp at h
              | ok as =>
                simp only at h
                rw [← hw]
                exact bind_failed_ok _ _ t as hw (bind_failed_left _ _ (reachedKws_fails n hf kn kv h))
        · exact failed_fail _
      · exact failed_fail _
  | .list es, h => by
    simp only [reached, List.mem_cons] at h
    rcases h with h | h
    · subst h; exact hf
    · unfold walk; exact bind_failed_left _ _ (reachedList_fails n hf es h)
  | .tuple es, h => by
    simp only [reached, List.mem_cons] at h
    rcases h with h | h
    · subst h; exact hf
    · unfold walk; exact bind_failed_left _ _ (reachedList_fails n hf es h)
  | .compare l ops cs, h => by
    simp only [reached, List.mem_cons, List.mem_append] at h
    rcases h with h | h | h
    · subst h; exact hf
    · unfold walk; exact bind_failed_left _ _ (reached_fails n hf l h)
    · rcases hw : walk T env l with ⟨t, res⟩
      rw [hw] at h
      cases res with
      | error er => simp at h
      | ok a =>
        simp only at h
        unfold walk
        exact bind_failed_ok _ _ t a hw (reachedCmp_fails n hf a ops cs h)
  | .boolop k es, h => by
    simp only [reached, List.mem_cons] at h
    rcases h with h | h
    · subst h; exact hf
    · unfold walk
      split
      · rename_i hk
        rw [if_pos hk] at h
        exact reachedBool_fails n hf k es h
      · exact failed_fail _
  | .ifexp c t e, h => by
    simp only [reached, List.mem_cons, List.mem_append] at h
    rcases h with h | h | h
    · subst h; exact hf
    · unfold walk; exact bind_failed_left _ _ (reached_fails n hf c h)
    · rcases hw : walk T env c with ⟨tc, res⟩
      rw [hw] at h
      cases res with
      | error er => simp at h
      | ok cv =>
        simp only at h
        unfold walk
        refine bind_failed_ok _ _ tc cv hw ?_
        rcases ht : truthyR env cv with ⟨tt, rb⟩
        rw [ht] at h
        cases rb with
        | error er => simp at h
        | ok b =>
          simp only at h
          refine bind_failed_ok _ _ tt b rfl ?_
          cases b with
          | true => simp only [if_true] at h ⊢; exact reached_fails n hf t h
          | false => simp only [Bool.false_eq_true, if_false] at h ⊢; exact reached_fails n hf e h

theorem reachedList_fails (n : Expr) (hf : (walk T env n).failed) : ∀ es, n ∈ reachedList T env es → (walkList T env es).failed
  | [], h => by simp [reachedList] at h
  | e :: es, h => by
    simp only [reachedList, List.mem_append] at h
    unfold walkList
    rcases h with h | h
    · exact bind_failed_left _ _ (reached_fails n hf e h)
    · rcases hw : walk T env e with ⟨t, res⟩
      rw [hw] at h
      cases res with
      | error er => simp at h
      | ok v =>
        simp only at h
        rw [← hw]
        exact bind_failed_ok _ _ t v hw (bind_failed_left _ _ (reachedList_fails n hf es h))

theorem reachedKws_fails (n : Expr) (hf : (walk T env n).failed) (kn : List (Option String)) :
    ∀ es, n ∈ reachedKws T env kn es → (walkKws T env kn es).failed
  | [], h => by simp [reachedKws] at h
  | e :: es, h => by
    unfold reachedKws at h
    unfold walkKws
    split
    · simp at h
    · simp at h
    · rename_i nm ns
      simp only [List.mem_append] at h
      rcases h with h | h
      · exact bind_failed_left _ _ (reached_fails n hf e h)
      · rcases hw : walk T env e with ⟨t, res⟩
        rw [hw] at h
        cases res with
        | error er => simp at h
        | ok v =>
          simp only at h
          rw [← hw]
          exact bind_failed_ok _ _ t v hw (bind_failed_left _ _ (reachedKws_fails n hf ns es h))

theorem reachedCmp_fails (n : Expr) (hf : (walk T env n).failed) (a : Val) (ops : List CmpK) :
    ∀ cs, n ∈ reachedCmp T env a ops cs → (walkCmp T env a ops cs).failed
  | [], h => by simp [reachedCmp] at h
  | c :: cs, h => by
    unfold reachedCmp at h
    unfold walkCmp
    split
    · simp at h
    · rename_i op ops'
      simp only [List.mem_append] at h
      rcases h with h | h
      · exact bind_failed_left _ _ (reached_fails n hf c h)
      · rcases hw : walk T env c with ⟨t, res⟩
        rw [hw] at h
        cases res with
        | error er => simp at h
        | ok right =>
          simp only at h
          rw [← hw]
          refine bind_failed_ok _ _ t right hw ?_
          split
          · exact failed_fail _
          · rename_i p hp
            rw [hp] at h
            simp only at h
            cases hpr : env.prim p [a, right] with
            | error er => exact ⟨er, by simp [R.bind, R.act, hpr]⟩
            | ok r =>
              rw [hpr] at h
              simp only at h
              refine bind_failed_ok _ _ [.prim p [a, right]] r (by simp [R.act, hpr]) ?_
              rcases ht : truthyR env r with ⟨tt, rb⟩
              rw [ht] at h
              cases rb with
              | error er => simp at h
              | ok b =>
                simp only at h
                refine bind_failed_ok _ _ tt b rfl ?_
                cases b with
                | true => simp only [if_true] at h ⊢; exact reachedCmp_fails n hf right ops' cs h
                | false => simp at h

theorem reachedBool_fails (n : Expr) (hf : (walk T env n).failed) (k : BoolK) :
    ∀ es, n ∈ reachedBool T env k es → (walkBool T env k es).failed
  | [], h => by simp [reachedBool] at h
  | [e], h => by
    simp only [reachedBool] at h
    unfold walkBool
    exact reached_fails n hf e h
  | e :: e' :: es', h => by
    unfold reachedBool at h
    simp only [List.mem_append] at h
    unfold walkBool
    rcases h with h | h
    · exact bind_failed_left _ _ (reached_fails n hf e h)
    · rcases hw : walk T env e with ⟨t, res⟩
      rw [hw] at h
      cases res with
      | error er => simp at h
      | ok v =>
        simp only at h
        rw [← hw]
        refine bind_failed_ok _ _ t v hw ?_
        rcases ht : truthyR env v with ⟨tt, rb⟩
        rw [ht] at h
        cases rb with
        | error er => simp at h
        | ok b =>
          simp only at h
          refine bind_failed_ok _ _ tt b rfl ?_
          split at h
          · simp at h
          · rename_i hb
            rw [if_neg hb]
            exact reachedBool_fails n hf k (e' :: es') h
end
end reach

end Operon.Mito
