import Operon.Model.Cascade
import Operon.Model.CascadeObs
import Operon.Model.CascadeMapk
/-! Helper lemmas for the cascade theorems (C19). -/
namespace Operon.Cascade

variable {σ : Type}

/-- stage `i` of the pipeline has a checkpoint -/
def hasCp (stages : List (Stage σ)) (i : Nat) : Prop :=
  ∃ s, stages[i]? = some s ∧ s.checkpoint.isSome = true

/-- Every processor event of a gated stage is *immediately* preceded by a checkpoint event of the same
    stage, on the same signal, that returned `true`.  `prev` is the event before the list. -/
def GatedFrom (stages : List (Stage σ)) : Option (Ev σ) → List (Ev σ) → Prop
  | _, [] => True
  | prev, e :: rest =>
    (∀ i sig, e = .proc i sig → hasCp stages i → prev = some (.cp i sig (.ok true))) ∧
      GatedFrom stages (some e) rest

theorem gated_append (stages : List (Stage σ)) (a b : List (Ev σ)) (p : Option (Ev σ))
    (ha : GatedFrom stages p a) (hb : ∀ p', GatedFrom stages p' b) : GatedFrom stages p (a ++ b) := by
  induction a generalizing p with
  | nil => simpa using hb p
  | cons e a ih =>
    simp only [List.cons_append, GatedFrom] at *
    exact ⟨ha.1, ih _ ha.2⟩

/-- stage-level facts, all by case analysis of the loop body -/
theorem procEvs_idx (i : Nat) (x : σ) (o : PO σ) : ∀ e ∈ procEvs i x o, e.idx = i := by
  intro e he
  match o with
  | .ok _ => simp [procEvs] at he; subst he; rfl
  | .recovered _ => simp [procEvs] at he; rcases he with he | he <;> subst he <;> rfl
  | .failed true => simp [procEvs] at he; rcases he with he | he <;> subst he <;> rfl
  | .failed false => simp [procEvs] at he; subst he; rfl

theorem process_evs (cfg : Cfg) (i : Nat) (s : Stage σ) (a : Acc σ) (pre : List (Ev σ)) :
    (process cfg i s a pre).evs = pre ++ procEvs i a.cur (procOutcome s a.cur) := by
  unfold process
  split <;> rename_i h <;> simp only [h]
  split
  · rfl
  · split <;> rfl

theorem stageStep_evs_idx (cfg : Cfg) (i : Nat) (s : Stage σ) (a : Acc σ) :
    ∀ e ∈ (stageStep cfg i s a).evs, e.idx = i := by
  unfold stageStep
  split
  · rw [process_evs]; simpa using procEvs_idx i a.cur _
  · split
    · rw [process_evs]; intro e he
      simp only [List.cons_append, List.nil_append, List.mem_cons] at he
      rcases he with he | he
      · subst he; rfl
      · exact procEvs_idx i a.cur _ e he
    · simp [Ev.idx]
    · split <;> simp [Ev.idx]

theorem process_res (cfg : Cfg) (i : Nat) (s : Stage σ) (a : Acc σ) (pre : List (Ev σ)) :
    ∃ r, (process cfg i s a pre).res = some r ∧ r.idx = i := by
  unfold process
  split
  · exact ⟨_, rfl, rfl⟩
  · exact ⟨_, rfl, rfl⟩
  · split
    · exact ⟨_, rfl, rfl⟩
    · split <;> exact ⟨_, rfl, rfl⟩

theorem stageStep_res (cfg : Cfg) (i : Nat) (s : Stage σ) (a : Acc σ) :
    ∃ r, (stageStep cfg i s a).res = some r ∧ r.idx = i := by
  unfold stageStep
  split
  · exact process_res ..
  · split
    · exact process_res ..
    · exact ⟨_, rfl, rfl⟩
    · split <;> exact ⟨_, rfl, rfl⟩


/-- The function a stage computes when it completes (processor, or handler after a processor failure). -/
def stageFn (s : Stage σ) (x : σ) : Option σ :=
  match procOutcome s x with
  | .ok v => some v
  | .recovered v => some v
  | .failed _ => none

/-- `compose stages x` = the composition of the stage functions, `none` if some stage cannot complete. -/
def compose : List (Stage σ) → σ → Option σ
  | [], x => some x
  | s :: rest, x => (stageFn s x).bind (compose rest)

/-- running clamped product of the factors of completed stages -/
def clampedProduct (cfg : Cfg) (a : Rat) : List (StageRes σ) → Rat
  | [] => a
  | r :: rs => clampedProduct cfg (if r.status = .completed then clamp cfg (a * r.factor) else a) rs

theorem clamp_le (cfg : Cfg) (a : Rat) : clamp cfg a ≤ cfg.maxAmp := by
  unfold clamp; split
  · exact Rat.le_refl
  · rename_i h; exact Rat.not_lt.mp h

theorem clamp_id (cfg : Cfg) (a : Rat) (h : a ≤ cfg.maxAmp) : clamp cfg a = a := by
  unfold clamp; split
  · rename_i h'; exact absurd h (Rat.not_le.mpr h')
  · rfl

/-- Everything the proofs need to know about one loop iteration. -/
theorem stageStep_spec (cfg : Cfg) (i : Nat) (s : Stage σ) (a : Acc σ) :
    ∃ r, (stageStep cfg i s a).res = some r ∧ r.idx = i ∧ r.input = a.cur ∧
      (r.status = .completed →
        (stageStep cfg i s a).stop = false ∧ (stageStep cfg i s a).acc.blockedAt = a.blockedAt ∧
        stageFn s a.cur = some (stageStep cfg i s a).acc.cur ∧
        (a.amp ≤ cfg.maxAmp → (stageStep cfg i s a).acc.amp = clamp cfg (a.amp * r.factor))) ∧
      (r.status ≠ .completed → (stageStep cfg i s a).acc.amp = a.amp ∧ (stageStep cfg i s a).acc.cur = a.cur) ∧
      (cfg.halt = true → (r.status = .blocked ∨ r.status = .failed) → (stageStep cfg i s a).stop = true) ∧
      ((stageStep cfg i s a).stop = true → r.status ≠ .completed) := by
  unfold stageStep
  split
  · unfold process stageFn
    split <;> rename_i h <;> simp only [h]
    · refine ⟨_, rfl, rfl, rfl, ?_⟩; simp
    · refine ⟨_, rfl, rfl, rfl, ?_⟩; simp [Rat.mul_one]; exact fun h => (clamp_id cfg _ h).symm
    · split
      · refine ⟨_, rfl, rfl, rfl, ?_⟩; simp
      · split
        · refine ⟨_, rfl, rfl, rfl, ?_⟩; simp
        · refine ⟨_, rfl, rfl, rfl, ?_⟩; simp_all
  · split
    · unfold process stageFn
      split <;> rename_i h <;> simp only [h]
      · refine ⟨_, rfl, rfl, rfl, ?_⟩; simp
      · refine ⟨_, rfl, rfl, rfl, ?_⟩; simp [Rat.mul_one]; exact fun h => (clamp_id cfg _ h).symm
      · split
        · refine ⟨_, rfl, rfl, rfl, ?_⟩; simp
        · split
          · refine ⟨_, rfl, rfl, rfl, ?_⟩; simp
          · refine ⟨_, rfl, rfl, rfl, ?_⟩; simp_all
    · refine ⟨_, rfl, rfl, rfl, ?_⟩; simp
    · split
      · refine ⟨_, rfl, rfl, rfl, ?_⟩; simp
      · refine ⟨_, rfl, rfl, rfl, ?_⟩; simp_all


theorem stageStep_gated (cfg : Cfg) (stages : List (Stage σ)) (i : Nat) (s : Stage σ) (a : Acc σ)
    (hs : stages[i]? = some s) : ∀ p, GatedFrom stages p (stageStep cfg i s a).evs := by
  intro p
  unfold stageStep
  split
  · rename_i hc
    rw [process_evs]
    have hno : ¬ hasCp stages i := by
      rintro ⟨s', hs', hc'⟩; rw [hs] at hs'; cases hs'; simp [hc] at hc'
    cases procOutcome s a.cur with
    | ok v => simp [procEvs, GatedFrom]; intro h; exact absurd h hno
    | recovered v => simp [procEvs, GatedFrom]; intro h; exact absurd h hno
    | failed b => cases b <;> (simp [procEvs, GatedFrom]; intro h; exact absurd h hno)
  · split
    · rw [process_evs]
      cases procOutcome s a.cur with
      | ok v => simp [procEvs, GatedFrom]
      | recovered v => simp [procEvs, GatedFrom]
      | failed b => cases b <;> simp [procEvs, GatedFrom]
    · simp [GatedFrom]
    · split <;> simp [GatedFrom]

theorem runFrom_gated (cfg : Cfg) (stages : List (Stage σ)) :
    ∀ (rest : List (Stage σ)) (i : Nat) (a : Acc σ),
      (∀ k s, rest[k]? = some s → stages[i + k]? = some s) →
      ∀ p, GatedFrom stages p (runFrom cfg i rest a).log := by
  intro rest
  induction rest with
  | nil => intro i a _ p; simp [runFrom, GatedFrom]
  | cons s rest ih =>
    intro i a h p
    have hs : stages[i]? = some s := by simpa using h 0 s (by simp)
    simp only [runFrom]
    split
    · exact stageStep_gated cfg stages i s a hs p
    · apply gated_append
      · exact stageStep_gated cfg stages i s a hs p
      · apply ih
        intro k s' hk
        have := h (k + 1) s' (by simpa using hk)
        simpa [Nat.add_assoc, Nat.add_comm 1 k] using this

theorem runFrom_idx (cfg : Cfg) :
    ∀ (rest : List (Stage σ)) (i : Nat) (a : Acc σ),
      (∀ e ∈ (runFrom cfg i rest a).log, i ≤ e.idx) ∧ (∀ r ∈ (runFrom cfg i rest a).results, i ≤ r.idx) := by
  intro rest
  induction rest with
  | nil => intro i a; simp [runFrom]
  | cons s rest ih =>
    intro i a
    obtain ⟨r, hr, hri, -⟩ := stageStep_spec cfg i s a
    have hev := stageStep_evs_idx cfg i s a
    simp only [runFrom]
    split
    · constructor
      · intro e he; exact Nat.le_of_eq (hev e he).symm
      · intro r' hr'; simp [hr] at hr'; subst hr'; omega
    · have ih' := ih (i + 1) (stageStep cfg i s a).acc
      constructor
      · intro e he
        rcases List.mem_append.mp he with he | he
        · exact Nat.le_of_eq (hev e he).symm
        · have := ih'.1 e he; omega
      · intro r' hr'
        rcases List.mem_append.mp hr' with hr' | hr'
        · simp [hr] at hr'; subst hr'; omega
        · have := ih'.2 r' hr'; omega

theorem runFrom_halt (cfg : Cfg) (hh : cfg.halt = true) :
    ∀ (rest : List (Stage σ)) (i : Nat) (a : Acc σ),
      ∀ r ∈ (runFrom cfg i rest a).results, (r.status = .blocked ∨ r.status = .failed) →
        (∀ e ∈ (runFrom cfg i rest a).log, e.idx ≤ r.idx) ∧
        (∀ r' ∈ (runFrom cfg i rest a).results, r'.idx ≤ r.idx) := by
  intro rest
  induction rest with
  | nil => intro i a r hr; simp [runFrom] at hr
  | cons s rest ih =>
    intro i a r hr hst
    obtain ⟨r0, hr0, hri, -, -, -, hstop, -⟩ := stageStep_spec cfg i s a
    have hev := stageStep_evs_idx cfg i s a
    simp only [runFrom] at hr ⊢
    split at hr
    · rename_i hs
      simp only [hs, if_true]
      simp [hr0] at hr; subst hr
      refine ⟨fun e he => Nat.le_of_eq ((hev e he).trans hri.symm), ?_⟩
      intro r' hr'; simp [hr0] at hr'; subst hr'; exact Nat.le_refl _
    · rename_i hs
      simp only [hs]
      rcases List.mem_append.mp hr with hr | hr
      · simp [hr0] at hr; subst hr
        exact absurd (hstop hh hst) hs
      · have ih' := ih (i + 1) (stageStep cfg i s a).acc r hr hst
        have hge := (runFrom_idx cfg rest (i + 1) (stageStep cfg i s a).acc).2 r hr
        constructor
        · intro e he
          rcases List.mem_append.mp he with he | he
          · have := hev e he; omega
          · exact ih'.1 e he
        · intro r' hr'
          rcases List.mem_append.mp hr' with hr' | hr'
          · simp [hr0] at hr'; subst hr'; omega
          · exact ih'.2 r' hr'

theorem runFrom_shape (cfg : Cfg) :
    ∀ (rest : List (Stage σ)) (i : Nat) (a : Acc σ),
      (runFrom cfg i rest a).results.map (·.idx) = List.range' i (runFrom cfg i rest a).results.length ∧
      (runFrom cfg i rest a).results.length ≤ rest.length := by
  intro rest
  induction rest with
  | nil => intro i a; simp [runFrom]
  | cons s rest ih =>
    intro i a
    obtain ⟨r0, hr0, hri, -⟩ := stageStep_spec cfg i s a
    simp only [runFrom]
    split
    · simp [hr0, hri]
    · have ih' := ih (i + 1) (stageStep cfg i s a).acc
      simp only [hr0, Option.toList_some, List.singleton_append, List.map_cons, List.length_cons,
        List.range'_succ, hri, ih'.1, List.length_cons]
      exact ⟨trivial, Nat.succ_le_succ ih'.2⟩

theorem runFrom_allCompleted (cfg : Cfg) :
    ∀ (rest : List (Stage σ)) (i : Nat) (a : Acc σ),
      (∀ r ∈ (runFrom cfg i rest a).results, r.status = .completed) →
        (runFrom cfg i rest a).acc.blockedAt = a.blockedAt ∧
        ((runFrom cfg i rest a).results.length = rest.length →
          compose rest a.cur = some (runFrom cfg i rest a).acc.cur) := by
  intro rest
  induction rest with
  | nil => intro i a _; simp [runFrom, compose]
  | cons s rest ih =>
    intro i a hall
    obtain ⟨r0, hr0, hri, -, hc, -, -, hstopnc⟩ := stageStep_spec cfg i s a
    simp only [runFrom] at hall ⊢
    split at hall
    · rename_i hs
      have : r0.status = .completed := hall r0 (by simp [hr0])
      exact absurd this (hstopnc hs)
    · rename_i hs
      simp only [hs]
      have h0 : r0.status = .completed := hall r0 (by simp [hr0])
      obtain ⟨-, hb, hfn, -⟩ := hc h0
      have ih' := ih (i + 1) (stageStep cfg i s a).acc (fun r hr => hall r (List.mem_append.mpr (Or.inr hr)))
      constructor
      · simpa [hb] using ih'.1
      · intro hlen
        simp [hr0] at hlen
        simp [compose, hfn, ih'.2 hlen]

theorem runFrom_amp (cfg : Cfg) :
    ∀ (rest : List (Stage σ)) (i : Nat) (a : Acc σ), a.amp ≤ cfg.maxAmp →
      (runFrom cfg i rest a).acc.amp = clampedProduct cfg a.amp (runFrom cfg i rest a).results ∧
      (runFrom cfg i rest a).acc.amp ≤ cfg.maxAmp := by
  intro rest
  induction rest with
  | nil => intro i a h; simpa [runFrom, clampedProduct] using h
  | cons s rest ih =>
    intro i a ha
    obtain ⟨r0, hr0, hri, -, hc, hnc, -, -⟩ := stageStep_spec cfg i s a
    have hamp : (stageStep cfg i s a).acc.amp = (if r0.status = .completed then clamp cfg (a.amp * r0.factor) else a.amp) := by
      by_cases h : r0.status = .completed
      · simp [h, (hc h).2.2.2 ha]
      · simp [h, (hnc h).1]
    have hle : (stageStep cfg i s a).acc.amp ≤ cfg.maxAmp := by
      rw [hamp]; split
      · exact clamp_le cfg _
      · exact ha
    simp only [runFrom]
    split
    · simp [hr0, clampedProduct, hamp]
      rw [← hamp]; exact hle
    · have ih' := ih (i + 1) (stageStep cfg i s a).acc hle
      simp only [hr0, Option.toList_some, List.singleton_append, clampedProduct, ← hamp]
      exact ih'


/-! ### the `on_stage_complete` observer -/

theorem runFromO_transparent (cfg : Cfg) (obs : Option StageObs) :
    ∀ (rest : List (Stage σ)) (i : Nat) (a : Acc σ), (runFromO cfg obs i rest a).1 = runFrom cfg i rest a := by
  intro rest
  induction rest with
  | nil => intro i a; simp [runFromO, runFrom]
  | cons s rest ih =>
    intro i a
    simp only [runFromO, runFrom]
    split
    · rfl
    · simp [ih]

/-- **The `on_stage_complete` observer changes nothing**, whether it returns or raises: the run with it is the run
    without it. -/
theorem runO_transparent (cfg : Cfg) (obs : Option StageObs) (stages : List (Stage σ)) (x : σ) :
    (resultO cfg obs stages x).1 = result cfg stages x := by
  have h := runFromO_transparent cfg obs stages 0 ⟨x, clamp cfg 1, none⟩
  unfold resultO result run
  simp only [h]

theorem stageSeen_completed (cfg : Cfg) (obs : Option StageObs) (i : Nat) (s : Stage σ) (a : Acc σ) :
    ∀ j ∈ stageSeen obs i s a, j = i ∧ ∃ r, (stageStep cfg i s a).res = some r ∧ r.idx = i ∧ r.status = .completed ∧
      (.proc i a.cur) ∈ (stageStep cfg i s a).evs := by
  intro j hj
  unfold stageSeen at hj
  cases obs with
  | none => simp at hj
  | some o =>
    simp only at hj
    split at hj
    · rename_i hg
      split at hj
      · rename_i v hpo
        simp at hj
        refine ⟨hj, ?_⟩
        unfold gateOpen at hg
        unfold stageStep
        split at hg
        · rename_i hc
          simp only [hc, process, hpo, procEvs]
          exact ⟨_, rfl, rfl, rfl, by simp⟩
        · rename_i cp hc
          split at hg
          · rename_i hcp
            simp only [hc, hcp, process, hpo, procEvs]
            exact ⟨_, rfl, rfl, rfl, by simp⟩
          · simp at hg
      · simp at hj
    · simp at hj

/-- every stage the observer is shown has a COMPLETED result and a processor event in the run -/
theorem runFromO_seen (cfg : Cfg) (obs : Option StageObs) :
    ∀ (rest : List (Stage σ)) (i : Nat) (a : Acc σ), ∀ j ∈ (runFromO cfg obs i rest a).2,
      (∃ r ∈ (runFrom cfg i rest a).results, r.idx = j ∧ r.status = .completed) ∧
      (∃ sig, (.proc j sig) ∈ (runFrom cfg i rest a).log) := by
  intro rest
  induction rest with
  | nil => intro i a j hj; simp [runFromO] at hj
  | cons s rest ih =>
    intro i a j hj
    simp only [runFromO] at hj
    simp only [runFrom]
    split at hj
    · rename_i hstop
      simp only [hstop, if_true]
      obtain ⟨hji, r, hr, hidx, hst, hev⟩ := stageSeen_completed cfg obs i s a j hj
      subst hji
      exact ⟨⟨r, by simp [hr], hidx, hst⟩, ⟨_, hev⟩⟩
    · rename_i hstop
      simp only [hstop]
      rcases List.mem_append.mp hj with h | h
      · obtain ⟨hji, r, hr, hidx, hst, hev⟩ := stageSeen_completed cfg obs i s a j h
        subst hji
        exact ⟨⟨r, by simp [hr], hidx, hst⟩, ⟨a.cur, List.mem_append_left _ hev⟩⟩
      · obtain ⟨⟨r, hr, hidx, hst⟩, ⟨sig, hsig⟩⟩ := ih (i + 1) _ j h
        exact ⟨⟨r, by simp [hr], hidx, hst⟩, ⟨sig, List.mem_append_right _ hsig⟩⟩

/-- what every run establishes about the state after the loop: if as many stage results are COMPLETED as there are stages,
    nothing was blocked (a blocked / failed stage never has a COMPLETED result and every stage has at most one result) -/
theorem runFromO_consistent (cfg : Cfg) (obs : Option StageObs) (stages : List (Stage σ)) (x : σ) :
    completedCount (runFromO cfg obs 0 stages ⟨x, clamp cfg 1, none⟩).1.results = stages.length →
      (runFromO cfg obs 0 stages ⟨x, clamp cfg 1, none⟩).1.acc.blockedAt = none := by
  rw [runFromO_transparent]
  intro hc
  have hshape := runFrom_shape cfg stages 0 ⟨x, clamp cfg 1, none⟩
  have hall := runFrom_allCompleted cfg stages 0 ⟨x, clamp cfg 1, none⟩
  unfold completedCount at hc
  have hle := List.length_filter_le (fun r : StageRes σ => decide (r.status = .completed))
    (runFrom cfg 0 stages ⟨x, clamp cfg 1, none⟩).results
  have hfl : (List.filter (fun r : StageRes σ => decide (r.status = .completed))
      (runFrom cfg 0 stages ⟨x, clamp cfg 1, none⟩).results).length
      = (runFrom cfg 0 stages ⟨x, clamp cfg 1, none⟩).results.length := by omega
  have hcomp : ∀ r ∈ (runFrom cfg 0 stages ⟨x, clamp cfg 1, none⟩).results, r.status = .completed := by
    intro r hr
    have := (List.length_filter_eq_length_iff.mp hfl) r hr
    simpa using this
  exact (hall hcomp).1

/-! ### a closed gate: no processor (negative form of the gate clause) -/

theorem procEvs_no_cp (i : Nat) (x : σ) (o : PO σ) (j : Nat) (sig : σ) (r : Out Bool) : (Ev.cp j sig r) ∉ procEvs i x o := by
  match o with
  | .ok _ => simp [procEvs]
  | .recovered _ => simp [procEvs]
  | .failed true => simp [procEvs]
  | .failed false => simp [procEvs]

/-- a stage whose gate did not answer `true` calls no processor -/
theorem stageStep_closed (cfg : Cfg) (i : Nat) (s : Stage σ) (a : Acc σ) (j : Nat) (sig : σ) (r : Out Bool)
    (hcp : (Ev.cp j sig r) ∈ (stageStep cfg i s a).evs) (hr : r ≠ .ok true) :
    ∀ k sig', (Ev.proc k sig') ∉ (stageStep cfg i s a).evs := by
  intro k sig'
  cases hc : s.checkpoint with
  | none =>
    simp only [stageStep, hc, process_evs, List.nil_append] at hcp
    exact absurd hcp (procEvs_no_cp _ _ _ _ _ _)
  | some cp =>
    cases hcr : cp a.cur with
    | raise =>
      simp only [stageStep, hc, hcr]
      split <;> simp
    | ok b =>
      cases b with
      | false => simp [stageStep, hc, hcr]
      | true =>
        simp only [stageStep, hc, hcr, process_evs, List.cons_append, List.nil_append, List.mem_cons] at hcp
        rcases hcp with h | h
        · cases h; exact absurd rfl hr
        · exact absurd h (procEvs_no_cp _ _ _ _ _ _)

theorem runFrom_closed (cfg : Cfg) :
    ∀ (rest : List (Stage σ)) (i : Nat) (a : Acc σ) (j : Nat) (sig : σ) (r : Out Bool),
      (Ev.cp j sig r) ∈ (runFrom cfg i rest a).log → r ≠ .ok true →
      ∀ sig', (Ev.proc j sig') ∉ (runFrom cfg i rest a).log := by
  intro rest
  induction rest with
  | nil => intro i a j sig r h; simp [runFrom] at h
  | cons s rest ih =>
    intro i a j sig r hcp hr sig' hp
    have hev := stageStep_evs_idx cfg i s a
    simp only [runFrom] at hcp hp
    split at hcp
    · rename_i hs
      simp only [hs, if_true] at hp
      exact stageStep_closed cfg i s a j sig r hcp hr j sig' hp
    · rename_i hs
      simp only [hs] at hp
      have hge := (runFrom_idx cfg rest (i + 1) (stageStep cfg i s a).acc).1
      rcases List.mem_append.mp hcp with hcp | hcp
      · have hji : j = i := by have := hev _ hcp; simpa [Ev.idx] using this
        rcases List.mem_append.mp hp with hp | hp
        · exact stageStep_closed cfg i s a j sig r hcp hr j sig' hp
        · have := hge _ hp; simp [Ev.idx] at this; omega
      · have hji : i + 1 ≤ j := by have := hge _ hcp; simpa [Ev.idx] using this
        rcases List.mem_append.mp hp with hp | hp
        · have := hev _ hp; simp [Ev.idx] at this; omega
        · exact ih (i + 1) _ j sig r hcp hr sig' hp

/-! ### running clamp vs. clamp of the plain product -/

/-- the plain (unclamped) product of the completed stages' factors -/
def plainProduct (a : Rat) : List (StageRes σ) → Rat
  | [] => a
  | r :: rs => plainProduct (if r.status = .completed then a * r.factor else a) rs

theorem clamp_clamp_mul (cfg : Cfg) (h0 : 0 ≤ cfg.maxAmp) (a f : Rat) (hf : 1 ≤ f) :
    clamp cfg (clamp cfg a * f) = clamp cfg (a * f) := by
  by_cases ha : a ≤ cfg.maxAmp
  · rw [clamp_id cfg a ha]
  · have ha' : cfg.maxAmp < a := Rat.not_le.mp ha
    have h1 : clamp cfg a = cfg.maxAmp := by unfold clamp; simp [ha']
    rw [h1]
    have hm : cfg.maxAmp ≤ cfg.maxAmp * f := by
      have := Rat.mul_le_mul_of_nonneg_left hf h0
      simpa [Rat.mul_one] using this
    have ha0 : 0 ≤ a := Rat.le_trans h0 (Rat.le_of_lt ha')
    have hm2 : a ≤ a * f := by
      have := Rat.mul_le_mul_of_nonneg_left hf ha0
      simpa [Rat.mul_one] using this
    have h2 : cfg.maxAmp < a * f := by grind
    unfold clamp
    simp only [gt_iff_lt, h2, if_true]
    split <;> grind

theorem clampedProduct_eq_clamp_plain (cfg : Cfg) (h0 : 0 ≤ cfg.maxAmp) :
    ∀ (rs : List (StageRes σ)) (a : Rat), (∀ r ∈ rs, r.status = .completed → 1 ≤ r.factor) →
      clampedProduct cfg (clamp cfg a) rs = clamp cfg (plainProduct a rs) := by
  intro rs
  induction rs with
  | nil => intro a _; rfl
  | cons r rs ih =>
    intro a h
    have ih' := fun a => ih a (fun r' hr' => h r' (List.mem_cons_of_mem _ hr'))
    simp only [clampedProduct, plainProduct]
    split
    · rename_i hc
      rw [clamp_clamp_mul cfg h0 a r.factor (h r (List.mem_cons_self ..) hc)]
      exact ih' _
    · exact ih' _

/-! ### the stub behaviour alphabet used by the evaluated table (Gen/CascadeTable) -/

/-- stage `i` of a pipeline described by (checkpoint, processor, handler, required): the same stub callbacks the
    extractor installs in the real cascade (processor `x ↦ 10x + i + 1`, handler `7000 + i`, factor 2) -/
def stubStage (i : Nat) (d : Nat × Nat × Nat × Bool) : Stage Nat :=
  { checkpoint := match d.1 with
      | 1 => some fun _ => .ok true
      | 2 => some fun _ => .ok false
      | 3 => some fun _ => .raise
      -- 4 / 5 / 6: the same answers from a gate OBJECT whose own truth value is false - a checkpoint like any other
      | 4 => some fun _ => .ok true
      | 5 => some fun _ => .ok false
      | 6 => some fun _ => .raise
      | _ => none
    processor := fun x => if d.2.1 = 0 then .ok (x * 10 + i + 1) else .raise
    onError := match d.2.2.1 with
      | 1 => some fun _ => .ok (7000 + i)
      | 2 => some fun _ => .raise
      | _ => none
    required := d.2.2.2
    amp := 2 }

def stubStages : Nat → List (Nat × Nat × Nat × Bool) → List (Stage Nat)
  | _, [] => []
  | i, d :: ds => stubStage i d :: stubStages (i + 1) ds

def statusCode : Status → Nat
  | .completed => 0 | .failed => 1 | .skipped => 2 | .blocked => 3

def evCode : Ev Nat → Nat × Nat × Nat × Nat
  | .cp i s (.ok true) => (0, i, s, 1)
  | .cp i s (.ok false) => (0, i, s, 0)
  | .cp i s .raise => (0, i, s, 2)
  | .proc i s => (1, i, s, 0)
  | .eh i => (2, i, 0, 0)

/-- does the model reproduce one evaluated row? -/
def rowAgrees (r : Nat × Bool × List (Nat × Nat × Nat × Bool) × Bool × Option Nat × Nat × Option Nat × List (Nat × Nat) ×
    List (Nat × Nat × Nat × Nat) × Nat) : Bool :=
  match r with
  | (mx, halt, pipe, ok, fin, comp, blk, sts, log, amp) =>
    let res := result ⟨halt, (mx : Rat)⟩ (stubStages 0 pipe) 1
    res.success == ok && res.final == fin && res.completed == comp && res.blockedAt == blk &&
    res.results.map (fun x => (x.idx, statusCode x.status)) == sts &&
    res.log.map evCode == log && res.amplification == (amp : Rat)

/-- does `mapkPreset 2 3 5` reproduce the evaluated facts about the real preset? -/
def mapkAgrees (f : List (Bool × Nat × Bool × Bool) × List (Nat × Nat × Nat × Nat)) : Bool :=
  let st : List (Stage Nat) := mapkPreset 2 3 5
  let dflt : Stage Nat := ⟨none, fun x => .ok x, none, true, 1⟩
  let attrs : List (Bool × Nat × Bool × Bool) :=
    (List.range 3).map fun k => ((st.getD k dflt).checkpoint.isSome, f.1.getD k (false, 0, false, false) |>.2.1,
      (st.getD k dflt).required, (st.getD k dflt).onError.isSome)
  let facts : List (Nat × Nat × Nat × Nat) :=
    (List.range 3).flatMap fun k => (List.range 4).map fun a => (k, a, gateCode (st.getD k dflt) a, procCode (st.getD k dflt) a)
  st.length == 3 && f.1 == attrs && f.1.map (fun p => ((p.2.1 : Nat) : Rat)) == st.map (·.amp) && f.2 == facts

end Operon.Cascade
