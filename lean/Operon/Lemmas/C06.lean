import Operon.Model.Quorum
import Mathlib.Tactic.Linarith
import Mathlib.Tactic.Positivity
import Mathlib.Tactic.Ring
/-!
Helper definitions and lemmas for the quorum theorems (C06).

Part 1: the hypotheses and specifications used by `Props/C06.lean` (`NonNegThreshold`, `Vote.Valid`,
`Improves`, `Criterion`, `Attainable`, `Supported`).
Part 2: facts about the extracted constants, counting, sums and products over ballots.
Part 3: one characterisation lemma and one monotonicity lemma per aggregator.
-/
namespace Operon.Quorum
open Operon.Gen.Quorum

/-! ## Part 1 — vocabulary -/

def nP (vs : List Vote) : Nat := (ofKind .permit vs).length
def nB (vs : List Vote) : Nat := (ofKind .block vs).length
def nA (vs : List Vote) : Nat := (ofKind .abstain vs).length
def nD (vs : List Vote) : Nat := (ofKind .defer vs).length

/-- configuration domain of the property: a custom threshold is not negative -/
def NonNegThreshold (cfg : Cfg) : Prop := ∀ t, cfg.custom = some t → 0 ≤ t

/-- ballot domain of the property: weights and confidences are not negative -/
def Vote.Valid (v : Vote) : Prop := 0 ≤ v.weight ∧ 0 ≤ v.conf

/-- the same for a colony member: weight and reliability are not negative (a reported confidence needs no condition:
    `_protein_to_vote` clamps it into [0, 1]) -/
def Voter.Valid (v : Voter) : Prop := 0 ≤ v.weight ∧ 0 ≤ v.rel

/-- effective weight of a vote if it is of kind `k`, else 0 -/
def effIf (k : VoteType) (v : Vote) : Rat := if v.kind = k then v.eff else 0

/-- the same, counting only votes whose confidence reaches `CONFIDENCE_MIN` -/
def confEffIf (k : VoteType) (v : Vote) : Rat := if v.kind = k ∧ v.conf ≥ confidenceMin then v.eff else 0

def prodR : List Rat → Rat
  | [] => 1
  | x :: xs => x * prodR xs

/-- factor by which a vote of the *same* side scales that side's belief -/
def upF (v : Vote) : Rat := clamp01 (adjBase + (likelihood v.conf - adjCentre) * v.weight)
/-- factor by which a vote of the *other* side scales a side's belief -/
def downF (v : Vote) : Rat := clamp01 (adjBase + (1 - likelihood v.conf - adjCentre) * v.weight)

/-- factor a vote contributes to the permit belief -/
def fP (v : Vote) : Rat :=
  match v.kind with
  | .permit => upF v
  | .block => downF v
  | _ => 1

/-- factor a vote contributes to the block belief -/
def fB (v : Vote) : Rat :=
  match v.kind with
  | .permit => downF v
  | .block => upF v
  | _ => 1

def beliefP (vs : List Vote) : Rat := priorPermit * prodR (vs.map fP)
def beliefB (vs : List Vote) : Rat := priorBlock * prodR (vs.map fB)

/-- `p` permit votes meet the count strategy's threshold in a colony of `n`: the default is a majority of the
    colony; a custom value below 1 is a share of the colony (and at least one permit); otherwise it is a count. -/
def CountMet (cfg : Cfg) (n p : Nat) : Prop :=
  match cfg.custom with
  | none => n / 2 + 1 ≤ p
  | some t => if t = 0 then n / 2 + 1 ≤ p else if t < 1 then t * (n : Rat) ≤ (p : Rat) ∧ 1 ≤ p else t ≤ (p : Rat)

/-- The stated criterion of each strategy, written without division, rounding or filtered lists: "the permit
    side exceeds the share `t` of what was cast" is `t * (permit + block) < permit`. -/
def Criterion (cfg : Cfg) (n : Nat) (vs : List Vote) : Prop :=
  cfg.minVoters ≤ nP vs + nB vs ∧
  match cfg.strategy with
  | .majority => effThreshold cfg.custom majorityThreshold * ((nP vs + nB vs : Nat) : Rat) < (nP vs : Rat)
  | .supermajority => effThreshold cfg.custom supermajorityThreshold * ((nP vs + nB vs : Nat) : Rat) < (nP vs : Rat)
  | .unanimous => nB vs = 0 ∧ 0 < nP vs
  | .weighted =>
      effThreshold cfg.custom majorityThreshold * (sumR (vs.map (effIf .permit)) + sumR (vs.map (effIf .block)))
        < sumR (vs.map (effIf .permit))
  | .confidence =>
      effThreshold cfg.custom majorityThreshold *
          (sumR (vs.map (confEffIf .permit)) + sumR (vs.map (confEffIf .block)))
        < sumR (vs.map (confEffIf .permit))
  | .bayesian =>
      0 < nP vs ∧
      ((0 < beliefP vs + beliefB vs ∧
          effThreshold cfg.custom majorityThreshold * (beliefP vs + beliefB vs) < beliefP vs) ∨
       (beliefP vs + beliefB vs = 0 ∧ effThreshold cfg.custom majorityThreshold < posteriorFallback))
  | .threshold => CountMet cfg n (nP vs)

/-- `v'` is `v` made more favourable to the proposal: unchanged, a block turned into a permit (same weight and
    confidence), or a permit whose weight and/or confidence was raised. -/
def Improves (v v' : Vote) : Prop :=
  v' = v ∨
  (v.kind = .block ∧ v'.kind = .permit ∧ v'.weight = v.weight ∧ v'.conf = v.conf) ∨
  (v.kind = .permit ∧ v'.kind = .permit ∧ v.weight ≤ v'.weight ∧ v.conf ≤ v'.conf)

/-- a vote that is neither permit nor block (abstain — which includes failed voters — or defer) -/
def Vote.Idle (v : Vote) : Prop := v.kind = .abstain ∨ v.kind = .defer

/-- `v'` differs from `v` at most by being another idle vote (any kind of idle, any weight, any confidence) -/
def SameUpToIdle (v v' : Vote) : Prop := v' = v ∨ (v.Idle ∧ v'.Idle)

/-- The configured criterion can be met at all by an electorate of `n` voters (the reading of the unanimity
    clause): a share threshold is below 1, the Bayesian threshold does not exceed the ½ prior, a custom count does
    not exceed the number of voters. -/
def Attainable (cfg : Cfg) (n : Nat) : Prop :=
  match cfg.strategy with
  | .majority => effThreshold cfg.custom majorityThreshold < 1
  | .supermajority => effThreshold cfg.custom supermajorityThreshold < 1
  | .unanimous => True
  | .weighted => effThreshold cfg.custom majorityThreshold < 1
  | .confidence => effThreshold cfg.custom majorityThreshold < 1
  | .bayesian => effThreshold cfg.custom majorityThreshold ≤ 1 / 2
  | .threshold =>
    match cfg.custom with
    | none => True
    | some t => t < 1 ∨ t ≤ (n : Rat)

/-- By the weighted strategies' own criterion a zero-weight (or, for CONFIDENCE, under-confident) permit is no
    support: some permit vote must carry positive effective weight. -/
def Supported (cfg : Cfg) (vs : List Vote) : Prop :=
  match cfg.strategy with
  | .weighted => ∃ v ∈ vs, v.kind = .permit ∧ 0 < v.eff
  | .confidence => ∃ v ∈ vs, v.kind = .permit ∧ v.conf ≥ confidenceMin ∧ 0 < v.eff
  | .bayesian => ∃ v ∈ vs, v.kind = .permit ∧ 0 < v.eff
  | _ => True

/-! ## Part 2 — constants, counting, sums, products -/

/-- What the proofs need from the constants extracted from the source (checked against the current values). -/
theorem const_facts :
    0 ≤ majorityThreshold ∧ majorityThreshold < 1 ∧ 0 ≤ supermajorityThreshold ∧ supermajorityThreshold < 1 ∧
    adjBase = 1 / 2 ∧ likBase = 1 / 2 ∧ adjCentre = 1 / 2 ∧ 0 < likGain ∧
    priorPermit = priorBlock ∧ 0 < priorPermit ∧ 0 ≤ posteriorFallback ∧ posteriorFallback ≤ 1 := by
  decide +kernel

theorem effThreshold_nonneg {custom : Option Rat} {d : Rat} (hd : 0 ≤ d) (h : ∀ t, custom = some t → 0 ≤ t) :
    0 ≤ effThreshold custom d := by
  unfold effThreshold
  cases custom with
  | none => exact hd
  | some t =>
    have := h t rfl
    by_cases h0 : t = 0 <;> simp [h0, hd, this]

theorem kind_cases (k : VoteType) : k = .permit ∨ k = .block ∨ k = .abstain ∨ k = .defer := by
  cases k <;> simp

theorem ofKind_cons (k : VoteType) (v : Vote) (vs : List Vote) :
    ofKind k (v :: vs) = if v.kind = k then v :: ofKind k vs else ofKind k vs := by
  unfold ofKind
  by_cases h : v.kind = k <;> simp [h]

theorem length_partition (vs : List Vote) : vs.length = nP vs + nB vs + nA vs + nD vs := by
  unfold nP nB nA nD
  induction vs with
  | nil => simp [ofKind]
  | cons v vs ih =>
    simp only [ofKind_cons, List.length_cons]
    rcases kind_cases v.kind with h | h | h | h <;> simp [h] <;> omega

theorem activeCount_eq (vs : List Vote) : activeCount vs = nP vs + nB vs := by
  have := length_partition vs
  unfold activeCount
  unfold nA nD at this
  omega

theorem nP_pos_iff (vs : List Vote) : 0 < nP vs ↔ ∃ v ∈ vs, v.kind = .permit := by
  unfold nP ofKind
  rw [List.length_pos_iff_exists_mem]
  constructor
  · rintro ⟨v, hv⟩
    rw [List.mem_filter] at hv
    exact ⟨v, hv.1, by simpa using hv.2⟩
  · rintro ⟨v, hv, hk⟩
    exact ⟨v, by rw [List.mem_filter]; exact ⟨hv, by simpa using hk⟩⟩

theorem nB_pos_iff (vs : List Vote) : 0 < nB vs ↔ ∃ v ∈ vs, v.kind = .block := by
  unfold nB ofKind
  rw [List.length_pos_iff_exists_mem]
  constructor
  · rintro ⟨v, hv⟩
    rw [List.mem_filter] at hv
    exact ⟨v, hv.1, by simpa using hv.2⟩
  · rintro ⟨v, hv, hk⟩
    exact ⟨v, by rw [List.mem_filter]; exact ⟨hv, by simpa using hk⟩⟩

theorem sum_ofKind (k : VoteType) (vs : List Vote) :
    sumR ((ofKind k vs).map Vote.eff) = sumR (vs.map (effIf k)) := by
  induction vs with
  | nil => simp [ofKind, sumR]
  | cons v vs ih =>
    rw [ofKind_cons]
    by_cases h : v.kind = k <;> simp [h, sumR, effIf, ih]

theorem sum_confident_ofKind (k : VoteType) (vs : List Vote) :
    sumR ((confident (ofKind k vs)).map Vote.eff) = sumR (vs.map (confEffIf k)) := by
  induction vs with
  | nil => simp [ofKind, confident, sumR]
  | cons v vs ih =>
    rw [ofKind_cons]
    by_cases h : v.kind = k
    · by_cases hc : v.conf ≥ confidenceMin
      · simp only [h, if_true]
        simp only [confident, List.filter_cons] at ih ⊢
        simp [hc, sumR, confEffIf, h, ih]
      · simp only [h, if_true]
        simp only [confident, List.filter_cons] at ih ⊢
        simp [hc, sumR, confEffIf, h, ih]
    · simp [h, sumR, confEffIf, ih]

theorem sumR_nonneg {l : List Rat} (h : ∀ x ∈ l, 0 ≤ x) : 0 ≤ sumR l := by
  induction l with
  | nil => simp [sumR]
  | cons x xs ih =>
    have h1 := h x (by simp)
    have h2 := ih (fun y hy => h y (by simp [hy]))
    simp only [sumR]; linarith

theorem prodR_nonneg {l : List Rat} (h : ∀ x ∈ l, 0 ≤ x) : 0 ≤ prodR l := by
  induction l with
  | nil => simp [prodR]
  | cons x xs ih =>
    have h1 := h x (by simp)
    have h2 := ih (fun y hy => h y (by simp [hy]))
    simp only [prodR]; positivity

/-! ## Part 3 — arithmetic of shares -/

/-- a share exceeds `t` iff the cross-multiplied inequality holds (non-negative sides and threshold) -/
theorem ratio_gt_iff {p b t : Rat} (hp : 0 ≤ p) (hb : 0 ≤ b) (ht : 0 ≤ t) :
    ((if p + b = 0 then 0 else p / (p + b)) > t) ↔ t * (p + b) < p := by
  by_cases h : p + b = 0
  · have hp0 : p = 0 := by linarith
    simp only [h, if_true]
    constructor
    · intro h'; linarith
    · intro h'; rw [hp0] at h'; simp at h'
  · have hpos : 0 < p + b := lt_of_le_of_ne (by linarith) (Ne.symm h)
    simp only [h, if_false]
    exact lt_div_iff₀ hpos

/-- generic monotonicity of "share of the permit side exceeds t": more for, less against, never loses -/
theorem share_mono {p b p' b' t d : Rat} (hp : 0 ≤ p) (hb' : 0 ≤ b') (hpp : p ≤ p') (hbb : b' ≤ b)
    (hd0 : 0 ≤ d) (hd1 : d ≤ 1)
    (h : (if p + b > 0 then p / (p + b) else d) > t) :
    (if p' + b' > 0 then p' / (p' + b') else d) > t := by
  by_cases h1 : p + b > 0
  · simp only [h1, if_true] at h
    have hx : t * (p + b) < p := (lt_div_iff₀ h1).mp h
    by_cases h2 : p' + b' > 0
    · simp only [h2, if_true]
      apply (lt_div_iff₀ h2).mpr
      rcases lt_trichotomy t 0 with ht | ht | ht
      · nlinarith
      · subst ht; nlinarith
      · by_cases ht1 : t ≤ 1
        · nlinarith [mul_le_mul_of_nonneg_right hpp (sub_nonneg.mpr ht1), mul_le_mul_of_nonneg_left hbb ht.le]
        · nlinarith
    · simp only [h2, if_false]
      have hp'0 : p' = 0 := by linarith
      have hp0 : p = 0 := by linarith
      have : t < 0 := by
        by_contra hc
        have : 0 ≤ t := by linarith
        nlinarith
      linarith
  · simp only [h1, if_false] at h
    have hp0 : p = 0 := by linarith
    have hb0 : b = 0 := by linarith
    have hb'0 : b' = 0 := by linarith
    by_cases h2 : p' + b' > 0
    · simp only [h2, if_true]
      have : p' / (p' + b') = 1 := by
        rw [hb'0, add_zero]; rw [hb'0, add_zero] at h2; exact div_self (ne_of_gt h2)
      rw [this]; linarith
    · simp only [h2, if_false]; exact h

/-! ## Part 4 — ballots related voter by voter -/

/-- two ballots of the same length related voter by voter -/
inductive Pointwise {α β : Type} (R : α → β → Prop) : List α → List β → Prop
  | nil : Pointwise R [] []
  | cons {a b as bs} : R a b → Pointwise R as bs → Pointwise R (a :: as) (b :: bs)

theorem Pointwise.length_eq {α β : Type} {R : α → β → Prop} {xs : List α} {ys : List β}
    (h : Pointwise R xs ys) : xs.length = ys.length := by
  induction h with
  | nil => rfl
  | cons _ _ ih => simp [ih]

theorem Pointwise.with_mem {α β : Type} {R : α → β → Prop} {Q : α → Prop} {xs : List α} {ys : List β}
    (h : Pointwise R xs ys) (hq : ∀ x ∈ xs, Q x) : Pointwise (fun x y => R x y ∧ Q x) xs ys := by
  induction h with
  | nil => exact .nil
  | cons hr _ ih =>
    exact .cons ⟨hr, hq _ (by simp)⟩ (ih (fun x hx => hq x (by simp [hx])))

theorem Pointwise.map {α β γ δ : Type} {R : α → β → Prop} {S : γ → δ → Prop} {f : α → γ} {g : β → δ}
    {xs : List α} {ys : List β} (h : Pointwise R xs ys) (hf : ∀ x y, R x y → S (f x) (g y)) :
    Pointwise S (xs.map f) (ys.map g) := by
  induction h with
  | nil => exact .nil
  | cons hr _ ih => exact .cons (hf _ _ hr) ih

theorem Pointwise.refl {α : Type} {R : α → α → Prop} (hr : ∀ x, R x x) (xs : List α) : Pointwise R xs xs := by
  induction xs with
  | nil => exact .nil
  | cons x xs ih => exact .cons (hr x) ih

theorem sumR_map_mono {R : Vote → Vote → Prop} {f g : Vote → Rat} (hfg : ∀ x y, R x y → f x ≤ g y)
    {xs ys : List Vote} (h : Pointwise R xs ys) : sumR (xs.map f) ≤ sumR (ys.map g) := by
  induction h with
  | nil => simp [sumR]
  | cons hr _ ih =>
    simp only [List.map_cons, sumR]
    have := hfg _ _ hr
    linarith

theorem sumR_map_eq {R : Vote → Vote → Prop} {f g : Vote → Rat} (hfg : ∀ x y, R x y → f x = g y)
    {xs ys : List Vote} (h : Pointwise R xs ys) : sumR (xs.map f) = sumR (ys.map g) := by
  induction h with
  | nil => simp [sumR]
  | cons hr _ ih =>
    simp only [List.map_cons, sumR]
    rw [hfg _ _ hr, ih]

theorem prodR_map_mono {R : Vote → Vote → Prop} {f g : Vote → Rat} (hfg : ∀ x y, R x y → 0 ≤ f x ∧ f x ≤ g y)
    {xs ys : List Vote} (h : Pointwise R xs ys) :
    0 ≤ prodR (xs.map f) ∧ prodR (xs.map f) ≤ prodR (ys.map g) := by
  induction h with
  | nil => simp [prodR]
  | cons hr _ ih =>
    simp only [List.map_cons, prodR]
    obtain ⟨h0, h1⟩ := hfg _ _ hr
    obtain ⟨i0, i1⟩ := ih
    constructor
    · positivity
    · exact mul_le_mul h1 i1 i0 (le_trans h0 h1)

theorem prodR_map_eq {R : Vote → Vote → Prop} {f g : Vote → Rat} (hfg : ∀ x y, R x y → f x = g y)
    {xs ys : List Vote} (h : Pointwise R xs ys) : prodR (xs.map f) = prodR (ys.map g) := by
  induction h with
  | nil => simp [prodR]
  | cons hr _ ih =>
    simp only [List.map_cons, prodR]
    rw [hfg _ _ hr, ih]

theorem count_mono {R : Vote → Vote → Prop} (k : VoteType) (hk : ∀ x y, R x y → x.kind = k → y.kind = k)
    {xs ys : List Vote} (h : Pointwise R xs ys) : (ofKind k xs).length ≤ (ofKind k ys).length := by
  induction h with
  | nil => simp [ofKind]
  | cons hr _ ih =>
    rename_i a b as bs _
    simp only [ofKind_cons]
    by_cases ha : a.kind = k
    · simp [ha, hk _ _ hr ha]; exact ih
    · by_cases hb : b.kind = k <;> simp [ha, hb] <;> omega

theorem count_eq {R : Vote → Vote → Prop} (k : VoteType) (hk : ∀ x y, R x y → (x.kind = k ↔ y.kind = k))
    {xs ys : List Vote} (h : Pointwise R xs ys) : (ofKind k xs).length = (ofKind k ys).length := by
  have h1 := count_mono k (fun x y r => (hk x y r).mp) h
  have h2 : (ofKind k ys).length ≤ (ofKind k xs).length := by
    induction h with
    | nil => simp [ofKind]
    | cons hr _ ih =>
      rename_i a b as bs hrest
      simp only [ofKind_cons]
      have ih' := ih (count_mono k (fun x y r => (hk x y r).mp) hrest)
      by_cases ha : a.kind = k
      · simp [ha, (hk _ _ hr).mp ha]; exact ih'
      · have hb : ¬ b.kind = k := fun hb => ha ((hk _ _ hr).mpr hb)
        simp [ha, hb]; exact ih'
  omega

/-! ## Part 5 — what each aggregator decides, over whole-ballot quantities -/

theorem foldl_permitStep (l : List Vote) (s : Belief) :
    l.foldl permitStep s = ⟨s.pp * prodR (l.map upF), s.pb * prodR (l.map downF)⟩ := by
  induction l generalizing s with
  | nil => simp [prodR]
  | cons v vs ih =>
    simp only [List.foldl_cons, ih, List.map_cons, prodR, permitStep, bayesUpdate, upF, downF]
    congr 1 <;> ring

theorem foldl_blockStep (l : List Vote) (s : Belief) :
    l.foldl blockStep s = ⟨s.pp * prodR (l.map downF), s.pb * prodR (l.map upF)⟩ := by
  induction l generalizing s with
  | nil => simp [prodR]
  | cons v vs ih =>
    simp only [List.foldl_cons, ih, List.map_cons, prodR, blockStep, bayesUpdate, upF, downF]
    congr 1 <;> ring

theorem prod_fP (vs : List Vote) :
    prodR ((ofKind .permit vs).map upF) * prodR ((ofKind .block vs).map downF) = prodR (vs.map fP) := by
  induction vs with
  | nil => simp [ofKind, prodR]
  | cons v vs ih =>
    simp only [ofKind_cons, List.map_cons, prodR]
    rcases kind_cases v.kind with h | h | h | h <;> simp [h, fP, prodR, ← ih] <;> ring

theorem prod_fB (vs : List Vote) :
    prodR ((ofKind .permit vs).map downF) * prodR ((ofKind .block vs).map upF) = prodR (vs.map fB) := by
  induction vs with
  | nil => simp [ofKind, prodR]
  | cons v vs ih =>
    simp only [ofKind_cons, List.map_cons, prodR]
    rcases kind_cases v.kind with h | h | h | h <;> simp [h, fB, prodR, ← ih] <;> ring

/-- the two loops of `_bayesian_vote` compute one product over the whole ballot per side -/
theorem belief_eq (vs : List Vote) : belief vs = ⟨beliefP vs, beliefB vs⟩ := by
  unfold belief beliefP beliefB
  rw [foldl_permitStep, foldl_blockStep]
  simp only [← prod_fP, ← prod_fB]
  congr 1 <;> ring

/-- What each aggregator decides, over whole-ballot counts / sums / products (still in the code's own
    "ratio > threshold" form). -/
def StratReached (cfg : Cfg) (n : Nat) (vs : List Vote) : Prop :=
  match cfg.strategy with
  | .majority =>
      (if nP vs + nB vs = 0 then (0 : Rat) else natR (nP vs) / natR (nP vs + nB vs))
        > effThreshold cfg.custom majorityThreshold
  | .supermajority =>
      (if nP vs + nB vs = 0 then (0 : Rat) else natR (nP vs) / natR (nP vs + nB vs))
        > effThreshold cfg.custom supermajorityThreshold
  | .unanimous => nB vs = 0 ∧ 0 < nP vs
  | .weighted =>
      (if sumR (vs.map (effIf .permit)) + sumR (vs.map (effIf .block)) = 0 then (0 : Rat)
        else sumR (vs.map (effIf .permit)) / (sumR (vs.map (effIf .permit)) + sumR (vs.map (effIf .block))))
        > effThreshold cfg.custom majorityThreshold
  | .confidence =>
      (if sumR (vs.map (confEffIf .permit)) + sumR (vs.map (confEffIf .block)) = 0 then (0 : Rat)
        else sumR (vs.map (confEffIf .permit)) /
          (sumR (vs.map (confEffIf .permit)) + sumR (vs.map (confEffIf .block))))
        > effThreshold cfg.custom majorityThreshold
  | .bayesian =>
      0 < nP vs ∧
      (if beliefP vs + beliefB vs > 0 then beliefP vs / (beliefP vs + beliefB vs) else posteriorFallback)
        > effThreshold cfg.custom majorityThreshold
  | .threshold => thresholdCount cfg n ≤ (nP vs : Int)

theorem reached_iff (cfg : Cfg) (n : Nat) (vs : List Vote) :
    (aggregate cfg n vs).reached = true ↔ cfg.minVoters ≤ nP vs + nB vs ∧ StratReached cfg n vs := by
  unfold aggregate
  rw [activeCount_eq]
  by_cases hg : nP vs + nB vs < cfg.minVoters
  · simp only [hg, if_true, gateResult]
    constructor
    · intro h; cases h
    · rintro ⟨h, -⟩; omega
  · simp only [hg, if_false]
    have hg' : cfg.minVoters ≤ nP vs + nB vs := by omega
    simp only [hg', true_and]
    unfold StratReached
    cases hs : cfg.strategy <;> simp only []
    · simp [countRatioVote, nP, nB]
    · simp [countRatioVote, nP, nB]
    · simp [unanimousVote, nP, nB]
    · simp [weightedVote, weightRatioResult, sum_ofKind]
    · simp [confidenceVote, weightRatioResult, sum_confident_ofKind]
    · simp [bayesianVote, belief_eq, posterior, nP]
    · simp [thresholdVote, nP]

/-- outside the `min_voters` gate the decision is PERMIT exactly when reached, else BLOCK; inside it ABSTAIN -/
theorem decision_eq (cfg : Cfg) (n : Nat) (vs : List Vote) :
    (aggregate cfg n vs).decision =
      if nP vs + nB vs < cfg.minVoters then .abstain else decisionOf (aggregate cfg n vs).reached := by
  unfold aggregate
  rw [activeCount_eq]
  by_cases hg : nP vs + nB vs < cfg.minVoters
  · simp [hg, gateResult]
  · simp only [hg, if_false]
    cases cfg.strategy <;> rfl

theorem counts_eq (cfg : Cfg) (n : Nat) (vs : List Vote) :
    (aggregate cfg n vs).total = vs.length ∧ (aggregate cfg n vs).permit = nP vs ∧
    (aggregate cfg n vs).block = nB vs ∧ (aggregate cfg n vs).abstain = nA vs ∧
    (aggregate cfg n vs).votes = vs := by
  unfold aggregate
  by_cases hg : activeCount vs < cfg.minVoters
  · simp [hg, gateResult, nP, nB, nA]
  · simp only [hg, if_false]
    cases cfg.strategy <;> simp [countRatioVote, unanimousVote, weightedVote, confidenceVote, weightRatioResult,
      bayesianVote, thresholdVote, nP, nB, nA]

/-! ## Part 6 — what one more favourable vote does to every quantity -/

theorem clamp01_nonneg (x : Rat) : 0 ≤ clamp01 x := by
  unfold clamp01; split_ifs <;> linarith

theorem clamp01_le_one (x : Rat) : clamp01 x ≤ 1 := by
  unfold clamp01; split_ifs <;> linarith

theorem clamp01_mono {x y : Rat} (h : x ≤ y) : clamp01 x ≤ clamp01 y := by
  unfold clamp01; split_ifs <;> linarith

theorem clamp01_of_mem {x : Rat} (h0 : 0 ≤ x) (h1 : x ≤ 1) : clamp01 x = x := by
  unfold clamp01; split_ifs <;> linarith

theorem upF_eq (v : Vote) : upF v = clamp01 (1 / 2 + likGain * (v.conf * v.weight)) := by
  obtain ⟨-, -, -, -, ha, hl, hc, -⟩ := const_facts
  unfold upF likelihood; rw [ha, hl, hc]; congr 1; ring

theorem downF_eq (v : Vote) : downF v = clamp01 (1 / 2 - likGain * (v.conf * v.weight)) := by
  obtain ⟨-, -, -, -, ha, hl, hc, -⟩ := const_facts
  unfold downF likelihood; rw [ha, hl, hc]; congr 1; ring

theorem likGain_pos : 0 < likGain := const_facts.2.2.2.2.2.2.2.1

theorem downF_le_upF {v : Vote} (hv : v.Valid) : downF v ≤ upF v := by
  rw [upF_eq, downF_eq]
  apply clamp01_mono
  have := likGain_pos
  have : 0 ≤ v.conf * v.weight := mul_nonneg hv.2 hv.1
  nlinarith

theorem half_le_upF {v : Vote} (hv : v.Valid) : 1 / 2 ≤ upF v := by
  rw [upF_eq]
  have := likGain_pos
  have h : 0 ≤ v.conf * v.weight := mul_nonneg hv.2 hv.1
  have : clamp01 (1 / 2) ≤ clamp01 (1 / 2 + likGain * (v.conf * v.weight)) := clamp01_mono (by nlinarith)
  have e : clamp01 (1 / 2 : Rat) = 1 / 2 := clamp01_of_mem (by norm_num) (by norm_num)
  rw [e] at this
  exact this

theorem downF_le_half {v : Vote} (hv : v.Valid) : downF v ≤ 1 / 2 := by
  rw [downF_eq]
  have := likGain_pos
  have h : 0 ≤ v.conf * v.weight := mul_nonneg hv.2 hv.1
  have : clamp01 (1 / 2 - likGain * (v.conf * v.weight)) ≤ clamp01 (1 / 2) := clamp01_mono (by nlinarith)
  have e : clamp01 (1 / 2 : Rat) = 1 / 2 := clamp01_of_mem (by norm_num) (by norm_num)
  rw [e] at this
  exact this

theorem Improves.valid {v v' : Vote} (h : Improves v v') (hv : v.Valid) : v'.Valid := by
  rcases h with h | ⟨-, -, hw, hc⟩ | ⟨-, -, hw, hc⟩
  · rw [h]; exact hv
  · exact ⟨by rw [hw]; exact hv.1, by rw [hc]; exact hv.2⟩
  · exact ⟨le_trans hv.1 hw, le_trans hv.2 hc⟩

theorem Improves.cw_le {v v' : Vote} (h : Improves v v') (hv : v.Valid) :
    v.conf * v.weight ≤ v'.conf * v'.weight := by
  rcases h with h | ⟨-, -, hw, hc⟩ | ⟨-, -, hw, hc⟩
  · rw [h]
  · rw [hw, hc]
  · exact mul_le_mul hc hw hv.1 (le_trans hv.2 hc)

theorem Improves.upF_le {v v' : Vote} (h : Improves v v') (hv : v.Valid) : upF v ≤ upF v' := by
  rw [upF_eq, upF_eq]; apply clamp01_mono
  have := likGain_pos; have := h.cw_le hv; nlinarith

theorem Improves.downF_le {v v' : Vote} (h : Improves v v') (hv : v.Valid) : downF v' ≤ downF v := by
  rw [downF_eq, downF_eq]; apply clamp01_mono
  have := likGain_pos; have := h.cw_le hv; nlinarith

theorem fP_nonneg (v : Vote) : 0 ≤ fP v := by
  unfold fP; split <;> first | exact clamp01_nonneg _ | norm_num

theorem fB_nonneg (v : Vote) : 0 ≤ fB v := by
  unfold fB; split <;> first | exact clamp01_nonneg _ | norm_num

/-- a more favourable vote scales the permit belief by at least as much … -/
theorem Improves.fP_le {v v' : Vote} (h : Improves v v') (hv : v.Valid) : fP v ≤ fP v' := by
  have hup := h.upF_le hv
  have hv' := h.valid hv
  rcases h with h | ⟨hk, hk', -, -⟩ | ⟨hk, hk', -, -⟩
  · rw [h]
  · simp only [fP, hk, hk']
    exact le_trans (downF_le_upF hv) hup
  · simp only [fP, hk, hk']; exact hup

/-- … and the block belief by at most as much -/
theorem Improves.fB_le {v v' : Vote} (h : Improves v v') (hv : v.Valid) : fB v' ≤ fB v := by
  have hdown := h.downF_le hv
  have hv' := h.valid hv
  rcases h with h | ⟨hk, hk', -, -⟩ | ⟨hk, hk', -, -⟩
  · rw [h]
  · simp only [fB, hk, hk']
    exact le_trans hdown (downF_le_upF hv)
  · simp only [fB, hk, hk']; exact hdown

theorem eff_nonneg {v : Vote} (hv : v.Valid) : 0 ≤ v.eff := mul_nonneg hv.1 hv.2

theorem effIf_nonneg (k : VoteType) {v : Vote} (hv : v.Valid) : 0 ≤ effIf k v := by
  unfold effIf; split_ifs; exact eff_nonneg hv; exact le_refl 0

theorem confEffIf_nonneg (k : VoteType) {v : Vote} (hv : v.Valid) : 0 ≤ confEffIf k v := by
  unfold confEffIf; split_ifs; exact eff_nonneg hv; exact le_refl 0

theorem Improves.eff_le {v v' : Vote} (h : Improves v v') (hv : v.Valid) : v.eff ≤ v'.eff := by
  have := h.cw_le hv
  unfold Vote.eff; linarith [mul_comm v.conf v.weight, mul_comm v'.conf v'.weight]

theorem Improves.effIf_permit_le {v v' : Vote} (h : Improves v v') (hv : v.Valid) :
    effIf .permit v ≤ effIf .permit v' := by
  have he := h.eff_le hv
  have hv' := h.valid hv
  rcases h with h | ⟨hk, hk', -, -⟩ | ⟨hk, hk', -, -⟩
  · rw [h]
  · simp [effIf, hk, hk']; exact eff_nonneg hv'
  · simp [effIf, hk, hk']; exact he

theorem Improves.effIf_block_le {v v' : Vote} (h : Improves v v') (hv : v.Valid) :
    effIf .block v' ≤ effIf .block v := by
  rcases h with h | ⟨hk, hk', -, -⟩ | ⟨hk, hk', -, -⟩
  · rw [h]
  · simp [effIf, hk, hk']; exact eff_nonneg hv
  · simp [effIf, hk, hk']

theorem Improves.confEffIf_permit_le {v v' : Vote} (h : Improves v v') (hv : v.Valid) :
    confEffIf .permit v ≤ confEffIf .permit v' := by
  have he := h.eff_le hv
  have hv' := h.valid hv
  rcases h with h | ⟨hk, hk', hw, hc⟩ | ⟨hk, hk', hw, hc⟩
  · rw [h]
  · simp only [confEffIf, hk, hk']
    simp
    split_ifs
    exact eff_nonneg hv'; exact le_refl 0
  · simp only [confEffIf, hk, hk', true_and]
    by_cases h1 : v.conf ≥ confidenceMin
    · have h2 : v'.conf ≥ confidenceMin := le_trans h1 hc
      simp [h1, h2]; exact he
    · simp only [h1, if_false]
      split_ifs
      exact eff_nonneg hv'; exact le_refl 0

theorem Improves.confEffIf_block_le {v v' : Vote} (h : Improves v v') (hv : v.Valid) :
    confEffIf .block v' ≤ confEffIf .block v := by
  rcases h with h | ⟨hk, hk', hw, hc⟩ | ⟨hk, hk', hw, hc⟩
  · rw [h]
  · simp only [confEffIf, hk, hk']
    simp
    split_ifs
    exact eff_nonneg hv; exact le_refl 0
  · simp [confEffIf, hk, hk']

theorem Improves.permit_stays {v v' : Vote} (h : Improves v v') (hk : v.kind = .permit) : v'.kind = .permit := by
  rcases h with h | ⟨hk1, hk', -, -⟩ | ⟨-, hk', -, -⟩
  · rw [h]; exact hk
  · exact hk'
  · exact hk'

theorem Improves.block_was {v v' : Vote} (h : Improves v v') (hk : v'.kind = .block) : v.kind = .block := by
  rcases h with h | ⟨hk1, hk', -, -⟩ | ⟨-, hk', -, -⟩
  · rw [← h]; exact hk
  · rw [hk'] at hk; cases hk
  · rw [hk'] at hk; cases hk

theorem Improves.idle_iff {v v' : Vote} (h : Improves v v') (k : VoteType) (hk : k = .abstain ∨ k = .defer) :
    v.kind = k ↔ v'.kind = k := by
  rcases h with h | ⟨hk1, hk', -, -⟩ | ⟨hk1, hk', -, -⟩
  · rw [h]
  · rw [hk1, hk']; rcases hk with rfl | rfl <;> simp
  · rw [hk1, hk']

/-! ## Part 7 — monotonicity of every aggregator -/

/-- "the permit side's share of what was cast exceeds `t`", in the code's form -/
def shareGt (p b t : Rat) : Prop := (if p + b = 0 then 0 else p / (p + b)) > t

theorem shareGt_iff {p b t : Rat} (hp : 0 ≤ p) (hb : 0 ≤ b) (ht : 0 ≤ t) : shareGt p b t ↔ t * (p + b) < p :=
  ratio_gt_iff hp hb ht

theorem ratio_form {p b : Rat} (hp : 0 ≤ p) (hb : 0 ≤ b) (d : Rat) :
    (if p + b = 0 then d else p / (p + b)) = (if p + b > 0 then p / (p + b) else d) := by
  by_cases h : p + b = 0
  · simp [h]
  · have : p + b > 0 := lt_of_le_of_ne (by linarith) (Ne.symm h)
    simp [h, this]

theorem shareGt_mono {p b p' b' t : Rat} (hp : 0 ≤ p) (hb' : 0 ≤ b') (hpp : p ≤ p') (hbb : b' ≤ b)
    (h : shareGt p b t) : shareGt p' b' t := by
  unfold shareGt at *
  rw [ratio_form hp (by linarith)] at h
  rw [ratio_form (by linarith) hb']
  exact share_mono hp hb' hpp hbb (le_refl 0) (by norm_num) h

theorem count_share (p b : Nat) (t : Rat) :
    ((if p + b = 0 then (0 : Rat) else natR p / natR (p + b)) > t) ↔ shareGt (p : Rat) (b : Rat) t := by
  unfold shareGt natR
  by_cases h : p + b = 0
  · have : (p : Rat) + (b : Rat) = 0 := by exact_mod_cast h
    simp [h, this]
  · have : ¬ ((p : Rat) + (b : Rat) = 0) := by exact_mod_cast h
    simp only [h, this, if_false]
    push_cast
    exact Iff.rfl

theorem Pointwise.flip {α β : Type} {R : α → β → Prop} {xs : List α} {ys : List β} (h : Pointwise R xs ys) :
    Pointwise (fun y x => R x y) ys xs := by
  induction h with
  | nil => exact .nil
  | cons hr _ ih => exact .cons hr ih

/-- counts under a voter-by-voter improvement: permits can only grow, blocks only shrink, idle votes and the
    number of active votes stay -/
theorem improves_counts {vs vs' : List Vote} (h : Pointwise Improves vs vs') :
    nP vs ≤ nP vs' ∧ nB vs' ≤ nB vs ∧ nP vs + nB vs = nP vs' + nB vs' ∧ vs.length = vs'.length := by
  have h1 : nP vs ≤ nP vs' := count_mono .permit (fun x y r => r.permit_stays) h
  have h2 : nB vs' ≤ nB vs := count_mono .block (fun y x (r : Improves x y) => r.block_was) h.flip
  have h3 : nA vs = nA vs' := count_eq .abstain (fun x y r => r.idle_iff .abstain (Or.inl rfl)) h
  have h4 : nD vs = nD vs' := count_eq .defer (fun x y r => r.idle_iff .defer (Or.inr rfl)) h
  have h5 := h.length_eq
  have := length_partition vs
  have := length_partition vs'
  refine ⟨h1, h2, by omega, h5⟩

theorem Pointwise.forall_right {α β : Type} {R : α → β → Prop} {Q : β → Prop} {xs : List α} {ys : List β}
    (h : Pointwise R xs ys) (hq : ∀ x y, R x y → Q y) : ∀ y ∈ ys, Q y := by
  induction h with
  | nil => intro y hy; cases hy
  | cons hr _ ih =>
    intro y hy
    rcases List.mem_cons.mp hy with rfl | hy
    · exact hq _ _ hr
    · exact ih y hy

theorem sum_effIf_nonneg (k : VoteType) {vs : List Vote} (hv : ∀ v ∈ vs, v.Valid) : 0 ≤ sumR (vs.map (effIf k)) := by
  apply sumR_nonneg; intro x hx; rw [List.mem_map] at hx; obtain ⟨v, hv', rfl⟩ := hx
  exact effIf_nonneg _ (hv v hv')

theorem sum_confEffIf_nonneg (k : VoteType) {vs : List Vote} (hv : ∀ v ∈ vs, v.Valid) :
    0 ≤ sumR (vs.map (confEffIf k)) := by
  apply sumR_nonneg; intro x hx; rw [List.mem_map] at hx; obtain ⟨v, hv', rfl⟩ := hx
  exact confEffIf_nonneg _ (hv v hv')

theorem prod_fP_nonneg (vs : List Vote) : 0 ≤ prodR (vs.map fP) := by
  apply prodR_nonneg; intro x hx; rw [List.mem_map] at hx; obtain ⟨v, -, rfl⟩ := hx; exact fP_nonneg v

theorem prod_fB_nonneg (vs : List Vote) : 0 ≤ prodR (vs.map fB) := by
  apply prodR_nonneg; intro x hx; rw [List.mem_map] at hx; obtain ⟨v, -, rfl⟩ := hx; exact fB_nonneg v

theorem priorBlock_pos : 0 < priorBlock := by
  have := const_facts.2.2.2.2.2.2.2.2; rw [← this.1]; exact this.2.1

theorem priorPermit_pos : 0 < priorPermit := const_facts.2.2.2.2.2.2.2.2.2.1

theorem beliefP_nonneg (vs : List Vote) : 0 ≤ beliefP vs :=
  mul_nonneg priorPermit_pos.le (prod_fP_nonneg vs)

theorem beliefB_nonneg (vs : List Vote) : 0 ≤ beliefB vs :=
  mul_nonneg priorBlock_pos.le (prod_fB_nonneg vs)

/-- Voter-by-voter improvement of a valid ballot never loses what an aggregator had decided in favour. -/
theorem stratReached_mono (cfg : Cfg) (n : Nat) {vs vs' : List Vote} (h : Pointwise Improves vs vs')
    (hv : ∀ v ∈ vs, v.Valid) (hr : StratReached cfg n vs) : StratReached cfg n vs' := by
  obtain ⟨c1, c2, c3, -⟩ := improves_counts h
  have hw := h.with_mem hv
  have hv' : ∀ v ∈ vs', v.Valid := hw.forall_right (fun x y r => r.1.valid r.2)
  have hP : (nP vs : Rat) ≤ (nP vs' : Rat) := by exact_mod_cast c1
  have hB : (nB vs' : Rat) ≤ (nB vs : Rat) := by exact_mod_cast c2
  have hP0 : (0 : Rat) ≤ (nP vs : Rat) := by positivity
  have hB0 : (0 : Rat) ≤ (nB vs' : Rat) := by positivity
  unfold StratReached at *
  cases hs : cfg.strategy <;> simp only [hs] at hr ⊢
  · rw [count_share] at hr ⊢; exact shareGt_mono hP0 hB0 hP hB hr
  · rw [count_share] at hr ⊢; exact shareGt_mono hP0 hB0 hP hB hr
  · omega
  · exact shareGt_mono (sum_effIf_nonneg _ hv) (sum_effIf_nonneg _ hv')
      (sumR_map_mono (fun x y r => r.1.effIf_permit_le r.2) hw)
      (sumR_map_mono (fun y x (r : Improves x y ∧ x.Valid) => r.1.effIf_block_le r.2) hw.flip) hr
  · exact shareGt_mono (sum_confEffIf_nonneg _ hv) (sum_confEffIf_nonneg _ hv')
      (sumR_map_mono (fun x y r => r.1.confEffIf_permit_le r.2) hw)
      (sumR_map_mono (fun y x (r : Improves x y ∧ x.Valid) => r.1.confEffIf_block_le r.2) hw.flip) hr
  · refine ⟨by omega, ?_⟩
    have p1 := prodR_map_mono (f := fP) (g := fP) (fun x y (r : Improves x y ∧ x.Valid) => ⟨fP_nonneg x, r.1.fP_le r.2⟩) hw
    have p2 := prodR_map_mono (f := fB) (g := fB)
      (fun y x (r : Improves x y ∧ x.Valid) => ⟨fB_nonneg y, r.1.fB_le r.2⟩) hw.flip
    have hpp : beliefP vs ≤ beliefP vs' := mul_le_mul_of_nonneg_left p1.2 priorPermit_pos.le
    have hbb : beliefB vs' ≤ beliefB vs := mul_le_mul_of_nonneg_left p2.2 priorBlock_pos.le
    exact share_mono (beliefP_nonneg vs) (beliefB_nonneg vs') hpp hbb const_facts.2.2.2.2.2.2.2.2.2.2.1
      const_facts.2.2.2.2.2.2.2.2.2.2.2 hr.2
  · omega

/-! ## Part 8 — the division-free criterion; no decision in favour without a permit vote -/

/-- the rounded count of the code says exactly what `CountMet` says -/
theorem thresholdCount_le_iff (cfg : Cfg) (hn : NonNegThreshold cfg) (n p : Nat) :
    thresholdCount cfg n ≤ (p : Int) ↔ CountMet cfg n p := by
  unfold thresholdCount CountMet effThreshold
  have hdef' : ∀ m q : Nat, (natR m).ceil ≤ (q : Int) ↔ m ≤ q := by
    intro m q
    rw [Rat.ceil_le_iff]; unfold natR
    constructor
    · intro h; exact_mod_cast h
    · intro h; exact_mod_cast h
  have hdef : ∀ q : Nat, (natR (n / 2 + 1)).ceil ≤ (q : Int) ↔ n / 2 + 1 ≤ q := fun q => hdef' _ q
  have hbig : ¬ (0 < natR (n / 2 + 1) ∧ natR (n / 2 + 1) < 1) := by
    rintro ⟨-, h⟩
    unfold natR at h
    have : ((n / 2 + 1 : Nat) : Rat) ≥ 1 := by exact_mod_cast Nat.le_add_left 1 (n / 2)
    linarith
  cases hc : cfg.custom with
  | none => simp only [hbig, if_false]; exact hdef p
  | some t =>
    have ht := hn t hc
    by_cases h0 : t = 0
    · simp only [h0, if_true, hbig, if_false]; exact hdef p
    · simp only [h0, if_false]
      have hpos : 0 < t := lt_of_le_of_ne ht (Ne.symm h0)
      by_cases h1 : t < 1
      · simp only [hpos, h1, and_self, if_true]
        rw [Int.max_le, Rat.ceil_le_iff]
        constructor
        · rintro ⟨a, b⟩; exact ⟨by simpa [natR] using b, by exact_mod_cast a⟩
        · rintro ⟨a, b⟩; exact ⟨by exact_mod_cast b, by simpa [natR] using a⟩
      · simp only [h1, and_false, if_false]
        rw [Rat.ceil_le_iff]; simp

theorem bayes_share_iff {p b t d : Rat} (hp : 0 ≤ p) (hb : 0 ≤ b) :
    ((if p + b > 0 then p / (p + b) else d) > t) ↔ ((0 < p + b ∧ t * (p + b) < p) ∨ (p + b = 0 ∧ t < d)) := by
  by_cases h : p + b > 0
  · rw [if_pos h, gt_iff_lt, lt_div_iff₀ h]
    constructor
    · intro hx; exact Or.inl ⟨h, hx⟩
    · rintro (⟨-, hx⟩ | ⟨h0, -⟩)
      · exact hx
      · linarith
  · rw [if_neg h]
    have h0 : p + b = 0 := by linarith
    constructor
    · intro hx; exact Or.inr ⟨h0, hx⟩
    · rintro (⟨h1, -⟩ | ⟨-, hx⟩)
      · exact absurd h1 h
      · exact hx

/-- the decision of every aggregator, restated as the division-free criterion -/
theorem stratReached_iff_criterion (cfg : Cfg) (hn : NonNegThreshold cfg) (n : Nat) {vs : List Vote}
    (hv : ∀ v ∈ vs, v.Valid) :
    (cfg.minVoters ≤ nP vs + nB vs ∧ StratReached cfg n vs) ↔ Criterion cfg n vs := by
  unfold Criterion StratReached
  have hP0 : (0 : Rat) ≤ (nP vs : Rat) := by positivity
  have hB0 : (0 : Rat) ≤ (nB vs : Rat) := by positivity
  have htm := effThreshold_nonneg const_facts.1 hn
  have hts := effThreshold_nonneg const_facts.2.2.1 hn
  apply and_congr_right; intro _
  cases hs : cfg.strategy <;> simp only []
  · rw [count_share, shareGt_iff hP0 hB0 htm]; push_cast; exact Iff.rfl
  · rw [count_share, shareGt_iff hP0 hB0 hts]; push_cast; exact Iff.rfl
  · exact shareGt_iff (sum_effIf_nonneg _ hv) (sum_effIf_nonneg _ hv) htm
  · exact shareGt_iff (sum_confEffIf_nonneg _ hv) (sum_confEffIf_nonneg _ hv) htm
  · rw [bayes_share_iff (beliefP_nonneg vs) (beliefB_nonneg vs)]
  · exact thresholdCount_le_iff cfg hn n (nP vs)

theorem sum_effIf_zero_of_none (k : VoteType) {vs : List Vote} (h : ∀ v ∈ vs, v.kind ≠ k) :
    sumR (vs.map (effIf k)) = 0 := by
  induction vs with
  | nil => simp [sumR]
  | cons v vs ih =>
    have h1 := h v (by simp)
    simp only [List.map_cons, sumR, effIf, h1, if_false]
    rw [ih (fun x hx => h x (by simp [hx]))]; simp

theorem sum_confEffIf_zero_of_none (k : VoteType) {vs : List Vote} (h : ∀ v ∈ vs, v.kind ≠ k) :
    sumR (vs.map (confEffIf k)) = 0 := by
  induction vs with
  | nil => simp [sumR]
  | cons v vs ih =>
    have h1 := h v (by simp)
    simp only [List.map_cons, sumR, confEffIf, h1, false_and, if_false]
    rw [ih (fun x hx => h x (by simp [hx]))]; simp

theorem countMet_pos (cfg : Cfg) (hn : NonNegThreshold cfg) (n p : Nat) (hc : CountMet cfg n p) : 0 < p := by
  by_contra h0
  have hz : p = 0 := by omega
  unfold CountMet at hc
  rw [hz] at hc
  cases hcu : cfg.custom with
  | none => simp [hcu] at hc
  | some t =>
    have ht := hn t hcu
    simp only [hcu] at hc
    by_cases h0 : t = 0
    · simp [h0] at hc
    · simp only [h0, if_false] at hc
      by_cases h1 : t < 1
      · simp [h1] at hc
      · simp only [h1, if_false] at hc
        have : t ≤ 0 := by simpa using hc
        exact h0 (le_antisymm this ht)

/-- no aggregator decides in favour of a ballot without a permit vote (thresholds not negative; no assumption
    on weights or confidences) -/
theorem stratReached_needs_permit (cfg : Cfg) (hn : NonNegThreshold cfg) (n : Nat) (vs : List Vote)
    (hc : StratReached cfg n vs) : 0 < nP vs := by
  by_contra h0
  have hz : nP vs = 0 := by omega
  have hnone : ∀ v ∈ vs, v.kind ≠ .permit := by
    intro v hv hk
    have := (nP_pos_iff vs).mpr ⟨v, hv, hk⟩
    omega
  have htm := effThreshold_nonneg const_facts.1 hn
  have hts := effThreshold_nonneg const_facts.2.2.1 hn
  unfold StratReached at hc
  cases hs : cfg.strategy <;> simp only [hs] at hc
  · rw [hz] at hc; simp [natR] at hc; linarith
  · rw [hz] at hc; simp [natR] at hc; linarith
  · omega
  · rw [sum_effIf_zero_of_none _ hnone] at hc
    simp at hc; linarith
  · rw [sum_confEffIf_zero_of_none _ hnone] at hc
    simp at hc; linarith
  · omega
  · have := countMet_pos cfg hn n _ ((thresholdCount_le_iff cfg hn n _).mp hc)
    omega

/-! ## Part 9 — unanimous permit -/

theorem shareGt_self {p t : Rat} (hp : 0 < p) (ht : t < 1) : shareGt p 0 t := by
  unfold shareGt
  have : ¬ (p + 0 = 0) := by linarith
  rw [if_neg this, add_zero, div_self (ne_of_gt hp)]
  exact ht

theorem sumR_pos {l : List Rat} (h : ∀ x ∈ l, 0 ≤ x) (hp : ∃ x ∈ l, 0 < x) : 0 < sumR l := by
  induction l with
  | nil => obtain ⟨x, hx, -⟩ := hp; cases hx
  | cons y ys ih =>
    have h1 := h y (by simp)
    have h2 : 0 ≤ sumR ys := sumR_nonneg (fun z hz => h z (by simp [hz]))
    obtain ⟨x, hx, hx0⟩ := hp
    simp only [sumR]
    rcases List.mem_cons.mp hx with rfl | hx
    · linarith
    · have := ih (fun z hz => h z (by simp [hz])) ⟨x, hx, hx0⟩
      linarith

theorem nB_zero_of_all_permit {vs : List Vote} (hall : ∀ v ∈ vs, v.kind = .permit) : nB vs = 0 := by
  by_contra h
  have : 0 < nB vs := by omega
  obtain ⟨v, hv, hk⟩ := (nB_pos_iff vs).mp this
  rw [hall v hv] at hk; cases hk

theorem nP_of_all_permit {vs : List Vote} (hall : ∀ v ∈ vs, v.kind = .permit) : nP vs = vs.length := by
  unfold nP ofKind
  rw [List.filter_eq_self.mpr]
  intro v hv; simpa using hall v hv

theorem half_lt_upF {v : Vote} (_hv : v.Valid) (he : 0 < v.eff) : 1 / 2 < upF v := by
  rw [upF_eq]
  have hg := likGain_pos
  have hx : 0 < v.conf * v.weight := by unfold Vote.eff at he; linarith [mul_comm v.conf v.weight]
  have : 0 < likGain * (v.conf * v.weight) := mul_pos hg hx
  unfold clamp01; split_ifs <;> linarith

/-- on an all-permit valid ballot the permit belief product is positive and at least the block one; strictly
    more as soon as one permit carries positive effective weight -/
theorem unanimous_products {vs : List Vote} (hall : ∀ v ∈ vs, v.kind = .permit) (hv : ∀ v ∈ vs, v.Valid) :
    0 < prodR (vs.map fP) ∧ prodR (vs.map fB) ≤ prodR (vs.map fP) ∧
    ((∃ v ∈ vs, 0 < v.eff) → prodR (vs.map fB) < prodR (vs.map fP)) := by
  induction vs with
  | nil => simp [prodR]
  | cons v vs ih =>
    have hk := hall v (by simp)
    have hvv := hv v (by simp)
    obtain ⟨i1, i2, i3⟩ := ih (fun x hx => hall x (by simp [hx])) (fun x hx => hv x (by simp [hx]))
    have hfP : fP v = upF v := by simp [fP, hk]
    have hfB : fB v = downF v := by simp [fB, hk]
    have hup := half_le_upF hvv
    have hdown := downF_le_half hvv
    have hd0 : 0 ≤ downF v := by rw [downF]; exact clamp01_nonneg _
    have hB0 : 0 ≤ prodR (vs.map fB) := prod_fB_nonneg vs
    simp only [List.map_cons, prodR, hfP, hfB]
    refine ⟨by positivity, ?_, ?_⟩
    · exact mul_le_mul (by linarith) i2 hB0 (by linarith)
    · rintro ⟨x, hx, hx0⟩
      rcases List.mem_cons.mp hx with rfl | hx
      · have := half_lt_upF hvv hx0
        calc downF x * prodR (vs.map fB) ≤ downF x * prodR (vs.map fP) := mul_le_mul_of_nonneg_left i2 hd0
          _ < upF x * prodR (vs.map fP) := mul_lt_mul_of_pos_right (by linarith) i1
      · have := i3 ⟨x, hx, hx0⟩
        calc downF v * prodR (vs.map fB) ≤ upF v * prodR (vs.map fB) := mul_le_mul_of_nonneg_right (by linarith) hB0
          _ < upF v * prodR (vs.map fP) := mul_lt_mul_of_pos_left this (by linarith)

theorem natR_ceil (m : Nat) : (natR m).ceil = (m : Int) := by
  have : natR m = ((m : Int) : Rat) := by simp [natR]
  rw [this, Rat.ceil_intCast]

theorem rat_ceil_mono {a b : Rat} (h : a ≤ b) : a.ceil ≤ b.ceil := by
  rw [Rat.ceil_le_iff]; exact le_trans h Rat.le_ceil

/-- a unanimous-permit electorate meets every attainable, supported criterion -/
theorem stratReached_of_unanimous (cfg : Cfg) {vs : List Vote} (hne : vs ≠ [])
    (hall : ∀ v ∈ vs, v.kind = .permit) (hv : ∀ v ∈ vs, v.Valid)
    (ha : Attainable cfg vs.length) (hsup : Supported cfg vs) : StratReached cfg vs.length vs := by
  have hB := nB_zero_of_all_permit hall
  have hP := nP_of_all_permit hall
  have hlen : 0 < vs.length := List.length_pos_iff.mpr hne
  have hPr : (0 : Rat) < (nP vs : Rat) := by rw [hP]; exact_mod_cast hlen
  have hnoblock : ∀ v ∈ vs, v.kind ≠ .block := by intro v h1 h2; rw [hall v h1] at h2; cases h2
  unfold StratReached
  unfold Attainable at ha
  unfold Supported at hsup
  cases hs : cfg.strategy <;> simp only [hs] at ha hsup ⊢
  · rw [count_share, hB]; simpa using shareGt_self hPr ha
  · rw [count_share, hB]; simpa using shareGt_self hPr ha
  · omega
  · rw [sum_effIf_zero_of_none _ hnoblock]
    apply shareGt_self _ ha
    apply sumR_pos
    · intro x hx; rw [List.mem_map] at hx; obtain ⟨v, hv', rfl⟩ := hx; exact effIf_nonneg _ (hv v hv')
    · obtain ⟨v, h1, h2, h3⟩ := hsup
      exact ⟨effIf .permit v, List.mem_map.mpr ⟨v, h1, rfl⟩, by simp [effIf, h2, h3]⟩
  · rw [sum_confEffIf_zero_of_none _ hnoblock]
    apply shareGt_self _ ha
    apply sumR_pos
    · intro x hx; rw [List.mem_map] at hx; obtain ⟨v, hv', rfl⟩ := hx; exact confEffIf_nonneg _ (hv v hv')
    · obtain ⟨v, h1, h2, h3, h4⟩ := hsup
      exact ⟨confEffIf .permit v, List.mem_map.mpr ⟨v, h1, rfl⟩, by simp [confEffIf, h2, h3, h4]⟩
  · refine ⟨by omega, ?_⟩
    obtain ⟨p1, p2, p3⟩ := unanimous_products hall hv
    have hlt : prodR (vs.map fB) < prodR (vs.map fP) := by
      obtain ⟨v, h1, -, h3⟩ := hsup; exact p3 ⟨v, h1, h3⟩
    have hpe : priorPermit = priorBlock := const_facts.2.2.2.2.2.2.2.2.1
    have hpp := priorPermit_pos
    have hbP : 0 < beliefP vs := mul_pos hpp p1
    have hbB : beliefB vs < beliefP vs := by
      unfold beliefB beliefP; rw [← hpe]; exact mul_lt_mul_of_pos_left hlt hpp
    have hbB0 := beliefB_nonneg vs
    rw [bayes_share_iff hbP.le hbB0]
    left
    refine ⟨by linarith, ?_⟩
    have : effThreshold cfg.custom majorityThreshold * (beliefP vs + beliefB vs)
        ≤ 1 / 2 * (beliefP vs + beliefB vs) := mul_le_mul_of_nonneg_right ha (by linarith)
    linarith
  · unfold thresholdCount effThreshold
    have hbig : ¬ (0 < natR (vs.length / 2 + 1) ∧ natR (vs.length / 2 + 1) < 1) := by
      rintro ⟨-, h⟩
      unfold natR at h
      have : ((vs.length / 2 + 1 : Nat) : Rat) ≥ 1 := by exact_mod_cast Nat.le_add_left 1 (vs.length / 2)
      linarith
    have hdef : (natR (vs.length / 2 + 1)).ceil ≤ (nP vs : Int) := by
      rw [natR_ceil, hP]; omega
    have hnR : (0 : Rat) ≤ natR vs.length := by unfold natR; positivity
    cases hc : cfg.custom with
    | none => simp only [hbig, if_false]; exact hdef
    | some t =>
      simp only [hc] at ha
      by_cases h0 : t = 0
      · simp only [h0, if_true, hbig, if_false]; exact hdef
      · simp only [h0, if_false]
        by_cases h1 : 0 < t ∧ t < 1
        · simp only [h1, and_self, if_true]
          rw [Int.max_le, Rat.ceil_le_iff, hP]
          refine ⟨by omega, ?_⟩
          have : t * natR vs.length ≤ 1 * natR vs.length := mul_le_mul_of_nonneg_right h1.2.le hnR
          simpa [natR] using this
        · rw [if_neg h1, Rat.ceil_le_iff, hP]
          rcases ha with ha | ha
          · have : t ≤ 0 := by
              by_contra hc'; exact h1 ⟨by linarith, ha⟩
            have : t ≤ natR vs.length := by linarith
            simpa [natR] using this
          · simpa using ha

/-! ## Part 10 — idle votes (abstain, failed, defer) are never support -/

theorem Vote.Idle.not_permit {v : Vote} (h : v.Idle) : v.kind ≠ .permit := by
  rcases h with h | h <;> rw [h] <;> simp
theorem Vote.Idle.not_block {v : Vote} (h : v.Idle) : v.kind ≠ .block := by
  rcases h with h | h <;> rw [h] <;> simp

theorem idle_effIf {v : Vote} (h : v.Idle) (k : VoteType) (hk : k = .permit ∨ k = .block) : effIf k v = 0 := by
  unfold effIf; rcases hk with rfl | rfl
  · simp [h.not_permit]
  · simp [h.not_block]

theorem idle_confEffIf {v : Vote} (h : v.Idle) (k : VoteType) (hk : k = .permit ∨ k = .block) :
    confEffIf k v = 0 := by
  unfold confEffIf; rcases hk with rfl | rfl
  · simp [h.not_permit]
  · simp [h.not_block]

theorem idle_fP {v : Vote} (h : v.Idle) : fP v = 1 := by
  unfold fP; rcases h with h | h <;> simp [h]
theorem idle_fB {v : Vote} (h : v.Idle) : fB v = 1 := by
  unfold fB; rcases h with h | h <;> simp [h]

/-- replacing idle votes (abstain / failed / defer) by other idle votes — any weight, any confidence — changes
    nothing any aggregator looks at -/
theorem stratReached_idle_irrelevant (cfg : Cfg) (n : Nat) {vs vs' : List Vote}
    (h : Pointwise SameUpToIdle vs vs') :
    nP vs = nP vs' ∧ nB vs = nB vs' ∧ (StratReached cfg n vs ↔ StratReached cfg n vs') := by
  have kP : ∀ x y, SameUpToIdle x y → (x.kind = .permit ↔ y.kind = .permit) := by
    rintro x y (rfl | ⟨hx, hy⟩)
    · exact Iff.rfl
    · exact ⟨fun hh => absurd hh hx.not_permit, fun hh => absurd hh hy.not_permit⟩
  have kB : ∀ x y, SameUpToIdle x y → (x.kind = .block ↔ y.kind = .block) := by
    rintro x y (rfl | ⟨hx, hy⟩)
    · exact Iff.rfl
    · exact ⟨fun hh => absurd hh hx.not_block, fun hh => absurd hh hy.not_block⟩
  have c1 : nP vs = nP vs' := count_eq .permit kP h
  have c2 : nB vs = nB vs' := count_eq .block kB h
  have e (k : VoteType) (hk : k = .permit ∨ k = .block) : sumR (vs.map (effIf k)) = sumR (vs'.map (effIf k)) :=
    sumR_map_eq (by
      rintro x y (rfl | ⟨hx, hy⟩)
      · rfl
      · rw [idle_effIf hx k hk, idle_effIf hy k hk]) h
  have ec (k : VoteType) (hk : k = .permit ∨ k = .block) :
      sumR (vs.map (confEffIf k)) = sumR (vs'.map (confEffIf k)) :=
    sumR_map_eq (by
      rintro x y (rfl | ⟨hx, hy⟩)
      · rfl
      · rw [idle_confEffIf hx k hk, idle_confEffIf hy k hk]) h
  have pP : prodR (vs.map fP) = prodR (vs'.map fP) :=
    prodR_map_eq (by
      rintro x y (rfl | ⟨hx, hy⟩)
      · rfl
      · rw [idle_fP hx, idle_fP hy]) h
  have pB : prodR (vs.map fB) = prodR (vs'.map fB) :=
    prodR_map_eq (by
      rintro x y (rfl | ⟨hx, hy⟩)
      · rfl
      · rw [idle_fB hx, idle_fB hy]) h
  refine ⟨c1, c2, ?_⟩
  unfold StratReached beliefP beliefB
  rw [c1, c2, e .permit (Or.inl rfl), e .block (Or.inr rfl), ec .permit (Or.inl rfl), ec .block (Or.inr rfl), pP, pB]

def Vote.active (v : Vote) : Bool := decide (v.kind = .permit) || decide (v.kind = .block)

theorem not_active_idle {v : Vote} (h : v.active = false) : v.Idle := by
  unfold Vote.active at h
  unfold Vote.Idle
  rcases kind_cases v.kind with k | k | k | k <;> simp [k] at h ⊢

theorem ofKind_filter_active (k : VoteType) (hk : k = .permit ∨ k = .block) (vs : List Vote) :
    ofKind k (vs.filter Vote.active) = ofKind k vs := by
  unfold ofKind
  rw [List.filter_filter]
  congr 1
  funext v
  unfold Vote.active
  rcases hk with rfl | rfl <;> rcases kind_cases v.kind with h | h | h | h <;> simp [h]

theorem sum_filter_active (f : Vote → Rat) (hf : ∀ v, v.Idle → f v = 0) (vs : List Vote) :
    sumR ((vs.filter Vote.active).map f) = sumR (vs.map f) := by
  induction vs with
  | nil => rfl
  | cons v vs ih =>
    by_cases h : v.active = true
    · simp [h, sumR, ih]
    · have h' : v.active = false := by simpa using h
      simp [h', sumR, ih, hf v (not_active_idle h')]

theorem prod_filter_active (f : Vote → Rat) (hf : ∀ v, v.Idle → f v = 1) (vs : List Vote) :
    prodR ((vs.filter Vote.active).map f) = prodR (vs.map f) := by
  induction vs with
  | nil => rfl
  | cons v vs ih =>
    by_cases h : v.active = true
    · simp [h, prodR, ih]
    · have h' : v.active = false := by simpa using h
      simp [h', prodR, ih, hf v (not_active_idle h')]

/-- a smaller colony never needs more permits -/
theorem thresholdCount_mono (cfg : Cfg) {n' n : Nat} (h : n' ≤ n) : thresholdCount cfg n' ≤ thresholdCount cfg n := by
  unfold thresholdCount effThreshold
  have hbig : ∀ m : Nat, ¬ (0 < natR (m / 2 + 1) ∧ natR (m / 2 + 1) < 1) := by
    rintro m ⟨-, h⟩
    unfold natR at h
    have : ((m / 2 + 1 : Nat) : Rat) ≥ 1 := by exact_mod_cast Nat.le_add_left 1 (m / 2)
    linarith
  have hdef : (natR (n' / 2 + 1)).ceil ≤ (natR (n / 2 + 1)).ceil := by
    rw [natR_ceil, natR_ceil]
    have : n' / 2 ≤ n / 2 := Nat.div_le_div_right h
    omega
  cases hc : cfg.custom with
  | none => simp only [hbig, if_false]; exact hdef
  | some t =>
    by_cases h0 : t = 0
    · simp only [h0, if_true, hbig, if_false]; exact hdef
    · simp only [h0, if_false]
      by_cases h1 : 0 < t ∧ t < 1
      · simp only [h1, and_self, if_true]
        have : (t * natR n').ceil ≤ (t * natR n).ceil := by
          apply rat_ceil_mono
          apply mul_le_mul_of_nonneg_left _ h1.1.le
          unfold natR; exact_mod_cast h
        omega
      · simp only [h1, if_false]; exact le_refl _

/-- without the idle votes every aggregator still decides in favour if it did before (the count strategy may
    even need fewer permits): idle votes are never support -/
theorem stratReached_drop_idle (cfg : Cfg) (vs : List Vote) (hr : StratReached cfg vs.length vs) :
    StratReached cfg (vs.filter Vote.active).length (vs.filter Vote.active) := by
  have c1 : nP (vs.filter Vote.active) = nP vs := by unfold nP; rw [ofKind_filter_active _ (Or.inl rfl)]
  have c2 : nB (vs.filter Vote.active) = nB vs := by unfold nB; rw [ofKind_filter_active _ (Or.inr rfl)]
  unfold StratReached beliefP beliefB at *
  rw [c1, c2, sum_filter_active _ (fun v h => idle_effIf h .permit (Or.inl rfl)),
    sum_filter_active _ (fun v h => idle_effIf h .block (Or.inr rfl)),
    sum_filter_active _ (fun v h => idle_confEffIf h .permit (Or.inl rfl)),
    sum_filter_active _ (fun v h => idle_confEffIf h .block (Or.inr rfl)),
    prod_filter_active _ (fun v h => idle_fP h), prod_filter_active _ (fun v h => idle_fB h)]
  cases hs : cfg.strategy <;> simp only [hs] at hr ⊢ <;> try exact hr
  exact le_trans (thresholdCount_mono cfg (List.length_filter_le _ _)) hr

/-! ## Part 11 — from colony members to votes -/

theorem collect_length (voters : List Voter) : (collect voters).length = voters.length := by
  simp [collect]

theorem toVote_valid {v : Voter} (hv : v.Valid) : (toVote v).Valid := by
  obtain ⟨hw, hr⟩ := hv
  unfold toVote Vote.Valid
  cases hk : v.kind <;> cases hcf : v.conf <;> simp [failedVote, hw, mul_nonneg hw hr, clamp01_nonneg]

theorem collect_valid {voters : List Voter} (hv : ∀ v ∈ voters, v.Valid) : ∀ x ∈ collect voters, x.Valid := by
  intro x hx
  unfold collect at hx
  rw [List.mem_map] at hx
  obtain ⟨v, h1, rfl⟩ := hx
  exact toVote_valid (hv v h1)

/-- a voter casts a permit vote exactly when its agent answered PERMIT or EXECUTE with a usable confidence -/
theorem casts_permit_iff (v : Voter) :
    (toVote v).kind = .permit ↔ (v.kind = .permit ∨ v.kind = .execute) ∧ v.conf ≠ .bad := by
  unfold toVote
  cases hk : v.kind <;> cases hcf : v.conf <;> simp [failedVote, voteTypeOf]

theorem casts_block_iff (v : Voter) : (toVote v).kind = .block ↔ v.kind = .block ∧ v.conf ≠ .bad := by
  unfold toVote
  cases hk : v.kind <;> cases hcf : v.conf <;> simp [failedVote, voteTypeOf]

/-- a voter whose `express` raises, or whose confidence is not a number, is recorded as a zero-confidence ABSTAIN -/
theorem failed_is_abstain (v : Voter) (h : v.kind = .raises ∨ v.conf = .bad) :
    toVote v = ⟨.abstain, 0, v.weight⟩ := by
  unfold toVote
  rcases h with h | h
  · simp [h, failedVote]
  · cases hk : v.kind <;> simp [h, failedVote]

theorem run_reached_iff (cfg : Cfg) (voters : List Voter) :
    (runVote cfg voters).reached = true ↔
      cfg.minVoters ≤ nP (collect voters) + nB (collect voters) ∧
      StratReached cfg voters.length (collect voters) := reached_iff cfg _ _

theorem Pointwise.single {α : Type} {R : α → α → Prop} (hr : ∀ x, R x x) {a b : α} (h : R a b) (l₁ l₂ : List α) :
    Pointwise R (l₁ ++ a :: l₂) (l₁ ++ b :: l₂) := by
  induction l₁ with
  | nil => exact .cons h (Pointwise.refl hr l₂)
  | cons x xs ih => exact .cons (hr x) ih

theorem improves_of_flip (v : Voter) (hk : v.kind = .block) :
    Improves (toVote v) (toVote { v with kind := .permit }) := by
  unfold Improves toVote
  cases hcf : v.conf <;> simp [hk, failedVote, voteTypeOf]

/-- (for examples) a voter answering `k` with numeric confidence `c`, weight `w`, reliability 1 -/
def voterOf (k : Kind) (w c : Rat) : Voter := ⟨k, .num c, w, 1⟩

theorem voterOf_valid {k : Kind} {w c : Rat} (hw : 0 ≤ w) (_hc : 0 ≤ c) : (voterOf k w c).Valid :=
  ⟨hw, by show (0 : Rat) ≤ 1; decide +kernel⟩

/-! ## Part 12 — the un-stubbed colony (real `BioAgent` voters) -/

theorem bioVoters_length (p : PromptClass) (budget n : Nat) : (bioVoters p budget n).length = n := by
  induction n generalizing budget with
  | zero => simp [bioVoters]
  | succ n ih => cases p <;> simp only [bioVoters] <;> (try split_ifs) <;> simp [ih]

theorem bioVoters_no_permit (p : PromptClass) (hp : p ≠ .safe) (budget n : Nat) :
    ∀ v ∈ bioVoters p budget n, (toVote v).kind ≠ .permit := by
  induction n generalizing budget with
  | zero => simp [bioVoters]
  | succ n ih =>
    cases p
    · exact absurd rfl hp
    · simp only [bioVoters]
      split_ifs <;> intro v hv <;> rcases List.mem_cons.mp hv with rfl | hv
      · decide
      · exact ih _ v hv
      · decide
      · exact ih _ v hv
    · simp only [bioVoters]
      intro v hv; rcases List.mem_cons.mp hv with rfl | hv
      · decide
      · exact ih _ v hv

theorem bioVoters_safe_funded (budget n : Nat) (h : 10 * n ≤ budget) :
    ∀ v ∈ bioVoters .safe budget n, v = bioVoter .permit := by
  induction n generalizing budget with
  | zero => simp [bioVoters]
  | succ n ih =>
    have h10 : 10 ≤ budget := by omega
    simp only [bioVoters, h10, if_true]
    intro v hv; rcases List.mem_cons.mp hv with rfl | hv
    · rfl
    · exact ih (budget - 10) (by omega) v hv

/-! ## Part 13 — colonies (registration by name) and histories of operations on one quorum object -/

def Member.Valid (m : Member) : Prop := 0 ≤ m.weight ∧ 0 ≤ m.rel

/-- the arguments an operation supplies are in the property's domain: weights, reliabilities and custom thresholds
    are not negative (what the agents answer in a vote is unrestricted) -/
def Op.Valid : Op → Prop
  | .setStrategy _ custom => ∀ t, custom = some t → 0 ≤ t
  | .add _ w => 0 ≤ w
  | .setWeight _ w => 0 ≤ w
  | .assign _ w r => (∀ x, w = some x → 0 ≤ x) ∧ (∀ x, r = some x → 0 ≤ x)
  | .assignThreshold custom => ∀ t, custom = some t → 0 ≤ t
  | .insertAt _ _ w => 0 ≤ w
  | _ => True

def QState.Valid (st : QState) : Prop := NonNegThreshold st.cfg ∧ ∀ m ∈ st.colony, m.Valid

theorem electorateFrom_length (beh : Nat → Behaviour) (i : Nat) (c : List Member) :
    (electorateFrom beh i c).length = c.length := by
  induction c generalizing i with
  | nil => rfl
  | cons m rest ih => simp [electorateFrom, ih]

theorem electorate_length (c : List Member) (beh : Nat → Behaviour) : (electorate c beh).length = c.length :=
  electorateFrom_length beh 0 c

theorem electorateFrom_valid (beh : Nat → Behaviour) (i : Nat)
    (c : List Member) (hc : ∀ m ∈ c, m.Valid) : ∀ v ∈ electorateFrom beh i c, v.Valid := by
  induction c generalizing i with
  | nil => intro v hv; cases hv
  | cons m rest ih =>
    intro v hv
    simp only [electorateFrom, List.mem_cons] at hv
    rcases hv with rfl | hv
    · have := hc m (by simp)
      exact ⟨this.1, this.2⟩
    · exact ih (i + 1) (fun x hx => hc x (by simp [hx])) v hv

theorem removeAgent_sub (c : List Member) (name : List Nat) : ∀ m ∈ (removeAgent c name).1, m ∈ c := by
  induction c with
  | nil => intro m hm; cases hm
  | cons x rest ih =>
    intro m hm
    unfold removeAgent at hm
    split_ifs at hm
    · exact List.mem_cons_of_mem _ hm
    · simp only [List.mem_cons] at hm
      rcases hm with rfl | hm
      · simp
      · exact List.mem_cons_of_mem _ (ih m hm)

theorem removeAgent_length (c : List Member) (name : List Nat) :
    (removeAgent c name).1.length = if (removeAgent c name).2 then c.length - 1 else c.length := by
  induction c with
  | nil => simp [removeAgent]
  | cons x rest ih =>
    by_cases h1 : x.name = name
    · simp [removeAgent, h1]
    · simp only [removeAgent, h1, if_false, List.length_cons]
      rw [ih]
      by_cases h2 : (removeAgent rest name).2 = true
      · have : 0 < rest.length := by
          cases rest with
          | nil => simp [removeAgent] at h2
          | cons _ _ => simp
        simp only [h2, if_true]; omega
      · simp [h2]

theorem setAgentWeight_valid (c : List Member) (name : List Nat) (w : Rat) (hw : 0 ≤ w)
    (hc : ∀ m ∈ c, m.Valid) : ∀ m ∈ (setAgentWeight c name w).1, m.Valid := by
  induction c with
  | nil => intro m hm; cases hm
  | cons x rest ih =>
    intro m hm
    unfold setAgentWeight at hm
    split_ifs at hm
    · simp only [List.mem_cons] at hm
      rcases hm with rfl | hm
      · exact ⟨hw, (hc x (by simp)).2⟩
      · exact hc m (by simp [hm])
    · simp only [List.mem_cons] at hm
      rcases hm with rfl | hm
      · exact hc _ (by simp)
      · exact ih (fun y hy => hc y (by simp [hy])) m hm

theorem setAgentWeight_names (c : List Member) (name : List Nat) (w : Rat) :
    (setAgentWeight c name w).1.map (·.name) = c.map (·.name) := by
  induction c with
  | nil => rfl
  | cons x rest ih =>
    unfold setAgentWeight
    split_ifs <;> simp [ih]

theorem assignProfile_valid (c : List Member) (i : Nat) (w r : Option Rat)
    (hw : ∀ x, w = some x → 0 ≤ x) (hr : ∀ x, r = some x → 0 ≤ x) (hc : ∀ m ∈ c, m.Valid) :
    ∀ m ∈ assignProfile c i w r, m.Valid := by
  induction c generalizing i with
  | nil => intro m hm; cases hm
  | cons x rest ih =>
    have hx := hc x (by simp)
    cases i with
    | zero =>
      intro m hm
      simp only [assignProfile, List.mem_cons] at hm
      rcases hm with rfl | hm
      · constructor
        · cases w with
          | none => exact hx.1
          | some v => exact hw v rfl
        · cases r with
          | none => exact hx.2
          | some v => exact hr v rfl
      · exact hc m (by simp [hm])
    | succ i =>
      intro m hm
      simp only [assignProfile, List.mem_cons] at hm
      rcases hm with rfl | hm
      · exact hx
      · exact ih i (fun y hy => hc y (by simp [hy])) m hm

theorem afterVoteFrom_valid (beh : Nat → Behaviour) (i : Nat) (c : List Member) (hc : ∀ m ∈ c, m.Valid) :
    ∀ m ∈ afterVoteFrom beh i c, m.Valid := by
  induction c generalizing i with
  | nil => intro m hm; cases hm
  | cons x rest ih =>
    intro m hm
    simp only [afterVoteFrom, List.mem_cons] at hm
    rcases hm with rfl | hm
    · have hx := hc x (by simp)
      split_ifs
      · exact hx
      · exact hx
    · exact ih (i + 1) (fun y hy => hc y (by simp [hy])) m hm

theorem updateReliability_valid (c : List Member) (name : List Nat) (ok : Bool) (hc : ∀ m ∈ c, m.Valid) :
    ∀ m ∈ updateReliability c name ok, m.Valid := by
  induction c with
  | nil => intro m hm; cases hm
  | cons x rest ih =>
    intro m hm
    have hx := hc x (by simp)
    by_cases h1 : x.name = name
    · simp only [updateReliability, h1, if_true, List.mem_cons] at hm
      rcases hm with rfl | hm
      · split_ifs <;> refine ⟨hx.1, ?_⟩ <;>
          first
          | exact hx.2
          | (show 0 ≤ natR _ / natR _; unfold natR; positivity)
      · exact hc m (by simp [hm])
    · simp only [updateReliability, h1, if_false, List.mem_cons] at hm
      rcases hm with rfl | hm
      · exact hx
      · exact ih (fun y hy => hc y (by simp [hy])) m hm

theorem updateAllReliability_valid (last : List (List Nat × VoteType)) (d : VoteType) (c : List Member)
    (hc : ∀ m ∈ c, m.Valid) : ∀ m ∈ updateAllReliability c last d, m.Valid := by
  unfold updateAllReliability
  induction last generalizing c with
  | nil => simpa using hc
  | cons v rest ih =>
    simp only [List.foldl_cons]
    exact ih _ (updateReliability_valid c v.1 _ hc)

theorem insertMember_valid (c : List Member) (i : Nat) (x : Member) (hx : x.Valid) (hc : ∀ m ∈ c, m.Valid) :
    ∀ m ∈ insertMember c i x, m.Valid := by
  induction c generalizing i with
  | nil => intro m hm; simp only [insertMember, List.mem_singleton] at hm; rw [hm]; exact hx
  | cons y rest ih =>
    cases i with
    | zero =>
      intro m hm
      simp only [insertMember, List.mem_cons] at hm
      rcases hm with rfl | rfl | hm
      · exact hx
      · exact hc _ (by simp)
      · exact hc m (by simp [hm])
    | succ i =>
      intro m hm
      simp only [insertMember, List.mem_cons] at hm
      rcases hm with rfl | hm
      · exact hc _ (by simp)
      · exact ih i (fun z hz => hc z (by simp [hz])) m hm

/-- validity of a quorum object is kept by every operation whose arguments are in the domain -/
theorem stepOp_valid (st : QState) (op : Op) (hst : st.Valid) (hop : op.Valid) : (stepOp st op).1.Valid := by
  obtain ⟨hn, hc⟩ := hst
  cases op with
  | setStrategy s custom => exact ⟨fun t h => hop t h, hc⟩
  | add name w =>
    refine ⟨hn, ?_⟩
    intro m hm
    simp only [stepOp, addAgent, List.mem_append, List.mem_singleton] at hm
    rcases hm with hm | rfl
    · exact hc m hm
    · exact ⟨hop, by show (0 : Rat) ≤ 1; norm_num⟩
  | remove name => exact ⟨hn, fun m hm => hc m (removeAgent_sub _ _ m hm)⟩
  | setWeight name w => exact ⟨hn, setAgentWeight_valid _ _ _ hop hc⟩
  | assign i w r => exact ⟨hn, assignProfile_valid _ _ _ _ hop.1 hop.2 hc⟩
  | vote beh =>
    simp only [stepOp]
    split_ifs
    · exact ⟨hn, hc⟩
    · exact ⟨hn, afterVoteFrom_valid beh 0 _ hc⟩
  | updateReliability name ok => exact ⟨hn, updateReliability_valid _ _ _ hc⟩
  | updateAll d =>
    simp only [stepOp]
    cases hl : st.last with
    | none => exact ⟨hn, hc⟩
    | some l => exact ⟨hn, updateAllReliability_valid l d _ hc⟩
  | assignStrategy s => exact ⟨hn, hc⟩
  | assignThreshold custom => exact ⟨fun t h => hop t h, hc⟩
  | assignMinVoters n => exact ⟨hn, hc⟩
  | deleteAt i => exact ⟨hn, fun m hm => hc m (List.mem_of_mem_eraseIdx hm)⟩
  | insertAt i name w =>
    exact ⟨hn, insertMember_valid _ _ _ ⟨hop, by show (0 : Rat) ≤ 1; norm_num⟩ hc⟩

/-- every result of every history is the `runVote` of an electorate in the property's domain under a
    configuration with a non-negative threshold -/
theorem history_results (ops : List Op) (st : QState) (hst : st.Valid) (hops : ∀ op ∈ ops, op.Valid) :
    ∀ r ∈ runHistory st ops, ∃ cfg voters, r = runVote cfg voters ∧ NonNegThreshold cfg ∧
      (∀ v ∈ voters, v.Valid) := by
  induction ops generalizing st with
  | nil => intro r hr; cases hr
  | cons op rest ih =>
    intro r hr
    have hop := hops op (by simp)
    have hst' := stepOp_valid st op hst hop
    have hrest := ih _ hst' (fun o ho => hops o (by simp [ho]))
    unfold runHistory at hr
    cases hres : (stepOp st op).2 with
    | none =>
      have : stepOp st op = ((stepOp st op).1, none) := by rw [← hres]
      rw [this] at hr
      exact hrest r hr
    | some r0 =>
      have : stepOp st op = ((stepOp st op).1, some r0) := by rw [← hres]
      rw [this] at hr
      simp only [List.mem_cons] at hr
      rcases hr with rfl | hr
      · cases op with
        | vote beh =>
          simp only [stepOp] at hres
          split_ifs at hres
          simp only [Option.some.injEq] at hres
          exact ⟨st.cfg, electorate st.colony beh, hres.symm, hst.1,
            electorateFrom_valid beh 0 _ hst.2⟩
        | updateAll d =>
          simp only [stepOp] at hres
          cases hl : st.last <;> simp [hl] at hres
        | _ => simp [stepOp] at hres
      · exact hrest r hr

/-! ## Part 14 — further facts about the constants (kept here so that `c06_constants_table`, which also demands a
complete extraction, is the only theorem that depends on `extractionComplete`) -/

theorem const_more :
    majorityThreshold ≤ 1 / 2 ∧ 1 / 2 ≤ majorityThreshold ∧ confidenceMin ≤ 1 := by decide +kernel

theorem default_attainable (s : Strategy) (n : Nat) : Attainable ⟨s, none, 1⟩ n := by
  have h1 : majorityThreshold < 1 := const_facts.2.1
  have h2 : supermajorityThreshold < 1 := const_facts.2.2.2.1
  have h3 : majorityThreshold ≤ 1 / 2 := const_more.1
  cases s <;> simp only [Attainable, effThreshold] <;> first | exact h1 | exact h2 | exact h3

/-! ## Part 15 — unanimity with idle voters present; an explicit bound for BAYESIAN (audit follow-up) -/

/-- the converse of `stratReached_drop_idle` for every strategy but the count strategy (whose colony size the idle
    voters enlarge): idle votes do not stand in the way either -/
theorem stratReached_add_idle (cfg : Cfg) (hs : cfg.strategy ≠ .threshold) (n : Nat) (vs : List Vote)
    (hr : StratReached cfg (vs.filter Vote.active).length (vs.filter Vote.active)) : StratReached cfg n vs := by
  have c1 : nP (vs.filter Vote.active) = nP vs := by unfold nP; rw [ofKind_filter_active _ (Or.inl rfl)]
  have c2 : nB (vs.filter Vote.active) = nB vs := by unfold nB; rw [ofKind_filter_active _ (Or.inr rfl)]
  unfold StratReached beliefP beliefB at *
  rw [c1, c2, sum_filter_active _ (fun v h => idle_effIf h .permit (Or.inl rfl)),
    sum_filter_active _ (fun v h => idle_effIf h .block (Or.inr rfl)),
    sum_filter_active _ (fun v h => idle_confEffIf h .permit (Or.inl rfl)),
    sum_filter_active _ (fun v h => idle_confEffIf h .block (Or.inr rfl)),
    prod_filter_active _ (fun v h => idle_fP h), prod_filter_active _ (fun v h => idle_fB h)] at hr
  cases hst : cfg.strategy <;> simp only [hst] at hr ⊢ <;> first | exact hr | exact absurd hst hs

/-- `Attainable` and `Supported` do not look at the colony size / the idle votes, except for the count strategy -/
theorem attainable_indep (cfg : Cfg) (hs : cfg.strategy ≠ .threshold) (n m : Nat) (h : Attainable cfg n) :
    Attainable cfg m := by
  unfold Attainable at *
  cases hst : cfg.strategy <;> simp only [hst] at h ⊢ <;> first | exact h | exact absurd hst hs

theorem active_of_permit {v : Vote} (h : v.kind = .permit) : v.active = true := by
  unfold Vote.active; simp [h]

theorem supported_filter (cfg : Cfg) (vs : List Vote) (h : Supported cfg vs) : Supported cfg (vs.filter Vote.active) := by
  unfold Supported at *
  cases hst : cfg.strategy <;> simp only [hst] at h ⊢
  · obtain ⟨v, h1, h2, h3⟩ := h
    exact ⟨v, List.mem_filter.mpr ⟨h1, active_of_permit h2⟩, h2, h3⟩
  · obtain ⟨v, h1, h2, h3, h4⟩ := h
    exact ⟨v, List.mem_filter.mpr ⟨h1, active_of_permit h2⟩, h2, h3, h4⟩
  · obtain ⟨v, h1, h2, h3⟩ := h
    exact ⟨v, List.mem_filter.mpr ⟨h1, active_of_permit h2⟩, h2, h3⟩

/-- one permit vote whose evidence `likGain · confidence · weight` is at least `x` tilts the two belief factors by
    at least `(½ − x) : (½ + x)` -/
theorem strong_factor {v : Vote} {x : Rat} (hx0 : 0 ≤ x) (hx : x ≤ 1 / 2)
    (hs : x ≤ likGain * (v.conf * v.weight)) : (1 / 2 + x) * downF v ≤ (1 / 2 - x) * upF v := by
  rw [upF_eq, downF_eq]
  generalize likGain * (v.conf * v.weight) = y at hs
  unfold clamp01
  split_ifs <;> nlinarith

/-- on an all-permit valid ballot with one such vote, the block belief product is at most `(½ − x)/(½ + x)` of the
    permit one -/
theorem strong_products {vs : List Vote} (hall : ∀ v ∈ vs, v.kind = .permit) (hv : ∀ v ∈ vs, v.Valid)
    {x : Rat} (hx0 : 0 ≤ x) (hx : x ≤ 1 / 2) (hs : ∃ v ∈ vs, x ≤ likGain * (v.conf * v.weight)) :
    (1 / 2 + x) * prodR (vs.map fB) ≤ (1 / 2 - x) * prodR (vs.map fP) := by
  induction vs with
  | nil => obtain ⟨v, hm, -⟩ := hs; cases hm
  | cons v vs ih =>
    have hk := hall v (by simp)
    have hvv := hv v (by simp)
    have hall' : ∀ x ∈ vs, x.kind = .permit := fun x hx => hall x (by simp [hx])
    have hv' : ∀ x ∈ vs, x.Valid := fun x hx => hv x (by simp [hx])
    obtain ⟨i1, i2, -⟩ := unanimous_products hall' hv'
    have hfP : fP v = upF v := by simp [fP, hk]
    have hfB : fB v = downF v := by simp [fB, hk]
    have hd0 : 0 ≤ downF v := by rw [downF]; exact clamp01_nonneg _
    have hu0 : 0 ≤ upF v := by rw [upF]; exact clamp01_nonneg _
    have hdu : downF v ≤ upF v := downF_le_upF hvv
    have hB0 : 0 ≤ prodR (vs.map fB) := prod_fB_nonneg vs
    simp only [List.map_cons, prodR, hfP, hfB]
    obtain ⟨w, hw, hws⟩ := hs
    rcases List.mem_cons.mp hw with rfl | hw
    · have hk' := strong_factor hx0 hx hws
      calc (1 / 2 + x) * (downF w * prodR (vs.map fB))
          = ((1 / 2 + x) * downF w) * prodR (vs.map fB) := by ring
        _ ≤ ((1 / 2 - x) * upF w) * prodR (vs.map fB) := mul_le_mul_of_nonneg_right hk' hB0
        _ ≤ ((1 / 2 - x) * upF w) * prodR (vs.map fP) :=
            mul_le_mul_of_nonneg_left i2 (mul_nonneg (by linarith) hu0)
        _ = (1 / 2 - x) * (upF w * prodR (vs.map fP)) := by ring
    · have ih' := ih hall' hv' ⟨w, hw, hws⟩
      calc (1 / 2 + x) * (downF v * prodR (vs.map fB))
          = downF v * ((1 / 2 + x) * prodR (vs.map fB)) := by ring
        _ ≤ downF v * ((1 / 2 - x) * prodR (vs.map fP)) := mul_le_mul_of_nonneg_left ih' hd0
        _ ≤ upF v * ((1 / 2 - x) * prodR (vs.map fP)) :=
            mul_le_mul_of_nonneg_right hdu (mul_nonneg (by linarith) i1.le)
        _ = (1 / 2 - x) * (upF v * prodR (vs.map fP)) := by ring

/-- BAYESIAN on a ballot without a block vote, one permit carrying evidence at least `x ∈ (0, ½]`: every threshold
    below `½ + x` is exceeded -/
theorem bayes_reached_of_strong (cfg : Cfg) (hst : cfg.strategy = .bayesian) (n : Nat) {vs : List Vote}
    (hnb : ∀ v ∈ vs, v.kind ≠ .block) (hv : ∀ v ∈ vs, v.Valid) {x : Rat} (hx0 : 0 < x) (hx : x ≤ 1 / 2)
    (hs : ∃ v ∈ vs, v.kind = .permit ∧ x ≤ likGain * (v.conf * v.weight))
    (ht : effThreshold cfg.custom majorityThreshold < 1 / 2 + x) : StratReached cfg n vs := by
  apply stratReached_add_idle cfg (by rw [hst]; decide) n vs
  have hall : ∀ v ∈ vs.filter Vote.active, v.kind = .permit := by
    intro v hm
    obtain ⟨h1, h2⟩ := List.mem_filter.mp hm
    have := hnb v h1
    unfold Vote.active at h2
    rcases kind_cases v.kind with k | k | k | k <;> simp_all
  have hv' : ∀ v ∈ vs.filter Vote.active, v.Valid := fun v hm => hv v (List.mem_filter.mp hm).1
  obtain ⟨w, hw, hwk, hws⟩ := hs
  have hwm : w ∈ vs.filter Vote.active := List.mem_filter.mpr ⟨hw, active_of_permit hwk⟩
  obtain ⟨p1, -, -⟩ := unanimous_products hall hv'
  have hprod := strong_products hall hv' hx0.le hx ⟨w, hwm, hws⟩
  have hpe : priorPermit = priorBlock := const_facts.2.2.2.2.2.2.2.2.1
  have hpp := priorPermit_pos
  unfold StratReached
  simp only [hst]
  refine ⟨(nP_pos_iff _).mpr ⟨w, hwm, hwk⟩, ?_⟩
  have hbP : 0 < beliefP (vs.filter Vote.active) := mul_pos hpp p1
  have hbB0 := beliefB_nonneg (vs.filter Vote.active)
  have hrel : (1 / 2 + x) * beliefB (vs.filter Vote.active) ≤ (1 / 2 - x) * beliefP (vs.filter Vote.active) := by
    unfold beliefB beliefP; rw [← hpe]
    calc (1 / 2 + x) * (priorPermit * prodR ((vs.filter Vote.active).map fB))
        = priorPermit * ((1 / 2 + x) * prodR ((vs.filter Vote.active).map fB)) := by ring
      _ ≤ priorPermit * ((1 / 2 - x) * prodR ((vs.filter Vote.active).map fP)) :=
          mul_le_mul_of_nonneg_left hprod hpp.le
      _ = (1 / 2 - x) * (priorPermit * prodR ((vs.filter Vote.active).map fP)) := by ring
  rw [bayes_share_iff hbP.le hbB0]
  left
  refine ⟨by linarith, ?_⟩
  have hsum : 0 < beliefP (vs.filter Vote.active) + beliefB (vs.filter Vote.active) := by linarith
  have h1 : effThreshold cfg.custom majorityThreshold * (beliefP (vs.filter Vote.active) + beliefB (vs.filter Vote.active))
      < (1 / 2 + x) * (beliefP (vs.filter Vote.active) + beliefB (vs.filter Vote.active)) :=
    mul_lt_mul_of_pos_right ht hsum
  nlinarith

/-! ## Part 16 — `run_vote` with its exception is the total `runVote` guarded by `runVoteRaises` -/

theorem runVoteE_eq (cfg : Cfg) (voters : List Voter) :
    runVoteE cfg voters = if runVoteRaises cfg voters then none else some (runVote cfg voters) := by
  unfold runVoteE aggregateE runVoteRaises runVote thresholdVoteE
  by_cases hg : activeCount (collect voters) < cfg.minVoters
  · simp [hg, aggregate]
  · by_cases hz : voters.length = 0
    · cases hs : cfg.strategy <;> simp [hg, hz, hs, aggregate]
    · cases hs : cfg.strategy <;> simp [hg, hz, hs, aggregate]

/-! ## Part 17 — a partially funded colony of real voters on a safe proposal -/

theorem bioVoters_safe_members (budget n : Nat) :
    ∀ v ∈ bioVoters .safe budget n, v = bioVoter .permit ∨ v = bioVoter .other := by
  induction n generalizing budget with
  | zero => simp [bioVoters]
  | succ n ih =>
    simp only [bioVoters]
    split_ifs <;> intro v hv <;> rcases List.mem_cons.mp hv with rfl | hv
    · exact Or.inl rfl
    · exact ih _ v hv
    · exact Or.inr rfl
    · exact ih _ v hv

/-- the voters that can pay (10 ATP each, in colony order) permit; the others answer FAILURE -/
theorem nP_bioVoters_safe (budget n : Nat) : nP (collect (bioVoters .safe budget n)) = min n (budget / 10) := by
  induction n generalizing budget with
  | zero => simp [bioVoters, collect, nP, ofKind]
  | succ n ih =>
    simp only [bioVoters]
    split_ifs with h
    · have hk : (toVote (bioVoter .permit)).kind = .permit := by decide
      have : nP (collect (bioVoter .permit :: bioVoters .safe (budget - 10) n)) =
          nP (collect (bioVoters .safe (budget - 10) n)) + 1 := by
        unfold nP collect; simp only [List.map_cons]; rw [ofKind_cons]; simp [hk]
      rw [this, ih]
      omega
    · have hk : (toVote (bioVoter .other)).kind ≠ .permit := by decide
      have : nP (collect (bioVoter .other :: bioVoters .safe budget n)) =
          nP (collect (bioVoters .safe budget n)) := by
        unfold nP collect; simp only [List.map_cons]; rw [ofKind_cons]; simp [hk]
      rw [this, ih]
      omega

/-! ## Part 18 — the order in which the members are polled does not matter -/

theorem sumR_perm {l l' : List Rat} (h : l.Perm l') : sumR l = sumR l' := by
  induction h with
  | nil => rfl
  | cons x _ ih => simp only [sumR, ih]
  | swap x y l => simp only [sumR]; ring
  | trans _ _ ih1 ih2 => exact ih1.trans ih2

theorem prodR_perm {l l' : List Rat} (h : l.Perm l') : prodR l = prodR l' := by
  induction h with
  | nil => rfl
  | cons x _ ih => simp only [prodR, ih]
  | swap x y l => simp only [prodR]; ring
  | trans _ _ ih1 ih2 => exact ih1.trans ih2

theorem stratReached_perm (cfg : Cfg) (n : Nat) {vs vs' : List Vote} (h : vs.Perm vs') :
    StratReached cfg n vs ↔ StratReached cfg n vs' := by
  have hk : ∀ k, (ofKind k vs).length = (ofKind k vs').length := fun k => by
    unfold ofKind; exact (h.filter _).length_eq
  have c1 : nP vs = nP vs' := hk .permit
  have c2 : nB vs = nB vs' := hk .block
  have hs : ∀ f : Vote → Rat, sumR (vs.map f) = sumR (vs'.map f) := fun f => sumR_perm (h.map f)
  have hp : ∀ f : Vote → Rat, prodR (vs.map f) = prodR (vs'.map f) := fun f => prodR_perm (h.map f)
  unfold StratReached beliefP beliefB
  rw [c1, c2, hs (effIf .permit), hs (effIf .block), hs (confEffIf .permit), hs (confEffIf .block), hp fP, hp fB]

end Operon.Quorum
