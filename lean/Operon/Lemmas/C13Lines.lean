import Operon.Lemmas.C13
import Operon.Lemmas.Lock
/-!
  C13, line level: the lysosome presented as threads running lock-protected regions cut into arbitrary source lines
  (`Operon.Lock`, the generic development shared with C05), so that the generic reduction theorem applies.

  Presentation.
  * Component 0 (protected by lock 0 = `self._lock`) is the queue with the ghost list of everything ingested (`QS`).
    The re-entrant inner acquisitions of `ingest → _auto_digest → digest` are erased: the outermost `with` of a call
    is the region, everything inside it (emergency digest, append, auto-digest with its loop) is its lines.
  * What a thread does with items outside the lock — the iterations of `digest`'s loop: a digester call and single-line
    `+= 1` updates of counters — is accounted *per thread* (`Loc`): an increment is one atomic line and increments
    commute, so a shared counter is the sum of the threads' contributions (`_total_digested` = Σ |dig|,
    errors reported/logged = Σ |err|, …).  These lines touch nothing another thread reads, they are presented as a region on
    a lock `k ≠ 0` that is private to the thread (never contended, so no behaviour is lost).
  * `digest(k)` is therefore two regions: the pop under lock 0 (`popEff`), then the loop (`iterEff`).

  Result (`lines_reduce`): however the regions are cut into lines and however the lines of any number of threads
  interleave, every quiescent configuration reached is reached by running whole regions one after the other, and the
  accounting invariant `LInv` holds in it.
-/
namespace Operon.Lysosome
open Operon.Lock (Region RThread RCfg RStep Star)

/-- the component protected by `self._lock` -/
structure QS where
  queue : List Item
  items : List Item
  clock : Nat

/-- per-thread account of what this thread's calls did with items -/
structure Loc where
  pend : List Item      -- popped by this thread's running digest call, loop not yet run
  dig : List Item
  err : List Item
  em : List Item
  exp : List Item

def embed (l : Loc) (q : QS) : State :=
  { queue := q.queue, clock := q.clock, items := q.items, gDigested := l.dig, gErrored := l.err,
    gEmDropped := l.em, gExpired := l.exp, gPending := l.pend.map fun it => (0, it) }

def projL (s : State) : Loc := ⟨s.gPending.map (·.2), s.gDigested, s.gErrored, s.gEmDropped, s.gExpired⟩
def projQ (s : State) : QS := ⟨s.queue, s.items, s.clock⟩

/-- effect of a whole call that runs under the lock (`ingest…`, `autophagy`): the sequential model's `step` -/
def opEff (cfg : Cfg) (o : Op) (l : Loc) (q : QS) : Loc × QS :=
  (projL (step cfg (embed l q) o).1, projQ (step cfg (embed l q) o).1)

/-- the locked region of `digest(k)` -/
def popEff (k : Option Int) (l : Loc) (q : QS) : Loc × QS :=
  (⟨l.pend ++ q.queue.take (sliceCount q.queue.length k), l.dig, l.err, l.em, l.exp⟩,
   ⟨q.queue.drop (sliceCount q.queue.length k), q.items, q.clock⟩)

/-- the loop of `digest` over what it popped -/
def iterEff (cfg : Cfg) (l : Loc) : Loc :=
  ⟨[], l.dig ++ l.pend.filter (succeeds cfg), l.err ++ l.pend.filter (fun it => !succeeds cfg it), l.em, l.exp⟩

/-- the regions a lysosome client thread consists of, whatever their cut into lines -/
def LysRegion (cfg : Cfg) (r : Region Loc QS) : Prop :=
  (r.k = 0 ∧ ((∃ id ty c st, ∀ l q, r.eff l q = opEff cfg (.ingest id ty c st) l q) ∨
              (∀ l q, r.eff l q = opEff cfg .autophagy l q) ∨
              (∃ k, ∀ l q, r.eff l q = popEff k l q))) ∨
  (r.k ≠ 0 ∧ ∀ l x, r.eff l x = (iterEff cfg l, x))

def locOcc (l : Loc) (it : Item) : Nat :=
  l.pend.count it + l.dig.count it + l.err.count it + l.em.count it + l.exp.count it

def tot (ts : List (RThread Loc QS)) (it : Item) : Nat := (ts.map fun t => locOcc t.loc it).sum

/-- every ingested item is in the queue or in exactly one thread's account, exactly once; items are numbered;
    the queue respects its bound -/
structure LInv (cfg : Cfg) (rc : RCfg Loc QS) : Prop where
  regions : ∀ t ∈ rc.threads, ∀ r ∈ t.todo, LysRegion cfg r
  occ_eq : ∀ it, (rc.st 0).queue.count it + tot rc.threads it = (rc.st 0).items.count it
  seqs : (rc.st 0).items.map (·.seq) = List.range (rc.st 0).items.length
  bound : 2 ≤ cfg.maxQ → (rc.st 0).queue.length ≤ cfg.maxQ

/-! ### delta form of the sequential accounting lemmas (no assumption on the state) -/

def Delta (s s' : State) : Prop := ∀ it, occ s' it + s.items.count it = occ s it + s'.items.count it

theorem Delta.trans {a b c : State} (h1 : Delta a b) (h2 : Delta b c) : Delta a c := by
  intro it; have := h1 it; have := h2 it; omega

theorem Delta.rfl' (s : State) : Delta s s := by intro it; rfl

theorem digestCore_delta (cfg : Cfg) (s : State) (n : Nat) (via : Bool) : Delta s (digestCore cfg s n via).1 := by
  intro it
  have h1 := count_take_drop s.queue n it
  have h2 := count_filter_split (succeeds cfg) (s.queue.take n) it
  simp only [digestCore, occ, List.count_append] at *
  omega

theorem emergency_delta (cfg : Cfg) (s : State) : Delta s (emergency cfg s) := by
  unfold emergency
  simp only
  split
  · exact Delta.rfl' s
  · intro it
    have h1 := count_take_drop s.queue (s.queue.length / 2) it
    have h2 := count_filter_split (succeedsEm cfg) (s.queue.take (s.queue.length / 2)) it
    simp only [occ, List.count_append] at *
    omega

theorem enqueue_delta (cfg : Cfg) (s : State) (id : Nat) (ty : WType) (c : Nat) (st : Stamp) :
    Delta s (enqueue cfg s id ty c st) := by
  unfold enqueue
  have hs1 : Delta s (if s.queue.length ≥ cfg.maxQ then emergency cfg s else s) := by
    split
    · exact emergency_delta cfg s
    · exact Delta.rfl' s
  generalize (if s.queue.length ≥ cfg.maxQ then emergency cfg s else s) = s1 at hs1
  refine hs1.trans ?_
  intro it
  simp only [occ, List.count_append]
  omega

theorem ingest_delta (cfg : Cfg) (s : State) (id : Nat) (ty : WType) (c : Nat) (st : Stamp) :
    Delta s (ingest cfg s id ty c st).1 := by
  have h2 := enqueue_delta cfg s id ty c st
  unfold ingest
  generalize enqueue cfg s id ty c st = s2 at h2
  simp only
  split
  · split
    · exact h2.trans (digestCore_delta cfg s2 _ true)
    · intro it
      have := h2 it
      simp only [occ] at this ⊢
      exact this
  · exact h2

theorem step_delta (cfg : Cfg) (s : State) (o : Op) : Delta s (step cfg s o).1 := by
  unfold step
  split
  · exact Delta.rfl' s
  · cases o with
    | ingest id ty c st => exact ingest_delta cfg s id ty c st
    | digest k => exact digestCore_delta cfg s _ false
    | autophagy =>
      simp only [autophagy]
      split
      · exact Delta.rfl' s
      · intro it
        have h2 := count_filter_split (keeps cfg s.clock) s.queue it
        simp only [occ, List.count_append] at *
        omega
    | advance us => intro it; rfl
    | clearBin => intro it; rfl

/-- the items list only ever grows by one freshly numbered item -/
def Grows (s s' : State) : Prop :=
  s'.items = s.items ∨ ∃ it, s'.items = s.items ++ [it] ∧ it.seq = s.items.length

theorem step_grows (cfg : Cfg) (s : State) (o : Op) : Grows s (step cfg s o).1 := by
  unfold step
  split
  · exact Or.inl rfl
  · cases o with
    | ingest id ty c st =>
      have he : Grows s (enqueue cfg s id ty c st) := by
        unfold enqueue
        simp only
        split
        · right; exact ⟨_, by rw [emergency_items], by simp [emergency_items]⟩
        · right; exact ⟨_, rfl, rfl⟩
      unfold ingest
      simp only
      split
      · split
        · exact he
        · exact he
      · exact he
    | digest k => exact Or.inl rfl
    | autophagy => simp only [autophagy]; split <;> exact Or.inl rfl
    | advance us => exact Or.inl rfl
    | clearBin => exact Or.inl rfl

theorem grows_seqs {s s' : State} (h : Grows s s') (hs : s.items.map (·.seq) = List.range s.items.length) :
    s'.items.map (·.seq) = List.range s'.items.length := by
  rcases h with h | ⟨it, h, hit⟩
  · rw [h]; exact hs
  · rw [h]
    simp only [List.map_append, List.map_cons, List.map_nil, List.length_append, List.length_cons, List.length_nil,
      List.range_succ, hs, hit]

/-! ### the invariant is preserved by every region step -/

theorem occ_embed (l : Loc) (q : QS) (it : Item) : occ (embed l q) it = q.queue.count it + locOcc l it := by
  simp only [occ, embed, locOcc, List.map_map]
  have : (List.map ((fun x : Nat × Item => x.2) ∘ fun it => (0, it)) l.pend) = l.pend := by simp [Function.comp_def]
  rw [this]
  omega

theorem occ_proj (s : State) (it : Item) : (projQ s).queue.count it + locOcc (projL s) it = occ s it := by
  simp only [occ, projQ, projL, locOcc]
  omega

theorem tot_mid (pre post : List (RThread Loc QS)) (t : RThread Loc QS) (it : Item) :
    tot (pre ++ t :: post) it = tot pre it + locOcc t.loc it + tot post it := by
  simp [tot, List.sum_append]
  omega

theorem rstep_linv (cfg : Cfg) (x y : RCfg Loc QS) (h : LInv cfg x) (hs : RStep x y) : LInv cfg y := by
  cases hs with
  | @run st pre post r rs l =>
    obtain ⟨rk, rlines⟩ := r
    generalize hr : (⟨rk, rlines⟩ : Region Loc QS) = r at *
    have hrk : r.k = rk := by rw [← hr]
    have hreg : LysRegion cfg r := h.regions ⟨r :: rs, l⟩ (by simp) r (by simp)
    have hregs : ∀ t ∈ pre ++ ⟨rs, (r.eff l (st r.k)).1⟩ :: post, ∀ r' ∈ t.todo, LysRegion cfg r' := by
      intro t ht r' hr'
      simp only [List.mem_append, List.mem_cons] at ht
      rcases ht with ht | rfl | ht
      · exact h.regions t (by simp [ht]) r' hr'
      · exact h.regions ⟨r :: rs, l⟩ (by simp) r' (by simp [hr'])
      · exact h.regions t (by simp [ht]) r' hr'
    have hocc := h.occ_eq
    have hseq := h.seqs
    have hb := h.bound
    simp only at hocc hseq hb
    rcases hreg with ⟨hk, hop⟩ | ⟨hk, hit⟩
    · -- a region on the queue lock
      have hk0 : rk = 0 := by rw [← hrk]; exact hk
      subst hk0
      rw [hrk] at hregs ⊢
      have key : ∀ (o : Op) (_ : ∀ l q, r.eff l q = opEff cfg o l q),
          LInv cfg ⟨Operon.Lock.upd1 st 0 (r.eff l (st 0)).2, pre ++ ⟨rs, (r.eff l (st 0)).1⟩ :: post⟩ := by
        intro o ho
        have hd := step_delta cfg (embed l (st 0)) o
        have hg := step_grows cfg (embed l (st 0)) o
        refine ⟨hregs, ?_, ?_, ?_⟩
        · intro it
          have h0 := hocc it
          have h1 := hd it
          rw [occ_embed, ← occ_proj] at h1
          have hi : (embed l (st 0)).items = (st 0).items := rfl
          rw [hi] at h1
          have hq' : (projQ (step cfg (embed l (st 0)) o).1).items = (step cfg (embed l (st 0)) o).1.items := rfl
          simp only [tot_mid, Operon.Lock.upd1, if_true, ho, opEff, hq'] at h0 ⊢
          omega
        · simp only [Operon.Lock.upd1, if_true, ho, opEff]
          exact grows_seqs hg hseq
        · intro h2
          simp only [Operon.Lock.upd1, if_true, ho, opEff]
          exact step_queue_bound cfg h2 (embed l (st 0)) o (hb h2)
      rcases hop with ⟨id, ty, c, stp, ho⟩ | ho | ⟨k, ho⟩
      · exact key _ ho
      · exact key _ ho
      · refine ⟨hregs, ?_, ?_, ?_⟩
        · intro it
          have h0 := hocc it
          have h1 := count_take_drop (st 0).queue (sliceCount (st 0).queue.length k) it
          simp only [tot_mid, Operon.Lock.upd1, if_true, ho, popEff, locOcc, List.count_append] at h0 ⊢
          omega
        · simpa [Operon.Lock.upd1, ho, popEff] using hseq
        · intro h2
          have := hb h2
          simp only [Operon.Lock.upd1, if_true, ho, popEff, List.length_drop]
          omega
    · -- the loop of digest: thread-local
      have hst : Operon.Lock.upd1 st r.k (r.eff l (st r.k)).2 = st := by
        funext j
        simp only [Operon.Lock.upd1, hit]
        split
        · rename_i hj; rw [hj]
        · rfl
      rw [hst]
      refine ⟨hregs, ?_, hseq, hb⟩
      intro it
      have h0 := hocc it
      have h2 := count_filter_split (succeeds cfg) l.pend it
      simp only [tot_mid, hit, iterEff, locOcc, List.count_append, List.count_nil] at h0 ⊢
      omega

/-- **Line level ⇒ atomic regions, with the accounting invariant.**  Threads made of lysosome regions (each cut into
    source lines in any way), started in a state satisfying the invariant: whatever the interleaving of their lines,
    every quiescent configuration reached (in particular the final one) is the result of running whole regions one
    after the other in some order that keeps each thread's own order, and satisfies the invariant. -/
theorem lines_reduce (cfg : Cfg) (rc0 : RCfg Loc QS) (h0 : LInv cfg rc0) (c : Operon.Lock.Cfg Loc QS)
    (hs : Star Operon.Lock.Step rc0.toCfg c) (hq : c.quiescent) :
    ∃ rc, c = rc.toCfg ∧ Star RStep rc0 rc ∧ LInv cfg rc := by
  obtain ⟨rc, hc, hr⟩ := Operon.Lock.serializable_regions rc0 c hs hq
  exact ⟨rc, hc, hr, Operon.Lock.rstar_induct (P := LInv cfg) h0 (rstep_linv cfg) hr⟩

/-- a fresh lysosome and any threads made of lysosome regions satisfy the invariant -/
theorem linv_fresh (cfg : Cfg) (ts : List (RThread Loc QS))
    (hreg : ∀ t ∈ ts, ∀ r ∈ t.todo, LysRegion cfg r) (hloc : ∀ t ∈ ts, t.loc = ⟨[], [], [], [], []⟩) :
    LInv cfg ⟨fun _ => ⟨[], [], 0⟩, ts⟩ := by
  refine ⟨hreg, ?_, by simp, by intro _; simp⟩
  intro it
  have : tot ts it = 0 := by
    unfold tot
    induction ts with
    | nil => rfl
    | cons t ts ih =>
      have ht := hloc t (by simp)
      simp only [List.map_cons, List.sum_cons]
      rw [ih (fun t' h' => hreg t' (by simp [h'])) (fun t' h' => hloc t' (by simp [h']))]
      simp [ht, locOcc]
  simp [this]

end Operon.Lysosome
