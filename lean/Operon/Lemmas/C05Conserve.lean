import Operon.Lemmas.C05
/-! Conservation of energy across stores under every interleaving (C05): what the stores hold, plus what they have
    handed out to successful spends, plus what is in flight between the two halves of a transfer, plus what the
    `regenerate` actions still to run may add, never grows. -/
namespace Operon.AtpConc
open Operon.Lock Operon.Atp

/-- energy a store holds (net worth: balances minus debt) plus the energy it has handed out to successful spends -/
def held (s : Store) : Int := s.worth + s.consumed

/-- the same over the stores numbered `0 .. N-1` -/
def heldSum (N : Nat) (st : Nat → Store) : Int := ((List.range N).map fun j => held (st j)).sum

/-- what a `regenerate` action may add (regeneration is the only source of energy) -/
def Act.regen : Act → Int
  | .regenerate _ n _ => n
  | _ => 0

def depositHead : List Act → Int
  | .deposit _ n _ :: _ => n
  | _ => 0

/-- energy taken out by the first half of a `transfer_to` whose second half has not run yet -/
def AThread.inflight (t : AThread) : Int := if t.loc.pending then depositHead t.todo else 0

/-- what the thread's remaining `regenerate` actions may add -/
def AThread.regenLeft (t : AThread) : Int := (t.todo.map Act.regen).sum

def credit (ts : List AThread) : Int := (ts.map fun t => t.inflight + t.regenLeft).sum

/-- the conserved quantity -/
def energy (N : Nat) (ac : ACfg) : Int := heldSum N ac.st + credit ac.threads

/-- a thread is between two API calls, or between the two halves of a `transfer_to` -/
def AThread.Shaped (t : AThread) : Prop :=
  (t.loc.pending = false ∧ ∃ cs : List Call, t.todo = cs.flatMap Call.acts) ∨
  (∃ j n cur, ∃ cs : List Call, t.todo = .deposit j n cur :: cs.flatMap Call.acts)

/-- every thread is shaped and only touches stores below `N` -/
def ACfg.Inv (N : Nat) (ac : ACfg) : Prop := ∀ t ∈ ac.threads, t.Shaped ∧ ∀ a ∈ t.todo, a.lock < N

theorem heldSum_succ (N : Nat) (st : Nat → Store) : heldSum (N + 1) st = heldSum N st + held (st N) := by
  simp [heldSum, List.range_succ, List.sum_append]

theorem heldSum_upd_ge (N k : Nat) (st : Nat → Store) (v : Store) (hk : N ≤ k) :
    heldSum N (upd1 st k v) = heldSum N st := by
  induction N with
  | zero => rfl
  | succ N ih =>
    rw [heldSum_succ, heldSum_succ, ih (by omega)]
    have : N ≠ k := by omega
    simp [upd1, this]

theorem heldSum_upd (N k : Nat) (st : Nat → Store) (v : Store) (hk : k < N) :
    heldSum N (upd1 st k v) = heldSum N st - held (st k) + held v := by
  induction N with
  | zero => omega
  | succ N ih =>
    rw [heldSum_succ, heldSum_succ]
    by_cases h : k = N
    · subst h
      rw [heldSum_upd_ge k k st v (Nat.le_refl k)]
      simp only [upd1, if_true]
      omega
    · rw [ih (by omega)]
      have : N ≠ k := fun e => h e.symm
      simp only [upd1, this, if_false]
      omega

theorem credit_split (pre post : List AThread) (t : AThread) :
    credit (pre ++ t :: post) = credit pre + (t.inflight + t.regenLeft) + credit post := by
  simp [credit, List.sum_append, Int.add_assoc]

theorem held_consume (cls : Classifier) (obs : Obs) (s : Store) (cost : Nat) (cur : Cur) (d : Bool) (p : Nat) :
    held (consumeO cls obs s cost cur d p).1 = held s := by
  have h := (consumeO_spec cls obs s cost cur d p).1
  have h1 := h.worth
  have h2 := h.consumed
  simp only [] at h1 h2
  unfold held
  omega

theorem held_regenerate (cls : Classifier) (obs : Obs) (s : Store) (n : Nat) (cur : Cur) :
    held (regenerateO cls obs s n cur).1 ≤ held s + n := by
  have h := (regenerateO_spec cls obs s n cur).1
  have h1 := h.worth
  have h2 := h.consumed
  unfold held
  omega

theorem held_convert (s : Store) (n : Nat) : held (convert s n).1 = held s := by
  have h := convert_spec s n
  have h1 := h.total
  have h2 := h.debt
  have h3 := h.consumed
  unfold held Store.worth
  unfold Store.total at h1
  omega

theorem held_withdraw (s : Store) (n : Nat) (cur : Cur) :
    ((withdraw s n cur).2 = true → held (withdraw s n cur).1 = held s - n) ∧
    ((withdraw s n cur).2 = false → (withdraw s n cur).1 = s) := by
  have h := withdraw_spec s n cur
  refine ⟨fun hw => ?_, h.fail⟩
  have h1 := (h.ok hw).2.1
  have h2 := h.consumed
  unfold held
  omega

theorem flatMap_acts_cons {cs : List Call} {a : Act} {as : List Act} (h : a :: as = cs.flatMap Call.acts) :
    ∃ c cs', cs = c :: cs' ∧ a :: as = c.acts ++ cs'.flatMap Call.acts := by
  cases cs with
  | nil => simp at h
  | cons c cs' => exact ⟨c, cs', rfl, by simpa using h⟩

/-- the local step: the running thread's share of the energy does not grow, and the thread stays shaped -/
theorem body_conserves (cls : Classifier) (obs : Nat → Obs) (a : Act) (as : List Act) (l : Loc) (s : Store)
    (hsh : AThread.Shaped ⟨a :: as, l⟩) :
    AThread.Shaped ⟨as, (body cls obs a l s).1⟩ ∧
    held (body cls obs a l s).2 + AThread.inflight ⟨as, (body cls obs a l s).1⟩ ≤
      held s + AThread.inflight ⟨a :: as, l⟩ + a.regen := by
  rcases hsh with ⟨hp, cs, hcs⟩ | ⟨j, n, cur, cs, hcs⟩
  · simp only at hp hcs
    obtain ⟨c, cs', rfl, hc⟩ := flatMap_acts_cons hcs
    cases c with
    | consume i cost cur d p =>
      simp only [Call.acts, List.cons_append, List.nil_append, List.cons.injEq] at hc
      obtain ⟨rfl, rfl⟩ := hc
      refine ⟨Or.inl ⟨by simpa [body] using hp, cs', rfl⟩, ?_⟩
      simp only [body, AThread.inflight, hp, Act.regen, held_consume]
      simp
    | regenerate i n cur =>
      simp only [Call.acts, List.cons_append, List.nil_append, List.cons.injEq] at hc
      obtain ⟨rfl, rfl⟩ := hc
      refine ⟨Or.inl ⟨by simpa [body] using hp, cs', rfl⟩, ?_⟩
      have := held_regenerate cls (obs i) s n cur
      simp only [body, AThread.inflight, hp, Act.regen]
      simp only [Bool.false_eq_true, if_false]
      omega
    | convert i n =>
      simp only [Call.acts, List.cons_append, List.nil_append, List.cons.injEq] at hc
      obtain ⟨rfl, rfl⟩ := hc
      refine ⟨Or.inl ⟨by simpa [body] using hp, cs', rfl⟩, ?_⟩
      simp only [body, AThread.inflight, hp, Act.regen, held_convert]
      simp
    | transfer src dst n cur =>
      simp only [Call.acts, List.cons_append, List.nil_append, List.cons.injEq] at hc
      obtain ⟨rfl, rfl⟩ := hc
      refine ⟨Or.inr ⟨dst, n, cur, cs', rfl⟩, ?_⟩
      have hw := held_withdraw s n cur
      simp only [body, AThread.inflight, hp, Act.regen, depositHead]
      by_cases hb : (withdraw s n cur).2 = true
      · have := hw.1 hb
        simp only [hb, if_true, Bool.false_eq_true, if_false]
        omega
      · have hb' : (withdraw s n cur).2 = false := by simpa using hb
        rw [hw.2 hb']
        simp [hb']
  · simp only [List.cons.injEq] at hcs
    obtain ⟨rfl, rfl⟩ := hcs
    cases hpend : l.pending with
    | true =>
      refine ⟨Or.inl ⟨by simp [body, hpend], cs, rfl⟩, ?_⟩
      have := held_regenerate cls (obs j) s n cur
      simp only [body, hpend, if_true, AThread.inflight, depositHead, Act.regen, depositO]
      simp only [Bool.false_eq_true, if_false]
      omega
    | false =>
      refine ⟨Or.inl ⟨by simp [body, hpend], cs, rfl⟩, ?_⟩
      simp [body, hpend, AThread.inflight, Act.regen]

theorem actstep_conserves (cls : Classifier) (obs : Nat → Obs) (N : Nat) (x y : ACfg) (hx : x.Inv N)
    (h : ActStep cls obs x y) : y.Inv N ∧ energy N y ≤ energy N x := by
  cases h with
  | @run st pre post a as l =>
    have hmem : (⟨a :: as, l⟩ : AThread) ∈ pre ++ ⟨a :: as, l⟩ :: post := by simp
    obtain ⟨hsh, hlock⟩ := hx _ hmem
    obtain ⟨hsh', hle⟩ := body_conserves cls obs a as l (st a.lock) hsh
    have hk : a.lock < N := hlock a (by simp)
    constructor
    · intro t ht
      simp only [List.mem_append, List.mem_cons] at ht
      rcases ht with ht | rfl | ht
      · exact hx t (by simp [ht])
      · exact ⟨hsh', fun b hb => hlock b (by simp [hb])⟩
      · exact hx t (by simp [ht])
    · simp only [energy, credit_split, heldSum_upd N a.lock st _ hk, AThread.regenLeft, List.map_cons,
        List.sum_cons] at hle ⊢
      simp only [AThread.inflight] at hle ⊢
      omega

end Operon.AtpConc

namespace Operon.AtpConc
open Operon.Lock Operon.Atp

theorem ofCalls_inv (N : Nat) (st : Nat → Store) (progs : List (List Call))
    (hN : ∀ p ∈ progs, ∀ c ∈ p, ∀ a ∈ c.acts, a.lock < N) : (ACfg.ofCalls st progs).Inv N := by
  intro t ht
  simp only [ACfg.ofCalls, List.mem_map] at ht
  obtain ⟨p, hp, rfl⟩ := ht
  refine ⟨Or.inl ⟨rfl, p, rfl⟩, ?_⟩
  intro a ha
  simp only [List.mem_flatMap] at ha
  obtain ⟨c, hc, hac⟩ := ha
  exact hN p hp c hc a hac

theorem actstar_conserves (cls : Classifier) (obs : Nat → Obs) (N : Nat) (x y : ACfg) (hx : x.Inv N)
    (hs : Star (ActStep cls obs) x y) : y.Inv N ∧ energy N y ≤ energy N x := by
  refine actstar_induct (P := fun z => z.Inv N ∧ energy N z ≤ energy N x) ⟨hx, Int.le_refl _⟩ ?_ hs
  intro a b ⟨ha, hle⟩ hstep
  obtain ⟨hb, hle'⟩ := actstep_conserves cls obs N a b ha hstep
  exact ⟨hb, Int.le_trans hle' hle⟩

theorem regen_nonneg (a : Act) : 0 ≤ a.regen := by
  cases a <;> simp only [Act.regen] <;> omega

theorem depositHead_nonneg (l : List Act) : 0 ≤ depositHead l := by
  unfold depositHead
  split <;> omega

theorem credit_nonneg (ts : List AThread) : 0 ≤ credit ts := by
  unfold credit
  apply int_sum_nonneg
  intro x hx
  simp only [List.mem_map] at hx
  obtain ⟨t, _, rfl⟩ := hx
  have h1 : 0 ≤ t.inflight := by
    unfold AThread.inflight
    split
    · exact depositHead_nonneg _
    · omega
  have h2 : 0 ≤ t.regenLeft := by
    unfold AThread.regenLeft
    apply int_sum_nonneg
    intro y hy
    simp only [List.mem_map] at hy
    obtain ⟨a, _, rfl⟩ := hy
    exact regen_nonneg a
  omega

/-- everything the `regenerate` calls of the programs may add -/
def regenTotal (progs : List (List Call)) : Int :=
  (progs.map fun p => ((p.flatMap Call.acts).map Act.regen).sum).sum

theorem credit_ofCalls (st : Nat → Store) (progs : List (List Call)) :
    credit (ACfg.ofCalls st progs).threads = regenTotal progs := by
  simp only [credit, ACfg.ofCalls, regenTotal, List.map_map]
  congr 1
  apply List.map_congr_left
  intro p _
  simp [AThread.inflight, AThread.regenLeft]

end Operon.AtpConc
