import Operon.Model.CoordHist
import Operon.Lemmas.C14
/-! Helper lemmas for C15: DFS soundness, victim selection, handling, exactness outside the trigger. -/
namespace Operon.Coord

/-- `a → b` is a recorded edge as the DFS sees it (first entry for `a`) -/
def Edge (E : Edges) (a b : Nat) : Prop := b ∈ nexts E a

/-- consecutive elements are connected by recorded edges -/
def Chain (E : Edges) : List Nat → Prop
  | [] => True
  | [_] => True
  | a :: b :: rest => Edge E a b ∧ Chain E (b :: rest)

/-- a non-empty closed walk: consecutive members are connected and the last is connected to the first -/
def IsCycle (E : Edges) (c : List Nat) : Prop := ∃ b, c.head? = some b ∧ Chain E (c ++ [b])

theorem edge_hasEdge {E : Edges} {a b : Nat} (h : Edge E a b) : ∃ r, HasEdge E a b r := by
  unfold Edge nexts succs at h
  cases hf : E.find? (fun e => e.1 = a) with
  | none => simp [hf] at h
  | some e =>
    simp only [hf, List.mem_map] at h
    obtain ⟨d, hd, rfl⟩ := h
    exact ⟨d.2, e, List.mem_of_find?_eq_some hf, by simpa using List.find?_some hf, hd⟩

theorem chain_append_edge {E : Edges} : ∀ (p : List Nat) (a b : Nat),
    p.getLast? = some a → Chain E p → Edge E a b → Chain E (p ++ [b])
  | [], _, _, h, _, _ => by simp at h
  | [x], a, b, h, _, he => by
    simp at h; subst h; simpa [Chain] using he
  | x :: y :: rest, a, b, h, hc, he => by
    obtain ⟨h1, h2⟩ := hc
    refine ⟨h1, ?_⟩
    have hl : (y :: rest).getLast? = some a := by simpa [List.getLast?_cons_cons] using h
    exact chain_append_edge (y :: rest) a b hl h2 he

theorem chain_dropWhile {E : Edges} (q : Nat → Bool) : ∀ (p : List Nat), Chain E p → Chain E (p.dropWhile q)
  | [], _ => by simp [Chain]
  | [a], _ => by
    simp only [List.dropWhile]; split <;> simp [Chain]
  | a :: b :: rest, hc => by
    simp only [List.dropWhile]
    split
    · exact chain_dropWhile q (b :: rest) hc.2
    · exact hc

theorem dropWhile_append_mem (b : Nat) : ∀ (p q : List Nat), b ∈ p →
    (p ++ q).dropWhile (· ≠ b) = p.dropWhile (· ≠ b) ++ q
  | [], _, h => by simp at h
  | a :: rest, q, h => by
    by_cases hab : a = b
    · subst hab; simp [List.dropWhile]
    · have hb : b ∈ rest := by
        rcases List.mem_cons.mp h with h | h
        · exact absurd h.symm hab
        · exact h
      simp only [List.cons_append, List.dropWhile, hab, ne_eq, not_false_eq_true, decide_true]
      exact dropWhile_append_mem b rest q hb

theorem head_dropWhile_mem (b : Nat) : ∀ (p : List Nat), b ∈ p → (p.dropWhile (· ≠ b)).head? = some b
  | [], h => by simp at h
  | a :: rest, h => by
    by_cases hab : a = b
    · subst hab; simp [List.dropWhile]
    · have hb : b ∈ rest := by
        rcases List.mem_cons.mp h with h | h
        · exact absurd h.symm hab
        · exact h
      simp only [List.dropWhile, hab, ne_eq, not_false_eq_true, decide_true]
      exact head_dropWhile_mem b rest hb

theorem dfsSuccs_sound (E : Edges) (rec : Nat → List Nat → List Nat → Option (List Nat) × List Nat)
    (hrec : ∀ (b : Nat) (visited path c v : List Nat), path.getLast? = some b → Chain E path →
      rec b visited path = (some c, v) → IsCycle E c) (node : Nat) :
    ∀ (bs visited path : List Nat) (c : List Nat) (v : List Nat),
    path.getLast? = some node → Chain E path → (∀ b ∈ bs, Edge E node b) →
    dfsSuccs rec bs visited path = (some c, v) → IsCycle E c
  | [], _, _, _, _, _, _, _, h => by simp [dfsSuccs] at h
  | b :: bs, visited, path, c, v, hl, hc, he, h => by
    have heb : Edge E node b := he b (by simp)
    have hrest : ∀ x ∈ bs, Edge E node x := fun x hx => he x (by simp [hx])
    simp only [dfsSuccs] at h
    split at h
    · have hc' : Chain E (path ++ [b]) := chain_append_edge path node b hl hc heb
      have hl' : (path ++ [b]).getLast? = some b := by simp
      split at h
      · rename_i c' v' heq
        simp only [Prod.mk.injEq, Option.some.injEq] at h
        obtain ⟨rfl, rfl⟩ := h
        exact hrec b (b :: visited) (path ++ [b]) _ _ hl' hc' heq
      · rename_i v' heq
        exact dfsSuccs_sound E rec hrec node bs v' path c v hl hc hrest h
    · split at h
      · rename_i hmem
        simp only [Prod.mk.injEq, Option.some.injEq] at h
        obtain ⟨rfl, rfl⟩ := h
        refine ⟨b, head_dropWhile_mem b path hmem, ?_⟩
        have hc' : Chain E (path ++ [b]) := chain_append_edge path node b hl hc heb
        have := chain_dropWhile (E := E) (fun x => decide (x ≠ b)) (path ++ [b]) hc'
        rw [dropWhile_append_mem b path [b] hmem] at this
        exact this
      · exact dfsSuccs_sound E rec hrec node bs visited path c v hl hc hrest h

theorem dfs_sound (E : Edges) : ∀ (fuel node : Nat) (visited path : List Nat) (c : List Nat) (v : List Nat),
    path.getLast? = some node → Chain E path →
    dfs E fuel node visited path = (some c, v) → IsCycle E c
  | 0, _, _, _, _, _, _, _, h => by simp [dfs] at h
  | fuel+1, node, visited, path, c, v, hl, hc, h => by
    simp only [dfs] at h
    exact dfsSuccs_sound E _ (fun b vis p c' v' hl' hc' h' => dfs_sound E fuel b vis p c' v' hl' hc' h')
      node (nexts E node) visited path c v hl hc (fun b hb => hb) h

theorem detectFrom_sound (E : Edges) (fuel : Nat) : ∀ (ns visited : List Nat) (c : List Nat),
    detectFrom E fuel ns visited = some c → IsCycle E c
  | [], _, _, h => by simp [detectFrom] at h
  | n :: ns, visited, c, h => by
    simp only [detectFrom] at h
    split at h
    · exact detectFrom_sound E fuel ns visited c h
    · split at h
      · rename_i c' v heq
        simp only [Option.some.injEq] at h
        subst h
        exact dfs_sound E fuel n (n :: visited) [n] _ _ (by simp) (by simp [Chain]) heq
      · rename_i v heq
        exact detectFrom_sound E fuel ns v c h

/-- every member of a cycle has an outgoing recorded edge to the next member -/
theorem chain_mem_succ {E : Edges} : ∀ (l : List Nat) (x a : Nat), Chain E (l ++ [x]) → a ∈ l → ∃ b, Edge E a b
  | [], _, _, _, h => by cases h
  | [y], x, a, hc, h => by
    simp at h; subst h
    exact ⟨x, by simpa [Chain] using hc⟩
  | y :: z :: rest, x, a, hc, h => by
    rcases List.mem_cons.mp h with rfl | h'
    · exact ⟨z, hc.1⟩
    · exact chain_mem_succ (z :: rest) x a hc.2 h'

theorem isCycle_mem_edge {E : Edges} {c : List Nat} (h : IsCycle E c) {a : Nat} (ha : a ∈ c) : ∃ b, Edge E a b := by
  obtain ⟨b, _, hc⟩ := h
  exact chain_mem_succ c b a hc ha

/-! ### victim selection -/

theorem foldl_min_spec {α : Type} (key : α → Int) : ∀ (xs : List α) (x : α),
    (xs.foldl (fun best y => if key y < key best then y else best) x ∈ x :: xs) ∧
    (∀ y ∈ x :: xs, key (xs.foldl (fun best y => if key y < key best then y else best) x) ≤ key y)
  | [], x => by simp
  | z :: zs, x => by
    simp only [List.foldl_cons]
    by_cases hlt : key z < key x
    · simp only [hlt, if_true]
      have ih := foldl_min_spec key zs z
      constructor
      · rcases List.mem_cons.mp ih.1 with h | h
        · rw [h]; simp
        · simp [h]
      · intro y hy
        have hb := ih.2 z (by simp)
        rcases List.mem_cons.mp hy with rfl | hy'
        · omega
        · exact ih.2 y hy'
    · simp only [hlt, if_false]
      have ih := foldl_min_spec key zs x
      constructor
      · rcases List.mem_cons.mp ih.1 with h | h
        · rw [h]; simp
        · simp [h]
      · intro y hy
        have hb := ih.2 x (by simp)
        rcases List.mem_cons.mp hy with rfl | hy'
        · exact hb
        · rcases List.mem_cons.mp hy' with rfl | hy''
          · omega
          · exact ih.2 y (by simp [hy''])

theorem firstMinBy_spec {α : Type} (key : α → Int) {l : List α} {x : α} (h : firstMinBy key l = some x) :
    x ∈ l ∧ ∀ y ∈ l, key x ≤ key y := by
  cases l with
  | nil => simp [firstMinBy] at h
  | cons a as =>
    simp only [firstMinBy, Option.some.injEq] at h
    subst h
    exact foldl_min_spec key as a

theorem mem_involved {s : Sys} {agents : List Nat} {c : Ctx} (h : c ∈ agents.filterMap s.ctx?) :
    c ∈ s.active ∧ c.id ∈ agents := by
  obtain ⟨o, ho, hc⟩ := List.mem_filterMap.mp h
  obtain ⟨hm, hid⟩ := ctx?_some hc
  exact ⟨hm, hid ▸ ho⟩

/-! ### handling a deadlock -/

theorem clean_abortById {s : Sys} {v : Nat} (h : Clean s v) (o : Nat) : Clean (abortById s o) v := by
  unfold abortById
  cases hc : s.ctx? o with
  | none => exact h
  | some cx =>
    simp only
    have hf := finish_finStep s cx
    refine ⟨fun x hx => h.owns x (hf.owns hx), ?_, ?_, ?_⟩
    · intro c hcm
      rw [hf.active] at hcm
      exact h.active c (List.mem_filter.mp hcm).1
    · intro r l' hl' e he
      have := hf.locks r
      cases hs : s.locks r with
      | none => rw [hs] at this; simp only at this; rw [this] at hl'; cases hl'
      | some l =>
        rw [hs] at this
        obtain ⟨l2, hl2, _, hw, _⟩ := this
        rw [hl2] at hl'; cases hl'
        rw [hw] at he
        exact h.waiting r l hs e (List.mem_filter.mp he).1
    · intro w b r hh
      exact h.edges w b r ((hf.edges w b r).mp hh).2.2

theorem clean_abortMany {v : Nat} : ∀ (ids : List Nat) {s : Sys}, Clean s v → Clean (abortMany s ids) v
  | [], _, h => h
  | o :: ids, s, h => by
    unfold abortMany
    simp only [List.foldl_cons]
    exact clean_abortMany ids (clean_abortById h o)

theorem listed_abortById_ne {s : Sys} {v o : Nat} (hne : o ≠ v) (h : ∃ c ∈ s.active, c.id = v) :
    ∃ c ∈ (abortById s o).active, c.id = v := by
  unfold abortById
  cases hc : s.ctx? o with
  | none => exact h
  | some cx =>
    simp only
    obtain ⟨c, hcm, hid⟩ := h
    have hf := finish_finStep s cx
    rw [(ctx?_some hc).2] at hf
    exact ⟨c, by rw [hf.active]; exact List.mem_filter.mpr ⟨hcm, by simp [hid, Ne.symm hne]⟩, hid⟩

/-- terminating a list of operations that contains the listed operation `v` leaves nothing of `v` -/
theorem abortMany_clean_of_mem {v : Nat} : ∀ (ids : List Nat) {s : Sys}, Kinv s v → (∃ c ∈ s.active, c.id = v) →
    v ∈ ids → Clean (abortMany s ids) v
  | [], _, _, _, h => by cases h
  | o :: ids, s, hk, hl, hm => by
    unfold abortMany
    simp only [List.foldl_cons]
    by_cases ho : o = v
    · subst ho
      apply clean_abortMany ids
      unfold abortById
      obtain ⟨c, hcm, hid⟩ := hl
      cases hc : s.ctx? o with
      | none => exact absurd hid (ctx?_none hc c hcm)
      | some cx =>
        simp only
        obtain ⟨hxm, hxid⟩ := ctx?_some hc
        have := finish_clean (s := s) (c := cx) (by rw [hxid]; exact hk.listed cx hxm hxid)
        rw [hxid] at this
        exact this
    · have hm' : v ∈ ids := by
        rcases List.mem_cons.mp hm with h | h
        · exact absurd h.symm ho
        · exact h
      exact abortMany_clean_of_mem ids (kinv_abortById hk o) (listed_abortById_ne ho hl) hm'

/-! ### what `Watchdog.check` reports as a deadlock victim -/

theorem timeoutEvent_not_deadlock {s : Sys} {c : Ctx} {o : Nat} {r : Reason} (h : timeoutEvent s c = some (o, r)) :
    r ≠ .deadlock := by
  unfold timeoutEvent at h
  split at h
  · cases h
  · split at h
    · cases h; simp
    · split at h
      · cases h; simp
      · split at h
        · cases h; simp
        · cases h

theorem wdCheck_deadlock {s : Sys} {v : Nat} (h : (v, Reason.deadlock) ∈ wdCheck s) :
    ∃ cyc, detectCycle s.edges = some cyc ∧ selectVictim s cyc = some v := by
  have hno : (v, Reason.deadlock) ∉ s.active.filterMap (timeoutEvent s) := by
    intro hm
    obtain ⟨c, _, hc⟩ := List.mem_filterMap.mp hm
    exact timeoutEvent_not_deadlock hc rfl
  unfold wdCheck at h
  simp only at h
  split at h
  · exact absurd h hno
  · rename_i cyc hcyc
    split at h
    · exact absurd h hno
    · rename_i v' hv'
      split at h
      · exact absurd h hno
      · rcases List.mem_append.mp h with h | h
        · exact absurd h hno
        · simp only [List.mem_singleton, Prod.mk.injEq] at h
          exact ⟨cyc, hcyc, by rw [hv', h.1]⟩

/-- the selected victim is a listed member of the cycle and is minimal for the configured rule among the listed
    members (as `active_operations.get` finds them) -/
theorem selectVictim_spec {s : Sys} {cyc : List Nat} {v : Nat} (h : selectVictim s cyc = some v) :
    ∃ cv, s.ctx? v = some cv ∧ cv ∈ s.active ∧ cv.id = v ∧ v ∈ cyc ∧
      (s.strategy = .priority → ∀ o ∈ cyc, ∀ c, s.ctx? o = some c → cv.prio ≤ c.prio) ∧
      (s.strategy = .oldest → ∀ o ∈ cyc, ∀ c, s.ctx? o = some c → cv.created ≤ c.created) := by
  unfold selectVictim at h
  simp only at h
  have hfound : ∀ c ∈ cyc.filterMap s.ctx?, s.ctx? c.id = some c := by
    intro c hc
    obtain ⟨o, _, hoc⟩ := List.mem_filterMap.mp hc
    rw [(ctx?_some hoc).2]; exact hoc
  cases hs : s.strategy with
  | priority =>
    rw [hs] at h
    simp only [Option.map_eq_some_iff] at h
    obtain ⟨cv, hcv, rfl⟩ := h
    obtain ⟨hm, hmin⟩ := firstMinBy_spec _ hcv
    obtain ⟨hma, hmc⟩ := mem_involved hm
    refine ⟨cv, hfound cv hm, hma, rfl, hmc, ?_, by simp⟩
    intro _ o ho c hc
    exact hmin c (List.mem_filterMap.mpr ⟨o, ho, hc⟩)
  | oldest =>
    rw [hs] at h
    simp only [Option.map_eq_some_iff] at h
    obtain ⟨cv, hcv, rfl⟩ := h
    obtain ⟨hm, hmin⟩ := firstMinBy_spec _ hcv
    obtain ⟨hma, hmc⟩ := mem_involved hm
    refine ⟨cv, hfound cv hm, hma, rfl, hmc, by simp, ?_⟩
    intro _ o ho c hc
    have := hmin c (List.mem_filterMap.mpr ⟨o, ho, hc⟩)
    omega
  | other =>
    rw [hs] at h
    simp only [Option.map_eq_some_iff] at h
    obtain ⟨cv, hcv, rfl⟩ := h
    have hm : cv ∈ cyc.filterMap s.ctx? := List.mem_of_mem_head? hcv
    obtain ⟨hma, hmc⟩ := mem_involved hm
    exact ⟨cv, hfound cv hm, hma, rfl, hmc, by simp, by simp⟩

end Operon.Coord
