import Operon.Model.CoordHist
import Operon.Lemmas.C14
/-! Helper lemmas for C15: DFS soundness, victim selection, handling, exactness outside the trigger. -/
namespace Operon.Coord

/-- `a → b` is a recorded edge as the DFS sees it (first entry for `a`) -/
def Edge (E : Edges) (a b : Nat) : Prop := b ∈ nexts E a

/-- consecutive elements are connected by recorded edges -/
def Chain (E : Edges) : List Nat → Prop
  | [] => True
  | [_] => True
  | a :: b :: rest => Edge E a b ∧ Chain E (b :: rest)

/-- a non-empty closed walk: consecutive members are connected and the last is connected to the first -/
def IsCycle (E : Edges) (c : List Nat) : Prop := ∃ b, c.head? = some b ∧ Chain E (c ++ [b])

theorem edge_hasEdge {E : Edges} {a b : Nat} (h : Edge E a b) : ∃ r, HasEdge E a b r := by
  unfold Edge nexts succs at h
  cases hf : E.find? (fun e => e.1 = a) with
  | none => simp [hf] at h
  | some e =>
    simp only [hf, List.mem_map] at h
    obtain ⟨d, hd, rfl⟩ := h
    exact ⟨d.2, e, List.mem_of_find?_eq_some hf, by simpa using List.find?_some hf, hd⟩

theorem chain_append_edge {E : Edges} : ∀ (p : List Nat) (a b : Nat),
    p.getLast? = some a → Chain E p → Edge E a b → Chain E (p ++ [b])
  | [], _, _, h, _, _ => by simp at h
  | [x], a, b, h, _, he => by
    simp at h; subst h; simpa [Chain] using he
  | x :: y :: rest, a, b, h, hc, he => by
    obtain ⟨h1, h2⟩ := hc
    refine ⟨h1, ?_⟩
    have hl : (y :: rest).getLast? = some a := by simpa [List.getLast?_cons_cons] using h
    exact chain_append_edge (y :: rest) a b hl h2 he

theorem chain_dropWhile {E : Edges} (q : Nat → Bool) : ∀ (p : List Nat), Chain E p → Chain E (p.dropWhile q)
  | [], _ => by simp [Chain]
  | [a], _ => by
    simp only [List.dropWhile]; split <;> simp [Chain]
  | a :: b :: rest, hc => by
    simp only [List.dropWhile]
    split
    · exact chain_dropWhile q (b :: rest) hc.2
    · exact hc

theorem dropWhile_append_mem (b : Nat) : ∀ (p q : List Nat), b ∈ p →
    (p ++ q).dropWhile (· ≠ b) = p.dropWhile (· ≠ b) ++ q
  | [], _, h => by simp at h
  | a :: rest, q, h => by
    by_cases hab : a = b
    · subst hab; simp [List.dropWhile]
    · have hb : b ∈ rest := by
        rcases List.mem_cons.mp h with h | h
        · exact absurd h.symm hab
        · exact h
      simp only [List.cons_append, List.dropWhile, hab, ne_eq, not_false_eq_true, decide_true]
      exact dropWhile_append_mem b rest q hb

theorem head_dropWhile_mem (b : Nat) : ∀ (p : List Nat), b ∈ p → (p.dropWhile (· ≠ b)).head? = some b
  | [], h => by simp at h
  | a :: rest, h => by
    by_cases hab : a = b
    · subst hab; simp [List.dropWhile]
    · have hb : b ∈ rest := by
        rcases List.mem_cons.mp h with h | h
        · exact absurd h.symm hab
        · exact h
      simp only [List.dropWhile, hab, ne_eq, not_false_eq_true, decide_true]
      exact head_dropWhile_mem b rest hb

theorem dfsSuccs_sound (E : Edges) (rec : Nat → List Nat → List Nat → Option (List Nat) × List Nat)
    (hrec : ∀ (b : Nat) (visited path c v : List Nat), path.getLast? = some b → Chain E path →
      rec b visited path = (some c, v) → IsCycle E c) (node : Nat) :
    ∀ (bs visited path : List Nat) (c : List Nat) (v : List Nat),
    path.getLast? = some node → Chain E path → (∀ b ∈ bs, Edge E node b) →
    dfsSuccs rec bs visited path = (some c, v) → IsCycle E c
  | [], _, _, _, _, _, _, _, h => by simp [dfsSuccs] at h
  | b :: bs, visited, path, c, v, hl, hc, he, h => by
    have heb : Edge E node b := he b (by simp)
    have hrest : ∀ x ∈ bs, Edge E node x := fun x hx => he x (by simp [hx])
    simp only [dfsSuccs] at h
    split at h
    · have hc' : Chain E (path ++ [b]) := chain_append_edge path node b hl hc heb
      have hl' : (path ++ [b]).getLast? = some b := by simp
      split at h
      · rename_i c' v' heq
        simp only [Prod.mk.injEq, Option.some.injEq] at h
        obtain ⟨rfl, rfl⟩ := h
        exact hrec b (b :: visited) (path ++ [b]) _ _ hl' hc' heq
      · rename_i v' heq
        exact dfsSuccs_sound E rec hrec node bs v' path c v hl hc hrest h
    · split at h
      · rename_i hmem
        simp only [Prod.mk.injEq, Option.some.injEq] at h
        obtain ⟨rfl, rfl⟩ := h
        refine ⟨b, head_dropWhile_mem b path hmem, ?_⟩
        have hc' : Chain E (path ++ [b]) := chain_append_edge path node b hl hc heb
        have := chain_dropWhile (E := E) (fun x => decide (x ≠ b)) (path ++ [b]) hc'
        rw [dropWhile_append_mem b path [b] hmem] at this
        exact this
      · exact dfsSuccs_sound E rec hrec node bs visited path c v hl hc hrest h

theorem dfs_sound (E : Edges) : ∀ (fuel node : Nat) (visited path : List Nat) (c : List Nat) (v : List Nat),
    path.getLast? = some node → Chain E path →
    dfs E fuel node visited path = (some c, v) → IsCycle E c
  | 0, _, _, _, _, _, _, _, h => by simp [dfs] at h
  | fuel+1, node, visited, path, c, v, hl, hc, h => by
    simp only [dfs] at h
    exact dfsSuccs_sound E _ (fun b vis p c' v' hl' hc' h' => dfs_sound E fuel b vis p c' v' hl' hc' h')
      node (nexts E node) visited path c v hl hc (fun b hb => hb) h

theorem detectFrom_sound (E : Edges) (fuel : Nat) : ∀ (ns visited : List Nat) (c : List Nat),
    detectFrom E fuel ns visited = some c → IsCycle E c
  | [], _, _, h => by simp [detectFrom] at h
  | n :: ns, visited, c, h => by
    simp only [detectFrom] at h
    split at h
    · exact detectFrom_sound E fuel ns visited c h
    · split at h
      · rename_i c' v heq
        simp only [Option.some.injEq] at h
        subst h
        exact dfs_sound E fuel n (n :: visited) [n] _ _ (by simp) (by simp [Chain]) heq
      · rename_i v heq
        exact detectFrom_sound E fuel ns v c h

/-- every member of a cycle has an outgoing recorded edge to the next member -/
theorem chain_mem_succ {E : Edges} : ∀ (l : List Nat) (x a : Nat), Chain E (l ++ [x]) → a ∈ l → ∃ b, Edge E a b
  | [], _, _, _, h => by cases h
  | [y], x, a, hc, h => by
    simp at h; subst h
    exact ⟨x, by simpa [Chain] using hc⟩
  | y :: z :: rest, x, a, hc, h => by
    rcases List.mem_cons.mp h with rfl | h'
    · exact ⟨z, hc.1⟩
    · exact chain_mem_succ (z :: rest) x a hc.2 h'

theorem isCycle_mem_edge {E : Edges} {c : List Nat} (h : IsCycle E c) {a : Nat} (ha : a ∈ c) : ∃ b, Edge E a b := by
  obtain ⟨b, _, hc⟩ := h
  exact chain_mem_succ c b a hc ha

/-! ### victim selection -/

theorem foldl_min_spec {α : Type} (key : α → Int) : ∀ (xs : List α) (x : α),
    (xs.foldl (fun best y => if key y < key best then y else best) x ∈ x :: xs) ∧
    (∀ y ∈ x :: xs, key (xs.foldl (fun best y => if key y < key best then y else best) x) ≤ key y)
  | [], x => by simp
  | z :: zs, x => by
    simp only [List.foldl_cons]
    by_cases hlt : key z < key x
    · simp only [hlt, if_true]
      have ih := foldl_min_spec key zs z
      constructor
      · rcases List.mem_cons.mp ih.1 with h | h
        · rw [h]; simp
        · simp [h]
      · intro y hy
        have hb := ih.2 z (by simp)
        rcases List.mem_cons.mp hy with rfl | hy'
        · omega
        · exact ih.2 y hy'
    · simp only [hlt, if_false]
      have ih := foldl_min_spec key zs x
      constructor
      · rcases List.mem_cons.mp ih.1 with h | h
        · rw [h]; simp
        · simp [h]
      · intro y hy
        have hb := ih.2 x (by simp)
        rcases List.mem_cons.mp hy with rfl | hy'
        · exact hb
        · rcases List.mem_cons.mp hy' with rfl | hy''
          · omega
          · exact ih.2 y (by simp [hy''])

theorem firstMinBy_spec {α : Type} (key : α → Int) {l : List α} {x : α} (h : firstMinBy key l = some x) :
    x ∈ l ∧ ∀ y ∈ l, key x ≤ key y := by
  cases l with
  | nil => simp [firstMinBy] at h
  | cons a as =>
    simp only [firstMinBy, Option.some.injEq] at h
    subst h
    exact foldl_min_spec key as a

theorem mem_involved {s : Sys} {agents : List Nat} {c : Ctx} (h : c ∈ agents.filterMap s.ctx?) :
    c ∈ s.active ∧ c.id ∈ agents := by
  obtain ⟨o, ho, hc⟩ := List.mem_filterMap.mp h
  obtain ⟨hm, hid⟩ := ctx?_some hc
  exact ⟨hm, hid ▸ ho⟩

/-! ### handling a deadlock -/

theorem clean_abortById {s : Sys} {v : Nat} (h : Clean s v) (o : Nat) : Clean (abortById s o) v := by
  unfold abortById
  cases hc : s.ctx? o with
  | none => exact h
  | some cx =>
    simp only
    have hf := finish_finStep s cx
    refine ⟨fun x hx => h.owns x (hf.owns hx), ?_, ?_, ?_⟩
    · intro c hcm
      rw [hf.active] at hcm
      exact h.active c (List.mem_filter.mp hcm).1
    · intro r l' hl' e he
      have := hf.locks r
      cases hs : s.locks r with
      | none => rw [hs] at this; simp only at this; rw [this] at hl'; cases hl'
      | some l =>
        rw [hs] at this
        obtain ⟨l2, hl2, _, hw, _⟩ := this
        rw [hl2] at hl'; cases hl'
        rw [hw] at he
        exact h.waiting r l hs e (List.mem_filter.mp he).1
    · intro w b r hh
      exact h.edges w b r ((hf.edges w b r).mp hh).2.2

theorem clean_abortMany {v : Nat} : ∀ (ids : List Nat) {s : Sys}, Clean s v → Clean (abortMany s ids) v
  | [], _, h => h
  | o :: ids, s, h => by
    unfold abortMany
    simp only [List.foldl_cons]
    exact clean_abortMany ids (clean_abortById h o)

theorem listed_abortById_ne {s : Sys} {v o : Nat} (hne : o ≠ v) (h : ∃ c ∈ s.active, c.id = v) :
    ∃ c ∈ (abortById s o).active, c.id = v := by
  unfold abortById
  cases hc : s.ctx? o with
  | none => exact h
  | some cx =>
    simp only
    obtain ⟨c, hcm, hid⟩ := h
    have hf := finish_finStep s cx
    rw [(ctx?_some hc).2] at hf
    exact ⟨c, by rw [hf.active]; exact List.mem_filter.mpr ⟨hcm, by simp [hid, Ne.symm hne]⟩, hid⟩

/-- terminating a list of operations that contains the listed operation `v` leaves nothing of `v` -/
theorem abortMany_clean_of_mem {v : Nat} : ∀ (ids : List Nat) {s : Sys}, Kinv s v → (∃ c ∈ s.active, c.id = v) →
    v ∈ ids → Clean (abortMany s ids) v
  | [], _, _, _, h => by cases h
  | o :: ids, s, hk, hl, hm => by
    unfold abortMany
    simp only [List.foldl_cons]
    by_cases ho : o = v
    · subst ho
      apply clean_abortMany ids
      unfold abortById
      obtain ⟨c, hcm, hid⟩ := hl
      cases hc : s.ctx? o with
      | none => exact absurd hid (ctx?_none hc c hcm)
      | some cx =>
        simp only
        obtain ⟨hxm, hxid⟩ := ctx?_some hc
        have := finish_clean (s := s) (c := cx) (by rw [hxid]; exact hk.listed cx hxm hxid)
        rw [hxid] at this
        exact this
    · have hm' : v ∈ ids := by
        rcases List.mem_cons.mp hm with h | h
        · exact absurd h.symm ho
        · exact h
      exact abortMany_clean_of_mem ids (kinv_abortById hk o) (listed_abortById_ne ho hl) hm'

/-! ### what `Watchdog.check` reports as a deadlock victim -/

theorem timeoutEvent_not_deadlock {s : Sys} {c : Ctx} {o : Nat} {r : Reason} (h : timeoutEvent s c = some (o, r)) :
    r ≠ .deadlock := by
  unfold timeoutEvent at h
  split at h
  · cases h
  · split at h
    · cases h; simp
    · split at h
      · cases h; simp
      · split at h
        · cases h; simp
        · cases h

theorem wdCheck_deadlock {s : Sys} {v : Nat} (h : (v, Reason.deadlock) ∈ wdCheck s) :
    ∃ cyc, detectCycle s.edges = some cyc ∧ selectVictim s cyc = some v := by
  have hno : (v, Reason.deadlock) ∉ s.active.filterMap (timeoutEvent s) := by
    intro hm
    obtain ⟨c, _, hc⟩ := List.mem_filterMap.mp hm
    exact timeoutEvent_not_deadlock hc rfl
  unfold wdCheck at h
  simp only at h
  split at h
  · exact absurd h hno
  · rename_i cyc hcyc
    split at h
    · exact absurd h hno
    · rename_i v' hv'
      split at h
      · exact absurd h hno
      · rcases List.mem_append.mp h with h | h
        · exact absurd h hno
        · simp only [List.mem_singleton, Prod.mk.injEq] at h
          exact ⟨cyc, hcyc, by rw [hv', h.1]⟩

/-- the selected victim is a listed member of the cycle and is minimal for the configured rule among the listed
    members (as `active_operations.get` finds them) -/
theorem selectVictim_spec {s : Sys} {cyc : List Nat} {v : Nat} (h : selectVictim s cyc = some v) :
    ∃ cv, s.ctx? v = some cv ∧ cv ∈ s.active ∧ cv.id = v ∧ v ∈ cyc ∧
      (s.strategy = .priority → ∀ o ∈ cyc, ∀ c, s.ctx? o = some c → cv.prio ≤ c.prio) ∧
      (s.strategy = .oldest → ∀ o ∈ cyc, ∀ c, s.ctx? o = some c → cv.created ≤ c.created) := by
  unfold selectVictim at h
  simp only at h
  have hfound : ∀ c ∈ cyc.filterMap s.ctx?, s.ctx? c.id = some c := by
    intro c hc
    obtain ⟨o, _, hoc⟩ := List.mem_filterMap.mp hc
    rw [(ctx?_some hoc).2]; exact hoc
  cases hs : s.strategy with
  | priority =>
    rw [hs] at h
    simp only [Option.map_eq_some_iff] at h
    obtain ⟨cv, hcv, rfl⟩ := h
    obtain ⟨hm, hmin⟩ := firstMinBy_spec _ hcv
    obtain ⟨hma, hmc⟩ := mem_involved hm
    refine ⟨cv, hfound cv hm, hma, rfl, hmc, ?_, by simp⟩
    intro _ o ho c hc
    exact hmin c (List.mem_filterMap.mpr ⟨o, ho, hc⟩)
  | oldest =>
    rw [hs] at h
    simp only [Option.map_eq_some_iff] at h
    obtain ⟨cv, hcv, rfl⟩ := h
    obtain ⟨hm, hmin⟩ := firstMinBy_spec _ hcv
    obtain ⟨hma, hmc⟩ := mem_involved hm
    refine ⟨cv, hfound cv hm, hma, rfl, hmc, by simp, ?_⟩
    intro _ o ho c hc
    have := hmin c (List.mem_filterMap.mpr ⟨o, ho, hc⟩)
    omega
  | other =>
    rw [hs] at h
    simp only [Option.map_eq_some_iff] at h
    obtain ⟨cv, hcv, rfl⟩ := h
    have hm : cv ∈ cyc.filterMap s.ctx? := List.mem_of_mem_head? hcv
    obtain ⟨hma, hmc⟩ := mem_involved hm
    exact ⟨cv, hfound cv hm, hma, rfl, hmc, by simp, by simp⟩

/-! ### the invariant `Kinv` for every operation, along histories -/

theorem kinv_other {s s' : Sys} {op' : Nat} (hown : ∀ x, Owns s' op' x → Owns s op' x)
    (hact : s'.active = s.active ∨ ∃ c2 : Ctx, c2.id ≠ op' ∧ s'.active = (s.setCtx c2).active)
    (hk : Kinv s op') : Kinv s' op' := by
  constructor
  · intro c' hc' hid x hx
    have hm : c' ∈ s.active := by
      rcases hact with h | ⟨c2, hne, h⟩
      · rw [h] at hc'; exact hc'
      · rw [h] at hc'
        rcases mem_setCtx hc' with rfl | ⟨hm, _⟩
        · exact absurd hid hne
        · exact hm
    exact hk.listed c' hm hid x (hown x hx)
  · intro hno x hx
    apply hk.unlisted _ x (hown x hx)
    intro c hc hcid
    rcases hact with h | ⟨c2, _, h⟩
    · exact hno c (h ▸ hc) hcid
    · have : c.id ∈ s'.active.map (·.id) := by
        rw [h, setCtx_ids]; exact List.mem_map.mpr ⟨c, hc, rfl⟩
      obtain ⟨c', hc', hcc⟩ := List.mem_map.mp this
      exact hno c' hc' (hcc.trans hcid)

theorem owns_acquire_blocked {s : Sys} {c : Ctx} {r : Nat} {l : Lock} (hl : s.locks r = some l) (o x : Nat) :
    Owns ({ s.setLock r { l with waiting := addWaiting l.waiting c.id c.prio } with
      edges := addDep s.edges c.id (l.owner.getD 0) r }) o x ↔ Owns s o x := by
  unfold Owns
  by_cases hx : x = r
  · subst hx; simp [Sys.setLock, hl]
  · simp [Sys.setLock, hx]

theorem owns_acquire_ok {s : Sys} {c : Ctx} {r : Nat} {l : Lock} (hl : s.locks r = some l)
    (hres : (l.tryAcquire c.id c.prio).2 ≠ .blocked) (o x : Nat) :
    Owns (acquire s c r).1 o x ↔ (x = r ∧ o = c.id) ∨ (x ≠ r ∧ Owns s o x) := by
  rw [acquire_ok hl hres]
  unfold Owns
  by_cases hx : x = r
  · subst hx
    simp only [Sys.setCtx, Sys.setLock, if_true, Option.some.injEq, exists_eq_left', true_and, ne_eq, not_true,
      false_and, or_false]
    rw [tryAcquire_owner hres]
    constructor
    · intro h; exact (Option.some.inj h).symm
    · intro h; rw [h]
  · simp [Sys.setCtx, Sys.setLock, hx]

theorem kinv_acquire_all {s : Sys} {c : Ctx} (hc : c ∈ s.active) (hk : ∀ op', Kinv s op') (r : Nat) (op' : Nat) :
    Kinv (acquire s c r).1 op' := by
  by_cases ho : op' = c.id
  · subst ho
    exact (inv1_acquire ⟨rfl, hk c.id |>.listed c hc rfl, hk c.id, ⟨c, hc, rfl⟩⟩ r).kinv
  · cases hl : s.locks r with
    | none => rw [acquire_unknown hl]; exact hk op'
    | some l =>
      by_cases hres : (l.tryAcquire c.id c.prio).2 = .blocked
      · rw [acquire_blocked hl hres]
        exact kinv_other (fun x hx => (owns_acquire_blocked hl op' x).mp hx) (Or.inl rfl) (hk op')
      · refine kinv_other (s := s) (fun x hx => ?_) ?_ (hk op')
        · rcases (owns_acquire_ok hl hres op' x).mp hx with ⟨_, h⟩ | ⟨_, h⟩
          · exact absurd h ho
          · exact h
        · right
          rw [acquire_ok hl hres]
          exact ⟨{ c with acquired := addKey c.acquired r }, fun h => ho h.symm, rfl⟩

theorem kinv_release_all {s : Sys} {c : Ctx} (hc : c ∈ s.active) (hk : ∀ op', Kinv s op') (r : Nat) (op' : Nat) :
    Kinv (release s c r).1 op' := by
  have hrel := (release_relStep s c r).1
  by_cases h : r ∈ c.acquired ∧ Owns s c.id r
  · obtain ⟨hr, l, hl, hol⟩ := h
    by_cases ho : op' = c.id
    · subst ho
      have htr := (hk c.id).listed c hc rfl
      by_cases hh : l.hold ≤ 1
      · rw [release_last hr hl hol hh] at hrel ⊢
        have ht : Tracked (({ s.setLock r l.freed with edges := removeAllFor s.edges c.id }).setCtx
            { c with acquired := c.acquired.erase r }) c.id { c with acquired := c.acquired.erase r } := by
          intro x hx
          have hx0 := htr x (hrel.owns hx)
          have hne : x ≠ r := by
            rintro rfl
            obtain ⟨l', hl', ho'⟩ := hx
            simp [Sys.setCtx, Sys.setLock, Lock.freed] at hl'
            subst hl'; simp at ho'
          exact (List.mem_erase_of_ne hne).mpr hx0
        constructor
        · intro c' hc' hid'
          rcases mem_setCtx hc' with rfl | ⟨_, hne⟩
          · exact ht
          · exact absurd hid' hne
        · intro hno
          obtain ⟨c0, hc0, hid0⟩ := listed_setCtx (c2 := { c with acquired := c.acquired.erase r })
            (s := { s.setLock r l.freed with edges := removeAllFor s.edges c.id }) ⟨c, hc, rfl⟩
          exact absurd hid0 (hno c0 hc0)
      · rw [release_more hr hl hol hh] at hrel ⊢
        have ht : Tracked (({ s.setLock r { l with hold := l.hold - 1 } with
            edges := removeAllFor s.edges c.id }).setCtx c) c.id c := fun x hx => htr x (hrel.owns hx)
        constructor
        · intro c' hc' hid'
          rcases mem_setCtx hc' with rfl | ⟨_, hne⟩
          · exact ht
          · exact absurd hid' hne
        · intro hno
          obtain ⟨c0, hc0, hid0⟩ := listed_setCtx (c2 := c)
            (s := { s.setLock r { l with hold := l.hold - 1 } with edges := removeAllFor s.edges c.id }) ⟨c, hc, rfl⟩
          exact absurd hid0 (hno c0 hc0)
    · refine kinv_other (s := s) (fun x hx => hrel.owns hx) ?_ (hk op')
      by_cases hh : l.hold ≤ 1
      · rw [release_last hr hl hol hh]
        exact Or.inr ⟨{ c with acquired := c.acquired.erase r }, fun h => ho h.symm, rfl⟩
      · rw [release_more hr hl hol hh]
        exact Or.inr ⟨c, fun h => ho h.symm, rfl⟩
  · rw [release_not_owned h]; exact hk op'

theorem kinv_start_fresh {s : Sys} {o : Nat} (hf : s.ctx? o = none) (hk : ∀ op', Kinv s op') (p : Int) (op' : Nat) :
    Kinv (s.start o p).1 op' := by
  have hnone := ctx?_none hf
  have hany : s.active.any (fun x => x.id = o) = false := by
    simp only [List.any_eq_false, decide_eq_true_eq]
    exact hnone
  unfold Sys.start
  simp only [hany]
  constructor
  · intro c hc hid x hx
    rcases List.mem_append.mp hc with h | h
    · exact (hk op').listed c h hid x hx
    · simp only [List.mem_singleton] at h
      subst h
      simp only at hid
      subst hid
      exact absurd hx ((hk _).unlisted hnone x)
  · intro hno x hx
    exact (hk op').unlisted (fun c hc => hno c (List.mem_append_left _ hc)) x hx

/-! ### exactness of the recorded graph outside the trigger -/

/-- `w` waits for `r`, which `b` owns: an edge of the reference wait-for graph -/
def Ref (h : HSt) (w b r : Nat) : Prop := (w, r) ∈ h.pend ∧ Owns h.sys b r ∧ b ≠ w

theorem ownerOf_eq {s : Sys} {r y : Nat} : ownerOf s r = some y ↔ Owns s y r := by
  unfold ownerOf Owns
  cases s.locks r with
  | none => simp
  | some l => simp

theorem mem_refEdges {h : HSt} {w b r : Nat} : (w, b, r) ∈ refEdges h ↔ Ref h w b r := by
  unfold refEdges Ref
  simp only [List.mem_filterMap]
  constructor
  · rintro ⟨e, he, hm⟩
    cases ho : ownerOf h.sys e.2 with
    | none => simp [ho] at hm
    | some y =>
      simp only [ho] at hm
      split at hm
      · cases hm
      · rename_i hne
        simp only [Option.some.injEq, Prod.mk.injEq] at hm
        obtain ⟨rfl, rfl, rfl⟩ := hm
        exact ⟨he, ownerOf_eq.mp ho, hne⟩
  · rintro ⟨hp, ho, hne⟩
    refine ⟨(w, r), hp, ?_⟩
    simp [ownerOf_eq.mpr ho, hne]

theorem owns_unique {s : Sys} {a b r : Nat} (ha : Owns s a r) (hb : Owns s b r) : a = b := by
  obtain ⟨l, hl, ho⟩ := ha
  obtain ⟨l', hl', ho'⟩ := hb
  rw [hl] at hl'; cases hl'
  rw [ho] at ho'; exact Option.some.inj ho'

/-- the recorded graph is the reference graph -/
def Exact (h : HSt) : Prop := ∀ w b r, HasEdge h.sys.edges w b r ↔ Ref h w b r

/-- what holds at every point of a trigger-free history -/
structure Good (h : HSt) : Prop where
  kinv : ∀ op, Kinv h.sys op
  exact : Exact h
  keys : (h.sys.edges.map (·.1)).Nodup      -- `edges` is a dict: one entry per waiter

theorem any_false {α : Type} {l : List α} {p : α → Bool} (h : l.any p = false) : ∀ e ∈ l, p e = false := by
  intro e he
  have := List.any_eq_false.mp h e he
  simpa using this

theorem good_step {h : HSt} (hg : Good h) (op : HOp) (ht : trig h op = false) (hf : freshOk h op = true) :
    Good (hstep h op) := by
  cases op with
  | start o p =>
    have hfr : h.sys.ctx? o = none := by simpa [freshOk] using hf
    have he : (h.sys.start o p).1.edges = h.sys.edges := by unfold Sys.start; simp only; split <;> rfl
    refine ⟨fun op' => kinv_start_fresh hfr hg.kinv p op', ?_, by simp only [hstep]; rw [he]; exact hg.keys⟩
    intro w b r
    have hs : ∀ x y, Owns (h.sys.start o p).1 x y ↔ Owns h.sys x y := by
      intro x y; unfold Sys.start; simp only; split <;> exact Iff.rfl
    simp only [hstep, Ref]
    rw [he, hs]
    exact hg.exact w b r
  | finish o =>
    simp only [hstep]
    cases hc : h.sys.ctx? o with
    | none => exact hg
    | some c =>
      simp only
      obtain ⟨hcm, hcid⟩ := ctx?_some hc
      have hfin := finish_finStep h.sys c
      have hfree := finish_frees (s := h.sys) (c := c) (by rw [hcid]; exact (hg.kinv o).listed c hcm hcid)
      rw [hcid] at hfin hfree
      refine ⟨fun op' => ?_, ?_, hfin.keys hg.keys⟩
      · have := kinv_abortById (hg.kinv op') o
        unfold abortById at this
        rw [hc] at this
        exact this
      · intro w b r
        rw [hfin.edges]
        simp only [Ref, List.mem_filter, decide_eq_true_eq]
        constructor
        · rintro ⟨hw, hb, he⟩
          obtain ⟨hp, ho, hne⟩ := (hg.exact w b r).mp he
          exact ⟨⟨hp, hw⟩, hfin.owns_other hb ho, hne⟩
        · rintro ⟨⟨hp, hw⟩, ho, hne⟩
          have hb : b ≠ o := by rintro rfl; exact hfree r ho
          exact ⟨hw, hb, (hg.exact w b r).mpr ⟨hp, hfin.owns ho, hne⟩⟩
  | rel o r =>
    simp only [hstep]
    cases hc : h.sys.ctx? o with
    | none => exact hg
    | some c =>
      simp only
      obtain ⟨hcm, hcid⟩ := ctx?_some hc
      have hrel := (release_relStep h.sys c r).1
      refine ⟨fun op' => kinv_release_all hcm hg.kinv r op', ?_, hrel.keys hg.keys⟩
      by_cases hown : r ∈ c.acquired ∧ Owns h.sys c.id r
      · -- the release succeeds: no trigger means nobody's pending wait is affected
        have hres : (release h.sys c r).2.2 = true := by
          obtain ⟨hr, l, hl, hol⟩ := hown
          by_cases hh : l.hold ≤ 1
          · rw [release_last hr hl hol hh]
          · rw [release_more hr hl hol hh]
        have hedges : ∀ w b x, HasEdge (release h.sys c r).1.edges w b x ↔
            (w ≠ o ∧ b ≠ o ∧ HasEdge h.sys.edges w b x) := by
          obtain ⟨hr, l, hl, hol⟩ := hown
          intro w b x
          by_cases hh : l.hold ≤ 1
          · rw [release_last hr hl hol hh, ← hcid]; exact hasEdge_removeAllFor
          · rw [release_more hr hl hol hh, ← hcid]; exact hasEdge_removeAllFor
        simp only [trig, hc] at ht
        generalize hq : release h.sys c r = q at ht hres hrel hedges
        obtain ⟨s', c', ok⟩ := q
        simp only at hres hrel hedges
        subst hres
        simp only [Bool.or_eq_false_iff] at ht
        have ht1 := any_false ht.1
        have ht2 := any_false ht.2
        intro w b x
        rw [hedges]
        simp only [Ref]
        rw [hcid] at hrel
        constructor
        · rintro ⟨hw, hb, he⟩
          obtain ⟨hp, ho, hne⟩ := (hg.exact w b x).mp he
          exact ⟨hp, hrel.owns_other hb ho, hne⟩
        · rintro ⟨hp, ho, hne⟩
          have hw : w ≠ o := by
            rintro rfl
            have := ht1 (w, x) hp
            simp at this
          have hb : b ≠ o := by
            rintro rfl
            have := ht2 (w, x) hp
            simp [hw, ownerOf_eq.mpr ho] at this
          exact ⟨hw, hb, (hg.exact w b x).mpr ⟨hp, hrel.owns ho, hne⟩⟩
      · rw [release_not_owned hown]
        exact hg.exact
  | acq o r =>
    simp only [hstep]
    cases hc : h.sys.ctx? o with
    | none => exact hg
    | some c =>
      simp only
      obtain ⟨hcm, hcid⟩ := ctx?_some hc
      have hkall := fun op' => kinv_acquire_all hcm hg.kinv r op'
      cases hl : h.sys.locks r with
      | none =>
        rw [acquire_unknown hl] at hkall ⊢
        exact hg
      | some l =>
        by_cases hres : (l.tryAcquire c.id c.prio).2 = .blocked
        · -- BLOCKED: one true edge is added on both sides
          rw [acquire_blocked hl hres] at hkall ⊢
          simp only
          refine ⟨hkall, ?_, keys_addDep_nodup _ _ _ hg.keys⟩
          obtain ⟨_, hne, hnn⟩ := tryAcquire_blocked hres
          have hb : l.owner = some (l.owner.getD 0) := by
            cases ho : l.owner with
            | none => exact absurd ho hnn
            | some y => rfl
          have hown0 : Owns h.sys (l.owner.getD 0) r := ⟨l, hl, hb⟩
          intro w b x
          rw [hasEdge_addDep]
          simp only [Ref]
          rw [owns_acquire_blocked hl, hcid]
          have hpend : (w, x) ∈ (if h.pend.contains (o, r) = true then h.pend else h.pend ++ [(o, r)]) ↔
              (w, x) ∈ h.pend ∨ (w = o ∧ x = r) := by
            split
            · rename_i hcn
              have : (o, r) ∈ h.pend := by simpa using hcn
              constructor
              · exact Or.inl
              · rintro (hh | ⟨rfl, rfl⟩)
                · exact hh
                · exact this
            · simp
          rw [hpend]
          constructor
          · rintro (he | ⟨rfl, rfl, rfl⟩)
            · obtain ⟨hp, ho, hn⟩ := (hg.exact w b x).mp he
              exact ⟨Or.inl hp, ho, hn⟩
            · exact ⟨Or.inr ⟨rfl, rfl⟩, hown0, fun hy => hne (hb.trans (congrArg some (hy.trans hcid.symm)))⟩
          · rintro ⟨hp | ⟨rfl, rfl⟩, ho, hn⟩
            · exact Or.inl ((hg.exact w b x).mpr ⟨hp, ho, hn⟩)
            · exact Or.inr ⟨rfl, owns_unique ho hown0, rfl⟩
        · -- ACQUIRED / REENTRANT / PREEMPTED without a trigger event
          have hres' : ∃ res, (acquire h.sys c r).2.2 = some res ∧ res ≠ .blocked := by
            rw [acquire_ok hl hres]; exact ⟨_, rfl, hres⟩
          have hedges : ∀ w b x, HasEdge (acquire h.sys c r).1.edges w b x ↔
              (w ≠ o ∧ b ≠ o ∧ HasEdge h.sys.edges w b x) := by
            intro w b x
            rw [acquire_ok hl hres, ← hcid]; exact hasEdge_removeAllFor
          have howns := owns_acquire_ok hl hres
          have hkeys : ((acquire h.sys c r).1.edges.map (·.1)).Nodup := by
            rw [acquire_ok hl hres]; exact keys_removeAllFor_nodup c.id hg.keys
          simp only [trig, hc] at ht
          generalize hq : acquire h.sys c r = q at ht hres' hedges howns hkall hkeys
          obtain ⟨s', c', res⟩ := q
          obtain ⟨res0, hr0, hnb⟩ := hres'
          simp only at hr0 hedges howns hkall hkeys
          subst hr0
          have ht' : (h.pend.any (fun e => e.1 = o && e.2 ≠ r) ||
              h.pend.any (fun e => e.1 ≠ o && ownerOf h.sys e.2 = some o) ||
              h.pend.any (fun e => e.1 ≠ o && e.2 = r)) = false := by
            cases res0 with
            | blocked => exact absurd rfl hnb
            | acquired => simpa using ht
            | reentrant => simpa using ht
            | preempted => simpa using ht
          simp only [Bool.or_eq_false_iff] at ht'
          have ht1 := any_false ht'.1.1
          have ht2 := any_false ht'.1.2
          have ht3 := any_false ht'.2
          have hfinal : Good { sys := s', pend := h.pend.filter (fun e => e ≠ (o, r)) } := by
            refine ⟨hkall, ?_, hkeys⟩
            intro w b x
            rw [hedges]
            simp only [Ref, List.mem_filter, decide_eq_true_eq]
            rw [howns, hcid]
            constructor
            · rintro ⟨hw, hb, he⟩
              obtain ⟨hp, ho, hn⟩ := (hg.exact w b x).mp he
              have hxr : x ≠ r := by
                rintro rfl
                have := ht3 (w, x) hp
                simp [hw] at this
              exact ⟨⟨hp, by simp [hw]⟩, Or.inr ⟨hxr, ho⟩, hn⟩
            · rintro ⟨⟨hp, hne⟩, ho, hn⟩
              have hw : w ≠ o := by
                rintro rfl
                have hx : x ≠ r := by rintro rfl; exact hne rfl
                have := ht1 (w, x) hp
                simp [hx] at this
              rcases ho with ⟨rfl, rfl⟩ | ⟨hxr, ho⟩
              · have := ht3 (w, x) hp
                simp [hw] at this
              · have hb : b ≠ o := by
                  rintro rfl
                  have := ht2 (w, x) hp
                  simp [hw, ownerOf_eq.mpr ho] at this
                exact ⟨hw, hb, (hg.exact w b x).mpr ⟨hp, ho, hn⟩⟩
          cases res0 with
          | blocked => exact absurd rfl hnb
          | acquired => exact hfinal
          | reentrant => exact hfinal
          | preempted => exact hfinal

theorem good_run : ∀ (ops : List HOp) {h : HSt}, Good h → TrigFree h ops → Good (hrun h ops)
  | [], _, hg, _ => hg
  | op :: ops, h, hg, ht => by
    unfold hrun
    simp only [List.foldl_cons]
    exact good_run ops (good_step hg op ht.1 ht.2.1) ht.2.2

/-! ### the tracking invariant holds along every history (no trigger condition needed) -/

/-- no id is started while an operation with that id is active -/
def FreshStarts (h : HSt) : List HOp → Prop
  | [] => True
  | op :: ops => freshOk h op = true ∧ FreshStarts (hstep h op) ops

theorem kinv_step {h : HSt} (hk : ∀ op, Kinv h.sys op) (op : HOp) (hf : freshOk h op = true) :
    ∀ op', Kinv (hstep h op).sys op' := by
  intro op'
  cases op with
  | start o p =>
    have hfr : h.sys.ctx? o = none := by simpa [freshOk] using hf
    exact kinv_start_fresh hfr hk p op'
  | finish o =>
    simp only [hstep]
    cases hc : h.sys.ctx? o with
    | none => exact hk op'
    | some c =>
      have := kinv_abortById (hk op') o
      unfold abortById at this
      rw [hc] at this
      exact this
  | rel o r =>
    simp only [hstep]
    cases hc : h.sys.ctx? o with
    | none => exact hk op'
    | some c => exact kinv_release_all (ctx?_some hc).1 hk r op'
  | acq o r =>
    simp only [hstep]
    cases hc : h.sys.ctx? o with
    | none => exact hk op'
    | some c =>
      simp only
      have := kinv_acquire_all (ctx?_some hc).1 hk r op'
      generalize acquire h.sys c r = q at this
      obtain ⟨s', c', res⟩ := q
      cases res with
      | none => exact this
      | some lr => cases lr <;> exact this

theorem kinv_run : ∀ (ops : List HOp) {h : HSt}, (∀ op, Kinv h.sys op) → FreshStarts h ops →
    ∀ op, Kinv (hrun h ops).sys op
  | [], _, hk, _ => hk
  | op :: ops, h, hk, hf => by
    unfold hrun
    simp only [List.foldl_cons]
    exact kinv_run ops (kinv_step hk op hf.1) hf.2

/-! ### recorded edges join listed (live) operations, along every history -/

-- `Listed s o` (∃ c ∈ s.active, c.id = o) and `listed_of_ids` live in Lemmas/C14.lean

/-- both endpoints of every recorded edge are listed operations -/
def EdgesLive (s : Sys) : Prop := ∀ w b r, HasEdge s.edges w b r → Listed s w ∧ Listed s b

theorem listed_start {s : Sys} (o : Nat) (p : Int) {x : Nat} (hl : Listed s x) : Listed (s.start o p).1 x := by
  unfold Sys.start
  simp only
  split
  · exact listed_of_ids (setCtx_ids s _) hl
  · obtain ⟨c, hc, hid⟩ := hl
    exact ⟨c, List.mem_append_left _ hc, hid⟩

/-- whoever owns a lock is listed (the contrapositive of `Kinv.unlisted`) -/
theorem listed_of_owns {s : Sys} {o x : Nat} (hk : Kinv s o) (h : Owns s o x) : Listed s o := by
  apply Classical.byContradiction
  intro hn
  exact hk.unlisted (fun c hc hid => hn ⟨c, hc, hid⟩) x h

theorem edgesLive_step {h : HSt} (hk : ∀ op, Kinv h.sys op) (hl : EdgesLive h.sys) (op : HOp) :
    EdgesLive (hstep h op).sys := by
  cases op with
  | start o p =>
    intro w b r he
    obtain ⟨h1, h2⟩ := hl w b r (by
      have : ((h.sys.start o p).1).edges = h.sys.edges := by unfold Sys.start; simp only; split <;> rfl
      simp only [hstep] at he; rw [this] at he; exact he)
    exact ⟨listed_start o p h1, listed_start o p h2⟩
  | finish o =>
    simp only [hstep]
    cases hc : h.sys.ctx? o with
    | none => exact hl
    | some c =>
      simp only
      have hf := finish_finStep h.sys c
      intro w b r he
      obtain ⟨hw, hb, he0⟩ := (hf.edges w b r).mp he
      obtain ⟨⟨cw, hcw, hidw⟩, ⟨cb, hcb, hidb⟩⟩ := hl w b r he0
      refine ⟨⟨cw, ?_, hidw⟩, ⟨cb, ?_, hidb⟩⟩
      · rw [hf.active]; exact List.mem_filter.mpr ⟨hcw, by simp [hidw, hw]⟩
      · rw [hf.active]; exact List.mem_filter.mpr ⟨hcb, by simp [hidb, hb]⟩
  | rel o r =>
    simp only [hstep]
    cases hc : h.sys.ctx? o with
    | none => exact hl
    | some c =>
      simp only
      have hr := (release_relStep h.sys c r).1
      intro w b x he
      obtain ⟨h1, h2⟩ := hl w b x (hr.edges w b x he)
      exact ⟨listed_of_ids hr.ids h1, listed_of_ids hr.ids h2⟩
  | acq o r =>
    simp only [hstep]
    cases hc : h.sys.ctx? o with
    | none => exact hl
    | some c =>
      obtain ⟨hcm, hcid⟩ := ctx?_some hc
      have key : EdgesLive (acquire h.sys c r).1 := by
        cases hlk : h.sys.locks r with
        | none => rw [acquire_unknown hlk]; exact hl
        | some l =>
          by_cases hres : (l.tryAcquire c.id c.prio).2 = .blocked
          · rw [acquire_blocked hlk hres]
            intro w b x he
            rcases hasEdge_addDep.mp he with he0 | ⟨hw, hb, _⟩
            · exact hl w b x he0
            · refine ⟨⟨c, hcm, hw.symm⟩, ?_⟩
              obtain ⟨_, _, hne⟩ := tryAcquire_blocked hres
              cases ho : l.owner with
              | none => exact absurd ho hne
              | some b' =>
                have hown : Owns h.sys b' r := ⟨l, hlk, ho⟩
                obtain ⟨cb, hcb, hidb⟩ := listed_of_owns (hk b') hown
                exact ⟨cb, hcb, by rw [hb, ho]; simpa using hidb⟩
          · rw [acquire_ok hlk hres]
            intro w b x he
            have he0 : HasEdge (removeAllFor h.sys.edges c.id) w b x := he
            obtain ⟨_, _, he1⟩ := hasEdge_removeAllFor.mp he0
            obtain ⟨h1, h2⟩ := hl w b x he1
            exact ⟨listed_of_ids (setCtx_ids _ _) h1, listed_of_ids (setCtx_ids _ _) h2⟩
      simp only
      generalize acquire h.sys c r = q at key
      obtain ⟨s', c', res⟩ := q
      cases res with
      | none => exact key
      | some lr => cases lr <;> exact key

theorem edgesLive_run : ∀ (ops : List HOp) {h : HSt}, (∀ op, Kinv h.sys op) → EdgesLive h.sys → FreshStarts h ops →
    EdgesLive (hrun h ops).sys
  | [], _, _, hl, _ => hl
  | op :: ops, h, hk, hl, hf => by
    unfold hrun
    simp only [List.foldl_cons]
    exact edgesLive_run ops (kinv_step hk op hf.1) (edgesLive_step hk hl op) hf.2

/-! ### a reported deadlock is handled -/

theorem firstMinBy_isSome {α : Type} (key : α → Int) {l : List α} (h : l ≠ []) : (firstMinBy key l).isSome = true := by
  cases l with
  | nil => exact absurd rfl h
  | cons x xs => rfl

/-- when some member of the reported cycle is listed, a victim is selected — whatever the strategy -/
theorem selectVictim_isSome {s : Sys} {cyc : List Nat} {a : Nat} (ha : a ∈ cyc) (hl : Listed s a) :
    (selectVictim s cyc).isSome = true := by
  obtain ⟨c, hc, hid⟩ := hl
  have hfind : ∃ c', s.ctx? a = some c' := by
    cases hq : s.ctx? a with
    | some c' => exact ⟨c', rfl⟩
    | none => exact absurd hid (ctx?_none hq c hc)
  obtain ⟨c', hc'⟩ := hfind
  have hne : cyc.filterMap s.ctx? ≠ [] := by
    intro hn
    have : c' ∈ cyc.filterMap s.ctx? := List.mem_filterMap.mpr ⟨a, ha, hc'⟩
    rw [hn] at this; cases this
  unfold selectVictim
  simp only
  cases s.strategy with
  | priority => simp only [Option.isSome_map]; exact firstMinBy_isSome _ hne
  | oldest => simp only [Option.isSome_map]; exact firstMinBy_isSome _ hne
  | other =>
    simp only [Option.isSome_map]
    cases hq : cyc.filterMap s.ctx? with
    | nil => exact absurd hq hne
    | cons x xs => rfl

/-- `Watchdog.check` names a member of every reported cycle that has a listed member (with the reason DEADLOCK, or
    with the reason it was already named for in the same pass) -/
theorem wdCheck_names_member {s : Sys} {cyc : List Nat} (hcyc : detectCycle s.edges = some cyc) {a : Nat}
    (ha : a ∈ cyc) (hl : Listed s a) :
    ∃ v, selectVictim s cyc = some v ∧ v ∈ cyc ∧ v ∈ (wdCheck s).map (·.1) := by
  have hsome := selectVictim_isSome ha hl
  cases hv : selectVictim s cyc with
  | none => rw [hv] at hsome; cases hsome
  | some v =>
    obtain ⟨_, _, _, _, hmem, _⟩ := selectVictim_spec hv
    refine ⟨v, rfl, hmem, ?_⟩
    unfold wdCheck
    simp only [hcyc, hv]
    split
    · rename_i hcont
      simpa using hcont
    · simp

/-- `wdExecute` is a sequence of endings: a watchdog pass is a history of `finish` steps -/
theorem hrun_finishes_sys : ∀ (ids : List Nat) (h : HSt), (hrun h (ids.map HOp.finish)).sys = abortMany h.sys ids
  | [], _ => rfl
  | o :: ids, h => by
    unfold hrun abortMany
    simp only [List.map_cons, List.foldl_cons]
    have hstep_sys : (hstep h (.finish o)).sys = abortById h.sys o := by
      simp only [hstep]
      unfold abortById
      cases h.sys.ctx? o <;> rfl
    have := hrun_finishes_sys ids (hstep h (.finish o))
    unfold hrun abortMany at this
    rw [this, hstep_sys]

theorem freshStarts_finishes : ∀ (ids : List Nat) (h : HSt), FreshStarts h (ids.map HOp.finish)
  | [], _ => trivial
  | _ :: ids, _ => ⟨rfl, freshStarts_finishes ids _⟩

/-! ### `execute_operation` keeps the tracking invariant of every other operation -/

theorem kinv_acquire_other {s : Sys} {c : Ctx} {op' : Nat} (ho : op' ≠ c.id) (hk : Kinv s op') (r : Nat) :
    Kinv (acquire s c r).1 op' := by
  cases hl : s.locks r with
  | none => rw [acquire_unknown hl]; exact hk
  | some l =>
    by_cases hres : (l.tryAcquire c.id c.prio).2 = .blocked
    · rw [acquire_blocked hl hres]
      exact kinv_other (fun x hx => (owns_acquire_blocked hl op' x).mp hx) (Or.inl rfl) hk
    · refine kinv_other (s := s) (fun x hx => ?_) ?_ hk
      · rcases (owns_acquire_ok hl hres op' x).mp hx with ⟨_, h⟩ | ⟨_, h⟩
        · exact absurd h ho
        · exact h
      · right
        rw [acquire_ok hl hres]
        exact ⟨{ c with acquired := addKey c.acquired r }, fun h => ho h.symm, rfl⟩

theorem kinv_setCtx_other {s : Sys} {c2 : Ctx} {o : Nat} (hne : c2.id ≠ o) (hk : Kinv s o) : Kinv (s.setCtx c2) o :=
  kinv_other (s := s) (s' := s.setCtx c2) (fun _ h => h) (Or.inr ⟨c2, hne, rfl⟩) hk

theorem kinv_acqLoop_other {o : Nat} : ∀ (req : List Nat) {s : Sys} {c : Ctx}, c.id ≠ o → Kinv s o →
    Kinv (acqLoop req s c).1 o
  | [], _, _, _, h => h
  | r :: rs, s, c, hne, h => by
    have h1 := kinv_acquire_other (c := c) (fun e => hne e.symm) h r
    have hid := acquire_id s c r
    unfold acqLoop
    generalize hq : acquire s c r = q at h1 hid
    obtain ⟨s', c', res⟩ := q
    simp only at h1 hid
    cases res with
    | none => exact h1
    | some lr =>
      cases lr with
      | blocked => exact h1
      | acquired => exact kinv_acqLoop_other rs (by rw [hid]; exact hne) h1
      | reentrant => exact kinv_acqLoop_other rs (by rw [hid]; exact hne) h1
      | preempted => exact kinv_acqLoop_other rs (by rw [hid]; exact hne) h1

theorem kinv_finish_other {s : Sys} {c : Ctx} {o : Nat} (hne : c.id ≠ o) (hk : Kinv s o) : Kinv (finish s c).1 o := by
  have hf := finish_finStep s c
  constructor
  · intro c' hcm hcid x hx
    rw [hf.active] at hcm
    exact hk.listed c' (List.mem_filter.mp hcm).1 hcid x (hf.owns hx)
  · intro hno x hx
    apply hk.unlisted _ x (hf.owns hx)
    intro c0 hcm hcid
    apply hno c0 _ hcid
    rw [hf.active]
    exact List.mem_filter.mpr ⟨hcm, by simp only [decide_eq_true_eq]; rw [hcid]; exact fun e => hne e.symm⟩

theorem kinv_cbAct_any {s : Sys} {c : Ctx} {o : Nat} (hk : Kinv s o) (a : WorkAct) (tick : Nat) :
    Kinv (cbAct s c a tick).1 o := by
  unfold cbAct
  simp only
  exact kinv_applyAct (s := { s with now := s.now + tick }) ⟨hk.listed, hk.unlisted⟩ a

theorem kinv_advanceCb_other {s : Sys} {c : Ctx} {o : Nat} (hne : c.id ≠ o) (hk : Kinv s o) (adv : Adv) (i : Nat) :
    Kinv (advanceCb s c adv i).1 o := by
  have h1 := kinv_cbAct_any (c := c) hk (adv.cpAct i) (adv.cpTick i)
  have hid := cbAct_id s c (adv.cpAct i) (adv.cpTick i)
  unfold advanceCb
  simp only
  generalize cbAct s c (adv.cpAct i) (adv.cpTick i) = p at h1 hid ⊢
  have ha := advance_id' p.1.now p.2 c.phase (adv.cp i)
  split
  · exact kinv_setCtx_other (by rw [ha.1, hid]; exact hne) h1
  · exact h1

theorem kinv_failWith_other {s : Sys} {c : Ctx} {o : Nat} (hne : c.id ≠ o) (hk : Kinv s o) (log : List Ev)
    (aw : Option Sys) : Kinv (failWith s c log aw).sys o := kinv_finish_other hne hk

theorem kinv_execCommit_other {s : Sys} {c : Ctx} {o : Nat} (hne : c.id ≠ o) (hk : Kinv s o) (adv : Adv)
    (log : List Ev) (aw : Option Sys) : Kinv (execCommit s c adv log aw).sys o := by
  unfold execCommit
  simp only
  have h1 : Kinv (s.setCtx { c with valPassed := true }) o := kinv_setCtx_other (c2 := { c with valPassed := true }) hne hk
  have h2 := kinv_advanceCb_other (c := { c with valPassed := true }) hne h1 adv 3
  have hid := (advanceCb_id (s.setCtx { c with valPassed := true }) { c with valPassed := true } adv 3)
  generalize advanceCb (s.setCtx { c with valPassed := true }) { c with valPassed := true } adv 3 = a at h2 hid ⊢
  have hne' : a.2.1.id ≠ o := by rw [hid]; exact hne
  split
  · exact kinv_finish_other hne' h2
  · exact kinv_failWith_other hne' h2 _ _

theorem kinv_execValidate_other {s : Sys} {c : Ctx} {o : Nat} (hne : c.id ≠ o) (hk : Kinv s o) (adv : Adv)
    (log : List Ev) (aw : Option Sys) : Kinv (execValidate s c adv log aw).sys o := by
  unfold execValidate
  simp only
  have h1 := kinv_advanceCb_other hne hk adv 2
  have hid := advanceCb_id s c adv 2
  generalize advanceCb s c adv 2 = a at h1 hid ⊢
  have hne1 : a.2.1.id ≠ o := by rw [hid]; exact hne
  have hp := kinv_cbAct_any (c := a.2.1) h1 adv.valAct adv.valTick
  have hidp := cbAct_id a.1 a.2.1 adv.valAct adv.valTick
  generalize cbAct a.1 a.2.1 adv.valAct adv.valTick = p at hp hidp ⊢
  have hnep : p.2.id ≠ o := by rw [hidp]; exact hne1
  split
  · split
    · exact kinv_execCommit_other hne1 h1 adv _ _
    · exact kinv_execCommit_other hnep hp adv _ _
    · exact kinv_failWith_other hnep hp _ _
    · exact kinv_failWith_other hnep hp _ _
  · exact kinv_failWith_other hne1 h1 _ _

theorem kinv_execWork_other {s : Sys} {c : Ctx} {o : Nat} (hne : c.id ≠ o) (hk : Kinv s o) (adv : Adv)
    (log : List Ev) : Kinv (execWork s c adv log).sys o := by
  unfold execWork
  simp only
  have hp := kinv_cbAct_any (c := c) hk adv.act adv.tick
  have hidp := cbAct_id s c adv.act adv.tick
  generalize cbAct s c adv.act adv.tick = p at hp hidp ⊢
  have hnep : p.2.id ≠ o := by rw [hidp]; exact hne
  split
  · exact kinv_execValidate_other (s := p.1.setCtx { p.2 with execDone := true }) (c := { p.2 with execDone := true })
      hnep (kinv_setCtx_other (c2 := { p.2 with execDone := true }) hnep hp) adv _ _
  · exact kinv_failWith_other hnep hp _ _

theorem kinv_start_other {s : Sys} {op o : Nat} (hne : op ≠ o) (hk : Kinv s o) (p : Int) :
    Kinv (s.start op p).1 o := by
  unfold Sys.start
  simp only
  split
  · exact kinv_setCtx_other (c2 := { id := op, prio := p, phaseAt := s.now, created := s.now }) hne hk
  · constructor
    · intro c' hc' hid x hx
      rcases List.mem_append.mp hc' with h | h
      · exact hk.listed c' h hid x hx
      · simp only [List.mem_singleton] at h
        subst h
        exact absurd hid hne
    · intro hno x hx
      exact hk.unlisted (fun c hc hid => hno c (List.mem_append_left _ hc) hid) x hx

/-- `execute_operation` for `op` keeps the tracking invariant of every other operation -/
theorem kinv_exec_other (s : Sys) (op : Nat) (prio : Int) (req : List Nat) (adv : Adv) {o : Nat} (hne : op ≠ o)
    (hk : Kinv s o) : Kinv (exec s op prio req adv).sys o := by
  unfold exec
  simp only
  have h0 := kinv_start_other hne hk prio
  have hid0 := start_id s op prio
  have hne0 : (s.start op prio).2.id ≠ o := by rw [hid0]; exact hne
  have h1 := kinv_advanceCb_other hne0 h0 adv 0
  have hid1 := (advanceCb_id (s.start op prio).1 (s.start op prio).2 adv 0).trans hid0
  generalize advanceCb (s.start op prio).1 (s.start op prio).2 adv 0 = a0 at h1 hid1 ⊢
  have hne1 : a0.2.1.id ≠ o := by rw [hid1]; exact hne
  have h2 := kinv_acqLoop_other req hne1 h1
  have hid2 := (acqLoop_id req a0.1 a0.2.1).trans hid1
  generalize acqLoop req a0.1 a0.2.1 = q at h2 hid2 ⊢
  have hne2 : q.2.1.id ≠ o := by rw [hid2]; exact hne
  split
  · have h3 : Kinv (q.1.setCtx { q.2.1 with resAcq := true }) o :=
      kinv_setCtx_other (c2 := { q.2.1 with resAcq := true }) hne2 h2
    have h4 := kinv_advanceCb_other (c := { q.2.1 with resAcq := true }) hne2 h3 adv 1
    have hid4 := (advanceCb_id (q.1.setCtx { q.2.1 with resAcq := true }) { q.2.1 with resAcq := true } adv 1).trans hid2
    generalize advanceCb (q.1.setCtx { q.2.1 with resAcq := true }) { q.2.1 with resAcq := true } adv 1 = a1 at h4 hid4 ⊢
    have hne4 : a1.2.1.id ≠ o := by rw [hid4]; exact hne
    split
    · split
      · exact kinv_execWork_other hne4 h4 adv _
      · exact kinv_failWith_other hne4 h4 _ _
    · exact kinv_failWith_other hne4 h4 _ _
  · exact kinv_failWith_other hne2 h2 _ _

/-- … and, when `op` owned nothing before, of every operation: the invariant survives the whole call -/
theorem kinv_exec_all (s : Sys) (op : Nat) (prio : Int) (req : List Nat) (adv : Adv) (hk : ∀ o, Kinv s o)
    (hown : ∀ x, ¬ Owns s op x) (o : Nat) : Kinv (exec s op prio req adv).sys o := by
  by_cases ho : op = o
  · subst ho
    have hc := clean_exec s op prio req adv hown
    exact ⟨fun c hcm hid => absurd hid (hc.active c hcm), fun _ => hc.owns⟩
  · exact kinv_exec_other s op prio req adv ho (hk o)

/-! ### with one entry per waiter, the DFS sees every recorded edge -/

theorem entry_unique : ∀ {E : Edges}, (E.map (·.1)).Nodup → ∀ {e e' : Nat × List (Nat × Nat)},
    e ∈ E → e' ∈ E → e.1 = e'.1 → e = e'
  | [], _, _, _, h, _, _ => by cases h
  | x :: xs, hn, e, e', he, he', hk => by
    simp only [List.map_cons, List.nodup_cons] at hn
    rcases List.mem_cons.mp he with rfl | he1
    · rcases List.mem_cons.mp he' with rfl | he2
      · rfl
      · exact absurd (List.mem_map.mpr ⟨e', he2, hk.symm⟩) hn.1
    · rcases List.mem_cons.mp he' with rfl | he2
      · exact absurd (List.mem_map.mpr ⟨e, he1, hk⟩) hn.1
      · exact entry_unique hn.2 he1 he2 hk

theorem hasEdge_edge {E : Edges} (hn : (E.map (·.1)).Nodup) {a b r : Nat} (h : HasEdge E a b r) : Edge E a b := by
  obtain ⟨e, he, hea, hm⟩ := h
  unfold Edge nexts succs
  cases hf : E.find? (fun e => e.1 = a) with
  | none =>
    have := List.find?_eq_none.mp hf e he
    simp [hea] at this
  | some e' =>
    have hm' := List.mem_of_find?_eq_some hf
    have he' : e'.1 = a := by simpa using List.find?_some hf
    have : e = e' := entry_unique hn he hm' (hea.trans he'.symm)
    subst this
    simp only
    exact List.mem_map.mpr ⟨(b, r), hm, rfl⟩

/-- consecutive elements related by `R` -/
def ChainR (R : Nat → Nat → Prop) : List Nat → Prop
  | [] => True
  | [_] => True
  | a :: b :: rest => R a b ∧ ChainR R (b :: rest)

theorem chain_of_chainR {E : Edges} {R : Nat → Nat → Prop} (h : ∀ a b, R a b → Edge E a b) :
    ∀ (l : List Nat), ChainR R l → Chain E l
  | [], _ => trivial
  | [_], _ => trivial
  | a :: b :: rest, hc => ⟨h a b hc.1, chain_of_chainR h (b :: rest) hc.2⟩

end Operon.Coord
