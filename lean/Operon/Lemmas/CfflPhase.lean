import Operon.Lemmas.C07
/-!
  Overlapping requests: `run` decomposed into its phases (`lookup`, agent calls, `finish` / `agentRaised`), the
  atomic `run` as the special case of consecutive phases, and the cache invariants along arbitrary phase histories.
-/
namespace Operon.Cffl

/-! ### the atomic request is the sequence of its phases -/

theorem consult_eq_phases (cfg : Cfg) (H : Hashes) (s : State) (p : Prompt) (zr yr : Resp) :
    consult cfg H s p zr yr =
      match zr, yr with
      | .exc, _ => agentRaised cfg (callExecutor cfg s)
      | .excU, _ => agentRaisedU cfg (callExecutor cfg s)
      | .excB, _ => agentAborted (callExecutor cfg s)
      | .ret _, .exc => agentRaised cfg (callAssessor cfg (callExecutor cfg s))
      | .ret _, .excU => agentRaisedU cfg (callAssessor cfg (callExecutor cfg s))
      | .ret _, .excB => agentAborted (callAssessor cfg (callExecutor cfg s))
      | .ret z, .ret y => finish cfg H (callAssessor cfg (callExecutor cfg s)) p z y := by
  unfold consult agentRaised agentRaisedU agentAborted finish
  cases zr with
  | exc => rfl
  | excU => rfl
  | excB => rfl
  | ret z =>
    cases yr with
    | exc => rfl
    | excU => rfl
    | excB => rfl
    | ret y => rfl

theorem afterCircuit_eq_phases (cfg : Cfg) (H : Hashes) (s : State) (p : Prompt) (zr yr : Resp) :
    afterCircuit cfg H s p zr yr =
      match lookupCache cfg H s p with
      | (s1, some o) => (s1, o)
      | (s1, none) => consult cfg H s1 p zr yr := by
  unfold afterCircuit lookupCache
  cases hc : cfg.cacheOn
  · simp
  · cases hp : p.enc
    · simp
    · simp only [↓reduceIte]
      generalize checkCache cfg H s p = ck
      obtain ⟨s1, o⟩ := ck
      cases o <;> rfl

/-- `run` = look-up phase, then (if the look-up did not answer) the agent phases -/
theorem run_eq_phases (cfg : Cfg) (H : Hashes) (s : State) (p : Prompt) (zr yr : Resp) :
    run cfg H s p zr yr =
      match lookup cfg H s p with
      | (s1, some o) => (s1, o)
      | (s1, none) => consult cfg H s1 p zr yr := by
  unfold run lookup
  cases hb : cfg.breakerOn
  · simp only [Bool.false_eq_true, ↓reduceIte]
    exact afterCircuit_eq_phases cfg H s p zr yr
  · simp only [↓reduceIte]
    generalize checkCircuit cfg s.now s.br = cc
    obtain ⟨b1, ok⟩ := cc
    cases ok
    · rfl
    · exact afterCircuit_eq_phases cfg H { s with br := b1 } p zr yr

/-- the replies of a phase history, in order -/
def phaseReplies (tr : List PhaseObs) : List Out := tr.filterMap (·.out)

/-- Executing the phases of a request one after the other is `run`: same final state, and exactly one reply — the
    reply of `run`. -/
theorem execPhases_phasesOfRun (cfg : Cfg) (H : Hashes) (s : State) (p : Prompt) (zr yr : Resp) :
    (execPhases cfg H s (phasesOfRun cfg H s p zr yr)).1 = (run cfg H s p zr yr).1 ∧
    phaseReplies (execPhases cfg H s (phasesOfRun cfg H s p zr yr)).2 = [(run cfg H s p zr yr).2] := by
  rw [run_eq_phases]
  unfold phasesOfRun
  generalize hl : lookup cfg H s p = lk
  obtain ⟨s1, o⟩ := lk
  cases o with
  | some out => simp [execPhases, phaseStep, hl, phaseReplies]
  | none =>
    simp only
    rw [consult_eq_phases]
    cases zr with
    | exc => simp [execPhases, phaseStep, hl, phaseReplies]
    | excU => simp [execPhases, phaseStep, hl, phaseReplies]
    | excB => simp [execPhases, phaseStep, hl, phaseReplies]
    | ret z =>
      cases yr with
      | exc => simp [execPhases, phaseStep, hl, phaseReplies]
      | excU => simp [execPhases, phaseStep, hl, phaseReplies]
      | excB => simp [execPhases, phaseStep, hl, phaseReplies]
      | ret y => simp [execPhases, phaseStep, hl, phaseReplies]

theorem execPhases_append (cfg : Cfg) (H : Hashes) (a b : List PhaseOp) : ∀ (s : State),
    execPhases cfg H s (a ++ b) =
      ((execPhases cfg H (execPhases cfg H s a).1 b).1,
       (execPhases cfg H s a).2 ++ (execPhases cfg H (execPhases cfg H s a).1 b).2) := by
  induction a with
  | nil => intro s; simp [execPhases]
  | cons op ops ih =>
    intro s
    simp only [List.cons_append, execPhases]
    rw [ih]

/-- the phases of one operation of a sequential history -/
def phasesOfOp (cfg : Cfg) (H : Hashes) (s : State) : Op → List PhaseOp
  | .run p zr yr => phasesOfRun cfg H s p zr yr
  | .adv d => [.adv d]
  | .resetcb => [.resetcb]
  | .clearcache => [.clearcache]

/-- the phase history of a sequential history -/
def phasesOf (cfg : Cfg) (H : Hashes) : State → List Op → List PhaseOp
  | _, [] => []
  | s, op :: ops => phasesOfOp cfg H s op ++ phasesOf cfg H (step cfg H s op).1 ops

/-- the replies of a sequential history, in order -/
def replies (tr : List Obs) : List Out := (tr.filter fun o => o.out.kind ≠ .admin).map (·.out)

theorem step_phases (cfg : Cfg) (H : Hashes) (s : State) (op : Op) :
    (execPhases cfg H s (phasesOfOp cfg H s op)).1 = (step cfg H s op).1 ∧
    phaseReplies (execPhases cfg H s (phasesOfOp cfg H s op)).2 = replies [⟨op, (step cfg H s op).2⟩] := by
  cases op with
  | run p zr yr =>
    have h := execPhases_phasesOfRun cfg H s p zr yr
    have hk := (run_br cfg H s p zr yr).2.2.2
    simp only [phasesOfOp, step]
    refine ⟨h.1, ?_⟩
    rw [h.2]
    simp [replies, hk]
  | adv d => simp [phasesOfOp, step, execPhases, phaseStep, phaseReplies, replies]
  | resetcb => simp [phasesOfOp, step, execPhases, phaseStep, phaseReplies, replies]
  | clearcache => simp [phasesOfOp, step, execPhases, phaseStep, phaseReplies, replies]

/-- Every sequential history is a phase history: same final state, same replies in the same order. -/
theorem exec_is_execPhases (cfg : Cfg) (H : Hashes) (ops : List Op) : ∀ (s : State),
    (execPhases cfg H s (phasesOf cfg H s ops)).1 = (exec cfg H s ops).1 ∧
    phaseReplies (execPhases cfg H s (phasesOf cfg H s ops)).2 = replies (exec cfg H s ops).2 := by
  induction ops with
  | nil => intro s; simp [phasesOf, execPhases, exec, phaseReplies, replies]
  | cons op ops ih =>
    intro s
    have h1 := step_phases cfg H s op
    have h2 := ih (step cfg H s op).1
    rw [show exec cfg H s (op :: ops) = ((exec cfg H (step cfg H s op).1 ops).1,
        ⟨op, (step cfg H s op).2⟩ :: (exec cfg H (step cfg H s op).1 ops).2) from rfl]
    simp only [phasesOf]
    rw [execPhases_append, h1.1]
    refine ⟨h2.1, ?_⟩
    simp only [phaseReplies, List.filterMap_append] at h1 h2 ⊢
    rw [h1.2, h2.2]
    simp [replies, List.filter_cons]
    split <;> simp

/-! ### what each phase does to the cache and what it replies -/

theorem lookupCache_spec (cfg : Cfg) (H : Hashes) (s : State) (p : Prompt) :
    (∀ e ∈ (lookupCache cfg H s p).1.cache, e ∈ s.cache) ∧
    (∀ o, (lookupCache cfg H s p).2 = some o →
      (o = ⟨.raised, none⟩ ∧ p.enc = false) ∨
      (p.enc = true ∧ cfg.cacheOn = true ∧ ∃ e ∈ s.cache, e.key = H.md5 p.id ∧
        (s.now : Int) - (e.ts : Int) < cfg.ttl ∧ o = ⟨.cacheHit, some { e.res with cached := true }⟩)) := by
  unfold lookupCache
  cases hc : cfg.cacheOn
  · simp
  · cases hp : p.enc
    · simp
    · simp only [↓reduceIte]
      have hcs := checkCache_spec cfg H s p
      generalize checkCache cfg H s p = ck at hcs
      obtain ⟨s1, o⟩ := ck
      cases o with
      | none => exact ⟨hcs.1, by simp⟩
      | some r =>
        refine ⟨hcs.1, ?_⟩
        intro o ho
        right
        obtain ⟨_, e, he, hk, hr, ht, _⟩ := hcs.2 r rfl
        simp only [Option.some.injEq] at ho
        exact ⟨trivial, trivial, e, he, hk, ht, by rw [← ho, hr]⟩

/-- the look-up phase: the cache only shrinks; a reply given here is CIRCUIT_OPEN, nothing (un-encodable prompt),
    or a fresh entry stored under this prompt's key, flagged `cached` -/
theorem lookup_spec (cfg : Cfg) (H : Hashes) (s : State) (p : Prompt) :
    (∀ e ∈ (lookup cfg H s p).1.cache, e ∈ s.cache) ∧
    (∀ o, (lookup cfg H s p).2 = some o →
      o = ⟨.circuitOpen, some circuitOpenResult⟩ ∨
      (o = ⟨.raised, none⟩ ∧ p.enc = false) ∨
      (p.enc = true ∧ cfg.cacheOn = true ∧ ∃ e ∈ s.cache, e.key = H.md5 p.id ∧
        (s.now : Int) - (e.ts : Int) < cfg.ttl ∧ o = ⟨.cacheHit, some { e.res with cached := true }⟩)) := by
  unfold lookup
  cases hb : cfg.breakerOn
  · simp only [Bool.false_eq_true, ↓reduceIte]
    have h := lookupCache_spec cfg H s p
    exact ⟨h.1, fun o ho => Or.inr (h.2 o ho)⟩
  · simp only [↓reduceIte]
    generalize checkCircuit cfg s.now s.br = cc
    obtain ⟨b1, ok⟩ := cc
    cases ok
    · simp
    · have h := lookupCache_spec cfg H { s with br := b1 } p
      exact ⟨h.1, fun o ho => Or.inr (h.2 o ho)⟩

/-- the finish phase: the reply is the gate's result for THIS request's prompt and verdicts, and the only entry
    it adds to the cache is that result under THIS prompt's key -/
theorem finish_spec (cfg : Cfg) (H : Hashes) (s : State) (p : Prompt) (z y : Cls) :
    ((p.enc = true ∧ (finish cfg H s p z y).2 =
        ⟨.gated (classifyRun (gateResult H cfg.gate p z y).success (gateResult H cfg.gate p z y).blocked z y),
         some (gateResult H cfg.gate p z y)⟩) ∨
     (p.enc = false ∧ (finish cfg H s p z y).2 = ⟨.raised, none⟩)) ∧
    (∀ e ∈ (finish cfg H s p z y).1.cache, e ∈ s.cache ∨
      (p.enc = true ∧ e.key = H.md5 p.id ∧ e.res = gateResult H cfg.gate p z y)) := by
  unfold finish
  cases hp : p.enc
  · simp
  · cases hc : cfg.cacheOn
    · simp only [Bool.false_eq_true, ↓reduceIte, true_and]
      exact ⟨by simp, fun e he => Or.inl he⟩
    · simp only [↓reduceIte, true_and]
      refine ⟨by simp, ?_⟩
      intro e he
      rcases mem_cacheStore he with h | h
      · left; exact h
      · right; rw [h]; simp

/-! ### induction over phase histories -/

theorem execPhases_forall (cfg : Cfg) (H : Hashes) (Inv : State → Prop) (P : PhaseObs → Prop)
    (hstep : ∀ s op, Inv s → Inv (phaseStep cfg H s op).1 ∧ P ⟨op, (phaseStep cfg H s op).2⟩) :
    ∀ (ops : List PhaseOp) (s : State), Inv s →
      Inv (execPhases cfg H s ops).1 ∧ ∀ o ∈ (execPhases cfg H s ops).2, P o := by
  intro ops
  induction ops with
  | nil => intro s h; simpa [execPhases] using h
  | cons op ops ih =>
    intro s h
    have h1 := hstep s op h
    have h2 := ih (phaseStep cfg H s op).1 h1.1
    rw [show execPhases cfg H s (op :: ops) = ((execPhases cfg H (phaseStep cfg H s op).1 ops).1,
        ⟨op, (phaseStep cfg H s op).2⟩ :: (execPhases cfg H (phaseStep cfg H s op).1 ops).2) from rfl]
    refine ⟨h2.1, ?_⟩
    intro o ho
    rcases List.mem_cons.mp ho with rfl | ho
    · exact h1.2
    · exact h2.2 o ho

theorem phaseStep_cacheOK (cfg : Cfg) (H : Hashes) (s : State) (op : PhaseOp) (h : CacheOK cfg H s.cache) :
    CacheOK cfg H (phaseStep cfg H s op).1.cache := by
  cases op with
  | lookup p => intro e he; exact h e ((lookup_spec cfg H s p).1 e he)
  | execCall => simpa [phaseStep, callExecutor] using h
  | assessCall => simpa [phaseStep, callAssessor] using h
  | agentRaised => simpa [phaseStep, agentRaised] using h
  | agentRaisedU => simpa [phaseStep, agentRaisedU] using h
  | agentAborted => simpa [phaseStep, agentAborted] using h
  | finish p z y =>
    intro e he
    rcases (finish_spec cfg H s p z y).2 e he with h' | ⟨_, hk, hr⟩
    · exact h e h'
    · exact ⟨p, z, y, hk, hr⟩
  | adv d => simpa [phaseStep] using h
  | resetcb => simpa [phaseStep] using h
  | clearcache => intro e he; simp [phaseStep] at he

/-- every cache entry was stored by the finish phase of a request in `tr`, under that request's own key -/
def CacheFromPhases (H : Hashes) (tr : List PhaseObs) (c : List Entry) : Prop :=
  ∀ e ∈ c, ∃ o' ∈ tr, ∃ (p' : Prompt) (z y : Cls) (ev : BEvent),
    o'.op = .finish p' z y ∧ H.md5 p'.id = e.key ∧ o'.out = some ⟨.gated ev, some e.res⟩ ∧ e.res.cached = false

theorem phaseStep_cacheFrom (cfg : Cfg) (H : Hashes) (s : State) (op : PhaseOp) (pre : List PhaseObs)
    (h : CacheFromPhases H pre s.cache) :
    CacheFromPhases H (pre ++ [⟨op, (phaseStep cfg H s op).2⟩]) (phaseStep cfg H s op).1.cache := by
  have weaken : ∀ c, (∀ e ∈ c, e ∈ s.cache) →
      CacheFromPhases H (pre ++ [⟨op, (phaseStep cfg H s op).2⟩]) c := by
    intro c hc e he
    obtain ⟨o', ho', rest⟩ := h e (hc e he)
    exact ⟨o', List.mem_append_left _ ho', rest⟩
  cases op with
  | lookup p => exact weaken _ (lookup_spec cfg H s p).1
  | execCall => exact weaken _ (by simp [phaseStep, callExecutor])
  | assessCall => exact weaken _ (by simp [phaseStep, callAssessor])
  | agentRaised => exact weaken _ (by simp [phaseStep, agentRaised])
  | agentRaisedU => exact weaken _ (by simp [phaseStep, agentRaisedU])
  | agentAborted => exact weaken _ (by simp [phaseStep, agentAborted])
  | finish p z y =>
    intro e he
    have hf := finish_spec cfg H s p z y
    rcases hf.2 e he with h' | ⟨hp, hk, hr⟩
    · obtain ⟨o', ho', rest⟩ := h e h'
      exact ⟨o', List.mem_append_left _ ho', rest⟩
    · rcases hf.1 with ⟨_, hout⟩ | ⟨hp', _⟩
      · refine ⟨⟨.finish p z y, (phaseStep cfg H s (.finish p z y)).2⟩, by simp, p, z, y,
          classifyRun (gateResult H cfg.gate p z y).success (gateResult H cfg.gate p z y).blocked z y,
          rfl, hk.symm, ?_, ?_⟩
        · simp only [phaseStep]; rw [hout, hr]
        · rw [hr]; rfl
      · rw [hp] at hp'; cases hp'
  | adv d => exact weaken _ (by simp [phaseStep])
  | resetcb => exact weaken _ (by simp [phaseStep])
  | clearcache => intro e he; simp [phaseStep] at he

/-- along every phase history, a reply served from the cache at the look-up of prompt `p` repeats — with only
    the `cached` flag set — the reply that the finish phase of a strictly earlier request with the same cache key
    produced for that request's own prompt and verdicts -/
theorem execPhases_originals (cfg : Cfg) (H : Hashes) (ops : List PhaseOp) : ∀ (s : State) (pre : List PhaseObs),
    CacheFromPhases H pre s.cache →
    ∀ (tr1 tr2 : List PhaseObs) (o : PhaseObs) (r : Result),
      (execPhases cfg H s ops).2 = tr1 ++ o :: tr2 → o.out = some ⟨.cacheHit, some r⟩ →
      ∃ p, o.op = .lookup p ∧ ∃ o' ∈ pre ++ tr1, ∃ (p' : Prompt) (z y : Cls) (ev : BEvent) (r' : Result),
        o'.op = .finish p' z y ∧ H.md5 p'.id = H.md5 p.id ∧ o'.out = some ⟨.gated ev, some r'⟩ ∧
        r'.cached = false ∧ r = { r' with cached := true } := by
  induction ops with
  | nil => intro s pre _ tr1 tr2 o r h; simp [execPhases] at h
  | cons op ops ih =>
    intro s pre hpre tr1 tr2 o r hsplit hout
    rw [show execPhases cfg H s (op :: ops) = ((execPhases cfg H (phaseStep cfg H s op).1 ops).1,
        ⟨op, (phaseStep cfg H s op).2⟩ :: (execPhases cfg H (phaseStep cfg H s op).1 ops).2) from rfl] at hsplit
    simp only at hsplit
    have hs := phaseStep_cacheFrom cfg H s op pre hpre
    cases tr1 with
    | nil =>
      simp only [List.nil_append, List.cons.injEq] at hsplit
      obtain ⟨ho, _⟩ := hsplit
      subst ho
      simp only at hout
      cases op with
      | lookup p =>
        refine ⟨p, rfl, ?_⟩
        rcases (lookup_spec cfg H s p).2 _ hout with h' | ⟨h', _⟩ | ⟨_, _, e, he, hk, _, h'⟩
        · simp at h'
        · simp at h'
        · obtain ⟨o', ho', p', z, y, ev, hop, hmd, hout', hc⟩ := hpre e he
          simp only [Out.mk.injEq, Option.some.injEq, true_and] at h'
          exact ⟨o', by simpa using ho', p', z, y, ev, e.res, hop, by rw [hmd, hk], hout', hc, h'⟩
      | execCall => simp [phaseStep] at hout
      | assessCall => simp [phaseStep] at hout
      | agentRaised => simp [phaseStep, agentRaised] at hout
      | agentRaisedU => simp [phaseStep, agentRaisedU] at hout
      | agentAborted => simp [phaseStep, agentAborted] at hout
      | finish p z y =>
        simp only [phaseStep, Option.some.injEq] at hout
        rcases (finish_spec cfg H s p z y).1 with ⟨_, h'⟩ | ⟨_, h'⟩ <;> rw [h'] at hout <;> simp at hout
      | adv d => simp [phaseStep] at hout
      | resetcb => simp [phaseStep] at hout
      | clearcache => simp [phaseStep] at hout
    | cons a tr1' =>
      simp only [List.cons_append, List.cons.injEq] at hsplit
      obtain ⟨ha, hrest⟩ := hsplit
      obtain ⟨p, hop, o', ho', rest⟩ :=
        ih (phaseStep cfg H s op).1 (pre ++ [⟨op, (phaseStep cfg H s op).2⟩]) hs tr1' tr2 o r hrest hout
      refine ⟨p, hop, o', ?_, rest⟩
      subst ha
      simpa [List.append_assoc] using ho'

/-- what a phase can reply: CIRCUIT_OPEN, nothing (`run` raised: un-encodable prompt, an agent's BaseException),
    an ERROR after an agent exception (renderable or not), the gate's result for the
    finishing request's own prompt and verdicts, or a cache entry (flagged) at a look-up -/
theorem phaseStep_out (cfg : Cfg) (H : Hashes) (s : State) (op : PhaseOp) (o : Out)
    (h : (phaseStep cfg H s op).2 = some o) :
    o = ⟨.circuitOpen, some circuitOpenResult⟩ ∨ o.result = none ∨ o = ⟨.agentExc, some errorResult⟩ ∨
    (∃ p z y, op = .finish p z y ∧ p.enc = true ∧
      o = ⟨.gated (classifyRun (gateResult H cfg.gate p z y).success (gateResult H cfg.gate p z y).blocked z y),
           some (gateResult H cfg.gate p z y)⟩) ∨
    (∃ p, op = .lookup p ∧ ∃ e ∈ s.cache, e.key = H.md5 p.id ∧ o = ⟨.cacheHit, some { e.res with cached := true }⟩) := by
  cases op with
  | lookup p =>
    rcases (lookup_spec cfg H s p).2 o h with h' | ⟨h', _⟩ | ⟨_, _, e, he, hk, _, h'⟩
    · left; exact h'
    · right; left; rw [h']
    · right; right; right; right; exact ⟨p, rfl, e, he, hk, h'⟩
  | execCall => simp [phaseStep] at h
  | assessCall => simp [phaseStep] at h
  | agentRaised => right; right; left; simp [phaseStep, agentRaised] at h; exact h.symm
  | agentRaisedU => right; right; left; simp [phaseStep, agentRaisedU] at h; exact h.symm
  | agentAborted => right; left; simp [phaseStep, agentAborted] at h; rw [← h]
  | finish p z y =>
    simp only [phaseStep, Option.some.injEq] at h
    rcases (finish_spec cfg H s p z y).1 with ⟨hp, h'⟩ | ⟨_, h'⟩
    · right; right; right; left; exact ⟨p, z, y, rfl, hp, by rw [← h, h']⟩
    · right; left; rw [← h, h']
  | adv d => simp [phaseStep] at h
  | resetcb => simp [phaseStep] at h
  | clearcache => simp [phaseStep] at h

/-! ### histories with re-assigned configuration -/

/-- what one step of any history establishes about its own observation, whatever the configuration -/
theorem step_gated (cfg : Cfg) (H : Hashes) (s : State) (op : Op) :
    (∀ ev r, (step cfg H s op).2 = ⟨.gated ev, some r⟩ →
      ∃ p z y, op = .run p (.ret z) (.ret y) ∧ r = gateResult H cfg.gate p z y) ∧
    (∀ r, (step cfg H s op).2.result = some r → r.cached = false → r.blocked = false →
      ∃ ev, (step cfg H s op).2 = ⟨.gated ev, some r⟩) ∧
    (∀ r, (step cfg H s op).2.result = some r → r.cached = true → (step cfg H s op).2.kind = .cacheHit) := by
  have hmem : (⟨op, (step cfg H s op).2⟩ : Obs) ∈ (exec cfg H s [op]).2 := by simp [exec]
  have h1 := exec_gated cfg H [op] s _ hmem
  have h2 := exec_cached_is_hit cfg H [op] s _ hmem
  exact ⟨h1.1, h1.2, h2⟩

theorem execR_obs (H : Hashes) (ops : List ROp) : ∀ (cfg : Cfg) (s : State),
    ∀ o ∈ (execR H cfg s ops).2,
      (∀ ev r, o.out = ⟨.gated ev, some r⟩ →
        ∃ p z y, o.op = .run p (.ret z) (.ret y) ∧ r = gateResult H o.cfg.gate p z y) ∧
      (∀ r, o.out.result = some r → r.cached = false → r.blocked = false → ∃ ev, o.out = ⟨.gated ev, some r⟩) ∧
      (∀ r, o.out.result = some r → r.cached = true → o.out.kind = .cacheHit) := by
  induction ops with
  | nil => intro cfg s o ho; simp [execR] at ho
  | cons a rest ih =>
    intro cfg s o ho
    cases a with
    | assign c => exact ih c s o (by simpa [execR] using ho)
    | op x =>
      simp only [execR] at ho
      rcases List.mem_cons.mp ho with rfl | ho
      · exact step_gated cfg H s x
      · exact ih cfg _ o ho

/-- `o'` is the original of the cached reply `o` in a history with re-assignments: as `Original`, and the gate logic
    in force at the original is the gate logic in force now (an entry decided under another logic is never served) -/
def OriginalR (H : Hashes) (o' o : RObs) : Prop :=
  Original H o'.toObs o.toObs ∧ o'.cfg.gate = o.cfg.gate

/-- every cache entry was stored by a request in `tr`, under the gate logic the entry records -/
def CacheFromR (H : Hashes) (tr : List RObs) (c : List Entry) : Prop :=
  ∀ e ∈ c, ∃ o' ∈ tr, ∃ (p' : Prompt) (zr' yr' : Resp) (ev : BEvent),
    o'.op = .run p' zr' yr' ∧ H.md5 p'.id = e.key ∧ o'.out = ⟨.gated ev, some e.res⟩ ∧ e.res.cached = false ∧
    o'.cfg.gate = e.gate

theorem step_cacheFromR (cfg : Cfg) (H : Hashes) (s : State) (op : Op) (pre : List RObs)
    (h : CacheFromR H pre s.cache) :
    CacheFromR H (pre ++ [⟨cfg, op, (step cfg H s op).2⟩]) (step cfg H s op).1.cache ∧
    ((step cfg H s op).2.kind = .cacheHit → ∃ o' ∈ pre, OriginalR H o' ⟨cfg, op, (step cfg H s op).2⟩) := by
  have weaken : ∀ c, CacheFromR H pre c → CacheFromR H (pre ++ [⟨cfg, op, (step cfg H s op).2⟩]) c := by
    intro c hc e he
    obtain ⟨o', ho', rest⟩ := hc e he
    exact ⟨o', List.mem_append_left _ ho', rest⟩
  cases op with
  | run p zr yr =>
    simp only [step]
    constructor
    · intro e he
      have old : e ∈ s.cache → ∃ o' ∈ pre ++ [(⟨cfg, .run p zr yr, (run cfg H s p zr yr).2⟩ : RObs)],
          ∃ (p' : Prompt) (zr' yr' : Resp) (ev : BEvent),
            o'.op = .run p' zr' yr' ∧ H.md5 p'.id = e.key ∧ o'.out = ⟨.gated ev, some e.res⟩ ∧ e.res.cached = false ∧
            o'.cfg.gate = e.gate := by
        intro h'
        obtain ⟨o', ho', rest⟩ := h e h'
        exact ⟨o', List.mem_append_left _ ho', rest⟩
      rcases run_cache_gate cfg H s p zr yr e he with h' | hg
      · exact old h'
      · rcases run_cache cfg H s p zr yr e he with h' | ⟨z, y, _, _, _, hk, hr, hout⟩
        · exact old h'
        · refine ⟨⟨cfg, .run p zr yr, (run cfg H s p zr yr).2⟩, by simp, p, zr, yr,
            classifyRun (gateResult H cfg.gate p z y).success (gateResult H cfg.gate p z y).blocked z y,
            rfl, hk.symm, ?_, ?_, hg.symm⟩
          · rw [hout, hr]
          · rw [hr]; rfl
    · intro hk
      obtain ⟨e, he, hkey, hg, hout⟩ := run_hit_gate cfg H s p zr yr hk
      obtain ⟨o', ho', p', zr', yr', ev, hop, hmd, hout', hc, hgate⟩ := h e he
      refine ⟨o', ho', ⟨p, p', zr, yr, zr', yr', e.res, ev, rfl, hop, by rw [hmd, hkey], hout', hc, ?_⟩, ?_⟩
      · simp only [RObs.toObs]; rw [hout]
      · rw [hgate, hg]
  | adv d => exact ⟨by simpa [step] using weaken _ h, by simp [step]⟩
  | resetcb => exact ⟨by simpa [step] using weaken _ h, by simp [step]⟩
  | clearcache => exact ⟨by intro e he; simp [step] at he, by simp [step]⟩

/-- along every history with re-assignments, every cache hit has its original strictly earlier, decided under the
    gate logic in force at the hit -/
theorem execR_originals (H : Hashes) (ops : List ROp) : ∀ (cfg : Cfg) (s : State) (pre : List RObs),
    CacheFromR H pre s.cache →
    ∀ (tr1 tr2 : List RObs) (o : RObs), (execR H cfg s ops).2 = tr1 ++ o :: tr2 → o.out.kind = .cacheHit →
      ∃ o' ∈ pre ++ tr1, OriginalR H o' o := by
  induction ops with
  | nil => intro cfg s pre _ tr1 tr2 o h; simp [execR] at h
  | cons a rest ih =>
    intro cfg s pre hpre tr1 tr2 o hsplit hk
    cases a with
    | assign c => exact ih c s pre hpre tr1 tr2 o (by simpa [execR] using hsplit) hk
    | op x =>
      simp only [execR] at hsplit
      have hs := step_cacheFromR cfg H s x pre hpre
      cases tr1 with
      | nil =>
        simp only [List.nil_append, List.cons.injEq] at hsplit
        obtain ⟨ho, _⟩ := hsplit
        subst ho
        obtain ⟨o', ho', horig⟩ := hs.2 hk
        exact ⟨o', by simpa using ho', horig⟩
      | cons b tr1' =>
        simp only [List.cons_append, List.cons.injEq] at hsplit
        obtain ⟨hb, hrest⟩ := hsplit
        obtain ⟨o', ho', horig⟩ := ih cfg (step cfg H s x).1 (pre ++ [(⟨cfg, x, (step cfg H s x).2⟩ : RObs)]) hs.1 tr1' tr2 o hrest hk
        refine ⟨o', ?_, horig⟩
        subst hb
        simpa [List.append_assoc] using ho'

end Operon.Cffl
