import Operon.Model.Loops
/-! The canonical adversaries on which `harness/vf/extract/eval_loops.py` evaluates the real classes, as model
    adversaries, for the `c18_*_agrees_with_evaluated_source` theorems of `Props/C18.lean`. -/
namespace Operon.Loops

/-- confidence arithmetic is irrelevant for the counts -/
def unitOps : ConfOps Unit := ⟨(), fun _ => (), fun _ _ => ()⟩

/-- a generator whose output the validator never accepts -/
def neverHeal : HealAdv Unit Unit Unit :=
  ⟨fun _ _ _ => ((), .ok "bad"), fun _ _ => ((), .ok ⟨false, (), some "boom", ()⟩)⟩

/-- generator calls the model makes against `neverHeal` -/
def healCallsNever (n : Int) : Nat := (heal unitOps ⟨n⟩ neverHeal () "p").calls.length

/-- workers that never emit a marker and never repeat an output (outputs are the step counter) -/
def neverSwarm : SwarmAdv Nat Unit Nat Unit Unit Unit :=
  ⟨fun i _ _ => (i, .ok ()), fun i _ _ => (i + 1, .ok i), fun i _ => (i, .ok ()), fun _ => ()⟩

def neverCode : SwarmCode Nat := ⟨fun _ => false, fun l => l.eraseDups.length, fun _ _ => false⟩

/-- (workers spawned, steps on the first worker) the model makes against `neverSwarm` -/
def swarmCountsNever (mreg ms : Int) : Nat × Nat :=
  let r := supervise neverCode ⟨mreg, ms⟩ neverSwarm () () ⟨0, [], []⟩ 0
  (r.spawns.length, (r.spawns.head?.map fun sp => sp.steps.length).getD 0)

/-- a provider that asks for one tool on every round -/
def foreverTools : ToolAdv Unit Unit Unit Unit :=
  ⟨fun _ _ => ((), .ok ((), [()])), fun _ calls => !calls.isEmpty, fun _ _ => ((), .ok ()), fun _ _ => ((), .ok ())⟩

/-- (tool rounds, plain completions) the model makes against `foreverTools` -/
def toolCountsForever (n : Int) : Nat × Nat :=
  let r := transcribeWithTools ⟨n, true, true, true⟩ foreverTools ()
  (toolRounds r.evs, completions r.evs)

/-- workers that never succeed; the `n`-th summarizer answer is `[n]` (state: steps made, summaries made) -/
def hintingSwarm : SwarmAdv (Nat × Nat) Unit Nat (List Nat) Unit Unit :=
  ⟨fun s _ _ => (s, .ok ()), fun s _ _ => ((s.1 + 1, s.2), .ok s.1), fun s _ => ((s.1, s.2 + 1), .ok [s.2]), fun _ => ()⟩

/-- hints shown to each spawn, and (apoptosis events, regeneration events, workers) added, by the model's
    `supervise` with `max_regenerations = 3`, `max_steps_per_worker = 2` -/
def hintsSeen : List (List Nat) × (Nat × Nat × Nat) :=
  let r := supervise neverCode ⟨3, 2⟩ hintingSwarm () [] ⟨0, [], []⟩ (0, 0)
  (r.spawns.map (·.hints), (r.sw.apop.length, r.sw.regen.length, r.sw.counter))

/-- a provider that asks for one tool on every round; the `n`-th tool execution returns `n` -/
def countingTools : ToolAdv Nat Unit Unit Nat :=
  ⟨fun s _ => (s, .ok ((), [()])), fun _ calls => !calls.isEmpty, fun s _ => (s, .ok ()), fun s _ => (s + 1, .ok s)⟩

/-- what each provider call of the model's tool loop (budget 3) was shown: the tool results its prompt carries -/
def promptsSeen : List (List Nat) :=
  (transcribeWithTools ⟨3, true, true, true⟩ countingTools 0).evs.filterMap fun
    | .tools p _ => some (p.getD [])
    | .complete p _ => some (p.getD [])
    | .exec _ _ => none

/-- the entropy test with an exact threshold: `unique / n < 1 - threshold` -/
def ratCode (thr : Rat) : SwarmCode Nat :=
  ⟨fun _ => false, fun l => l.eraseDups.length, fun u n => decide ((u : Rat) / (n : Rat) < 1 - thr)⟩

/-- a worker that plays back a list of outputs -/
def playback : SwarmAdv (List Nat) Unit Nat Unit Unit Unit :=
  ⟨fun s _ _ => (s, .ok ()), fun s _ _ => (s.tail, .ok (s.headD 0)), fun s _ => (s, .ok ()), fun _ => ()⟩

/-- steps `_run_worker` makes on a worker that plays back `pat`, with `max_steps_per_worker = pat.length` -/
def stepsOn (pat : List Nat) (thr : Rat) : Nat :=
  (runWorker (ratCode thr) playback () () pat.length [] pat).steps.length

/-- distinct texts per attempt: `n + 1` copies of a letter -/
def nthText (c : Char) (n : Nat) : String := String.ofList (List.replicate (n + 1) c)

/-- a generator whose `n`-th output is `nthText 'r' n`, never accepted, the validator's `n`-th trace being
    `nthText 't' n` (state: generator calls, validator calls) -/
def countingHeal : HealAdv (Nat × Nat) Unit Unit :=
  ⟨fun s _ _ => ((s.1 + 1, s.2), .ok (nthText 'r' s.1)),
   fun s _ => ((s.1, s.2 + 1), .ok ⟨false, (), some (nthText 't' s.2), ()⟩)⟩

/-- a validator that accepts from its `k`-th answer on (state: validator calls) -/
def validFrom (k : Nat) : HealAdv Nat Unit Unit :=
  ⟨fun s _ _ => (s, .ok "out"), fun s _ => (s + 1, .ok ⟨decide (s ≥ k), (), none, ()⟩)⟩

/-- (outcome, tagged, generator calls, valid) of the model against `validFrom k` with `max_retries = 3` -/
def healedAt (k : Nat) : Option (Outcome × Bool × Nat × Bool) :=
  let run := heal unitOps ⟨3⟩ (validFrom k) 0 "p"
  run.res.toOption.map fun r => (r.outcome, r.tagged, run.calls.length, r.isValid)

/-- the error context the model shows to call `i` of a never-valid run with budget 4 -/
def ctxShownTo (i : Nat) : Option (Option ErrCtx) :=
  (heal unitOps ⟨4⟩ countingHeal (0, 0) "p").calls[i]?.map (·.ctx)

/-- the retry is shown `min 200 n` characters of an `n`-character output -/
theorem shownPrefix_length (l : List Char) : (shownPrefix (String.ofList l)).length = min 200 l.length := by
  simp [shownPrefix]

end Operon.Loops
