import Operon.Model.LoopsDecay
import Operon.Lemmas.C18
/-! `heal` with the decay read at every attempt (`Model/LoopsDecay.lean`) against the entry-snapshot `healLoop`. -/
namespace Operon.Loops

section Decay
variable {σ κ C : Type}

/-- For ANY callbacks the run differs from the entry-snapshot model only in confidence numbers. -/
theorem healLoopL_skel (ops : ConfOps C) (curOf : σ → Nat → C) (adv : HealAdv σ κ C) (p : String) :
    ∀ rem k ctx (atts atts' : List (Attempt C)) s, atts.map Attempt.skel = atts'.map Attempt.skel →
      (healLoopL ops curOf adv p rem k ctx atts s).skel = (healLoop ops adv p rem k ctx atts' s).skel := by
  intro rem
  induction rem with
  | zero =>
    intro k ctx atts atts' s h
    simp [healLoopL, healLoop, HealRun.skel, h]
  | succ rem ih =>
    intro k ctx atts atts' s h
    unfold healLoopL healLoop
    rcases adv.gen s p ctx with ⟨s1, out⟩
    cases out with
    | raise => rfl
    | ok raw =>
      simp only
      rcases adv.fold s1 raw with ⟨s2, fo⟩
      cases fo with
      | raise => rfl
      | ok f =>
        simp only
        by_cases hv : f.valid = true
        · simp only [hv, if_true, HealRun.skel]
          by_cases hk : k = 0 <;> simp [hk, h, Attempt.skel]
        · simp only [hv, if_false, Bool.false_eq_true]
          have := ih (k + 1) (some (mkCtx f.trace raw)) (atts ++ [⟨k, raw, some (traceOr f.trace), false, ops.zero⟩])
            (atts' ++ [⟨k, raw, some (traceOr f.trace), false, ops.zero⟩]) s2 (by simp [h])
          simp only [HealRun.skel, Prod.mk.injEq] at this ⊢
          obtain ⟨h1, h2, h3⟩ := this
          exact ⟨h1, by rw [h2], h3⟩

/-- With callbacks that leave the decay alone (they keep an invariant under which the decayed confidences are
    `ops.cur`), reading the decay at every attempt is reading it at entry. -/
theorem healLoopL_eq (ops : ConfOps C) (curOf : σ → Nat → C) (adv : HealAdv σ κ C) (p : String) (Inv : σ → Prop)
    (hg : ∀ s q c, Inv s → Inv (adv.gen s q c).1) (hf : ∀ s raw, Inv s → Inv (adv.fold s raw).1)
    (hcur : ∀ s, Inv s → curOf s = ops.cur) :
    ∀ rem k ctx atts s, Inv s →
      healLoopL ops curOf adv p rem k ctx atts s = healLoop ops adv p rem k ctx atts s := by
  intro rem
  induction rem with
  | zero => intro k ctx atts s _; simp [healLoopL, healLoop]
  | succ rem ih =>
    intro k ctx atts s hI
    have h1 := hg s p ctx hI
    unfold healLoopL healLoop
    rw [hcur s hI]
    rcases hgs : adv.gen s p ctx with ⟨s1, out⟩
    rw [hgs] at h1
    cases out with
    | raise => rfl
    | ok raw =>
      simp only
      have h2 := hf s1 raw h1
      rcases hfs : adv.fold s1 raw with ⟨s2, fo⟩
      rw [hfs] at h2
      cases fo with
      | raise => rfl
      | ok f =>
        simp only
        split
        · rfl
        · rw [ih _ _ _ _ h2]

end Decay

end Operon.Loops
