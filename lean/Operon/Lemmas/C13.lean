import Operon.Model.Lysosome
/-! Helper lemmas for C13 (core Lean only). Part 1: the lock discipline.  Part 2: the accounting invariant. -/
namespace Operon.Lysosome

/-! ## Part 1 — lock discipline -/

theorem Disc_append {reent : Bool} : ∀ {p1 : List Ev} {d d1 d2 : Nat} {p2 : List Ev},
    Disc reent d p1 d1 → Disc reent d1 p2 d2 → Disc reent d (p1 ++ p2) d2 := by
  intro p1
  induction p1 with
  | nil => intro d d1 d2 p2 h1 h2; simp [Disc] at h1; subst h1; simpa using h2
  | cons e r ih =>
    intro d d1 d2 p2 h1 h2
    cases e with
    | acq => simp only [Disc, List.cons_append] at h1 ⊢; exact ⟨h1.1, ih h1.2 h2⟩
    | rel => simp only [Disc, List.cons_append] at h1 ⊢; exact ⟨h1.1, ih h1.2 h2⟩

/-- with a reentrant lock a disciplined path stays disciplined when started deeper -/
theorem Disc_shift : ∀ {p : List Ev} {d d' : Nat} (k : Nat), Disc true d p d' → Disc true (d + k) p (d' + k) := by
  intro p
  induction p with
  | nil => intro d d' k h; simp [Disc] at h ⊢; omega
  | cons e r ih =>
    intro d d' k h
    cases e with
    | acq =>
      simp only [Disc] at h ⊢
      refine ⟨by simp, ?_⟩
      have := ih k h.2
      have e : d + 1 + k = d + k + 1 := by omega
      rwa [e] at this
    | rel =>
      simp only [Disc] at h ⊢
      refine ⟨by omega, ?_⟩
      have := ih k h.2
      have e : d - 1 + k = d + k - 1 := by omega
      rwa [e] at this

/-- the body of a method only calls lock-free methods (within `f` levels) and never touches the lock itself -/
def bodyFree (T : Table) (f : Nat) (body : List Instr) : Bool :=
  body.all fun i =>
    match i with
    | .acq => false
    | .rel => false
    | .cb => true
    | .call k => freeF T f k

theorem freeF_succ (T : Table) (f j : Nat) : freeF T (f + 1) j = bodyFree T f (T.body j) := rfl

theorem freeF_pos {T : Table} {f j : Nat} (h : freeF T f j = true) :
    ∃ f', f = f' + 1 ∧ bodyFree T f' (T.body j) = true := by
  cases f with
  | zero => simp [freeF] at h
  | succ f' => exact ⟨f', rfl, h⟩

/-- every path through a lock-free body performs no lock event -/
theorem path_of_bodyFree {T : Table} {cbs : List Nat} {F : Nat} (hcbs : ∀ k ∈ cbs, freeF T F k = true)
    {body : List Instr} {p : List Ev} (hp : Path T cbs body p) :
    ∀ f, bodyFree T f body = true → p = [] := by
  induction hp with
  | nil => intro _ _; rfl
  | acq _ _ => intro f h; simp [bodyFree] at h
  | rel _ _ => intro f h; simp [bodyFree] at h
  | @callTake j r p1 p2 _ _ ih1 ih2 =>
    intro f h
    simp only [bodyFree, List.all_cons, Bool.and_eq_true] at h
    obtain ⟨f', _, hb⟩ := freeF_pos h.1
    have e1 := ih1 f' hb
    have e2 := ih2 f (by simpa [bodyFree] using h.2)
    simp [e1, e2]
  | callSkip _ ih =>
    intro f h
    simp only [bodyFree, List.all_cons, Bool.and_eq_true] at h
    exact ih f (by simpa [bodyFree] using h.2)
  | @cbTake j r p1 p2 hj _ _ ih1 ih2 =>
    intro f h
    obtain ⟨f', _, hb⟩ := freeF_pos (hcbs j hj)
    have e1 := ih1 f' hb
    have e2 := ih2 f h
    simp [e1, e2]
  | cbDone _ ih =>
    intro f h
    simp only [bodyFree, List.all_cons, Bool.and_eq_true] at h
    exact ih f (by simpa [bodyFree] using h.2)

theorem free_sound {T : Table} {cbs : List Nat} {F : Nat} (hcbs : ∀ k ∈ cbs, freeF T F k = true)
    {f j : Nat} (h : freeF T f j = true) {p : List Ev} (hp : Path T cbs (T.body j) p) : p = [] := by
  obtain ⟨f', _, hb⟩ := freeF_pos h
  exact path_of_bodyFree hcbs hp f' hb

/-- soundness of the abstract run -/
theorem chk_sound {reent : Bool} {T : Table} {cbs : List Nat} {F : Nat} (hcbs : ∀ k ∈ cbs, freeF T F k = true)
    {free ok : Nat → Bool}
    (hfree : ∀ k, free k = true → ∀ p, Path T cbs (T.body k) p → p = [])
    (hok : ∀ k, ok k = true → ∀ p, Path T cbs (T.body k) p → Disc reent 0 p 0)
    {body : List Instr} {p : List Ev} (hp : Path T cbs body p) :
    ∀ d d', chkBody reent free ok d body = some d' → Disc reent d p d' := by
  induction hp with
  | nil => intro d d' h; simp [chkBody] at h; simpa [Disc] using h
  | acq _ ih =>
    intro d d' h
    simp only [chkBody] at h
    split at h
    · rename_i hc; exact ⟨hc, ih _ _ h⟩
    · cases h
  | rel _ ih =>
    intro d d' h
    simp only [chkBody] at h
    split at h
    · rename_i hc; exact ⟨hc, ih _ _ h⟩
    · cases h
  | @callTake j r p1 p2 h1 _ _ ih2 =>
    intro d d' h
    simp only [chkBody] at h
    split at h
    · rename_i hc
      rcases hc with hf | ⟨hd, hk⟩
      · have e1 := hfree j hf p1 h1
        subst e1
        simpa using ih2 d d' h
      · have d1 : Disc reent d p1 d := by
          have base := hok j hk p1 h1
          rcases hd with hd | hr
          · subst hd; exact base
          · subst hr
            have := Disc_shift d base
            simpa using this
        exact Disc_append d1 (ih2 d d' h)
    · cases h
  | callSkip _ ih =>
    intro d d' h
    simp only [chkBody] at h
    split at h
    · exact ih d d' h
    · cases h
  | @cbTake j r p1 p2 hj h1 _ _ ih2 =>
    intro d d' h
    have e1 : p1 = [] := free_sound hcbs (hcbs j hj) h1
    subst e1
    simpa using ih2 d d' h
  | cbDone _ ih =>
    intro d d' h
    simp only [chkBody] at h
    exact ih d d' h

theorem okF_sound {reent : Bool} {T : Table} {cbs : List Nat} {F : Nat} (hcbs : ∀ k ∈ cbs, freeF T F k = true) :
    ∀ f j, okF reent T f j = true → ∀ p, Path T cbs (T.body j) p → Disc reent 0 p 0 := by
  intro f
  induction f with
  | zero => intro j h; simp [okF] at h
  | succ f ih =>
    intro j h p hp
    simp only [okF, beq_iff_eq] at h
    exact chk_sound hcbs (fun k hk p hp => free_sound hcbs hk hp) ih hp 0 0 h

/-- What the decidable check of the extracted shapes buys: the lock kind is known and every finite path through
    every method of the table is disciplined for that kind. -/
theorem shapesOk_sound {kind : LockKind} {T : Table} {cbs : List Nat} (h : shapesOk kind T cbs = true) :
    ∃ reent, reentOf kind = some reent ∧
      ∀ j, j < T.length → ∀ p, Path T cbs (T.body j) p → Disc reent 0 p 0 := by
  unfold shapesOk at h
  split at h
  · cases h
  · rename_i reent hk
    refine ⟨reent, hk, ?_⟩
    simp only [Bool.and_eq_true, List.all_eq_true, List.mem_range] at h
    intro j hj p hp
    exact okF_sound (F := T.length) h.1 _ j (h.2 j hj) p hp

/-! ### the path finder is sound -/

theorem matchBody_sound {T : Table} {cbs : List Nat} {callee : Nat → List Ev → List (List Ev)}
    (hc : ∀ j evs rest, rest ∈ callee j evs → ∃ p, Path T cbs (T.body j) p ∧ evs = p ++ rest) :
    ∀ (body : List Instr) (evs rest : List Ev), rest ∈ matchBody callee body evs →
      ∃ p, Path T cbs body p ∧ evs = p ++ rest := by
  intro body
  induction body with
  | nil =>
    intro evs rest h
    simp only [matchBody, List.mem_singleton] at h
    exact ⟨[], Path.nil, by simp [h]⟩
  | cons i r ih =>
    intro evs rest h
    cases i with
    | acq =>
      cases evs with
      | nil => simp [matchBody] at h
      | cons e es =>
        cases e with
        | acq =>
          simp only [matchBody] at h
          obtain ⟨p, hp, he⟩ := ih es rest h
          exact ⟨.acq :: p, Path.acq hp, by simp [he]⟩
        | rel => simp [matchBody] at h
    | rel =>
      cases evs with
      | nil => simp [matchBody] at h
      | cons e es =>
        cases e with
        | rel =>
          simp only [matchBody] at h
          obtain ⟨p, hp, he⟩ := ih es rest h
          exact ⟨.rel :: p, Path.rel hp, by simp [he]⟩
        | acq => simp [matchBody] at h
    | cb =>
      simp only [matchBody] at h
      obtain ⟨p, hp, he⟩ := ih evs rest h
      exact ⟨p, Path.cbDone hp, he⟩
    | call j =>
      simp only [matchBody, List.mem_append, List.mem_flatMap] at h
      rcases h with h | ⟨mid, hmid, h⟩
      · obtain ⟨p, hp, he⟩ := ih evs rest h
        exact ⟨p, Path.callSkip hp, he⟩
      · obtain ⟨p1, hp1, he1⟩ := hc j evs mid hmid
        obtain ⟨p2, hp2, he2⟩ := ih mid rest h
        exact ⟨p1 ++ p2, Path.callTake hp1 hp2, by rw [he1, he2, List.append_assoc]⟩

theorem matchF_sound {T : Table} {cbs : List Nat} : ∀ (f j : Nat) (evs rest : List Ev),
    rest ∈ matchF T f j evs → ∃ p, Path T cbs (T.body j) p ∧ evs = p ++ rest := by
  intro f
  induction f with
  | zero => intro j evs rest h; simp [matchF] at h
  | succ f ih => intro j evs rest h; exact matchBody_sound ih _ _ _ h

theorem hasPath_sound {T : Table} {cbs : List Nat} {name : String} {evs : List Ev} (h : hasPath T name evs = true) :
    Path T cbs (T.body (T.idx name)) evs := by
  unfold hasPath at h
  have hm : [] ∈ matchF T (T.length + 1) (T.idx name) evs := by simpa using h
  obtain ⟨p, hp, he⟩ := matchF_sound (cbs := cbs) _ _ _ _ hm
  simp at he
  rw [he]; exact hp

/-! ### threads -/

def holders (c : List Thr) : Nat := (c.filter fun t => decide (0 < t.depth)).length

/-- every thread's remaining program is disciplined from its current depth and ends without the lock; at most one
    thread holds the lock -/
def Inv (reent : Bool) (c : List Thr) : Prop :=
  (∀ t ∈ c, Disc reent t.depth t.prog 0) ∧ holders c ≤ 1

theorem holders_mid (pre post : List Thr) (t : Thr) :
    holders (pre ++ t :: post) = holders pre + (if 0 < t.depth then 1 else 0) + holders post := by
  unfold holders
  by_cases h : 0 < t.depth <;> simp [h] <;> omega

theorem measure_mid (pre post : List Thr) (t : Thr) :
    measure (pre ++ t :: post) = measure pre + t.prog.length + measure post := by
  unfold measure
  simp [List.sum_append]
  omega

theorem holders_zero_of_all {c : List Thr} (h : ∀ u ∈ c, u.depth = 0) : holders c = 0 := by
  unfold holders
  simp only [List.length_eq_zero_iff, List.filter_eq_nil_iff]
  intro u hu
  simp [h u hu]

theorem all_zero_of_holders {c : List Thr} (h : holders c = 0) : ∀ u ∈ c, u.depth = 0 := by
  unfold holders at h
  simp only [List.length_eq_zero_iff, List.filter_eq_nil_iff] at h
  intro u hu
  have := h u hu
  simpa using this

theorem step_inv {reent : Bool} {c c' : List Thr} (hi : Inv reent c) (hs : Step reent c c') : Inv reent c' := by
  obtain ⟨hd, hh⟩ := hi
  cases hs with
  | @acqFree pre post r hall =>
    constructor
    · intro t ht
      simp only [List.mem_append, List.mem_cons] at ht
      rcases ht with ht | rfl | ht
      · exact hd t (by simp [ht])
      · have := hd ⟨0, .acq :: r⟩ (by simp)
        simp only [Disc] at this
        exact this.2
      · exact hd t (by simp [ht])
    · have h0 := holders_zero_of_all hall
      rw [holders_mid] at h0 ⊢
      simp at h0 ⊢
      omega
  | @acqAgain pre post d r hpos hre =>
    constructor
    · intro t ht
      simp only [List.mem_append, List.mem_cons] at ht
      rcases ht with ht | rfl | ht
      · exact hd t (by simp [ht])
      · have := hd ⟨d, .acq :: r⟩ (by simp)
        simp only [Disc] at this
        exact this.2
      · exact hd t (by simp [ht])
    · rw [holders_mid] at hh ⊢
      simp [hpos] at hh ⊢
      omega
  | @rel pre post d r hpos =>
    constructor
    · intro t ht
      simp only [List.mem_append, List.mem_cons] at ht
      rcases ht with ht | rfl | ht
      · exact hd t (by simp [ht])
      · have := hd ⟨d, .rel :: r⟩ (by simp)
        simp only [Disc] at this
        exact this.2
      · exact hd t (by simp [ht])
    · rw [holders_mid] at hh ⊢
      simp [hpos] at hh ⊢
      split <;> omega

theorem step_measure {reent : Bool} {c c' : List Thr} (hs : Step reent c c') : measure c = measure c' + 1 := by
  cases hs <;> simp [measure_mid] <;> omega

/-- Progress: in a disciplined configuration that is not finished some thread can take a step. -/
theorem progress {reent : Bool} {c : List Thr} (hi : Inv reent c) (hnf : ¬ Final c) : ∃ c', Step reent c c' := by
  obtain ⟨hd, hh⟩ := hi
  by_cases h0 : holders c = 0
  · -- nobody holds the lock: any unfinished thread moves
    have hz := all_zero_of_holders h0
    obtain ⟨t, ht⟩ := Classical.not_forall.mp hnf
    obtain ⟨htm, htp⟩ := Classical.not_imp.mp ht
    obtain ⟨pre, post, rfl⟩ := List.append_of_mem htm
    obtain ⟨d, prog⟩ := t
    have hd0 : d = 0 := hz ⟨d, prog⟩ htm
    subst hd0
    cases prog with
    | nil => exact absurd rfl htp
    | cons e r =>
      cases e with
      | acq => exact ⟨_, Step.acqFree hz⟩
      | rel =>
        have := hd ⟨0, .rel :: r⟩ htm
        simp [Disc] at this
  · -- the holder moves
    have : ∃ t ∈ c, 0 < t.depth := by
      unfold holders at h0
      have hne : (c.filter fun t => decide (0 < t.depth)) ≠ [] := by
        intro e; rw [e] at h0; exact h0 rfl
      obtain ⟨t, ht⟩ := List.exists_mem_of_ne_nil _ hne
      simp only [List.mem_filter, decide_eq_true_eq] at ht
      exact ⟨t, ht.1, ht.2⟩
    obtain ⟨t, htm, hpos⟩ := this
    obtain ⟨pre, post, rfl⟩ := List.append_of_mem htm
    obtain ⟨d, prog⟩ := t
    have hdisc := hd ⟨d, prog⟩ htm
    cases prog with
    | nil => simp [Disc] at hdisc; simp at hpos; omega
    | cons e r =>
      cases e with
      | acq =>
        simp only [Disc] at hdisc
        rcases hdisc.1 with h | h
        · simp at hpos; omega
        · exact ⟨_, Step.acqAgain hpos h⟩
      | rel => exact ⟨_, Step.rel hpos⟩

theorem stepsN_inv {reent : Bool} {n : Nat} {c c' : List Thr} (hi : Inv reent c) (hs : StepsN reent n c c') :
    Inv reent c' ∧ measure c = measure c' + n := by
  induction hs with
  | refl => exact ⟨hi, rfl⟩
  | tail _ hstep ih =>
    obtain ⟨hi', hm⟩ := ih hi
    refine ⟨step_inv hi' hstep, ?_⟩
    have := step_measure hstep
    omega

/-- A thread that re-acquires a non-reentrant lock it holds never moves again, whatever the others do. -/
theorem stuck_forever {n : Nat} {c c' : List Thr} {d : Nat} {r : List Ev} (hpos : 0 < d)
    (hmem : (⟨d, .acq :: r⟩ : Thr) ∈ c) (hh : holders c ≤ 1)
    (hs : StepsN false n c c') : (⟨d, .acq :: r⟩ : Thr) ∈ c' ∧ holders c' ≤ 1 := by
  induction hs with
  | refl => exact ⟨hmem, hh⟩
  | @tail n a b c _ hstep ih =>
    obtain ⟨hm, hb⟩ := ih hmem hh
    cases hstep with
    | @acqFree pre post r' hall =>
      have := hall _ hm
      simp at this; omega
    | @acqAgain pre post d' r' _ hre => cases hre
    | @rel pre post d' r' hpos' =>
      -- the releasing thread holds the lock, so it is not our thread's twin: ours is elsewhere in the list
      have hm' : (⟨d, .acq :: r⟩ : Thr) ∈ pre ∨ (⟨d, .acq :: r⟩ : Thr) ∈ post := by
        simp only [List.mem_append, List.mem_cons] at hm
        rcases hm with h | h | h
        · exact Or.inl h
        · cases h
        · exact Or.inr h
      rw [holders_mid] at hb
      simp [hpos'] at hb
      -- but then two threads hold the lock
      exfalso
      rcases hm' with h | h
      · obtain ⟨p1, p2, rfl⟩ := List.append_of_mem h
        rw [holders_mid] at hb; simp [hpos] at hb; omega
      · obtain ⟨p1, p2, rfl⟩ := List.append_of_mem h
        rw [holders_mid] at hb; simp [hpos] at hb; omega

/-- A thread's program: any sequence of calls of methods of the table, each along any finite path. -/
def CallsProg (T : Table) (cbs : List Nat) (prog : List Ev) : Prop :=
  ∃ calls : List (Nat × List Ev),
    (∀ c ∈ calls, c.1 < T.length ∧ Path T cbs (T.body c.1) c.2) ∧ prog = (calls.map (·.2)).flatten

theorem callsProg_disc {reent : Bool} {T : Table} {cbs : List Nat}
    (hsound : ∀ j, j < T.length → ∀ p, Path T cbs (T.body j) p → Disc reent 0 p 0)
    {prog : List Ev} (h : CallsProg T cbs prog) : Disc reent 0 prog 0 := by
  obtain ⟨calls, hc, rfl⟩ := h
  induction calls with
  | nil => simp [Disc]
  | cons c cs ih =>
    simp only [List.map_cons, List.flatten_cons]
    exact Disc_append (hsound c.1 (hc c (by simp)).1 c.2 (hc c (by simp)).2)
      (ih (fun c' hc' => hc c' (by simp [hc'])))

/-- Threads that only call methods of a table whose shapes pass the check never deadlock and finish after exactly
    as many lock steps as their programs contain: every reachable configuration is finished or can step, and the
    number of steps taken plus the work left is the initial amount of work. -/
theorem threads_return {kind : LockKind} {T : Table} {cbs : List Nat} (hok : shapesOk kind T cbs = true)
    {reent : Bool} (hk : reentOf kind = some reent) (threads : List Thr)
    (h : ∀ t ∈ threads, t.depth = 0 ∧ CallsProg T cbs t.prog) {n : Nat} {c : List Thr}
    (hs : StepsN reent n threads c) :
    (Final c ∨ ∃ c', Step reent c c') ∧ measure threads = measure c + n := by
  obtain ⟨r, hr, hsound⟩ := shapesOk_sound hok
  rw [hk] at hr
  cases hr
  have hinv : Inv reent threads := by
    constructor
    · intro t ht
      rw [(h t ht).1]
      exact callsProg_disc hsound (h t ht).2
    · rw [holders_zero_of_all (fun u hu => (h u hu).1)]; omega
  obtain ⟨hi, hm⟩ := stepsN_inv hinv hs
  refine ⟨?_, hm⟩
  by_cases hf : Final c
  · exact Or.inl hf
  · exact Or.inr (progress hi hf)

/-! ## Part 2 — the accounting invariant -/

theorem count_take_drop (l : List Item) (n : Nat) (a : Item) :
    (l.take n).count a + (l.drop n).count a = l.count a := by
  rw [← List.count_append, List.take_append_drop]

theorem count_filter_ite (p : Item → Bool) (l : List Item) (a : Item) :
    (l.filter p).count a = if p a = true then l.count a else 0 := by
  induction l with
  | nil => simp
  | cons x xs ih =>
    by_cases hx : x = a
    · subst hx
      by_cases hp : p x = true <;> simp [hp, ih]
    · by_cases hp : p x = true <;> simp [hp, hx, ih]

theorem count_filter_split (p : Item → Bool) (l : List Item) (a : Item) :
    (l.filter p).count a + (l.filter fun x => !p x).count a = l.count a := by
  rw [count_filter_ite, count_filter_ite]
  by_cases hp : p a = true <;> simp [hp]

theorem length_filter_split (p : Item → Bool) (l : List Item) :
    (l.filter p).length + (l.filter fun x => !p x).length = l.length := by
  induction l with
  | nil => simp
  | cons x xs ih => by_cases hp : p x = true <;> simp [hp] <;> omega

/-- how many of the five fates (plus, in the concurrent semantics, the pending lists of running digest calls)
    currently list the item -/
def occ (s : State) (it : Item) : Nat :=
  s.queue.count it + s.gDigested.count it + s.gErrored.count it + s.gEmDropped.count it + s.gExpired.count it +
    (s.gPending.map (·.2)).count it

/-- The accounting invariant. -/
structure Acct (s : State) : Prop where
  occ_eq : ∀ it, occ s it = s.items.count it
  seqs : s.items.map (·.seq) = List.range s.items.length
  dig : s.digested = s.gDigested.length
  err : s.reported + s.autoLogged = s.gErrored.length
  em : s.emLogged = s.gEmDropped.length
  exp : s.expiredRet = s.gExpired.length

theorem init_acct : Acct init := by
  constructor <;> simp [init, occ]

theorem digestCore_acct (cfg : Cfg) (s : State) (n : Nat) (via : Bool) (h : Acct s) :
    Acct (digestCore cfg s n via).1 := by
  have h1 := count_take_drop s.queue n
  have h2 := count_filter_split (succeeds cfg) (s.queue.take n)
  have h3 := length_filter_split (succeeds cfg) (s.queue.take n)
  constructor
  · intro it
    have := h.occ_eq it
    have := h1 it
    have := h2 it
    simp only [digestCore, occ, List.count_append] at *
    omega
  · simpa [digestCore] using h.seqs
  · have := h.dig
    simp only [digestCore, List.length_append]
    omega
  · have := h.err
    cases via <;> simp only [digestCore, List.length_append] <;> simp <;> omega
  · simpa [digestCore] using h.em
  · simpa [digestCore] using h.exp

theorem emergency_acct (cfg : Cfg) (s : State) (h : Acct s) : Acct (emergency cfg s) := by
  unfold emergency
  simp only
  split
  · exact h
  · have h1 := count_take_drop s.queue (s.queue.length / 2)
    have h2 := count_filter_split (succeedsEm cfg) (s.queue.take (s.queue.length / 2))
    constructor
    · intro it
      have := h.occ_eq it
      have := h1 it
      have := h2 it
      simp only [occ, List.count_append] at *
      omega
    · simpa using h.seqs
    · have := h.dig
      simp only [List.length_append]
      omega
    · simpa using h.err
    · have := h.em
      simp only [List.length_append]
      omega
    · simpa using h.exp

theorem emergency_items (cfg : Cfg) (s : State) : (emergency cfg s).items = s.items := by
  unfold emergency; simp only; split <;> rfl

theorem emergency_clock (cfg : Cfg) (s : State) : (emergency cfg s).clock = s.clock := by
  unfold emergency; simp only; split <;> rfl

theorem enqueue_acct (cfg : Cfg) (s : State) (id : Nat) (ty : WType) (c : Nat) (st : Stamp) (h : Acct s) :
    Acct (enqueue cfg s id ty c st) := by
  unfold enqueue
  have hs1 : Acct (if s.queue.length ≥ cfg.maxQ then emergency cfg s else s) := by
    split
    · exact emergency_acct cfg s h
    · exact h
  generalize (if s.queue.length ≥ cfg.maxQ then emergency cfg s else s) = s1 at hs1
  constructor
  · intro it
    have := hs1.occ_eq it
    simp only [occ, List.count_append] at *
    omega
  · simp only [List.map_append, List.map_cons, List.map_nil, List.length_append, List.length_cons,
      List.length_nil, List.range_succ, hs1.seqs]
  · exact hs1.dig
  · exact hs1.err
  · exact hs1.em
  · exact hs1.exp

theorem ingest_acct (cfg : Cfg) (s : State) (id : Nat) (ty : WType) (c : Nat) (st : Stamp) (h : Acct s) :
    Acct (ingest cfg s id ty c st).1 := by
  unfold ingest
  have h2 := enqueue_acct cfg s id ty c st h
  generalize enqueue cfg s id ty c st = s2 at h2
  simp only
  split
  · split
    · exact digestCore_acct cfg s2 _ true h2
    · exact ⟨h2.occ_eq, h2.seqs, h2.dig, h2.err, h2.em, h2.exp⟩
  · exact h2

theorem autophagy_acct (cfg : Cfg) (s : State) (h : Acct s) : Acct (autophagy cfg s).1 := by
  have h2 := count_filter_split (keeps cfg s.clock) s.queue
  unfold autophagy
  split
  · exact h
  constructor
  · intro it
    have := h.occ_eq it
    have := h2 it
    simp only [occ, List.count_append] at *
    omega
  · simpa using h.seqs
  · simpa using h.dig
  · simpa using h.err
  · simpa using h.em
  · have := h.exp
    simp only [List.length_append]
    omega

theorem step_acct (cfg : Cfg) (s : State) (op : Op) (h : Acct s) : Acct (step cfg s op).1 := by
  unfold step
  split
  · exact h
  · cases op with
    | ingest id ty c st => exact ingest_acct cfg s id ty c st h
    | digest k => exact digestCore_acct cfg s _ false h
    | autophagy => exact autophagy_acct cfg s h
    | advance us => exact ⟨h.occ_eq, h.seqs, h.dig, h.err, h.em, h.exp⟩
    | clearBin => exact ⟨h.occ_eq, h.seqs, h.dig, h.err, h.em, h.exp⟩

theorem run_acct (cfg : Cfg) : ∀ (ops : List Op) (s : State), Acct s → Acct (run cfg s ops) := by
  intro ops
  induction ops with
  | nil => intro s h; exact h
  | cons op ops ih => intro s h; exact ih _ (step_acct cfg s op h)

/-! ### queue bound -/

theorem emergency_queue_len (cfg : Cfg) (s : State) :
    (emergency cfg s).queue.length = s.queue.length - s.queue.length / 2 := by
  unfold emergency
  simp only
  split
  · rename_i h; simp [h]
  · simp

theorem enqueue_queue_len (cfg : Cfg) (s : State) (id : Nat) (ty : WType) (c : Nat) (st : Stamp) :
    (enqueue cfg s id ty c st).queue.length =
      (if s.queue.length ≥ cfg.maxQ then s.queue.length - s.queue.length / 2 else s.queue.length) + 1 := by
  unfold enqueue
  simp only [List.length_append, List.length_cons, List.length_nil]
  split <;> simp [emergency_queue_len]

theorem digestCore_queue_le (cfg : Cfg) (s : State) (n : Nat) (via : Bool) :
    (digestCore cfg s n via).1.queue.length ≤ s.queue.length := by
  simp [digestCore]

theorem step_queue_bound (cfg : Cfg) (h2 : 2 ≤ cfg.maxQ) (s : State) (op : Op) (hq : s.queue.length ≤ cfg.maxQ) :
    (step cfg s op).1.queue.length ≤ cfg.maxQ := by
  unfold step
  split
  · exact hq
  · cases op with
    | ingest id ty c st =>
      have hl := enqueue_queue_len cfg s id ty c st
      have he : (enqueue cfg s id ty c st).queue.length ≤ cfg.maxQ := by
        rw [hl]; split <;> omega
      unfold ingest
      simp only
      split
      · split
        · exact Nat.le_trans (digestCore_queue_le _ _ _ _) he
        · exact he
      · exact he
    | digest k => exact Nat.le_trans (digestCore_queue_le _ _ _ _) hq
    | autophagy =>
      simp only [autophagy]
      split
      · exact hq
      · exact Nat.le_trans (List.length_filter_le _ _) hq
    | advance us => exact hq
    | clearBin => exact hq

theorem run_queue_bound (cfg : Cfg) (h2 : 2 ≤ cfg.maxQ) : ∀ (ops : List Op) (s : State),
    s.queue.length ≤ cfg.maxQ → (run cfg s ops).queue.length ≤ cfg.maxQ := by
  intro ops
  induction ops with
  | nil => intro s h; exact h
  | cons op ops ih => intro s h; exact ih _ (step_queue_bound cfg h2 s op h)

/-! ### every call returns (sequentially) -/

def Obs.returned : Obs → Bool
  | .ok => true
  | .digest _ => true
  | .removed _ => true
  | .raised => true
  | .hang => false
  | .dead => false

theorem digestCore_dead (cfg : Cfg) (s : State) (n : Nat) (via : Bool) : (digestCore cfg s n via).1.dead = s.dead := rfl

theorem emergency_dead (cfg : Cfg) (s : State) : (emergency cfg s).dead = s.dead := by
  unfold emergency; simp only; split <;> rfl

theorem enqueue_dead (cfg : Cfg) (s : State) (id : Nat) (ty : WType) (c : Nat) (st : Stamp) :
    (enqueue cfg s id ty c st).dead = s.dead := by
  unfold enqueue
  simp only
  split
  · exact emergency_dead cfg s
  · rfl

theorem step_returns (cfg : Cfg) (hre : cfg.reent = true) (s : State) (op : Op) (hd : s.dead = false) :
    (step cfg s op).2.returned = true ∧ (step cfg s op).1.dead = false := by
  unfold step
  rw [if_neg (by simp [hd])]
  cases op with
  | ingest id ty c st =>
    unfold ingest
    simp only [hre, if_true]
    split
    · exact ⟨rfl, by rw [digestCore_dead, enqueue_dead]; exact hd⟩
    · exact ⟨rfl, by rw [enqueue_dead]; exact hd⟩
  | digest k => exact ⟨rfl, hd⟩
  | autophagy => simp only [autophagy]; split <;> exact ⟨rfl, hd⟩
  | advance us => exact ⟨rfl, hd⟩
  | clearBin => exact ⟨rfl, hd⟩

/-- the observations of a history -/
def runObs (cfg : Cfg) : State → List Op → List Obs
  | _, [] => []
  | s, op :: ops => (step cfg s op).2 :: runObs cfg (step cfg s op).1 ops

theorem run_returns (cfg : Cfg) (hre : cfg.reent = true) : ∀ (ops : List Op) (s : State), s.dead = false →
    (∀ o ∈ runObs cfg s ops, o.returned = true) ∧ (run cfg s ops).dead = false := by
  intro ops
  induction ops with
  | nil => intro s h; exact ⟨by simp [runObs], h⟩
  | cons op ops ih =>
    intro s h
    obtain ⟨h1, h2⟩ := step_returns cfg hre s op h
    obtain ⟨h3, h4⟩ := ih _ h2
    refine ⟨?_, h4⟩
    intro o ho
    simp only [runObs, List.mem_cons] at ho
    rcases ho with rfl | ho
    · exact h1
    · exact h3 o ho

/-! ### toxic items: callback log and recycling bin -/

/-- an item's `on_toxic` callback count equals the number of times it was processed (digested, errored or
    emergency-dropped) if it is toxic, and is zero otherwise -/
def ToxInv (s : State) : Prop :=
  ∀ it, s.toxicLog.count it =
    if it.ty = .toxic then s.gDigested.count it + s.gErrored.count it + s.gEmDropped.count it else 0

def BinInv (s : State) : Prop := ∀ kv ∈ s.bin, kv.2.ty ≠ .toxic

theorem callsToxic_builtin {cfg : Cfg} {f : Item → Bool} (htd : cfg.toxDig = none) (hot : cfg.onToxic = some f)
    (it : Item) : callsToxic cfg it = decide (it.ty = .toxic) := by
  unfold callsToxic digestOne
  by_cases h : it.ty = .toxic
  · simp only [h, htd, hot, if_true, decide_true]
    by_cases hf : f it = true <;> simp [hf]
  · simp [h]

theorem keysOf_toxic {cfg : Cfg} (htd : cfg.toxDig = none) {it : Item} (h : it.ty = .toxic) : keysOf cfg it = [] := by
  unfold keysOf digestOne
  simp only [h, htd]
  cases cfg.onToxic with
  | none => rfl
  | some f => by_cases hf : f it = true <;> simp [hf]

theorem dictSet_mem {α : Type} (d : List (Nat × α)) (kv x : Nat × α) (h : x ∈ dictSet d kv) : x ∈ d ∨ x = kv := by
  unfold dictSet at h
  split at h
  · simp only [List.mem_map] at h
    obtain ⟨e, he, rfl⟩ := h
    split
    · exact Or.inr rfl
    · exact Or.inl he
  · simp only [List.mem_append, List.mem_singleton] at h
    exact h

theorem dictUpdate_mem {α : Type} : ∀ (kvs d : List (Nat × α)) (x : Nat × α),
    x ∈ dictUpdate d kvs → x ∈ d ∨ x ∈ kvs := by
  intro kvs
  induction kvs with
  | nil => intro d x h; exact Or.inl h
  | cons kv kvs ih =>
    intro d x h
    simp only [dictUpdate, List.foldl_cons] at h
    rcases ih (dictSet d kv) x h with h | h
    · rcases dictSet_mem d kv x h with h | h
      · exact Or.inl h
      · exact Or.inr (by simp [h])
    · exact Or.inr (by simp [h])

theorem digestCore_tox {cfg : Cfg} {f : Item → Bool} (htd : cfg.toxDig = none) (hot : cfg.onToxic = some f)
    (s : State) (n : Nat) (via : Bool) (h : ToxInv s) : ToxInv (digestCore cfg s n via).1 := by
  intro it
  have h0 := h it
  have h2 := count_filter_split (succeeds cfg) (s.queue.take n) it
  have h3 := count_filter_ite (callsToxic cfg) (s.queue.take n) it
  rw [callsToxic_builtin htd hot] at h3
  simp only [digestCore, List.count_append]
  by_cases ht : it.ty = .toxic
  · simp only [ht, if_true, decide_true] at h0 h3 ⊢
    omega
  · simp only [ht, if_false, decide_false] at h0 h3 ⊢
    simp at h3
    omega

theorem emergency_tox {cfg : Cfg} {f : Item → Bool} (htd : cfg.toxDig = none) (hot : cfg.onToxic = some f)
    (s : State) (h : ToxInv s) : ToxInv (emergency cfg s) := by
  unfold emergency
  simp only
  split
  · exact h
  · intro it
    have h0 := h it
    have h2 := count_filter_split (succeedsEm cfg) (s.queue.take (s.queue.length / 2)) it
    have h3 := count_filter_ite (callsToxic cfg) (s.queue.take (s.queue.length / 2)) it
    rw [callsToxic_builtin htd hot] at h3
    simp only [List.count_append]
    by_cases ht : it.ty = .toxic
    · simp only [ht, if_true, decide_true] at h0 h3 ⊢
      omega
    · simp only [ht, if_false, decide_false] at h0 h3 ⊢
      simp at h3
      omega

theorem step_tox {cfg : Cfg} {f : Item → Bool} (htd : cfg.toxDig = none) (hot : cfg.onToxic = some f)
    (s : State) (op : Op) (h : ToxInv s) : ToxInv (step cfg s op).1 := by
  unfold step
  split
  · exact h
  · cases op with
    | ingest id ty c st =>
      have he : ToxInv (enqueue cfg s id ty c st) := by
        unfold enqueue
        simp only
        split
        · exact emergency_tox htd hot s h
        · exact h
      unfold ingest
      simp only
      split
      · split
        · exact digestCore_tox htd hot _ _ _ he
        · exact he
      · exact he
    | digest k => exact digestCore_tox htd hot _ _ _ h
    | autophagy => simp only [autophagy]; split <;> exact h
    | advance us => exact h
    | clearBin => exact h

theorem run_tox {cfg : Cfg} {f : Item → Bool} (htd : cfg.toxDig = none) (hot : cfg.onToxic = some f) :
    ∀ (ops : List Op) (s : State), ToxInv s → ToxInv (run cfg s ops) := by
  intro ops
  induction ops with
  | nil => intro s h; exact h
  | cons op ops ih => intro s h; exact ih _ (step_tox htd hot s op h)

theorem digestCore_bin {cfg : Cfg} (htd : cfg.toxDig = none) (s : State) (n : Nat) (via : Bool) (h : BinInv s) :
    BinInv (digestCore cfg s n via).1 ∧ ∀ kv ∈ (digestCore cfg s n via).2.recycledKeys, kv.2.ty ≠ .toxic := by
  have hrec : ∀ kv ∈ (digestCore cfg s n via).2.recycledKeys, kv.2.ty ≠ .toxic := by
    intro kv hkv
    simp only [digestCore] at hkv
    rcases dictUpdate_mem _ _ _ hkv with hkv | hkv
    · simp at hkv
    · simp only [List.mem_flatMap, List.mem_map] at hkv
      obtain ⟨it, _, k, hk, rfl⟩ := hkv
      intro ht
      rw [keysOf_toxic htd ht] at hk
      simp at hk
  refine ⟨?_, hrec⟩
  intro kv hkv
  simp only [digestCore] at hkv
  rcases dictUpdate_mem _ _ _ hkv with hkv | hkv
  · exact h kv hkv
  · exact hrec kv (by simpa [digestCore] using hkv)

theorem emergency_bin (cfg : Cfg) (s : State) : (emergency cfg s).bin = s.bin := by
  unfold emergency; simp only; split <;> rfl

theorem step_bin {cfg : Cfg} (htd : cfg.toxDig = none) (s : State) (op : Op) (h : BinInv s) :
    BinInv (step cfg s op).1 := by
  unfold step
  split
  · exact h
  · cases op with
    | ingest id ty c st =>
      have he : BinInv (enqueue cfg s id ty c st) := by
        unfold enqueue BinInv
        simp only
        split
        · rw [emergency_bin]; exact h
        · exact h
      unfold ingest
      simp only
      split
      · split
        · exact (digestCore_bin htd _ _ _ he).1
        · exact he
      · exact he
    | digest k => exact (digestCore_bin htd _ _ _ h).1
    | autophagy => simp only [autophagy]; split <;> exact h
    | advance us => exact h
    | clearBin => intro kv hkv; simp at hkv

theorem run_bin {cfg : Cfg} (htd : cfg.toxDig = none) :
    ∀ (ops : List Op) (s : State), BinInv s → BinInv (run cfg s ops) := by
  intro ops
  induction ops with
  | nil => intro s h; exact h
  | cons op ops ih => intro s h; exact ih _ (step_bin htd s op h)

/-! ### sequential calls never leave anything pending -/

theorem emergency_pending (cfg : Cfg) (s : State) : (emergency cfg s).gPending = s.gPending := by
  unfold emergency; simp only; split <;> rfl

theorem enqueue_pending (cfg : Cfg) (s : State) (id : Nat) (ty : WType) (c : Nat) (st : Stamp) :
    (enqueue cfg s id ty c st).gPending = s.gPending := by
  unfold enqueue
  simp only
  split
  · exact emergency_pending cfg s
  · rfl

theorem step_pending (cfg : Cfg) (s : State) (op : Op) : (step cfg s op).1.gPending = s.gPending := by
  unfold step
  split
  · rfl
  · cases op with
    | ingest id ty c st =>
      unfold ingest
      simp only
      split
      · split
        · exact enqueue_pending cfg s id ty c st
        · exact enqueue_pending cfg s id ty c st
      · exact enqueue_pending cfg s id ty c st
    | digest k => rfl
    | autophagy => simp only [autophagy]; split <;> rfl
    | advance us => rfl
    | clearBin => rfl

theorem run_pending (cfg : Cfg) : ∀ (ops : List Op) (s : State), (run cfg s ops).gPending = s.gPending := by
  intro ops
  induction ops with
  | nil => intro s; rfl
  | cons op ops ih => intro s; simp only [run]; rw [ih, step_pending]

/-! ### several threads, atomic actions -/

theorem takeFirst_count {tid : Nat} : ∀ {p : List (Nat × Item)} {x : Item} {r : List (Nat × Item)},
    takeFirst tid p = some (x, r) →
    ∀ it, (r.map (·.2)).count it + (if x = it then 1 else 0) = (p.map (·.2)).count it := by
  intro p
  induction p with
  | nil => intro x r h; simp [takeFirst] at h
  | cons e p ih =>
    intro x r h it
    obtain ⟨t, y⟩ := e
    simp only [takeFirst] at h
    split at h
    · cases h
      by_cases hx : x = it <;> simp [List.count_cons, hx]
    · split at h
      · cases h
      · rename_i x' r' heq
        cases h
        have := ih heq it
        by_cases hy : y = it <;> simp [List.count_cons, hy] <;> omega

theorem takeFirst_length {tid : Nat} : ∀ {p : List (Nat × Item)} {x : Item} {r : List (Nat × Item)},
    takeFirst tid p = some (x, r) → r.length + 1 = p.length := by
  intro p
  induction p with
  | nil => intro x r h; simp [takeFirst] at h
  | cons e p ih =>
    intro x r h
    obtain ⟨t, y⟩ := e
    simp only [takeFirst] at h
    split at h
    · cases h; simp
    · split at h
      · cases h
      · rename_i x' r' heq
        cases h
        have := ih heq
        simp; omega

theorem act_acct (cfg : Cfg) (s : State) (a : Act) (h : Acct s) : Acct (act cfg s a) := by
  cases a with
  | op o => exact step_acct cfg s o h
  | pop tid k =>
    have h1 := count_take_drop s.queue (sliceCount s.queue.length k)
    constructor
    · intro it
      have := h.occ_eq it
      have := h1 it
      simp only [act, occ, List.map_append, List.map_map, List.count_append] at *
      have e : (List.map ((fun x : Nat × Item => x.2) ∘ fun it => (tid, it))
          (List.take (sliceCount s.queue.length k) s.queue)) = List.take (sliceCount s.queue.length k) s.queue := by
        simp [Function.comp_def]
      rw [e]
      omega
    · exact h.seqs
    · exact h.dig
    · exact h.err
    · exact h.em
    · exact h.exp
  | iter tid =>
    simp only [act]
    split
    · exact h
    · rename_i it rest heq
      have hc := takeFirst_count heq
      unfold iterItem
      split
      · constructor
        · intro x
          have := h.occ_eq x
          have := hc x
          simp only [occ, List.count_append, List.count_cons, List.count_nil] at *
          simp only [beq_iff_eq] at *
          omega
        · exact h.seqs
        · have := h.dig; simp only [List.length_append, List.length_cons, List.length_nil]; omega
        · exact h.err
        · exact h.em
        · exact h.exp
      · constructor
        · intro x
          have := h.occ_eq x
          have := hc x
          simp only [occ, List.count_append, List.count_cons, List.count_nil] at *
          simp only [beq_iff_eq] at *
          omega
        · exact h.seqs
        · exact h.dig
        · have := h.err; simp only [List.length_append, List.length_cons, List.length_nil]; omega
        · exact h.em
        · exact h.exp

theorem runActs_acct (cfg : Cfg) : ∀ (as : List Act) (s : State), Acct s → Acct (runActs cfg s as) := by
  intro as
  induction as with
  | nil => intro s h; exact h
  | cons a as ih => intro s h; exact ih _ (act_acct cfg s a h)

theorem act_queue_bound (cfg : Cfg) (h2 : 2 ≤ cfg.maxQ) (s : State) (a : Act) (hq : s.queue.length ≤ cfg.maxQ) :
    (act cfg s a).queue.length ≤ cfg.maxQ := by
  cases a with
  | op o => exact step_queue_bound cfg h2 s o hq
  | pop tid k => simp only [act, List.length_drop]; omega
  | iter tid =>
    simp only [act]
    split
    · exact hq
    · unfold iterItem; split <;> exact hq

theorem runActs_queue_bound (cfg : Cfg) (h2 : 2 ≤ cfg.maxQ) : ∀ (as : List Act) (s : State),
    s.queue.length ≤ cfg.maxQ → (runActs cfg s as).queue.length ≤ cfg.maxQ := by
  intro as
  induction as with
  | nil => intro s h; exact h
  | cons a as ih => intro s h; exact ih _ (act_queue_bound cfg h2 s a h)

theorem act_tox {cfg : Cfg} {f : Item → Bool} (htd : cfg.toxDig = none) (hot : cfg.onToxic = some f)
    (s : State) (a : Act) (h : ToxInv s) : ToxInv (act cfg s a) := by
  cases a with
  | op o => exact step_tox htd hot s o h
  | pop tid k => exact h
  | iter tid =>
    simp only [act]
    split
    · exact h
    · rename_i it rest heq
      intro x
      have h0 := h x
      have hct := callsToxic_builtin htd hot it
      unfold iterItem
      by_cases hs : succeeds cfg it = true <;> by_cases hty : it.ty = .toxic <;> by_cases hx : it = x <;>
        by_cases hxt : x.ty = .toxic <;>
        simp_all [List.count_append, List.count_cons] <;> omega

theorem runActs_tox {cfg : Cfg} {f : Item → Bool} (htd : cfg.toxDig = none) (hot : cfg.onToxic = some f) :
    ∀ (as : List Act) (s : State), ToxInv s → ToxInv (runActs cfg s as) := by
  intro as
  induction as with
  | nil => intro s h; exact h
  | cons a as ih => intro s h; exact ih _ (act_tox htd hot s a h)

theorem act_bin {cfg : Cfg} (htd : cfg.toxDig = none) (s : State) (a : Act) (h : BinInv s) :
    BinInv (act cfg s a) := by
  cases a with
  | op o => exact step_bin htd s o h
  | pop tid k => exact h
  | iter tid =>
    simp only [act]
    split
    · exact h
    · rename_i it rest heq
      unfold iterItem
      split
      · intro kv hkv
        simp only at hkv
        rcases dictUpdate_mem _ _ _ hkv with hkv | hkv
        · exact h kv hkv
        · simp only [List.mem_map] at hkv
          obtain ⟨k, hk, rfl⟩ := hkv
          intro ht
          rw [keysOf_toxic htd ht] at hk
          simp at hk
      · intro kv hkv
        simp only at hkv
        rcases dictUpdate_mem _ _ _ hkv with hkv | hkv
        · exact h kv hkv
        · simp only [List.mem_map] at hkv
          obtain ⟨k, hk, rfl⟩ := hkv
          intro ht
          rw [keysOf_toxic htd ht] at hk
          simp at hk

theorem runActs_bin {cfg : Cfg} (htd : cfg.toxDig = none) :
    ∀ (as : List Act) (s : State), BinInv s → BinInv (runActs cfg s as) := by
  intro as
  induction as with
  | nil => intro s h; exact h
  | cons a as ih => intro s h; exact ih _ (act_bin htd s a h)

end Operon.Lysosome
