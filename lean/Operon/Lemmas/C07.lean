import Operon.Lemmas.Cffl
/-! Helper lemmas for C07: what is in the cache, where it came from, and generic induction over histories. -/
namespace Operon.Cffl

/-- "executor permits" -/
def zPermits (z : Cls) : Bool := z == .execute || z == .permit
/-- "assessor permits": only a PERMIT verdict is an approval -/
def yPermits (y : Cls) : Bool := y == .permit

/-- The property text: which verdict pairs satisfy which gate logic. -/
def criterion : Gate → Cls → Cls → Bool
  | .and, z, y => zPermits z && yPermits y
  | .unanimous, z, y => zPermits z && yPermits y
  | .or, z, y => zPermits z || yPermits y
  | .execPrio, z, y => zPermits z && (y != .block)
  | .assessPrio, z, y => yPermits y && (z != .failure)
  | .majority, _, _ => false

/-! ### cache contents -/

theorem mem_eraseFirstTs {t : Nat} {c : List Entry} {e : Entry} (h : e ∈ eraseFirstTs t c) : e ∈ c := by
  induction c with
  | nil => simp [eraseFirstTs] at h
  | cons a as ih =>
    unfold eraseFirstTs at h
    split at h
    · exact List.mem_cons_of_mem _ h
    · rcases List.mem_cons.mp h with h | h
      · subst h; exact List.mem_cons_self
      · exact List.mem_cons_of_mem _ (ih h)

theorem mem_cachePut {k : Nat} {r : Result} {now : Nat} {g : Gate} {c : List Entry} {e : Entry}
    (h : e ∈ cachePut k r now g c) : e ∈ c ∨ e = ⟨k, r, now, g⟩ := by
  unfold cachePut at h
  split at h
  · rcases List.mem_map.mp h with ⟨a, ha, hae⟩
    split at hae
    · right; exact hae.symm
    · left; subst hae; exact ha
  · rcases List.mem_append.mp h with h | h
    · left; exact h
    · right; simpa using h

theorem mem_cacheStore {k : Nat} {r : Result} {now : Nat} {g : Gate} {c : List Entry} {e : Entry}
    (h : e ∈ cacheStore k r now g c) : e ∈ c ∨ e = ⟨k, r, now, g⟩ := by
  unfold cacheStore at h
  simp only at h
  split at h
  · exact mem_cachePut (mem_eraseFirstTs h)
  · exact mem_cachePut h

/-- the cache after a request: old entries, or the gate result of this very request stored under its key -/
theorem run_cache (cfg : Cfg) (H : Hashes) (s : State) (p : Prompt) (zr yr : Resp) :
    ∀ e ∈ (run cfg H s p zr yr).1.cache, e ∈ s.cache ∨
      (∃ z y, zr = .ret z ∧ yr = .ret y ∧ p.enc = true ∧ e.key = H.md5 p.id ∧
        e.res = gateResult H cfg.gate p z y ∧
        (run cfg H s p zr yr).2 = ⟨.gated (classifyRun (gateResult H cfg.gate p z y).success
            (gateResult H cfg.gate p z y).blocked z y), some (gateResult H cfg.gate p z y)⟩) := by
  rw [run_eq]
  cases hr : rejects cfg s.now s.br
  · simp only [Bool.false_eq_true, ↓reduceIte]
    rcases afterCircuit_cache cfg H { s with br := enter cfg s.now s.br } p zr yr with h | ⟨z, y, c, hz, hy, hp, _, hc, hout, hcache⟩
    · intro e he; left; exact h e he
    · intro e he
      rw [hcache] at he
      rcases mem_cacheStore he with h | h
      · left; exact hc e h
      · right
        refine ⟨z, y, hz, hy, hp, by rw [h], by rw [h], ?_⟩
        rw [hout, hz, hy]
        simp [consultOut, hp]
  · simp only [↓reduceIte]
    intro e he; left; exact he

/-- an entry in the cache after a request was there before, or was stored under the gate logic configured now -/
theorem run_cache_gate (cfg : Cfg) (H : Hashes) (s : State) (p : Prompt) (zr yr : Resp) :
    ∀ e ∈ (run cfg H s p zr yr).1.cache, e ∈ s.cache ∨ e.gate = cfg.gate := by
  rw [run_eq]
  cases hr : rejects cfg s.now s.br
  · simp only [Bool.false_eq_true, ↓reduceIte]
    rcases afterCircuit_cache cfg H { s with br := enter cfg s.now s.br } p zr yr with h | ⟨z, y, c, _, _, _, _, hc, _, hcache⟩
    · intro e he; left; exact h e he
    · intro e he
      rw [hcache] at he
      rcases mem_cacheStore he with h | h
      · left; exact hc e h
      · right; rw [h]
  · simp only [↓reduceIte]
    intro e he; left; exact he

/-- a cache hit is served from an entry of the state's cache, stored under this prompt's key and decided under the
    gate logic configured now -/
theorem run_hit_gate (cfg : Cfg) (H : Hashes) (s : State) (p : Prompt) (zr yr : Resp)
    (hk : (run cfg H s p zr yr).2.kind = .cacheHit) :
    ∃ e ∈ s.cache, e.key = H.md5 p.id ∧ e.gate = cfg.gate ∧
      (run cfg H s p zr yr).2 = ⟨.cacheHit, some { e.res with cached := true }⟩ := by
  rw [run_eq] at hk ⊢
  cases hr : rejects cfg s.now s.br
  · simp only [hr, Bool.false_eq_true, ↓reduceIte] at hk ⊢
    exact afterCircuit_hit_gate cfg H { s with br := enter cfg s.now s.br } p zr yr hk
  · simp [hr] at hk

/-- the reply of a request: CIRCUIT_OPEN, what the agents' responses determine, a cache hit on an entry stored
    under this prompt's key, or nothing (un-encodable prompt) -/
theorem run_out (cfg : Cfg) (H : Hashes) (s : State) (p : Prompt) (zr yr : Resp) :
    (run cfg H s p zr yr).2 = ⟨.circuitOpen, some circuitOpenResult⟩ ∨
    (run cfg H s p zr yr).2 = consultOut cfg H p zr yr ∨
    (p.enc = true ∧ ∃ e ∈ s.cache, e.key = H.md5 p.id ∧
      (run cfg H s p zr yr).2 = ⟨.cacheHit, some { e.res with cached := true }⟩) ∨
    (p.enc = false ∧ (run cfg H s p zr yr).2 = ⟨.raised, none⟩) := by
  rw [run_eq]
  cases hr : rejects cfg s.now s.br
  · simp only [Bool.false_eq_true, ↓reduceIte]
    rcases afterCircuit_out cfg H { s with br := enter cfg s.now s.br } p zr yr with h | h | h
    · right; left; exact h.1
    · obtain ⟨_, hp, _, e, he, hk, _, hout⟩ := h
      right; right; left; exact ⟨hp, e, he, hk, hout⟩
    · right; right; right; exact ⟨h.2.1, by rw [h.2.2]⟩
  · left; simp

theorem consultOut_kind (cfg : Cfg) (H : Hashes) (p : Prompt) (zr yr : Resp) :
    (consultOut cfg H p zr yr).kind ≠ .cacheHit ∧ (consultOut cfg H p zr yr).kind ≠ .circuitOpen ∧
    ∀ r, (consultOut cfg H p zr yr).result = some r → r.cached = false := by
  unfold consultOut
  cases zr <;> cases yr <;> simp [errorResult]
  split <;> simp [gateResult]

/-! ### induction over histories -/

/-- A state invariant kept by every step, and a predicate on observations that every step from a state
    satisfying the invariant establishes, hold along every history. -/
theorem exec_forall (cfg : Cfg) (H : Hashes) (Inv : State → Prop) (P : Obs → Prop)
    (hstep : ∀ s op, Inv s → Inv (step cfg H s op).1 ∧ P ⟨op, (step cfg H s op).2⟩) :
    ∀ (ops : List Op) (s : State), Inv s → Inv (exec cfg H s ops).1 ∧ ∀ o ∈ (exec cfg H s ops).2, P o := by
  intro ops
  induction ops with
  | nil => intro s h; simpa [exec] using h
  | cons op ops ih =>
    intro s h
    have h1 := hstep s op h
    have h2 := ih (step cfg H s op).1 h1.1
    rw [show exec cfg H s (op :: ops) = ((exec cfg H (step cfg H s op).1 ops).1,
        ⟨op, (step cfg H s op).2⟩ :: (exec cfg H (step cfg H s op).1 ops).2) from rfl]
    refine ⟨h2.1, ?_⟩
    intro o ho
    rcases List.mem_cons.mp ho with rfl | ho
    · exact h1.2
    · exact h2.2 o ho

/-- every cache entry is the gate's result for some prompt with that key and some pair of verdicts -/
def CacheOK (cfg : Cfg) (H : Hashes) (c : List Entry) : Prop :=
  ∀ e ∈ c, ∃ (p : Prompt) (z y : Cls), e.key = H.md5 p.id ∧ e.res = gateResult H cfg.gate p z y

theorem step_cacheOK (cfg : Cfg) (H : Hashes) (s : State) (op : Op) (h : CacheOK cfg H s.cache) :
    CacheOK cfg H (step cfg H s op).1.cache := by
  cases op with
  | run p zr yr =>
    intro e he
    rcases run_cache cfg H s p zr yr e he with h' | ⟨z, y, _, _, _, hk, hr, _⟩
    · exact h e h'
    · exact ⟨p, z, y, hk, hr⟩
  | adv d => simpa [step] using h
  | resetcb => simpa [step] using h
  | clearcache => intro e he; simp [step] at he

/-- `o'` is the original of the cached reply `o`: an earlier request whose prompt has the same cache key, that
    was answered by consulting the agents, and whose reply `o` repeats with only the `cached` flag set. -/
def Original (H : Hashes) (o' o : Obs) : Prop :=
  ∃ (p p' : Prompt) (zr yr zr' yr' : Resp) (r' : Result) (ev : BEvent),
    o.op = .run p zr yr ∧ o'.op = .run p' zr' yr' ∧ H.md5 p'.id = H.md5 p.id ∧
    o'.out = ⟨.gated ev, some r'⟩ ∧ r'.cached = false ∧ o.out.result = some { r' with cached := true }

/-- every cache entry was stored by a request in `tr` -/
def CacheFrom (H : Hashes) (tr : List Obs) (c : List Entry) : Prop :=
  ∀ e ∈ c, ∃ o' ∈ tr, ∃ (p' : Prompt) (zr' yr' : Resp) (ev : BEvent),
    o'.op = .run p' zr' yr' ∧ H.md5 p'.id = e.key ∧ o'.out = ⟨.gated ev, some e.res⟩ ∧ e.res.cached = false

theorem step_cacheFrom (cfg : Cfg) (H : Hashes) (s : State) (op : Op) (pre : List Obs)
    (h : CacheFrom H pre s.cache) :
    CacheFrom H (pre ++ [⟨op, (step cfg H s op).2⟩]) (step cfg H s op).1.cache ∧
    ((step cfg H s op).2.kind = .cacheHit → ∃ o' ∈ pre, Original H o' ⟨op, (step cfg H s op).2⟩) := by
  have weaken : ∀ c, CacheFrom H pre c → CacheFrom H (pre ++ [⟨op, (step cfg H s op).2⟩]) c := by
    intro c hc e he
    obtain ⟨o', ho', rest⟩ := hc e he
    exact ⟨o', List.mem_append_left _ ho', rest⟩
  cases op with
  | run p zr yr =>
    simp only [step]
    constructor
    · intro e he
      rcases run_cache cfg H s p zr yr e he with h' | ⟨z, y, _, _, _, hk, hr, hout⟩
      · obtain ⟨o', ho', rest⟩ := h e h'
        exact ⟨o', List.mem_append_left _ ho', rest⟩
      · refine ⟨⟨.run p zr yr, (run cfg H s p zr yr).2⟩, by simp, p, zr, yr,
          classifyRun (gateResult H cfg.gate p z y).success (gateResult H cfg.gate p z y).blocked z y,
          rfl, hk.symm, ?_, ?_⟩
        · rw [hout, hr]
        · rw [hr]; rfl
    · intro hk
      rcases run_out cfg H s p zr yr with h' | h' | ⟨_, e, he, hkey, hout⟩ | h'
      · rw [h'] at hk; simp at hk
      · rw [h'] at hk; exact absurd hk (consultOut_kind cfg H p zr yr).1
      · obtain ⟨o', ho', p', zr', yr', ev, hop, hmd, hout', hc⟩ := h e he
        exact ⟨o', ho', p, p', zr, yr, zr', yr', e.res, ev, rfl, hop, by rw [hmd, hkey], hout', hc, by rw [hout]⟩
      · rw [h'.2] at hk; simp at hk
  | adv d => exact ⟨by simpa [step] using weaken _ h, by simp [step]⟩
  | resetcb => exact ⟨by simpa [step] using weaken _ h, by simp [step]⟩
  | clearcache => exact ⟨by intro e he; simp [step] at he, by simp [step]⟩

/-- along every history, every cache hit has its original strictly earlier in the history (or in `pre`, the
    history that built the starting cache) -/
theorem exec_originals (cfg : Cfg) (H : Hashes) (ops : List Op) : ∀ (s : State) (pre : List Obs),
    CacheFrom H pre s.cache →
    ∀ (tr1 tr2 : List Obs) (o : Obs), (exec cfg H s ops).2 = tr1 ++ o :: tr2 → o.out.kind = .cacheHit →
      ∃ o' ∈ pre ++ tr1, Original H o' o := by
  induction ops with
  | nil => intro s pre _ tr1 tr2 o h; simp [exec] at h
  | cons op ops ih =>
    intro s pre hpre tr1 tr2 o hsplit hk
    rw [show exec cfg H s (op :: ops) = ((exec cfg H (step cfg H s op).1 ops).1,
        ⟨op, (step cfg H s op).2⟩ :: (exec cfg H (step cfg H s op).1 ops).2) from rfl] at hsplit
    simp only at hsplit
    have hs := step_cacheFrom cfg H s op pre hpre
    cases tr1 with
    | nil =>
      simp only [List.nil_append, List.cons.injEq] at hsplit
      obtain ⟨ho, _⟩ := hsplit
      subst ho
      obtain ⟨o', ho', horig⟩ := hs.2 hk
      exact ⟨o', by simpa using ho', horig⟩
    | cons a tr1' =>
      simp only [List.cons_append, List.cons.injEq] at hsplit
      obtain ⟨ha, hrest⟩ := hsplit
      obtain ⟨o', ho', horig⟩ := ih (step cfg H s op).1 (pre ++ [⟨op, (step cfg H s op).2⟩]) hs.1 tr1' tr2 o hrest hk
      refine ⟨o', ?_, horig⟩
      subst ha
      simpa [List.append_assoc] using ho'

/-- along every history: a reply produced by the gate records the verdicts the agents gave on that very
    request, and a non-cached un-blocked reply is always such a reply -/
theorem exec_gated (cfg : Cfg) (H : Hashes) (ops : List Op) (s : State) :
    ∀ o ∈ (exec cfg H s ops).2,
      (∀ ev r, o.out = ⟨.gated ev, some r⟩ →
        ∃ p z y, o.op = .run p (.ret z) (.ret y) ∧ r = gateResult H cfg.gate p z y) ∧
      (∀ r, o.out.result = some r → r.cached = false → r.blocked = false → ∃ ev, o.out = ⟨.gated ev, some r⟩) := by
  have key := exec_forall cfg H (fun _ => True)
    (fun o => (∀ ev r, o.out = ⟨.gated ev, some r⟩ →
        ∃ p z y, o.op = .run p (.ret z) (.ret y) ∧ r = gateResult H cfg.gate p z y) ∧
      (∀ r, o.out.result = some r → r.cached = false → r.blocked = false → ∃ ev, o.out = ⟨.gated ev, some r⟩))
    ?_ ops s trivial
  · exact key.2
  · intro s op _
    refine ⟨trivial, ?_⟩
    cases op with
    | run p zr yr =>
      simp only [step]
      rcases run_out cfg H s p zr yr with h | h | ⟨_, e, _, _, h⟩ | ⟨_, h⟩
      · rw [h]; simp [circuitOpenResult]
      · rw [h]
        unfold consultOut
        cases zr with
        | exc => simp [errorResult]
        | excU => simp [errorResult]
        | excB => simp
        | ret z =>
          cases yr with
          | exc => simp [errorResult]
          | excU => simp [errorResult]
          | excB => simp
          | ret y =>
            cases hp : p.enc
            · simp
            · simp only [↓reduceIte]
              refine ⟨?_, ?_⟩
              · intro ev r h'
                simp only [Out.mk.injEq, Option.some.injEq] at h'
                exact ⟨p, z, y, rfl, h'.2.symm⟩
              · intro r hr _ _
                simp only [Option.some.injEq] at hr
                subst hr
                exact ⟨_, rfl⟩
      · rw [h]
        refine ⟨by simp, ?_⟩
        intro r hr hc
        simp at hr; subst hr; simp at hc
      · rw [h]; simp
    | adv d => simp [step]
    | resetcb => simp [step]
    | clearcache => simp [step]

/-- along every history a reply with the `cached` flag set is a cache hit -/
theorem exec_cached_is_hit (cfg : Cfg) (H : Hashes) (ops : List Op) (s : State) :
    ∀ o ∈ (exec cfg H s ops).2, ∀ r, o.out.result = some r → r.cached = true → o.out.kind = .cacheHit := by
  have key := exec_forall cfg H (fun _ => True)
    (fun o => ∀ r, o.out.result = some r → r.cached = true → o.out.kind = .cacheHit) ?_ ops s trivial
  · exact key.2
  · intro s op _
    refine ⟨trivial, ?_⟩
    cases op with
    | run p zr yr =>
      simp only [step]
      intro r hr hc
      rcases run_out cfg H s p zr yr with h | h | ⟨_, e, _, _, h⟩ | ⟨_, h⟩
      · rw [h] at hr; simp [circuitOpenResult] at hr; subst hr; simp at hc
      · rw [h] at hr
        have := (consultOut_kind cfg H p zr yr).2.2 r hr
        rw [this] at hc; cases hc
      · rw [h]
      · rw [h] at hr; simp at hr
    | adv d => intro r hr; simp [step] at hr
    | resetcb => intro r hr; simp [step] at hr
    | clearcache => intro r hr; simp [step] at hr

end Operon.Cffl
