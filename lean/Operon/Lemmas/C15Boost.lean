import Operon.Lemmas.C15Life
/-! Priority inheritance (`PriorityInheritance.check_and_boost`) changes priorities — upwards only — and its own boost
    table; nothing the lock machinery, the dependency graph, the deadlock detector or the "oldest" / "other" victim
    rules read (C15). -/
namespace Operon.Coord

/-- what the "oldest" rule reads of a context -/
def ageKey (c : Ctx) : Nat × Nat := (c.id, c.created)

/-- two systems that differ only in what priority inheritance writes: same locks, graph and strategy, the same
    operations listed with the same ids and creation times, no priority lowered -/
structure BoostSame (s s' : Sys) : Prop where
  locks : s'.locks = s.locks
  edges : s'.edges = s.edges
  strategy : s'.strategy = s.strategy
  age : ∀ o, (s'.ctx? o).map ageKey = (s.ctx? o).map ageKey
  up : ∀ o c c', s.ctx? o = some c → s'.ctx? o = some c' → c.prio ≤ c'.prio

theorem BoostSame.refl (s : Sys) : BoostSame s s :=
  ⟨rfl, rfl, rfl, fun _ => rfl, fun _ c c' h h' => by rw [h] at h'; cases h'; exact Int.le_refl _⟩

theorem BoostSame.trans {a b c : Sys} (h1 : BoostSame a b) (h2 : BoostSame b c) : BoostSame a c := by
  refine ⟨h2.locks.trans h1.locks, h2.edges.trans h1.edges, h2.strategy.trans h1.strategy,
    fun o => (h2.age o).trans (h1.age o), ?_⟩
  intro o ca cc ha hc
  have hb := h1.age o
  rw [ha] at hb
  cases hbo : b.ctx? o with
  | none => rw [hbo] at hb; simp at hb
  | some cb => exact Int.le_trans (h1.up o ca cb ha hbo) (h2.up o cb cc hbo hc)

theorem boostSame_setPrio {s : Sys} {o : Nat} {h : Ctx} (hc : s.ctx? o = some h) {p : Int} (hp : h.prio ≤ p) :
    BoostSame s (s.setCtx { h with prio := p }) := by
  have hid : h.id = o := (ctx?_some hc).2
  refine ⟨rfl, rfl, rfl, ?_, ?_⟩
  · intro x
    rw [ctx?_setCtx]
    split
    · rename_i hx
      have hx' : x = o := hx.trans hid
      rw [hx', hc]
      rfl
    · rfl
  · intro x c c' hcx hcx'
    rw [ctx?_setCtx] at hcx'
    split at hcx'
    · rename_i hx
      have hx' : x = o := hx.trans hid
      rw [hx', hc] at hcx hcx'
      cases hcx
      simp only [Option.map_some, Option.some.injEq] at hcx'
      rw [← hcx']
      exact hp
    · rw [hcx] at hcx'; cases hcx'; exact Int.le_refl _

theorem boostSame_boostHolder (st : BoostSt) (o : Nat) : BoostSame st.sys (boostHolder st o).sys := by
  unfold boostHolder
  cases hc : st.sys.ctx? o with
  | none => exact BoostSame.refl _
  | some h =>
    simp only
    split
    · rename_i hlt
      have := boostSame_setPrio hc (Int.le_of_lt hlt)
      exact ⟨this.locks, this.edges, this.strategy, this.age, this.up⟩
    · exact BoostSame.refl _

theorem boostSame_foldHolder : ∀ (l : List Nat) (st : BoostSt), BoostSame st.sys (l.foldl boostHolder st).sys
  | [], st => BoostSame.refl _
  | o :: l, st => by
    simp only [List.foldl_cons]
    exact (boostSame_boostHolder st o).trans (boostSame_foldHolder l _)

theorem boostSame_boostWaiter (acc : Sys × List (Nat × Int × Int)) (w : Nat) : BoostSame acc.1 (boostWaiter acc w).1 := by
  unfold boostWaiter
  cases acc.1.ctx? w with
  | none => exact BoostSame.refl _
  | some wc =>
    simp only
    exact boostSame_foldHolder _ { sys := acc.1, maxp := wc.prio, new := acc.2 }

theorem boostSame_foldWaiter : ∀ (l : List Nat) (acc : Sys × List (Nat × Int × Int)),
    BoostSame acc.1 (l.foldl boostWaiter acc).1
  | [], acc => BoostSame.refl _
  | w :: l, acc => by
    simp only [List.foldl_cons]
    exact (boostSame_boostWaiter acc w).trans (boostSame_foldWaiter l _)

/-- `check_and_boost` raises priorities and touches nothing else that matters -/
theorem boostSame_checkAndBoost (s : Sys) : BoostSame s (checkAndBoost s).1 := boostSame_foldWaiter _ (s, [])

/-- `_select_deadlock_victim` for the strategies that do not read priorities, on ids and creation times alone -/
def selectByAge (st : Strategy) (ks : List (Nat × Nat)) : Option Nat :=
  match st with
  | .priority => none
  | .oldest => (firstMinBy (fun k => (k.2 : Int)) ks).map (·.1)
  | .other => ks.head?.map (·.1)

theorem selectVictim_eq_byAge (s : Sys) (agents : List Nat) (h : s.strategy ≠ .priority) :
    selectVictim s agents = selectByAge s.strategy ((agents.filterMap s.ctx?).map ageKey) := by
  unfold selectVictim selectByAge
  cases hs : s.strategy with
  | priority => exact absurd hs h
  | oldest => simp only [firstMinBy_map, Option.map_map]; rfl
  | other => simp only [List.head?_map, Option.map_map]; rfl

/-- priority inheritance does not change whom the "oldest" (or any priority-blind) rule picks -/
theorem selectVictim_boostSame {s s' : Sys} (h : BoostSame s s') (hs : s.strategy ≠ .priority) (agents : List Nat) :
    selectVictim s' agents = selectVictim s agents := by
  rw [selectVictim_eq_byAge _ _ (by rw [h.strategy]; exact hs), selectVictim_eq_byAge _ _ hs, h.strategy,
    List.map_filterMap, List.map_filterMap]
  congr 1
  exact filterMap_congr_all (fun o => h.age o) agents

/-- the context an operation has after the boosts, given the one it had before -/
theorem BoostSame.ctx_after {s s' : Sys} (h : BoostSame s s') {o : Nat} {c : Ctx} (hc : s.ctx? o = some c) :
    ∃ c', s'.ctx? o = some c' ∧ c'.id = c.id ∧ c'.created = c.created ∧ c.prio ≤ c'.prio := by
  have ha := h.age o
  rw [hc] at ha
  cases hc' : s'.ctx? o with
  | none => rw [hc'] at ha; simp at ha
  | some c' =>
    rw [hc'] at ha
    simp only [Option.map_some, Option.some.injEq, ageKey, Prod.mk.injEq] at ha
    exact ⟨c', rfl, ha.1, ha.2, h.up o c c' hc hc'⟩

theorem BoostSame.ctx_before {s s' : Sys} (h : BoostSame s s') {o : Nat} {c' : Ctx} (hc' : s'.ctx? o = some c') :
    ∃ c, s.ctx? o = some c ∧ c'.id = c.id ∧ c'.created = c.created ∧ c.prio ≤ c'.prio := by
  have ha := h.age o
  rw [hc'] at ha
  cases hc : s.ctx? o with
  | none => rw [hc] at ha; simp at ha
  | some c =>
    rw [hc] at ha
    simp only [Option.map_some, Option.some.injEq, ageKey, Prod.mk.injEq] at ha
    exact ⟨c, rfl, ha.1, ha.2, h.up o c c' hc hc'⟩

end Operon.Coord
