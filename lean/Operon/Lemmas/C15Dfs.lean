import Operon.Lemmas.C15
/-!
Completeness of the DFS (`detect_cycle`): if the recorded graph has a cycle, a cycle is reported.

Ghost state: `fin`, the list of nodes whose `dfs` call has returned `None`, most recent first.  Invariant `DInv`:
the visited set is exactly stack ∪ finished, stack and finished are disjoint, the stack has no duplicates, and the
finished list is topologically ordered (`Topo`: every successor of a finished node was finished earlier).  A
topologically ordered set contains no cycle; when `detect_cycle` returns `None` every key is finished.  The fuel
`dfsFuel E` = number of node occurrences + 1 never runs out because the stack is a duplicate-free list of nodes.
-/
namespace Operon.Coord

/-- every node occurrence of the graph: keys, then edge targets -/
def nodesOf (E : Edges) : List Nat := E.map (·.1) ++ E.flatMap (fun e => e.2.map (·.1))

theorem nodesOf_length (E : Edges) : (nodesOf E).length + 1 = dfsFuel E := by
  unfold nodesOf dfsFuel
  rw [List.length_append, List.length_map, List.length_flatMap]
  simp

theorem edge_nodes {E : Edges} {a b : Nat} (h : Edge E a b) : a ∈ E.map (·.1) ∧ b ∈ nodesOf E := by
  unfold Edge nexts succs at h
  cases hf : E.find? (fun e => e.1 = a) with
  | none => simp [hf] at h
  | some e =>
    simp only [hf, List.mem_map] at h
    obtain ⟨d, hd, rfl⟩ := h
    have hm := List.mem_of_find?_eq_some hf
    have he : e.1 = a := by simpa using List.find?_some hf
    refine ⟨List.mem_map.mpr ⟨e, hm, he⟩, ?_⟩
    unfold nodesOf
    exact List.mem_append_right _ (List.mem_flatMap.mpr ⟨e, hm, List.mem_map.mpr ⟨d, hd, rfl⟩⟩)

/-- finished list, most recent first: every successor of an entry was finished before it -/
def Topo (E : Edges) : List Nat → Prop
  | [] => True
  | x :: fin => (∀ y, Edge E x y → y ∈ fin) ∧ x ∉ fin ∧ Topo E fin

theorem topo_closed {E : Edges} : ∀ {fin : List Nat}, Topo E fin → ∀ x ∈ fin, ∀ y, Edge E x y → y ∈ fin
  | [], _, x, hx, _, _ => by cases hx
  | z :: fin, ht, x, hx, y, he => by
    rcases List.mem_cons.mp hx with rfl | hx'
    · exact List.mem_cons_of_mem _ (ht.1 y he)
    · exact List.mem_cons_of_mem _ (topo_closed ht.2.2 x hx' y he)

theorem chain_suffix {E : Edges} : ∀ (p q : List Nat), Chain E (p ++ q) → Chain E q
  | [], _, h => h
  | [a], q, h => by
    cases q with
    | nil => simp [Chain]
    | cons b q => exact h.2
  | a :: b :: p, q, h => chain_suffix (b :: p) q h.2

/-- following recorded edges from a member of a successor-closed set never leaves the set -/
theorem chain_stays {E : Edges} {S : List Nat} (hS : ∀ x ∈ S, ∀ y, Edge E x y → y ∈ S) :
    ∀ (l : List Nat) (a : Nat), Chain E (a :: l) → a ∈ S → ∀ z ∈ l, z ∈ S
  | [], _, _, _, z, hz => by cases hz
  | b :: l, a, hc, ha, z, hz => by
    have hb : b ∈ S := hS a ha b hc.1
    rcases List.mem_cons.mp hz with rfl | hz'
    · exact hb
    · exact chain_stays hS l b hc.2 hb z hz'

/-- a cycle through `x`, all of whose successors lie in a successor-closed set, brings `x` itself into the set -/
theorem cycle_returns {E : Edges} {S : List Nat} (hS : ∀ x ∈ S, ∀ y, Edge E x y → y ∈ S) {c : List Nat}
    (hc : IsCycle E c) {x : Nat} (hx : x ∈ c) (hsucc : ∀ y, Edge E x y → y ∈ S) : x ∈ S := by
  obtain ⟨h, hh, hch⟩ := hc
  obtain ⟨pre, post, rfl⟩ := List.append_of_mem hx
  -- the part of the closed walk from x to the end (which is the head of the cycle)
  have h1 : Chain E (x :: (post ++ [h])) := by
    have := chain_suffix pre (x :: post ++ [h]) (by simpa using hch)
    simpa using this
  have hhS : h ∈ S := by
    cases hp : post ++ [h] with
    | nil => simp at hp
    | cons y rest =>
      rw [hp] at h1
      have hy : y ∈ S := hsucc y h1.1
      have hmem : h ∈ y :: rest := by rw [← hp]; simp
      rcases List.mem_cons.mp hmem with rfl | hr
      · exact hy
      · exact chain_stays hS rest y h1.2 hy h hr
  cases pre with
  | nil =>
    simp at hh
    rw [hh]; exact hhS
  | cons p pre' =>
    simp at hh
    subst hh
    have h2 : Chain E (p :: (pre' ++ x :: post ++ [p])) := by simpa using hch
    exact chain_stays hS _ p h2 hhS x (by simp)

/-- a topologically ordered finished list contains no cycle -/
theorem topo_no_cycle {E : Edges} : ∀ {fin : List Nat}, Topo E fin → ∀ c, IsCycle E c → (∀ a ∈ c, a ∈ fin) → False
  | [], _, c, hc, hall => by
    obtain ⟨b, hb, _⟩ := hc
    cases c with
    | nil => simp at hb
    | cons a _ => exact absurd (hall a (by simp)) (by simp)
  | x :: fin, ht, c, hc, hall => by
    by_cases hx : x ∈ c
    · exact ht.2.1 (cycle_returns (topo_closed ht.2.2) hc hx ht.1)
    · refine topo_no_cycle ht.2.2 c hc (fun a ha => ?_)
      rcases List.mem_cons.mp (hall a ha) with rfl | h
      · exact absurd ha hx
      · exact h

/-- the state of the search: `visited` = stack ∪ finished, disjointly; the stack is a duplicate-free list of nodes -/
structure DInv (E : Edges) (visited path fin : List Nat) : Prop where
  nodup : path.Nodup
  sub : ∀ x ∈ path, x ∈ nodesOf E
  vis : ∀ x, x ∈ visited ↔ x ∈ path ∨ x ∈ fin
  disj : ∀ x ∈ path, x ∉ fin
  topo : Topo E fin

theorem dfsSuccs_complete (E : Edges) (rec : Nat → List Nat → List Nat → Option (List Nat) × List Nat)
    (path : List Nat)
    (hrec : ∀ (b : Nat) (visited fin v' : List Nat), DInv E visited (path ++ [b]) fin →
      rec b visited (path ++ [b]) = (none, v') →
      ∃ fin', DInv E v' path fin' ∧ (∃ new, fin' = new ++ fin) ∧ b ∈ fin') :
    ∀ (bs visited fin v' : List Nat), DInv E visited path fin → (∀ b ∈ bs, b ∈ nodesOf E) →
      dfsSuccs rec bs visited path = (none, v') →
      ∃ fin', DInv E v' path fin' ∧ (∃ new, fin' = new ++ fin) ∧ ∀ b ∈ bs, b ∈ fin'
  | [], visited, fin, v', hinv, _, h => by
    simp only [dfsSuccs, Prod.mk.injEq, true_and] at h
    subst h
    exact ⟨fin, hinv, ⟨[], rfl⟩, fun b hb => by cases hb⟩
  | b :: bs, visited, fin, v', hinv, hnodes, h => by
    have hbn : b ∈ nodesOf E := hnodes b (by simp)
    have hrest : ∀ x ∈ bs, x ∈ nodesOf E := fun x hx => hnodes x (by simp [hx])
    simp only [dfsSuccs] at h
    split at h
    · rename_i hbv
      have hbp : b ∉ path := fun hp => hbv ((hinv.vis b).mpr (Or.inl hp))
      have hbf : b ∉ fin := fun hf => hbv ((hinv.vis b).mpr (Or.inr hf))
      have hinv' : DInv E (b :: visited) (path ++ [b]) fin := by
        refine ⟨?_, ?_, ?_, ?_, hinv.topo⟩
        · rw [List.nodup_append]
          refine ⟨hinv.nodup, by simp, ?_⟩
          intro a ha c hc
          simp only [List.mem_singleton] at hc
          subst hc
          rintro rfl
          exact hbp ha
        · intro x hx
          rcases List.mem_append.mp hx with h' | h'
          · exact hinv.sub x h'
          · simp only [List.mem_singleton] at h'; subst h'; exact hbn
        · intro x
          have := hinv.vis x
          simp only [List.mem_cons, List.mem_append, List.mem_singleton, List.not_mem_nil, or_false]
          grind
        · intro x hx
          rcases List.mem_append.mp hx with h' | h'
          · exact hinv.disj x h'
          · simp only [List.mem_singleton] at h'; subst h'; exact hbf
      split at h
      · simp at h
      · rename_i v1 heq
        obtain ⟨fin1, hinv1, ⟨new1, hn1⟩, hb1⟩ := hrec b (b :: visited) fin v1 hinv' heq
        obtain ⟨fin2, hinv2, ⟨new2, hn2⟩, hall⟩ := dfsSuccs_complete E rec path hrec bs v1 fin1 v' hinv1 hrest h
        refine ⟨fin2, hinv2, ⟨new2 ++ new1, by rw [hn2, hn1, List.append_assoc]⟩, ?_⟩
        intro x hx
        rcases List.mem_cons.mp hx with rfl | hx'
        · rw [hn2]; exact List.mem_append_right _ hb1
        · exact hall x hx'
    · rename_i hbv
      have hbv' : b ∈ visited := by simpa using hbv
      split at h
      · simp at h
      · rename_i hbp
        have hbf : b ∈ fin := by
          rcases (hinv.vis b).mp hbv' with h' | h'
          · exact absurd h' hbp
          · exact h'
        obtain ⟨fin2, hinv2, ⟨new2, hn2⟩, hall⟩ := dfsSuccs_complete E rec path hrec bs visited fin v' hinv hrest h
        refine ⟨fin2, hinv2, ⟨new2, hn2⟩, ?_⟩
        intro x hx
        rcases List.mem_cons.mp hx with rfl | hx'
        · rw [hn2]; exact List.mem_append_right _ hbf
        · exact hall x hx'

theorem dfs_complete (E : Edges) : ∀ (fuel node : Nat) (visited pre fin v' : List Nat),
    DInv E visited (pre ++ [node]) fin → (nodesOf E).length + 1 ≤ (pre.length + 1) + fuel →
    dfs E fuel node visited (pre ++ [node]) = (none, v') →
    ∃ fin', DInv E v' pre fin' ∧ (∃ new, fin' = new ++ fin) ∧ node ∈ fin'
  | 0, node, visited, pre, fin, v', hinv, hfuel, _ => by
    exfalso
    have := List.Nodup.length_le_of_subset hinv.nodup (fun x hx => hinv.sub x hx)
    simp only [List.length_append, List.length_singleton] at this
    omega
  | fuel + 1, node, visited, pre, fin, v', hinv, hfuel, h => by
    simp only [dfs] at h
    have hnodes : ∀ b ∈ nexts E node, b ∈ nodesOf E := fun b hb => (edge_nodes (E := E) (a := node) hb).2
    obtain ⟨fin2, hinv2, ⟨new2, hn2⟩, hall⟩ :=
      dfsSuccs_complete E (fun b v p => dfs E fuel b v p) (pre ++ [node])
        (fun b vis f v1 hi he => dfs_complete E fuel b vis (pre ++ [node]) f v1 hi
          (by simp only [List.length_append, List.length_singleton]; omega) he)
        (nexts E node) visited fin v' hinv hnodes h
    have hnp : node ∈ pre ++ [node] := by simp
    have hnd := List.nodup_append.mp hinv2.nodup
    refine ⟨node :: fin2, ⟨hnd.1, fun x hx => hinv2.sub x (List.mem_append_left _ hx), ?_, ?_, ?_⟩,
      ⟨node :: new2, by rw [hn2]; rfl⟩, by simp⟩
    · intro x
      have := hinv2.vis x
      simp only [List.mem_append, List.mem_singleton, List.mem_cons, List.not_mem_nil, or_false] at this ⊢
      grind
    · intro x hx
      simp only [List.mem_cons, not_or]
      refine ⟨?_, hinv2.disj x (List.mem_append_left _ hx)⟩
      rintro rfl
      exact hnd.2.2 x hx x (by simp) rfl
    · exact ⟨fun y hy => hall y hy, hinv2.disj node hnp, hinv2.topo⟩

theorem detectFrom_complete (E : Edges) (fuel : Nat) (hfuel : (nodesOf E).length ≤ fuel) :
    ∀ (ns visited fin : List Nat), DInv E visited [] fin → (∀ n ∈ ns, n ∈ nodesOf E) →
      detectFrom E fuel ns visited = none →
      ∃ fin', Topo E fin' ∧ (∀ n ∈ ns, n ∈ fin') ∧ ∀ x ∈ fin, x ∈ fin'
  | [], _, fin, hinv, _, _ => ⟨fin, hinv.topo, fun n hn => (by cases hn), fun x hx => hx⟩
  | m :: ms, visited, fin, hinv, hnodes, h => by
    have hrest : ∀ x ∈ ms, x ∈ nodesOf E := fun x hx => hnodes x (by simp [hx])
    simp only [detectFrom] at h
    split at h
    · rename_i hmv
      have hmf : m ∈ fin := by
        rcases (hinv.vis m).mp hmv with h' | h'
        · cases h'
        · exact h'
      obtain ⟨fin', ht, hall, hmono⟩ := detectFrom_complete E fuel hfuel ms visited fin hinv hrest h
      exact ⟨fin', ht, fun x hx => by
        rcases List.mem_cons.mp hx with rfl | hx'
        · exact hmono _ hmf
        · exact hall x hx', hmono⟩
    · rename_i hmv
      split at h
      · simp at h
      · rename_i v1 heq
        have hinv' : DInv E (m :: visited) ([] ++ [m]) fin := by
          refine ⟨by simp, ?_, ?_, ?_, hinv.topo⟩
          · intro x hx; simp at hx; subst hx; exact hnodes _ (by simp)
          · intro x
            simp only [List.mem_cons, List.nil_append, List.mem_singleton]
            rw [hinv.vis x]; simp
          · intro x hx
            simp at hx; subst hx
            intro hf; exact hmv ((hinv.vis _).mpr (Or.inr hf))
        obtain ⟨fin1, hinv1, ⟨new1, hn1⟩, hm1⟩ :=
          dfs_complete E fuel m (m :: visited) [] fin v1 hinv' (by simp; omega) heq
        obtain ⟨fin', ht, hall, hmono⟩ := detectFrom_complete E fuel hfuel ms v1 fin1 hinv1 hrest h
        exact ⟨fin', ht, fun x hx => by
          rcases List.mem_cons.mp hx with rfl | hx'
          · exact hmono _ hm1
          · exact hall x hx', fun x hx => hmono x (by rw [hn1]; exact List.mem_append_right _ hx)⟩

/-- **Completeness**: when `detect_cycle` reports nothing, the recorded graph has no cycle. -/
theorem detectCycle_complete (E : Edges) (h : detectCycle E = none) (c : List Nat) : ¬ IsCycle E c := by
  intro hc
  unfold detectCycle at h
  have hfuel : (nodesOf E).length ≤ dfsFuel E := by have := nodesOf_length E; omega
  have hinv0 : DInv E [] [] [] :=
    ⟨List.nodup_nil, fun x hx => (by cases hx), fun x => (by simp), fun x hx => (by cases hx), trivial⟩
  obtain ⟨fin, ht, hall, _⟩ := detectFrom_complete E (dfsFuel E) hfuel (E.map (·.1)) [] [] hinv0
    (fun n hn => by unfold nodesOf; exact List.mem_append_left _ hn) h
  refine topo_no_cycle ht c hc (fun a ha => ?_)
  obtain ⟨b, hb⟩ := isCycle_mem_edge hc ha
  exact hall a (edge_nodes hb).1

end Operon.Coord
