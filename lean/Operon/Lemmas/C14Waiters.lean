import Operon.Lemmas.C14Sorted
/-! Whoever is in a waiting list is a listed operation, in every state reachable by controller and life-cycle calls (C14:
    discharges the `hnotwaiting` hypothesis of `c14_unobtained_untouched` for an id that is not active). -/
namespace Operon.Coord

theorem mem_foldl_insDesc : ∀ (l acc : List (Nat × Int)) {e : Nat × Int},
    e ∈ l.foldl (fun acc x => insDesc x acc) acc → e ∈ acc ∨ e ∈ l
  | [], _, _, h => Or.inl h
  | x :: xs, acc, e, h => by
    simp only [List.foldl_cons] at h
    rcases mem_foldl_insDesc xs (insDesc x acc) h with h | h
    · rcases mem_insDesc h with h | h
      · exact Or.inr (h ▸ List.mem_cons_self)
      · exact Or.inl h
    · exact Or.inr (List.mem_cons_of_mem _ h)

theorem mem_addWaiting {w : List (Nat × Int)} {o : Nat} {p : Int} {e : Nat × Int} (h : e ∈ addWaiting w o p) :
    e ∈ w ∨ e = (o, p) := by
  unfold addWaiting sortDesc at h
  rcases mem_foldl_insDesc _ [] h with h | h
  · cases h
  · simp only [List.mem_append, List.mem_filter, List.mem_singleton] at h
    rcases h with h | h
    · exact Or.inl h.1
    · exact Or.inr h

/-- whoever is in a waiting list is a listed operation -/
def WaitersListed (s : Sys) : Prop := ∀ r l, s.locks r = some l → ∀ e ∈ l.waiting, Listed s e.1

theorem mem_tryAcquire_waiting {l : Lock} {o : Nat} {p : Int} {e : Nat × Int} (h : e ∈ (l.tryAcquire o p).1.waiting) :
    e ∈ l.waiting ∨ e.1 = o ∨ l.owner = some e.1 := by
  unfold Lock.tryAcquire at h
  split at h
  · exact Or.inl h
  · rename_i old hold
    split at h
    · exact Or.inl h
    · split at h
      · rcases mem_addWaiting h with h | h
        · exact Or.inl h
        · exact Or.inr (Or.inr (by rw [h]; exact hold))
      · rcases mem_addWaiting h with h | h
        · exact Or.inl h
        · exact Or.inr (Or.inl (by rw [h]))

theorem listed_of_active_ids {s s' : Sys} (h : s'.active.map (·.id) = s.active.map (·.id)) {o : Nat} :
    Listed s' o ↔ Listed s o :=
  ⟨fun hl => listed_of_ids h.symm hl, fun hl => listed_of_ids h hl⟩

theorem touch_ids {s s' : Sys} {c c' : Ctx} (ht : TouchOnly s c s' c') : s'.active.map (·.id) = s.active.map (·.id) := by
  rcases ht.active with h | h
  · rw [h]
  · rw [h]; exact setCtx_ids s c'

theorem waitersListed_acquire {s : Sys} {c : Ctx} (hc : c ∈ s.active) (hk : ∀ op, Kinv s op) (hw : WaitersListed s)
    (r : Nat) : WaitersListed (acquire s c r).1 := by
  have hids := touch_ids (touch_acquire s c r)
  intro x lx hx e he
  rw [listed_of_active_ids hids]
  cases hl : s.locks r with
  | none => rw [acquire_unknown hl] at hx; exact hw x lx hx e he
  | some l =>
    have key : ∀ l', (x = r → lx = l') → (∀ e ∈ l'.waiting, e ∈ l.waiting ∨ e.1 = c.id ∨ l.owner = some e.1) →
        (x ≠ r → s.locks x = some lx) → Listed s e.1 := by
      intro l' h1 h2 h3
      by_cases hxr : x = r
      · rw [h1 hxr] at he
        rcases h2 e he with h | h | h
        · exact hw r l hl e h
        · exact ⟨c, hc, h.symm⟩
        · exact listed_of_owns (hk e.1) ⟨l, hl, h⟩
      · exact hw x lx (h3 hxr) e he
    by_cases hres : (l.tryAcquire c.id c.prio).2 = .blocked
    · rw [acquire_blocked hl hres] at hx
      simp only [Sys.setLock] at hx
      refine key { l with waiting := addWaiting l.waiting c.id c.prio } ?_ ?_ ?_
      · intro hxr; rw [if_pos hxr] at hx; exact (Option.some.inj hx).symm
      · intro e he
        rcases mem_addWaiting he with h | h
        · exact Or.inl h
        · exact Or.inr (Or.inl (by rw [h]))
      · intro hxr; rw [if_neg hxr] at hx; exact hx
    · rw [acquire_ok hl hres] at hx
      simp only [Sys.setCtx, Sys.setLock] at hx
      refine key (l.tryAcquire c.id c.prio).1 ?_ (fun e he => mem_tryAcquire_waiting he) ?_
      · intro hxr; rw [if_pos hxr] at hx; exact (Option.some.inj hx).symm
      · intro hxr; rw [if_neg hxr] at hx; exact hx

theorem waitersListed_release {s : Sys} (hw : WaitersListed s) (c : Ctx) (r : Nat) : WaitersListed (release s c r).1 := by
  have hids := touch_ids (touch_release s c r)
  intro x lx hx e he
  rw [listed_of_active_ids hids]
  by_cases hh : r ∈ c.acquired ∧ Owns s c.id r
  · obtain ⟨hr, l, hl, ho⟩ := hh
    have key : ∀ l' : Lock, l'.waiting = l.waiting → (x = r → lx = l') → (x ≠ r → s.locks x = some lx) → Listed s e.1 := by
      intro l' hwq h1 h3
      by_cases hxr : x = r
      · rw [h1 hxr, hwq] at he; exact hw r l hl e he
      · exact hw x lx (h3 hxr) e he
    by_cases h1 : l.hold ≤ 1
    · rw [release_last hr hl ho h1] at hx
      simp only [Sys.setCtx, Sys.setLock] at hx
      refine key l.freed rfl ?_ ?_
      · intro hxr; rw [if_pos hxr] at hx; exact (Option.some.inj hx).symm
      · intro hxr; rw [if_neg hxr] at hx; exact hx
    · rw [release_more hr hl ho h1] at hx
      simp only [Sys.setCtx, Sys.setLock] at hx
      refine key { l with hold := l.hold - 1 } rfl ?_ ?_
      · intro hxr; rw [if_pos hxr] at hx; exact (Option.some.inj hx).symm
      · intro hxr; rw [if_neg hxr] at hx; exact hx
  · rw [release_not_owned hh] at hx; exact hw x lx hx e he

theorem waitersListed_releaseLoop (r : Nat) : ∀ (f : Nat) {s : Sys} (c : Ctx), WaitersListed s →
    WaitersListed (releaseLoop f s c r).1
  | 0, _, _, h => h
  | f + 1, s, c, h => by
    have h1 := waitersListed_release h c r
    unfold releaseLoop
    generalize release s c r = q at h1
    obtain ⟨s', c', b⟩ := q
    cases b with
    | false => exact h1
    | true =>
      simp only
      split
      · exact waitersListed_releaseLoop r f c' h1
      · exact h1

theorem waitersListed_releaseKeys : ∀ (ks : List Nat) {s : Sys} (c : Ctx), WaitersListed s →
    WaitersListed (releaseKeys ks s c).1
  | [], _, _, h => h
  | r :: rs, s, c, h => by
    unfold releaseKeys
    exact waitersListed_releaseKeys rs _ (waitersListed_releaseLoop r _ c h)

theorem waitersListed_finish {s : Sys} (hw : WaitersListed s) (c : Ctx) : WaitersListed (finish s c).1 := by
  have h1 : WaitersListed (releaseAll s c).1 := waitersListed_releaseKeys c.acquired c hw
  intro r l hl e he
  simp only [finish, forgetWaiter] at hl
  cases hx : (releaseAll s c).1.locks r with
  | none => rw [hx] at hl; cases hl
  | some lx =>
    rw [hx] at hl
    simp only [Option.map_some, Option.some.injEq] at hl
    subst hl
    simp only [List.mem_filter, decide_eq_true_eq] at he
    obtain ⟨c0, hc0, hid⟩ := h1 r lx hx e he.1
    refine ⟨c0, ?_, hid⟩
    simp only [finish, forgetWaiter, List.mem_filter, decide_eq_true_eq]
    exact ⟨hc0, by rw [hid]; exact he.2⟩

theorem waitersListed_start {s : Sys} (hw : WaitersListed s) (o : Nat) (p : Int) : WaitersListed (s.start o p).1 := by
  intro r l hl e he
  have hl' : s.locks r = some l := by
    unfold Sys.start at hl; simp only at hl; split at hl <;> exact hl
  exact listed_start o p (hw r l hl' e he)

theorem waitersListed_hstep {h : HSt} (hk : ∀ op, Kinv h.sys op) (hw : WaitersListed h.sys) (op : HOp) :
    WaitersListed (hstep h op).sys := by
  cases op with
  | start o p => exact waitersListed_start hw o p
  | acq o r =>
    simp only [hstep]
    cases hc : h.sys.ctx? o with
    | none => exact hw
    | some c =>
      have t := waitersListed_acquire (ctx?_some hc).1 hk hw r
      simp only
      generalize acquire h.sys c r = q at t ⊢
      obtain ⟨s', c', res⟩ := q
      cases res with
      | none => exact t
      | some lr => cases lr <;> exact t
  | rel o r =>
    simp only [hstep]
    cases hc : h.sys.ctx? o with
    | none => exact hw
    | some c => exact waitersListed_release hw c r
  | finish o =>
    simp only [hstep]
    cases hc : h.sys.ctx? o with
    | none => exact hw
    | some c => exact waitersListed_finish hw c

theorem waitersListed_lifeSame {s s' : Sys} (h : LifeSame s s') (hw : WaitersListed s) : WaitersListed s' := by
  intro r l hl e he
  rw [h.locks] at hl
  exact listed_of_ids h.ids (hw r l hl e he)

/-- along every history of controller and life-cycle calls: every listed context tracks what its operation owns, the
    recorded edges join listed operations, and whoever is in a waiting list is a listed operation -/
theorem invariants_xrun : ∀ (ops : List XOp) {h : HSt}, (∀ op, Kinv h.sys op) → EdgesLive h.sys → WaitersListed h.sys →
    XFreshStarts h ops →
    (∀ op, Kinv (xrun h ops).sys op) ∧ EdgesLive (xrun h ops).sys ∧ WaitersListed (xrun h ops).sys
  | [], _, hk, hl, hw, _ => ⟨hk, hl, hw⟩
  | .ctl op :: ops, h, hk, hl, hw, hf => by
    unfold xrun
    simp only [List.foldl_cons]
    exact invariants_xrun ops (kinv_step hk op hf.1) (edgesLive_step hk hl op) (waitersListed_hstep hk hw op) hf.2
  | .life l :: ops, h, hk, hl, hw, hf => by
    unfold xrun
    simp only [List.foldl_cons]
    exact invariants_xrun ops (h := { h with sys := lstep h.sys l }) (fun op => kinv_lstep (hk op) l)
      (edgesLive_lifeSame (lifeSame_lstep h.sys l) hl) (waitersListed_lifeSame (lifeSame_lstep h.sys l) hw) hf

/-- an id that is not listed is in no waiting list -/
theorem not_waiting_of_unlisted {s : Sys} (hw : WaitersListed s) {op : Nat} (hf : s.ctx? op = none) :
    ∀ r l, s.locks r = some l → ∀ e ∈ l.waiting, e.1 ≠ op := by
  intro r l hl e he heq
  obtain ⟨c, hc, hid⟩ := hw r l hl e he
  exact ctx?_none hf c hc (hid.trans heq)

end Operon.Coord
