import Operon.Model.Lock
/-!
  Reduction (serializability) and deadlock-freedom for the flat locking discipline.

  `reduction`: every interleaved execution of well-locked threads, once its in-progress regions are completed,
  is an execution of the ATOMIC semantics — however the regions are cut into lines and however the lines
  interleave.  `deadlock_free`: a well-locked configuration that is not final can always step.
-/
namespace Operon.Lock

variable {L τ : Type}

structure Inv (c : Cfg L τ) : Prop where
  flat : ∀ t ∈ c.threads, Flat t.held t.prog
  excl : Excl c.threads

theorem flat_of_flatB : ∀ (h : Option Nat) (p : List (Instr L τ)), flatB h p = true → Flat h p
  | none, [], _ => trivial
  | some _, [], h => by simp [flatB] at h
  | none, .acq k :: rest, h => by simpa [Flat] using flat_of_flatB (some k) rest (by simpa [flatB] using h)
  | some _, .acq _ :: _, h => by simp [flatB] at h
  | none, .rel _ :: _, h => by simp [flatB] at h
  | some k, .rel k' :: rest, h => by
      simp [flatB] at h
      exact ⟨h.1, flat_of_flatB none rest h.2⟩
  | none, .upd _ _ :: _, h => by simp [flatB] at h
  | some k, .upd k' _ :: rest, h => by
      simp [flatB] at h
      exact ⟨h.1, flat_of_flatB (some k) rest h.2⟩

theorem absAt_noholder (ts : List (Thread L τ)) (j : Nat) (x : τ)
    (h : ∀ u ∈ ts, u.held ≠ some j) : absAt ts j x = x := by
  induction ts generalizing x with
  | nil => rfl
  | cons t ts ih =>
    have ht : t.held ≠ some j := h t (by simp)
    simp only [absAt, ht, if_false]
    exact ih x (fun u hu => h u (by simp [hu]))

theorem absAt_append (pre post : List (Thread L τ)) (j : Nat) (x : τ) :
    absAt (pre ++ post) j x = absAt post j (absAt pre j x) := by
  induction pre generalizing x with
  | nil => rfl
  | cons t ts ih => simp only [List.cons_append, absAt]; exact ih _

theorem absAt_mid (pre post : List (Thread L τ)) (t : Thread L τ) (j : Nat) (x : τ)
    (h : ∀ u ∈ pre ++ post, u.held ≠ some j) :
    absAt (pre ++ t :: post) j x = (if t.held = some j then (finish t.prog t.loc x).2.2 else x) := by
  rw [absAt_append]
  have hpre : absAt pre j x = x := absAt_noholder pre j x (fun u hu => h u (by simp [hu]))
  rw [hpre]
  simp only [absAt]
  exact absAt_noholder post j _ (fun u hu => h u (by simp [hu]))

/-- replacing the middle thread by one with the same `held`-relevance for `j` -/
theorem absAt_mid_other (pre post : List (Thread L τ)) (t t' : Thread L τ) (j : Nat) (x : τ)
    (ht : t.held ≠ some j) (ht' : t'.held ≠ some j) :
    absAt (pre ++ t :: post) j x = absAt (pre ++ t' :: post) j x := by
  rw [absAt_append, absAt_append]
  simp only [absAt, ht, ht', if_false]

theorem excl_mid {pre post : List (Thread L τ)} {t : Thread L τ} {k : Nat}
    (h : Excl (pre ++ t :: post)) (hk : t.held = some k) : ∀ u ∈ pre ++ post, u.held ≠ some k := by
  intro u hu
  rw [Excl, List.pairwise_append] at h
  obtain ⟨_, hpost, hcross⟩ := h
  rw [List.pairwise_cons] at hpost
  rcases List.mem_append.mp hu with hu | hu
  · intro huk
    exact hcross u hu t (by simp) k huk hk
  · exact hpost.1 u hu k hk

theorem excl_replace {pre post : List (Thread L τ)} {t t' : Thread L τ}
    (h : Excl (pre ++ t :: post))
    (hnew : ∀ k, t'.held = some k → ∀ u ∈ pre ++ post, u.held ≠ some k) :
    Excl (pre ++ t' :: post) := by
  rw [Excl, List.pairwise_append] at h ⊢
  obtain ⟨hpre, hpost, hcross⟩ := h
  rw [List.pairwise_cons] at hpost ⊢
  refine ⟨hpre, ⟨?_, hpost.2⟩, ?_⟩
  · intro u hu k hk
    exact hnew k hk u (by simp [hu])
  · intro a ha b hb k hak
    rcases List.mem_cons.mp hb with rfl | hb
    · intro hbk
      exact hnew k hbk a (by simp [ha]) hak
    · exact hcross a ha b (by simp [hb]) k hak

theorem flat_replace {pre post : List (Thread L τ)} {t t' : Thread L τ}
    (h : ∀ u ∈ pre ++ t :: post, Flat u.held u.prog) (ht' : Flat t'.held t'.prog) :
    ∀ u ∈ pre ++ t' :: post, Flat u.held u.prog := by
  intro u hu
  simp only [List.mem_append, List.mem_cons] at hu
  rcases hu with hu | rfl | hu
  · exact h u (by simp [hu])
  · exact ht'
  · exact h u (by simp [hu])

theorem step_inv {c c' : Cfg L τ} (hi : Inv c) (hs : Step c c') : Inv c' := by
  cases hs with
  | @acq st pre post k rest l hfree =>
    obtain ⟨hflat, hexcl⟩ := hi
    refine ⟨flat_replace hflat ?_, excl_replace hexcl ?_⟩
    · have := hflat ⟨.acq k :: rest, none, l⟩ (by simp)
      simpa [Flat] using this
    · intro k' hk'
      simp only [Option.some.injEq] at hk'
      subst hk'; exact hfree
  | @rel st pre post k rest l =>
    obtain ⟨hflat, hexcl⟩ := hi
    refine ⟨flat_replace hflat ?_, excl_replace hexcl ?_⟩
    · have := hflat ⟨.rel k :: rest, some k, l⟩ (by simp)
      simp [Flat] at this; exact this
    · intro k' hk'; simp at hk'
  | @upd st pre post k f rest l =>
    obtain ⟨hflat, hexcl⟩ := hi
    have hnoh := excl_mid hexcl (t := ⟨.upd k f :: rest, some k, l⟩) rfl
    refine ⟨flat_replace hflat ?_, excl_replace hexcl ?_⟩
    · have := hflat ⟨.upd k f :: rest, some k, l⟩ (by simp)
      simp [Flat] at this; exact this
    · intro k' hk'
      simp only [Option.some.injEq] at hk'
      subst hk'; exact hnoh

theorem map_absThread_congr (st st' : Nat → τ) (ts : List (Thread L τ))
    (h : ∀ t ∈ ts, ∀ k, t.held = some k → st k = st' k) :
    ts.map (absThread st) = ts.map (absThread st') := by
  apply List.map_congr_left
  intro t ht
  unfold absThread
  cases hh : t.held with
  | none => rfl
  | some k => simp only [h t ht k hh]

/-- Each line step either leaves the completed configuration unchanged, or is one atomic region step of it. -/
theorem step_abs {c c' : Cfg L τ} (hi : Inv c) (hs : Step c c') :
    c'.abs = c.abs ∨ AStep c.abs c'.abs := by
  cases hs with
  | @acq st pre post k rest l hfree =>
    right
    have hk : absAt (pre ++ ⟨.acq k :: rest, none, l⟩ :: post) k (st k) = st k :=
      absAt_noholder _ k _ (by
        intro u hu
        simp only [List.mem_append, List.mem_cons] at hu
        rcases hu with hu | rfl | hu
        · exact hfree u (by simp [hu])
        · simp
        · exact hfree u (by simp [hu]))
    have key : (Cfg.abs ⟨st, pre ++ ⟨rest, some k, l⟩ :: post⟩ : Cfg L τ) =
        ⟨upd1 (fun j => absAt (pre ++ ⟨.acq k :: rest, none, l⟩ :: post) j (st j)) k
            (finish rest l (absAt (pre ++ ⟨.acq k :: rest, none, l⟩ :: post) k (st k))).2.2,
         pre.map (absThread st) ++
           ⟨(finish rest l (absAt (pre ++ ⟨.acq k :: rest, none, l⟩ :: post) k (st k))).1, none,
            (finish rest l (absAt (pre ++ ⟨.acq k :: rest, none, l⟩ :: post) k (st k))).2.1⟩ ::
           post.map (absThread st)⟩ := by
      rw [hk]
      simp only [Cfg.abs, List.map_append, List.map_cons, Cfg.mk.injEq]
      constructor
      · funext j
        by_cases hj : j = k
        · subst hj
          rw [absAt_mid pre post _ j _ hfree]
          simp [upd1]
        · simp only [upd1, hj, if_false]
          apply absAt_mid_other
          · simp; exact fun h => hj h.symm
          · simp
      · simp [absThread]
    rw [key]
    have : (Cfg.abs ⟨st, pre ++ ⟨.acq k :: rest, none, l⟩ :: post⟩ : Cfg L τ) =
        ⟨fun j => absAt (pre ++ ⟨.acq k :: rest, none, l⟩ :: post) j (st j),
         pre.map (absThread st) ++ ⟨.acq k :: rest, none, l⟩ :: post.map (absThread st)⟩ := by
      simp [Cfg.abs, absThread]
    rw [this]
    exact AStep.region
  | @rel st pre post k rest l =>
    left
    obtain ⟨hflat, hexcl⟩ := hi
    have hnoh := excl_mid hexcl (t := ⟨.rel k :: rest, some k, l⟩) rfl
    simp only [Cfg.abs, List.map_append, List.map_cons, Cfg.mk.injEq]
    constructor
    · funext j
      by_cases hj : j = k
      · subst hj
        rw [absAt_mid pre post _ j _ hnoh, absAt_mid pre post _ j _ hnoh]
        simp [finish]
      · apply absAt_mid_other
        · simp
        · simp; exact fun h => hj h.symm
    · simp [absThread, finish]
  | @upd st pre post k f rest l =>
    left
    obtain ⟨hflat, hexcl⟩ := hi
    have hnoh := excl_mid hexcl (t := ⟨.upd k f :: rest, some k, l⟩) rfl
    simp only [Cfg.abs, List.map_append, List.map_cons, Cfg.mk.injEq]
    constructor
    · funext j
      by_cases hj : j = k
      · subst hj
        rw [absAt_mid pre post _ j _ hnoh, absAt_mid pre post _ j _ hnoh]
        simp [finish, upd1]
      · simp only [upd1, hj, if_false]
        apply absAt_mid_other
        · simp; exact fun h => hj h.symm
        · simp; exact fun h => hj h.symm
    · have hcong : ∀ ts : List (Thread L τ), (∀ t ∈ ts, t ∈ pre ++ post) →
          ts.map (absThread (upd1 st k (f l (st k)).2)) = ts.map (absThread st) := by
        intro ts hts
        apply map_absThread_congr
        intro t ht k' hk'
        have : k' ≠ k := by
          intro h; subst h; exact hnoh t (hts t ht) hk'
        simp [upd1, this]
      rw [hcong pre (by intro t ht; simp [ht]), hcong post (by intro t ht; simp [ht])]
      simp [absThread, finish, upd1]

theorem abs_quiescent (c : Cfg L τ) (hq : c.quiescent) : c.abs = c := by
  obtain ⟨st, ts⟩ := c
  simp only [Cfg.abs, Cfg.mk.injEq]
  constructor
  · funext j
    exact absAt_noholder ts j _ (fun u hu => by rw [hq u hu]; simp)
  · have : ∀ t ∈ ts, absThread st t = t := by
      intro t ht; unfold absThread; rw [hq t ht]
    rw [List.map_congr_left this]; simp

theorem inv_init (c0 : Cfg L τ) (hflat : ∀ t ∈ c0.threads, Flat t.held t.prog) (hq : c0.quiescent) : Inv c0 := by
  refine ⟨hflat, ?_⟩
  rw [Excl, List.pairwise_iff_forall_sublist]
  intro a b hab k hak
  have : a ∈ c0.threads := hab.subset (by simp)
  rw [hq a this] at hak; cases hak

theorem star_inv {c0 c : Cfg L τ} (hi : Inv c0) (hs : Star Step c0 c) : Inv c := by
  induction hs with
  | refl => exact hi
  | tail _ hstep ih => exact step_inv ih hstep

/-- **Reduction.**  Every interleaved execution (lines of different threads in any order) of well-locked threads
    started with no lock held reaches a configuration whose completion is reachable by ATOMIC region steps;
    at quiescence (no lock held — in particular at the end) the configuration itself — shared state, every
    thread's local state (its return values) and remaining program — is reachable atomically. -/
theorem reduction (c0 c : Cfg L τ) (hflat : ∀ t ∈ c0.threads, Flat t.held t.prog) (hq0 : c0.quiescent)
    (hs : Star Step c0 c) : Star AStep c0 c.abs := by
  have hi0 := inv_init c0 hflat hq0
  induction hs with
  | refl => rw [abs_quiescent c0 hq0]; exact Star.refl _
  | @tail b c' hsb hstep ih =>
    have hib := star_inv hi0 hsb
    rcases step_abs hib hstep with h | h
    · rw [h]; exact ih
    · exact Star.tail ih h

theorem serializable (c0 c : Cfg L τ) (hflat : ∀ t ∈ c0.threads, Flat t.held t.prog) (hq0 : c0.quiescent)
    (hs : Star Step c0 c) (hq : c.quiescent) : Star AStep c0 c := by
  have := reduction c0 c hflat hq0 hs
  rwa [abs_quiescent c hq] at this

/-- **Deadlock freedom.**  A well-locked configuration in which some thread still has work can step. -/
theorem deadlock_free (c : Cfg L τ) (hi : Inv c) (hnf : ¬ c.final) : ∃ c', Step c c' := by
  classical
  obtain ⟨st, ts⟩ := c
  obtain ⟨t, h⟩ := Classical.not_forall.mp hnf
  obtain ⟨ht, hne⟩ := Classical.not_imp.mp h
  -- the thread that actually moves: `t` itself, or the holder of the lock `t` waits for
  have mover : ∀ u ∈ ts, (∃ k, u.held = some k) → ∃ c', Step ⟨st, ts⟩ c' := by
    intro u hu ⟨k, hk⟩
    obtain ⟨pre, post, rfl⟩ := List.append_of_mem hu
    have hf := hi.flat u (by simp)
    obtain ⟨prog, held, l⟩ := u
    simp only at hk; subst hk
    cases prog with
    | nil => simp [Flat] at hf
    | cons i rest =>
      cases i with
      | acq k' => simp [Flat] at hf
      | rel k' =>
        simp [Flat] at hf
        obtain ⟨rfl, _⟩ := hf
        exact ⟨_, Step.rel⟩
      | upd k' f =>
        simp [Flat] at hf
        obtain ⟨rfl, _⟩ := hf
        exact ⟨_, Step.upd⟩
  cases hh : t.held with
  | some k => exact mover t ht ⟨k, hh⟩
  | none =>
    obtain ⟨pre, post, rfl⟩ := List.append_of_mem ht
    have hf := hi.flat t (by simp)
    obtain ⟨prog, held, l⟩ := t
    simp only at hh; subst hh
    cases prog with
    | nil => exact absurd rfl hne
    | cons i rest =>
      cases i with
      | rel k' => simp [Flat] at hf
      | upd k' f => simp [Flat] at hf
      | acq k =>
        by_cases hfree : ∀ u ∈ pre ++ post, u.held ≠ some k
        · exact ⟨_, Step.acq hfree⟩
        · obtain ⟨u, h⟩ := Classical.not_forall.mp hfree
          obtain ⟨hu, hheld⟩ := Classical.not_imp.mp h
          have hk : u.held = some k := Classical.not_not.mp hheld
          refine mover u ?_ ⟨k, hk⟩
          simp only [List.mem_append, List.mem_cons] at hu ⊢
          rcases hu with hu | hu
          · exact Or.inl hu
          · exact Or.inr (Or.inr hu)

/-! ### Region level -/

theorem flat_region_tail (k : Nat) (lines : List (L → τ → L × τ)) (rest : List (Instr L τ))
    (h : Flat none rest) : Flat (some k) (lines.map (Instr.upd k) ++ .rel k :: rest) := by
  induction lines with
  | nil => exact ⟨rfl, h⟩
  | cons f fs ih => exact ⟨rfl, ih⟩

theorem flat_progOf : ∀ rs : List (Region L τ), Flat none (progOf rs)
  | [] => trivial
  | r :: rs => by
    simp only [progOf, Region.prog, List.cons_append, List.append_assoc]
    exact flat_region_tail r.k r.lines (progOf rs) (flat_progOf rs)

theorem finish_region (k : Nat) (lines : List (L → τ → L × τ)) (rest : List (Instr L τ)) (l : L) (x : τ) :
    finish (lines.map (Instr.upd k) ++ .rel k :: rest) l x = (rest, composeLines lines l x) := by
  induction lines generalizing l x with
  | nil => rfl
  | cons f fs ih => simp only [List.map_cons, List.cons_append, finish, composeLines]; exact ih _ _

theorem progOf_eq_nil {rs : List (Region L τ)} (h : progOf rs = []) : rs = [] := by
  cases rs with
  | nil => rfl
  | cons r rs => simp [progOf, Region.prog] at h

theorem progOf_cons_acq {rs : List (Region L τ)} {k : Nat} {rest : List (Instr L τ)}
    (h : progOf rs = .acq k :: rest) :
    ∃ r rs', rs = r :: rs' ∧ r.k = k ∧ rest = r.lines.map (Instr.upd r.k) ++ .rel r.k :: progOf rs' := by
  cases rs with
  | nil => simp [progOf] at h
  | cons r rs' =>
    simp only [progOf, Region.prog, List.cons_append, List.append_assoc, List.singleton_append,
      List.cons.injEq, Instr.acq.injEq] at h
    exact ⟨r, rs', rfl, h.1, h.2.symm⟩

/-- an atomic step of the instruction-level configuration of a region-level configuration is a region step -/
theorem astep_rstep (rc : RCfg L τ) (c' : Cfg L τ) (h : AStep rc.toCfg c') :
    ∃ rc', c' = rc'.toCfg ∧ RStep rc rc' := by
  obtain ⟨st, ts⟩ := rc
  generalize hc : (RCfg.toCfg ⟨st, ts⟩ : Cfg L τ) = c at h
  cases h with
  | @region st' pre post k rest l =>
    simp only [RCfg.toCfg, Cfg.mk.injEq] at hc
    obtain ⟨rfl, hts⟩ := hc
    obtain ⟨pre', mid, post', rfl, hpre, hmid, hpost⟩ : ∃ pre' mid post', ts = pre' ++ mid :: post' ∧
        pre'.map RThread.toThread = pre ∧ mid.toThread = ⟨.acq k :: rest, none, l⟩ ∧
        post'.map RThread.toThread = post := by
      rw [List.map_eq_append_iff] at hts
      obtain ⟨a, b, rfl, ha, hb⟩ := hts
      rw [List.map_eq_cons_iff] at hb
      obtain ⟨m, b', rfl, hm, hb'⟩ := hb
      exact ⟨a, m, b', rfl, ha, hm, hb'⟩
    obtain ⟨todo, loc⟩ := mid
    simp only [RThread.toThread, Thread.mk.injEq, true_and] at hmid
    obtain ⟨hprog, rfl⟩ := hmid
    obtain ⟨r, rs', rfl, rfl, rfl⟩ := progOf_cons_acq hprog
    refine ⟨⟨upd1 st r.k (r.eff loc (st r.k)).2, pre' ++ ⟨rs', (r.eff loc (st r.k)).1⟩ :: post'⟩, ?_, RStep.run⟩
    simp only [RCfg.toCfg, List.map_append, List.map_cons, hpre, hpost, RThread.toThread, finish_region,
      Region.eff]

theorem astar_rstar (rc0 : RCfg L τ) (c : Cfg L τ) (h : Star AStep rc0.toCfg c) :
    ∃ rc, c = rc.toCfg ∧ Star RStep rc0 rc := by
  induction h with
  | refl => exact ⟨rc0, rfl, Star.refl _⟩
  | tail _ hstep ih =>
    obtain ⟨rc, rfl, hs⟩ := ih
    obtain ⟨rc', rfl, hr⟩ := astep_rstep rc _ hstep
    exact ⟨rc', rfl, Star.tail hs hr⟩

theorem toCfg_quiescent (rc : RCfg L τ) : rc.toCfg.quiescent := by
  intro t ht
  simp only [RCfg.toCfg, List.mem_map] at ht
  obtain ⟨u, _, rfl⟩ := ht
  rfl

theorem toCfg_flat (rc : RCfg L τ) : ∀ t ∈ rc.toCfg.threads, Flat t.held t.prog := by
  intro t ht
  simp only [RCfg.toCfg, List.mem_map] at ht
  obtain ⟨u, _, rfl⟩ := ht
  exact flat_progOf u.todo

/-- **Serializability at region granularity.**  Threads that run critical regions (each cut into lines in any way)
    under the flat discipline: whatever the interleaving of lines, every quiescent configuration reached — in
    particular the final one — is reached by running whole regions one after the other, in some order that keeps
    each thread's own order.  Shared components, thread-local states (return values) and remaining work agree. -/
theorem serializable_regions (rc0 : RCfg L τ) (c : Cfg L τ) (hs : Star Step rc0.toCfg c) (hq : c.quiescent) :
    ∃ rc, c = rc.toCfg ∧ Star RStep rc0 rc :=
  astar_rstar rc0 c (serializable rc0.toCfg c (toCfg_flat rc0) (toCfg_quiescent rc0) hs hq)

/-- No reachable configuration of such threads is deadlocked. -/
theorem deadlock_free_regions (rc0 : RCfg L τ) (c : Cfg L τ) (hs : Star Step rc0.toCfg c) (hnf : ¬ c.final) :
    ∃ c', Step c c' :=
  deadlock_free c (star_inv (inv_init rc0.toCfg (toCfg_flat rc0) (toCfg_quiescent rc0)) hs) hnf

/-- an invariant of the region-level semantics holds in every reachable region-level configuration -/
theorem rstar_induct {P : RCfg L τ → Prop} {a b : RCfg L τ} (h0 : P a)
    (hstep : ∀ x y, P x → RStep x y → P y) (hs : Star RStep a b) : P b := by
  induction hs with
  | refl => exact h0
  | tail _ hr ih => exact hstep _ _ ih hr

end Operon.Lock
