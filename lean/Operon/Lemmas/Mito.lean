import Operon.Model.Mito
/-! Helper lemmas shared by C01 and C02: the writer monad `R`, table lookups. -/
namespace Operon.Mito

theorem lookup_mem {α β} [BEq α] [LawfulBEq α] (l : List (α × β)) (k : α) (v : β) (h : l.lookup k = some v) :
    (k, v) ∈ l := by
  induction l with
  | nil => simp [List.lookup] at h
  | cons x xs ih =>
    obtain ⟨a, b⟩ := x
    simp only [List.lookup] at h
    split at h
    · rename_i heq
      have : k = a := by simpa using heq
      subst this
      simp at h; subst h; simp
    · exact List.mem_cons_of_mem _ (ih h)

namespace R

@[simp] theorem pure_fst {α} (a : α) : (R.pure a : R α).1 = [] := rfl
@[simp] theorem pure_snd {α} (a : α) : (R.pure a : R α).2 = .ok a := rfl
@[simp] theorem fail_fst {α} (e : Err) : (R.fail e : R α).1 = [] := rfl
@[simp] theorem fail_snd {α} (e : Err) : (R.fail e : R α).2 = .error e := rfl
@[simp] theorem act_fst {α} (a : Act) (r : Except Err α) : (R.act a r : R α).1 = [a] := rfl
@[simp] theorem act_snd {α} (a : Act) (r : Except Err α) : (R.act a r : R α).2 = r := rfl

theorem failed_fail {α} (e : Err) : (R.fail e : R α).failed := ⟨e, rfl⟩

theorem not_failed_iff {α} (x : R α) : ¬ x.failed ↔ ∃ v, x.2 = .ok v := by
  obtain ⟨t, r⟩ := x
  cases r <;> simp [failed]

theorem bind_ok {α β} (t : List Act) (a : α) (f : α → R β) :
    (R.bind (t, .ok a) f) = (t ++ (f a).1, (f a).2) := rfl

theorem bind_error {α β} (t : List Act) (e : Err) (f : α → R β) :
    (R.bind (t, .error e) f) = (t, .error e) := rfl

/-- a predicate on actions that holds along `x` and along every continuation holds along `x.bind f` -/
theorem bind_all {α β} (P : Act → Prop) (x : R α) (f : α → R β)
    (hx : ∀ a ∈ x.1, P a) (hf : ∀ v, ∀ a ∈ (f v).1, P a) : ∀ a ∈ (x.bind f).1, P a := by
  obtain ⟨t, r⟩ := x
  cases r with
  | error e => simpa [R.bind] using hx
  | ok v =>
    simp only [R.bind]
    intro a ha
    rcases List.mem_append.mp ha with h | h
    · exact hx a h
    · exact hf v a h

/-- as `bind_all`; the continuation only matters on the value `x` actually produced -/
theorem bind_all' {α β} (P : Act → Prop) (x : R α) (f : α → R β)
    (hx : ∀ a ∈ x.1, P a) (hf : ∀ v, x.2 = .ok v → ∀ a ∈ (f v).1, P a) : ∀ a ∈ (x.bind f).1, P a := by
  obtain ⟨t, r⟩ := x
  cases r with
  | error e => simpa [R.bind] using hx
  | ok v =>
    simp only [R.bind]
    intro a ha
    rcases List.mem_append.mp ha with h | h
    · exact hx a h
    · exact hf v rfl a h

theorem bind_failed_left {α β} (x : R α) (f : α → R β) (h : x.failed) : (x.bind f).failed := by
  obtain ⟨t, r⟩ := x
  obtain ⟨e, he⟩ := h
  simp at he; subst he
  exact ⟨e, rfl⟩

theorem bind_failed_right {α β} (x : R α) (f : α → R β) (h : ∀ v, (f v).failed) : (x.bind f).failed := by
  obtain ⟨t, r⟩ := x
  cases r with
  | error e => exact ⟨e, rfl⟩
  | ok v => obtain ⟨e, he⟩ := h v; exact ⟨e, by simp [R.bind, he]⟩

/-- "`x` fails, or `x` and `y` are the same computation (same trace, same result)" -/
def Sim {α} (x y : R α) : Prop := x.failed ∨ x = y

theorem Sim.refl {α} (x : R α) : Sim x x := Or.inr rfl

theorem Sim.of_failed {α} {x y : R α} (h : x.failed) : Sim x y := Or.inl h

theorem Sim.bind {α β} {x y : R α} {f g : α → R β} (hx : Sim x y) (hf : ∀ v, Sim (f v) (g v)) :
    Sim (x.bind f) (y.bind g) := by
  rcases hx with hx | hx
  · exact Or.inl (bind_failed_left x f hx)
  · subst hx
    obtain ⟨t, r⟩ := x
    cases r with
    | error e => exact Or.inr rfl
    | ok v =>
      rcases hf v with h | h
      · obtain ⟨e, he⟩ := h
        exact Or.inl ⟨e, by simp [R.bind, he]⟩
      · exact Or.inr (by simp [R.bind, h])

/-- as `Sim.bind`, the continuation only has to agree on the value `x` actually produced -/
theorem Sim.bind' {α β} {x y : R α} {f g : α → R β} (hx : Sim x y) (hf : ∀ v, x.2 = .ok v → Sim (f v) (g v)) :
    Sim (x.bind f) (y.bind g) := by
  rcases hx with hx | hx
  · exact Or.inl (bind_failed_left x f hx)
  · subst hx
    obtain ⟨t, r⟩ := x
    cases r with
    | error e => exact Or.inr rfl
    | ok v =>
      rcases hf v rfl with h | h
      · obtain ⟨e, he⟩ := h
        exact Or.inl ⟨e, by simp [R.bind, he]⟩
      · exact Or.inr (by simp [R.bind, h])

@[simp] theorem pure_bind {α β} (a : α) (f : α → R β) : (R.pure a).bind f = f a := by
  simp [R.bind, R.pure]

theorem length_bind_le {α β} (x : R α) (f : α → R β) (n m : Nat) (hx : x.1.length ≤ n)
    (hf : ∀ v, (f v).1.length ≤ m) : (x.bind f).1.length ≤ n + m := by
  obtain ⟨t, r⟩ := x
  cases r with
  | error e => simp [R.bind] at *; omega
  | ok v => have := hf v; simp [R.bind] at *; omega

theorem length_bind_le' {α β} {x : R α} {f : α → R β} (n m N : Nat) (hx : x.1.length ≤ n)
    (hf : ∀ v, (f v).1.length ≤ m) (hN : n + m ≤ N) : (x.bind f).1.length ≤ N :=
  Nat.le_trans (length_bind_le x f n m hx hf) hN

end R

theorem truthyR_length (env : Env) (v : Val) : (truthyR env v).1.length ≤ 1 := by
  cases v <;> simp [truthyR]

end Operon.Mito
