import Operon.Lemmas.C14
/-! A non-preemptable lock that another operation holds is out of reach of a whole `execute_operation` call (C14):
    the guarantee a nested or overlapping operation's victim-to-be relies on. -/
namespace Operon.Coord

theorem tryAcquire_held {l : Lock} {o a : Nat} (p : Int) (ho : l.owner = some o) (hne : o ≠ a) (hp : l.preempt = false) :
    (l.tryAcquire a p).2 = .blocked := by
  unfold Lock.tryAcquire
  rw [ho]
  simp [hne, hp]

/-- attempts on a non-preemptable lock that somebody else owns are all answered BLOCKED -/
theorem acqLoop_log_held {r o : Nat} {l : Lock} (ho : l.owner = some o) (hp : l.preempt = false) :
    ∀ (req : List Nat) {s : Sys} {c : Ctx}, s.locks r = some l → o ≠ c.id →
    ∀ res, Ev.acq r (some res) ∈ (acqLoop req s c).2.2.1 → res = .blocked
  | [], _, _, _, _, res, hm => by simp [acqLoop] at hm
  | r0 :: rs, s, c, h, hne, res, hm => by
    by_cases hr : r0 = r
    · subst hr
      have hres := tryAcquire_held c.prio ho hne hp
      unfold acqLoop at hm
      rw [acquire_blocked h hres] at hm
      simp at hm
      exact hm.symm ▸ rfl
    · have hne' : r ≠ r0 := fun e => hr e.symm
      have hl1 := @acquire_lock_ne s c r0 r hne'
      have hid := acquire_id s c r0
      unfold acqLoop at hm
      generalize hq : acquire s c r0 = q at hl1 hid hm
      obtain ⟨s', c', res0⟩ := q
      simp only at hl1 hid
      have hrec : ∀ res, Ev.acq r (some res) ∈ (acqLoop rs s' c').2.2.1 → res = .blocked :=
        acqLoop_log_held ho hp rs (hl1.trans h) (by rw [hid]; exact hne)
      cases res0 with
      | none => simp at hm
      | some lr =>
        cases lr with
        | blocked => simp at hm; exact absurd hm.1 hne'
        | acquired =>
          simp at hm
          rcases hm with hm | hm
          · exact absurd hm.1 hne'
          · exact hrec res hm
        | reentrant =>
          simp at hm
          rcases hm with hm | hm
          · exact absurd hm.1 hne'
          · exact hrec res hm
        | preempted =>
          simp at hm
          rcases hm with hm | hm
          · exact absurd hm.1 hne'
          · exact hrec res hm

theorem tail_no_acq {adv : Adv} {t : List Ev} {b : Bool} (h : Tail adv t b) : ∀ e ∈ t, ∀ r res, e ≠ Ev.acq r res := by
  cases h <;> intro e he r res heq <;> subst heq <;> (try (cases hv : adv.val <;> simp [valEvs, hv] at he)) <;> simp at he


/-- the event log of `exec`: the G0 checkpoint, the log of the acquisition loop (run on the state the G0 checkpoint
    left), one of the endings -/
theorem exec_log_acqs (s : Sys) (op : Nat) (prio : Int) (req : List Nat) (adv : Adv) :
    ∃ b0 t, (exec s op prio req adv).log =
        Ev.cp 0 b0 :: (acqLoop req (advanceCb (s.start op prio).1 (s.start op prio).2 adv 0).1
          (advanceCb (s.start op prio).1 (s.start op prio).2 adv 0).2.1).2.2.1 ++ t ∧
      Tail adv t (exec s op prio req adv).success := by
  unfold exec
  simp only
  generalize advanceCb (s.start op prio).1 (s.start op prio).2 adv 0 = a0
  generalize acqLoop req a0.1 a0.2.1 = q
  refine ⟨a0.2.2, ?_⟩
  split
  · generalize advanceCb (q.1.setCtx { q.2.1 with resAcq := true }) { q.2.1 with resAcq := true } adv 1 = a1
    split
    · split
      · obtain ⟨t, h1, h2⟩ := execWork_shape a1.1 a1.2.1 adv (Ev.cp 0 a0.2.2 :: q.2.2.1 ++ [.cp 1 true])
        exact ⟨.cp 1 true :: t, by rw [h1]; simp, h2⟩
      · exact ⟨[.cp 1 true, .abort], by simp [failWith], by simpa [failWith] using Tail.ended⟩
    · exact ⟨[.cp 1 false, .abort], by simp [failWith], by simpa [failWith] using Tail.cp1⟩
  · exact ⟨[.abort], by simp [failWith], by simpa [failWith] using Tail.acqFail⟩

/-- **A non-preemptable lock that another operation holds is out of reach of the whole call**: every attempt on it is
    answered BLOCKED, and after the call it is exactly the lock it was (owner, priority, hold count, waiting list) -/
theorem held_exec (s : Sys) (op : Nat) (prio : Int) (req : List Nat) (adv : Adv) (r o : Nat) (l : Lock)
    (hl : s.locks r = some l) (ho : l.owner = some o) (hne : o ≠ op) (hp : l.preempt = false)
    (hs : SortedDesc l.waiting) (hnw : ∀ e ∈ l.waiting, e.1 ≠ op) (hso : adv.SelfOnly op) :
    (∀ res, Ev.acq r (some res) ∈ (exec s op prio req adv).log → res = .blocked) ∧
    (exec s op prio req adv).sys.locks r = some l := by
  have hf : Foreign l op := ⟨by rw [ho]; exact fun h => hne (Option.some.inj h), hs, hnw⟩
  have hnever : ∀ res, Ev.acq r (some res) ∈ (exec s op prio req adv).log → res = .blocked := by
    have hsid := start_id s op prio
    have hsl : (s.start op prio).1.locks r = some l := by unfold Sys.start; simp only; split <;> exact hl
    have hl0 := untouched_advanceCb (c := (s.start op prio).2) hf hsl adv 0 (hso.cp 0)
    have hid0 := (advanceCb_id (s.start op prio).1 (s.start op prio).2 adv 0).trans hsid
    have hheld := acqLoop_log_held ho hp req hl0 (by rw [hid0]; exact hne)
    obtain ⟨b0, t, hlog, htail⟩ := exec_log_acqs s op prio req adv
    intro res hm
    rw [hlog] at hm
    simp only [List.mem_cons, List.mem_append] at hm
    rcases hm with (hm | hm) | hm
    · cases hm
    · exact hheld res hm
    · exact absurd rfl (tail_no_acq htail _ hm r (some res))
  exact ⟨hnever, untouched_exec s op prio req adv r l hl hf hso hnever⟩

end Operon.Coord
