import Operon.Model.Tmpl
/-! Helper lemmas for C12 (core Lean only). -/
namespace Operon.Tmpl
open Operon.Ribosome

/-! ### Option view of `flatMapM` (the order in which errors surface is forgotten) -/

def flatMapO {α β : Type} (f : α → Option (List β)) : List α → Option (List β)
  | [] => some []
  | a :: r =>
    match f a, flatMapO f r with
    | some x, some y => some (x ++ y)
    | _, _ => none

theorem flatMapM_toOption {ε α β : Type} (f : α → Except ε (List β)) (ts : List α) :
    (flatMapM f ts).toOption = flatMapO (fun a => (f a).toOption) ts := by
  induction ts with
  | nil => rfl
  | cons a r ih =>
    simp only [flatMapM, flatMapO]
    rw [← ih]
    cases f a <;> cases flatMapM f r <;> rfl

theorem flatMapO_append {α β : Type} (f : α → Option (List β)) (a b : List α) :
    flatMapO f (a ++ b) =
      match flatMapO f a, flatMapO f b with
      | some x, some y => some (x ++ y)
      | _, _ => none := by
  induction a with
  | nil => simp [flatMapO]; cases flatMapO f b <;> rfl
  | cons x r ih =>
    simp only [List.cons_append, flatMapO, ih]
    cases f x <;> cases flatMapO f r <;> cases flatMapO f b <;> simp

theorem flatMapO_pure {α β : Type} (f : α → List β) (ts : List α) :
    flatMapO (fun a => some (f a)) ts = some (ts.flatMap f) := by
  induction ts with
  | nil => rfl
  | cons a r ih => simp [flatMapO, ih]

theorem flatMapO_congr {α β : Type} {f g : α → Option (List β)} {ts : List α}
    (h : ∀ t ∈ ts, f t = g t) : flatMapO f ts = flatMapO g ts := by
  induction ts with
  | nil => rfl
  | cons a r ih =>
    simp only [flatMapO]
    rw [h a (by simp), ih (fun t ht => h t (by simp [ht]))]

/-- monadic fusion: running `g` over everything `f` produced = running `f` then `g` construct by construct -/
theorem flatMapO_fuse {α β γ : Type} (f : α → Option (List β)) (g : β → Option (List γ)) (ts : List α) :
    (flatMapO f ts).bind (flatMapO g) = flatMapO (fun t => (f t).bind (flatMapO g)) ts := by
  induction ts with
  | nil => rfl
  | cons a r ih =>
    simp only [flatMapO]
    rw [← ih]
    cases hfa : f a with
    | none => simp
    | some x =>
      cases hfr : flatMapO f r with
      | none => simp
      | some y =>
        simp [flatMapO_append]

theorem flatMapO_flatMap {α β γ : Type} (f : α → List β) (g : β → Option (List γ)) (ts : List α) :
    flatMapO g (ts.flatMap f) = flatMapO (fun t => flatMapO g (f t)) ts := by
  have := flatMapO_fuse (fun a => some (f a)) g ts
  rw [flatMapO_pure] at this
  simpa using this

theorem flatMapO_map {α β γ : Type} (f : α → Option (List β)) (g : β → List γ) (ts : List α) :
    (flatMapO f ts).map (fun l => l.flatMap g) = flatMapO (fun t => (f t).map (fun l => l.flatMap g)) ts := by
  induction ts with
  | nil => rfl
  | cons a r ih =>
    simp only [flatMapO]
    rw [← ih]
    cases f a <;> cases flatMapO f r <;> simp

theorem flatMapO_id_of {α : Type} {f : α → Option (List α)} {ts : List α}
    (h : ∀ t ∈ ts, f t = some [t]) : flatMapO f ts = some ts := by
  induction ts with
  | nil => rfl
  | cons a r ih =>
    simp only [flatMapO]
    rw [h a (by simp), ih (fun t ht => h t (by simp [ht]))]
    rfl

/-! ### the lexer on a text without `{` -/

theorem lexTag_ne (cfg : Cfg) (c : Nat) (s : Str) (hc : c ≠ 123) : lexTag cfg (c :: s) = none := by
  have h : (123 = c) = False := by simp; omega
  simp [lexTag, matchHead, matchWordTag, matchDefault, stripPrefix, IFH, ELSE, ENDIF, EACHH, ENDEACH, INCH, OPTH,
    LL, tagOf, h]

theorem scan_noLB (cfg : Cfg) (s : Str) (hs : 123 ∉ s) (f : Nat) (hf : s.length < f) :
    scan (lexTag cfg) f s = s.map Sum.inl := by
  induction s generalizing f with
  | nil => cases f <;> simp [scan]
  | cons c r ih =>
    cases f with
    | zero => simp at hf
    | succ f =>
      have hc : c ≠ 123 := by intro h; apply hs; simp [h]
      have hr : 123 ∉ r := by intro h; apply hs; simp [h]
      simp only [scan, lexTag_ne cfg c r hc, List.map_cons]
      rw [ih hr f (by simp at hf; omega)]

theorem coalesce_chars (s : Str) : coalesce (s.map Sum.inl) = textTok s := by
  induction s with
  | nil => rfl
  | cons c r ih =>
    simp only [List.map_cons, coalesce, ih, textTok]
    cases r <;> simp

theorem lex_noLB (cfg : Cfg) (s : Str) (hs : 123 ∉ s) : lex cfg s = textTok s := by
  unfold lex scanStr
  rw [scan_noLB cfg s hs _ (by omega), coalesce_chars]

theorem lexVal_noLB (cfg : Cfg) (s : Str) (hs : 123 ∉ s) : lexVal cfg s = valTok s := by
  unfold lexVal
  split
  · subst_vars; rfl
  · rename_i h
    rw [lex_noLB cfg s hs]
    simp [textTok, valTok, h, toVal]

/-! ### conditional and loop passes on a flattened grammar template -/

theorem condGo_out_pass (ctx : Ctx) (xs r : List Tok) (h : ∀ x ∈ xs, ∀ ws n, x ≠ .ifO ws n) :
    condGo ctx .out (xs ++ r) = xs ++ condGo ctx .out r := by
  induction xs with
  | nil => rfl
  | cons x xs ih =>
    have hx := h x (by simp)
    have := ih (fun y hy => h y (by simp [hy]))
    cases x <;> simp_all [condGo]

theorem condGo_thn_close (ctx : Ctx) (ws n : Str) (acc a r : List Tok) (h : ∀ x ∈ a, x.inline = true) :
    condGo ctx (.thn ws n acc) (a ++ .ifC :: r) = (if truthyOf ctx n then acc ++ a else []) ++ condGo ctx .out r := by
  induction a generalizing acc with
  | nil => simp [condGo]
  | cons x a ih =>
    have hx := h x (by simp)
    have := ih (acc ++ [x]) (fun y hy => h y (by simp [hy]))
    cases x <;> simp_all [condGo, Tok.inline]

theorem condGo_els_close (ctx : Ctx) (ws n : Str) (t acc e r : List Tok) (h : ∀ x ∈ e, x.inline = true) :
    condGo ctx (.els ws n t acc) (e ++ .ifC :: r) = (if truthyOf ctx n then t else acc ++ e) ++ condGo ctx .out r := by
  induction e generalizing acc with
  | nil => simp [condGo]
  | cons x e ih =>
    have hx := h x (by simp)
    have := ih (acc ++ [x]) (fun y hy => h y (by simp [hy]))
    cases x <;> simp_all [condGo, Tok.inline]

theorem condGo_thn_else (ctx : Ctx) (ws n : Str) (acc a e r : List Tok) (ha : ∀ x ∈ a, x.inline = true)
    (he : ∀ x ∈ e, x.inline = true) :
    condGo ctx (.thn ws n acc) (a ++ .els :: (e ++ .ifC :: r)) =
      (if truthyOf ctx n then acc ++ a else e) ++ condGo ctx .out r := by
  induction a generalizing acc with
  | nil => simpa [condGo] using condGo_els_close ctx ws n acc [] e r he
  | cons x a ih =>
    have hx := ha x (by simp)
    have := ih (acc ++ [x]) (fun y hy => ha y (by simp [hy]))
    cases x <;> simp_all [condGo, Tok.inline]

def condSeg (ctx : Ctx) : Seg → List Tok
  | .tok t => [t]
  | .ifB _ n a e => if truthyOf ctx n then a else e.getD []
  | .each ws n b => .eachO ws n :: b ++ [.eachC]

theorem inline_ne_ifO {x : Tok} (h : x.inline = true) (ws n : Str) : x ≠ .ifO ws n := by
  intro e; subst e; simp [Tok.inline] at h

theorem inline_ne_eachO {x : Tok} (h : x.inline = true) (ws n : Str) : x ≠ .eachO ws n := by
  intro e; subst e; simp [Tok.inline] at h

theorem condGo_seg (ctx : Ctx) (s : Seg) (hs : s.wf = true) (r : List Tok) :
    condGo ctx .out (s.flatten ++ r) = condSeg ctx s ++ condGo ctx .out r := by
  cases s with
  | tok t =>
    simp only [Seg.wf] at hs
    simpa [Seg.flatten, condSeg] using condGo_out_pass ctx [t] r (by intro x hx; simp at hx; subst hx; exact inline_ne_ifO hs)
  | ifB ws n a e =>
    simp only [Seg.wf, Bool.and_eq_true, List.all_eq_true] at hs
    cases e with
    | none =>
      have := condGo_thn_close ctx ws n [] a r hs.1
      simpa [Seg.flatten, condSeg, condGo] using this
    | some e =>
      have := condGo_thn_else ctx ws n [] a e r hs.1 (by simpa using hs.2)
      simpa [Seg.flatten, condSeg, condGo] using this
  | each ws n b =>
    simp only [Seg.wf, List.all_eq_true] at hs
    have := condGo_out_pass ctx (.eachO ws n :: b ++ [.eachC]) r (by
      intro x hx ws' n'
      simp at hx
      rcases hx with rfl | hx | rfl
      · simp
      · exact inline_ne_ifO (hs x hx) ws' n'
      · simp)
    simpa [Seg.flatten, condSeg] using this

theorem condPass_flatten (ctx : Ctx) (t : Tmpl) (hwf : ∀ s ∈ t, s.wf = true) :
    condPass ctx (flatten t) = t.flatMap (condSeg ctx) := by
  unfold condPass flatten
  induction t with
  | nil => rfl
  | cons s t ih =>
    simp only [List.flatMap_cons]
    rw [condGo_seg ctx s (hwf s (by simp)), ih (fun x hx => hwf x (by simp [hx]))]

theorem loopGo_out_pass (cfg : Cfg) (ctx : Ctx) (xs r : List Tok) (h : ∀ x ∈ xs, ∀ ws n, x ≠ .eachO ws n) :
    loopGo cfg ctx .out (xs ++ r) = xs ++ loopGo cfg ctx .out r := by
  induction xs with
  | nil => rfl
  | cons x xs ih =>
    have hx := h x (by simp)
    have := ih (fun y hy => h y (by simp [hy]))
    cases x <;> simp_all [loopGo]

theorem loopGo_body_close (cfg : Cfg) (ctx : Ctx) (ws n : Str) (acc b r : List Tok) (h : ∀ x ∈ b, x.inline = true) :
    loopGo cfg ctx (.body ws n acc) (b ++ .eachC :: r) = loopReplTok cfg ctx n (acc ++ b) ++ loopGo cfg ctx .out r := by
  induction b generalizing acc with
  | nil => simp [loopGo]
  | cons x b ih =>
    have hx := h x (by simp)
    have := ih (acc ++ [x]) (fun y hy => h y (by simp [hy]))
    cases x <;> simp_all [loopGo, Tok.inline]

/-- a segment after the conditional and the loop pass -/
def midSeg (cfg : Cfg) (ctx : Ctx) : Seg → List Tok
  | .tok t => [t]
  | .ifB _ n a e => if truthyOf ctx n then a else e.getD []
  | .each _ n b => loopReplTok cfg ctx n b

theorem loopGo_seg (cfg : Cfg) (ctx : Ctx) (s : Seg) (hs : s.wf = true) (r : List Tok) :
    loopGo cfg ctx .out (condSeg ctx s ++ r) = midSeg cfg ctx s ++ loopGo cfg ctx .out r := by
  cases s with
  | tok t =>
    simp only [Seg.wf] at hs
    simpa [condSeg, midSeg] using loopGo_out_pass cfg ctx [t] r (by intro x hx; simp at hx; subst hx; exact inline_ne_eachO hs)
  | ifB ws n a e =>
    simp only [Seg.wf, Bool.and_eq_true, List.all_eq_true] at hs
    simp only [condSeg, midSeg]
    apply loopGo_out_pass
    intro x hx
    split at hx
    · exact inline_ne_eachO (hs.1 x hx)
    · exact inline_ne_eachO (hs.2 x hx)
  | each ws n b =>
    simp only [Seg.wf, List.all_eq_true] at hs
    have := loopGo_body_close cfg ctx ws n [] b r hs
    simpa [condSeg, midSeg, loopGo] using this

theorem loopPass_cond (cfg : Cfg) (ctx : Ctx) (t : Tmpl) (hwf : ∀ s ∈ t, s.wf = true) :
    loopPass cfg ctx (t.flatMap (condSeg ctx)) = t.flatMap (midSeg cfg ctx) := by
  unfold loopPass
  induction t with
  | nil => rfl
  | cons s t ih =>
    simp only [List.flatMap_cons]
    rw [loopGo_seg cfg ctx s (hwf s (by simp)), ih (fun x hx => hwf x (by simp [hx]))]

/-! ### brace-free data -/

/-- no opening brace (at the token level this is all that value opacity needs) -/
def NoLB (s : Str) : Prop := 123 ∉ s

theorem NoLB_nil : NoLB [] := by simp [NoLB]

theorem flatMap_congr' {α β : Type} {f g : α → List β} {l : List α} (h : ∀ t ∈ l, f t = g t) :
    l.flatMap f = l.flatMap g := by
  induction l with
  | nil => rfl
  | cons a r ih => simp only [List.flatMap_cons]; rw [h a (by simp), ih (fun t ht => h t (by simp [ht]))]

theorem flatMap_flatMap' {α β γ : Type} (l : List α) (f : α → List β) (g : β → List γ) :
    (l.flatMap f).flatMap g = l.flatMap (fun a => (f a).flatMap g) := by
  induction l with
  | nil => rfl
  | cons a r ih => simp [List.flatMap_cons, List.flatMap_append, ih]

theorem flatMap_single {α : Type} (l : List α) : l.flatMap (fun a => [a]) = l := by
  induction l with
  | nil => rfl
  | cons a r ih => simp [List.flatMap_cons, ih]

theorem digitsAux_noLB (f n : Nat) (acc : Str) (h : NoLB acc) : NoLB (digitsAux f n acc) := by
  induction f generalizing n acc with
  | zero => simpa [digitsAux] using h
  | succ f ih =>
    simp only [digitsAux]
    split
    · simp only [NoLB, List.mem_cons, not_or] at *; exact ⟨by omega, h⟩
    · apply ih; simp only [NoLB, List.mem_cons, not_or] at *; exact ⟨by omega, h⟩

theorem dec_noLB (n : Nat) : NoLB (dec n) := digitsAux_noLB _ _ _ NoLB_nil

theorem pyBool_noLB (b : Bool) : NoLB (pyBool b) := by cases b <;> simp [pyBool, sTrue, sFalse, NoLB]

def ValsNoLB (kvs : List (Str × Str)) : Prop := ∀ p ∈ kvs, NoLB p.2

theorem updKey_noLB (kvs : List (Str × Str)) (k v : Str) (h : ValsNoLB kvs) (hv : NoLB v) : ValsNoLB (updKey kvs k v) := by
  unfold updKey
  split
  · intro p hp
    simp only [List.mem_map] at hp
    obtain ⟨q, hq, rfl⟩ := hp
    split
    · exact hv
    · exact h q hq
  · intro p hp
    simp only [List.mem_append, List.mem_singleton] at hp
    rcases hp with hp | rfl
    · exact h p hp
    · exact hv

theorem foldl_updKey_noLB (fs : List (Str × Str)) (kvs : List (Str × Str)) (h : ValsNoLB kvs)
    (hf : ∀ p ∈ fs, NoLB p.2) : ValsNoLB (fs.foldl (fun acc p => updKey acc p.1 p.2) kvs) := by
  induction fs generalizing kvs with
  | nil => simpa using h
  | cons p fs ih =>
    simp only [List.foldl_cons]
    exact ih _ (updKey_noLB kvs p.1 p.2 h (hf p (by simp))) (fun q hq => hf q (by simp [hq]))

theorem loopCtx_noLB (i len : Nat) (it : Item) (ht : NoLB it.text) (hf : ∀ p ∈ it.fields, NoLB p.2) :
    ValsNoLB (loopCtx i len it) := by
  unfold loopCtx
  apply foldl_updKey_noLB _ _ _ hf
  intro p hp
  simp only [List.mem_cons, List.not_mem_nil, or_false] at hp
  rcases hp with rfl | rfl | rfl | rfl | rfl
  · exact ht
  · exact ht
  · exact dec_noLB i
  · exact pyBool_noLB _
  · exact pyBool_noLB _

/-! ### loop-body instantiation with brace-free loop values is a simultaneous substitution -/

def loopSubst (kvs : List (Str × Str)) : Tok → List Tok
  | .var n => match lookup n kvs with
    | some v => valTok v
    | none => [.var n]
  | .dot => match lookup kDot kvs with
    | some v => valTok v
    | none => [.dot]
  | t => [t]

theorem loopSubst_valTok (kvs : List (Str × Str)) (v : Str) : (valTok v).flatMap (loopSubst kvs) = valTok v := by
  simp [valTok, loopSubst]

theorem substTok_noLB (cfg : Cfg) (kvs : List (Str × Str)) (body : List Tok) (h : ValsNoLB kvs) :
    substTok cfg kvs body = body.flatMap (loopSubst kvs) := by
  unfold substTok
  induction kvs generalizing body with
  | nil =>
    simp only [List.foldl_nil]
    rw [← flatMap_single body]
    rw [flatMap_flatMap']
    apply flatMap_congr'
    intro t _
    cases t <;> simp [loopSubst, lookup]
  | cons p kvs ih =>
    simp only [List.foldl_cons]
    rw [ih _ (fun q hq => h q (by simp [hq])), flatMap_flatMap']
    apply flatMap_congr'
    intro t _
    have hv : lexVal cfg p.2 = valTok p.2 := lexVal_noLB cfg p.2 (h p (by simp))
    obtain ⟨k, v⟩ := p
    cases t with
    | var n =>
      simp only [keyMatches, beq_iff_eq]
      by_cases hk : n = k
      · subst hk; simp [hv, loopSubst_valTok, loopSubst, lookup]
      · have hk' : ¬ k = n := fun e => hk e.symm
        simp [hk, hk', loopSubst, lookup]
    | dot =>
      simp only [keyMatches, beq_iff_eq]
      by_cases hk : k = kDot
      · subst hk; simp [hv, loopSubst_valTok, loopSubst, lookup]
      · simp [hk, loopSubst, lookup]
    | _ => simp [keyMatches, loopSubst]

/-! ### the variable pass with brace-free values, construct by construct -/

def tokB (cfg : Cfg) (ctx : Ctx) : Tok → List Tok
  | .pipe n a => if cfg.filters.contains a then [.pipe n a] else valTok (if isBound ctx n then textOf ctx n else a)
  | t => [t]

theorem tokB_of_not_pipe (cfg : Cfg) (ctx : Ctx) (t : Tok) (h : isPipe t = false) : tokB cfg ctx t = [t] := by
  cases t <;> simp_all [tokB, isPipe]

theorem mem_valTok {x : Tok} {v : Str} (h : x ∈ valTok v) : x = .val v := by
  simpa [valTok] using h

theorem foldl_replB (cfg : Cfg) (ctx : Ctx) (hctx : ∀ n, NoLB (textOf ctx n)) (M cur : List Tok)
    (hM : ∀ m ∈ M, isPipe m = true) (hMc : ∀ n a, Tok.pipe n a ∈ M → NoLB a) :
    M.foldl (fun cur m => replB cfg ctx m cur) cur = cur.flatMap (fun t => if t ∈ M then tokB cfg ctx t else [t]) := by
  induction M generalizing cur with
  | nil => simp
  | cons m M ih =>
    simp only [List.foldl_cons]
    rw [ih _ (fun x hx => hM x (by simp [hx])) (fun n a h => hMc n a (by simp [h]))]
    have hm := hM m (by simp)
    cases m with
    | pipe n a =>
      have hstep : replB cfg ctx (.pipe n a) cur
          = cur.flatMap (fun t => if t = .pipe n a then tokB cfg ctx (.pipe n a) else [t]) := by
        simp only [replB, tokB]
        split
        · rw [← flatMap_single cur, flatMap_flatMap']
          apply flatMap_congr'
          intro t _
          by_cases ht : t = .pipe n a <;> simp [ht]
        · apply flatMap_congr'
          intro t _
          split
          · rw [lexVal_noLB]
            split
            · exact hctx n
            · exact hMc n a (by simp)
          · rfl
      rw [hstep, flatMap_flatMap']
      apply flatMap_congr'
      intro t _
      by_cases ht : t = .pipe n a
      · subst ht
        simp only [if_true, List.mem_cons, true_or]
        simp only [tokB]
        split
        · simp only [List.flatMap_cons, List.flatMap_nil, List.append_nil]
          split
          · simp [*]
          · rfl
        · rw [← flatMap_single (valTok _)]
          rw [flatMap_flatMap']
          apply flatMap_congr'
          intro x hx
          have := mem_valTok hx
          subst this
          have : Tok.val (if isBound ctx n = true then textOf ctx n else a) ∉ M := by
            intro hmem; have := hM _ (List.mem_cons_of_mem _ hmem); simp [isPipe] at this
          simp [this]
      · simp [ht]
    | _ => simp [isPipe] at hm

theorem passB_noLB (cfg : Cfg) (ctx : Ctx) (hctx : ∀ n, NoLB (textOf ctx n)) (ts : List Tok)
    (hc : ∀ n a, Tok.pipe n a ∈ ts → NoLB a) : passB cfg ctx ts = ts.flatMap (tokB cfg ctx) := by
  unfold passB
  rw [foldl_replB cfg ctx hctx _ ts (by intro m hm; exact (List.mem_filter.mp hm).2)
    (by intro n a h; exact hc n a (List.mem_filter.mp h).1)]
  apply flatMap_congr'
  intro t ht
  split
  · rfl
  · rename_i hnot
    have : isPipe t = false := by
      cases hp : isPipe t
      · rfl
      · exact absurd (List.mem_filter.mpr ⟨ht, hp⟩) hnot
    rw [tokB_of_not_pipe cfg ctx t this]

/-- the brace-free hypothesis on everything that can be spliced into the output -/
structure BF (cfg : Cfg) (ctx : Ctx) : Prop where
  text : ∀ n, NoLB (textOf ctx n)
  items : ∀ n v its, lookup n ctx = some v → v.items = some its →
    ∀ it ∈ its, NoLB it.text ∧ ∀ p ∈ it.fields, NoLB p.2
  filt : ∀ f n r, cfg.applyF f n = .ok r → NoLB r
  marker : ∀ n, NoLB n → NoLB (cfg.markerPre ++ n ++ cfg.markerSuf)

/-- defaults and include names written in the template contain no `{` -/
def Tok.clean : Tok → Prop
  | .pipe _ a => NoLB a
  | .inc n => NoLB n
  | _ => True

/-- sub-passes 2–4 on one token -/
def gV (cfg : Cfg) (ctx : Ctx) (t : Tok) : List Tok :=
  ((tokB cfg ctx t).flatMap (tokC cfg ctx)).flatMap (tokD cfg ctx)

theorem valTok_tokC (cfg : Cfg) (ctx : Ctx) (v : Str) : (valTok v).flatMap (tokC cfg ctx) = valTok v := by
  simp [valTok, tokC]

theorem valTok_tokD (cfg : Cfg) (ctx : Ctx) (v : Str) : (valTok v).flatMap (tokD cfg ctx) = valTok v := by
  simp [valTok, tokD]

theorem valTok_gV (cfg : Cfg) (ctx : Ctx) (v : Str) : (valTok v).flatMap (gV cfg ctx) = valTok v := by
  simp [valTok, gV, tokB, tokC, tokD]

theorem mem_flatMapO {α β : Type} {f : α → Option (List β)} {ts : List α} {r : List β} {x : β}
    (h : flatMapO f ts = some r) (hx : x ∈ r) : ∃ t ∈ ts, ∃ l, f t = some l ∧ x ∈ l := by
  induction ts generalizing r with
  | nil => simp [flatMapO] at h; subst h; simp at hx
  | cons a ts ih =>
    simp only [flatMapO] at h
    cases hfa : f a with
    | none => simp [hfa] at h
    | some l =>
      cases hr : flatMapO f ts with
      | none => simp [hfa, hr] at h
      | some y =>
        simp [hfa, hr] at h
        subst h
        rcases List.mem_append.mp hx with hx | hx
        · exact ⟨a, by simp, l, hfa, hx⟩
        · obtain ⟨t, ht, l', hl', hx'⟩ := ih hr hx
          exact ⟨t, by simp [ht], l', hl', hx'⟩

theorem tokA_pipe_mem (cfg : Cfg) (ctx : Ctx) (hbf : BF cfg ctx) (t : Tok) (l : List Tok)
    (h : (tokA cfg ctx t).toOption = some l) (n a : Str) (hx : Tok.pipe n a ∈ l) : t = .pipe n a := by
  cases t with
  | pipe n' a' =>
    simp only [tokA] at h
    split at h
    · split at h
      · split at h
        · split at h
          · rename_i r hr
            simp [Except.toOption] at h; subst h
            rw [lexVal_noLB cfg r (hbf.filt _ _ _ hr)] at hx
            have := mem_valTok hx; cases this
          · simp [Except.toOption] at h
        · simp [Except.toOption] at h; subst h
          rw [lexVal_noLB cfg _ (hbf.text _)] at hx
          have := mem_valTok hx; cases this
      · simp [Except.toOption] at h; subst h; exact (List.mem_singleton.mp hx).symm
    · simp [Except.toOption] at h; subst h; exact (List.mem_singleton.mp hx).symm
  | _ => simp [tokA, Except.toOption] at h; subst h; simp at hx

theorem tokA_gV (cfg : Cfg) (ctx : Ctx) (hbf : BF cfg ctx) (t : Tok) (hc : t.clean) :
    (tokA cfg ctx t).toOption.map (fun l => l.flatMap (gV cfg ctx)) = (semV cfg ctx t).toOption := by
  cases t with
  | pipe n a =>
    simp only [Tok.clean] at hc
    simp only [tokA, semV, pipeSem]
    by_cases hw : isWordStr cfg a = true
    · by_cases hb : isBound ctx n = true
      · by_cases hf : a ∈ cfg.filters
        · have hfc : cfg.filters.contains a = true := by simpa using hf
          simp only [hw, hb, hfc, if_true, Bool.and_self]
          cases hr : cfg.applyF a n with
          | ok r => simp [Except.toOption, lexVal_noLB cfg r (hbf.filt _ _ _ hr), valTok_gV]
          | raise c => simp [Except.toOption]
        · have hfc : cfg.filters.contains a = false := by simpa using hf
          simp [hw, hb, hf, Except.toOption, lexVal_noLB cfg _ (hbf.text n), valTok_gV]
      · by_cases hf : a ∈ cfg.filters
        · have hfc : cfg.filters.contains a = true := by simpa using hf
          simp [hw, hb, hf, Except.toOption, gV, tokB, tokC, tokD]
        · have hfc : cfg.filters.contains a = false := by simpa using hf
          simp [hw, hb, hf, Except.toOption, gV, tokB, valTok_tokC, valTok_tokD]
    · by_cases hf : a ∈ cfg.filters
      · have hfc : cfg.filters.contains a = true := by simpa using hf
        simp [hw, hf, Except.toOption, gV, tokB, tokC, tokD]
      · have hfc : cfg.filters.contains a = false := by simpa using hf
        simp [hw, hf, Except.toOption, gV, tokB, valTok_tokC, valTok_tokD]
  | var n =>
    simp only [tokA, semV, Except.toOption, Option.map, gV, tokB, tokC, tokD, List.flatMap_cons, List.flatMap_nil,
      List.append_nil]
    split <;> simp [lexVal_noLB cfg _ (hbf.text n)]
  | opt n =>
    simp [tokA, semV, Except.toOption, gV, tokB, tokC, lexVal_noLB cfg _ (hbf.text n), valTok_tokD]
  | _ => simp [tokA, semV, Except.toOption, gV, tokB, tokC, tokD]

/-- the four sub-passes of the variable pass, fused into one construct-by-construct expansion -/
theorem varPass_fused (cfg : Cfg) (ctx : Ctx) (hbf : BF cfg ctx) (ts : List Tok) (hc : ∀ t ∈ ts, t.clean) :
    (flatMapM (tokA cfg ctx) ts).toOption.map
        (fun t4 => ((passB cfg ctx t4).flatMap (tokC cfg ctx)).flatMap (tokD cfg ctx))
      = flatMapO (fun t => (semV cfg ctx t).toOption) ts := by
  rw [flatMapM_toOption]
  have h1 : (flatMapO (fun a => (tokA cfg ctx a).toOption) ts).map
        (fun t4 => ((passB cfg ctx t4).flatMap (tokC cfg ctx)).flatMap (tokD cfg ctx))
      = (flatMapO (fun a => (tokA cfg ctx a).toOption) ts).map (fun l => l.flatMap (gV cfg ctx)) := by
    cases h : flatMapO (fun a => (tokA cfg ctx a).toOption) ts with
    | none => rfl
    | some t4 =>
      simp only [Option.map]
      rw [passB_noLB cfg ctx hbf.text t4 (by
        intro n a hx
        obtain ⟨t, ht, l, hl, hxl⟩ := mem_flatMapO h hx
        have := tokA_pipe_mem cfg ctx hbf t l hl n a hxl
        subst this
        exact hc _ ht)]
      congr 1
      simp only [flatMap_flatMap']
      apply flatMap_congr'
      intro t _
      simp only [gV, flatMap_flatMap']
  rw [h1, flatMapO_map]
  apply flatMapO_congr
  intro t ht
  exact tokA_gV cfg ctx hbf t (hc t ht)

/-! ### what the specification emits is left alone by a further variable pass -/

def Stable (cfg : Cfg) (ctx : Ctx) (x : Tok) : Prop :=
  (semV cfg ctx x).toOption = some [x] ∧ x.clean ∧ ∀ n, x ≠ .inc n

theorem stable_val (cfg : Cfg) (ctx : Ctx) (v : Str) : Stable cfg ctx (.val v) :=
  ⟨rfl, trivial, by intro n h; cases h⟩

theorem stable_valTok (cfg : Cfg) (ctx : Ctx) (v : Str) : ∀ x ∈ valTok v, Stable cfg ctx x := by
  intro x hx; rw [mem_valTok hx]; exact stable_val cfg ctx v

theorem stable_textTok (cfg : Cfg) (ctx : Ctx) (v : Str) : ∀ x ∈ textTok v, Stable cfg ctx x := by
  intro x hx
  unfold textTok at hx
  split at hx
  · simp at hx
  · simp at hx; subst hx; exact ⟨rfl, trivial, by intro n h; cases h⟩

theorem toOption_ok_iff {ε α : Type} {x : Except ε α} {a : α} : x.toOption = some a ↔ x = .ok a := by
  cases x <;> simp [Except.toOption]

theorem semV_stable (cfg : Cfg) (ctx : Ctx) (t : Tok) (hc : t.clean) (hni : ∀ n, t ≠ .inc n) (l : List Tok)
    (h : semV cfg ctx t = .ok l) : ∀ x ∈ l, Stable cfg ctx x := by
  cases t with
  | var n =>
    simp only [semV] at h
    split at h
    · cases h; exact stable_valTok cfg ctx _
    · rename_i hb
      cases h
      intro x hx
      simp at hx; subst hx
      exact ⟨by simp [semV, hb, Except.toOption], trivial, by intro n h; cases h⟩
  | opt n => simp only [semV] at h; cases h; exact stable_valTok cfg ctx _
  | pipe n a =>
    simp only [semV, pipeSem] at h
    split at h
    · rename_i h1
      split at h
      · split at h
        · cases h; exact stable_valTok cfg ctx _
        · cases h
      · rename_i hb
        cases h
        intro x hx
        simp at hx; subst hx
        exact ⟨by simp only [semV, pipeSem, h1, hb, Except.toOption, Bool.false_eq_true, ↓reduceIte], hc, by intro n h; cases h⟩
    · rename_i h1
      split at h
      · rename_i h2
        cases h
        intro x hx
        simp at hx; subst hx
        have hw : isWordStr cfg a = false := by
          cases hh : isWordStr cfg a
          · rfl
          · rw [hh, h2] at h1; simp at h1
        exact ⟨by simp only [semV, pipeSem, hw, h2, Except.toOption, Bool.false_and, Bool.false_eq_true, ↓reduceIte],
          hc, by intro n h; cases h⟩
      · cases h; exact stable_valTok cfg ctx _
  | inc n => exact absurd rfl (hni n)
  | _ =>
    simp only [semV] at h; cases h
    intro x hx
    simp at hx; subst hx
    exact ⟨rfl, trivial, by intro n h; cases h⟩

theorem specTok_stable (cfg : Cfg) (ctx : Ctx) (inc : Str → Except Err (List Tok))
    (hinc : ∀ n l, inc n = .ok l → ∀ x ∈ l, Stable cfg ctx x) (loop : List (Str × Str)) (t : Tok) (hc : t.clean)
    (l : List Tok) (h : specTok cfg ctx inc loop t = .ok l) : ∀ x ∈ l, Stable cfg ctx x := by
  cases t with
  | var n =>
    simp only [specTok] at h
    split at h
    · cases h; exact stable_valTok cfg ctx _
    · exact semV_stable cfg ctx _ hc (by intro n h; cases h) l h
  | dot =>
    simp only [specTok] at h
    split at h
    · cases h; exact stable_valTok cfg ctx _
    · cases h; intro x hx; simp at hx; subst hx; exact ⟨rfl, trivial, by intro n h; cases h⟩
  | inc n => exact hinc n l h
  | text s => exact semV_stable cfg ctx _ hc (by intro n h; cases h) l h
  | val s => exact semV_stable cfg ctx _ hc (by intro n h; cases h) l h
  | opt n => exact semV_stable cfg ctx _ hc (by intro n h; cases h) l h
  | pipe n a => exact semV_stable cfg ctx _ hc (by intro n h; cases h) l h
  | ifO ws n => exact semV_stable cfg ctx _ hc (by intro n h; cases h) l h
  | els => exact semV_stable cfg ctx _ hc (by intro n h; cases h) l h
  | ifC => exact semV_stable cfg ctx _ hc (by intro n h; cases h) l h
  | eachO ws n => exact semV_stable cfg ctx _ hc (by intro n h; cases h) l h
  | eachC => exact semV_stable cfg ctx _ hc (by intro n h; cases h) l h

theorem mem_flatMapM {ε α β : Type} {f : α → Except ε (List β)} {ts : List α} {r : List β} {x : β}
    (h : flatMapM f ts = .ok r) (hx : x ∈ r) : ∃ t ∈ ts, ∃ l, f t = .ok l ∧ x ∈ l := by
  have h' : flatMapO (fun a => (f a).toOption) ts = some r := by
    rw [← flatMapM_toOption, h]; rfl
  obtain ⟨t, ht, l, hl, hxl⟩ := mem_flatMapO h' hx
  exact ⟨t, ht, l, toOption_ok_iff.mp hl, hxl⟩

theorem flatMapM_stable (cfg : Cfg) (ctx : Ctx) (f : Tok → Except Err (List Tok)) (ts : List Tok)
    (hf : ∀ t ∈ ts, ∀ l, f t = .ok l → ∀ x ∈ l, Stable cfg ctx x) (r : List Tok)
    (h : flatMapM f ts = .ok r) : ∀ x ∈ r, Stable cfg ctx x := by
  intro x hx
  obtain ⟨t, ht, l, hl, hxl⟩ := mem_flatMapM h hx
  exact hf t ht l hl x hxl

theorem specItems_stable (cfg : Cfg) (ctx : Ctx) (inc : Str → Except Err (List Tok))
    (hinc : ∀ n l, inc n = .ok l → ∀ x ∈ l, Stable cfg ctx x) (len : Nat) (body : List Tok)
    (hb : ∀ t ∈ body, t.clean) (its : List Item) (i : Nat) (r : List Tok)
    (h : specItems cfg ctx inc len body i its = .ok r) : ∀ x ∈ r, Stable cfg ctx x := by
  induction its generalizing i r with
  | nil => simp only [specItems] at h; cases h; simp
  | cons it its ih =>
    simp only [specItems] at h
    split at h
    · cases h
    · rename_i x hx
      split at h
      · cases h
      · rename_i y hy
        cases h
        intro z hz
        rcases List.mem_append.mp hz with hz | hz
        · exact flatMapM_stable cfg ctx _ body
            (fun t ht l hl => specTok_stable cfg ctx inc hinc _ t (hb t ht) l hl) x hx z hz
        · exact ih (i + 1) y hy z hz

/-- clean segments: defaults and include names contain no `{` -/
def Seg.clean : Seg → Prop
  | .tok t => t.clean
  | .ifB _ _ a e => (∀ t ∈ a, t.clean) ∧ (∀ t ∈ e.getD [], t.clean)
  | .each _ _ b => ∀ t ∈ b, t.clean

theorem specSeg_stable (cfg : Cfg) (ctx : Ctx) (inc : Str → Except Err (List Tok))
    (hinc : ∀ n l, inc n = .ok l → ∀ x ∈ l, Stable cfg ctx x) (s : Seg) (hc : s.clean) (r : List Tok)
    (h : specSeg cfg ctx inc s = .ok r) : ∀ x ∈ r, Stable cfg ctx x := by
  cases s with
  | tok t => exact specTok_stable cfg ctx inc hinc [] t hc r h
  | ifB ws n a e =>
    simp only [specSeg] at h
    refine flatMapM_stable cfg ctx _ _ (fun t ht l hl => specTok_stable cfg ctx inc hinc _ t ?_ l hl) r h
    split at ht
    · exact hc.1 t ht
    · exact hc.2 t ht
  | each ws n b =>
    simp only [specSeg] at h
    split at h
    · cases h; simp
    · split at h
      · cases h; simp
      · exact specItems_stable cfg ctx inc hinc _ b hc _ 0 r h

theorem specToks_stable (cfg : Cfg) (reg : SReg) (ctx : Ctx) (hm : ∀ n, ∀ x ∈ markerSpec cfg n, Stable cfg ctx x)
    (hreg : ∀ n b, lookup n reg = some b → ∀ s ∈ b, s.clean) :
    ∀ (fuel : Nat) (t : Tmpl), (∀ s ∈ t, s.clean) → ∀ r, specToks cfg reg ctx fuel t = .ok r →
      ∀ x ∈ r, Stable cfg ctx x := by
  intro fuel
  induction fuel with
  | zero => intro t _ r h; simp [specToks] at h
  | succ fuel ih =>
    intro t ht r h
    simp only [specToks] at h
    intro x hx
    obtain ⟨s, hs, l, hl, hxl⟩ := mem_flatMapM h hx
    refine specSeg_stable cfg ctx _ ?_ s (ht s hs) l hl x hxl
    intro n l' hl'
    split at hl'
    · rename_i b hb
      exact ih b (hreg n b hb) l' hl'
    · cases hl'; exact hm n

/-! ### main refinement: the four passes on a flattened grammar template = one left-to-right expansion -/

theorem lookup_tokReg (n : Str) (reg : SReg) : lookup n (tokReg reg) = (lookup n reg).map flatten := by
  induction reg with
  | nil => rfl
  | cons p reg ih =>
    obtain ⟨k, b⟩ := p
    simp only [tokReg, List.map_cons, lookup] at *
    split
    · rfl
    · exact ih

theorem flatMapO_singleton {α β : Type} (f : α → Option (List β)) (t : α) : flatMapO f [t] = f t := by
  simp only [flatMapO]; cases f t <;> simp

theorem renderTok_succ_opt (cfg : Cfg) (reg' : Reg) (ctx : Ctx) (fuel : Nat) (ts : List Tok) :
    (renderTok cfg false reg' ctx (fuel + 1) ts).toOption.map Prod.fst =
      (flatMapM (incTok cfg reg' (fun b => renderTok cfg false reg' ctx fuel b))
          (loopPass cfg ctx (condPass ctx ts))).toOption.bind
        (fun t3 => (flatMapM (tokA cfg ctx) t3).toOption.map
          (fun t4 => ((passB cfg ctx t4).flatMap (tokC cfg ctx)).flatMap (tokD cfg ctx))) := by
  simp only [renderTok, Bool.false_and, Bool.false_eq_true, ↓reduceIte]
  generalize flatMapM (incTok cfg reg' (fun b => renderTok cfg false reg' ctx fuel b))
    (loopPass cfg ctx (condPass ctx ts)) = A
  cases A with
  | error e => rfl
  | ok t3 =>
    simp only [Except.toOption, Option.bind]
    generalize flatMapM (tokA cfg ctx) t3 = B
    cases B <;> rfl

section Main
variable (cfg : Cfg) (reg : SReg) (ctx : Ctx)

/-- how the specification renders an include at depth `fuel` -/
def incS (fuel : Nat) : Str → Except Err (List Tok) := fun n =>
  match lookup n reg with
  | some b => specToks cfg reg ctx fuel b
  | none => .ok (markerSpec cfg n)

theorem specToks_succ (fuel : Nat) (t : Tmpl) :
    specToks cfg reg ctx (fuel + 1) t = flatMapM (specSeg cfg ctx (incS cfg reg ctx fuel)) t := rfl

/-- one token through the include pass and then the (fused) variable pass -/
def hT (fuel : Nat) (t : Tok) : Option (List Tok) :=
  ((incTok cfg (tokReg reg) (fun b => renderTok cfg false (tokReg reg) ctx fuel b) t).toOption).bind
    (flatMapO (fun x => (semV cfg ctx x).toOption))

variable (hbf : BF cfg ctx)
  (hreg : ∀ n b, lookup n reg = some b → (∀ s ∈ b, s.wf = true) ∧ ∀ s ∈ b, s.clean)

theorem stable_fix {r : List Tok} (h : ∀ x ∈ r, Stable cfg ctx x) :
    flatMapO (fun x => (semV cfg ctx x).toOption) r = some r :=
  flatMapO_id_of (fun x hx => (h x hx).1)

include hbf hreg in
theorem hT_eq (fuel : Nat)
    (IH : ∀ n b, lookup n reg = some b →
      (renderTok cfg false (tokReg reg) ctx fuel (flatten b)).toOption.map Prod.fst = (specToks cfg reg ctx fuel b).toOption)
    (t : Tok) (hc : t.clean) :
    hT cfg reg ctx fuel t = (specTok cfg ctx (incS cfg reg ctx fuel) [] t).toOption := by
  have hsemV : ∀ t' : Tok, (∀ n, t' ≠ .inc n) →
      hT cfg reg ctx fuel t' = (semV cfg ctx t').toOption := by
    intro t' hni
    unfold hT
    have : incTok cfg (tokReg reg) (fun b => renderTok cfg false (tokReg reg) ctx fuel b) t' = .ok [t'] := by
      cases t' <;> first | rfl | exact absurd rfl (hni _)
    rw [this]
    simp only [Except.toOption, Option.bind]
    exact flatMapO_singleton _ _
  cases t with
  | inc n =>
    simp only [Tok.clean] at hc
    unfold hT
    simp only [incTok, lookup_tokReg, specTok, incS]
    cases hl : lookup n reg with
    | none =>
      simp only [Option.map, Except.toOption, Option.bind]
      have : markerToks cfg n = markerSpec cfg n := lex_noLB cfg _ (hbf.marker n hc)
      rw [this]
      exact stable_fix cfg ctx (stable_textTok cfg ctx _)
    | some b =>
      simp only [Option.map]
      have ih := IH n b hl
      have hst := specToks_stable cfg reg ctx (fun n => stable_textTok cfg ctx _)
        (fun n b h => (hreg n b h).2) fuel b (hreg n b hl).2
      cases hr : renderTok cfg false (tokReg reg) ctx fuel (flatten b) with
      | error e =>
        rw [hr] at ih
        simp only [Except.toOption, Option.map, Option.bind] at ih ⊢
        exact ih
      | ok xw =>
        obtain ⟨x, w⟩ := xw
        rw [hr] at ih
        simp only [Except.toOption, Option.map, Option.bind] at ih ⊢
        cases hs : specToks cfg reg ctx fuel b with
        | error e => rw [hs] at ih; cases ih
        | ok r =>
          rw [hs] at ih
          simp only [Option.some.injEq] at ih
          subst ih
          exact stable_fix cfg ctx (hst x hs)
  | var n => rw [hsemV _ (by intro n h; cases h)]; simp [specTok, lookup]
  | dot => rw [hsemV _ (by intro n h; cases h)]; simp [specTok, lookup, semV]
  | text s => rw [hsemV _ (by intro n h; cases h)]; rfl
  | val s => rw [hsemV _ (by intro n h; cases h)]; rfl
  | opt n => rw [hsemV _ (by intro n h; cases h)]; rfl
  | pipe n a => rw [hsemV _ (by intro n h; cases h)]; rfl
  | ifO ws n => rw [hsemV _ (by intro n h; cases h)]; rfl
  | els => rw [hsemV _ (by intro n h; cases h)]; rfl
  | ifC => rw [hsemV _ (by intro n h; cases h)]; rfl
  | eachO ws n => rw [hsemV _ (by intro n h; cases h)]; rfl
  | eachC => rw [hsemV _ (by intro n h; cases h)]; rfl

include hbf hreg in
theorem hT_loopSubst (fuel : Nat)
    (IH : ∀ n b, lookup n reg = some b →
      (renderTok cfg false (tokReg reg) ctx fuel (flatten b)).toOption.map Prod.fst = (specToks cfg reg ctx fuel b).toOption)
    (kvs : List (Str × Str)) (t : Tok) (hc : t.clean) :
    flatMapO (hT cfg reg ctx fuel) (loopSubst kvs t) = (specTok cfg ctx (incS cfg reg ctx fuel) kvs t).toOption := by
  have hval : ∀ v, flatMapO (hT cfg reg ctx fuel) (valTok v) = some (valTok v) := by
    intro v
    apply flatMapO_id_of
    intro x hx
    rw [mem_valTok hx]
    rfl
  have hK := hT_eq cfg reg ctx hbf hreg fuel IH
  cases t with
  | var n =>
    simp only [loopSubst, specTok]
    cases lookup n kvs with
    | some v => simpa [Except.toOption] using hval v
    | none =>
      simp only [flatMapO_singleton]
      rw [hK _ hc]; simp [specTok, lookup]
  | dot =>
    simp only [loopSubst, specTok]
    cases lookup kDot kvs with
    | some v => simpa [Except.toOption] using hval v
    | none =>
      simp only [flatMapO_singleton]
      rw [hK _ hc]; simp [specTok, lookup]
  | text s => simp only [loopSubst, flatMapO_singleton]; rw [hK _ hc]; rfl
  | val s => simp only [loopSubst, flatMapO_singleton]; rw [hK _ hc]; rfl
  | opt n => simp only [loopSubst, flatMapO_singleton]; rw [hK _ hc]; rfl
  | pipe n a => simp only [loopSubst, flatMapO_singleton]; rw [hK _ hc]; rfl
  | inc n => simp only [loopSubst, flatMapO_singleton]; rw [hK _ hc]; rfl
  | ifO ws n => simp only [loopSubst, flatMapO_singleton]; rw [hK _ hc]; rfl
  | els => simp only [loopSubst, flatMapO_singleton]; rw [hK _ hc]; rfl
  | ifC => simp only [loopSubst, flatMapO_singleton]; rw [hK _ hc]; rfl
  | eachO ws n => simp only [loopSubst, flatMapO_singleton]; rw [hK _ hc]; rfl
  | eachC => simp only [loopSubst, flatMapO_singleton]; rw [hK _ hc]; rfl

include hbf hreg in
theorem hT_items (fuel : Nat)
    (IH : ∀ n b, lookup n reg = some b →
      (renderTok cfg false (tokReg reg) ctx fuel (flatten b)).toOption.map Prod.fst = (specToks cfg reg ctx fuel b).toOption)
    (len : Nat) (b : List Tok) (hb : ∀ t ∈ b, t.clean) (its : List Item)
    (hits : ∀ it ∈ its, NoLB it.text ∧ ∀ p ∈ it.fields, NoLB p.2) (i : Nat) :
    flatMapO (hT cfg reg ctx fuel) (expandItemsTok cfg len b i its)
      = (specItems cfg ctx (incS cfg reg ctx fuel) len b i its).toOption := by
  induction its generalizing i with
  | nil => rfl
  | cons it its ih =>
    have hi := hits it (by simp)
    simp only [expandItemsTok, specItems, flatMapO_append]
    rw [ih (fun x hx => hits x (by simp [hx])) (i + 1)]
    rw [substTok_noLB cfg _ b (loopCtx_noLB i len it hi.1 hi.2), flatMapO_flatMap]
    rw [flatMapO_congr (fun t ht => hT_loopSubst cfg reg ctx hbf hreg fuel IH (loopCtx i len it) t (hb t ht))]
    rw [← flatMapM_toOption]
    cases flatMapM (specTok cfg ctx (incS cfg reg ctx fuel) (loopCtx i len it)) b <;>
      cases specItems cfg ctx (incS cfg reg ctx fuel) len b (i + 1) its <;> rfl

include hbf hreg in
theorem hT_seg (fuel : Nat)
    (IH : ∀ n b, lookup n reg = some b →
      (renderTok cfg false (tokReg reg) ctx fuel (flatten b)).toOption.map Prod.fst = (specToks cfg reg ctx fuel b).toOption)
    (s : Seg) (hc : s.clean) :
    flatMapO (hT cfg reg ctx fuel) (midSeg cfg ctx s) = (specSeg cfg ctx (incS cfg reg ctx fuel) s).toOption := by
  have hK := hT_eq cfg reg ctx hbf hreg fuel IH
  cases s with
  | tok t => simp only [midSeg, specSeg, flatMapO_singleton]; exact hK t hc
  | ifB ws n a e =>
    simp only [midSeg, specSeg, flatMapM_toOption]
    apply flatMapO_congr
    intro t ht
    apply hK
    split at ht
    · exact hc.1 t ht
    · exact hc.2 t ht
  | each ws n b =>
    simp only [midSeg, specSeg, loopReplTok]
    cases hl : lookup n ctx with
    | none => rfl
    | some v =>
      dsimp only
      cases hi : v.items with
      | none => rfl
      | some its => exact hT_items cfg reg ctx hbf hreg fuel IH _ b hc its (hbf.items n v its hl hi) 0

theorem mem_loopSubst_clean (kvs : List (Str × Str)) (t : Tok) (hc : t.clean) : ∀ x ∈ loopSubst kvs t, x.clean := by
  intro x hx
  cases t with
  | var n =>
    simp only [loopSubst] at hx
    split at hx
    · rw [mem_valTok hx]; trivial
    · simp at hx; subst hx; trivial
  | dot =>
    simp only [loopSubst] at hx
    split at hx
    · rw [mem_valTok hx]; trivial
    · simp at hx; subst hx; trivial
  | _ => simp [loopSubst] at hx; subst hx; exact hc

theorem mem_expandItemsTok_clean (len : Nat) (b : List Tok) (hb : ∀ t ∈ b, t.clean) (its : List Item)
    (hits : ∀ it ∈ its, NoLB it.text ∧ ∀ p ∈ it.fields, NoLB p.2) (i : Nat) :
    ∀ x ∈ expandItemsTok cfg len b i its, x.clean := by
  induction its generalizing i with
  | nil => intro x hx; simp [expandItemsTok] at hx
  | cons it its ih =>
    have hi := hits it (by simp)
    intro x hx
    simp only [expandItemsTok, List.mem_append] at hx
    rcases hx with hx | hx
    · rw [substTok_noLB cfg _ b (loopCtx_noLB i len it hi.1 hi.2)] at hx
      obtain ⟨t, ht, hxt⟩ := List.mem_flatMap.mp hx
      exact mem_loopSubst_clean _ t (hb t ht) x hxt
    · exact ih (fun y hy => hits y (by simp [hy])) (i + 1) x hx

include hbf in
theorem midSeg_clean (s : Seg) (hc : s.clean) : ∀ x ∈ midSeg cfg ctx s, x.clean := by
  intro x hx
  cases s with
  | tok t => simp [midSeg] at hx; subst hx; exact hc
  | ifB ws n a e =>
    simp only [midSeg] at hx
    split at hx
    · exact hc.1 _ hx
    · exact hc.2 _ hx
  | each ws n b =>
    simp only [midSeg, loopReplTok] at hx
    cases hl : lookup n ctx with
    | none => rw [hl] at hx; simp at hx
    | some v =>
      rw [hl] at hx
      dsimp only at hx
      cases hi : v.items with
      | none => rw [hi] at hx; simp at hx
      | some its =>
        rw [hi] at hx
        exact mem_expandItemsTok_clean cfg _ b hc its (hbf.items n v its hl hi) 0 x hx

include hbf hreg in
theorem incTok_clean (fuel : Nat)
    (IH : ∀ n b, lookup n reg = some b →
      (renderTok cfg false (tokReg reg) ctx fuel (flatten b)).toOption.map Prod.fst = (specToks cfg reg ctx fuel b).toOption)
    (t0 : Tok) (hc : t0.clean) (l : List Tok)
    (h : (incTok cfg (tokReg reg) (fun b => renderTok cfg false (tokReg reg) ctx fuel b) t0).toOption = some l) :
    ∀ x ∈ l, x.clean := by
  cases t0 with
  | inc n =>
    simp only [Tok.clean] at hc
    simp only [incTok, lookup_tokReg] at h
    cases hl : lookup n reg with
    | none =>
      rw [hl] at h
      simp only [Option.map, Except.toOption, Option.some.injEq] at h
      subst h
      have : markerToks cfg n = markerSpec cfg n := lex_noLB cfg _ (hbf.marker n hc)
      rw [this]
      intro x hx
      exact (stable_textTok cfg ctx _ x hx).2.1
    | some b =>
      rw [hl] at h
      simp only [Option.map] at h
      have ih := IH n b hl
      have hst := specToks_stable cfg reg ctx (fun n => stable_textTok cfg ctx _)
        (fun n b h => (hreg n b h).2) fuel b (hreg n b hl).2
      cases hr : renderTok cfg false (tokReg reg) ctx fuel (flatten b) with
      | error e => rw [hr] at h; simp [Except.toOption] at h
      | ok xw =>
        obtain ⟨x0, w⟩ := xw
        rw [hr] at h ih
        simp only [Except.toOption, Option.map, Option.some.injEq] at h ih
        subst h
        cases hs : specToks cfg reg ctx fuel b with
        | error e => rw [hs] at ih; cases ih
        | ok r =>
          rw [hs] at ih
          simp only [Option.some.injEq] at ih
          subst ih
          intro x hx
          exact (hst _ hs x hx).2.1
  | _ =>
    simp only [incTok, Except.toOption, Option.some.injEq] at h
    subst h
    intro x hx
    simp at hx; subst hx; exact hc

include hbf hreg in
/-- token-level passes = single expansion (token lists, errors compared as "no output") -/
theorem tok_eq_spec_aux :
    ∀ (fuel : Nat) (t : Tmpl), (∀ s ∈ t, s.wf = true) → (∀ s ∈ t, s.clean) →
      (renderTok cfg false (tokReg reg) ctx fuel (flatten t)).toOption.map Prod.fst
        = (specToks cfg reg ctx fuel t).toOption := by
  intro fuel
  induction fuel with
  | zero => intro t _ _; rfl
  | succ fuel ih =>
    intro t hwf hcl
    have IH : ∀ n b, lookup n reg = some b →
        (renderTok cfg false (tokReg reg) ctx fuel (flatten b)).toOption.map Prod.fst
          = (specToks cfg reg ctx fuel b).toOption :=
      fun n b h => ih b (hreg n b h).1 (hreg n b h).2
    rw [renderTok_succ_opt cfg, condPass_flatten ctx t hwf, loopPass_cond cfg ctx t hwf, specToks_succ,
      flatMapM_toOption, flatMapM_toOption]
    -- the variable pass, fused, on whatever the include pass produced
    have hbind : ∀ (o : Option (List Tok)),
        (∀ t3, o = some t3 → ∀ x ∈ t3, x.clean) →
        o.bind (fun t3 => (flatMapM (tokA cfg ctx) t3).toOption.map
          (fun t4 => ((passB cfg ctx t4).flatMap (tokC cfg ctx)).flatMap (tokD cfg ctx)))
        = o.bind (flatMapO (fun x => (semV cfg ctx x).toOption)) := by
      intro o ho
      cases o with
      | none => rfl
      | some t3 => exact varPass_fused cfg ctx hbf t3 (ho t3 rfl)
    rw [hbind]
    · rw [flatMapO_fuse, flatMapO_flatMap]
      apply flatMapO_congr
      intro s hs'
      exact hT_seg cfg reg ctx hbf hreg fuel IH s (hcl s hs')
    · -- everything the include pass hands to the variable pass is clean
      intro t3 ht3 x hx
      obtain ⟨t0, ht0, l, hl, hxl⟩ := mem_flatMapO ht3 hx
      have ht0c : t0.clean := by
        obtain ⟨s, hsm, hts⟩ := List.mem_flatMap.mp ht0
        exact midSeg_clean cfg ctx hbf s (hcl s hsm) t0 hts
      exact incTok_clean cfg reg ctx hbf hreg fuel IH t0 ht0c l hl x hxl

end Main

/-! ### strict mode, warnings, marker -/

theorem flatMapM_mono {ε α β : Type} {f g : α → Except ε (List β)} (h : ∀ t l, f t = .ok l → g t = .ok l)
    (ts : List α) (r : List β) (hr : flatMapM f ts = .ok r) : flatMapM g ts = .ok r := by
  induction ts generalizing r with
  | nil => simpa [flatMapM] using hr
  | cons a ts ih =>
    simp only [flatMapM] at hr ⊢
    cases hfa : f a with
    | error e => rw [hfa] at hr; cases hr
    | ok x =>
      rw [hfa] at hr
      rw [h a x hfa]
      cases hfr : flatMapM f ts with
      | error e => rw [hfr] at hr; cases hr
      | ok y =>
        rw [hfr] at hr
        rw [ih y hfr]
        exact hr

theorem incTok_mono (cfg : Cfg) (reg : Reg) (rec rec' : List Tok → Except Err (List Tok × List Str))
    (h : ∀ b r, rec b = .ok r → rec' b = .ok r) (t : Tok) (l : List Tok)
    (hl : incTok cfg reg rec t = .ok l) : incTok cfg reg rec' t = .ok l := by
  cases t with
  | inc n =>
    simp only [incTok] at hl ⊢
    cases hlk : lookup n reg with
    | none => rw [hlk] at hl; exact hl
    | some b =>
      rw [hlk] at hl
      dsimp only at hl ⊢
      cases hr : rec b with
      | error e => rw [hr] at hl; cases hl
      | ok xw => rw [hr] at hl; rw [h b xw hr]; exact hl
  | _ => exact hl

/-- a render that succeeds in strict mode is the non-strict render -/
theorem renderTok_strict_ok (cfg : Cfg) (reg : Reg) (ctx : Ctx) :
    ∀ (fuel : Nat) (ts : List Tok) (r : List Tok × List Str),
      renderTok cfg true reg ctx fuel ts = .ok r → renderTok cfg false reg ctx fuel ts = .ok r := by
  intro fuel
  induction fuel with
  | zero => intro ts r h; simp [renderTok] at h
  | succ fuel ih =>
    intro ts r h
    simp only [renderTok, Bool.true_and, Bool.false_and, Bool.false_eq_true, ↓reduceIte] at h ⊢
    split at h
    · cases h
    · cases hA : flatMapM (incTok cfg reg (fun b => renderTok cfg true reg ctx fuel b))
          (loopPass cfg ctx (condPass ctx ts)) with
      | error e => rw [hA] at h; cases h
      | ok t3 =>
        rw [hA] at h
        rw [flatMapM_mono (incTok_mono cfg reg _ _ (fun b r hb => ih b r hb)) _ t3 hA]
        exact h

theorem mem_varNames {n : Str} {l : List Tok} : n ∈ varNames l ↔ Tok.var n ∈ l := by
  induction l with
  | nil => simp [varNames]
  | cons t l ih => cases t <;> simp [varNames, ih]

/-- strict mode: an unbound `{{name}}` anywhere in the template is an error -/
theorem renderTok_strict_missing (cfg : Cfg) (reg : Reg) (ctx : Ctx) (fuel : Nat) (ts : List Tok) (n : Str)
    (hn : Tok.var n ∈ ts) (hb : isBound ctx n = false) :
    renderTok cfg true reg ctx (fuel + 1) ts = .error .value := by
  have : ((varNames ts).filter (fun n => !isBound ctx n)).isEmpty = false := by
    cases h : (varNames ts).filter (fun n => !isBound ctx n) with
    | nil =>
      have : n ∈ (varNames ts).filter (fun n => !isBound ctx n) :=
        List.mem_filter.mpr ⟨mem_varNames.mpr hn, by simp [hb]⟩
      rw [h] at this; cases this
    | cons a r => rfl
  simp only [renderTok, this, Bool.true_and, Bool.not_false, ↓reduceIte]

/-- non-strict mode: every unbound `{{name}}` of the template is among the warnings -/
theorem renderTok_warns_static (cfg : Cfg) (reg : Reg) (ctx : Ctx) (fuel : Nat) (ts out : List Tok) (w : List Str)
    (h : renderTok cfg false reg ctx (fuel + 1) ts = .ok (out, w)) (n : Str)
    (hn : Tok.var n ∈ ts) (hb : isBound ctx n = false) : n ∈ w := by
  simp only [renderTok, Bool.false_and, Bool.false_eq_true, ↓reduceIte] at h
  split at h
  · cases h
  · split at h
    · cases h
    · simp only [Except.ok.injEq, Prod.mk.injEq] at h
      rw [← h.2]
      apply List.mem_append_left
      apply List.mem_append_left
      exact List.mem_filter.mpr ⟨mem_varNames.mpr hn, by simp [hb]⟩

/-- non-strict mode, brace-free values: every `{{name}}` left in the OUTPUT (what the expansion found unbound,
    includes included) is among the warnings -/
theorem renderTok_warns_dynamic (cfg : Cfg) (reg : Reg) (ctx : Ctx) (htext : ∀ n, NoLB (textOf ctx n)) (fuel : Nat)
    (ts out : List Tok) (w : List Str)
    (h : renderTok cfg false reg ctx (fuel + 1) ts = .ok (out, w)) (n : Str) (hn : Tok.var n ∈ out) : n ∈ w := by
  simp only [renderTok, Bool.false_and, Bool.false_eq_true, ↓reduceIte] at h
  split at h
  · cases h
  · split at h
    · cases h
    · simp only [Except.ok.injEq, Prod.mk.injEq] at h
      rw [← h.2]
      apply List.mem_append_right
      rw [← h.1] at hn
      obtain ⟨t, ht, hnt⟩ := List.mem_flatMap.mp hn
      apply List.mem_flatMap.mpr
      refine ⟨t, ht, ?_⟩
      cases t with
      | var m =>
        simp only [tokD] at hnt
        split at hnt
        · rw [lexVal_noLB cfg _ (htext m)] at hnt; have := mem_valTok hnt; cases this
        · rename_i hbm
          simp at hnt; subst hnt
          simp [warnD, hbm]
      | _ => simp [tokD] at hnt

/-- an include of an unregistered name renders as the explicit marker naming it -/
theorem renderTok_unknown_include (cfg : Cfg) (strict : Bool) (reg : Reg) (ctx : Ctx) (fuel : Nat) (n : Str)
    (hreg : lookup n reg = none) (hm : NoLB (cfg.markerPre ++ n ++ cfg.markerSuf)) :
    renderTok cfg strict reg ctx (fuel + 1) [.inc n] = .ok (textTok (cfg.markerPre ++ n ++ cfg.markerSuf), []) := by
  have hmk : markerToks cfg n = textTok (cfg.markerPre ++ n ++ cfg.markerSuf) := lex_noLB cfg _ hm
  generalize cfg.markerPre ++ n ++ cfg.markerSuf = m at hmk ⊢
  by_cases hme : m = []
  · subst hme
    simp [renderTok, varNames, condPass, condGo, loopPass, loopGo, flatMapM, incTok, hreg, hmk, textTok, passB]
  · simp [renderTok, varNames, condPass, condGo, loopPass, loopGo, flatMapM, incTok, hreg, hmk, textTok, hme, tokA,
      passB, isPipe, tokC, tokD, warnA, warnD]

/-! ### non-interference of the specification: the contents of values never decide what is expanded -/

/-- forget what a spliced-in piece says, keep that (and where) it is there -/
def Tok.shape : Tok → Tok
  | .val _ => .val []
  | t => t

def shapeL (l : List Tok) : List Tok := l.map Tok.shape

def fresOk : FRes → Bool
  | .ok _ => true
  | .raise _ => false

/-- pointwise relation between two lists of equal length -/
inductive All2 {α β : Type} (R : α → β → Prop) : List α → List β → Prop
  | nil : All2 R [] []
  | cons {a b l l'} : R a b → All2 R l l' → All2 R (a :: l) (b :: l')

/-- items agree in everything but what their texts say -/
def ItemSim (a b : Item) : Prop := a.fields.map Prod.fst = b.fields.map Prod.fst

/-- values agree in truthiness, list-ness, number of items and dict keys — not in content -/
def ValSim (v v' : Val) : Prop :=
  v.truthy = v'.truthy ∧ v.items.isSome = v'.items.isSome ∧ All2 ItemSim (v.items.getD []) (v'.items.getD [])

def CtxSim : Ctx → Ctx → Prop := All2 (fun p q => p.1 = q.1 ∧ ValSim p.2 q.2)

/-- two environments that agree on everything except what filter results say -/
structure EnvSim (cfg cfg' : Cfg) : Prop where
  isWord : cfg'.isWord = cfg.isWord
  filters : cfg'.filters = cfg.filters
  mpre : cfg'.markerPre = cfg.markerPre
  msuf : cfg'.markerSuf = cfg.markerSuf
  applyF : ∀ f n, fresOk (cfg'.applyF f n) = fresOk (cfg.applyF f n)

theorem lookup_isSome_iff {α : Type} (k : Str) (l : List (Str × α)) : (lookup k l).isSome = true ↔ k ∈ l.map Prod.fst := by
  induction l with
  | nil => simp [lookup]
  | cons p l ih =>
    simp only [lookup, List.map_cons, List.mem_cons]
    split
    · rename_i h; simp [h]
    · rename_i h
      rw [ih]
      constructor
      · intro hm; exact Or.inr hm
      · intro hm; rcases hm with hm | hm
        · exact absurd hm.symm h
        · exact hm

theorem lookup_isSome_keys {α β : Type} (k : Str) (l : List (Str × α)) (l' : List (Str × β))
    (h : l.map Prod.fst = l'.map Prod.fst) : (lookup k l).isSome = (lookup k l').isSome := by
  have a := lookup_isSome_iff k l
  have b := lookup_isSome_iff k l'
  rw [h] at a
  cases h1 : (lookup k l).isSome <;> cases h2 : (lookup k l').isSome <;> simp_all

theorem updKey_keys (kvs : List (Str × Str)) (k v : Str) :
    (updKey kvs k v).map Prod.fst = if k ∈ kvs.map Prod.fst then kvs.map Prod.fst else kvs.map Prod.fst ++ [k] := by
  unfold updKey
  have hany : (kvs.any fun p => p.1 == k) = true ↔ k ∈ kvs.map Prod.fst := by
    simp only [List.any_eq_true, beq_iff_eq, List.mem_map]
  by_cases h : k ∈ kvs.map Prod.fst
  · rw [if_pos (hany.mpr h), if_pos h, List.map_map]
    apply List.map_congr_left
    intro p _
    simp only [Function.comp]
    split
    · rename_i hp; exact hp.symm
    · rfl
  · rw [if_neg (fun hh => h (hany.mp hh)), if_neg h]
    simp

theorem foldl_updKey_keys (fs fs' : List (Str × Str)) (hk : fs.map Prod.fst = fs'.map Prod.fst)
    (l l' : List (Str × Str)) (hl : l.map Prod.fst = l'.map Prod.fst) :
    (fs.foldl (fun acc p => updKey acc p.1 p.2) l).map Prod.fst
      = (fs'.foldl (fun acc p => updKey acc p.1 p.2) l').map Prod.fst := by
  induction fs generalizing fs' l l' with
  | nil =>
    cases fs' with
    | nil => simpa using hl
    | cons q fs' => simp at hk
  | cons p fs ih =>
    cases fs' with
    | nil => simp at hk
    | cons q fs' =>
      simp only [List.map_cons, List.cons.injEq] at hk
      simp only [List.foldl_cons]
      apply ih fs' hk.2
      rw [updKey_keys, updKey_keys, hl, hk.1]

theorem loopCtx_keys (i len i' len' : Nat) (a b : Item) (h : ItemSim a b) :
    (loopCtx i len a).map Prod.fst = (loopCtx i' len' b).map Prod.fst := by
  unfold loopCtx
  exact foldl_updKey_keys _ _ h _ _ rfl

theorem lookup_sim (n : Str) (ctx ctx' : Ctx) (h : CtxSim ctx ctx') :
    (lookup n ctx = none ∧ lookup n ctx' = none) ∨
      ∃ v v', lookup n ctx = some v ∧ lookup n ctx' = some v' ∧ ValSim v v' := by
  induction h with
  | nil => left; exact ⟨rfl, rfl⟩
  | @cons p q l l' hpq _ ih =>
    simp only [lookup]
    rw [← hpq.1]
    split
    · right; exact ⟨p.2, q.2, rfl, rfl, hpq.2⟩
    · exact ih

theorem isBound_sim (n : Str) (ctx ctx' : Ctx) (h : CtxSim ctx ctx') : isBound ctx' n = isBound ctx n := by
  unfold isBound
  rcases lookup_sim n ctx ctx' h with ⟨a, b⟩ | ⟨v, v', a, b, _⟩ <;> simp [a, b]

theorem truthyOf_sim (n : Str) (ctx ctx' : Ctx) (h : CtxSim ctx ctx') : truthyOf ctx' n = truthyOf ctx n := by
  unfold truthyOf
  rcases lookup_sim n ctx ctx' h with ⟨a, b⟩ | ⟨v, v', a, b, hv⟩
  · simp [a, b]
  · simp [a, b, hv.1.symm]

theorem shapeL_append (a b : List Tok) : shapeL (a ++ b) = shapeL a ++ shapeL b := by simp [shapeL]

theorem flatMapO_shape_congr {α : Type} (f g : α → Option (List Tok)) (ts : List α)
    (h : ∀ t ∈ ts, (f t).map shapeL = (g t).map shapeL) :
    (flatMapO f ts).map shapeL = (flatMapO g ts).map shapeL := by
  induction ts with
  | nil => rfl
  | cons a ts ih =>
    have h1 := h a (by simp)
    have h2 := ih (fun t ht => h t (by simp [ht]))
    simp only [flatMapO]
    cases hfa : f a <;> cases hga : g a <;> cases hfr : flatMapO f ts <;> cases hgr : flatMapO g ts <;>
      simp_all [shapeL_append]

theorem flatMapM_shape_congr {α : Type} (f g : α → Except Err (List Tok)) (ts : List α)
    (h : ∀ t ∈ ts, (f t).toOption.map shapeL = (g t).toOption.map shapeL) :
    (flatMapM f ts).toOption.map shapeL = (flatMapM g ts).toOption.map shapeL := by
  rw [flatMapM_toOption, flatMapM_toOption]
  exact flatMapO_shape_congr _ _ ts h

section Sim
variable (cfg cfg' : Cfg) (hE : EnvSim cfg cfg') (ctx ctx' : Ctx) (hC : CtxSim ctx ctx')

include hE in
theorem isWordStr_sim (a : Str) : isWordStr cfg' a = isWordStr cfg a := by
  unfold isWordStr; rw [hE.isWord]

include hE hC in
theorem semV_sim (t : Tok) :
    (semV cfg ctx t).toOption.map shapeL = (semV cfg' ctx' t).toOption.map shapeL := by
  cases t with
  | var n =>
    simp only [semV, isBound_sim n ctx ctx' hC]
    split <;> simp [Except.toOption, shapeL, valTok, Tok.shape]
  | opt n => simp [semV, Except.toOption, shapeL, valTok, Tok.shape]
  | pipe n a =>
    simp only [semV, pipeSem, isBound_sim n ctx ctx' hC, isWordStr_sim cfg cfg' hE, hE.filters]
    split
    · split
      · have := hE.applyF a n
        cases h1 : cfg.applyF a n <;> cases h2 : cfg'.applyF a n <;>
          simp_all [fresOk, Except.toOption, shapeL, valTok, Tok.shape]
      · rfl
    · split
      · rfl
      · simp [Except.toOption, shapeL, valTok, Tok.shape]
  | _ => rfl

include hE hC in
theorem specTok_sim (inc inc' : Str → Except Err (List Tok))
    (hinc : ∀ n, (inc n).toOption.map shapeL = (inc' n).toOption.map shapeL)
    (loop loop' : List (Str × Str)) (hl : loop.map Prod.fst = loop'.map Prod.fst) (t : Tok) :
    (specTok cfg ctx inc loop t).toOption.map shapeL = (specTok cfg' ctx' inc' loop' t).toOption.map shapeL := by
  have hs := semV_sim cfg cfg' hE ctx ctx' hC
  cases t with
  | var n =>
    simp only [specTok]
    have := lookup_isSome_keys n loop loop' hl
    cases h1 : lookup n loop <;> cases h2 : lookup n loop' <;> simp_all [Except.toOption, shapeL, valTok, Tok.shape]
  | dot =>
    simp only [specTok]
    have := lookup_isSome_keys kDot loop loop' hl
    cases h1 : lookup kDot loop <;> cases h2 : lookup kDot loop' <;>
      simp_all [Except.toOption, shapeL, valTok, Tok.shape]
  | inc n => exact hinc n
  | text s => exact hs (.text s)
  | val s => exact hs (.val s)
  | opt n => exact hs (.opt n)
  | pipe n a => exact hs (.pipe n a)
  | ifO ws n => exact hs (.ifO ws n)
  | els => exact hs (.els)
  | ifC => exact hs (.ifC)
  | eachO ws n => exact hs (.eachO ws n)
  | eachC => exact hs (.eachC)

include hE hC in
theorem specItems_sim (inc inc' : Str → Except Err (List Tok))
    (hinc : ∀ n, (inc n).toOption.map shapeL = (inc' n).toOption.map shapeL)
    (len len' : Nat) (b : List Tok) (its its' : List Item) (h : All2 ItemSim its its') (i : Nat) :
    (specItems cfg ctx inc len b i its).toOption.map shapeL
      = (specItems cfg' ctx' inc' len' b i its').toOption.map shapeL := by
  induction h generalizing i with
  | nil => rfl
  | @cons a a' l l' hab _ ih =>
    simp only [specItems]
    have h1 := flatMapM_shape_congr (specTok cfg ctx inc (loopCtx i len a)) (specTok cfg' ctx' inc' (loopCtx i len' a')) b
      (fun t _ => specTok_sim cfg cfg' hE ctx ctx' hC inc inc' hinc _ _ (loopCtx_keys i len i len' a a' hab) t)
    have h2 := ih (i + 1)
    cases hx : flatMapM (specTok cfg ctx inc (loopCtx i len a)) b <;>
      cases hx' : flatMapM (specTok cfg' ctx' inc' (loopCtx i len' a')) b <;>
      cases hy : specItems cfg ctx inc len b (i + 1) l <;>
      cases hy' : specItems cfg' ctx' inc' len' b (i + 1) l' <;>
      simp_all [Except.toOption, shapeL_append]

include hE hC in
theorem specSeg_sim (inc inc' : Str → Except Err (List Tok))
    (hinc : ∀ n, (inc n).toOption.map shapeL = (inc' n).toOption.map shapeL) (s : Seg) :
    (specSeg cfg ctx inc s).toOption.map shapeL = (specSeg cfg' ctx' inc' s).toOption.map shapeL := by
  cases s with
  | tok t => exact specTok_sim cfg cfg' hE ctx ctx' hC inc inc' hinc [] [] rfl t
  | ifB ws n a e =>
    simp only [specSeg, truthyOf_sim n ctx ctx' hC]
    exact flatMapM_shape_congr _ _ _ (fun t _ => specTok_sim cfg cfg' hE ctx ctx' hC inc inc' hinc [] [] rfl t)
  | each ws n b =>
    simp only [specSeg]
    rcases lookup_sim n ctx ctx' hC with ⟨h1, h2⟩ | ⟨v, v', h1, h2, hv⟩
    · rw [h1, h2]
    · rw [h1, h2]
      dsimp only
      obtain ⟨_, hsome, hits⟩ := hv
      cases hi : v.items <;> cases hi' : v'.items <;> simp_all
      exact specItems_sim cfg cfg' hE ctx ctx' hC inc inc' hinc _ _ b _ _ hits 0

include hE hC in
theorem specToks_sim (reg : SReg) : ∀ (fuel : Nat) (t : Tmpl),
    (specToks cfg reg ctx fuel t).toOption.map shapeL = (specToks cfg' reg ctx' fuel t).toOption.map shapeL := by
  intro fuel
  induction fuel with
  | zero => intro t; rfl
  | succ fuel ih =>
    intro t
    simp only [specToks]
    apply flatMapM_shape_congr
    intro s _
    apply specSeg_sim cfg cfg' hE ctx ctx' hC
    intro n
    cases lookup n reg with
    | some b => exact ih b
    | none => simp [markerSpec, hE.mpre, hE.msuf]

end Sim

/-! ### grammar templates; decidable sufficient check for `BF` -/

/-- a template of the documented grammar: blocks are not nested (bodies hold inline constructs only), and what the
    template itself writes as a default or as an include name contains no `{` -/
def Grammar (t : Tmpl) : Prop := (∀ s ∈ t, s.wf = true) ∧ (∀ s ∈ t, s.clean)

/-- every registered template is a grammar template -/
def GrammarReg (reg : SReg) : Prop := ∀ n b, lookup n reg = some b → Grammar b

theorem GrammarReg.split {reg : SReg} (h : GrammarReg reg) :
    ∀ n b, lookup n reg = some b → (∀ s ∈ b, s.wf = true) ∧ ∀ s ∈ b, s.clean := h

def noLBb (s : Str) : Bool := s.all (· != 123)

theorem NoLB_of_bool {s : Str} (h : noLBb s = true) : NoLB s := by
  intro hm
  have := List.all_eq_true.mp h 123 hm
  simp at this

/-- every value, item and field of the context is free of `{` (decidable check) -/
def ctxOK (ctx : Ctx) : Bool :=
  ctx.all fun p => noLBb p.2.text &&
    (p.2.items.getD []).all fun it => noLBb it.text && it.fields.all fun f => noLBb f.2

theorem lookup_mem {α : Type} (n : Str) (l : List (Str × α)) (v : α) (h : lookup n l = some v) : ∃ k, (k, v) ∈ l := by
  induction l with
  | nil => simp [lookup] at h
  | cons p l ih =>
    simp only [lookup] at h
    split at h
    · cases h; exact ⟨p.1, by simp⟩
    · obtain ⟨k, hk⟩ := ih h; exact ⟨k, by simp [hk]⟩

theorem BF_of_ok (cfg : Cfg) (ctx : Ctx) (h : ctxOK ctx = true) (hf : ∀ f n r, cfg.applyF f n = .ok r → NoLB r)
    (hp : NoLB cfg.markerPre) (hs : NoLB cfg.markerSuf) : BF cfg ctx := by
  have hall := List.all_eq_true.mp h
  refine ⟨?_, ?_, hf, ?_⟩
  · intro n
    unfold textOf
    cases hl : lookup n ctx with
    | none => exact NoLB_nil
    | some v =>
      obtain ⟨k, hk⟩ := lookup_mem n ctx v hl
      have := hall _ hk
      simp only [Bool.and_eq_true] at this
      exact NoLB_of_bool this.1
  · intro n v its hl hi it hit
    obtain ⟨k, hk⟩ := lookup_mem n ctx v hl
    have := hall _ hk
    simp only [Bool.and_eq_true, hi, Option.getD_some] at this
    have h2 := List.all_eq_true.mp this.2 it hit
    simp only [Bool.and_eq_true] at h2
    exact ⟨NoLB_of_bool h2.1, fun p hp' => NoLB_of_bool (List.all_eq_true.mp h2.2 p hp')⟩
  · intro n hn
    intro hm
    simp only [List.mem_append] at hm
    rcases hm with (hm | hm) | hm
    · exact hp hm
    · exact hn hm
    · exact hs hm

/-! ### `parse` recovers a grammar template from its tokens -/

theorem parseGo_thn_close (ws n : Str) (acc a r : List Tok) (h : ∀ x ∈ a, x.inline = true) :
    parseGo (.thn ws n acc) (a ++ .ifC :: r) = (parseGo .out r).map (Seg.ifB ws n (acc ++ a) none :: ·) := by
  induction a generalizing acc with
  | nil => simp [parseGo]
  | cons x a ih =>
    have hx := h x (by simp)
    have := ih (acc ++ [x]) (fun y hy => h y (by simp [hy]))
    cases x <;> simp_all [parseGo, Tok.inline]

theorem parseGo_els_close (ws n : Str) (t acc e r : List Tok) (h : ∀ x ∈ e, x.inline = true) :
    parseGo (.els ws n t acc) (e ++ .ifC :: r) = (parseGo .out r).map (Seg.ifB ws n t (some (acc ++ e)) :: ·) := by
  induction e generalizing acc with
  | nil => simp [parseGo]
  | cons x e ih =>
    have hx := h x (by simp)
    have := ih (acc ++ [x]) (fun y hy => h y (by simp [hy]))
    cases x <;> simp_all [parseGo, Tok.inline]

theorem parseGo_thn_else (ws n : Str) (acc a e r : List Tok) (ha : ∀ x ∈ a, x.inline = true)
    (he : ∀ x ∈ e, x.inline = true) :
    parseGo (.thn ws n acc) (a ++ .els :: (e ++ .ifC :: r))
      = (parseGo .out r).map (Seg.ifB ws n (acc ++ a) (some e) :: ·) := by
  induction a generalizing acc with
  | nil => simpa [parseGo] using parseGo_els_close ws n acc [] e r he
  | cons x a ih =>
    have hx := ha x (by simp)
    have := ih (acc ++ [x]) (fun y hy => ha y (by simp [hy]))
    cases x <;> simp_all [parseGo, Tok.inline]

theorem parseGo_body_close (ws n : Str) (acc b r : List Tok) (h : ∀ x ∈ b, x.inline = true) :
    parseGo (.body ws n acc) (b ++ .eachC :: r) = (parseGo .out r).map (Seg.each ws n (acc ++ b) :: ·) := by
  induction b generalizing acc with
  | nil => simp [parseGo]
  | cons x b ih =>
    have hx := h x (by simp)
    have := ih (acc ++ [x]) (fun y hy => h y (by simp [hy]))
    cases x <;> simp_all [parseGo, Tok.inline]

theorem parseGo_seg (s : Seg) (hs : s.wf = true) (r : List Tok) :
    parseGo .out (s.flatten ++ r) = (parseGo .out r).map (s :: ·) := by
  cases s with
  | tok t =>
    simp only [Seg.wf] at hs
    cases t <;> simp_all [Seg.flatten, parseGo, Tok.inline]
  | ifB ws n a e =>
    simp only [Seg.wf, Bool.and_eq_true, List.all_eq_true] at hs
    cases e with
    | none => simpa [Seg.flatten, parseGo] using parseGo_thn_close ws n [] a r hs.1
    | some e => simpa [Seg.flatten, parseGo] using parseGo_thn_else ws n [] a e r hs.1 (by simpa using hs.2)
  | each ws n b =>
    simp only [Seg.wf, List.all_eq_true] at hs
    simpa [Seg.flatten, parseGo] using parseGo_body_close ws n [] b r hs

theorem parse_flatten (t : Tmpl) (hwf : ∀ s ∈ t, s.wf = true) : parse (flatten t) = some t := by
  unfold parse flatten
  induction t with
  | nil => rfl
  | cons s t ih =>
    simp only [List.flatMap_cons]
    rw [parseGo_seg s (hwf s (by simp)), ih (fun x hx => hwf x (by simp [hx]))]
    rfl

/-! ### where a warning can come from -/

/-- the three sources of a warning: the raw scan for `{{name}}`, the no-such-filter notice of sub-pass 1, a
    `{{name}}` left in the output by sub-pass 4 -/
theorem renderTok_warns_split (cfg : Cfg) (reg : Reg) (ctx : Ctx) (fuel : Nat) (ts out : List Tok) (w : List Str)
    (h : renderTok cfg false reg ctx (fuel + 1) ts = .ok (out, w)) (n : Str) (hn : n ∈ w) :
    (Tok.var n ∈ ts ∧ isBound ctx n = false) ∨
    (∃ v, isBound ctx v = true ∧ isWordStr cfg n = true ∧ cfg.filters.contains n = false) ∨
    Tok.var n ∈ out := by
  simp only [renderTok, Bool.false_and, Bool.false_eq_true, ↓reduceIte] at h
  split at h
  · cases h
  · split at h
    · cases h
    · simp only [Except.ok.injEq, Prod.mk.injEq] at h
      rw [← h.2] at hn
      rcases List.mem_append.mp hn with hn | hn
      · rcases List.mem_append.mp hn with hn | hn
        · left
          have := List.mem_filter.mp hn
          exact ⟨mem_varNames.mp this.1, by simpa using this.2⟩
        · right; left
          obtain ⟨t, _, hnt⟩ := List.mem_flatMap.mp hn
          cases t with
          | pipe v a =>
            simp only [warnA] at hnt
            split at hnt
            · rename_i hc
              simp at hnt; subst hnt
              simp only [Bool.and_eq_true, Bool.not_eq_true'] at hc
              exact ⟨v, hc.1.2, hc.1.1, hc.2⟩
            · simp at hnt
          | _ => simp [warnA] at hnt
      · right; right
        rw [← h.1]
        obtain ⟨t, ht, hnt⟩ := List.mem_flatMap.mp hn
        cases t with
        | var m =>
          simp only [warnD] at hnt
          split at hnt
          · simp at hnt
          · rename_i hb
            simp at hnt; subst hnt
            exact List.mem_flatMap.mpr ⟨_, ht, by simp [tokD, hb]⟩
        | _ => simp [warnD] at hnt

end Operon.Tmpl
