import Operon.Lemmas.Cffl
/-! Helper lemmas for C08: the breaker automaton and its invariants over histories. -/
namespace Operon.Cffl

/-! ### the breaker automaton -/

/-- "not closed ⇒ the failure count has reached the threshold" -/
def BrInv (cfg : Cfg) (b : Breaker) : Prop := b.cstate ≠ .closed → cfg.threshold ≤ (b.failures : Int)

theorem enter_cases (cfg : Cfg) (now : Nat) (b : Breaker) :
    enter cfg now b = b ∨
    (cfg.breakerOn = true ∧ b.cstate = .opened ∧ elapsedOk cfg now b = true ∧
      enter cfg now b = { b with cstate := .halfOpen }) := by
  unfold enter
  cases cfg.breakerOn <;> cases hc : b.cstate <;> cases elapsedOk cfg now b <;> simp

theorem brStep_inv (cfg : Cfg) (now : Nat) (b : Breaker) (k : Kind) (h : BrInv cfg b) :
    BrInv cfg (brStep cfg now b k) ∧
    (brStep cfg now b k).failures ≤ b.failures + (if k.isFailure then 1 else 0) := by
  unfold BrInv at *
  unfold brStep
  by_cases hk : k = .circuitOpen
  · simp [hk, Kind.isFailure]; exact h
  · rw [if_neg hk]
    rcases enter_cases cfg now b with ha | ⟨_, hopen, _, ha⟩
    · rw [ha]
      cases k with
      | circuitOpen => exact absurd rfl hk
      | cacheHit => simpa [applyKind, Kind.isFailure] using h
      | raised => simpa [applyKind, Kind.isFailure] using h
      | admin => simpa [applyKind, Kind.isFailure] using h
      | aborted => simpa [applyKind, Kind.isFailure] using h
      | agentExc =>
        simp only [applyKind, Kind.isFailure, recordFailure]
        cases hc : b.cstate <;> simp [hc] at h ⊢
        · split <;> simp_all
        · omega
        · omega
      | gated ev =>
        cases ev with
        | neither => simpa [applyKind, applyEvent, Kind.isFailure] using h
        | success =>
          simp only [applyKind, applyEvent, Kind.isFailure, recordSuccess]
          cases hc : b.cstate <;> simp [hc] at h ⊢
          exact h
        | failure =>
          simp only [applyKind, applyEvent, Kind.isFailure, recordFailure]
          cases hc : b.cstate <;> simp [hc] at h ⊢
          · split <;> simp_all
          · omega
          · omega
    · rw [ha]
      have hthr : cfg.threshold ≤ (b.failures : Int) := h (by simp [hopen])
      cases k with
      | circuitOpen => exact absurd rfl hk
      | cacheHit => simp [applyKind, Kind.isFailure]; exact hthr
      | raised => simp [applyKind, Kind.isFailure]; exact hthr
      | admin => simp [applyKind, Kind.isFailure]; exact hthr
      | aborted => simp [applyKind, Kind.isFailure]; exact hthr
      | agentExc => simp [applyKind, Kind.isFailure, recordFailure]; omega
      | gated ev =>
        cases ev with
        | neither => simp [applyKind, applyEvent, Kind.isFailure]; exact hthr
        | success => simp [applyKind, applyEvent, Kind.isFailure, recordSuccess]
        | failure => simp [applyKind, applyEvent, Kind.isFailure, recordFailure]; omega

/-- one step of a history: the invariant is kept and the failure count grows by at most the step's
    failure outcome -/
theorem step_inv (cfg : Cfg) (H : Hashes) (s : State) (op : Op) (h : BrInv cfg s.br) :
    BrInv cfg (step cfg H s op).1.br ∧
    (step cfg H s op).1.br.failures ≤ s.br.failures + (if (step cfg H s op).2.kind.isFailure then 1 else 0) := by
  cases op with
  | run p zr yr =>
    simp only [step]
    have hb := run_br cfg H s p zr yr
    rw [hb.1]
    exact brStep_inv cfg s.now s.br _ h
  | adv d => simpa [step, Kind.isFailure] using h
  | resetcb => simp [step, Kind.isFailure, resetBreaker, BrInv]
  | clearcache => simpa [step, Kind.isFailure] using h

theorem exec_cons (cfg : Cfg) (H : Hashes) (s : State) (op : Op) (ops : List Op) :
    exec cfg H s (op :: ops) =
      ((exec cfg H (step cfg H s op).1 ops).1, ⟨op, (step cfg H s op).2⟩ :: (exec cfg H (step cfg H s op).1 ops).2) := rfl

theorem failureCount_cons (o : Obs) (tr : List Obs) :
    failureCount (o :: tr) = (if o.out.kind.isFailure then 1 else 0) + failureCount tr := by
  unfold failureCount
  cases h : o.out.kind.isFailure <;> simp [h]
  omega

theorem exec_inv (cfg : Cfg) (H : Hashes) (ops : List Op) : ∀ (s : State), BrInv cfg s.br →
    BrInv cfg (exec cfg H s ops).1.br ∧
    (exec cfg H s ops).1.br.failures ≤ s.br.failures + failureCount (exec cfg H s ops).2 := by
  induction ops with
  | nil => intro s h; simpa [exec, failureCount] using h
  | cons op ops ih =>
    intro s h
    rw [exec_cons]
    have h1 := step_inv cfg H s op h
    have h2 := ih (step cfg H s op).1 h1.1
    refine ⟨h2.1, ?_⟩
    rw [failureCount_cons]
    simp only
    omega

/-! ### consecutive failures -/

/-- after `m ≥ 1` consecutive failure outcomes: open, or still closed with at least `m` failures counted
    and the count below the threshold -/
def AfterFailures (cfg : Cfg) (b : Breaker) (m : Nat) : Prop :=
  b.cstate = .opened ∨ (b.cstate = .closed ∧ m ≤ b.failures ∧ (b.failures : Int) < cfg.threshold)

theorem recordFailure_after (cfg : Cfg) (now : Nat) (b : Breaker) (m : Nat)
    (h : m = 0 ∨ b.cstate = .halfOpen ∨ AfterFailures cfg b m) :
    AfterFailures cfg (recordFailure cfg now b) (m + 1) := by
  unfold AfterFailures at *
  unfold recordFailure
  cases hc : b.cstate <;> simp [hc] at h ⊢
  · split
    · simp
    · simp; omega

theorem brStep_failure (cfg : Cfg) (now : Nat) (b : Breaker) (k : Kind) (m : Nat) (hk : k.isFailure = true)
    (h : m = 0 ∨ AfterFailures cfg b m) : AfterFailures cfg (brStep cfg now b k) (m + 1) := by
  have hne : k ≠ .circuitOpen := by intro h; subst h; simp [Kind.isFailure] at hk
  have hap : applyKind cfg now (enter cfg now b) k = recordFailure cfg now (enter cfg now b) := by
    cases k with
    | agentExc => rfl
    | gated ev => cases ev <;> simp [Kind.isFailure] at hk; rfl
    | _ => simp [Kind.isFailure] at hk
  unfold brStep
  rw [if_neg hne, hap]
  apply recordFailure_after
  rcases enter_cases cfg now b with ha | ⟨_, _, _, ha⟩
  · rw [ha]
    rcases h with h | h
    · exact Or.inl h
    · exact Or.inr (Or.inr h)
  · rw [ha]; right; left; rfl

/-- histories made of failure outcomes and clock advances only -/
theorem exec_failures (cfg : Cfg) (H : Hashes) (ops : List Op) : ∀ (s : State) (m : Nat),
    (m = 0 ∨ AfterFailures cfg s.br m) →
    (∀ o ∈ (exec cfg H s ops).2, o.out.kind.isFailure = true ∨ ∃ d, o.op = .adv d) →
    (m + failureCount (exec cfg H s ops).2 = 0 ∨
      AfterFailures cfg (exec cfg H s ops).1.br (m + failureCount (exec cfg H s ops).2)) := by
  induction ops with
  | nil => intro s m h _; simpa [exec, failureCount] using h
  | cons op ops ih =>
    intro s m h hall
    rw [exec_cons] at hall ⊢
    rw [failureCount_cons]
    simp only [List.mem_cons, forall_eq_or_imp] at hall
    obtain ⟨h0, hrest⟩ := hall
    rcases h0 with hf | ⟨d, hd⟩
    · -- a failure outcome: necessarily a `run`
      cases op with
      | run p zr yr =>
        simp only [step] at hf ⊢
        have hb := run_br cfg H s p zr yr
        have h1 : AfterFailures cfg (run cfg H s p zr yr).1.br (m + 1) := by
          rw [hb.1]; exact brStep_failure cfg s.now s.br _ m hf h
        have := ih (run cfg H s p zr yr).1 (m + 1) (Or.inr h1) hrest
        simp only [hf, ↓reduceIte]
        have e : m + (1 + failureCount (exec cfg H (run cfg H s p zr yr).1 ops).2)
            = m + 1 + failureCount (exec cfg H (run cfg H s p zr yr).1 ops).2 := by omega
        rw [e]; exact this
      | adv d => simp [step, Kind.isFailure] at hf
      | resetcb => simp [step, Kind.isFailure] at hf
      | clearcache => simp [step, Kind.isFailure] at hf
    · subst hd
      have := ih (step cfg H s (.adv d)).1 m (by simpa [step] using h) hrest
      simpa [step, Kind.isFailure] using this

/-! ### isolation while open -/

def totalAdv : List Op → Nat
  | [] => 0
  | .adv d :: ops => d + totalAdv ops
  | _ :: ops => totalAdv ops

theorem rejects_of_open (cfg : Cfg) (now : Nat) (b : Breaker) (hon : cfg.breakerOn = true)
    (ho : b.cstate = .opened) (ht : ∀ t, b.lastFailure = some t → (now : Int) - (t : Int) < cfg.timeout) :
    rejects cfg now b = true := by
  unfold rejects elapsedOk
  simp [hon, ho]
  cases hl : b.lastFailure with
  | none => simp
  | some t => simp; exact ht t hl

theorem not_rejects_of_elapsed (cfg : Cfg) (now : Nat) (b : Breaker) (t : Nat)
    (hl : b.lastFailure = some t) (ht : cfg.timeout ≤ (now : Int) - (t : Int)) :
    rejects cfg now b = false := by
  unfold rejects elapsedOk
  simp [hl, ht]

/-- what a non-failure request can do to the breaker -/
theorem brStep_nonfailure (cfg : Cfg) (now : Nat) (b : Breaker) (k : Kind) (hk : k.isFailure = false) :
    (brStep cfg now b k).totalErrors = b.totalErrors ∧ (brStep cfg now b k).failures ≤ b.failures ∧
    (brStep cfg now b k).lastFailure = b.lastFailure ∧ (brStep cfg now b k).trips = b.trips ∧
    ((brStep cfg now b k).cstate = .opened → b.cstate = .opened) := by
  unfold brStep
  by_cases hc : k = .circuitOpen
  · simp [hc]
  · rw [if_neg hc]
    have key : ∀ b' : Breaker, (b' = b ∨ b' = { b with cstate := .halfOpen }) →
        (applyKind cfg now b' k).totalErrors = b.totalErrors ∧ (applyKind cfg now b' k).failures ≤ b.failures ∧
        (applyKind cfg now b' k).lastFailure = b.lastFailure ∧ (applyKind cfg now b' k).trips = b.trips ∧
        ((applyKind cfg now b' k).cstate = .opened → b.cstate = .opened ∧ b' = b) := by
      intro b' hb'
      cases k with
      | agentExc => simp [Kind.isFailure] at hk
      | gated ev =>
        cases ev with
        | failure => simp [Kind.isFailure] at hk
        | neither => rcases hb' with h | h <;> subst h <;> simp [applyKind, applyEvent]
        | success =>
          rcases hb' with h | h <;> rw [h] <;> simp only [applyKind, applyEvent, recordSuccess]
          · cases hcs : b.cstate <;> simp
          · simp
      | circuitOpen => exact absurd rfl hc
      | cacheHit => rcases hb' with h | h <;> subst h <;> simp [applyKind]
      | raised => rcases hb' with h | h <;> subst h <;> simp [applyKind]
      | admin => rcases hb' with h | h <;> subst h <;> simp [applyKind]
      | aborted => rcases hb' with h | h <;> subst h <;> simp [applyKind]
    rcases enter_cases cfg now b with ha | ⟨_, _, _, ha⟩
    · have := key _ (Or.inl ha)
      exact ⟨this.1, this.2.1, this.2.2.1, this.2.2.2.1, fun h => (this.2.2.2.2 h).1⟩
    · have := key _ (Or.inr ha)
      exact ⟨this.1, this.2.1, this.2.2.1, this.2.2.2.1, fun h => (this.2.2.2.2 h).1⟩

end Operon.Cffl
