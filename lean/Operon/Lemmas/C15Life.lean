import Operon.Lemmas.C15
import Operon.Model.CoordLife
/-! Life-cycle calls (`advance`, flags / exemption assigned from outside, time passing) change nothing that the lock
    machinery, the dependency graph, the deadlock detector or the victim rule read (C15). -/
namespace Operon.Coord

theorem find?_map_set (c2 : Ctx) (o : Nat) : ∀ (l : List Ctx),
    (l.map (fun x => if x.id = c2.id then c2 else x)).find? (fun c => c.id = o) =
      if o = c2.id then (l.find? (fun c => c.id = o)).map (fun _ => c2) else l.find? (fun c => c.id = o)
  | [] => by simp
  | x :: xs => by
    have ih := find?_map_set c2 o xs
    rw [List.map_cons, List.find?_cons, List.find?_cons, ih]
    by_cases h1 : x.id = c2.id
    · by_cases h2 : o = c2.id
      · subst h2; simp [h1]
      · have : ¬ c2.id = o := fun h => h2 h.symm
        simp [h1, h2, this]
    · by_cases h2 : o = c2.id
      · subst h2; simp [h1]
      · simp only [h1, h2, if_false]

/-- reading the table after a context was written back -/
theorem ctx?_setCtx (s : Sys) (c2 : Ctx) (o : Nat) :
    (s.setCtx c2).ctx? o = if o = c2.id then (s.ctx? o).map (fun _ => c2) else s.ctx? o :=
  find?_map_set c2 o s.active

/-- two systems that differ only in what the phase machinery writes: same locks, graph, configuration, the same
    operations listed in the same order, each with the same id, priority, creation time and tracked resources -/
structure LifeSame (s s' : Sys) : Prop where
  locks : s'.locks = s.locks
  resIds : s'.resIds = s.resIds
  edges : s'.edges = s.edges
  strategy : s'.strategy = s.strategy
  boosts : s'.boosts = s.boosts
  ids : s'.active.map (·.id) = s.active.map (·.id)
  key : ∀ o, (s'.ctx? o).map victimKey = (s.ctx? o).map victimKey
  acquired : ∀ o, (s'.ctx? o).map (·.acquired) = (s.ctx? o).map (·.acquired)

theorem LifeSame.refl (s : Sys) : LifeSame s s := ⟨rfl, rfl, rfl, rfl, rfl, rfl, fun _ => rfl, fun _ => rfl⟩

theorem LifeSame.trans {a b c : Sys} (h1 : LifeSame a b) (h2 : LifeSame b c) : LifeSame a c :=
  ⟨h2.locks.trans h1.locks, h2.resIds.trans h1.resIds, h2.edges.trans h1.edges, h2.strategy.trans h1.strategy,
   h2.boosts.trans h1.boosts, h2.ids.trans h1.ids, fun o => (h2.key o).trans (h1.key o),
   fun o => (h2.acquired o).trans (h1.acquired o)⟩

theorem lifeSame_setCtx {s : Sys} {c c2 : Ctx} (h : s.ctx? c.id = some c) (hk : victimKey c2 = victimKey c)
    (ha : c2.acquired = c.acquired) : LifeSame s (s.setCtx c2) := by
  have hid : c2.id = c.id := congrArg (·.1) hk
  refine ⟨rfl, rfl, rfl, rfl, rfl, setCtx_ids s c2, ?_, ?_⟩ <;>
  · intro o
    rw [ctx?_setCtx]
    by_cases ho : o = c2.id
    · rw [if_pos ho, ho, hid, h]; simp [hk, ha]
    · rw [if_neg ho]

theorem advance_key (now : Nat) (c : Ctx) (out : CpOut) :
    victimKey (advance now c out).1 = victimKey c ∧ (advance now c out).1.acquired = c.acquired := by
  unfold advance
  cases out <;> simp only <;> (try split) <;> first | exact ⟨rfl, rfl⟩ | simp

theorem setFlag_key (c : Ctx) (f : Flag) (b : Bool) :
    victimKey (setFlag c f b) = victimKey c ∧ (setFlag c f b).acquired = c.acquired := by
  cases f <;> exact ⟨rfl, rfl⟩

theorem lifeSame_lstep (s : Sys) (op : LOp) : LifeSame s (lstep s op) := by
  cases op with
  | tick d => exact ⟨rfl, rfl, rfl, rfl, rfl, rfl, fun _ => rfl, fun _ => rfl⟩
  | advance o out =>
    simp only [lstep]
    cases h : s.ctx? o with
    | none => exact LifeSame.refl s
    | some c =>
      have hid := (ctx?_some h).2
      exact lifeSame_setCtx (c := c) (by rw [hid]; exact h) (advance_key _ _ _).1 (advance_key _ _ _).2
  | flag o f b =>
    simp only [lstep]
    cases h : s.ctx? o with
    | none => exact LifeSame.refl s
    | some c =>
      have hid := (ctx?_some h).2
      exact lifeSame_setCtx (c := c) (by rw [hid]; exact h) (setFlag_key _ _ _).1 (setFlag_key _ _ _).2
  | exempt o b =>
    simp only [lstep]
    cases h : s.ctx? o with
    | none => exact LifeSame.refl s
    | some c =>
      have hid := (ctx?_some h).2
      exact lifeSame_setCtx (c := c) (by rw [hid]; exact h) rfl rfl

theorem lifeSame_lrun : ∀ (ops : List LOp) (s : Sys), LifeSame s (lrun s ops)
  | [], s => LifeSame.refl s
  | op :: ops, s => (lifeSame_lstep s op).trans (lifeSame_lrun ops (lstep s op))

/-! ### the victim rule reads only (id, priority, creation time) -/

theorem foldl_min_map {α β : Type} (g : α → β) (key : β → Int) : ∀ (xs : List α) (x : α),
    (xs.map g).foldl (fun best y => if key y < key best then y else best) (g x) =
      g (xs.foldl (fun best y => if key (g y) < key (g best) then y else best) x)
  | [], _ => rfl
  | y :: ys, x => by
    simp only [List.map_cons, List.foldl_cons]
    by_cases h : key (g y) < key (g x)
    · rw [if_pos h, if_pos h]; exact foldl_min_map g key ys y
    · rw [if_neg h, if_neg h]; exact foldl_min_map g key ys x

theorem firstMinBy_map {α β : Type} (g : α → β) (key : β → Int) (l : List α) :
    firstMinBy key (l.map g) = (firstMinBy (fun a => key (g a)) l).map g := by
  cases l with
  | nil => rfl
  | cons x xs => simp only [List.map_cons, firstMinBy, Option.map_some, foldl_min_map]

/-- `_select_deadlock_victim` on the keys alone -/
def selectByKey (st : Strategy) (ks : List (Nat × Int × Nat)) : Option Nat :=
  match st with
  | .priority => (firstMinBy (fun k => k.2.1) ks).map (·.1)
  | .oldest => (firstMinBy (fun k => (k.2.2 : Int)) ks).map (·.1)
  | .other => ks.head?.map (·.1)

theorem selectVictim_eq_byKey (s : Sys) (agents : List Nat) :
    selectVictim s agents = selectByKey s.strategy ((agents.filterMap s.ctx?).map victimKey) := by
  unfold selectVictim selectByKey
  cases s.strategy <;> simp only [firstMinBy_map, Option.map_map, List.head?_map] <;> rfl

theorem filterMap_congr_all {α β : Type} {f g : α → Option β} (h : ∀ a, f a = g a) : ∀ (l : List α),
    l.filterMap f = l.filterMap g
  | [] => rfl
  | a :: l => by simp only [List.filterMap_cons, h a, filterMap_congr_all h l]

theorem selectVictim_lifeSame {s s' : Sys} (h : LifeSame s s') (agents : List Nat) :
    selectVictim s' agents = selectVictim s agents := by
  rw [selectVictim_eq_byKey, selectVictim_eq_byKey, h.strategy, List.map_filterMap, List.map_filterMap]
  congr 1
  exact filterMap_congr_all (fun o => h.key o) agents

/-! ### the invariants of the history theorems survive life-cycle calls -/

theorem kinv_setCtx_same_acquired {s : Sys} {c c2 : Ctx} {op : Nat} (hc : c ∈ s.active) (hid : c2.id = c.id)
    (ha : c2.acquired = c.acquired) (hk : Kinv s op) : Kinv (s.setCtx c2) op := by
  by_cases ho : c2.id = op
  · refine kinv_setCtx hk ho ?_
    intro x hx
    rw [ha]
    exact hk.listed c hc (hid ▸ ho) x hx
  · exact kinv_setCtx_other ho hk

theorem kinv_lstep {s : Sys} {op : Nat} (hk : Kinv s op) (l : LOp) : Kinv (lstep s l) op := by
  cases l with
  | tick d => exact ⟨hk.listed, hk.unlisted⟩
  | advance o out =>
    simp only [lstep]
    cases h : s.ctx? o with
    | none => exact hk
    | some c =>
      exact kinv_setCtx_same_acquired (ctx?_some h).1 (congrArg (·.1) (advance_key _ _ _).1) (advance_key _ _ _).2 hk
  | flag o f b =>
    simp only [lstep]
    cases h : s.ctx? o with
    | none => exact hk
    | some c =>
      exact kinv_setCtx_same_acquired (ctx?_some h).1 (congrArg (·.1) (setFlag_key _ _ _).1) (setFlag_key _ _ _).2 hk
  | exempt o b =>
    simp only [lstep]
    cases h : s.ctx? o with
    | none => exact hk
    | some c => exact kinv_setCtx_same_acquired (c := c) (ctx?_some h).1 rfl rfl hk

theorem edgesLive_lifeSame {s s' : Sys} (h : LifeSame s s') (hl : EdgesLive s) : EdgesLive s' := by
  intro w b r he
  rw [h.edges] at he
  obtain ⟨hw, hb⟩ := hl w b r he
  exact ⟨listed_of_ids h.ids hw, listed_of_ids h.ids hb⟩

theorem owns_lifeSame {s s' : Sys} (h : LifeSame s s') {o r : Nat} : Owns s' o r ↔ Owns s o r := by
  unfold Owns
  rw [h.locks]

theorem good_lstep {h : HSt} (hg : Good h) (l : LOp) : Good { h with sys := lstep h.sys l } := by
  have hs := lifeSame_lstep h.sys l
  refine ⟨fun op => kinv_lstep (hg.kinv op) l, ?_, by simpa [hs.edges] using hg.keys⟩
  intro w b r
  show HasEdge (lstep h.sys l).edges w b r ↔ ((w, r) ∈ h.pend ∧ Owns (lstep h.sys l) b r ∧ b ≠ w)
  rw [hs.edges, owns_lifeSame hs]
  exact hg.exact w b r

/-- no trigger event of the open finding and no id reuse along a history that mixes controller calls with life-cycle
    calls (a life-cycle call is never a trigger) -/
def XTrigFree (h : HSt) : List XOp → Prop
  | [] => True
  | .ctl op :: ops => trig h op = false ∧ freshOk h op = true ∧ XTrigFree (hstep h op) ops
  | .life l :: ops => XTrigFree { h with sys := lstep h.sys l } ops

def XFreshStarts (h : HSt) : List XOp → Prop
  | [] => True
  | .ctl op :: ops => freshOk h op = true ∧ XFreshStarts (hstep h op) ops
  | .life l :: ops => XFreshStarts { h with sys := lstep h.sys l } ops

theorem good_xrun : ∀ (ops : List XOp) {h : HSt}, Good h → XTrigFree h ops → Good (xrun h ops)
  | [], _, hg, _ => hg
  | .ctl op :: ops, h, hg, ht => by
    unfold xrun
    simp only [List.foldl_cons]
    exact good_xrun ops (good_step hg op ht.1 ht.2.1) ht.2.2
  | .life l :: ops, h, hg, ht => by
    unfold xrun
    simp only [List.foldl_cons]
    exact good_xrun ops (good_lstep hg l) ht

theorem kinv_edgesLive_xrun : ∀ (ops : List XOp) {h : HSt}, (∀ op, Kinv h.sys op) → EdgesLive h.sys →
    XFreshStarts h ops → (∀ op, Kinv (xrun h ops).sys op) ∧ EdgesLive (xrun h ops).sys
  | [], _, hk, hl, _ => ⟨hk, hl⟩
  | .ctl op :: ops, h, hk, hl, hf => by
    unfold xrun
    simp only [List.foldl_cons]
    exact kinv_edgesLive_xrun ops (kinv_step hk op hf.1) (edgesLive_step hk hl op) hf.2
  | .life l :: ops, h, hk, hl, hf => by
    unfold xrun
    simp only [List.foldl_cons]
    exact kinv_edgesLive_xrun ops (h := { h with sys := lstep h.sys l }) (fun op => kinv_lstep (hk op) l)
      (edgesLive_lifeSame (lifeSame_lstep h.sys l) hl) hf

/-! ### only `start_operation` sets the creation time and the priority -/

/-- the same operations are listed with the same (id, priority, creation time) -/
def SameKeys (s s' : Sys) : Prop := ∀ o, (s'.ctx? o).map victimKey = (s.ctx? o).map victimKey

/-- the context the caller holds agrees with the listed one in (id, priority, creation time) -/
def KeyAgree (s : Sys) (c : Ctx) : Prop := ∀ x, s.ctx? c.id = some x → victimKey x = victimKey c

/-- a controller call touches, of the table of operations, at most the caller's tracked resources -/
structure TouchOnly (s : Sys) (c : Ctx) (s' : Sys) (c' : Ctx) : Prop where
  ctx : ∃ ks, c' = { c with acquired := ks }
  active : s'.active = s.active ∨ s'.active = (s.setCtx c').active

theorem ctx?_of_active {s s' : Sys} (h : s'.active = s.active) (o : Nat) : s'.ctx? o = s.ctx? o := by
  unfold Sys.ctx?; rw [h]

theorem touch_keys {s s' : Sys} {c c' : Ctx} (ht : TouchOnly s c s' c') (ha : KeyAgree s c) :
    SameKeys s s' ∧ KeyAgree s' c' ∧ victimKey c' = victimKey c := by
  obtain ⟨ks, rfl⟩ := ht.ctx
  have hk : victimKey { c with acquired := ks } = victimKey c := rfl
  rcases ht.active with h | h
  · refine ⟨fun o => by rw [ctx?_of_active h], ?_, hk⟩
    intro x hx
    rw [ctx?_of_active h] at hx
    exact ha x hx
  · have hc : ∀ o, s'.ctx? o = (s.setCtx { c with acquired := ks }).ctx? o := fun o => ctx?_of_active h o
    refine ⟨?_, ?_, hk⟩
    · intro o
      rw [hc, ctx?_setCtx]
      by_cases ho : o = c.id
      · rw [if_pos ho, ho]
        cases hx : s.ctx? c.id with
        | none => rfl
        | some x => simp only [Option.map_some]; rw [ha x hx]; rfl
      · rw [if_neg ho]
    · intro x hx
      rw [hc, ctx?_setCtx, if_pos rfl] at hx
      cases hy : s.ctx? c.id with
      | none => rw [show s.ctx? ({ c with acquired := ks } : Ctx).id = s.ctx? c.id from rfl, hy] at hx; cases hx
      | some y =>
        rw [show s.ctx? ({ c with acquired := ks } : Ctx).id = s.ctx? c.id from rfl, hy] at hx
        simp only [Option.map_some, Option.some.injEq] at hx
        rw [← hx]

theorem touch_acquire (s : Sys) (c : Ctx) (r : Nat) : TouchOnly s c (acquire s c r).1 (acquire s c r).2.1 := by
  cases hl : s.locks r with
  | none => rw [acquire_unknown hl]; exact ⟨⟨c.acquired, rfl⟩, Or.inl rfl⟩
  | some l =>
    by_cases hres : (l.tryAcquire c.id c.prio).2 = .blocked
    · rw [acquire_blocked hl hres]; exact ⟨⟨c.acquired, rfl⟩, Or.inl rfl⟩
    · rw [acquire_ok hl hres]; exact ⟨⟨_, rfl⟩, Or.inr rfl⟩

theorem touch_release (s : Sys) (c : Ctx) (r : Nat) : TouchOnly s c (release s c r).1 (release s c r).2.1 := by
  by_cases h : r ∈ c.acquired ∧ Owns s c.id r
  · obtain ⟨hr, l, hl, ho⟩ := h
    by_cases hh : l.hold ≤ 1
    · rw [release_last hr hl ho hh]; exact ⟨⟨_, rfl⟩, Or.inr rfl⟩
    · rw [release_more hr hl ho hh]; exact ⟨⟨c.acquired, rfl⟩, Or.inr rfl⟩
  · rw [release_not_owned h]; exact ⟨⟨c.acquired, rfl⟩, Or.inl rfl⟩

/-- what a sequence of such calls keeps -/
structure KeysKept (s : Sys) (c : Ctx) (s' : Sys) (c' : Ctx) : Prop where
  same : SameKeys s s'
  agree : KeyAgree s' c'
  key : victimKey c' = victimKey c

theorem SameKeys.trans {a b c : Sys} (h1 : SameKeys a b) (h2 : SameKeys b c) : SameKeys a c :=
  fun o => (h2 o).trans (h1 o)

theorem KeysKept.trans {s s1 s2 : Sys} {c c1 c2 : Ctx} (h1 : KeysKept s c s1 c1) (h2 : KeysKept s1 c1 s2 c2) :
    KeysKept s c s2 c2 := ⟨h1.same.trans h2.same, h2.agree, h2.key.trans h1.key⟩

theorem keysKept_release {s : Sys} {c : Ctx} (ha : KeyAgree s c) (r : Nat) :
    KeysKept s c (release s c r).1 (release s c r).2.1 :=
  let t := touch_keys (touch_release s c r) ha
  ⟨t.1, t.2.1, t.2.2⟩

theorem keysKept_releaseLoop (r : Nat) : ∀ (f : Nat) {s : Sys} {c : Ctx}, KeyAgree s c →
    KeysKept s c (releaseLoop f s c r).1 (releaseLoop f s c r).2
  | 0, s, c, ha => ⟨fun _ => rfl, ha, rfl⟩
  | f + 1, s, c, ha => by
    have h1 := keysKept_release ha r
    unfold releaseLoop
    generalize hq : release s c r = q at h1
    obtain ⟨s', c', b⟩ := q
    cases b with
    | false => exact h1
    | true =>
      simp only
      split
      · exact h1.trans (keysKept_releaseLoop r f h1.agree)
      · exact h1

theorem keysKept_releaseKeys : ∀ (ks : List Nat) {s : Sys} {c : Ctx}, KeyAgree s c →
    KeysKept s c (releaseKeys ks s c).1 (releaseKeys ks s c).2
  | [], s, c, ha => ⟨fun _ => rfl, ha, rfl⟩
  | r :: rs, s, c, ha => by
    have h1 : KeysKept s c (releaseFully s c r).1 (releaseFully s c r).2 := keysKept_releaseLoop r _ ha
    unfold releaseKeys
    exact h1.trans (keysKept_releaseKeys rs h1.agree)

theorem find?_filter_ne (a o : Nat) : ∀ (l : List Ctx),
    (l.filter (fun x => x.id ≠ a)).find? (fun c => c.id = o) = if o = a then none else l.find? (fun c => c.id = o)
  | [] => by simp
  | x :: xs => by
    have ih := find?_filter_ne a o xs
    by_cases h1 : x.id = a
    · rw [List.filter_cons_of_neg (by simpa using h1), ih, List.find?_cons]
      by_cases h2 : o = a
      · simp [h2]
      · have : ¬ x.id = o := fun h => h2 (h ▸ h1)
        simp [h2, this]
    · rw [List.filter_cons_of_pos (by simpa using h1), List.find?_cons, List.find?_cons, ih]
      by_cases h2 : o = a
      · subst h2; simp [h1]
      · simp [h2]

/-- ending an operation unlists it and leaves every other operation's (id, priority, creation time) alone -/
theorem finish_keys {s : Sys} {c : Ctx} (ha : KeyAgree s c) (o : Nat) :
    ((finish s c).1.ctx? o).map victimKey = if o = c.id then none else (s.ctx? o).map victimKey := by
  have hk := keysKept_releaseKeys c.acquired ha
  have : (finish s c).1.ctx? o = if o = c.id then none else (releaseAll s c).1.ctx? o := by
    unfold Sys.ctx? finish
    exact find?_filter_ne c.id o _
  rw [this]
  by_cases ho : o = c.id
  · simp [ho]
  · simp only [ho, if_false]
    exact hk.same o

theorem keyAgree_listed {s : Sys} {o : Nat} {c : Ctx} (h : s.ctx? o = some c) : KeyAgree s c := by
  intro x hx
  rw [(ctx?_some h).2, h] at hx
  rw [Option.some.inj hx]

theorem start_ctx?_ne (s : Sys) (o : Nat) (p : Int) {o' : Nat} (hne : o' ≠ o) :
    (s.start o p).1.ctx? o' = s.ctx? o' := by
  unfold Sys.start
  split
  · rw [ctx?_setCtx, if_neg hne]
  · unfold Sys.ctx?
    simp only [List.find?_append]
    have : ¬ o = o' := fun h => hne h.symm
    simp [this]

/-- `start_operation` is the only controller call that sets an operation's creation time and priority: after any
    other call by anybody the operation is either no longer listed or listed with the same (id, priority, creation
    time) -/
theorem hstep_keys (h : HSt) (op : HOp) (o : Nat) (hne : ∀ p, op ≠ .start o p) :
    (hstep h op).sys.ctx? o = none ∨ ((hstep h op).sys.ctx? o).map victimKey = (h.sys.ctx? o).map victimKey := by
  cases op with
  | start o2 p =>
    right
    have : o ≠ o2 := fun e => hne p (by rw [e])
    simp only [hstep]
    rw [start_ctx?_ne _ _ _ this]
  | acq o2 r =>
    right
    simp only [hstep]
    cases hc : h.sys.ctx? o2 with
    | none => rfl
    | some c =>
      have t := (touch_keys (touch_acquire h.sys c r) (keyAgree_listed hc)).1 o
      simp only
      generalize acquire h.sys c r = q at t ⊢
      obtain ⟨s', c', res⟩ := q
      cases res with
      | none => exact t
      | some lr => cases lr <;> exact t
  | rel o2 r =>
    right
    simp only [hstep]
    cases hc : h.sys.ctx? o2 with
    | none => rfl
    | some c => exact (touch_keys (touch_release h.sys c r) (keyAgree_listed hc)).1 o
  | finish o2 =>
    simp only [hstep]
    cases hc : h.sys.ctx? o2 with
    | none => right; rfl
    | some c =>
      have hk := finish_keys (keyAgree_listed hc) o
      by_cases ho : o = c.id
      · left
        rw [if_pos ho] at hk
        simpa using hk
      · right
        rw [if_neg ho] at hk
        exact hk

theorem start_key (s : Sys) (o : Nat) (p : Int) : ((s.start o p).1.ctx? o).map victimKey = some (o, p, s.now) := by
  unfold Sys.start
  split
  · rename_i hany
    rw [ctx?_setCtx, if_pos rfl]
    obtain ⟨x, hx, hxo⟩ := List.any_eq_true.mp hany
    have hxo : x.id = o := by simpa using hxo
    cases hc : s.ctx? o with
    | none => exact absurd hxo (ctx?_none hc x hx)
    | some c => rfl
  · unfold Sys.ctx?
    rename_i hany
    have hnone : s.active.find? (fun c => c.id = o) = none := by
      rw [List.find?_eq_none]
      intro x hx hxo
      exact hany (List.any_eq_true.mpr ⟨x, hx, hxo⟩)
    simp [List.find?_append, hnone, victimKey]

theorem xstep_keys (h : HSt) (x : XOp) (o : Nat) (hne : ∀ p, x ≠ .ctl (.start o p)) :
    (xstep h x).sys.ctx? o = none ∨ ((xstep h x).sys.ctx? o).map victimKey = (h.sys.ctx? o).map victimKey := by
  cases x with
  | ctl op => exact hstep_keys h op o (fun p e => hne p (by rw [e]))
  | life l => exact Or.inr ((lifeSame_lstep h.sys l).key o)

theorem xrun_keys : ∀ (ops : List XOp) (h : HSt) (o : Nat), (∀ p, XOp.ctl (.start o p) ∉ ops) →
    (xrun h ops).sys.ctx? o = none ∨ ((xrun h ops).sys.ctx? o).map victimKey = (h.sys.ctx? o).map victimKey
  | [], _, _, _ => Or.inr rfl
  | x :: ops, h, o, hno => by
    have h1 := xstep_keys h x o (fun p e => hno p (by rw [e]; exact List.mem_cons_self))
    have h2 := xrun_keys ops (xstep h x) o (fun p hm => hno p (List.mem_cons_of_mem _ hm))
    show (xrun (xstep h x) ops).sys.ctx? o = none ∨ _
    rcases h2 with h2 | h2
    · exact Or.inl h2
    · rcases h1 with h1 | h1
      · left
        rw [h1] at h2
        simpa using h2
      · exact Or.inr (h2.trans h1)

end Operon.Coord
