import Operon.Model.CoordExec
/-! Helper lemmas for C14: what `release`, `releaseAll`, `finish` do to lock ownership. -/
namespace Operon.Coord

/-- operation `o` owns resource `r` -/
def Owns (s : Sys) (o r : Nat) : Prop := ∃ l, s.locks r = some l ∧ l.owner = some o

/-- the graph has an edge `w → b` labelled `r` (in any entry for `w`) -/
def HasEdge (E : Edges) (w b r : Nat) : Prop := ∃ e ∈ E, e.1 = w ∧ (b, r) ∈ e.2

/-- A transition made on behalf of operation `o` that can only give up `o`'s ownership: every lock is either
    unchanged or was owned by `o` and is now free or still owned by `o`; other operations' contexts, the set of
    active ids, the clock and the configuration are unchanged; the dependency graph only shrinks. -/
structure RelStep (o : Nat) (s s' : Sys) : Prop where
  locks : ∀ r, s'.locks r = s.locks r ∨
    ∃ l l', s.locks r = some l ∧ l.owner = some o ∧ s'.locks r = some l' ∧ l'.preempt = l.preempt ∧
      l'.waiting = l.waiting ∧ (l'.owner = none ∨ l'.owner = some o)
  others : s'.active.filter (fun x => x.id ≠ o) = s.active.filter (fun x => x.id ≠ o)
  ids : s'.active.map (·.id) = s.active.map (·.id)
  now : s'.now = s.now
  cfg : s'.maxOp = s.maxOp ∧ s'.starv = s.starv ∧ s'.prog = s.prog ∧ s'.strategy = s.strategy ∧
    s'.boosts = s.boosts ∧ s'.resIds = s.resIds
  edges : ∀ w b r, HasEdge s'.edges w b r → HasEdge s.edges w b r
  edgesKeep : ∀ w b r, w ≠ o → b ≠ o → HasEdge s.edges w b r → HasEdge s'.edges w b r
  keys : (s.edges.map (·.1)).Nodup → (s'.edges.map (·.1)).Nodup

theorem RelStep.refl (o : Nat) (s : Sys) : RelStep o s s :=
  ⟨fun _ => Or.inl rfl, rfl, rfl, rfl, ⟨rfl, rfl, rfl, rfl, rfl, rfl⟩, fun _ _ _ h => h, fun _ _ _ _ _ h => h,
    fun h => h⟩

theorem RelStep.trans {o : Nat} {s1 s2 s3 : Sys} (h12 : RelStep o s1 s2) (h23 : RelStep o s2 s3) :
    RelStep o s1 s3 := by
  refine ⟨?_, h23.others.trans h12.others, h23.ids.trans h12.ids, h23.now.trans h12.now, ?_, ?_,
    fun w b r hw hb h => h23.edgesKeep w b r hw hb (h12.edgesKeep w b r hw hb h), fun h => h23.keys (h12.keys h)⟩
  · intro r
    rcases h23.locks r with h | ⟨l, l', h2, ho, h3, hp, hw, hown⟩
    · rcases h12.locks r with h' | ⟨l, l', h1, ho, h2, hp, hw, hown⟩
      · exact Or.inl (h.trans h')
      · exact Or.inr ⟨l, l', h1, ho, h.trans h2, hp, hw, hown⟩
    · rcases h12.locks r with h' | ⟨l0, l1, h1, ho0, h2', hp0, hw0, _⟩
      · exact Or.inr ⟨l, l', h'.symm.trans h2, ho, h3, hp, hw, hown⟩
      · have : l1 = l := by rw [h2'] at h2; exact Option.some.inj h2
        subst this
        exact Or.inr ⟨l0, l', h1, ho0, h3, hp.trans hp0, hw.trans hw0, hown⟩
  · obtain ⟨a1, a2, a3, a4, a5, a6⟩ := h12.cfg
    obtain ⟨b1, b2, b3, b4, b5, b6⟩ := h23.cfg
    exact ⟨b1.trans a1, b2.trans a2, b3.trans a3, b4.trans a4, b5.trans a5, b6.trans a6⟩
  · intro w b r h
    exact h12.edges w b r (h23.edges w b r h)

/-! ### the dependency graph -/

theorem hasEdge_removeAllFor {E : Edges} {a w b r : Nat} :
    HasEdge (removeAllFor E a) w b r ↔ w ≠ a ∧ b ≠ a ∧ HasEdge E w b r := by
  unfold removeAllFor HasEdge
  constructor
  · rintro ⟨e, he, hw, hm⟩
    simp only [List.mem_filter, List.mem_map] at he
    obtain ⟨⟨e0, ⟨he0, hne⟩, rfl⟩, _⟩ := he
    simp only [List.mem_filter] at hm
    simp only [decide_eq_true_eq] at hne hm
    exact ⟨hw ▸ hne, hm.2, e0, he0, hw, hm.1⟩
  · rintro ⟨hw, hb, e, he, rfl, hm⟩
    refine ⟨(e.1, e.2.filter (fun d => d.1 ≠ a)), ?_, rfl, ?_⟩
    · simp only [List.mem_filter, List.mem_map]
      refine ⟨⟨e, ⟨he, by simpa using hw⟩, rfl⟩, ?_⟩
      have : (b, r) ∈ e.2.filter (fun d => d.1 ≠ a) := by
        simp only [List.mem_filter]; exact ⟨hm, by simpa using hb⟩
      cases hf : e.2.filter (fun d => d.1 ≠ a) with
      | nil => rw [hf] at this; cases this
      | cons _ _ => simp
    · simp only [List.mem_filter]; exact ⟨hm, by simpa using hb⟩

theorem hasEdge_addDep {E : Edges} {w b r w' b' r' : Nat} :
    HasEdge (addDep E w b r) w' b' r' ↔ HasEdge E w' b' r' ∨ (w' = w ∧ b' = b ∧ r' = r) := by
  unfold addDep HasEdge
  split
  · rename_i hany
    constructor
    · rintro ⟨e, he, hw, hm⟩
      simp only [List.mem_map] at he
      obtain ⟨e0, he0, rfl⟩ := he
      by_cases h0 : e0.1 = w
      · simp only [h0, if_true] at hw hm
        by_cases hc : e0.2.contains (b, r) = true
        · simp only [hc, if_true] at hm
          exact Or.inl ⟨e0, he0, h0.trans hw, hm⟩
        · simp only [hc] at hm
          rcases List.mem_append.mp hm with h | h
          · exact Or.inl ⟨e0, he0, h0.trans hw, h⟩
          · simp only [List.mem_singleton, Prod.mk.injEq] at h
            exact Or.inr ⟨hw.symm, h.1, h.2⟩
      · simp only [h0, if_false] at hw hm
        exact Or.inl ⟨e0, he0, hw, hm⟩
    · rintro (⟨e, he, hw, hm⟩ | ⟨rfl, rfl, rfl⟩)
      · refine ⟨_, List.mem_map.mpr ⟨e, he, rfl⟩, ?_, ?_⟩
        · split <;> simpa using hw
        · split
          · simp only; split
            · exact hm
            · exact List.mem_append_left _ hm
          · exact hm
      · simp only [List.any_eq_true, decide_eq_true_eq] at hany
        obtain ⟨e, he, hw⟩ := hany
        refine ⟨_, List.mem_map.mpr ⟨e, he, rfl⟩, ?_, ?_⟩
        · simp [hw]
        · simp only [hw, if_true]
          split
          · rename_i hc; simpa using hc
          · simp
  · constructor
    · rintro ⟨e, he, hw, hm⟩
      rcases List.mem_append.mp he with h | h
      · exact Or.inl ⟨e, h, hw, hm⟩
      · simp only [List.mem_singleton] at h
        subst h
        simp only [List.mem_singleton, Prod.mk.injEq] at hm
        exact Or.inr ⟨hw.symm, hm.1, hm.2⟩
    · rintro (⟨e, he, hw, hm⟩ | ⟨rfl, rfl, rfl⟩)
      · exact ⟨e, List.mem_append_left _ he, hw, hm⟩
      · exact ⟨(w', [(b', r')]), List.mem_append_right _ (by simp), rfl, by simp⟩

/-- the keys of the graph after `remove_all_for_agent` are a sublist of the keys before -/
theorem keys_removeAllFor_sublist (E : Edges) (a : Nat) : ((removeAllFor E a).map (·.1)).Sublist (E.map (·.1)) := by
  unfold removeAllFor
  have h1 : ((E.filter (fun e => e.1 ≠ a)).map (fun e => (e.1, e.2.filter (fun d => d.1 ≠ a)))).map (·.1)
      = (E.filter (fun e => e.1 ≠ a)).map (·.1) := by
    rw [List.map_map]; rfl
  have h2 : ((((E.filter (fun e => e.1 ≠ a)).map (fun e => (e.1, e.2.filter (fun d => d.1 ≠ a)))).filter
      (fun e => !e.2.isEmpty)).map (·.1)).Sublist
      (((E.filter (fun e => e.1 ≠ a)).map (fun e => (e.1, e.2.filter (fun d => d.1 ≠ a)))).map (·.1)) :=
    List.Sublist.map _ List.filter_sublist
  rw [h1] at h2
  exact h2.trans (List.Sublist.map _ List.filter_sublist)

theorem keys_removeAllFor_nodup {E : Edges} (a : Nat) (h : (E.map (·.1)).Nodup) :
    ((removeAllFor E a).map (·.1)).Nodup :=
  List.Nodup.sublist (keys_removeAllFor_sublist E a) h

theorem keys_addDep_nodup {E : Edges} (w b r : Nat) (h : (E.map (·.1)).Nodup) :
    ((addDep E w b r).map (·.1)).Nodup := by
  unfold addDep
  split
  · have : (E.map (fun e => if e.1 = w then (e.1, if e.2.contains (b, r) then e.2 else e.2 ++ [(b, r)]) else e)).map (·.1)
        = E.map (·.1) := by
      rw [List.map_map]
      apply List.map_congr_left
      intro e _
      simp only [Function.comp]
      split <;> rfl
    rw [this]; exact h
  · rename_i hany
    rw [List.map_append, List.nodup_append]
    refine ⟨h, by simp, ?_⟩
    intro x hx y hy
    simp only [List.map_cons, List.map_nil, List.mem_singleton] at hy
    subst hy
    rintro rfl
    apply hany
    obtain ⟨e, he, hxe⟩ := List.mem_map.mp hx
    simp only [List.any_eq_true, decide_eq_true_eq]
    exact ⟨e, he, hxe⟩

/-! ### contexts in the active table -/

theorem setCtx_others (s : Sys) (c : Ctx) :
    (s.setCtx c).active.filter (fun x => x.id ≠ c.id) = s.active.filter (fun x => x.id ≠ c.id) := by
  unfold Sys.setCtx
  simp only
  induction s.active with
  | nil => rfl
  | cons a as ih =>
    simp only [ne_eq, decide_not] at ih ⊢
    by_cases h : a.id = c.id
    · simp [h, ih]
    · simp [h, ih]

theorem setCtx_ids (s : Sys) (c : Ctx) : (s.setCtx c).active.map (·.id) = s.active.map (·.id) := by
  unfold Sys.setCtx
  simp only
  induction s.active with
  | nil => rfl
  | cons a as ih =>
    by_cases h : a.id = c.id
    · simp [h, ih]
    · simp [h, ih]

/-! ### `release` -/

theorem release_not_owned {s : Sys} {c : Ctx} {r : Nat} (h : ¬ (r ∈ c.acquired ∧ Owns s c.id r)) :
    release s c r = (s, c, false) := by
  unfold release
  split
  · rename_i hc
    have hr : r ∈ c.acquired := by simpa using hc
    split
    · rfl
    · rename_i l hl
      have hno : l.owner ≠ some c.id := fun ho => h ⟨hr, l, hl, ho⟩
      simp [Lock.release, hno]
  · rfl

/-- the lock after the last release -/
def Lock.freed (l : Lock) : Lock := { l with owner := none, ownerPrio := 0, hold := 0 }

theorem release_last {s : Sys} {c : Ctx} {r : Nat} {l : Lock} (hr : r ∈ c.acquired) (hl : s.locks r = some l)
    (ho : l.owner = some c.id) (hh : l.hold ≤ 1) :
    release s c r =
      (({ s.setLock r l.freed with edges := removeAllFor s.edges c.id }).setCtx
          { c with acquired := c.acquired.erase r },
        { c with acquired := c.acquired.erase r }, true) := by
  unfold release
  have hc : c.acquired.contains r = true := by simpa using hr
  simp [hr, hl, Lock.release, ho, hh, Lock.freed]

theorem release_more {s : Sys} {c : Ctx} {r : Nat} {l : Lock} (hr : r ∈ c.acquired) (hl : s.locks r = some l)
    (ho : l.owner = some c.id) (hh : ¬ l.hold ≤ 1) :
    release s c r =
      (({ s.setLock r { l with hold := l.hold - 1 } with edges := removeAllFor s.edges c.id }).setCtx c, c, true) := by
  unfold release
  have hc : c.acquired.contains r = true := by simpa using hr
  simp [hr, hl, Lock.release, ho, hh]

/-- changing one lock owned by `o` (to free, or to a smaller hold count), shrinking the graph by
    `removeAllFor`, and writing `o`'s context back is a `RelStep` -/
theorem relStep_setLock {s : Sys} {c c' : Ctx} {r : Nat} {l l' : Lock} (hid : c'.id = c.id)
    (hl : s.locks r = some l) (ho : l.owner = some c.id) (hp : l'.preempt = l.preempt)
    (hw : l'.waiting = l.waiting) (hown : l'.owner = none ∨ l'.owner = some c.id) :
    RelStep c.id s (({ s.setLock r l' with edges := removeAllFor s.edges c.id }).setCtx c') := by
  refine ⟨?_, ?_, ?_, rfl, ⟨rfl, rfl, rfl, rfl, rfl, rfl⟩, ?_, ?_, fun h => keys_removeAllFor_nodup c.id h⟩
  rotate_right
  · intro w b x hw hb h
    exact hasEdge_removeAllFor.mpr ⟨hw, hb, h⟩
  · intro x
    by_cases hx : x = r
    · subst hx
      exact Or.inr ⟨l, l', hl, ho, by simp [Sys.setCtx, Sys.setLock], hp, hw, hown⟩
    · exact Or.inl (by simp [Sys.setCtx, Sys.setLock, hx])
  · have := setCtx_others ({ s.setLock r l' with edges := removeAllFor s.edges c.id }) c'
    rw [hid] at this
    exact this
  · exact setCtx_ids _ c'
  · intro w b x h
    exact (hasEdge_removeAllFor.mp h).2.2

theorem release_relStep (s : Sys) (c : Ctx) (r : Nat) :
    RelStep c.id s (release s c r).1 ∧ (release s c r).2.1.id = c.id ∧ (release s c r).2.1.prio = c.prio := by
  by_cases h : r ∈ c.acquired ∧ Owns s c.id r
  · obtain ⟨hr, l, hl, ho⟩ := h
    by_cases hh : l.hold ≤ 1
    · rw [release_last hr hl ho hh]
      exact ⟨relStep_setLock rfl hl ho rfl rfl (Or.inl rfl), rfl, rfl⟩
    · rw [release_more hr hl ho hh]
      exact ⟨relStep_setLock rfl hl ho rfl rfl (Or.inr ho), rfl, rfl⟩
  · rw [release_not_owned h]
    exact ⟨RelStep.refl _ _, rfl, rfl⟩

theorem RelStep.owns {o : Nat} {s s' : Sys} (h : RelStep o s s') {a x : Nat} (ha : Owns s' a x) : Owns s a x := by
  obtain ⟨l', hl', ho'⟩ := ha
  rcases h.locks x with he | ⟨l, l2, hl, ho, hl2, _, _, hown⟩
  · exact ⟨l', he ▸ hl', ho'⟩
  · have : l2 = l' := by rw [hl2] at hl'; exact Option.some.inj hl'
    subst this
    rcases hown with hn | hs
    · rw [hn] at ho'; cases ho'
    · rw [hs] at ho'; cases ho'; exact ⟨l, hl, ho⟩

/-- other operations keep exactly what they own -/
theorem RelStep.owns_other {o : Nat} {s s' : Sys} (h : RelStep o s s') {a x : Nat} (hne : a ≠ o)
    (ha : Owns s a x) : Owns s' a x := by
  obtain ⟨l, hl, ho⟩ := ha
  rcases h.locks x with he | ⟨l0, l2, hl0, ho0, _, _, _, _⟩
  · exact ⟨l, he.trans hl, ho⟩
  · rw [hl] at hl0; cases hl0; rw [ho] at ho0; cases ho0; exact absurd rfl hne

/-! ### the release loops -/

theorem releaseLoop_not_owned {s : Sys} {c : Ctx} {r : Nat} (h : ¬ (r ∈ c.acquired ∧ Owns s c.id r)) (f : Nat) :
    releaseLoop f s c r = (s, c) := by
  cases f with
  | zero => rfl
  | succ f => unfold releaseLoop; rw [release_not_owned h]

/-- what one pass of the `while` loop over resource `r` guarantees -/
structure LoopOut (c : Ctx) (r : Nat) (s : Sys) (p : Sys × Ctx) : Prop where
  rel : RelStep c.id s p.1
  id : p.2.id = c.id
  keep : ∀ x, x ≠ r → x ∈ c.acquired → x ∈ p.2.acquired
  sub : ∀ x, x ∈ p.2.acquired → x ∈ c.acquired
  freed : r ∈ c.acquired → ¬ Owns p.1 c.id r

theorem releaseLoop_spec (r : Nat) : ∀ (f : Nat) (s : Sys) (c : Ctx), holdOf s r < f →
    LoopOut c r s (releaseLoop f s c r) := by
  intro f
  induction f with
  | zero => intro s c h; omega
  | succ f ih =>
    intro s c hf
    by_cases h : r ∈ c.acquired ∧ Owns s c.id r
    · obtain ⟨hr, l, hl, ho⟩ := h
      have hhold : holdOf s r = l.hold := by simp [holdOf, hl]
      by_cases hh : l.hold ≤ 1
      · -- last release: the lock is free afterwards, whatever the loop test says
        have hno : ¬ (r ∈ (c.acquired.erase r) ∧
            Owns (({ s.setLock r l.freed with edges := removeAllFor s.edges c.id }).setCtx
              { c with acquired := c.acquired.erase r }) c.id r) := by
          rintro ⟨_, l', hl', ho'⟩
          simp [Sys.setCtx, Sys.setLock, Lock.freed] at hl'
          subst hl'
          simp at ho'
        have hres : releaseLoop (f + 1) s c r =
            (({ s.setLock r l.freed with edges := removeAllFor s.edges c.id }).setCtx
              { c with acquired := c.acquired.erase r }, { c with acquired := c.acquired.erase r }) := by
          unfold releaseLoop
          rw [release_last hr hl ho hh]
          simp only
          split
          · exact releaseLoop_not_owned hno f
          · rfl
        rw [hres]
        refine ⟨relStep_setLock rfl hl ho rfl rfl (Or.inl rfl), rfl, ?_, ?_, ?_⟩
        · intro x hx hxa; exact (List.mem_erase_of_ne hx).mpr hxa
        · intro x hx; exact List.mem_of_mem_erase hx
        · intro _ hown; exact hno ⟨by
            obtain ⟨l', hl', ho'⟩ := hown
            simp [Sys.setCtx, Sys.setLock, Lock.freed] at hl'
            subst hl'
            simp at ho', hown⟩
      · -- one of several holds: still owned, go round again
        have hc : c.acquired.contains r = true := by simpa using hr
        have hres : releaseLoop (f + 1) s c r =
            releaseLoop f (({ s.setLock r { l with hold := l.hold - 1 } with
              edges := removeAllFor s.edges c.id }).setCtx c) c r := by
          conv => lhs; unfold releaseLoop
          rw [release_more hr hl ho hh]
          simp only [hc, if_true]
        rw [hres]
        have hlt : holdOf (({ s.setLock r { l with hold := l.hold - 1 } with
              edges := removeAllFor s.edges c.id }).setCtx c) r < f := by
          simp [holdOf, Sys.setCtx, Sys.setLock]; omega
        have h1 := ih _ c hlt
        have h0 : RelStep c.id s (({ s.setLock r { l with hold := l.hold - 1 } with
              edges := removeAllFor s.edges c.id }).setCtx c) :=
          relStep_setLock rfl hl ho rfl rfl (Or.inr ho)
        exact ⟨h0.trans h1.rel, h1.id, h1.keep, h1.sub, h1.freed⟩
    · rw [releaseLoop_not_owned h]
      exact ⟨RelStep.refl _ _, rfl, fun _ _ hx => hx, fun _ hx => hx, fun hr hown => h ⟨hr, hown⟩⟩

theorem releaseFully_spec (s : Sys) (c : Ctx) (r : Nat) : LoopOut c r s (releaseFully s c r) :=
  releaseLoop_spec r _ s c (Nat.lt_succ_self _)

theorem releaseKeys_relStep : ∀ (ks : List Nat) (s : Sys) (c : Ctx),
    RelStep c.id s (releaseKeys ks s c).1 ∧ (releaseKeys ks s c).2.id = c.id
  | [], s, c => ⟨RelStep.refl _ _, rfl⟩
  | k :: ks, s, c => by
    have h1 := releaseFully_spec s c k
    have h2 := releaseKeys_relStep ks (releaseFully s c k).1 (releaseFully s c k).2
    simp only [releaseKeys]
    rw [h1.id] at h2
    exact ⟨h1.rel.trans h2.1, h2.2⟩

/-- if everything the operation owns is tracked in its context and still to be visited, nothing is owned at
    the end -/
theorem releaseKeys_frees : ∀ (ks : List Nat) (s : Sys) (c : Ctx),
    (∀ x, Owns s c.id x → x ∈ c.acquired ∧ x ∈ ks) → ∀ x, ¬ Owns (releaseKeys ks s c).1 c.id x
  | [], s, c, h, x => by
    intro hx
    have := (h x hx).2
    cases this
  | k :: ks, s, c, h, x => by
    have h1 := releaseFully_spec s c k
    simp only [releaseKeys]
    have hid := h1.id
    have := releaseKeys_frees ks (releaseFully s c k).1 (releaseFully s c k).2 (by
      intro y hy
      rw [hid] at hy
      have hy0 : Owns s c.id y := h1.rel.owns hy
      obtain ⟨hya, hyk⟩ := h y hy0
      have hne : y ≠ k := by
        rintro rfl
        exact h1.freed hya hy
      refine ⟨h1.keep y hne hya, ?_⟩
      rcases List.mem_cons.mp hyk with h' | h'
      · exact absurd h' hne
      · exact h') x
    rw [hid] at this
    exact this

/-! ### `finish` (complete_operation / abort_operation) -/

/-- what ending operation `o` does to the system, whatever its context object says -/
structure FinStep (o : Nat) (s s' : Sys) : Prop where
  locks : ∀ r, match s.locks r with
    | none => s'.locks r = none
    | some l => ∃ l', s'.locks r = some l' ∧ l'.preempt = l.preempt ∧
        l'.waiting = l.waiting.filter (fun e => e.1 ≠ o) ∧
        ((l'.owner = l.owner ∧ l'.hold = l.hold ∧ l'.ownerPrio = l.ownerPrio) ∨
         (l.owner = some o ∧ (l'.owner = none ∨ l'.owner = some o)))
  active : s'.active = s.active.filter (fun x => x.id ≠ o)
  now : s'.now = s.now
  cfg : s'.maxOp = s.maxOp ∧ s'.starv = s.starv ∧ s'.prog = s.prog ∧ s'.strategy = s.strategy ∧
    s'.boosts = s.boosts ∧ s'.resIds = s.resIds
  edges : ∀ w b r, HasEdge s'.edges w b r ↔ (w ≠ o ∧ b ≠ o ∧ HasEdge s.edges w b r)
  keys : (s.edges.map (·.1)).Nodup → (s'.edges.map (·.1)).Nodup

theorem finish_finStep (s : Sys) (c : Ctx) : FinStep c.id s (finish s c).1 := by
  have hr := (releaseKeys_relStep c.acquired s c).1
  unfold finish releaseAll
  simp only
  refine ⟨?_, ?_, hr.now, hr.cfg, ?_, fun h => keys_removeAllFor_nodup c.id (hr.keys h)⟩
  · intro r
    simp only [forgetWaiter]
    rcases hr.locks r with he | ⟨l, l2, hl, ho, hl2, hp, hw, hown⟩
    · rw [he]
      cases hs : s.locks r with
      | none => simp
      | some l => exact ⟨_, rfl, rfl, rfl, Or.inl ⟨rfl, rfl, rfl⟩⟩
    · rw [hl, hl2]
      exact ⟨_, rfl, hp, by simp [hw], Or.inr ⟨ho, hown⟩⟩
  · simp only [forgetWaiter]
    exact hr.others
  · intro w b r
    simp only [forgetWaiter]
    rw [hasEdge_removeAllFor]
    constructor
    · rintro ⟨hw, hb, h⟩; exact ⟨hw, hb, hr.edges w b r h⟩
    · rintro ⟨hw, hb, h⟩; exact ⟨hw, hb, hr.edgesKeep w b r hw hb h⟩

theorem FinStep.owns {o : Nat} {s s' : Sys} (h : FinStep o s s') {a x : Nat} (ha : Owns s' a x) : Owns s a x := by
  obtain ⟨l', hl', ho'⟩ := ha
  have := h.locks x
  cases hs : s.locks x with
  | none => rw [hs] at this; simp only at this; rw [this] at hl'; cases hl'
  | some l =>
    rw [hs] at this
    obtain ⟨l2, hl2, _, _, hcase⟩ := this
    rw [hl2] at hl'; cases hl'
    rcases hcase with ⟨hsame, _, _⟩ | ⟨ho, hn | hso⟩
    · exact ⟨l, hs, hsame ▸ ho'⟩
    · rw [hn] at ho'; cases ho'
    · rw [hso] at ho'; cases ho'; exact ⟨l, hs, ho⟩

theorem FinStep.owns_other {o : Nat} {s s' : Sys} (h : FinStep o s s') {a x : Nat} (hne : a ≠ o)
    (ha : Owns s a x) : Owns s' a x := by
  obtain ⟨l, hl, ho⟩ := ha
  have := h.locks x
  rw [hl] at this
  obtain ⟨l2, hl2, _, _, hcase⟩ := this
  rcases hcase with ⟨hsame, _, _⟩ | ⟨ho2, _⟩
  · exact ⟨l2, hl2, hsame.trans ho⟩
  · rw [ho] at ho2; cases ho2; exact absurd rfl hne

/-- the operation is gone from every waiting list -/
theorem FinStep.not_waiting {o : Nat} {s s' : Sys} (h : FinStep o s s') {r : Nat} {l' : Lock}
    (hl : s'.locks r = some l') : ∀ e ∈ l'.waiting, e.1 ≠ o := by
  have := h.locks r
  cases hs : s.locks r with
  | none => rw [hs] at this; simp only at this; rw [this] at hl; cases hl
  | some l =>
    rw [hs] at this
    obtain ⟨l2, hl2, _, hw, _⟩ := this
    rw [hl2] at hl; cases hl
    intro e he
    rw [hw] at he
    simpa using (List.mem_filter.mp he).2

theorem FinStep.not_active {o : Nat} {s s' : Sys} (h : FinStep o s s') : ∀ c ∈ s'.active, c.id ≠ o := by
  intro c hc
  rw [h.active] at hc
  simpa using (List.mem_filter.mp hc).2

/-- the no-leak step: if the context tracks everything the operation owns, nothing is owned afterwards -/
theorem finish_frees {s : Sys} {c : Ctx} (H : ∀ x, Owns s c.id x → x ∈ c.acquired) :
    ∀ x, ¬ Owns (finish s c).1 c.id x := by
  intro x hx
  have hfree := releaseKeys_frees c.acquired s c (fun y hy => ⟨H y hy, H y hy⟩) x
  apply hfree
  obtain ⟨l', hl', ho'⟩ := hx
  simp only [finish, releaseAll, forgetWaiter] at hl'
  cases hp : (releaseKeys c.acquired s c).1.locks x with
  | none => rw [hp] at hl'; cases hl'
  | some l =>
    rw [hp] at hl'
    simp only [Option.map_some, Option.some.injEq] at hl'
    subst hl'
    exact ⟨l, hp, ho'⟩

/-! ### the state after an operation has ended -/

/-- nothing in the system refers to operation `op` any more -/
structure Clean (s : Sys) (op : Nat) : Prop where
  owns : ∀ x, ¬ Owns s op x
  active : ∀ c ∈ s.active, c.id ≠ op
  waiting : ∀ r l, s.locks r = some l → ∀ e ∈ l.waiting, e.1 ≠ op
  edges : ∀ w b r, HasEdge s.edges w b r → w ≠ op ∧ b ≠ op

/-- everything `op` owns is tracked by the context `c` -/
def Tracked (s : Sys) (op : Nat) (c : Ctx) : Prop := ∀ x, Owns s op x → x ∈ c.acquired

theorem finish_clean {s : Sys} {c : Ctx} (H : Tracked s c.id c) : Clean (finish s c).1 c.id := by
  have hf := finish_finStep s c
  refine ⟨finish_frees H, hf.not_active, fun r l hl => hf.not_waiting hl, ?_⟩
  intro w b r h
  have := (hf.edges w b r).mp h
  exact ⟨this.1, this.2.1⟩

theorem mem_setCtx {s : Sys} {c2 c' : Ctx} (h : c' ∈ (s.setCtx c2).active) :
    c' = c2 ∨ (c' ∈ s.active ∧ c'.id ≠ c2.id) := by
  simp only [Sys.setCtx, List.mem_map] at h
  obtain ⟨x, hx, rfl⟩ := h
  by_cases hid : x.id = c2.id
  · simp [hid]
  · simp [hid, hx]

theorem owns_setCtx {s : Sys} {c2 : Ctx} {o x : Nat} : Owns (s.setCtx c2) o x ↔ Owns s o x := Iff.rfl

theorem tracked_setCtx {s : Sys} {op : Nat} {c c2 : Ctx} (h : Tracked s op c) (ha : c2.acquired = c.acquired) :
    Tracked (s.setCtx c2) op c2 := by
  intro x hx
  rw [ha]
  exact h x hx

/-- every listed context of `op` tracks what `op` owns; an unlisted `op` owns nothing -/
structure Kinv (s : Sys) (op : Nat) : Prop where
  listed : ∀ c ∈ s.active, c.id = op → Tracked s op c
  unlisted : (∀ c ∈ s.active, c.id ≠ op) → ∀ x, ¬ Owns s op x

theorem kinv_setCtx {s : Sys} {op : Nat} {c2 : Ctx} (hk : Kinv s op) (hid : c2.id = op) (ht : Tracked s op c2) :
    Kinv (s.setCtx c2) op := by
  constructor
  · intro c' hc' hid'
    rcases mem_setCtx hc' with rfl | ⟨hm, hne⟩
    · exact ht
    · rw [hid, ← hid'] at hne; exact absurd rfl hne
  · intro hno x
    apply hk.unlisted
    intro c hc hcid
    have hids := setCtx_ids s c2
    have : c.id ∈ (s.setCtx c2).active.map (·.id) := by rw [hids]; exact List.mem_map.mpr ⟨c, hc, rfl⟩
    obtain ⟨c', hc', hcc⟩ := List.mem_map.mp this
    exact hno c' hc' (hcc.trans hcid)

theorem ctx?_some {s : Sys} {o : Nat} {c : Ctx} (h : s.ctx? o = some c) : c ∈ s.active ∧ c.id = o := by
  unfold Sys.ctx? at h
  exact ⟨List.mem_of_find?_eq_some h, by simpa using List.find?_some h⟩

theorem ctx?_none {s : Sys} {o : Nat} (h : s.ctx? o = none) : ∀ c ∈ s.active, c.id ≠ o := by
  unfold Sys.ctx? at h
  intro c hc
  simpa using List.find?_eq_none.mp h c hc

/-- ending any operation keeps `Kinv` for `op` -/
theorem kinv_abortById {s : Sys} {op : Nat} (hk : Kinv s op) (o : Nat) : Kinv (abortById s o) op := by
  unfold abortById
  cases hc : s.ctx? o with
  | none => exact hk
  | some cx =>
    simp only
    obtain ⟨hmem, hid⟩ := ctx?_some hc
    have hf := finish_finStep s cx
    by_cases ho : o = op
    · have hcl : Clean (finish s cx).1 cx.id := finish_clean (by rw [hid, ho]; exact hk.listed cx hmem (hid.trans ho))
      rw [hid, ho] at hcl
      exact ⟨fun c _ _ x hx => absurd hx (hcl.owns x), fun _ => hcl.owns⟩
    · rw [hid] at hf
      constructor
      · intro c hcm hcid x hx
        rw [hf.active] at hcm
        exact hk.listed c (List.mem_filter.mp hcm).1 hcid x (hf.owns hx)
      · intro hno x hx
        apply hk.unlisted _ x (hf.owns hx)
        intro c hcm hcid
        apply hno c _ hcid
        rw [hf.active]
        exact List.mem_filter.mpr ⟨hcm, by simp [hcid, Ne.symm ho]⟩

theorem kinv_abortMany {op : Nat} : ∀ (ids : List Nat) {s : Sys}, Kinv s op → Kinv (abortMany s ids) op
  | [], _, h => h
  | o :: ids, s, h => by
    unfold abortMany
    simp only [List.foldl_cons]
    exact kinv_abortMany ids (kinv_abortById h o)

/-! ### priority inheritance touches priorities only -/

/-- same locks, same graph, same ids, and every listed context has a counterpart with the same id and the same
    tracked resources (what `check_and_boost` preserves) -/
structure SameOwn (s s' : Sys) : Prop where
  locks : s'.locks = s.locks
  edges : s'.edges = s.edges
  ids : s'.active.map (·.id) = s.active.map (·.id)
  ctxs : ∀ c' ∈ s'.active, ∃ c ∈ s.active, c.id = c'.id ∧ c.acquired = c'.acquired

theorem SameOwn.refl (s : Sys) : SameOwn s s := ⟨rfl, rfl, rfl, fun c hc => ⟨c, hc, rfl, rfl⟩⟩

theorem SameOwn.trans {a b c : Sys} (h1 : SameOwn a b) (h2 : SameOwn b c) : SameOwn a c := by
  refine ⟨h2.locks.trans h1.locks, h2.edges.trans h1.edges, h2.ids.trans h1.ids, ?_⟩
  intro x hx
  obtain ⟨y, hy, hi, ha⟩ := h2.ctxs x hx
  obtain ⟨z, hz, hi', ha'⟩ := h1.ctxs y hy
  exact ⟨z, hz, hi'.trans hi, ha'.trans ha⟩

theorem sameOwn_setPrio {s : Sys} {h : Ctx} (hm : h ∈ s.active) (p : Int) :
    SameOwn s (s.setCtx { h with prio := p }) := by
  refine ⟨rfl, rfl, setCtx_ids _ _, ?_⟩
  intro c' hc'
  rcases mem_setCtx hc' with rfl | ⟨hmem, _⟩
  · exact ⟨h, hm, rfl, rfl⟩
  · exact ⟨c', hmem, rfl, rfl⟩

theorem sameOwn_boostHolder (st : BoostSt) (o : Nat) : SameOwn st.sys (boostHolder st o).sys := by
  unfold boostHolder
  cases hc : st.sys.ctx? o with
  | none => exact SameOwn.refl _
  | some h =>
    simp only
    split
    · have := sameOwn_setPrio (ctx?_some hc).1 st.maxp
      exact ⟨this.locks, this.edges, this.ids, this.ctxs⟩
    · exact SameOwn.refl _

theorem sameOwn_foldHolder : ∀ (l : List Nat) (st : BoostSt), SameOwn st.sys (l.foldl boostHolder st).sys
  | [], st => SameOwn.refl _
  | o :: l, st => by
    simp only [List.foldl_cons]
    exact (sameOwn_boostHolder st o).trans (sameOwn_foldHolder l _)

theorem sameOwn_boostWaiter (acc : Sys × List (Nat × Int × Int)) (w : Nat) : SameOwn acc.1 (boostWaiter acc w).1 := by
  unfold boostWaiter
  cases acc.1.ctx? w with
  | none => exact SameOwn.refl _
  | some wc =>
    simp only
    exact sameOwn_foldHolder _ { sys := acc.1, maxp := wc.prio, new := acc.2 }

theorem sameOwn_foldWaiter : ∀ (l : List Nat) (acc : Sys × List (Nat × Int × Int)),
    SameOwn acc.1 (l.foldl boostWaiter acc).1
  | [], acc => SameOwn.refl _
  | w :: l, acc => by
    simp only [List.foldl_cons]
    exact (sameOwn_boostWaiter acc w).trans (sameOwn_foldWaiter l _)

theorem sameOwn_checkAndBoost (s : Sys) : SameOwn s (checkAndBoost s).1 := sameOwn_foldWaiter _ (s, [])

theorem SameOwn.owns {s s' : Sys} (h : SameOwn s s') {o x : Nat} : Owns s' o x ↔ Owns s o x := by
  unfold Owns; rw [h.locks]

theorem kinv_sameOwn {s s' : Sys} {op : Nat} (h : SameOwn s s') (hk : Kinv s op) : Kinv s' op := by
  constructor
  · intro c' hc' hid x hx
    obtain ⟨c, hc, hi, ha⟩ := h.ctxs c' hc'
    rw [← ha]
    exact hk.listed c hc (hi.trans hid) x (h.owns.mp hx)
  · intro hno x hx
    apply hk.unlisted _ x (h.owns.mp hx)
    intro c hc hcid
    have : c.id ∈ s'.active.map (·.id) := by rw [h.ids]; exact List.mem_map.mpr ⟨c, hc, rfl⟩
    obtain ⟨c', hc', hcc⟩ := List.mem_map.mp this
    exact hno c' hc' (hcc.trans hcid)

/-! ### what code running inside the work function can do -/

theorem kinv_applyAct {s : Sys} {op : Nat} (hk : Kinv s op) (a : WorkAct) : Kinv (applyAct s a) op := by
  cases a with
  | none => exact hk
  | kill t => exact kinv_abortById hk t
  | shutdown =>
    have := kinv_abortMany (s.active.map (·.id)) hk
    exact ⟨this.listed, this.unlisted⟩
  | watchdog => exact kinv_abortMany _ hk
  | maint =>
    simp only [applyAct, maintenance, wdExecute]
    exact kinv_abortMany _ (kinv_sameOwn (sameOwn_checkAndBoost s) hk)

/-! ### callbacks that act on the system (checkpoint conditions, `work_fn`, `validate_fn`) -/

theorem ctx?_eq_none {s : Sys} {o : Nat} (h : ∀ c ∈ s.active, c.id ≠ o) : s.ctx? o = none := by
  unfold Sys.ctx?
  exact List.find?_eq_none.mpr (fun c hc => by simpa using h c hc)

theorem abortById_owns {s : Sys} (o : Nat) {a x : Nat} (h : Owns (abortById s o) a x) : Owns s a x := by
  unfold abortById at h
  cases hc : s.ctx? o with
  | none => rw [hc] at h; exact h
  | some cx => rw [hc] at h; exact (finish_finStep s cx).owns h

theorem abortById_ids {s : Sys} (o : Nat) : ∀ c' ∈ (abortById s o).active, ∃ c ∈ s.active, c.id = c'.id := by
  unfold abortById
  cases hc : s.ctx? o with
  | none => intro c' h; exact ⟨c', h, rfl⟩
  | some cx =>
    intro c' h
    simp only at h
    rw [(finish_finStep s cx).active] at h
    exact ⟨c', (List.mem_filter.mp h).1, rfl⟩

theorem abortMany_owns : ∀ (ids : List Nat) {s : Sys} {a x : Nat}, Owns (abortMany s ids) a x → Owns s a x
  | [], _, _, _, h => h
  | o :: ids, s, a, x, h => by
    unfold abortMany at h
    simp only [List.foldl_cons] at h
    exact abortById_owns o (abortMany_owns ids h)

theorem abortMany_ids : ∀ (ids : List Nat) {s : Sys}, ∀ c' ∈ (abortMany s ids).active, ∃ c ∈ s.active, c.id = c'.id
  | [], _, c', h => ⟨c', h, rfl⟩
  | o :: ids, s, c', h => by
    unfold abortMany at h
    simp only [List.foldl_cons] at h
    obtain ⟨c1, hc1, hid1⟩ := abortMany_ids ids c' h
    obtain ⟨c0, hc0, hid0⟩ := abortById_ids o c1 hc1
    exact ⟨c0, hc0, hid0.trans hid1⟩

/-- whatever a callback does, nobody gains ownership -/
theorem applyAct_owns {s : Sys} (a : WorkAct) {o x : Nat} (h : Owns (applyAct s a) o x) : Owns s o x := by
  cases a with
  | none => exact h
  | kill t => exact abortById_owns t h
  | shutdown => exact abortMany_owns (s.active.map (·.id)) (show Owns (abortMany s (s.active.map (·.id))) o x from h)
  | watchdog => exact abortMany_owns _ h
  | maint =>
    simp only [applyAct, maintenance, wdExecute] at h
    exact (sameOwn_checkAndBoost s).owns.mp (abortMany_owns _ h)

/-- … and no operation becomes active -/
theorem applyAct_ids {s : Sys} (a : WorkAct) : ∀ c' ∈ (applyAct s a).active, ∃ c ∈ s.active, c.id = c'.id := by
  cases a with
  | none => intro c' h; exact ⟨c', h, rfl⟩
  | kill t => exact abortById_ids t
  | shutdown => exact abortMany_ids (s.active.map (·.id))
  | watchdog => exact abortMany_ids _
  | maint =>
    intro c' h
    simp only [applyAct, maintenance, wdExecute] at h
    obtain ⟨c1, hc1, hid1⟩ := abortMany_ids _ c' h
    obtain ⟨c0, hc0, hid0, _⟩ := (sameOwn_checkAndBoost s).ctxs c1 hc1
    exact ⟨c0, hc0, hid0.trans hid1⟩

/-- The invariant of a running `execute_operation`: the local context object is `op`'s and tracks everything `op`
    owns, and so does every context listed for `op`.  Unlike `Kinv` it does not say that an unlisted operation owns
    nothing: an operation ended from inside one of its own callbacks goes on (acquires, works, commits) with a
    context that is no longer listed, and still has to give everything back at the end. -/
structure Winv (s : Sys) (op : Nat) (c : Ctx) : Prop where
  id : c.id = op
  tracked : Tracked s op c
  listed : ∀ c' ∈ s.active, c'.id = op → Tracked s op c'

theorem winv_setCtx {s : Sys} {op : Nat} {c c2 : Ctx} (h : Winv s op c) (hid : c2.id = op)
    (ha : c2.acquired = c.acquired) : Winv (s.setCtx c2) op c2 := by
  have ht : Tracked (s.setCtx c2) op c2 := tracked_setCtx h.tracked ha
  refine ⟨hid, ht, ?_⟩
  intro c' hc' hid'
  rcases mem_setCtx hc' with rfl | ⟨_, hne⟩
  · exact ht
  · rw [hid, ← hid'] at hne; exact absurd rfl hne

theorem refetch_winv {s0 s1 : Sys} {op : Nat} {c : Ctx} (h0 : Winv s0 op c)
    (hown : ∀ x, Owns s1 op x → Owns s0 op x)
    (hids : ∀ c' ∈ s1.active, ∃ c0 ∈ s0.active, c0.id = c'.id)
    (hk : (∃ c0 ∈ s0.active, c0.id = op) → Kinv s1 op) :
    Winv s1 op (refetch s0 s1 c) := by
  by_cases hl : ∃ c0 ∈ s0.active, c0.id = op
  · have hk1 := hk hl
    unfold refetch
    cases hc : s1.ctx? c.id with
    | some c' =>
      obtain ⟨hm, hi⟩ := ctx?_some hc
      exact ⟨hi.trans h0.id, hk1.listed c' hm (hi.trans h0.id), hk1.listed⟩
    | none =>
      have hno : ∀ c' ∈ s1.active, c'.id ≠ op := by rw [← h0.id]; exact ctx?_none hc
      cases hb : s0.ctx? c.id with
      | none => exact ⟨h0.id, fun x hx => absurd hx (hk1.unlisted hno x), hk1.listed⟩
      | some cb => exact ⟨h0.id, fun x hx => absurd hx (hk1.unlisted hno x), hk1.listed⟩
  · have hno0 : ∀ c0 ∈ s0.active, c0.id ≠ op := fun c0 hc0 hid => hl ⟨c0, hc0, hid⟩
    have hno1 : ∀ c' ∈ s1.active, c'.id ≠ op := by
      intro c' hc' hid
      obtain ⟨c0, hc0, hid0⟩ := hids c' hc'
      exact hno0 c0 hc0 (hid0.trans hid)
    have e1 : s1.ctx? c.id = none := ctx?_eq_none (by rw [h0.id]; exact hno1)
    have e0 : s0.ctx? c.id = none := ctx?_eq_none (by rw [h0.id]; exact hno0)
    unfold refetch
    rw [e1, e0]
    exact ⟨h0.id, fun x hx => h0.tracked x (hown x hx), fun c' hc' hid => absurd hid (hno1 c' hc')⟩

/-- whatever a callback does to the system from inside, the invariant survives -/
theorem winv_cbAct {s : Sys} {op : Nat} {c : Ctx} (h : Winv s op c) (a : WorkAct) (tick : Nat) :
    Winv (cbAct s c a tick).1 op (cbAct s c a tick).2 := by
  unfold cbAct
  simp only
  have h0 : Winv { s with now := s.now + tick } op c := ⟨h.id, h.tracked, h.listed⟩
  refine refetch_winv h0 (fun x hx => applyAct_owns a hx) (applyAct_ids a) ?_
  intro hl
  refine kinv_applyAct ⟨h0.listed, ?_⟩ a
  intro hno
  obtain ⟨c0, hc0, hid0⟩ := hl
  exact absurd hid0 (hno c0 hc0)

theorem refetch_id (a b : Sys) (c : Ctx) : (refetch a b c).id = c.id := by
  unfold refetch
  cases hc : b.ctx? c.id with
  | some c' => exact (ctx?_some hc).2
  | none =>
    cases a.ctx? c.id with
    | none => rfl
    | some _ => rfl

/-! ### `acquire` -/

theorem tryAcquire_blocked {l : Lock} {o : Nat} {p : Int} (h : (l.tryAcquire o p).2 = .blocked) :
    (l.tryAcquire o p).1 = { l with waiting := addWaiting l.waiting o p } ∧ l.owner ≠ some o ∧ l.owner ≠ none := by
  unfold Lock.tryAcquire at h ⊢
  cases ho : l.owner with
  | none => simp [ho] at h
  | some old =>
    simp only [ho] at h ⊢
    by_cases h1 : old = o
    · simp [h1] at h
    · simp only [h1, if_false] at h ⊢
      split at h
      · simp at h
      · rename_i h2
        simp [h2, h1]

theorem tryAcquire_owner {l : Lock} {o : Nat} {p : Int} (h : (l.tryAcquire o p).2 ≠ .blocked) :
    (l.tryAcquire o p).1.owner = some o := by
  unfold Lock.tryAcquire at h ⊢
  cases ho : l.owner with
  | none => simp
  | some old =>
    simp only [ho] at h ⊢
    by_cases h1 : old = o
    · simp [h1]
    · simp only [h1, if_false] at h ⊢
      split
      · simp
      · rename_i h2; simp [h2] at h

/-- a successful acquisition (ACQUIRED / REENTRANT / PREEMPTED) -/
theorem acquire_ok {s : Sys} {c : Ctx} {r : Nat} {l : Lock} (hl : s.locks r = some l)
    (hres : (l.tryAcquire c.id c.prio).2 ≠ .blocked) :
    acquire s c r =
      (({ s.setLock r (l.tryAcquire c.id c.prio).1 with edges := removeAllFor s.edges c.id }).setCtx
          { c with acquired := addKey c.acquired r },
        { c with acquired := addKey c.acquired r }, some (l.tryAcquire c.id c.prio).2) := by
  unfold acquire
  rw [hl]
  simp only

theorem acquire_blocked {s : Sys} {c : Ctx} {r : Nat} {l : Lock} (hl : s.locks r = some l)
    (hres : (l.tryAcquire c.id c.prio).2 = .blocked) :
    acquire s c r =
      ({ s.setLock r { l with waiting := addWaiting l.waiting c.id c.prio } with
          edges := addDep s.edges c.id (l.owner.getD 0) r }, c, some .blocked) := by
  unfold acquire
  rw [hl]
  simp only
  have h1 := (tryAcquire_blocked hres).1
  generalize hq : l.tryAcquire c.id c.prio = q at hres h1
  obtain ⟨l', res⟩ := q
  simp only at hres h1
  subst hres h1
  rfl

theorem acquire_unknown {s : Sys} {c : Ctx} {r : Nat} (hl : s.locks r = none) : acquire s c r = (s, c, none) := by
  unfold acquire; rw [hl]

theorem mem_addKey {ks : List Nat} {r x : Nat} : x ∈ addKey ks r ↔ x ∈ ks ∨ x = r := by
  unfold addKey
  split
  · rename_i h
    have : r ∈ ks := by simpa using h
    constructor
    · exact Or.inl
    · rintro (h | rfl) <;> assumption
  · simp

/-- the invariant of the acquisition phase: the context is `op`'s, tracks what `op` owns, `op` is listed, and every
    listed context of `op` tracks the same -/
structure Inv1 (s : Sys) (op : Nat) (c : Ctx) : Prop where
  id : c.id = op
  tracked : Tracked s op c
  kinv : Kinv s op
  listed : ∃ c0 ∈ s.active, c0.id = op

theorem listed_setCtx {s : Sys} {op : Nat} {c2 : Ctx} (h : ∃ c0 ∈ s.active, c0.id = op) :
    ∃ c0 ∈ (s.setCtx c2).active, c0.id = op := by
  obtain ⟨c0, hc0, hid⟩ := h
  have : c0.id ∈ (s.setCtx c2).active.map (·.id) := by rw [setCtx_ids]; exact List.mem_map.mpr ⟨c0, hc0, rfl⟩
  obtain ⟨c', hc', hcc⟩ := List.mem_map.mp this
  exact ⟨c', hc', hcc.trans hid⟩

theorem inv1_setCtx {s : Sys} {op : Nat} {c c2 : Ctx} (h : Inv1 s op c) (hid : c2.id = op)
    (ha : c2.acquired = c.acquired) : Inv1 (s.setCtx c2) op c2 := by
  have ht : Tracked s op c2 := by intro x hx; rw [ha]; exact h.tracked x hx
  exact ⟨hid, ht, kinv_setCtx h.kinv hid ht, listed_setCtx h.listed⟩

theorem inv1_acquire {s : Sys} {op : Nat} {c : Ctx} (h : Inv1 s op c) (r : Nat) :
    Inv1 (acquire s c r).1 op (acquire s c r).2.1 := by
  cases hl : s.locks r with
  | none => rw [acquire_unknown hl]; exact h
  | some l =>
    by_cases hres : (l.tryAcquire c.id c.prio).2 = .blocked
    · rw [acquire_blocked hl hres]
      have hown : ∀ o x, Owns ({ s.setLock r { l with waiting := addWaiting l.waiting c.id c.prio } with
          edges := addDep s.edges c.id (l.owner.getD 0) r }) o x ↔ Owns s o x := by
        intro o x
        unfold Owns
        by_cases hx : x = r
        · subst hx; simp [Sys.setLock, hl]
        · simp [Sys.setLock, hx]
      refine ⟨h.id, fun x hx => h.tracked x ((hown op x).mp hx), ⟨?_, ?_⟩, h.listed⟩
      · intro c' hc' hid x hx
        exact h.kinv.listed c' hc' hid x ((hown op x).mp hx)
      · intro hno x hx
        exact h.kinv.unlisted hno x ((hown op x).mp hx)
    · rw [acquire_ok hl hres]
      simp only
      have ht : Tracked ({ s.setLock r (l.tryAcquire c.id c.prio).1 with edges := removeAllFor s.edges c.id }) op
          { c with acquired := addKey c.acquired r } := by
        intro x hx
        simp only [mem_addKey]
        by_cases hxr : x = r
        · exact Or.inr hxr
        · left
          apply h.tracked x
          obtain ⟨l', hl', ho'⟩ := hx
          simp only [Sys.setLock, hxr, if_false] at hl'
          exact ⟨l', hl', ho'⟩
      refine ⟨h.id, ht, ?_, listed_setCtx h.listed⟩
      constructor
      · intro c' hc' hid'
        rcases mem_setCtx hc' with rfl | ⟨_, hne⟩
        · exact ht
        · simp only at hne; rw [h.id, ← hid'] at hne; exact absurd rfl hne
      · intro hno
        obtain ⟨c0, hc0, hid0⟩ := listed_setCtx (c2 := { c with acquired := addKey c.acquired r })
          (s := { s.setLock r (l.tryAcquire c.id c.prio).1 with edges := removeAllFor s.edges c.id }) h.listed
        exact absurd hid0 (hno c0 hc0)

theorem inv1_acqLoop {op : Nat} : ∀ (req : List Nat) {s : Sys} {c : Ctx}, Inv1 s op c →
    Inv1 (acqLoop req s c).1 op (acqLoop req s c).2.1
  | [], _, _, h => h
  | r :: rs, s, c, h => by
    have h1 := inv1_acquire h r
    unfold acqLoop
    generalize hq : acquire s c r = q at h1
    obtain ⟨s', c', res⟩ := q
    cases res with
    | none => exact h1
    | some lr =>
      cases lr with
      | blocked => exact h1
      | acquired => exact inv1_acqLoop rs h1
      | reentrant => exact inv1_acqLoop rs h1
      | preempted => exact inv1_acqLoop rs h1

/-! ### the stages of `exec` -/

theorem advance_id (now : Nat) (c : Ctx) (o : CpOut) :
    (advance now c o).1.id = c.id ∧ (advance now c o).1.acquired = c.acquired := by
  unfold advance
  cases o with
  | base => simp only; split <;> exact ⟨rfl, rfl⟩
  | no => exact ⟨rfl, rfl⟩
  | raise => exact ⟨rfl, rfl⟩

theorem clean_finish {s : Sys} {op : Nat} {c : Ctx} (hid : c.id = op) (ht : Tracked s op c) :
    Clean (finish s c).1 op := by
  subst hid
  exact finish_clean ht

theorem clean_failWith {s : Sys} {op : Nat} {c : Ctx} (hid : c.id = op) (ht : Tracked s op c)
    (log : List Ev) (aw : Option Sys) : Clean (failWith s c log aw).sys op := by
  subst hid
  exact finish_clean ht

theorem advance_id' (now : Nat) (c : Ctx) (ph : Phase) (o : CpOut) :
    (advance now { c with phase := ph } o).1.id = c.id ∧ (advance now { c with phase := ph } o).1.acquired = c.acquired :=
  advance_id now { c with phase := ph } o

theorem winv_advanceCb {s : Sys} {op : Nat} {c : Ctx} (h : Winv s op c) (adv : Adv) (i : Nat) :
    Winv (advanceCb s c adv i).1 op (advanceCb s c adv i).2.1 := by
  unfold advanceCb
  simp only
  have hp := winv_cbAct h (adv.cpAct i) (adv.cpTick i)
  generalize cbAct s c (adv.cpAct i) (adv.cpTick i) = p at hp ⊢
  have ha := advance_id' p.1.now p.2 c.phase (adv.cp i)
  split
  · exact winv_setCtx hp (ha.1.trans hp.id) ha.2
  · exact hp

theorem winv_acquire {s : Sys} {op : Nat} {c : Ctx} (h : Winv s op c) (r : Nat) :
    Winv (acquire s c r).1 op (acquire s c r).2.1 := by
  cases hl : s.locks r with
  | none => rw [acquire_unknown hl]; exact h
  | some l =>
    by_cases hres : (l.tryAcquire c.id c.prio).2 = .blocked
    · rw [acquire_blocked hl hres]
      have hown : ∀ o x, Owns ({ s.setLock r { l with waiting := addWaiting l.waiting c.id c.prio } with
          edges := addDep s.edges c.id (l.owner.getD 0) r }) o x ↔ Owns s o x := by
        intro o x
        unfold Owns
        by_cases hx : x = r
        · subst hx; simp [Sys.setLock, hl]
        · simp [Sys.setLock, hx]
      exact ⟨h.id, fun x hx => h.tracked x ((hown op x).mp hx),
        fun c' hc' hid x hx => h.listed c' hc' hid x ((hown op x).mp hx)⟩
    · rw [acquire_ok hl hres]
      simp only
      have ht : Tracked ({ s.setLock r (l.tryAcquire c.id c.prio).1 with edges := removeAllFor s.edges c.id }) op
          { c with acquired := addKey c.acquired r } := by
        intro x hx
        simp only [mem_addKey]
        by_cases hxr : x = r
        · exact Or.inr hxr
        · left
          apply h.tracked x
          obtain ⟨l', hl', ho'⟩ := hx
          simp only [Sys.setLock, hxr, if_false] at hl'
          exact ⟨l', hl', ho'⟩
      refine ⟨h.id, ht, ?_⟩
      intro c' hc' hid'
      rcases mem_setCtx hc' with rfl | ⟨_, hne⟩
      · exact ht
      · simp only at hne; rw [h.id, ← hid'] at hne; exact absurd rfl hne

theorem winv_acqLoop {op : Nat} : ∀ (req : List Nat) {s : Sys} {c : Ctx}, Winv s op c →
    Winv (acqLoop req s c).1 op (acqLoop req s c).2.1
  | [], _, _, h => h
  | r :: rs, s, c, h => by
    have h1 := winv_acquire h r
    unfold acqLoop
    generalize hq : acquire s c r = q at h1
    obtain ⟨s', c', res⟩ := q
    cases res with
    | none => exact h1
    | some lr =>
      cases lr with
      | blocked => exact h1
      | acquired => exact winv_acqLoop rs h1
      | reentrant => exact winv_acqLoop rs h1
      | preempted => exact winv_acqLoop rs h1

theorem clean_execCommit {s : Sys} {op : Nat} {c : Ctx} (h : Winv s op c) (adv : Adv)
    (log : List Ev) (aw : Option Sys) : Clean (execCommit s c adv log aw).sys op := by
  unfold execCommit
  simp only
  have h1 : Winv (s.setCtx { c with valPassed := true }) op { c with valPassed := true } := winv_setCtx h h.id rfl
  have h2 := winv_advanceCb h1 adv 3
  split
  · exact clean_finish h2.id h2.tracked
  · exact clean_failWith h2.id h2.tracked _ _

theorem clean_execValidate {s : Sys} {op : Nat} {c : Ctx} (h : Winv s op c) (adv : Adv)
    (log : List Ev) (aw : Option Sys) : Clean (execValidate s c adv log aw).sys op := by
  unfold execValidate
  simp only
  have h1 := winv_advanceCb h adv 2
  generalize advanceCb s c adv 2 = a at h1 ⊢
  have hp := winv_cbAct h1 adv.valAct adv.valTick
  split
  · split
    · exact clean_execCommit h1 adv _ _
    · exact clean_execCommit hp adv _ _
    · exact clean_failWith hp.id hp.tracked _ _
    · exact clean_failWith hp.id hp.tracked _ _
  · exact clean_failWith h1.id h1.tracked _ _

theorem clean_execWork {s : Sys} {op : Nat} {c : Ctx} (h : Winv s op c) (adv : Adv) (log : List Ev) :
    Clean (execWork s c adv log).sys op := by
  unfold execWork
  simp only
  have hp := winv_cbAct h adv.act adv.tick
  generalize cbAct s c adv.act adv.tick = p at hp ⊢
  split
  · exact clean_execValidate (c := { p.2 with execDone := true }) (winv_setCtx hp hp.id rfl) adv _ _
  · exact clean_failWith hp.id hp.tracked _ _

theorem inv1_start {s : Sys} {op : Nat} (hown : ∀ x, ¬ Owns s op x) (p : Int) :
    Inv1 (s.start op p).1 op (s.start op p).2 := by
  unfold Sys.start
  simp only
  split
  · refine ⟨rfl, fun x hx => absurd hx (hown x), ⟨fun _ _ _ x hx => absurd hx (hown x), fun _ x => hown x⟩, ?_⟩
    rename_i hany
    simp only [List.any_eq_true, decide_eq_true_eq] at hany
    exact listed_setCtx hany
  · exact ⟨rfl, fun x hx => absurd hx (hown x), ⟨fun _ _ _ x hx => absurd hx (hown x), fun _ x => hown x⟩,
      ⟨_, List.mem_append_right _ (List.mem_singleton.mpr rfl), rfl⟩⟩

theorem Inv1.winv {s : Sys} {op : Nat} {c : Ctx} (h : Inv1 s op c) : Winv s op c := ⟨h.id, h.tracked, h.kinv.listed⟩

theorem clean_exec (s : Sys) (op : Nat) (prio : Int) (req : List Nat) (adv : Adv) (hown : ∀ x, ¬ Owns s op x) :
    Clean (exec s op prio req adv).sys op := by
  unfold exec
  simp only
  have h0 := (inv1_start hown prio).winv
  have h1 := winv_advanceCb h0 adv 0
  generalize advanceCb (s.start op prio).1 (s.start op prio).2 adv 0 = a0 at h1 ⊢
  have h2 := winv_acqLoop req h1
  generalize acqLoop req a0.1 a0.2.1 = q at h2 ⊢
  split
  · have h3 : Winv (q.1.setCtx { q.2.1 with resAcq := true }) op { q.2.1 with resAcq := true } :=
      winv_setCtx h2 h2.id rfl
    have h4 := winv_advanceCb h3 adv 1
    split
    · split
      · exact clean_execWork h4 adv _
      · exact clean_failWith h4.id h4.tracked _ _
    · exact clean_failWith h4.id h4.tracked _ _
  · exact clean_failWith h2.id h2.tracked _ _

/-! ### the event log of `exec` -/

def valEvs : ValOut → List Ev
  | .absent => []
  | _ => [.validate true]

/-- the possible endings of the event log, with the reported success -/
inductive Tail (adv : Adv) : List Ev → Bool → Prop where
  | acqFail : Tail adv [.abort] false
  | cp1 : Tail adv [.cp 1 false, .abort] false
  | ended : Tail adv [.cp 1 true, .abort] false      -- ended on the way to the work function: no work
  | workRaise : adv.workOk = false → Tail adv [.cp 1 true, .work false, .abort] false
  | cp2 : adv.workOk = true → Tail adv [.cp 1 true, .work true, .cp 2 false, .abort] false
  | valFail : adv.workOk = true → (adv.val = .no ∨ adv.val = .raise) →
      Tail adv [.cp 1 true, .work true, .cp 2 true, .validate false, .abort] false
  | cp3 : adv.workOk = true → (adv.val = .absent ∨ adv.val = .yes) →
      Tail adv ([.cp 1 true, .work true, .cp 2 true] ++ valEvs adv.val ++ [.cp 3 false, .abort]) false
  | commit : adv.workOk = true → (adv.val = .absent ∨ adv.val = .yes) →
      Tail adv ([.cp 1 true, .work true, .cp 2 true] ++ valEvs adv.val ++ [.cp 3 true, .complete]) true

theorem acqLoop_log : ∀ (req : List Nat) (s : Sys) (c : Ctx),
    ∀ e ∈ (acqLoop req s c).2.2.1, ∃ r res, e = Ev.acq r res
  | [], _, _, e, h => by simp [acqLoop] at h
  | r :: rs, s, c, e, h => by
    unfold acqLoop at h
    generalize hq : acquire s c r = q at h
    obtain ⟨s', c', res⟩ := q
    cases res with
    | none => simp at h; exact ⟨r, none, h⟩
    | some lr =>
      cases lr with
      | blocked => simp at h; exact ⟨r, _, h⟩
      | acquired =>
        simp at h
        rcases h with h | h
        · exact ⟨r, _, h⟩
        · exact acqLoop_log rs s' c' e h
      | reentrant =>
        simp at h
        rcases h with h | h
        · exact ⟨r, _, h⟩
        · exact acqLoop_log rs s' c' e h
      | preempted =>
        simp at h
        rcases h with h | h
        · exact ⟨r, _, h⟩
        · exact acqLoop_log rs s' c' e h

theorem execCommit_shape (s : Sys) (c : Ctx) (adv : Adv) (log : List Ev) (aw : Option Sys) :
    ((execCommit s c adv log aw).log = log ++ [.cp 3 false, .abort] ∧ (execCommit s c adv log aw).success = false) ∨
    ((execCommit s c adv log aw).log = log ++ [.cp 3 true, .complete] ∧ (execCommit s c adv log aw).success = true) := by
  unfold execCommit
  simp only
  split
  · right; exact ⟨rfl, rfl⟩
  · left; simp [failWith]

theorem execValidate_shape (s : Sys) (c : Ctx) (adv : Adv) (log : List Ev) (aw : Option Sys)
    (hw : adv.workOk = true) :
    ∃ t, (execValidate s c adv log aw).log = log ++ t ∧
      Tail adv ([.cp 1 true, .work true] ++ t) (execValidate s c adv log aw).success := by
  unfold execValidate
  simp only
  generalize advanceCb s c adv 2 = a
  generalize cbAct a.1 a.2.1 adv.valAct adv.valTick = p
  split
  · cases hv : adv.val with
    | absent =>
      simp only
      rcases execCommit_shape a.1 a.2.1 adv (log ++ [.cp 2 true]) aw with ⟨h1, h2⟩ | ⟨h1, h2⟩
      · refine ⟨[.cp 2 true, .cp 3 false, .abort], by rw [h1]; simp, ?_⟩
        rw [h2]
        have := Tail.cp3 hw (Or.inl hv)
        simpa [hv, valEvs] using this
      · refine ⟨[.cp 2 true, .cp 3 true, .complete], by rw [h1]; simp, ?_⟩
        rw [h2]
        have := Tail.commit hw (Or.inl hv)
        simpa [hv, valEvs] using this
    | yes =>
      simp only
      rcases execCommit_shape p.1 p.2 adv (log ++ [.cp 2 true, .validate true]) aw with ⟨h1, h2⟩ | ⟨h1, h2⟩
      · refine ⟨[.cp 2 true, .validate true, .cp 3 false, .abort], by rw [h1]; simp, ?_⟩
        rw [h2]
        have := Tail.cp3 hw (Or.inr hv)
        simpa [hv, valEvs] using this
      · refine ⟨[.cp 2 true, .validate true, .cp 3 true, .complete], by rw [h1]; simp, ?_⟩
        rw [h2]
        have := Tail.commit hw (Or.inr hv)
        simpa [hv, valEvs] using this
    | no =>
      exact ⟨[.cp 2 true, .validate false, .abort], by simp [failWith], by
        simpa [failWith] using Tail.valFail hw (Or.inl hv)⟩
    | raise =>
      exact ⟨[.cp 2 true, .validate false, .abort], by simp [failWith], by
        simpa [failWith] using Tail.valFail hw (Or.inr hv)⟩
  · exact ⟨[.cp 2 false, .abort], by simp [failWith], by simpa [failWith] using Tail.cp2 hw⟩

theorem execWork_shape (s : Sys) (c : Ctx) (adv : Adv) (log : List Ev) :
    ∃ t, (execWork s c adv log).log = log ++ t ∧ Tail adv (.cp 1 true :: t) (execWork s c adv log).success := by
  unfold execWork
  simp only
  generalize cbAct s c adv.act adv.tick = p
  split
  · rename_i hw
    obtain ⟨t, h1, h2⟩ := execValidate_shape (p.1.setCtx { p.2 with execDone := true })
      { p.2 with execDone := true } adv (log ++ [.work true]) (some s) hw
    exact ⟨.work true :: t, by rw [h1]; simp, by simpa using h2⟩
  · rename_i hw
    exact ⟨[.work false, .abort], by simp [failWith], by
      simpa [failWith] using Tail.workRaise (by simpa using hw)⟩

theorem execCommit_atWork (s : Sys) (c : Ctx) (adv : Adv) (log : List Ev) (aw : Option Sys) :
    (execCommit s c adv log aw).atWork = aw := by
  unfold execCommit; simp only; split <;> rfl

theorem execValidate_atWork (s : Sys) (c : Ctx) (adv : Adv) (log : List Ev) (aw : Option Sys) :
    (execValidate s c adv log aw).atWork = aw := by
  unfold execValidate
  simp only
  split
  · split <;> first | exact execCommit_atWork _ _ _ _ _ | rfl
  · rfl

theorem execWork_atWork (s : Sys) (c : Ctx) (adv : Adv) (log : List Ev) :
    (execWork s c adv log).atWork = some s := by
  unfold execWork
  simp only
  split
  · exact execValidate_atWork _ _ _ _ _
  · rfl

/-! ### ownership during the acquisition phase -/

theorem acquire_owns_mono {s : Sys} {c : Ctx} (r : Nat) {x : Nat} (h : Owns s c.id x) :
    Owns (acquire s c r).1 c.id x := by
  cases hl : s.locks r with
  | none => rw [acquire_unknown hl]; exact h
  | some l =>
    by_cases hres : (l.tryAcquire c.id c.prio).2 = .blocked
    · rw [acquire_blocked hl hres]
      by_cases hx : x = r
      · subst hx
        obtain ⟨l0, hl0, ho0⟩ := h
        rw [hl] at hl0; cases hl0
        exact ⟨{ l with waiting := addWaiting l.waiting c.id c.prio }, by simp [Sys.setLock], ho0⟩
      · obtain ⟨l0, hl0, ho0⟩ := h
        exact ⟨l0, by simp [Sys.setLock, hx, hl0], ho0⟩
    · rw [acquire_ok hl hres]
      by_cases hx : x = r
      · subst hx
        exact ⟨_, by simp [Sys.setCtx, Sys.setLock], tryAcquire_owner hres⟩
      · obtain ⟨l0, hl0, ho0⟩ := h
        exact ⟨l0, by simp [Sys.setCtx, Sys.setLock, hx, hl0], ho0⟩

theorem acquire_id (s : Sys) (c : Ctx) (r : Nat) : (acquire s c r).2.1.id = c.id := by
  cases hl : s.locks r with
  | none => rw [acquire_unknown hl]
  | some l =>
    by_cases hres : (l.tryAcquire c.id c.prio).2 = .blocked
    · rw [acquire_blocked hl hres]
    · rw [acquire_ok hl hres]

theorem acquire_owns_new {s : Sys} {c : Ctx} {r : Nat} {res : LockResult}
    (h : (acquire s c r).2.2 = some res) (hne : res ≠ .blocked) : Owns (acquire s c r).1 c.id r := by
  cases hl : s.locks r with
  | none => rw [acquire_unknown hl] at h; cases h
  | some l =>
    by_cases hres : (l.tryAcquire c.id c.prio).2 = .blocked
    · rw [acquire_blocked hl hres] at h; cases h; exact absurd rfl hne
    · rw [acquire_ok hl hres]
      exact ⟨_, by simp [Sys.setCtx, Sys.setLock], tryAcquire_owner hres⟩

theorem acqLoop_owns_mono : ∀ (req : List Nat) {s : Sys} {c : Ctx} {x : Nat}, Owns s c.id x →
    Owns (acqLoop req s c).1 c.id x
  | [], _, _, _, h => h
  | r :: rs, s, c, x, h => by
    have h1 := acquire_owns_mono r h
    have hid := acquire_id s c r
    unfold acqLoop
    generalize hq : acquire s c r = q at h1 hid
    obtain ⟨s', c', res⟩ := q
    simp only at h1 hid
    cases res with
    | none => exact h1
    | some lr =>
      cases lr with
      | blocked => exact h1
      | acquired => simp only; rw [← hid] at h1 ⊢; exact acqLoop_owns_mono rs h1
      | reentrant => simp only; rw [← hid] at h1 ⊢; exact acqLoop_owns_mono rs h1
      | preempted => simp only; rw [← hid] at h1 ⊢; exact acqLoop_owns_mono rs h1

/-- when the whole request list went through, every requested resource is owned -/
theorem acqLoop_owns_all : ∀ (req : List Nat) {s : Sys} {c : Ctx}, (acqLoop req s c).2.2.2 = true →
    ∀ r ∈ req, Owns (acqLoop req s c).1 c.id r
  | [], _, _, _, r, hr => by cases hr
  | r0 :: rs, s, c, hok, r, hr => by
    have hid := acquire_id s c r0
    have hnew := @acquire_owns_new s c r0
    unfold acqLoop at hok ⊢
    generalize hq : acquire s c r0 = q at hok hid hnew
    obtain ⟨s', c', res⟩ := q
    simp only at hid hnew
    cases res with
    | none => simp at hok
    | some lr =>
      cases lr with
      | blocked => simp at hok
      | acquired =>
        simp only at hok ⊢
        rw [← hid]
        rcases List.mem_cons.mp hr with rfl | h
        · exact acqLoop_owns_mono rs (by rw [hid]; exact hnew rfl (by simp))
        · exact acqLoop_owns_all rs hok r h
      | reentrant =>
        simp only at hok ⊢
        rw [← hid]
        rcases List.mem_cons.mp hr with rfl | h
        · exact acqLoop_owns_mono rs (by rw [hid]; exact hnew rfl (by simp))
        · exact acqLoop_owns_all rs hok r h
      | preempted =>
        simp only at hok ⊢
        rw [← hid]
        rcases List.mem_cons.mp hr with rfl | h
        · exact acqLoop_owns_mono rs (by rw [hid]; exact hnew rfl (by simp))
        · exact acqLoop_owns_all rs hok r h

theorem acqLoop_id : ∀ (req : List Nat) (s : Sys) (c : Ctx), (acqLoop req s c).2.1.id = c.id
  | [], _, _ => rfl
  | r :: rs, s, c => by
    have hid := acquire_id s c r
    unfold acqLoop
    generalize hq : acquire s c r = q at hid
    obtain ⟨s', c', res⟩ := q
    simp only at hid
    cases res with
    | none => exact hid
    | some lr =>
      cases lr with
      | blocked => exact hid
      | acquired => simp only; rw [acqLoop_id rs s' c']; exact hid
      | reentrant => simp only; rw [acqLoop_id rs s' c']; exact hid
      | preempted => simp only; rw [acqLoop_id rs s' c']; exact hid

/-- a callback that leaves operation `op` alone: it does nothing to the system, or kills another operation -/
def WorkAct.spares (a : WorkAct) (op : Nat) : Prop := a = .none ∨ ∃ t, a = .kill t ∧ t ≠ op

theorem abortById_owns_other {s : Sys} {o a x : Nat} (hne : a ≠ o) (h : Owns s a x) : Owns (abortById s o) a x := by
  unfold abortById
  cases hc : s.ctx? o with
  | none => exact h
  | some cx =>
    simp only
    have hf := finish_finStep s cx
    rw [(ctx?_some hc).2] at hf
    exact hf.owns_other hne h

theorem cbAct_owns_spared {s : Sys} {c : Ctx} {a : WorkAct} {op x : Nat} (tick : Nat) (hsp : a.spares op)
    (h : Owns s op x) : Owns (cbAct s c a tick).1 op x := by
  unfold cbAct
  simp only
  rcases hsp with rfl | ⟨t, rfl, hne⟩
  · exact h
  · exact abortById_owns_other (s := { s with now := s.now + tick }) (fun e => hne e.symm) h

theorem advanceCb_owns_spared {s : Sys} {c : Ctx} {adv : Adv} {i op x : Nat} (hsp : (adv.cpAct i).spares op)
    (h : Owns s op x) : Owns (advanceCb s c adv i).1 op x := by
  have h1 := cbAct_owns_spared (c := c) (adv.cpTick i) hsp h
  unfold advanceCb
  simp only
  split
  · exact h1
  · exact h1

theorem cbAct_id (s : Sys) (c : Ctx) (a : WorkAct) (tick : Nat) : (cbAct s c a tick).2.id = c.id :=
  refetch_id _ _ c

theorem advanceCb_id (s : Sys) (c : Ctx) (adv : Adv) (i : Nat) : (advanceCb s c adv i).2.1.id = c.id := by
  unfold advanceCb
  simp only
  have ha := advance_id' (cbAct s c (adv.cpAct i) (adv.cpTick i)).1.now (cbAct s c (adv.cpAct i) (adv.cpTick i)).2
    c.phase (adv.cp i)
  split
  · exact ha.1.trans (cbAct_id _ _ _ _)
  · exact cbAct_id _ _ _ _

theorem start_id (s : Sys) (op : Nat) (prio : Int) : (s.start op prio).2.id = op := by
  unfold Sys.start; simp only; split <;> rfl

/-! ### an operation that is still listed after a callback has kept what it owned

Everything a callback can do to the system (`WorkAct`) ends operations and nothing else: whoever is still listed
afterwards was not ended, and nothing was taken from it. -/

/-- operation `op` is listed in `active_operations` -/
def Listed (s : Sys) (op : Nat) : Prop := ∃ c ∈ s.active, c.id = op

theorem listed_of_ctx? {s : Sys} {op : Nat} (h : (s.ctx? op).isSome = true) : Listed s op := by
  cases hc : s.ctx? op with
  | none => rw [hc] at h; cases h
  | some cx => exact ⟨cx, (ctx?_some hc).1, (ctx?_some hc).2⟩

theorem listed_of_ids {s s' : Sys} (h : s'.active.map (·.id) = s.active.map (·.id)) {o : Nat} (hl : Listed s o) :
    Listed s' o := by
  obtain ⟨c, hc, hid⟩ := hl
  have : c.id ∈ s'.active.map (·.id) := by rw [h]; exact List.mem_map.mpr ⟨c, hc, rfl⟩
  obtain ⟨c', hc', hcc⟩ := List.mem_map.mp this
  exact ⟨c', hc', hcc.trans hid⟩

theorem abortById_owns_listed {s : Sys} {o a x : Nat} (h : Owns s a x) (hl : Listed (abortById s o) a) :
    Owns (abortById s o) a x := by
  by_cases hne : a = o
  · subst hne
    cases hc : s.ctx? a with
    | none => unfold abortById; rw [hc]; exact h
    | some cx =>
      exfalso
      unfold abortById at hl
      rw [hc] at hl
      obtain ⟨c, hc', hid⟩ := hl
      have hf := finish_finStep s cx
      rw [(ctx?_some hc).2] at hf
      exact hf.not_active c hc' hid
  · exact abortById_owns_other hne h

theorem abortMany_owns_listed : ∀ (ids : List Nat) {s : Sys} {a x : Nat}, Owns s a x →
    Listed (abortMany s ids) a → Owns (abortMany s ids) a x
  | [], _, _, _, h, _ => h
  | o :: ids, s, a, x, h, hl => by
    unfold abortMany at hl ⊢
    simp only [List.foldl_cons] at hl ⊢
    obtain ⟨c, hc, hid⟩ := hl
    obtain ⟨c1, hc1, hid1⟩ := abortMany_ids ids c hc
    exact abortMany_owns_listed ids (abortById_owns_listed h ⟨c1, hc1, hid1.trans hid⟩) ⟨c, hc, hid⟩

/-- whatever a callback does: an operation that is still listed afterwards owns what it owned before -/
theorem applyAct_owns_listed {s : Sys} (a : WorkAct) {o x : Nat} (h : Owns s o x)
    (hl : Listed (applyAct s a) o) : Owns (applyAct s a) o x := by
  cases a with
  | none => exact h
  | kill t => exact abortById_owns_listed h hl
  | shutdown =>
    exact (show Owns (abortMany s (s.active.map (·.id))) o x from abortMany_owns_listed _ h hl)
  | watchdog => exact abortMany_owns_listed _ h hl
  | maint =>
    simp only [applyAct, maintenance, wdExecute] at hl ⊢
    exact abortMany_owns_listed _ ((sameOwn_checkAndBoost s).owns.mpr h) hl

theorem cbAct_owns_listed {s : Sys} {c : Ctx} (a : WorkAct) (tick : Nat) {op x : Nat} (h : Owns s op x)
    (hl : Listed (cbAct s c a tick).1 op) : Owns (cbAct s c a tick).1 op x :=
  applyAct_owns_listed (s := { s with now := s.now + tick }) a h hl

theorem advanceCb_locks (s : Sys) (c : Ctx) (adv : Adv) (i : Nat) :
    (advanceCb s c adv i).1.locks = (cbAct s c (adv.cpAct i) (adv.cpTick i)).1.locks := by
  unfold advanceCb; simp only; split <;> rfl

theorem advanceCb_ids (s : Sys) (c : Ctx) (adv : Adv) (i : Nat) :
    (advanceCb s c adv i).1.active.map (·.id) = (cbAct s c (adv.cpAct i) (adv.cpTick i)).1.active.map (·.id) := by
  unfold advanceCb; simp only; split
  · exact setCtx_ids _ _
  · rfl

theorem advanceCb_owns_listed {s : Sys} {c : Ctx} {adv : Adv} {i op x : Nat} (h : Owns s op x)
    (hl : Listed (advanceCb s c adv i).1 op) : Owns (advanceCb s c adv i).1 op x := by
  have h1 := cbAct_owns_listed (c := c) (adv.cpAct i) (adv.cpTick i) h (listed_of_ids (advanceCb_ids s c adv i).symm hl)
  unfold Owns at h1 ⊢
  rw [advanceCb_locks]
  exact h1

/-- the system the work function finds: every requested resource is owned by the operation.  Between the last
    acquisition and the work function runs one callback, the condition of the G1 → S checkpoint; whatever it does
    (`WorkAct`), the operation is looked at again afterwards and works only if it is still listed — and then it has
    kept everything (`advanceCb_owns_listed`).  An operation ended earlier, in its G0 callback, acquires with a
    context nobody lists and is stopped by the same test. -/
theorem exec_atWork (s : Sys) (op : Nat) (prio : Int) (req : List Nat) (adv : Adv) (w : Sys)
    (h : (exec s op prio req adv).atWork = some w) : ∀ r ∈ req, Owns w op r := by
  unfold exec at h
  simp only at h
  have hid0 := (advanceCb_id (s.start op prio).1 (s.start op prio).2 adv 0).trans (start_id s op prio)
  generalize advanceCb (s.start op prio).1 (s.start op prio).2 adv 0 = a0 at h hid0
  have hall := @acqLoop_owns_all req a0.1 a0.2.1
  rw [hid0] at hall
  split at h
  · rename_i hok
    split at h
    · split at h
      · rename_i hlisted
        rw [execWork_atWork] at h
        cases h
        intro r hr
        exact advanceCb_owns_listed (hall hok r hr) (listed_of_ctx? hlisted)
      · simp [failWith] at h
    · simp [failWith] at h
  · simp [failWith] at h

theorem exec_shape (s : Sys) (op : Nat) (prio : Int) (req : List Nat) (adv : Adv) :
    ∃ b0 acqs t, (∀ e ∈ acqs, ∃ r res, e = Ev.acq r res) ∧
      (exec s op prio req adv).log = Ev.cp 0 b0 :: acqs ++ t ∧ Tail adv t (exec s op prio req adv).success ∧
      ((exec s op prio req adv).atWork = none → t = [.abort] ∨ t = [.cp 1 false, .abort] ∨ t = [.cp 1 true, .abort]) := by
  unfold exec
  simp only
  generalize advanceCb (s.start op prio).1 (s.start op prio).2 adv 0 = a0
  have hacq := acqLoop_log req a0.1 a0.2.1
  generalize acqLoop req a0.1 a0.2.1 = q at hacq ⊢
  refine ⟨a0.2.2, q.2.2.1, ?_⟩
  split
  · generalize advanceCb (q.1.setCtx { q.2.1 with resAcq := true }) { q.2.1 with resAcq := true } adv 1 = a1
    split
    · split
      · obtain ⟨t, h1, h2⟩ := execWork_shape a1.1 a1.2.1 adv (Ev.cp 0 a0.2.2 :: q.2.2.1 ++ [.cp 1 true])
        refine ⟨.cp 1 true :: t, hacq, by rw [h1]; simp, h2, ?_⟩
        intro hn
        rw [execWork_atWork] at hn
        cases hn
      · exact ⟨[.cp 1 true, .abort], hacq, by simp [failWith], by simpa [failWith] using Tail.ended,
          fun _ => Or.inr (Or.inr rfl)⟩
    · exact ⟨[.cp 1 false, .abort], hacq, by simp [failWith], by simpa [failWith] using Tail.cp1,
        fun _ => Or.inr (Or.inl rfl)⟩
  · exact ⟨[.abort], hacq, by simp [failWith], by simpa [failWith] using Tail.acqFail, fun _ => Or.inl rfl⟩

/-! ### a lock the operation never obtains -/

/-- waiting lists are kept sorted by priority, highest first -/
def SortedDesc (w : List (Nat × Int)) : Prop := w.Pairwise (fun a b => b.2 ≤ a.2)

theorem filter_ne_self {w : List (Nat × Int)} {o : Nat} (h : ∀ e ∈ w, e.1 ≠ o) :
    w.filter (fun e => e.1 ≠ o) = w :=
  List.filter_eq_self.mpr (fun e he => by simpa using h e he)

theorem filter_insDesc (o : Nat) (p : Int) : ∀ (w : List (Nat × Int)),
    (insDesc (o, p) w).filter (fun e => e.1 ≠ o) = w.filter (fun e => e.1 ≠ o)
  | [] => by simp [insDesc]
  | y :: ys => by
    unfold insDesc
    split
    · simp
    · simp only [List.filter_cons]
      rw [filter_insDesc o p ys]

theorem insDesc_append_of_ge (x : Nat × Int) : ∀ (acc : List (Nat × Int)), (∀ a ∈ acc, x.2 ≤ a.2) →
    insDesc x acc = acc ++ [x]
  | [], _ => rfl
  | y :: ys, h => by
    unfold insDesc
    have hy : ¬ y.2 < x.2 := by have := h y (by simp); omega
    simp only [hy, if_false, List.cons_append]
    rw [insDesc_append_of_ge x ys (fun a ha => h a (by simp [ha]))]

theorem foldl_insDesc_sorted : ∀ (w acc : List (Nat × Int)), SortedDesc (acc ++ w) →
    w.foldl (fun acc x => insDesc x acc) acc = acc ++ w
  | [], acc, _ => by simp
  | x :: w, acc, h => by
    simp only [List.foldl_cons]
    have hge : ∀ a ∈ acc, x.2 ≤ a.2 := by
      intro a ha
      have := List.pairwise_append.mp h
      exact this.2.2 a ha x (by simp)
    rw [insDesc_append_of_ge x acc hge]
    have h' : SortedDesc ((acc ++ [x]) ++ w) := by simpa [SortedDesc] using h
    rw [foldl_insDesc_sorted w (acc ++ [x]) h']
    simp

theorem sortDesc_sorted {w : List (Nat × Int)} (h : SortedDesc w) : sortDesc w = w := by
  unfold sortDesc
  simpa using foldl_insDesc_sorted w [] (by simpa using h)

/-- adding `o` to a sorted waiting list that does not mention it and removing it again gives the list back -/
theorem filter_addWaiting {w : List (Nat × Int)} {o : Nat} (p : Int) (hs : SortedDesc w) (hn : ∀ e ∈ w, e.1 ≠ o) :
    (addWaiting w o p).filter (fun e => e.1 ≠ o) = w := by
  unfold addWaiting sortDesc
  rw [filter_ne_self hn, List.foldl_append]
  simp only [List.foldl_cons, List.foldl_nil]
  rw [filter_insDesc]
  have := sortDesc_sorted hs
  unfold sortDesc at this
  rw [this, filter_ne_self hn]

theorem finish_lock_other {s : Sys} {c : Ctx} {r : Nat} {lx : Lock} (hl : s.locks r = some lx)
    (ho : lx.owner ≠ some c.id) :
    (finish s c).1.locks r = some { lx with waiting := lx.waiting.filter (fun e => e.1 ≠ c.id) } := by
  have := (finish_finStep s c).locks r
  rw [hl] at this
  obtain ⟨l', hl', hp, hw, hcase⟩ := this
  rcases hcase with ⟨h1, h2, h3⟩ | ⟨h1, _⟩
  · rw [hl']
    cases l'; cases lx
    simp_all
  · exact absurd h1 ho

/-- the lock `r` is `l`, or `l` with `op` added to the waiting list (after a BLOCKED attempt) -/
def LockIs (s : Sys) (r : Nat) (l : Lock) (op : Nat) : Prop :=
  s.locks r = some l ∨ ∃ p, s.locks r = some { l with waiting := addWaiting l.waiting op p }

theorem finish_lockIs {s : Sys} {c : Ctx} {r : Nat} {l : Lock} (h : LockIs s r l c.id) (ho : l.owner ≠ some c.id)
    (hs : SortedDesc l.waiting) (hn : ∀ e ∈ l.waiting, e.1 ≠ c.id) : (finish s c).1.locks r = some l := by
  rcases h with h | ⟨p, h⟩
  · rw [finish_lock_other h ho, filter_ne_self hn]
  · rw [finish_lock_other h ho]
    simp only
    rw [filter_addWaiting p hs hn]

/-- what is assumed of a lock the operation never obtains: somebody else's or free, waiting list sorted and not
    mentioning the operation -/
structure Foreign (l : Lock) (op : Nat) : Prop where
  owner : l.owner ≠ some op
  sorted : SortedDesc l.waiting
  notWaiting : ∀ e ∈ l.waiting, e.1 ≠ op

theorem untouched_failWith {s : Sys} {op r : Nat} {c : Ctx} {l : Lock} (hf : Foreign l op) (hid : c.id = op)
    (h : LockIs s r l op) (log : List Ev) (aw : Option Sys) : (failWith s c log aw).sys.locks r = some l := by
  subst hid
  exact finish_lockIs h hf.owner hf.sorted hf.notWaiting

/-- a callback that touches no other operation: it does nothing to the system, or ends the operation itself -/
def WorkAct.selfOnly (a : WorkAct) (op : Nat) : Prop := a = .none ∨ a = .kill op

/-- none of the callbacks of the call (checkpoint conditions, work function, `validate_fn`) touches another operation -/
structure Adv.SelfOnly (adv : Adv) (op : Nat) : Prop where
  cp : ∀ i, (adv.cpAct i).selfOnly op
  work : adv.act.selfOnly op
  val : adv.valAct.selfOnly op

theorem untouched_cbAct {s : Sys} {op r : Nat} {c : Ctx} {l : Lock} (hf : Foreign l op)
    (h : s.locks r = some l) {a : WorkAct} (ha : a.selfOnly op) (tick : Nat) :
    (cbAct s c a tick).1.locks r = some l := by
  unfold cbAct
  simp only
  rcases ha with ha | ha
  · rw [ha]; exact h
  · rw [ha]
    simp only [applyAct, manualKill, abortById]
    cases hc : Sys.ctx? { s with now := s.now + tick } op with
    | none => exact h
    | some cx =>
      simp only
      have hcx := (ctx?_some hc).2
      subst hcx
      exact finish_lockIs (Or.inl h) hf.owner hf.sorted hf.notWaiting

theorem untouched_advanceCb {s : Sys} {op r : Nat} {c : Ctx} {l : Lock} (hf : Foreign l op)
    (h : s.locks r = some l) (adv : Adv) (i : Nat) (ha : (adv.cpAct i).selfOnly op) :
    (advanceCb s c adv i).1.locks r = some l := by
  have h1 := untouched_cbAct (c := c) hf h ha (adv.cpTick i)
  unfold advanceCb
  simp only
  split
  · exact h1
  · exact h1

theorem untouched_execCommit {s : Sys} {op r : Nat} {c : Ctx} {l : Lock} (hf : Foreign l op) (hid : c.id = op)
    (h : s.locks r = some l) (adv : Adv) (hso : adv.SelfOnly op) (log : List Ev) (aw : Option Sys) :
    (execCommit s c adv log aw).sys.locks r = some l := by
  unfold execCommit
  simp only
  have hl := untouched_advanceCb (s := s.setCtx { c with valPassed := true }) (c := { c with valPassed := true })
    hf h adv 3 (hso.cp 3)
  have hid' := (advanceCb_id (s.setCtx { c with valPassed := true }) { c with valPassed := true } adv 3).trans hid
  generalize advanceCb (s.setCtx { c with valPassed := true }) { c with valPassed := true } adv 3 = a at hl hid' ⊢
  split
  · subst hid'
    exact finish_lockIs (Or.inl hl) hf.owner hf.sorted hf.notWaiting
  · exact untouched_failWith hf hid' (Or.inl hl) _ _

theorem untouched_execValidate {s : Sys} {op r : Nat} {c : Ctx} {l : Lock} (hf : Foreign l op) (hid : c.id = op)
    (h : s.locks r = some l) (adv : Adv) (hso : adv.SelfOnly op) (log : List Ev) (aw : Option Sys) :
    (execValidate s c adv log aw).sys.locks r = some l := by
  unfold execValidate
  simp only
  have hl := untouched_advanceCb (c := c) hf h adv 2 (hso.cp 2)
  have hid2 := (advanceCb_id s c adv 2).trans hid
  generalize advanceCb s c adv 2 = a at hl hid2 ⊢
  have hlp := untouched_cbAct (c := a.2.1) hf hl hso.val adv.valTick
  have hidp := (cbAct_id a.1 a.2.1 adv.valAct adv.valTick).trans hid2
  generalize cbAct a.1 a.2.1 adv.valAct adv.valTick = p at hlp hidp ⊢
  split
  · split
    · exact untouched_execCommit hf hid2 hl adv hso _ _
    · exact untouched_execCommit hf hidp hlp adv hso _ _
    · exact untouched_failWith hf hidp (Or.inl hlp) _ _
    · exact untouched_failWith hf hidp (Or.inl hlp) _ _
  · exact untouched_failWith hf hid2 (Or.inl hl) _ _

theorem untouched_execWork {s : Sys} {op r : Nat} {c : Ctx} {l : Lock} (hf : Foreign l op) (hid : c.id = op)
    (h : s.locks r = some l) (adv : Adv) (hso : adv.SelfOnly op) (log : List Ev) :
    (execWork s c adv log).sys.locks r = some l := by
  unfold execWork
  simp only
  have h1 := untouched_cbAct (c := c) hf h hso.work adv.tick
  have hrid := (cbAct_id s c adv.act adv.tick).trans hid
  generalize cbAct s c adv.act adv.tick = p at h1 hrid ⊢
  split
  · exact untouched_execValidate (s := p.1.setCtx { p.2 with execDone := true }) (c := { p.2 with execDone := true })
      hf hrid h1 adv hso _ _
  · exact untouched_failWith hf hrid (Or.inl h1) _ _

theorem acquire_lock_ne {s : Sys} {c : Ctx} {r0 r : Nat} (hne : r ≠ r0) : (acquire s c r0).1.locks r = s.locks r := by
  cases hl : s.locks r0 with
  | none => rw [acquire_unknown hl]
  | some l0 =>
    by_cases hres : (l0.tryAcquire c.id c.prio).2 = .blocked
    · rw [acquire_blocked hl hres]; simp [Sys.setLock, hne]
    · rw [acquire_ok hl hres]; simp [Sys.setCtx, Sys.setLock, hne]

/-- through the acquisition loop a lock on which every attempt (if any) was BLOCKED is unchanged, or has the
    operation added to its waiting list and the loop has stopped -/
theorem acqLoop_lockIs {r : Nat} {l : Lock} : ∀ (req : List Nat) {s : Sys} {c : Ctx}, s.locks r = some l →
    (∀ res, Ev.acq r (some res) ∈ (acqLoop req s c).2.2.1 → res = .blocked) →
    ((acqLoop req s c).1.locks r = some l) ∨
      ((acqLoop req s c).2.2.2 = false ∧ LockIs (acqLoop req s c).1 r l c.id)
  | [], _, _, h, _ => Or.inl h
  | r0 :: rs, s, c, h, hlog => by
    by_cases hr : r0 = r
    · subst hr
      by_cases hres : (l.tryAcquire c.id c.prio).2 = .blocked
      · unfold acqLoop
        rw [acquire_blocked h hres]
        exact Or.inr ⟨rfl, Or.inr ⟨c.prio, by simp [Sys.setLock]⟩⟩
      · exfalso
        apply hres
        apply hlog
        unfold acqLoop
        rw [acquire_ok h hres]
        cases hq : (l.tryAcquire c.id c.prio).2 <;> simp_all
    · have hne : r ≠ r0 := fun e => hr e.symm
      have hl1 := @acquire_lock_ne s c r0 r hne
      have hid := acquire_id s c r0
      unfold acqLoop at hlog ⊢
      generalize hq : acquire s c r0 = q at hl1 hid hlog
      obtain ⟨s', c', res⟩ := q
      simp only at hl1 hid
      cases res with
      | none => exact Or.inl (hl1.trans h)
      | some lr =>
        cases lr with
        | blocked => exact Or.inl (hl1.trans h)
        | acquired =>
          simp only at hlog ⊢
          rw [← hid]
          exact acqLoop_lockIs rs (hl1.trans h) (fun res hm => hlog res (List.mem_cons_of_mem _ hm))
        | reentrant =>
          simp only at hlog ⊢
          rw [← hid]
          exact acqLoop_lockIs rs (hl1.trans h) (fun res hm => hlog res (List.mem_cons_of_mem _ hm))
        | preempted =>
          simp only at hlog ⊢
          rw [← hid]
          exact acqLoop_lockIs rs (hl1.trans h) (fun res hm => hlog res (List.mem_cons_of_mem _ hm))

theorem untouched_exec (s : Sys) (op : Nat) (prio : Int) (req : List Nat) (adv : Adv) (r : Nat) (l : Lock)
    (hl : s.locks r = some l) (hf : Foreign l op) (hso : adv.SelfOnly op)
    (hnever : ∀ res, Ev.acq r (some res) ∈ (exec s op prio req adv).log → res = .blocked) :
    (exec s op prio req adv).sys.locks r = some l := by
  have hsid := start_id s op prio
  have hsl : (s.start op prio).1.locks r = some l := by unfold Sys.start; simp only; split <;> exact hl
  have hl0 := untouched_advanceCb (c := (s.start op prio).2) hf hsl adv 0 (hso.cp 0)
  have hid0 := (advanceCb_id (s.start op prio).1 (s.start op prio).2 adv 0).trans hsid
  unfold exec at hnever ⊢
  simp only at hnever ⊢
  generalize advanceCb (s.start op prio).1 (s.start op prio).2 adv 0 = a0 at hl0 hid0 hnever ⊢
  have hloop := @acqLoop_lockIs r l req a0.1 a0.2.1 hl0
  have hqid := acqLoop_id req a0.1 a0.2.1
  rw [hid0] at hloop hqid
  generalize acqLoop req a0.1 a0.2.1 = q at hloop hqid hnever ⊢
  split
  · rename_i hok
    simp only [hok, if_true] at hnever
    have hq : q.1.locks r = some l := by
      rcases hloop (fun res hm => hnever res (by
        split
        · split
          · rw [(execWork_shape _ _ adv _).choose_spec.1]; simp [hm]
          · simp [failWith, hm]
        · simp [failWith, hm])) with h | ⟨hfalse, _⟩
      · exact h
      · rw [hok] at hfalse; cases hfalse
    have hl1 := untouched_advanceCb (s := q.1.setCtx { q.2.1 with resAcq := true }) (c := { q.2.1 with resAcq := true })
      hf hq adv 1 (hso.cp 1)
    have hid1 := (advanceCb_id (q.1.setCtx { q.2.1 with resAcq := true }) { q.2.1 with resAcq := true } adv 1).trans hqid
    generalize advanceCb (q.1.setCtx { q.2.1 with resAcq := true }) { q.2.1 with resAcq := true } adv 1 = a1 at hl1 hid1 ⊢
    split
    · split
      · exact untouched_execWork hf hid1 hl1 adv hso _
      · exact untouched_failWith hf hid1 (Or.inl hl1) _ _
    · exact untouched_failWith hf hid1 (Or.inl hl1) _ _
  · rename_i hok
    simp only [hok] at hnever
    have := hloop (fun res hm => hnever res (by simp [failWith, hm]))
    rcases this with h | ⟨_, h⟩
    · exact untouched_failWith hf hqid (Or.inl h) _ _
    · exact untouched_failWith hf hqid h _ _

/-! ### the reported phase -/

theorem execCommit_phase (s : Sys) (c : Ctx) (adv : Adv) (log : List Ev) (aw : Option Sys)
    (h : (execCommit s c adv log aw).success = true) : (execCommit s c adv log aw).phase = .m := by
  unfold execCommit at h ⊢
  simp only at h ⊢
  split
  · rfl
  · rename_i hn; simp [hn, failWith] at h

theorem execValidate_phase (s : Sys) (c : Ctx) (adv : Adv) (log : List Ev) (aw : Option Sys)
    (h : (execValidate s c adv log aw).success = true) : (execValidate s c adv log aw).phase = .m := by
  unfold execValidate at h ⊢
  simp only at h ⊢
  split
  · rename_i hp
    simp only [hp, if_true] at h
    split
    · rename_i hv; simp only [hv] at h; exact execCommit_phase _ _ _ _ _ h
    · rename_i hv; simp only [hv] at h; exact execCommit_phase _ _ _ _ _ h
    · rename_i hv; simp [hv, failWith] at h
    · rename_i hv; simp [hv, failWith] at h
  · rename_i hn; simp [hn, failWith] at h

theorem execWork_phase (s : Sys) (c : Ctx) (adv : Adv) (log : List Ev)
    (h : (execWork s c adv log).success = true) : (execWork s c adv log).phase = .m := by
  unfold execWork at h ⊢
  simp only at h ⊢
  split
  · rename_i hw; simp only [hw, if_true] at h; exact execValidate_phase _ _ _ _ _ h
  · rename_i hw; simp [hw, failWith] at h

theorem exec_success_phase (s : Sys) (op : Nat) (prio : Int) (req : List Nat) (adv : Adv)
    (h : (exec s op prio req adv).success = true) : (exec s op prio req adv).phase = .m := by
  unfold exec at h ⊢
  simp only at h ⊢
  split
  · rename_i h1
    simp only [h1, if_true] at h
    split
    · rename_i h2
      simp only [h2, if_true] at h
      split
      · rename_i h3; simp only [h3, if_true] at h; exact execWork_phase _ _ _ _ h
      · rename_i h3; simp [h3, failWith] at h
    · rename_i h2; simp [h2, failWith] at h
  · rename_i h1; simp [h1, failWith] at h

/-! ### scanning the event log -/

def isWork : Ev → Bool
  | .work _ => true
  | _ => false

theorem filter_acqs {p : Ev → Bool} (hp : ∀ r res, p (.acq r res) = false) {acqs : List Ev}
    (h : ∀ e ∈ acqs, ∃ r res, e = Ev.acq r res) : acqs.filter p = [] := by
  apply List.filter_eq_nil_iff.mpr
  intro e he
  obtain ⟨r, res, rfl⟩ := h e he
  simp [hp]

/-- scanning the log: a validation event is acceptable only after a work event that completed -/
def okOrder : Bool → List Ev → Bool
  | _, [] => true
  | seen, .work ok :: es => okOrder (seen || ok) es
  | seen, .validate _ :: es => seen && okOrder seen es
  | seen, _ :: es => okOrder seen es

theorem okOrder_skip {acqs : List Ev} (h : ∀ e ∈ acqs, ∃ r res, e = Ev.acq r res) (seen : Bool) (t : List Ev) :
    okOrder seen (acqs ++ t) = okOrder seen t := by
  induction acqs with
  | nil => rfl
  | cons a as ih =>
    obtain ⟨r, res, rfl⟩ := h a (by simp)
    simp only [List.cons_append, okOrder]
    exact ih (fun e he => h e (by simp [he]))

theorem okOrder_split : ∀ (pre : List Ev) (seen : Bool) (ok : Bool) (post : List Ev),
    okOrder seen (pre ++ .validate ok :: post) = true → seen = true ∨ Ev.work true ∈ pre
  | [], seen, ok, post, h => by
    simp only [List.nil_append, okOrder, Bool.and_eq_true] at h
    exact Or.inl h.1
  | e :: pre, seen, ok, post, h => by
    cases e with
    | work w =>
      simp only [List.cons_append, okOrder] at h
      rcases okOrder_split pre _ ok post h with h' | h'
      · cases seen <;> cases w <;> simp_all
      · exact Or.inr (by simp [h'])
    | validate v =>
      simp only [List.cons_append, okOrder, Bool.and_eq_true] at h
      exact Or.inl h.1
    | cp i b =>
      simp only [List.cons_append, okOrder] at h
      rcases okOrder_split pre _ ok post h with h' | h'
      · exact Or.inl h'
      · exact Or.inr (by simp [h'])
    | acq r res =>
      simp only [List.cons_append, okOrder] at h
      rcases okOrder_split pre _ ok post h with h' | h'
      · exact Or.inl h'
      · exact Or.inr (by simp [h'])
    | complete =>
      simp only [List.cons_append, okOrder] at h
      rcases okOrder_split pre _ ok post h with h' | h'
      · exact Or.inl h'
      · exact Or.inr (by simp [h'])
    | abort =>
      simp only [List.cons_append, okOrder] at h
      rcases okOrder_split pre _ ok post h with h' | h'
      · exact Or.inl h'
      · exact Or.inr (by simp [h'])

end Operon.Coord
