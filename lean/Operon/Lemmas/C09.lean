import Operon.Model.Telomere
import Operon.Gen.TelomereTranslated
/-! Helper lemmas for C09 (lifecycle automaton and lock discipline).  Core Lean only. -/
namespace Operon.Telomere

/-! ## Lock discipline: if the path that takes every branch returns, every path returns -/

/-- `f` run with "take everything" returns ⇒ it consumed nothing and it returns under every choice list -/
def Mono (f : List Bool → Res) : Prop :=
  ∀ ch0, f [] = .ret ch0 → ch0 = [] ∧ ∀ ch, ∃ ch', f ch = .ret ch'

theorem execCalls_mono (callM : Nat → List Bool → Res) (h : ∀ c, Mono (callM c)) :
    ∀ cs, Mono (execCalls callM cs) := by
  intro cs
  induction cs with
  | nil => intro ch0 h0; simp [execCalls] at h0 ⊢; exact h0
  | cons c cs ih =>
    intro ch0 h0
    simp only [execCalls, pop] at h0
    cases hc : callM c [] with
    | ret ch2 =>
      rw [hc] at h0
      obtain ⟨rfl, hall⟩ := h c ch2 hc
      obtain ⟨rfl, hrest⟩ := ih ch0 h0
      refine ⟨rfl, ?_⟩
      intro ch
      cases ch with
      | nil => exact ⟨[], by simp only [execCalls, pop, hc]; exact h0⟩
      | cons b ch1 =>
        cases b with
        | false => simpa [execCalls, pop] using hrest ch1
        | true =>
          obtain ⟨ch2', h2⟩ := hall ch1
          obtain ⟨ch3, h3⟩ := hrest ch2'
          exact ⟨ch3, by simp only [execCalls, pop, h2]; exact h3⟩
    | blocked => rw [hc] at h0; cases h0
    | diverged => rw [hc] at h0; cases h0

theorem execItems_mono (k : LockKind) (callM : Nat → Nat → List Bool → Res) (h : ∀ hd c, Mono (callM hd c))
    (held : Nat) : ∀ items, Mono (execItems k callM held items) := by
  intro items
  induction items with
  | nil => intro ch0 h0; simp [execItems] at h0 ⊢; exact h0
  | cons it items ih =>
    cases it with
    | call c =>
      intro ch0 h0
      simp only [execItems, pop] at h0
      cases hc : callM held c [] with
      | ret ch2 =>
        rw [hc] at h0
        obtain ⟨rfl, hall⟩ := h held c ch2 hc
        obtain ⟨rfl, hrest⟩ := ih ch0 h0
        refine ⟨rfl, ?_⟩
        intro ch
        cases ch with
        | nil => exact ⟨[], by simp only [execItems, pop, hc]; exact h0⟩
        | cons b ch1 =>
          cases b with
          | false => simpa [execItems, pop] using hrest ch1
          | true =>
            obtain ⟨ch2', h2⟩ := hall ch1
            obtain ⟨ch3, h3⟩ := hrest ch2'
            exact ⟨ch3, by simp only [execItems, pop, h2]; exact h3⟩
      | blocked => rw [hc] at h0; cases h0
      | diverged => rw [hc] at h0; cases h0
    | region cs =>
      intro ch0 h0
      simp only [execItems, pop] at h0
      cases hq : canAcq k held with
      | false => rw [hq] at h0; simp at h0
      | true =>
        rw [hq] at h0
        simp only [if_true] at h0
        cases hc : execCalls (callM (held + 1)) cs [] with
        | ret ch2 =>
          rw [hc] at h0
          obtain ⟨rfl, hall⟩ := execCalls_mono (callM (held + 1)) (h (held + 1)) cs ch2 hc
          obtain ⟨rfl, hrest⟩ := ih ch0 h0
          refine ⟨rfl, ?_⟩
          intro ch
          cases ch with
          | nil => exact ⟨[], by simp only [execItems, pop, hq, if_true, hc]; exact h0⟩
          | cons b ch1 =>
            cases b with
            | false => simpa [execItems, pop] using hrest ch1
            | true =>
              obtain ⟨ch2', h2⟩ := hall ch1
              obtain ⟨ch3, h3⟩ := hrest ch2'
              exact ⟨ch3, by simp only [execItems, pop, hq, if_true, h2]; exact h3⟩
        | blocked => rw [hc] at h0; cases h0
        | diverged => rw [hc] at h0; cases h0

/-- For every table, lock kind, depth budget, hold count and method: if the all-branches-taken execution returns,
    then the execution returns whatever branches are taken (a path that skips items does a subset of the work). -/
theorem execM_mono (T : Table) (k : LockKind) : ∀ fuel held m, Mono (execM T k fuel held m) := by
  intro fuel
  induction fuel with
  | zero => intro held m ch0 h0; simp [execM] at h0
  | succ f ih =>
    intro held m
    simp only [execM]
    exact execItems_mono k (execM T k f) (fun hd c => ih hd c) held _

/-- decidable check: the all-branches-taken execution of every public method returns -/
def allTakeReturns (T : Table) (k : LockKind) : Bool :=
  (List.range T.length).all fun m =>
    match T[m]? with
    | some x => !x.pub || decide (callPublic T k m [] = .ret [])
    | none => true

theorem returns_of_allTake (T : Table) (k : LockKind) (h : allTakeReturns T k = true)
    (m : Nat) (x : Method) (hx : T[m]? = some x) (hp : x.pub = true) :
    ∀ ch, ∃ ch', callPublic T k m ch = .ret ch' := by
  have hm : m < T.length := by
    rcases Nat.lt_or_ge m T.length with h' | h'
    · exact h'
    · rw [List.getElem?_eq_none h'] at hx; cases hx
  have := (List.all_eq_true.mp h) m (List.mem_range.mpr hm)
  simp only [hx, hp, Bool.not_true, Bool.false_or, decide_eq_true_eq] at this
  exact (execM_mono T k T.length 0 m [] this).2

/-- an `RLock` never blocks its holder, whatever the shapes are -/
theorem execCalls_ne_blocked (callM : Nat → List Bool → Res) (h : ∀ c ch, callM c ch ≠ .blocked) :
    ∀ cs ch, execCalls callM cs ch ≠ .blocked := by
  intro cs
  induction cs with
  | nil => intro ch; simp [execCalls]
  | cons c cs ih =>
    intro ch
    simp only [execCalls]
    split
    · exact ih _
    · split
      · exact ih _
      · intro hb; exact h _ _ hb

theorem execItems_rlock_ne_blocked (callM : Nat → Nat → List Bool → Res) (h : ∀ hd c ch, callM hd c ch ≠ .blocked)
    (held : Nat) : ∀ items ch, execItems .rlock callM held items ch ≠ .blocked := by
  intro items
  induction items with
  | nil => intro ch; simp [execItems]
  | cons it items ih =>
    intro ch
    cases it with
    | call c =>
      simp only [execItems]
      split
      · exact ih _
      · split
        · exact ih _
        · intro hb; exact h _ _ _ hb
    | region cs =>
      simp only [execItems]
      split
      · exact ih _
      · have : canAcq .rlock held = true := by simp [canAcq]
        rw [this]; simp only [if_true]
        split
        · exact ih _
        · intro hb
          exact execCalls_ne_blocked _ (h (held + 1)) _ _ hb

theorem execM_rlock_ne_blocked (T : Table) : ∀ fuel held m ch, execM T .rlock fuel held m ch ≠ .blocked := by
  intro fuel
  induction fuel with
  | zero => intro held m ch; simp [execM]
  | succ f ih => intro held m ch; simp only [execM]; exact execItems_rlock_ne_blocked _ ih held _ _

/-! ## Lock discipline: the flat discipline (no re-acquisition while held) returns under every lock kind -/

/-- method `m` (transitively, within call depth `fuel`) never takes the lock -/
def lockFree (T : Table) : Nat → Nat → Bool
  | 0, _ => false
  | f + 1, m => (T.bodyOf m).all fun
      | .region _ => false
      | .call c => lockFree T f c

/-- flat discipline: no region of `m` calls anything that (transitively) takes the lock, and the methods `m` calls
    outside its regions are flat as well — the lock is never re-acquired while held -/
def flatM (T : Table) : Nat → Nat → Bool
  | 0, _ => false
  | f + 1, m => (T.bodyOf m).all fun
      | .region cs => cs.all (lockFree T f)
      | .call c => flatM T f c

theorem execCalls_returns (callM : Nat → List Bool → Res) (cs : List Nat)
    (h : ∀ c ∈ cs, ∀ ch, ∃ ch', callM c ch = .ret ch') : ∀ ch, ∃ ch', execCalls callM cs ch = .ret ch' := by
  induction cs with
  | nil => intro ch; exact ⟨ch, rfl⟩
  | cons c cs ih =>
    intro ch
    have ih' := ih (fun c' hc' => h c' (by simp [hc']))
    simp only [execCalls]
    split
    · exact ih' _
    · rename_i ch1 _
      obtain ⟨ch2, h2⟩ := h c (by simp) ch1
      rw [h2]; exact ih' _

theorem lockFree_returns (T : Table) (k : LockKind) : ∀ f m, lockFree T f m = true →
    ∀ held ch, ∃ ch', execM T k f held m ch = .ret ch' := by
  intro f
  induction f with
  | zero => intro m h; simp [lockFree] at h
  | succ f ih =>
    intro m h held
    simp only [lockFree, List.all_eq_true] at h
    simp only [execM]
    generalize T.bodyOf m = items at h
    induction items with
    | nil => intro ch; exact ⟨ch, rfl⟩
    | cons it items ihl =>
      intro ch
      have ihl' := ihl (fun x hx => h x (by simp [hx]))
      have hit := h it (by simp)
      cases it with
      | region cs => simp at hit
      | call c =>
        simp only at hit
        simp only [execItems]
        split
        · exact ihl' _
        · rename_i ch1 _
          obtain ⟨ch2, h2⟩ := ih c hit held ch1
          rw [h2]; exact ihl' _

/-- A shape that never re-acquires the lock while holding it returns under EVERY lock kind (in particular under a
    non-reentrant `Lock`), whichever branches are taken. -/
theorem flat_returns (T : Table) (k : LockKind) : ∀ f m, flatM T f m = true →
    ∀ ch, ∃ ch', execM T k f 0 m ch = .ret ch' := by
  intro f
  induction f with
  | zero => intro m h; simp [flatM] at h
  | succ f ih =>
    intro m h
    simp only [flatM, List.all_eq_true] at h
    simp only [execM]
    generalize T.bodyOf m = items at h
    induction items with
    | nil => intro ch; exact ⟨ch, rfl⟩
    | cons it items ihl =>
      intro ch
      have ihl' := ihl (fun x hx => h x (by simp [hx]))
      have hit := h it (by simp)
      cases it with
      | call c =>
        simp only at hit
        simp only [execItems]
        split
        · exact ihl' _
        · rename_i ch1 _
          obtain ⟨ch2, h2⟩ := ih c hit ch1
          rw [h2]; exact ihl' _
      | region cs =>
        simp only [List.all_eq_true] at hit
        simp only [execItems]
        split
        · exact ihl' _
        · rename_i ch1 _
          have hq : canAcq k 0 = true := by simp [canAcq]
          rw [hq]; simp only [if_true]
          obtain ⟨ch2, h2⟩ := execCalls_returns (execM T k f (0 + 1)) cs
            (fun c hc => lockFree_returns T k f c (hit c hc) (0 + 1)) ch1
          rw [h2]; exact ihl' _

/-- consecutive `_log_event` calls add up (the cap is idempotent) -/
@[simp] theorem logged_logged (a b n : Nat) : logged a (logged b n) = logged (b + a) n := by
  simp only [logged]; omega

theorem logged_le (k n : Nat) : logged k n ≤ logCap := by
  simp only [logged]; omega

/-! ## Lifecycle automaton: specification vocabulary -/

/-- the phase changes the property allows, together with the operations that may cause them -/
def Legal (op : Op) (a b : Phase) : Prop :=
  (a = .nascent ∧ b = .active ∧ (op = .start ∨ ∃ c, op = .tick c)) ∨
  (a = .active ∧ b = .senescent ∧ ((∃ c, op = .tick c) ∨ op = .err ∨ op = .timeouts)) ∨
  (a = .senescent ∧ b = .active ∧ ∃ n r, op = .renew n r) ∨
  (b = .apoptotic ∧ op = .apo ∧ a ≠ .terminated) ∨
  (b = .terminated ∧ op = .term)

/-- follow the announced phase changes from phase `p`; `none` if one of them does not start where the
    previous one ended -/
def follow : Phase → List Ev → Option Phase
  | p, [] => some p
  | p, .change a b :: r => if a = p then follow b r else none
  | p, .senescence _ :: r => follow p r

/-- all callbacks of a history, in order -/
def historyEvs (cfg : Cfg) (s : State) : List Op → List Ev
  | [] => []
  | op :: ops => (step cfg s op).evs ++ historyEvs cfg (step cfg s op).st ops

theorem follow_append (p : Phase) (a b : List Ev) :
    follow p (a ++ b) = (follow p a).bind fun q => follow q b := by
  induction a generalizing p with
  | nil => simp [follow]
  | cons e a ih =>
    cases e with
    | change x y =>
      simp only [List.cons_append, follow]
      split
      · exact ih y
      · rfl
    | senescence r => simp only [List.cons_append, follow]; exact ih p

/-- remaining length within `[0, max_operations]` -/
def WF (cfg : Cfg) (s : State) : Prop := 0 ≤ s.length ∧ s.length ≤ cfg.maxOps

/-- number of `tick(1)` calls that reported `True` along a history -/
def trueUnitTicks (cfg : Cfg) (s : State) : List Op → Nat
  | [] => 0
  | op :: ops =>
    (if op = .tick 1 ∧ (step cfg s op).ret = .bool true then 1 else 0) + trueUnitTicks cfg (step cfg s op).st ops

/-- a stretch of history between renewals: no `reset`, and every `renew` in it was refused -/
def BetweenRenewals (cfg : Cfg) (s : State) : List Op → Prop
  | [] => True
  | op :: ops =>
    op ≠ .reset ∧ (∀ n r, op = .renew n r → (step cfg s op).ret = .bool false) ∧
      BetweenRenewals cfg (step cfg s op).st ops

/-- an ACTIVE or SENESCENT lifecycle has a start time and a last-activity time, neither in the future -/
def Timed (s : State) : Prop :=
  (s.phase = .active ∨ s.phase = .senescent) →
    match s.started, s.lastAct with
    | some t0, some t1 => t0 ≤ s.now ∧ t1 ≤ s.now
    | _, _ => False

/-! ## per-operation facts (all states, all configurations) -/

theorem legal_step (cfg : Cfg) (s : State) (op : Op) :
    (∀ a b, Ev.change a b ∈ (step cfg s op).evs → Legal op a b) ∧
    (op ≠ .reset → follow s.phase (step cfg s op).evs = some (step cfg s op).st.phase) := by
  obtain ⟨ph, len, errs, ops, ren, rsn, st0, la, now, evn⟩ := s
  cases op <;> cases ph <;>
    simp [step, start, tick, recordError, heartbeat, checkTimeouts, renew, apoptosis, terminate, reset, started,
      enterSenescence, Legal, follow] <;> (repeat' split) <;> simp_all [follow]

theorem wf_step (cfg : Cfg) (s : State) (op : Op) (h : WF cfg s) : WF cfg (step cfg s op).st := by
  obtain ⟨ph, len, errs, ops, ren, rsn, st0, la, now, evn⟩ := s
  unfold WF at *
  simp only at h
  cases op <;>
    simp only [step, start, tick, recordError, heartbeat, checkTimeouts, renew, apoptosis, terminate, reset, started,
      enterSenescence] <;> (repeat' split) <;> simp_all <;> omega

theorem wf_run (cfg : Cfg) : ∀ ops s, WF cfg s → WF cfg (run cfg s ops) := by
  intro ops
  induction ops with
  | nil => intro s h; exact h
  | cons op ops ih => intro s h; exact ih _ (wf_step cfg s op h)

theorem wf_init (cfg : Cfg) : WF cfg (init cfg) := by simp [WF, init]

theorem terminated_step (cfg : Cfg) (s : State) (op : Op) (h : s.phase = .terminated) (hr : op ≠ .reset) :
    (step cfg s op).st.phase = .terminated := by
  obtain ⟨ph, len, errs, ops, ren, rsn, st0, la, now, evn⟩ := s
  simp only at h; subst h
  cases op <;> simp [step, start, tick, recordError, heartbeat, checkTimeouts, renew, apoptosis, terminate,
      enterSenescence] at hr ⊢ <;> (repeat' split) <;> simp_all

theorem apoptotic_step (cfg : Cfg) (s : State) (op : Op) (h : s.phase = .apoptotic) (hr : op ≠ .reset) :
    (step cfg s op).st.phase = .apoptotic ∨ ((step cfg s op).st.phase = .terminated ∧ op = .term) := by
  obtain ⟨ph, len, errs, ops, ren, rsn, st0, la, now, evn⟩ := s
  simp only at h; subst h
  cases op <;> simp [step, start, tick, recordError, heartbeat, checkTimeouts, renew, apoptosis, terminate,
      enterSenescence] at hr ⊢ <;> (repeat' split) <;> simp_all

theorem tick_unit_decrements (cfg : Cfg) (s : State) (h0 : 0 ≤ s.length)
    (ht : (step cfg s (.tick 1)).ret = .bool true) : (step cfg s (.tick 1)).st.length + 1 = s.length := by
  obtain ⟨ph, len, errs, ops, ren, rsn, st0, la, now, evn⟩ := s
  simp only at h0
  revert ht
  cases ph <;> simp [step, tick, started, enterSenescence, depleted] <;> (repeat' split) <;> simp_all <;> omega

theorem step_no_growth (cfg : Cfg) (s : State) (op : Op) (h0 : 0 ≤ s.length) (hr : op ≠ .reset)
    (hn : ∀ n r, op = .renew n r → (step cfg s op).ret = .bool false) :
    0 ≤ (step cfg s op).st.length ∧ (step cfg s op).st.length ≤ s.length := by
  obtain ⟨ph, len, errs, ops, ren, rsn, st0, la, now, evn⟩ := s
  simp only at h0
  cases op <;>
    simp only [step, start, tick, recordError, heartbeat, checkTimeouts, renew, apoptosis, terminate, started,
      enterSenescence] at hn hr ⊢ <;> (repeat' split) <;> simp_all <;> omega

/-- between renewals, True unit ticks are paid for out of the remaining length -/
theorem hayflick_segment (cfg : Cfg) : ∀ ops s, 0 ≤ s.length → BetweenRenewals cfg s ops →
    (trueUnitTicks cfg s ops : Int) + (run cfg s ops).length ≤ s.length ∧ 0 ≤ (run cfg s ops).length := by
  intro ops
  induction ops with
  | nil => intro s h0 _; simp [trueUnitTicks, run, h0]
  | cons op ops ih =>
    intro s h0 hb
    obtain ⟨hr, hn, hrest⟩ := hb
    have hg := step_no_growth cfg s op h0 hr hn
    have := ih (step cfg s op).st hg.1 hrest
    simp only [trueUnitTicks, run]
    by_cases hc : op = .tick 1 ∧ (step cfg s op).ret = .bool true
    · obtain ⟨rfl, ht⟩ := hc
      have hd := tick_unit_decrements cfg s h0 ht
      simp only [ht, and_self, if_true]
      omega
    · simp only [hc, if_false]
      omega

theorem timed_step (cfg : Cfg) (s : State) (op : Op) (h : Timed s) : Timed (step cfg s op).st := by
  obtain ⟨ph, len, errs, ops, ren, rsn, st0, la, now, evn⟩ := s
  unfold Timed at *
  cases op <;> cases ph <;> cases st0 <;> cases la <;>
    simp [step, start, tick, recordError, heartbeat, checkTimeouts, renew, apoptosis, terminate, reset, started,
      enterSenescence] at h ⊢ <;> (repeat' split) <;> (try simp_all) <;> (try omega)

theorem timed_run (cfg : Cfg) : ∀ ops s, Timed s → Timed (run cfg s ops) := by
  intro ops
  induction ops with
  | nil => intro s h; exact h
  | cons op ops ih => intro s h; exact ih _ (timed_step cfg s op h)

theorem timed_init (cfg : Cfg) : Timed (init cfg) := by simp [Timed, init]

/-! ## the lock-event paths of the automaton against the extracted shapes -/

/-- the lock-event paths a call of the automaton can report, per operation -/
def lockPaths : Op → List (List LockEv)
  | .start => [lkOnce]
  | .tick _ => [lkOnce, lkNested]
  | .err => [lkOnce]
  | .hb => [lkOnce]
  | .timeouts => [lkOnce]
  | .renew _ _ => [lkNone, lkOnce]
  | .apo => [lkOnce]
  | .term => [lkOnce]
  | .reset => [lkOnce]
  | .adv _ => [lkNone]

theorem lock_mem_lockPaths (cfg : Cfg) (s : State) (op : Op) : (step cfg s op).lock ∈ lockPaths op := by
  cases op <;>
    simp only [step, start, tick, recordError, heartbeat, checkTimeouts, renew, apoptosis, terminate, reset,
      lockPaths] <;> (repeat' split) <;> simp

/-- decidable: the paths run under lock kind `k`, the named method is a public method of the table and every path
    is one of the complete lock traces of its shape -/
def pathsOk (T : Table) (k : LockKind) (name : Option String) (ls : List (List LockEv)) : Bool :=
  ls.all (lockRun k 0) &&
  match name with
  | none => ls.all (fun l => l.isEmpty)
  | some nm =>
    match T.indexOf nm with
    | none => false
    | some m =>
      match T[m]? with
      | none => false
      | some x => x.pub && ls.all (fun l => (tracesM T T.length m).contains l)

theorem pathsOk_run (T : Table) (k : LockKind) (name : Option String) (ls : List (List LockEv))
    (h : pathsOk T k name ls = true) (l : List LockEv) (hl : l ∈ ls) : lockRun k 0 l = true := by
  unfold pathsOk at h
  rw [Bool.and_eq_true] at h
  exact List.all_eq_true.mp h.1 l hl

theorem pathsOk_none (T : Table) (k : LockKind) (ls : List (List LockEv))
    (h : pathsOk T k none ls = true) (l : List LockEv) (hl : l ∈ ls) : l = [] := by
  unfold pathsOk at h
  rw [Bool.and_eq_true] at h
  have h2 := h.2
  simp only [List.all_eq_true, List.isEmpty_iff] at h2
  exact h2 l hl

theorem pathsOk_some (T : Table) (k : LockKind) (nm : String) (ls : List (List LockEv))
    (h : pathsOk T k (some nm) ls = true) (l : List LockEv) (hl : l ∈ ls) :
    ∃ m x, T.indexOf nm = some m ∧ T[m]? = some x ∧ x.pub = true ∧ l ∈ tracesM T T.length m := by
  unfold pathsOk at h
  rw [Bool.and_eq_true] at h
  have h2 := h.2
  simp only at h2
  cases hi : T.indexOf nm with
  | none => simp [hi] at h2
  | some m =>
    cases hx : T[m]? with
    | none => simp [hi, hx] at h2
    | some x =>
      simp only [hi, hx, Bool.and_eq_true, List.all_eq_true] at h2
      exact ⟨m, x, rfl, hx, h2.1, by simpa using h2.2 l hl⟩

/-! ## histories over the whole alphabet: what holds across `reset` -/

theorem historyEvs_append (cfg : Cfg) : ∀ (a : List Op) (s : State) (b : List Op),
    historyEvs cfg s (a ++ b) = historyEvs cfg s a ++ historyEvs cfg (run cfg s a) b := by
  intro a
  induction a with
  | nil => intro s b; simp [historyEvs, run]
  | cons x xs ih => intro s b; simp only [List.cons_append, historyEvs, run, ih, List.append_assoc]

/-- the same lifecycle with `r` more renewals on its counter (the counter is written, never read, by the nine methods) -/
def addRenewals (r : Nat) (s : State) : State := { s with renewals := s.renewals + r }

/-- the renewal counter influences nothing: every call does the same (state, return value, callbacks, lock path) -/
theorem step_addRenewals (cfg : Cfg) (s : State) (op : Op) (r : Nat) :
    (step cfg (addRenewals r s) op).st = addRenewals r (step cfg s op).st ∧
    (step cfg (addRenewals r s) op).ret = (step cfg s op).ret ∧
    (step cfg (addRenewals r s) op).evs = (step cfg s op).evs ∧
    (step cfg (addRenewals r s) op).lock = (step cfg s op).lock := by
  cases op with
  | start => simp only [step, start]; by_cases h : s.phase = .nascent <;> simp [addRenewals, started, h]
  | tick c =>
    obtain ⟨ph, len, errs, ops, ren, rsn, st0, la, now, evn⟩ := s
    cases ph <;> simp [step, tick, addRenewals, started, enterSenescence] <;> split <;> simp
  | err =>
    obtain ⟨ph, len, errs, ops, ren, rsn, st0, la, now, evn⟩ := s
    cases ph <;> simp [step, recordError, addRenewals, enterSenescence] <;> (repeat' split) <;> simp
  | hb => simp [step, heartbeat, addRenewals]
  | timeouts =>
    obtain ⟨ph, len, errs, ops, ren, rsn, st0, la, now, evn⟩ := s
    cases ph <;> simp [step, checkTimeouts, addRenewals, enterSenescence] <;> (repeat' split) <;> simp
  | renew n b =>
    obtain ⟨ph, len, errs, ops, ren, rsn, st0, la, now, evn⟩ := s
    cases ph <;> simp [step, renew, addRenewals] <;> (repeat' split) <;> simp <;> omega
  | apo => simp only [step, apoptosis]; by_cases h : s.phase = .terminated <;> simp [addRenewals, h]
  | term => simp [step, terminate, addRenewals]
  | reset => simp [step, reset, addRenewals]
  | adv us => simp [step, addRenewals]

theorem run_addRenewals (cfg : Cfg) (r : Nat) : ∀ (ops : List Op) (s : State),
    run cfg (addRenewals r s) ops = addRenewals r (run cfg s ops) ∧
    historyEvs cfg (addRenewals r s) ops = historyEvs cfg s ops := by
  intro ops
  induction ops with
  | nil => intro s; simp [run, historyEvs]
  | cons op ops ih =>
    intro s
    have h := step_addRenewals cfg s op r
    simp only [run, historyEvs, h.1, h.2.2.1, (ih _).1, (ih _).2, and_self]

/-- what `reset` leaves behind: a lifecycle constructed at that moment, with the old renewal counter -/
theorem reset_state (cfg : Cfg) (s : State) :
    (step cfg s .reset).st = addRenewals s.renewals (run cfg (init cfg) [.adv s.now]) ∧ (step cfg s .reset).evs = [] := by
  simp [step, reset, addRenewals, run, init]

/-- split a history at its last `reset`: (everything up to and including it, everything after it) -/
def splitEpoch : List Op → List Op × List Op
  | [] => ([], [])
  | op :: ops =>
    if (splitEpoch ops).1 = [] then
      (if op = .reset then ([.reset], (splitEpoch ops).2) else ([], op :: (splitEpoch ops).2))
    else (op :: (splitEpoch ops).1, (splitEpoch ops).2)

theorem splitEpoch_append : ∀ ops : List Op, (splitEpoch ops).1 ++ (splitEpoch ops).2 = ops := by
  intro ops
  induction ops with
  | nil => rfl
  | cons op ops ih =>
    simp only [splitEpoch]
    split
    · rename_i h
      rw [h] at ih
      split <;> simp_all
    · simp [ih]

theorem splitEpoch_no_reset : ∀ ops : List Op, ∀ op ∈ (splitEpoch ops).2, op ≠ .reset := by
  intro ops
  induction ops with
  | nil => intro op h; simp [splitEpoch] at h
  | cons x xs ih =>
    intro op h
    simp only [splitEpoch] at h
    split at h
    · split at h
      · exact ih op h
      · simp only [List.mem_cons] at h
        rcases h with rfl | h
        · assumption
        · exact ih op h
    · exact ih op h

theorem splitEpoch_ends_with_reset : ∀ ops : List Op,
    (splitEpoch ops).1 = [] ∨ ∃ pre, (splitEpoch ops).1 = pre ++ [.reset] := by
  intro ops
  induction ops with
  | nil => left; rfl
  | cons x xs ih =>
    simp only [splitEpoch]
    split
    · split
      · right; exact ⟨[], by simp_all⟩
      · left; rfl
    · rename_i h
      rcases ih with h0 | ⟨pre, hp⟩
      · exact absurd h0 h
      · right; exact ⟨x :: pre, by simp [hp]⟩

/-! ## callbacks that raise -/

theorem stepCb_consistent (m : CbMode) (cfg : Cfg) (s : State) (op : Op) :
    (∀ a b, Ev.change a b ∈ (stepCb m cfg s op).1.evs → Legal op a b) ∧
    (op ≠ .reset → follow s.phase (stepCb m cfg s op).1.evs = some (stepCb m cfg s op).1.st.phase) ∧
    (stepCb m cfg s op).1.lock = (step cfg s op).lock := by
  cases m with
  | ok => exact ⟨(legal_step cfg s op).1, (legal_step cfg s op).2, rfl⟩
  | senescenceRaises => exact ⟨(legal_step cfg s op).1, (legal_step cfg s op).2, rfl⟩
  | changeRaises =>
    obtain ⟨ph, len, errs, ops, ren, rsn, st0, la, now, evn⟩ := s
    cases op <;> cases ph <;>
      simp [stepCb, step, start, tick, recordError, heartbeat, checkTimeouts, renew, apoptosis, terminate, reset, started,
        startedCut, enterSenescence, Legal, follow] <;> (repeat' split) <;> (try simp_all [follow])

/-- the state a raising callback leaves differs from the normal one at most in ways that keep the invariants:
    it is the normal state, `startedCut s` (a NASCENT lifecycle started, nothing else), or the normal state with the
    old reason -/
theorem stepCb_state (m : CbMode) (cfg : Cfg) (s : State) (op : Op) :
    (stepCb m cfg s op).1.st = (step cfg s op).st ∨
    ((stepCb m cfg s op).1.st = startedCut s ∧ s.phase = .nascent ∧ (op = .start ∨ ∃ c, op = .tick c)) ∨
    (stepCb m cfg s op).1.st = { (step cfg s op).st with reason := s.reason } := by
  cases m with
  | ok => left; rfl
  | senescenceRaises => left; rfl
  | changeRaises =>
    obtain ⟨ph, len, errs, ops, ren, rsn, st0, la, now, evn⟩ := s
    cases op <;> cases ph <;>
      simp [stepCb, step, start, tick, recordError, heartbeat, checkTimeouts, renew, apoptosis, terminate, reset, started,
        startedCut, enterSenescence] <;> (repeat' split) <;> (try simp_all)

theorem stepCb_wf (m : CbMode) (cfg : Cfg) (s : State) (op : Op) (h : WF cfg s) : WF cfg (stepCb m cfg s op).1.st := by
  rcases stepCb_state m cfg s op with e | ⟨e, _, _⟩ | e <;> rw [e]
  · exact wf_step cfg s op h
  · exact h
  · exact wf_step cfg s op h

theorem stepCb_timed (m : CbMode) (cfg : Cfg) (s : State) (op : Op) (h : Timed s) : Timed (stepCb m cfg s op).1.st := by
  rcases stepCb_state m cfg s op with e | ⟨e, _, _⟩ | e <;> rw [e]
  · exact timed_step cfg s op h
  · simp [Timed, started, startedCut]
  · exact timed_step cfg s op h

/-! ## several lifecycles alive at once -/

theorem run_append (cfg : Cfg) : ∀ (a : List Op) (s : State) (b : List Op),
    run cfg s (a ++ b) = run cfg (run cfg s a) b := by
  intro a
  induction a with
  | nil => intro s b; rfl
  | cons x xs ih => intro s b; simp only [List.cons_append, run]; exact ih _ _

theorem initAt_eq (cfg : Cfg) (t : Nat) : initAt cfg t = run cfg (init cfg) [.adv t] := by
  simp [initAt, init, run, step]

theorem lookup_advAll (us k : Nat) : ∀ l : List (Nat × Inst),
    (advAll us l).lookup k = (l.lookup k).map fun i => ⟨i.cfg, (step i.cfg i.st (.adv us)).st⟩ := by
  intro l
  induction l with
  | nil => rfl
  | cons x xs ih =>
    obtain ⟨k', i⟩ := x
    simp only [advAll, List.lookup_cons]
    cases k == k' <;> simp [ih]

/-- reachable from a freshly constructed lifecycle by some history of its own -/
def Reach (i : Inst) : Prop := ∃ ops, i.st = run i.cfg (init i.cfg) ops

theorem reach_step (i : Inst) (op : Op) (h : Reach i) : Reach ⟨i.cfg, (step i.cfg i.st op).st⟩ := by
  obtain ⟨ops, h⟩ := h
  refine ⟨ops ++ [op], ?_⟩
  simp only [run_append, run, ← h]

theorem reach_advAll (us : Nat) : ∀ l : List (Nat × Inst), (∀ x ∈ l, Reach x.2) → ∀ x ∈ advAll us l, Reach x.2 := by
  intro l
  induction l with
  | nil => intro _ x hx; simp [advAll] at hx
  | cons y ys ih =>
    obtain ⟨k, i⟩ := y
    intro h x hx
    simp only [advAll, List.mem_cons] at hx
    rcases hx with rfl | hx
    · exact reach_step i (.adv us) (h (k, i) (by simp))
    · exact ih (fun z hz => h z (by simp [hz])) x hx

theorem reach_stepW (w : World) (x : WOp) (h : ∀ y ∈ w.insts, Reach y.2) : ∀ y ∈ (stepW w x).1.insts, Reach y.2 := by
  cases x with
  | new k cfg =>
    intro y hy
    simp only [stepW, List.mem_cons] at hy
    rcases hy with rfl | hy
    · exact ⟨[.adv w.now], initAt_eq cfg w.now⟩
    · exact h y hy
  | adv us => exact reach_advAll us _ h
  | on k op =>
    simp only [stepW]
    cases op.isAdv with
    | some us => exact reach_advAll us _ h
    | none =>
      simp only
      cases hl : w.insts.lookup k with
      | none => exact h
      | some i =>
        intro y hy
        simp only [List.mem_cons] at hy
        rcases hy with rfl | hy
        · have : (k, i) ∈ w.insts := by
            have := List.lookup_eq_some_iff.mp hl
            grind
          exact reach_step i op (h _ this)
        · exact h y hy

theorem reach_runW : ∀ (ws : List WOp) (w : World), (∀ y ∈ w.insts, Reach y.2) → ∀ y ∈ (runW w ws).insts, Reach y.2 := by
  intro ws
  induction ws with
  | nil => intro w h; exact h
  | cons x xs ih => intro w h; exact ih _ (reach_stepW w x h)

/-- the lifecycle in slot `k` after a world history during which slot `k` is not re-constructed: exactly what its
    own calls and the clock advances make of it -/
theorem independent_runW (k : Nat) : ∀ (ws : List WOp) (w : World) (i : Inst), w.insts.lookup k = some i →
    (∀ c, WOp.new k c ∉ ws) → (runW w ws).insts.lookup k = some ⟨i.cfg, run i.cfg i.st (proj k ws)⟩ := by
  intro ws
  induction ws with
  | nil => intro w i h _; simpa [runW, proj, run] using h
  | cons x xs ih =>
    intro w i h hn
    have hn' : ∀ c, WOp.new k c ∉ xs := fun c hc => hn c (by simp [hc])
    cases x with
    | new k' cfg =>
      have hk : k ≠ k' := by
        intro e; subst e; exact hn cfg (by simp)
      simp only [runW, proj]
      refine ih _ i ?_ hn'
      have hb : (k == k') = false := by simp [hk]
      simp [stepW, List.lookup_cons, hb, h]
    | adv us =>
      simp only [runW, proj, run]
      refine ih _ ⟨i.cfg, (step i.cfg i.st (.adv us)).st⟩ ?_ hn'
      simp [stepW, advW, lookup_advAll, h]
    | on k' op =>
      simp only [runW, proj, stepW]
      cases hop : op.isAdv with
      | some us =>
        have : op = .adv us := by cases op <;> simp_all [Op.isAdv]
        subst this
        simp only [run]
        refine ih _ ⟨i.cfg, (step i.cfg i.st (.adv us)).st⟩ ?_ hn'
        simp [advW, lookup_advAll, h]
      | none =>
        simp only
        by_cases hk : k' = k
        · subst hk
          simp only [h, if_true, run]
          refine ih _ ⟨i.cfg, (step i.cfg i.st op).st⟩ ?_ hn'
          simp
        · simp only [hk, if_false]
          cases hl : w.insts.lookup k' with
          | none => exact ih _ i h hn'
          | some j =>
            refine ih _ i ?_ hn'
            have : (k == k') = false := by simp [Ne.symm hk]
            simp [List.lookup_cons, this, h]

/-! ## vocabulary for the agreement with the translated source -/

/-- what a call of the hand-written automaton yields after the callbacks `evs` already emitted, in the format of
    the translated methods (`Operon/Gen/TelomereTranslated.lean`) -/
def stepOut (cfg : Cfg) (s : State) (evs : List Ev) (op : Op) : State × List Ev × Ret :=
  ((step cfg s op).st, evs ++ (step cfg s op).evs, (step cfg s op).ret)

theorem pyOr_eq_renewAmount (cfg : Cfg) (n : Option Nat) : pyOr n cfg.maxOps = renewAmount cfg n := by
  cases n with
  | none => rfl
  | some a => cases a <;> rfl

/-! ### auto-renewing callback (`stepRe`) -/

/-- a call that announces senescence leaves the lifecycle SENESCENT, on a path that holds the lock once or twice -/
theorem sen_step (cfg : Cfg) (s : State) (op : Op) (h : (step cfg s op).evs.any Ev.isSenescence = true) :
    (step cfg s op).st.phase = .senescent ∧
    ((step cfg s op).lock = lkOnce ∨ (step cfg s op).lock = lkNested) := by
  obtain ⟨ph, len, errs, ops, ren, rsn, st0, la, now, evn⟩ := s
  cases op with
  | tick c =>
    simp only [step, tick] at h ⊢
    cases ph <;> simp [enterSenescence, started, Ev.isSenescence] at h ⊢ <;>
      (split at h <;> simp_all [Ev.isSenescence])
  | err =>
    simp only [step, recordError] at h ⊢
    cases ph <;> simp_all [enterSenescence, Ev.isSenescence] <;> (repeat' split) <;> simp_all [Ev.isSenescence]
  | timeouts =>
    simp only [step, checkTimeouts] at h ⊢
    cases ph <;> simp_all [enterSenescence, Ev.isSenescence] <;> (repeat' split) <;> simp_all [Ev.isSenescence]
  | start => simp only [step, start] at h; split at h <;> simp [Ev.isSenescence] at h
  | hb => simp [step, heartbeat] at h
  | renew a r => simp only [step, renew] at h; (repeat' split at h) <;> simp [Ev.isSenescence] at h
  | apo => simp only [step, apoptosis] at h; split at h <;> simp [Ev.isSenescence] at h
  | term => simp [step, terminate, Ev.isSenescence] at h
  | reset => simp [step, reset] at h
  | adv us => simp [step] at h


/-- `renew(None, True)` of a SENESCENT lifecycle: recovers when allowed, is refused before the lock otherwise -/
theorem renew_of_senescent (cfg : Cfg) (t : State) (h : t.phase = .senescent) :
    (cfg.allowRenew = true → (step cfg t (.renew none true)).st.phase = .active ∧
      (step cfg t (.renew none true)).evs = [.change .senescent .active] ∧
      (step cfg t (.renew none true)).lock = lkOnce) ∧
    (cfg.allowRenew = false → (step cfg t (.renew none true)).lock = []) := by
  obtain ⟨ph, len, errs, ops, ren, rsn, st0, la, now, evn⟩ := t
  simp only at h
  subst h
  constructor <;> intro ha <;> simp [step, renew, ha, lkNone]

end Operon.Telomere
