import Operon.Lemmas.C10
import Operon.Model.RateConc
/-! Lemmas for the statement-level concurrent model of `_check_rate_limit` (C10): mutual exclusion, the
    critical section as one sequential rate check (linearizability), and the window bound for logs that replay
    sequentially. -/
namespace Operon.Gates

/-- program counters between `acquire` and the return -/
def inCS (pc : Nat) : Prop := 2 ≤ pc ∧ pc ≤ 6

theorem seqReplay_snoc (W r : Nat) (log : List RateEv) (e : RateEv) : ∀ ts : List Nat,
    seqReplay W r ts (log ++ [e]) =
      match seqReplay W r ts log with
      | some b => if (rateCheckL W r b e.t).1 = e.limited then some (rateCheckL W r b e.t).2 else none
      | none => none := by
  induction log with
  | nil => intro ts; simp [seqReplay]
  | cons x xs ih =>
    intro ts
    simp only [List.cons_append, seqReplay]
    split
    · exact ih _
    · rfl

/-- the invariant of every reachable state of the concurrent rate check -/
structure ConcInv (W r : Nat) (ts0 : List Nat) (c0 : Nat) (s : CSt) (b : List Nat) : Prop where
  cfgR : s.sh.rateLimit = some r
  cfgW : s.sh.window = W
  excl : ∀ j, inCS (s.thr j).pc → s.sh.lock = some j
  held : ∀ h, s.sh.lock = some h → inCS (s.thr h).pc
  replay : seqReplay W r ts0 s.sh.log = some b
  past : ∀ e ∈ s.sh.log, e.t ≤ s.sh.clock
  sorted : List.Pairwise (· ≤ ·) (s.sh.log.map (·.t))
  free : s.sh.lock = none → s.sh.reqTimes = b
  h23 : ∀ h, s.sh.lock = some h → (s.thr h).pc ≤ 3 → s.sh.reqTimes = b
  hnow : ∀ h, s.sh.lock = some h → 3 ≤ (s.thr h).pc →
    (s.thr h).now ≤ s.sh.clock ∧ (∀ e ∈ s.sh.log, e.t ≤ (s.thr h).now) ∧ c0 ≤ (s.thr h).now
  h45 : ∀ h, s.sh.lock = some h → ((s.thr h).pc = 4 ∨ (s.thr h).pc = 5) →
    s.sh.reqTimes = prune W (s.thr h).now b
  h5 : ∀ h, s.sh.lock = some h → (s.thr h).pc = 5 → (prune W (s.thr h).now b).length < r
  h6 : ∀ h, s.sh.lock = some h → (s.thr h).pc = 6 →
    s.sh.reqTimes = prune W (s.thr h).now b ++ [(s.thr h).now] ∧ (prune W (s.thr h).now b).length < r
  lo0 : c0 ≤ s.sh.clock
  lo1 : ∀ e ∈ s.sh.log, c0 ≤ e.t


theorem rateProg_get_ge (n : Nat) : rateProg[n + 7]? = none := by
  simp [rateProg]

theorem concInv_tick (W r : Nat) (ts0 : List Nat) (c0 : Nat) (s : CSt) (b : List Nat) (d : Nat) (h : ConcInv W r ts0 c0 s b) :
    ConcInv W r ts0 c0 (cstep rateProg s (.tick d)) b := by
  refine ⟨h.cfgR, h.cfgW, h.excl, h.held, h.replay, ?_, h.sorted, h.free, h.h23, ?_, h.h45, h.h5, h.h6, ?_, h.lo1⟩
  · intro e he
    have := h.past e he
    simp only [cstep]; omega
  · intro k hk hpc
    have := h.hnow k hk hpc
    simp only [cstep]
    exact ⟨by omega, this.2⟩
  · have := h.lo0
    simp only [cstep]; omega


theorem cstep_run_at (s : CSt) (i : Nat) (ins : RInstr) (hget : rateProg[(s.thr i).pc]? = some ins) :
    cstep rateProg s (.run i) =
      ⟨(execInstr 7 s.sh i (s.thr i) ins).1,
       fun j => if j = i then (execInstr 7 s.sh i (s.thr i) ins).2 else s.thr j⟩ := by
  simp only [cstep, hget]
  rfl

theorem concInv_run0 (W r : Nat) (ts0 : List Nat) (c0 : Nat) (s : CSt) (b : List Nat) (i : Nat) (h : ConcInv W r ts0 c0 s b)
    (hpc : (s.thr i).pc = 0) : ConcInv W r ts0 c0 (cstep rateProg s (.run i)) b := by
  rw [cstep_run_at s i .guardNone (by rw [hpc]; rfl)]
  have hni : ∀ k, s.sh.lock = some k → k ≠ i := by
    intro k hk hki; subst hki
    have := h.held k hk; unfold inCS at this; omega
  simp only [execInstr, h.cfgR]
  refine ⟨h.cfgR, h.cfgW, ?_, ?_, h.replay, h.past, h.sorted, h.free, ?_, ?_, ?_, ?_, ?_, h.lo0, h.lo1⟩
  all_goals intro k
  · by_cases hki : k = i
    · subst hki; simp [inCS, hpc]
    · simpa [hki] using h.excl k
  all_goals intro hk; have hki := hni k hk; simp only [hki, if_false]
  · exact h.held k hk
  · exact h.h23 k hk
  · exact h.hnow k hk
  · exact h.h45 k hk
  · exact h.h5 k hk
  · exact h.h6 k hk


theorem concInv_run1 (W r : Nat) (ts0 : List Nat) (c0 : Nat) (s : CSt) (b : List Nat) (i : Nat) (h : ConcInv W r ts0 c0 s b)
    (hpc : (s.thr i).pc = 1) : ConcInv W r ts0 c0 (cstep rateProg s (.run i)) b := by
  rw [cstep_run_at s i .acquire (by rw [hpc]; rfl)]
  cases hl : s.sh.lock with
  | some k0 =>
    -- the lock is taken: the thread waits
    simp only [execInstr, hl]
    have hthr : (fun j => if j = i then s.thr i else s.thr j) = s.thr := by
      funext j; by_cases hj : j = i
      · subst hj; simp
      · simp [hj]
    rw [hthr]
    exact ⟨h.cfgR, h.cfgW, h.excl, h.held, h.replay, h.past, h.sorted, h.free, h.h23, h.hnow, h.h45, h.h5, h.h6, h.lo0, h.lo1⟩
  | none =>
    simp only [execInstr, hl]
    have hfree := h.free hl
    refine ⟨h.cfgR, h.cfgW, ?_, ?_, h.replay, h.past, h.sorted, ?_, ?_, ?_, ?_, ?_, ?_, h.lo0, h.lo1⟩
    · intro k hk
      by_cases hki : k = i
      · subst hki; rfl
      · simp only [hki, if_false] at hk
        have := h.excl k hk; rw [hl] at this; cases this
    · intro k hk
      simp only [Option.some.injEq] at hk; subst hk
      simp [inCS, hpc]
    · intro hk; cases hk
    all_goals intro k hk; simp only [Option.some.injEq] at hk; subst hk; simp only [if_true]
    · intro _; exact hfree
    · intro h3; omega
    · intro h3; omega
    · intro h3; omega
    · intro h3; omega


/-- only the holder of the lock is inside the critical section -/
theorem holder_is (W r : Nat) (ts0 : List Nat) (c0 : Nat) (s : CSt) (b : List Nat) (i : Nat) (h : ConcInv W r ts0 c0 s b)
    (hcs : inCS (s.thr i).pc) : s.sh.lock = some i ∧ ∀ k, s.sh.lock = some k → k = i := by
  have hl := h.excl i hcs
  exact ⟨hl, fun k hk => by rw [hl] at hk; cases hk; rfl⟩

theorem concInv_run2 (W r : Nat) (ts0 : List Nat) (c0 : Nat) (s : CSt) (b : List Nat) (i : Nat) (h : ConcInv W r ts0 c0 s b)
    (hpc : (s.thr i).pc = 2) : ConcInv W r ts0 c0 (cstep rateProg s (.run i)) b := by
  rw [cstep_run_at s i .readClock (by rw [hpc]; rfl)]
  obtain ⟨hl, honly⟩ := holder_is W r ts0 c0 s b i h (by unfold inCS; omega)
  simp only [execInstr]
  refine ⟨h.cfgR, h.cfgW, ?_, ?_, h.replay, h.past, h.sorted, h.free, ?_, ?_, ?_, ?_, ?_, h.lo0, h.lo1⟩
  · intro k hk
    by_cases hki : k = i
    · subst hki; exact hl
    · simp only [hki, if_false] at hk; exact h.excl k hk
  all_goals intro k hk; have hki := honly k hk; subst hki; simp only [if_true]
  · simp [inCS, hpc]
  · intro _; exact h.h23 k hk (by omega)
  · intro _; exact ⟨Nat.le_refl _, h.past, h.lo0⟩
  · intro h3; omega
  · intro h3; omega
  · intro h3; omega

theorem concInv_run3 (W r : Nat) (ts0 : List Nat) (c0 : Nat) (s : CSt) (b : List Nat) (i : Nat) (h : ConcInv W r ts0 c0 s b)
    (hpc : (s.thr i).pc = 3) : ConcInv W r ts0 c0 (cstep rateProg s (.run i)) b := by
  rw [cstep_run_at s i .pruneShared (by rw [hpc]; rfl)]
  obtain ⟨hl, honly⟩ := holder_is W r ts0 c0 s b i h (by unfold inCS; omega)
  simp only [execInstr]
  refine ⟨h.cfgR, h.cfgW, ?_, ?_, h.replay, h.past, h.sorted, ?_, ?_, ?_, ?_, ?_, ?_, h.lo0, h.lo1⟩
  · intro k hk
    by_cases hki : k = i
    · subst hki; exact hl
    · simp only [hki, if_false] at hk; exact h.excl k hk
  · intro k hk; have hki := honly k hk; subst hki; simp [inCS, hpc]
  · intro hn; rw [hl] at hn; cases hn
  all_goals intro k hk; have hki := honly k hk; subst hki; simp only [if_true]
  · intro h3; omega
  · intro _; exact h.hnow k hk (by omega)
  · intro _; rw [h.h23 k hk (by omega), h.cfgW]
  · intro h3; omega
  · intro h3; omega

theorem concInv_run5 (W r : Nat) (ts0 : List Nat) (c0 : Nat) (s : CSt) (b : List Nat) (i : Nat) (h : ConcInv W r ts0 c0 s b)
    (hpc : (s.thr i).pc = 5) : ConcInv W r ts0 c0 (cstep rateProg s (.run i)) b := by
  rw [cstep_run_at s i .appendShared (by rw [hpc]; rfl)]
  obtain ⟨hl, honly⟩ := holder_is W r ts0 c0 s b i h (by unfold inCS; omega)
  simp only [execInstr]
  refine ⟨h.cfgR, h.cfgW, ?_, ?_, h.replay, h.past, h.sorted, ?_, ?_, ?_, ?_, ?_, ?_, h.lo0, h.lo1⟩
  · intro k hk
    by_cases hki : k = i
    · subst hki; exact hl
    · simp only [hki, if_false] at hk; exact h.excl k hk
  · intro k hk; have hki := honly k hk; subst hki; simp [inCS, hpc]
  · intro hn; rw [hl] at hn; cases hn
  all_goals intro k hk; have hki := honly k hk; subst hki; simp only [if_true]
  · intro h3; omega
  · intro _; exact h.hnow k hk (by omega)
  · intro h3; omega
  · intro h3; omega
  · intro _; exact ⟨by rw [h.h45 k hk (Or.inr hpc)], h.h5 k hk hpc⟩


theorem sorted_snoc (log : List RateEv) (e : RateEv) (hs : List.Pairwise (· ≤ ·) (log.map (·.t)))
    (hle : ∀ x ∈ log, x.t ≤ e.t) : List.Pairwise (· ≤ ·) ((log ++ [e]).map (·.t)) := by
  rw [List.map_append, List.pairwise_append]
  refine ⟨hs, by simp, ?_⟩
  intro a ha c hc
  simp only [List.map_cons, List.map_nil, List.mem_singleton] at hc
  subst hc
  obtain ⟨x, hx, rfl⟩ := List.mem_map.mp ha
  exact hle x hx

theorem concInv_run4 (W r : Nat) (ts0 : List Nat) (c0 : Nat) (s : CSt) (b : List Nat) (i : Nat) (h : ConcInv W r ts0 c0 s b)
    (hpc : (s.thr i).pc = 4) : ∃ b', ConcInv W r ts0 c0 (cstep rateProg s (.run i)) b' := by
  rw [cstep_run_at s i .testShared (by rw [hpc]; rfl)]
  obtain ⟨hl, honly⟩ := holder_is W r ts0 c0 s b i h (by unfold inCS; omega)
  have hreq := h.h45 i hl (Or.inl hpc)
  have hnow := h.hnow i hl (by omega)
  simp only [execInstr, h.cfgR]
  by_cases hlen : s.sh.reqTimes.length ≥ r
  · -- limited: the call returns True and leaves the `with` block
    simp only [hlen, if_true]
    have hrc : rateCheckL W r b (s.thr i).now = (true, prune W (s.thr i).now b) := by
      unfold rateCheckL; rw [← hreq]; simp [hlen]
    refine ⟨prune W (s.thr i).now b, rfl, h.cfgW, ?_, ?_, ?_, ?_, ?_, ?_, ?_, ?_, ?_, ?_, ?_, h.lo0, ?_⟩
    · intro k hk
      by_cases hki : k = i
      · subst hki; simp [inCS] at hk
      · simp only [hki, if_false] at hk
        have := h.excl k hk; rw [hl] at this; cases this; exact absurd rfl hki
    · intro k hk; simp [unlock, hl] at hk
    · show seqReplay W r ts0 (s.sh.log ++ [⟨i, (s.thr i).now, true⟩]) = _
      rw [seqReplay_snoc, h.replay]; simp [hrc]
    · intro e he
      rcases List.mem_append.mp he with he | he
      · exact h.past e he
      · simp only [List.mem_singleton] at he; subst he; exact hnow.1
    · exact sorted_snoc _ _ h.sorted hnow.2.1
    · intro _; exact hreq
    rotate_right
    · intro e he
      rcases List.mem_append.mp he with he | he
      · exact h.lo1 e he
      · simp only [List.mem_singleton] at he; subst he; exact hnow.2.2
    all_goals intro k hk; simp [unlock, hl] at hk
  · simp only [hlen, if_false]
    refine ⟨b, h.cfgR, h.cfgW, ?_, ?_, h.replay, h.past, h.sorted, ?_, ?_, ?_, ?_, ?_, ?_, h.lo0, h.lo1⟩
    · intro k hk
      by_cases hki : k = i
      · subst hki; exact hl
      · simp only [hki, if_false] at hk; exact h.excl k hk
    · intro k hk; have hki := honly k hk; subst hki; simp [inCS, hpc]
    · intro hn; rw [hl] at hn; cases hn
    all_goals intro k hk; have hki := honly k hk; subst hki; simp only [if_true]
    · intro h3; omega
    · intro _; exact hnow
    · intro _; exact hreq
    · intro _; rw [← hreq]; omega
    · intro h3; omega

theorem concInv_run6 (W r : Nat) (ts0 : List Nat) (c0 : Nat) (s : CSt) (b : List Nat) (i : Nat) (h : ConcInv W r ts0 c0 s b)
    (hpc : (s.thr i).pc = 6) : ∃ b', ConcInv W r ts0 c0 (cstep rateProg s (.run i)) b' := by
  rw [cstep_run_at s i .retFalse (by rw [hpc]; rfl)]
  obtain ⟨hl, honly⟩ := holder_is W r ts0 c0 s b i h (by unfold inCS; omega)
  obtain ⟨hreq, hlt⟩ := h.h6 i hl hpc
  have hnow := h.hnow i hl (by omega)
  simp only [execInstr]
  have hrc : rateCheckL W r b (s.thr i).now = (false, prune W (s.thr i).now b ++ [(s.thr i).now]) := by
    unfold rateCheckL
    have : ¬ (prune W (s.thr i).now b).length ≥ r := by omega
    simp [this]
  refine ⟨prune W (s.thr i).now b ++ [(s.thr i).now], h.cfgR, h.cfgW, ?_, ?_, ?_, ?_, ?_, ?_, ?_, ?_, ?_, ?_, ?_, h.lo0, ?_⟩
  · intro k hk
    by_cases hki : k = i
    · subst hki; simp [inCS] at hk
    · simp only [hki, if_false] at hk
      have := h.excl k hk; rw [hl] at this; cases this; exact absurd rfl hki
  · intro k hk; simp [unlock, hl] at hk
  · show seqReplay W r ts0 (s.sh.log ++ [⟨i, (s.thr i).now, false⟩]) = _
    rw [seqReplay_snoc, h.replay]; simp [hrc]
  · intro e he
    rcases List.mem_append.mp he with he | he
    · exact h.past e he
    · simp only [List.mem_singleton] at he; subst he; exact hnow.1
  · exact sorted_snoc _ _ h.sorted hnow.2.1
  · intro _; exact hreq
  rotate_right
  · intro e he
    rcases List.mem_append.mp he with he | he
    · exact h.lo1 e he
    · simp only [List.mem_singleton] at he; subst he; exact hnow.2.2
  all_goals intro k hk; simp [unlock, hl] at hk

/-- the invariant is preserved by every event of every schedule -/
theorem concInv_step (W r : Nat) (ts0 : List Nat) (c0 : Nat) (s : CSt) (b : List Nat) (ev : CEv) (h : ConcInv W r ts0 c0 s b) :
    ∃ b', ConcInv W r ts0 c0 (cstep rateProg s ev) b' := by
  cases ev with
  | tick d => exact ⟨b, concInv_tick W r ts0 c0 s b d h⟩
  | run i =>
    have hc : (s.thr i).pc = 0 ∨ (s.thr i).pc = 1 ∨ (s.thr i).pc = 2 ∨ (s.thr i).pc = 3 ∨ (s.thr i).pc = 4 ∨
        (s.thr i).pc = 5 ∨ (s.thr i).pc = 6 ∨ 7 ≤ (s.thr i).pc := by omega
    rcases hc with hc | hc | hc | hc | hc | hc | hc | hc
    · exact ⟨b, concInv_run0 W r ts0 c0 s b i h hc⟩
    · exact ⟨b, concInv_run1 W r ts0 c0 s b i h hc⟩
    · exact ⟨b, concInv_run2 W r ts0 c0 s b i h hc⟩
    · exact ⟨b, concInv_run3 W r ts0 c0 s b i h hc⟩
    · exact concInv_run4 W r ts0 c0 s b i h hc
    · exact ⟨b, concInv_run5 W r ts0 c0 s b i h hc⟩
    · exact concInv_run6 W r ts0 c0 s b i h hc
    · -- the call has returned: scheduling it changes nothing
      obtain ⟨n, hn⟩ : ∃ n, (s.thr i).pc = n + 7 := ⟨(s.thr i).pc - 7, by omega⟩
      have : cstep rateProg s (.run i) = s := by
        simp only [cstep, hn, rateProg_get_ge]
      rw [this]; exact ⟨b, h⟩

theorem concInv_run (W r : Nat) (ts0 : List Nat) (c0 : Nat) (evs : List CEv) : ∀ (s : CSt) (b : List Nat),
    ConcInv W r ts0 c0 s b → ∃ b', ConcInv W r ts0 c0 (crun rateProg s evs) b' := by
  induction evs with
  | nil => intro s b h; exact ⟨b, h⟩
  | cons ev evs ih =>
    intro s b h
    obtain ⟨b1, h1⟩ := concInv_step W r ts0 c0 s b ev h
    exact ih _ b1 h1

theorem concInv_start (W r : Nat) (ts0 : List Nat) (clock : Nat) :
    ConcInv W r ts0 clock (CSt.start ts0 clock (some r) W) ts0 := by
  refine ⟨rfl, rfl, ?_, ?_, rfl, ?_, ?_, fun _ => rfl, ?_, ?_, ?_, ?_, ?_, Nat.le_refl _, ?_⟩
  · intro j hj; simp [CSt.start, inCS] at hj
  all_goals simp [CSt.start]


theorem admits_cons (e : RateEv) (es : List RateEv) :
    admits (e :: es) = (if e.limited then [] else [e.t]) ++ admits es := by
  unfold admits
  cases h : e.limited <;> simp [h]

/-- a log that replays as a sequential history of rate checks at non-decreasing times never admits more than
    `r` calls in any window -/
theorem seqReplay_bound (W r : Nat) : ∀ (log : List RateEv) (ts A : List Nat) (lo : Nat) (b : List Nat),
    seqReplay W r ts log = some b →
    List.Pairwise (· ≤ ·) (log.map (·.t)) → (∀ e ∈ log, lo ≤ e.t) →
    (∀ q, lo ≤ q → prune W q ts = prune W q A) → (∀ t ∈ A, t ≤ lo) →
    (∀ T, (A.filter (inWin W T)).length ≤ r) →
    ∀ T, ((A ++ admits log).filter (inWin W T)).length ≤ r := by
  intro log
  induction log with
  | nil => intro ts A lo b _ _ _ _ _ hb T; simpa [admits] using hb T
  | cons e es ih =>
    intro ts A lo b hrep hsort hlo hsync hpast hbound
    simp only [seqReplay] at hrep
    split at hrep
    case isFalse => cases hrep
    case isTrue hlim =>
    have hle : lo ≤ e.t := hlo e (by simp)
    simp only [List.map_cons, List.pairwise_cons] at hsort
    have hlo' : ∀ x ∈ es, e.t ≤ x.t := fun x hx => hsort.1 x.t (List.mem_map.mpr ⟨x, hx, rfl⟩)
    rw [admits_cons, ← List.append_assoc]
    by_cases hfull : (prune W e.t ts).length ≥ r
    · -- limited
      have h1 : rateCheckL W r ts e.t = (true, prune W e.t ts) := by unfold rateCheckL; simp [hfull]
      rw [h1] at hlim hrep
      simp only at hlim hrep
      rw [← hlim]
      simp only [if_true, List.append_nil]
      refine ih _ A e.t b hrep hsort.2 hlo' ?_ (fun t ht => Nat.le_trans (hpast t ht) hle) hbound
      intro q hq
      rw [prune_prune W e.t q hq]; exact hsync q (Nat.le_trans hle hq)
    · have h1 : rateCheckL W r ts e.t = (false, prune W e.t ts ++ [e.t]) := by unfold rateCheckL; simp [hfull]
      rw [h1] at hlim hrep
      simp only at hlim hrep
      rw [← hlim]
      simp only [Bool.false_eq_true, if_false]
      refine ih _ (A ++ [e.t]) e.t b hrep hsort.2 hlo' ?_ ?_ ?_
      · intro q hq
        unfold prune
        rw [List.filter_append, List.filter_append]
        have h2 := prune_prune W e.t q hq ts
        have h3 := hsync q (Nat.le_trans hle hq)
        unfold prune at h2 h3
        rw [h2, h3]
      · intro t ht
        rcases List.mem_append.mp ht with ht | ht
        · exact Nat.le_trans (hpast t ht) hle
        · simp at ht; omega
      · intro T
        by_cases hin : inWin W T e.t = true
        · have hs := hsync e.t hle
          have hsub : (A.filter (inWin W e.t)).length ≤ (prune W e.t A).length := by
            unfold prune
            apply filter_length_le_of_imp
            intro t _ hw
            simp only [inWin, Bool.and_eq_true, decide_eq_true_eq] at hw ⊢
            omega
          have hT : ((A ++ [e.t]).filter (inWin W T)).length ≤ ((A ++ [e.t]).filter (inWin W e.t)).length := by
            apply filter_length_le_of_imp
            intro t ht hw
            have hle' : t ≤ e.t := by
              rcases List.mem_append.mp ht with ht | ht
              · exact Nat.le_trans (hpast t ht) hle
              · simp at ht; omega
            simp only [inWin, Bool.and_eq_true, decide_eq_true_eq] at hw hin ⊢
            omega
          refine Nat.le_trans hT ?_
          rw [List.filter_append, List.length_append]
          have h1' : ([e.t].filter (inWin W e.t)).length ≤ 1 := by
            simp only [List.filter_cons, List.filter_nil]; split <;> simp
          rw [← hs] at hsub
          omega
        · have : inWin W T e.t = false := by simpa using hin
          rw [List.filter_append]
          simp [this]; exact hbound T

end Operon.Gates
