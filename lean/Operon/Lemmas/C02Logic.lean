import Operon.Lemmas.C02
import Operon.Model.MitoWork
/-! C02 helper lemmas for the logic pathway: evaluating the tree in which the NAMES `true` / `false` were turned into
    constants is Python's evaluation of the ORIGINAL tree in a namespace that additionally binds `true` / `false` to the
    booleans — same result, same environment interactions except for the two extra name lookups. -/
set_option linter.unusedSectionVars false
namespace Operon.Mito
open R

/-- the logic pathway's namespace: `true` / `false` bound to the booleans, every other name as before -/
def envB (env : Env) : Env :=
  { env with lookup := fun n => if n = "true" then .bool true else if n = "false" then .bool false else env.lookup n }

def namesB (names : List String) : List String := names ++ ["true", "false"]

def isBoolLookup : Act → Bool
  | .lookup n => n == "true" || n == "false"
  | _ => false

/-- same result; the trace of `x` is the trace of `y` without the lookups of `true` / `false` -/
def RelB {α} (x y : R α) : Prop := x.2 = y.2 ∧ x.1 = y.1.filter (fun a => !isBoolLookup a)

theorem RelB.bind {α β} {x y : R α} {f g : α → R β} (hx : RelB x y) (hf : ∀ v, RelB (f v) (g v)) :
    RelB (x.bind f) (y.bind g) := by
  obtain ⟨t1, r1⟩ := x
  obtain ⟨t2, r2⟩ := y
  obtain ⟨h2, h1⟩ := hx
  simp only at h1 h2
  subst h2
  cases r1 with
  | error e => exact ⟨rfl, h1⟩
  | ok v =>
    obtain ⟨g2, g1⟩ := hf v
    refine ⟨g2, ?_⟩
    simp only [R.bind, List.filter_append, h1, g1]

theorem RelB.pure {α} (a : α) : RelB (R.pure a) (R.pure a) := ⟨rfl, rfl⟩
theorem RelB.fail {α} (e1 e2 : Err) (h : e1 = e2) : RelB (R.fail e1 : R α) (R.fail e2) := by subst h; exact ⟨rfl, rfl⟩
theorem RelB.act {α} (a : Act) (r : Except Err α) (h : isBoolLookup a = false) : RelB (R.act a r) (R.act a r) :=
  ⟨rfl, by simp [R.act, h]⟩

theorem truthyR_envB (env : Env) (v : Val) : truthyR (envB env) v = truthyR env v := by
  cases v <;> rfl

theorem RelB.truthy (env : Env) (v : Val) : RelB (truthyR env v) (truthyR (envB env) v) := by
  rw [truthyR_envB]
  cases v <;> first | exact RelB.pure _ | exact RelB.act _ _ rfl

variable (names : List String) (env : Env)

mutual
theorem pyEval_relB : ∀ e, RelB (pyEval names env (normalise e)) (pyEval (namesB names) (envB env) e)
  | .const v => by unfold normalise pyEval; exact RelB.pure _
  | .name id => by
    unfold normalise
    by_cases h1 : id = "true"
    · subst h1
      simp only [if_true]
      unfold pyEval
      simp only [namesB, List.mem_append, List.mem_cons, true_or, or_true, if_true]
      exact ⟨by simp [R.act, R.pure, envB], by simp [R.act, R.pure, isBoolLookup]⟩
    · by_cases h2 : id = "false"
      · subst h2
        simp only [h1, if_false, if_true]
        unfold pyEval
        simp only [namesB, List.mem_append, List.mem_cons, true_or, or_true, if_true]
        exact ⟨by simp [R.act, R.pure, envB], by simp [R.act, R.pure, isBoolLookup]⟩
      · simp only [h1, h2, if_false]
        unfold pyEval
        have hm : id ∈ namesB names ↔ id ∈ names := by simp [namesB, h1, h2]
        by_cases hn : id ∈ names
        · rw [if_pos hn, if_pos (hm.mpr hn)]
          have : (envB env).lookup id = env.lookup id := by simp [envB, h1, h2]
          rw [this]
          exact RelB.act _ _ (by simp [isBoolLookup, h1, h2])
        · rw [if_neg hn, if_neg (fun h => hn (hm.mp h))]
          exact RelB.fail _ _ rfl
  | .binop k l r => by
    unfold normalise pyEval
    exact RelB.bind (pyEval_relB l) fun a => RelB.bind (pyEval_relB r) fun b => RelB.act _ _ rfl
  | .unop k e => by
    unfold normalise pyEval
    refine RelB.bind (pyEval_relB e) fun a => ?_
    split
    · exact RelB.bind (RelB.truthy env a) fun b => RelB.pure _
    · exact RelB.act _ _ rfl
  | .call f args kn kv => by
    unfold normalise pyEval
    split
    · exact RelB.fail _ _ rfl
    · exact RelB.bind (pyEval_relB f) fun fv => RelB.bind (pyList_relB args) fun as =>
        RelB.bind (pyKws_relB kn kv) fun ks => RelB.act _ _ rfl
  | .list es => by
    unfold normalise pyEval; exact RelB.bind (pyList_relB es) fun vs => RelB.pure _
  | .tuple es => by
    unfold normalise pyEval; exact RelB.bind (pyList_relB es) fun vs => RelB.pure _
  | .compare l ops cs => by
    unfold normalise pyEval; exact RelB.bind (pyEval_relB l) fun a => pyCmp_relB a ops cs
  | .boolop k es => by
    unfold normalise pyEval; exact pyBool_relB k es
  | .ifexp c t e => by
    unfold normalise pyEval
    refine RelB.bind (pyEval_relB c) fun cv => RelB.bind (RelB.truthy env cv) fun b => ?_
    split
    · exact pyEval_relB t
    · exact pyEval_relB e
  | .other k cs => by unfold normalise pyEval; exact RelB.fail _ _ rfl

theorem pyList_relB : ∀ es, RelB (pyList names env (normaliseList es)) (pyList (namesB names) (envB env) es)
  | [] => by unfold normaliseList pyList; exact RelB.pure _
  | e :: es => by
    unfold normaliseList pyList
    exact RelB.bind (pyEval_relB e) fun v => RelB.bind (pyList_relB es) fun vs => RelB.pure _

theorem pyKws_relB (kn : List (Option String)) :
    ∀ es, RelB (pyKws names env kn (normaliseList es)) (pyKws (namesB names) (envB env) kn es)
  | [] => by unfold normaliseList pyKws; exact RelB.pure _
  | e :: es => by
    unfold normaliseList pyKws
    split
    · exact RelB.pure _
    · exact RelB.fail _ _ rfl
    · rename_i n ns
      exact RelB.bind (pyEval_relB e) fun v => RelB.bind (pyKws_relB ns es) fun r => RelB.pure _

theorem pyCmp_relB (a : Val) (ops : List CmpK) :
    ∀ cs, RelB (pyCmp names env a ops (normaliseList cs)) (pyCmp (namesB names) (envB env) a ops cs)
  | [] => by unfold normaliseList pyCmp; exact RelB.pure _
  | c :: cs => by
    unfold normaliseList pyCmp
    split
    · exact RelB.pure _
    · rename_i op ops'
      refine RelB.bind (pyEval_relB c) fun right => RelB.bind (RelB.act _ _ rfl) fun r => ?_
      cases cs with
      | nil => simp only [normaliseList]; exact RelB.pure _
      | cons c' cs' =>
        simp only [normaliseList]
        refine RelB.bind (RelB.truthy env r) fun b => ?_
        split
        · have := pyCmp_relB right ops' (c' :: cs')
          simpa only [normaliseList] using this
        · exact RelB.pure _

theorem pyBool_relB (k : BoolK) :
    ∀ es, RelB (pyBool names env k (normaliseList es)) (pyBool (namesB names) (envB env) k es)
  | [] => by unfold normaliseList pyBool; exact RelB.fail _ _ rfl
  | e :: es => by
    cases es with
    | nil =>
      simp only [normaliseList]
      unfold pyBool
      exact pyEval_relB e
    | cons e' es' =>
      have ih := pyBool_relB k (e' :: es')
      simp only [normaliseList] at ih ⊢
      unfold pyBool
      refine RelB.bind (pyEval_relB e) fun v => RelB.bind (RelB.truthy env v) fun b => ?_
      cases k with
      | or =>
        simp only
        split
        · exact RelB.pure _
        · exact ih
      | and =>
        simp only
        split
        · exact ih
        · exact RelB.pure _
end

/-- a success result of the entry point carries the value (and the trace) of the pathway body it dispatched to -/
theorem metabolize_success (T : Tables) (env : Env) (cfg : Cfg) (latched : Bool) (d : Pathway) (inp : Inp)
    (forced : Option Pathway) (tr : List Act) (v : Val) (r : Bool) (p : Pathway)
    (h : metabolize T env cfg latched d inp forced = (tr, .result true (some v) r (some p))) :
    p = forced.getD d ∧ pathwayBody T env cfg inp p = (tr, .ok v) := by
  unfold metabolize at h
  split at h
  · simp at h
  · split at h
    · simp at h
    · simp only at h
      split at h
      · simp at h
      · split at h
        · simp at h
        · rcases hb : pathwayBody T env cfg inp (forced.getD d) with ⟨t, res⟩
          rw [hb] at h
          cases res with
          | error er => simp only at h; split at h <;> simp at h
          | ok w =>
            simp only at h
            split at h
            · split at h <;> simp at h
            · simp only [Prod.mk.injEq, Outcome.result.injEq, Option.some.injEq, true_and] at h
              obtain ⟨rfl, rfl, _, rfl⟩ := h
              exact ⟨rfl, hb⟩

/-! #### literal trees: Python's value is the structural value, nothing is executed -/

mutual
theorem pyEval_lit (names : List String) (env : Env) : ∀ e v, litEval e = some v → pyEval names env e = ([], .ok v)
  | .const c, v, h => by
    simp only [litEval, Option.some.injEq] at h; subst h; unfold pyEval; rfl
  | .list es, v, h => by
    simp only [litEval, Option.map_eq_some_iff] at h
    obtain ⟨vs, hvs, rfl⟩ := h
    unfold pyEval; rw [pyList_lit names env es vs hvs]; rfl
  | .tuple es, v, h => by
    simp only [litEval, Option.map_eq_some_iff] at h
    obtain ⟨vs, hvs, rfl⟩ := h
    unfold pyEval; rw [pyList_lit names env es vs hvs]; rfl
  | .name _, _, h => by simp [litEval] at h
  | .binop _ _ _, _, h => by simp [litEval] at h
  | .unop _ _, _, h => by simp [litEval] at h
  | .call _ _ _ _, _, h => by simp [litEval] at h
  | .compare _ _ _, _, h => by simp [litEval] at h
  | .boolop _ _, _, h => by simp [litEval] at h
  | .ifexp _ _ _, _, h => by simp [litEval] at h
  | .other _ _, _, h => by simp [litEval] at h
theorem pyList_lit (names : List String) (env : Env) :
    ∀ es vs, litEvalList es = some vs → pyList names env es = ([], .ok vs)
  | [], vs, h => by simp only [litEvalList, Option.some.injEq] at h; subst h; unfold pyList; rfl
  | e :: es, vs, h => by
    unfold litEvalList at h
    split at h
    · rename_i v vs' hv hvs
      simp only [Option.some.injEq] at h; subst h
      unfold pyList; rw [pyEval_lit names env e v hv, pyList_lit names env es vs' hvs]; rfl
    · simp at h
end

mutual
theorem dup_lit : ∀ e v, litEval e = some v → dupAnywhere e = false
  | .const _, _, _ => by simp [dupAnywhere]
  | .list es, v, h => by
    simp only [litEval, Option.map_eq_some_iff] at h
    obtain ⟨vs, hvs, _⟩ := h
    simp [dupAnywhere, dupList_lit es vs hvs]
  | .tuple es, v, h => by
    simp only [litEval, Option.map_eq_some_iff] at h
    obtain ⟨vs, hvs, _⟩ := h
    simp [dupAnywhere, dupList_lit es vs hvs]
  | .name _, _, h => by simp [litEval] at h
  | .binop _ _ _, _, h => by simp [litEval] at h
  | .unop _ _, _, h => by simp [litEval] at h
  | .call _ _ _ _, _, h => by simp [litEval] at h
  | .compare _ _ _, _, h => by simp [litEval] at h
  | .boolop _ _, _, h => by simp [litEval] at h
  | .ifexp _ _ _, _, h => by simp [litEval] at h
  | .other _ _, _, h => by simp [litEval] at h
theorem dupList_lit : ∀ es vs, litEvalList es = some vs → dupAnywhereList es = false
  | [], _, _ => by simp [dupAnywhereList]
  | e :: es, vs, h => by
    unfold litEvalList at h
    split at h
    · rename_i v vs' hv hvs
      simp [dupAnywhereList, dup_lit e v hv, dupList_lit es vs' hvs]
    · simp at h
end

/-! #### names occurring anywhere in a tree; trees without `true` / `false` are fixed points of the rewriting -/

mutual
def namesOf : Expr → List String
  | .const _ => []
  | .name id => [id]
  | .binop _ l r => namesOf l ++ namesOf r
  | .unop _ e => namesOf e
  | .call f args _ kv => namesOf f ++ namesOfList args ++ namesOfList kv
  | .list es => namesOfList es
  | .tuple es => namesOfList es
  | .compare l _ cs => namesOf l ++ namesOfList cs
  | .boolop _ es => namesOfList es
  | .ifexp c t e => namesOf c ++ namesOf t ++ namesOf e
  | .other _ cs => namesOfList cs
def namesOfList : List Expr → List String
  | [] => []
  | e :: es => namesOf e ++ namesOfList es
end

mutual
theorem normalise_eq_self : ∀ e, "true" ∉ namesOf e → "false" ∉ namesOf e → normalise e = e
  | .const _, _, _ => by simp [normalise]
  | .name id, h1, h2 => by
    simp only [namesOf, List.mem_singleton] at h1 h2
    unfold normalise
    rw [if_neg (fun h => h1 h.symm), if_neg (fun h => h2 h.symm)]
  | .binop k l r, h1, h2 => by
    simp only [namesOf, List.mem_append, not_or] at h1 h2
    simp [normalise, normalise_eq_self l h1.1 h2.1, normalise_eq_self r h1.2 h2.2]
  | .unop k e, h1, h2 => by
    simp only [namesOf] at h1 h2
    simp [normalise, normalise_eq_self e h1 h2]
  | .call f args kn kv, h1, h2 => by
    simp only [namesOf, List.mem_append, not_or] at h1 h2
    simp [normalise, normalise_eq_self f h1.1.1 h2.1.1, normaliseList_eq_self args h1.1.2 h2.1.2,
      normaliseList_eq_self kv h1.2 h2.2]
  | .list es, h1, h2 => by
    simp only [namesOf] at h1 h2
    simp [normalise, normaliseList_eq_self es h1 h2]
  | .tuple es, h1, h2 => by
    simp only [namesOf] at h1 h2
    simp [normalise, normaliseList_eq_self es h1 h2]
  | .compare l ops cs, h1, h2 => by
    simp only [namesOf, List.mem_append, not_or] at h1 h2
    simp [normalise, normalise_eq_self l h1.1 h2.1, normaliseList_eq_self cs h1.2 h2.2]
  | .boolop k es, h1, h2 => by
    simp only [namesOf] at h1 h2
    simp [normalise, normaliseList_eq_self es h1 h2]
  | .ifexp c t e, h1, h2 => by
    simp only [namesOf, List.mem_append, not_or] at h1 h2
    simp [normalise, normalise_eq_self c h1.1.1 h2.1.1, normalise_eq_self t h1.1.2 h2.1.2,
      normalise_eq_self e h1.2 h2.2]
  | .other k cs, h1, h2 => by
    simp only [namesOf] at h1 h2
    simp [normalise, normaliseList_eq_self cs h1 h2]
theorem normaliseList_eq_self : ∀ es, "true" ∉ namesOfList es → "false" ∉ namesOfList es → normaliseList es = es
  | [], _, _ => by simp [normaliseList]
  | e :: es, h1, h2 => by
    simp only [namesOfList, List.mem_append, not_or] at h1 h2
    simp [normaliseList, normalise_eq_self e h1.1 h2.1, normaliseList_eq_self es h1.2 h2.2]
end

end Operon.Mito
