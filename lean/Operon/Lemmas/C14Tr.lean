import Operon.Model.CoordPrim
import Operon.Lemmas.C14
import Operon.Lemmas.C15
/-! Helper lemmas for the agreement theorems of Props/C14.lean: the dict primitives on association lists with
    distinct keys, the loop of remove_all_for_agent as a fold, shared-context facts.  Nothing here mentions the
    generated translation, so this file builds whatever the source looks like. -/
namespace Operon.Coord

theorem bne_decide (a b : Nat) : (a != b) = !decide (a = b) := by
  by_cases h : a = b <;> simp [h]

/-! ### the dict primitives on an association list with distinct keys -/

def NoKey (E : Edges) (k : Nat) : Prop := ∀ e ∈ E, e.1 ≠ k

theorem noKey_any {E : Edges} {k : Nat} (h : NoKey E k) : E.any (fun e => e.1 = k) = false := by
  simp only [List.any_eq_false, decide_eq_true_eq]; exact h

theorem noKey_of_any {E : Edges} {k : Nat} (h : E.any (fun e => e.1 = k) = false) : NoKey E k := by
  simpa [NoKey] using h

theorem noKey_find {E : Edges} {k : Nat} (h : NoKey E k) : E.find? (fun e => e.1 = k) = none := by
  apply List.find?_eq_none.mpr; intro e he; simpa using h e he

theorem noKey_map {E : Edges} {k : Nat} (h : NoKey E k) (f : Nat × List (Nat × Nat) → Nat × List (Nat × Nat)) :
    E.map (fun e => if e.1 = k then f e else e) = E := by
  have : ∀ e ∈ E, (fun e => if e.1 = k then f e else e) e = id e := by
    intro e he; simp [h e he]
  rw [List.map_congr_left this]; simp

theorem noKey_filter {E : Edges} {k : Nat} (h : NoKey E k) : E.filter (fun e => e.1 ≠ k) = E :=
  List.filter_eq_self.mpr (fun e he => by simpa using h e he)

/-- the shape of a dict that has key `k`: distinct keys, so `k` occurs once -/
structure Split (E : Edges) (k : Nat) (P : Edges) (v : List (Nat × Nat)) (R : Edges) : Prop where
  eq : E = P ++ (k, v) :: R
  left : NoKey P k
  right : NoKey R k

theorem split_of_has {E : Edges} (hn : (E.map (·.1)).Nodup) {k : Nat} (h : dictHas E k = true) :
    ∃ P v R, Split E k P v R := by
  simp only [dictHas, List.any_eq_true, decide_eq_true_eq] at h
  obtain ⟨e, he, hk⟩ := h
  obtain ⟨P, R, rfl⟩ := List.append_of_mem he
  obtain ⟨k', v⟩ := e
  simp only at hk
  subst hk
  rw [List.map_append, List.map_cons, List.nodup_append] at hn
  refine ⟨P, v, R, rfl, ?_, ?_⟩
  · intro x hx hxk
    exact hn.2.2 x.1 (List.mem_map.mpr ⟨x, hx, rfl⟩) k' (by simp) hxk
  · intro x hx hxk
    have := (List.nodup_cons.mp hn.2.1).1
    exact this (List.mem_map.mpr ⟨x, hx, hxk⟩)

theorem Split.has {E P R : Edges} {k : Nat} {v} (h : Split E k P v R) : dictHas E k = true := by
  rw [h.eq]; simp [dictHas]

theorem Split.get {E P R : Edges} {k : Nat} {v} (h : Split E k P v R) : dictGet E k = v := by
  rw [h.eq]
  simp [dictGet, succs, List.find?_append, noKey_find h.left]

theorem Split.set {E P R : Edges} {k : Nat} {v} (h : Split E k P v R) (v' : List (Nat × Nat)) :
    dictSet E k v' = P ++ (k, v') :: R ∧ Split (P ++ (k, v') :: R) k P v' R := by
  refine ⟨?_, rfl, h.left, h.right⟩
  unfold dictSet
  rw [h.has, if_pos rfl, h.eq]
  simp only [List.map_append, List.map_cons, if_true]
  rw [noKey_map h.left (fun _ => (k, v')), noKey_map h.right (fun _ => (k, v'))]

theorem Split.del {E P R : Edges} {k : Nat} {v} (h : Split E k P v R) : dictDel E k = P ++ R := by
  unfold dictDel
  rw [h.eq]
  simp only [List.filter_append, List.filter_cons]
  rw [noKey_filter h.left, noKey_filter h.right]
  simp

theorem dictHas_false {E : Edges} {k : Nat} (h : dictHas E k = false) : NoKey E k := noKey_of_any h

/-! ### the graph methods -/

/-- one iteration of the loop of `remove_all_for_agent` (also the body of `remove_dependency`): rewrite the entry
    of `k` without the edges to `a`, drop it when nothing is left -/
def stepRm (a : Nat) (E : Edges) (k : Nat) : Edges :=
  let E : Edges := dictSet E k ((dictGet E k).filter (fun e => e.1 != a))
  if (!(!(dictGet E k).isEmpty)) then dictDel E k else E

theorem stepRm_split {E P R : Edges} {k a : Nat} {v} (h : Split E k P v R) :
    stepRm a E k = if (v.filter (fun e => e.1 != a)).isEmpty then P ++ R else P ++ (k, v.filter (fun e => e.1 != a)) :: R := by
  unfold stepRm
  simp only
  obtain ⟨hset, hs'⟩ := h.set ((dictGet E k).filter (fun e => e.1 != a))
  rw [h.get] at hset hs'
  rw [h.get, hset, hs'.get, hs'.del]
  generalize (List.filter (fun e => e.fst != a) v).isEmpty = bb
  cases bb <;> rfl

theorem noKey_of_nodup_cons {k : Nat} {v} {R : Edges} (hn : (((k, v) :: R).map (·.1)).Nodup) : NoKey R k := by
  intro x hx hxk
  exact (List.nodup_cons.mp hn).1 (List.mem_map.mpr ⟨x, hx, hxk⟩)

/-- the loop over the key snapshot: entries already processed (`P`) are left alone -/
theorem foldl_stepRm (a : Nat) : ∀ (R P : Edges), ((P ++ R).map (·.1)).Nodup →
    (dictKeys R).foldl (stepRm a) (P ++ R) =
      P ++ (R.map (fun e => (e.1, e.2.filter (fun d => d.1 != a)))).filter (fun e => !e.2.isEmpty)
  | [], P, _ => by simp [dictKeys]
  | (k, v) :: R, P, hn => by
    have hn' := hn
    rw [List.map_append, List.nodup_append] at hn'
    have hPk : NoKey P k := by
      intro x hx hxk
      exact hn'.2.2 x.1 (List.mem_map.mpr ⟨x, hx, rfl⟩) k (by simp) hxk
    have hRk : NoKey R k := noKey_of_nodup_cons hn'.2.1
    have hs : Split (P ++ (k, v) :: R) k P v R := ⟨rfl, hPk, hRk⟩
    simp only [dictKeys, List.map_cons, List.foldl_cons]
    rw [stepRm_split hs]
    by_cases he : (v.filter (fun e => e.1 != a)).isEmpty = true
    · rw [if_pos he]
      have hn2 : ((P ++ R).map (·.1)).Nodup := by
        rw [List.map_append, List.nodup_append]
        exact ⟨hn'.1, (List.nodup_cons.mp hn'.2.1).2, fun x hx y hy => hn'.2.2 x hx y (by simp [hy])⟩
      have := foldl_stepRm a R P hn2
      simp only [dictKeys] at this
      rw [this]
      simp [he]
    · rw [if_neg he]
      have heq : P ++ (k, v.filter (fun e => e.1 != a)) :: R = (P ++ [(k, v.filter (fun e => e.1 != a))]) ++ R := by simp
      have hn2 : (((P ++ [(k, v.filter (fun e => e.1 != a))]) ++ R).map (·.1)).Nodup := by
        have : ((P ++ [(k, v.filter (fun e => e.1 != a))]) ++ R).map (·.1) = (P ++ (k, v) :: R).map (·.1) := by simp
        rw [this]; exact hn
      have := foldl_stepRm a R (P ++ [(k, v.filter (fun e => e.1 != a))]) hn2
      simp only [dictKeys] at this
      rw [heq, this]
      simp [he]

/-! ### the controller methods -/

theorem setLock_same {s : Sys} {r : Nat} {l : Lock} (h : s.locks r = some l) : s.setLock r l = s := by
  have : (fun x => if x = r then some l else s.locks x) = s.locks := by
    funext x
    by_cases hx : x = r
    · subst hx; simp [h]
    · simp [hx]
  unfold Sys.setLock
  rw [this]

/-- the context object is the one listed in the active table (what sharing the Python object means) -/
def Synced (s : Sys) (c : Ctx) : Prop := ∀ x ∈ s.active, x.id = c.id → x = c

theorem setCtx_same {s : Sys} {c : Ctx} (h : Synced s c) : s.setCtx c = s := by
  have : s.active.map (fun x => if x.id = c.id then c else x) = s.active := by
    have hc : ∀ x ∈ s.active, (fun x => if x.id = c.id then c else x) x = id x := by
      intro x hx
      by_cases hid : x.id = c.id
      · simp [hid, h x hx hid]
      · simp [hid]
    rw [List.map_congr_left hc]; simp
  unfold Sys.setCtx
  rw [this]

theorem synced_setCtx (s : Sys) (c : Ctx) : Synced (s.setCtx c) c := by
  intro x hx hid
  rcases mem_setCtx hx with h | ⟨_, hne⟩
  · exact h
  · exact absurd hid hne

theorem release_synced (s : Sys) (c : Ctx) (r : Nat) (hsync : Synced s c) :
    Synced (release s c r).1 (release s c r).2.1 := by
  by_cases hown : r ∈ c.acquired ∧ Owns s c.id r
  · obtain ⟨hr, l, hl, ho⟩ := hown
    by_cases hh : l.hold ≤ 1
    · rw [release_last hr hl ho hh]; exact synced_setCtx _ _
    · rw [release_more hr hl ho hh]; exact synced_setCtx _ _
  · rw [release_not_owned hown]; exact hsync

end Operon.Coord
