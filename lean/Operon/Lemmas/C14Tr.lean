import Operon.Gen.CoordTranslated
import Operon.Lemmas.C14
import Operon.Lemmas.C15
/-! Agreement of the translated coordination methods (Operon/Gen/CoordTranslated.lean) with the hand-written model:
    helper lemmas about the dict primitives. -/
namespace Operon.Coord

theorem bne_decide (a b : Nat) : (a != b) = !decide (a = b) := by
  by_cases h : a = b <;> simp [h]

theorem tr_add_to_waiting (l : Lock) (o : Nat) (p : Int) :
    Tr.add_to_waiting l o p = { l with waiting := addWaiting l.waiting o p } := by
  simp [Tr.add_to_waiting, addWaiting, bne_decide]

theorem tr_try_acquire (l : Lock) (o : Nat) (p : Int) : Tr.try_acquire l o p = l.tryAcquire o p := by
  obtain ⟨ow, pr, h, pre, w⟩ := l
  cases ow with
  | none => simp [Tr.try_acquire, Lock.tryAcquire]
  | some old =>
    by_cases ho : old = o
    · simp [Tr.try_acquire, Lock.tryAcquire, ho]
    · by_cases hp : pre = true ∧ pr < p
      · simp [Tr.try_acquire, Lock.tryAcquire, ho, hp, tr_add_to_waiting]
      · simp [Tr.try_acquire, Lock.tryAcquire, ho, hp, tr_add_to_waiting]

theorem tr_release (l : Lock) (o : Nat) : Tr.release l o = l.release o := by
  obtain ⟨ow, pr, h, pre, w⟩ := l
  by_cases ho : ow = some o
  · by_cases hh : h ≤ 1
    · have : h - 1 = 0 := by omega
      simp [Tr.release, Lock.release, ho, hh, this]
    · have : ¬ h - 1 = 0 := by omega
      simp [Tr.release, Lock.release, ho, hh, this]
  · simp [Tr.release, Lock.release, ho]

theorem tr_pop_next_waiter (l : Lock) : Tr.pop_next_waiter l = l.popNext := by
  obtain ⟨ow, pr, h, pre, w⟩ := l
  cases w <;> simp [Tr.pop_next_waiter, Lock.popNext, keyError]

/-! ### the dict primitives on an association list with distinct keys -/

def NoKey (E : Edges) (k : Nat) : Prop := ∀ e ∈ E, e.1 ≠ k

theorem noKey_any {E : Edges} {k : Nat} (h : NoKey E k) : E.any (fun e => e.1 = k) = false := by
  simp only [List.any_eq_false, decide_eq_true_eq]; exact h

theorem noKey_of_any {E : Edges} {k : Nat} (h : E.any (fun e => e.1 = k) = false) : NoKey E k := by
  simpa [NoKey] using h

theorem noKey_find {E : Edges} {k : Nat} (h : NoKey E k) : E.find? (fun e => e.1 = k) = none := by
  apply List.find?_eq_none.mpr; intro e he; simpa using h e he

theorem noKey_map {E : Edges} {k : Nat} (h : NoKey E k) (f : Nat × List (Nat × Nat) → Nat × List (Nat × Nat)) :
    E.map (fun e => if e.1 = k then f e else e) = E := by
  have : ∀ e ∈ E, (fun e => if e.1 = k then f e else e) e = id e := by
    intro e he; simp [h e he]
  rw [List.map_congr_left this]; simp

theorem noKey_filter {E : Edges} {k : Nat} (h : NoKey E k) : E.filter (fun e => e.1 ≠ k) = E :=
  List.filter_eq_self.mpr (fun e he => by simpa using h e he)

/-- the shape of a dict that has key `k`: distinct keys, so `k` occurs once -/
structure Split (E : Edges) (k : Nat) (P : Edges) (v : List (Nat × Nat)) (R : Edges) : Prop where
  eq : E = P ++ (k, v) :: R
  left : NoKey P k
  right : NoKey R k

theorem split_of_has {E : Edges} (hn : (E.map (·.1)).Nodup) {k : Nat} (h : dictHas E k = true) :
    ∃ P v R, Split E k P v R := by
  simp only [dictHas, List.any_eq_true, decide_eq_true_eq] at h
  obtain ⟨e, he, hk⟩ := h
  obtain ⟨P, R, rfl⟩ := List.append_of_mem he
  obtain ⟨k', v⟩ := e
  simp only at hk
  subst hk
  rw [List.map_append, List.map_cons, List.nodup_append] at hn
  refine ⟨P, v, R, rfl, ?_, ?_⟩
  · intro x hx hxk
    exact hn.2.2 x.1 (List.mem_map.mpr ⟨x, hx, rfl⟩) k' (by simp) hxk
  · intro x hx hxk
    have := (List.nodup_cons.mp hn.2.1).1
    exact this (List.mem_map.mpr ⟨x, hx, hxk⟩)

theorem Split.has {E P R : Edges} {k : Nat} {v} (h : Split E k P v R) : dictHas E k = true := by
  rw [h.eq]; simp [dictHas]

theorem Split.get {E P R : Edges} {k : Nat} {v} (h : Split E k P v R) : dictGet E k = v := by
  rw [h.eq]
  simp [dictGet, succs, List.find?_append, noKey_find h.left]

theorem Split.set {E P R : Edges} {k : Nat} {v} (h : Split E k P v R) (v' : List (Nat × Nat)) :
    dictSet E k v' = P ++ (k, v') :: R ∧ Split (P ++ (k, v') :: R) k P v' R := by
  refine ⟨?_, rfl, h.left, h.right⟩
  unfold dictSet
  rw [h.has, if_pos rfl, h.eq]
  simp only [List.map_append, List.map_cons, if_true]
  rw [noKey_map h.left (fun _ => (k, v')), noKey_map h.right (fun _ => (k, v'))]

theorem Split.del {E P R : Edges} {k : Nat} {v} (h : Split E k P v R) : dictDel E k = P ++ R := by
  unfold dictDel
  rw [h.eq]
  simp only [List.filter_append, List.filter_cons]
  rw [noKey_filter h.left, noKey_filter h.right]
  simp

theorem dictHas_false {E : Edges} {k : Nat} (h : dictHas E k = false) : NoKey E k := noKey_of_any h

/-! ### the graph methods -/

theorem tr_add_dependency (E : Edges) (hn : (E.map (·.1)).Nodup) (w b r : Nat) :
    Tr.add_dependency E w b r = addDep E w b r := by
  unfold Tr.add_dependency addDep
  cases hh : dictHas E w with
  | false =>
    have hno := dictHas_false hh
    have hany : E.any (fun e => e.1 = w) = false := noKey_any hno
    have hs : Split (E ++ [(w, [])]) w E [] [] := ⟨rfl, hno, fun e he => by cases he⟩
    have hset : dictSet E w [] = E ++ [(w, [])] := by unfold dictSet; rw [hh]; rfl
    simp only [hany, hset, hs.get, Bool.not_false, if_true, Bool.false_eq_true, if_false]
    simp [(hs.set [(b, r)]).1]
  | true =>
    obtain ⟨P, v, R, hs⟩ := split_of_has hn hh
    have hany : E.any (fun e => e.1 = w) = true := hh
    simp only [hany, Bool.not_true, Bool.false_eq_true, if_false, if_true, hs.get]
    by_cases hc : v.contains (b, r) = true
    · simp only [hc, Bool.not_true, Bool.false_eq_true, if_false]
      rw [hs.eq]
      have hm : (b, r) ∈ v := by simpa using hc
      simp [noKey_map hs.left, noKey_map hs.right, hm]
    · simp only [hc, Bool.not_false, if_true]
      rw [(hs.set _).1, hs.eq]
      have hm : (b, r) ∉ v := by simpa using hc
      simp [noKey_map hs.left, noKey_map hs.right, hm]

/-- one iteration of the loop of `remove_all_for_agent` (also the body of `remove_dependency`): rewrite the entry
    of `k` without the edges to `a`, drop it when nothing is left -/
def stepRm (a : Nat) (E : Edges) (k : Nat) : Edges :=
  let E : Edges := dictSet E k ((dictGet E k).filter (fun e => e.1 != a))
  if (!(!(dictGet E k).isEmpty)) then dictDel E k else E

theorem stepRm_split {E P R : Edges} {k a : Nat} {v} (h : Split E k P v R) :
    stepRm a E k = if (v.filter (fun e => e.1 != a)).isEmpty then P ++ R else P ++ (k, v.filter (fun e => e.1 != a)) :: R := by
  unfold stepRm
  simp only
  obtain ⟨hset, hs'⟩ := h.set ((dictGet E k).filter (fun e => e.1 != a))
  rw [h.get] at hset hs'
  rw [h.get, hset, hs'.get, hs'.del]
  generalize (List.filter (fun e => e.fst != a) v).isEmpty = bb
  cases bb <;> rfl

theorem noKey_of_nodup_cons {k : Nat} {v} {R : Edges} (hn : (((k, v) :: R).map (·.1)).Nodup) : NoKey R k := by
  intro x hx hxk
  exact (List.nodup_cons.mp hn).1 (List.mem_map.mpr ⟨x, hx, hxk⟩)

/-- the loop over the key snapshot: entries already processed (`P`) are left alone -/
theorem foldl_stepRm (a : Nat) : ∀ (R P : Edges), ((P ++ R).map (·.1)).Nodup →
    (dictKeys R).foldl (stepRm a) (P ++ R) =
      P ++ (R.map (fun e => (e.1, e.2.filter (fun d => d.1 != a)))).filter (fun e => !e.2.isEmpty)
  | [], P, _ => by simp [dictKeys]
  | (k, v) :: R, P, hn => by
    have hn' := hn
    rw [List.map_append, List.nodup_append] at hn'
    have hPk : NoKey P k := by
      intro x hx hxk
      exact hn'.2.2 x.1 (List.mem_map.mpr ⟨x, hx, rfl⟩) k (by simp) hxk
    have hRk : NoKey R k := noKey_of_nodup_cons hn'.2.1
    have hs : Split (P ++ (k, v) :: R) k P v R := ⟨rfl, hPk, hRk⟩
    simp only [dictKeys, List.map_cons, List.foldl_cons]
    rw [stepRm_split hs]
    by_cases he : (v.filter (fun e => e.1 != a)).isEmpty = true
    · rw [if_pos he]
      have hn2 : ((P ++ R).map (·.1)).Nodup := by
        rw [List.map_append, List.nodup_append]
        exact ⟨hn'.1, (List.nodup_cons.mp hn'.2.1).2, fun x hx y hy => hn'.2.2 x hx y (by simp [hy])⟩
      have := foldl_stepRm a R P hn2
      simp only [dictKeys] at this
      rw [this]
      simp [he]
    · rw [if_neg he]
      have heq : P ++ (k, v.filter (fun e => e.1 != a)) :: R = (P ++ [(k, v.filter (fun e => e.1 != a))]) ++ R := by simp
      have hn2 : (((P ++ [(k, v.filter (fun e => e.1 != a))]) ++ R).map (·.1)).Nodup := by
        have : ((P ++ [(k, v.filter (fun e => e.1 != a))]) ++ R).map (·.1) = (P ++ (k, v) :: R).map (·.1) := by simp
        rw [this]; exact hn
      have := foldl_stepRm a R (P ++ [(k, v.filter (fun e => e.1 != a))]) hn2
      simp only [dictKeys] at this
      rw [heq, this]
      simp [he]

theorem tr_remove_all_for_agent (E : Edges) (hn : (E.map (·.1)).Nodup) (a : Nat) :
    Tr.remove_all_for_agent E a = removeAllFor E a := by
  have hsub : ((E.filter (fun e => e.1 ≠ a)).map (·.1)).Nodup :=
    List.Nodup.sublist (List.Sublist.map _ List.filter_sublist) hn
  have hfold := foldl_stepRm a (E.filter (fun e => e.1 ≠ a)) [] (by simpa using hsub)
  have hstep : ∀ (E0 : Edges), (dictKeys E0).foldl (fun E v_waiter =>
      let E : Edges := dictSet E v_waiter (((dictGet E v_waiter)).filter (fun e => (e.1 != a)))
      if (!(!((dictGet E v_waiter)).isEmpty)) then
        let E : Edges := dictDel E v_waiter
        E
      else
        E) E0 = (dictKeys E0).foldl (stepRm a) E0 := fun _ => rfl
  unfold Tr.remove_all_for_agent removeAllFor
  simp only [hstep]
  cases hh : dictHas E a with
  | true =>
    simp only [if_true]
    have : dictDel E a = E.filter (fun e => e.1 ≠ a) := rfl
    rw [this]
    simp only [List.nil_append] at hfold
    rw [hfold]
    simp [bne_decide]
  | false =>
    simp only [Bool.false_eq_true, if_false]
    have hno := noKey_filter (dictHas_false hh)
    rw [hno] at hfold
    simp only [List.nil_append] at hfold
    rw [hfold, hno]
    simp [bne_decide]

theorem tr_remove_dependency (E : Edges) (hn : (E.map (·.1)).Nodup) (w b : Nat) :
    Tr.remove_dependency E w b = removeDep E w b := by
  have hstep : Tr.remove_dependency E w b = if dictHas E w then stepRm b E w else E := by
    unfold Tr.remove_dependency stepRm; rfl
  rw [hstep]
  unfold removeDep
  cases hh : dictHas E w with
  | false =>
    have hno := dictHas_false hh
    simp only [Bool.false_eq_true, if_false]
    rw [noKey_map hno (fun e => (e.1, e.2.filter (fun d => d.1 ≠ b)))]
    symm
    apply List.filter_eq_self.mpr
    intro e he
    simp [hno e he]
  | true =>
    obtain ⟨P, v, R, hs⟩ := split_of_has hn hh
    simp only [if_true]
    rw [stepRm_split hs, hs.eq]
    simp only [List.map_append, List.map_cons, if_true, List.filter_append, List.filter_cons]
    rw [noKey_map hs.left (fun e => (e.1, e.2.filter (fun d => d.1 ≠ b))),
      noKey_map hs.right (fun e => (e.1, e.2.filter (fun d => d.1 ≠ b)))]
    have hP : P.filter (fun e => !(decide (e.1 = w) && e.2.isEmpty)) = P :=
      List.filter_eq_self.mpr (fun e he => by simp [hs.left e he])
    have hR : R.filter (fun e => !(decide (e.1 = w) && e.2.isEmpty)) = R :=
      List.filter_eq_self.mpr (fun e he => by simp [hs.right e he])
    rw [hP, hR]
    have hf : (fun d : Nat × Nat => decide (d.1 ≠ b)) = (fun e => e.1 != b) := by
      funext d; simp [bne_decide]
    rw [hf]
    by_cases he : (v.filter (fun e => e.1 != b)).isEmpty = true
    · rw [if_pos he]; simp [he]
    · rw [if_neg he]; simp [he]

/-! ### the controller methods -/

theorem setLock_same {s : Sys} {r : Nat} {l : Lock} (h : s.locks r = some l) : s.setLock r l = s := by
  have : (fun x => if x = r then some l else s.locks x) = s.locks := by
    funext x
    by_cases hx : x = r
    · subst hx; simp [h]
    · simp [hx]
  unfold Sys.setLock
  rw [this]

/-- the context object is the one listed in the active table (what sharing the Python object means) -/
def Synced (s : Sys) (c : Ctx) : Prop := ∀ x ∈ s.active, x.id = c.id → x = c

theorem setCtx_same {s : Sys} {c : Ctx} (h : Synced s c) : s.setCtx c = s := by
  have : s.active.map (fun x => if x.id = c.id then c else x) = s.active := by
    have hc : ∀ x ∈ s.active, (fun x => if x.id = c.id then c else x) x = id x := by
      intro x hx
      by_cases hid : x.id = c.id
      · simp [hid, h x hx hid]
      · simp [hid]
    rw [List.map_congr_left hc]; simp
  unfold Sys.setCtx
  rw [this]

theorem synced_setCtx (s : Sys) (c : Ctx) : Synced (s.setCtx c) c := by
  intro x hx hid
  rcases mem_setCtx hx with h | ⟨_, hne⟩
  · exact h
  · exact absurd hid hne

theorem tr_acquire_resource (s : Sys) (c : Ctx) (r : Nat) (hn : (s.edges.map (·.1)).Nodup) :
    Tr.acquire_resource s c r = acquire s c r := by
  unfold Tr.acquire_resource
  cases hl : s.locks r with
  | none => rw [acquire_unknown hl]
  | some l =>
    simp only [tr_try_acquire]
    by_cases hres : (l.tryAcquire c.id c.prio).2 = .blocked
    · rw [acquire_blocked hl hres]
      have h1 := (tryAcquire_blocked hres).1
      simp only [hres, h1]
      have hnn : (((s.setLock r { l with waiting := addWaiting l.waiting c.id c.prio }).edges).map (·.1)).Nodup := hn
      simp [Sys.setLock, tr_add_dependency _ hn]
    · rw [acquire_ok hl hres]
      have hed : ∀ (c' : Ctx), (((s.setLock r (l.tryAcquire c.id c.prio).1).setCtx c').edges) = s.edges := fun _ => rfl
      generalize hq : l.tryAcquire c.id c.prio = q at hres
      obtain ⟨l', res⟩ := q
      cases res with
      | blocked => exact absurd rfl hres
      | acquired => simp [Sys.setLock, Sys.setCtx, tr_remove_all_for_agent _ hn]
      | reentrant => simp [Sys.setLock, Sys.setCtx, tr_remove_all_for_agent _ hn]
      | preempted => simp [Sys.setLock, Sys.setCtx, tr_remove_all_for_agent _ hn]

theorem tr_release_resource (s : Sys) (c : Ctx) (r : Nat) (hn : (s.edges.map (·.1)).Nodup) (hsync : Synced s c) :
    Tr.release_resource s c r = release s c r := by
  unfold Tr.release_resource
  by_cases hown : r ∈ c.acquired ∧ Owns s c.id r
  · obtain ⟨hr, l, hl, ho⟩ := hown
    have hc : c.acquired.contains r = true := by simpa using hr
    simp only [hc, Bool.not_true, Bool.false_eq_true, if_false, hl, tr_release]
    by_cases hh : l.hold ≤ 1
    · rw [release_last hr hl ho hh]
      simp [Lock.release, ho, hh, Lock.freed, Sys.setLock, Sys.setCtx, tr_remove_all_for_agent _ hn]
    · rw [release_more hr hl ho hh]
      have hs2 : Synced ({ s.setLock r { l with hold := l.hold - 1 } with edges := removeAllFor s.edges c.id }) c := hsync
      rw [setCtx_same hs2]
      simp [Lock.release, ho, hh, Sys.setLock, tr_remove_all_for_agent _ hn]
  · rw [release_not_owned hown]
    by_cases hc : c.acquired.contains r = true
    · simp only [hc, Bool.not_true, Bool.false_eq_true, if_false]
      cases hl : s.locks r with
      | none => rfl
      | some l =>
        have hno : l.owner ≠ some c.id := fun ho => hown ⟨by simpa using hc, l, hl, ho⟩
        simp only [tr_release]
        have hrel : l.release c.id = (l, false) := by simp [Lock.release, hno]
        simp only [hrel, Bool.false_eq_true, if_false]
        rw [setLock_same hl]
    · have hf : c.acquired.contains r = false := Bool.eq_false_iff.mpr hc
      simp only [hf, Bool.not_false, if_true]

theorem release_synced (s : Sys) (c : Ctx) (r : Nat) (hsync : Synced s c) :
    Synced (release s c r).1 (release s c r).2.1 := by
  by_cases hown : r ∈ c.acquired ∧ Owns s c.id r
  · obtain ⟨hr, l, hl, ho⟩ := hown
    by_cases hh : l.hold ≤ 1
    · rw [release_last hr hl ho hh]; exact synced_setCtx _ _
    · rw [release_more hr hl ho hh]; exact synced_setCtx _ _
  · rw [release_not_owned hown]; exact hsync

/-- the `while` loop of `release_all_resources`, translated, is the model's `releaseLoop`, and what the loop needs
    (distinct keys, the shared context object) holds again afterwards -/
theorem whileFuel_releaseLoop (r : Nat) : ∀ (f : Nat) (s : Sys) (c : Ctx), (s.edges.map (·.1)).Nodup → Synced s c →
    whileFuel f (fun sc : Sys × Ctx =>
        let q := Tr.release_resource sc.1 sc.2 r
        ((q.1, q.2.1), q.2.2 && (q.2.1.acquired).contains r)) (s, c) = releaseLoop f s c r ∧
    ((releaseLoop f s c r).1.edges.map (·.1)).Nodup ∧ Synced (releaseLoop f s c r).1 (releaseLoop f s c r).2
  | 0, s, c, hn, hs => ⟨rfl, hn, hs⟩
  | f + 1, s, c, hn, hs => by
    have hn1 : ((release s c r).1.edges.map (·.1)).Nodup := (release_relStep s c r).1.keys hn
    have hs1 := release_synced s c r hs
    unfold whileFuel releaseLoop
    simp only [tr_release_resource s c r hn hs]
    generalize hq : release s c r = q at hn1 hs1
    obtain ⟨s', c', ok⟩ := q
    cases ok with
    | false => exact ⟨by simp, hn1, hs1⟩
    | true =>
      simp only [Bool.true_and]
      by_cases hc : c'.acquired.contains r = true
      · simp only [hc, if_true]
        exact whileFuel_releaseLoop r f s' c' hn1 hs1
      · have hf : c'.acquired.contains r = false := Bool.eq_false_iff.mpr hc
        simp only [hf, Bool.false_eq_true, if_false]
        exact ⟨trivial, hn1, hs1⟩

theorem foldl_releaseKeys : ∀ (ks : List Nat) (s : Sys) (c : Ctx), (s.edges.map (·.1)).Nodup → Synced s c →
    ks.foldl (fun (sc : Sys × Ctx) v_resource_id =>
        let s : Sys := sc.1
        let c : Ctx := sc.2
        let sc : Sys × Ctx := whileFuel (holdOf s v_resource_id + 1) (fun sc =>
            let r := Tr.release_resource sc.1 sc.2 v_resource_id
            ((r.1, r.2.1), r.2.2 && (r.2.1.acquired).contains v_resource_id)) (s, c)
        let s : Sys := sc.1
        let c : Ctx := sc.2
        (s, c)) (s, c) = releaseKeys ks s c
  | [], _, _, _, _ => rfl
  | k :: ks, s, c, hn, hs => by
    obtain ⟨h1, h2, h3⟩ := whileFuel_releaseLoop k (holdOf s k + 1) s c hn hs
    simp only [List.foldl_cons, releaseKeys, releaseFully]
    rw [h1]
    exact foldl_releaseKeys ks _ _ h2 h3

theorem tr_release_all_resources (s : Sys) (c : Ctx) (hn : (s.edges.map (·.1)).Nodup) (hsync : Synced s c) :
    Tr.release_all_resources s c = releaseAll s c := by
  unfold Tr.release_all_resources releaseAll
  simp only
  rw [foldl_releaseKeys c.acquired s c hn hsync]

theorem tr_forget_operation (s : Sys) (o : Nat) (hn : (s.edges.map (·.1)).Nodup) :
    Tr.forget_operation s o = forgetWaiter s o := by
  unfold Tr.forget_operation forgetWaiter
  simp [Sys.mapLocks, tr_remove_all_for_agent _ hn, bne_decide]

end Operon.Coord
